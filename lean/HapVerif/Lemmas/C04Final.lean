import HapVerif.Lemmas.C04Rebuild
import HapVerif.Lemmas.C04Spec
/-!
# C04 — glue for the property theorems: entries of a rule list are distinct, admissible host
iteration orders, reading `checkReq`.  Core only.
-/
namespace HapVerif.C04
open List

theorem entriesOf_orders (rules : List Rule) :
    (entriesOf rules).map (·.order) = range rules.length := by
  unfold entriesOf
  rw [map_map]
  have : ((fun e : Entry => e.order) ∘ fun x : Rule × Nat => addTarget x.1 x.2) = Prod.snd := by
    funext x; rfl
  rw [this, map_snd_zip (by simp)]

theorem nodup_of_map_nodup {α β : Type} (f : α → β) : ∀ {l : List α}, (l.map f).Nodup → l.Nodup
  | [], _ => nodup_nil
  | a :: l, h => by
    rw [map_cons, nodup_cons] at h
    rw [nodup_cons]
    exact ⟨fun ha => h.1 (mem_map.2 ⟨a, ha, rfl⟩), nodup_of_map_nodup f h.2⟩

theorem inj_of_map_nodup {α β : Type} (f : α → β) : ∀ {l : List α}, (l.map f).Nodup →
    ∀ a ∈ l, ∀ b ∈ l, f a = f b → a = b
  | [], _, _, h, _, _, _ => by simp at h
  | x :: l, h, a, ha, b, hb, hab => by
    rw [map_cons, nodup_cons] at h
    rcases mem_cons.1 ha with ha1 | ha1
    · rcases mem_cons.1 hb with hb1 | hb1
      · rw [ha1, hb1]
      · have : f x ∈ l.map f := mem_map.2 ⟨b, hb1, by rw [← hab, ha1]⟩
        exact absurd this h.1
    · rcases mem_cons.1 hb with hb1 | hb1
      · have : f x ∈ l.map f := mem_map.2 ⟨a, ha1, by rw [hab, hb1]⟩
        exact absurd this h.1
      · exact inj_of_map_nodup f h.2 a ha1 b hb1 hab

theorem entriesOf_esOK (rules : List Rule) : EsOK (entriesOf rules) := by
  have h : ((entriesOf rules).map (·.order)).Nodup := by rw [entriesOf_orders]; exact nodup_range
  exact ⟨nodup_of_map_nodup _ h, inj_of_map_nodup _ h⟩

theorem nodup_eraseDups : ∀ (l : List Str), l.eraseDups.Nodup
  | [] => by simp
  | a :: as => by
    rw [eraseDups_cons, nodup_cons]
    have : (as.filter fun b => !b == a).length < (a :: as).length :=
      Nat.lt_succ_of_le (length_filter_le _ _)
    refine ⟨?_, nodup_eraseDups _⟩
    intro h
    rw [mem_eraseDups, mem_filter] at h
    simp at h
termination_by l => l.length

/-- an admissible iteration order over the hosts (Go map iteration): no host twice, none missing -/
def HostOrderOK (es : List Entry) (ho : List Str) : Prop := ho.Nodup ∧ ∀ e ∈ es, e.host ∈ ho

theorem hostOrderOK_of_perm {es : List Entry} {ho : List Str} (h : ho.Perm (hostsOf es)) :
    HostOrderOK es ho := by
  refine ⟨h.nodup_iff.2 (nodup_eraseDups _), fun e he => h.mem_iff.2 ?_⟩
  unfold hostsOf
  rw [mem_eraseDups]
  exact mem_map.2 ⟨e, he, rfl⟩

theorem checkReq_none_iff {rules : List Rule} {fs : List MFile} {h q : Str} :
    checkReq rules fs h q = none ↔
      (match lookupFiles fs (sampleOf h q) with
       | none => best rules h q = []
       | some t => t ∈ best rules h q) := by
  unfold checkReq
  cases hg : lookupFiles fs (sampleOf h q) with
  | none => simp
  | some t =>
    simp only
    by_cases hc : (best rules h q).contains t = true
    · simp [contains_iff_mem.1 hc]
    · have : t ∉ best rules h q := fun h => hc (contains_iff_mem.2 h)
      simp only [hc, this, iff_false, Bool.false_eq_true, if_false]
      repeat' split
      all_goals simp

end HapVerif.C04
