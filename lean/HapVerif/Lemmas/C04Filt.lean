import HapVerif.Model.C04Filt
import HapVerif.Lemmas.C04Final
/-!
# C04 — entries with header filters: the pre-sort puts the entries with filter first and leaves the others in
the order of the filter-less model; the scan of a host treats the entries without filter as `processHost`;
every entry with filter is moved to `listWithFilters`; `rebuildFV` = filter files ++ filter-less `rebuildV`.
Core only.
-/
namespace HapVerif.C04
open List

/-! ## Go's insertion sort against the left insertion of the filter-less model -/

theorem ltStr_total : ∀ {a b : Str}, a ≠ b → ltStr a b = true ∨ ltStr b a = true
  | [], [], h => absurd rfl h
  | [], _ :: _, _ => Or.inl rfl
  | _ :: _, [], _ => Or.inr rfl
  | x :: xs, y :: ys, h => by
    simp only [ltStr]
    by_cases a1 : x.toNat < y.toNat
    · simp [a1]
    · by_cases a2 : y.toNat < x.toNat
      · simp [a2]
      · have exy : x = y := Char.toNat_inj.1 (by omega)
        subst exy
        have hne : xs ≠ ys := fun e => h (by rw [e])
        simpa [a1] using ltStr_total hne

/-- negative transitivity (with asymmetry and transitivity: a strict weak order) -/
def NegTrans {α} (lt : α → α → Bool) : Prop := ∀ a b c, lt a b = true → lt a c = true ∨ lt c b = true

theorem pathGt_negTrans : NegTrans pathGt := by
  intro a b c h
  unfold pathGt at *
  by_cases e : lower b.path = lower c.path
  · left; rw [← e]; exact h
  · rcases ltStr_total e with h1 | h1
    · right; exact h1
    · left; exact ltStr_trans h1 h

theorem insGo_cons_pos {α} {lt : α → α → Bool} {x y : α} {ys : List α}
    (h : (y :: ys).all (lt x ·) = true) : insGo lt x (y :: ys) = x :: y :: ys := by
  rw [insGo, if_pos h]

theorem insGo_cons_neg {α} {lt : α → α → Bool} {x y : α} {ys : List α}
    (h : ¬ (y :: ys).all (lt x ·) = true) : insGo lt x (y :: ys) = y :: insGo lt x ys := by
  rw [insGo, if_neg h]

theorem insGo_eq_insertBy {lt : Entry → Entry → Bool} (nt : NegTrans lt) (x : Entry) :
    ∀ l : List Entry, SortedBy lt l → insGo lt x l = insertBy lt x l
  | [], _ => rfl
  | y :: ys, hs => by
    unfold SortedBy at hs
    rw [pairwise_cons] at hs
    unfold insGo insertBy
    by_cases hxy : lt x y = true
    · have hall : (y :: ys).all (lt x ·) = true := by
        rw [all_cons, hxy, Bool.true_and, all_eq_true]
        intro z hz
        rcases nt x y z hxy with h | h
        · exact h
        · rw [hs.1 z hz] at h; exact absurd h (by decide)
      rw [if_pos hall, if_pos hxy]
    · have hall : ¬ (y :: ys).all (lt x ·) = true := by
        rw [all_cons]; simp [hxy]
      rw [if_neg hall, if_neg hxy, insGo_eq_insertBy nt x ys hs.2]

theorem insGo_map {α β} {lt1 : α → α → Bool} {lt2 : β → β → Bool} (f : α → β)
    (h : ∀ a b, lt2 (f a) (f b) = lt1 a b) (x : α) :
    ∀ l : List α, insGo lt2 (f x) (l.map f) = (insGo lt1 x l).map f
  | [] => rfl
  | y :: ys => by
    have hall : (map f (y :: ys)).all (lt2 (f x) ·) = (y :: ys).all (lt1 x ·) := by
      rw [all_map]; congr 1; funext z; exact h x z
    rw [map_cons] at hall ⊢
    unfold insGo
    rw [hall]
    split
    · rfl
    · rw [map_cons, insGo_map f h x ys]

/-- `x` is less than everything behind `F`: it is inserted inside `F` -/
theorem insGo_append_right {α} {lt : α → α → Bool} (x : α) (S : List α) (hS : ∀ y ∈ S, lt x y = true) :
    ∀ F : List α, insGo lt x (F ++ S) = insGo lt x F ++ S
  | [] => by
    cases S with
    | nil => rfl
    | cons y ys =>
      have : (y :: ys).all (lt x ·) = true := all_eq_true.2 hS
      simp only [nil_append, insGo, this, if_true, cons_append]
  | f :: fs => by
    have hall : (f :: (fs ++ S)).all (lt x ·) = (f :: fs).all (lt x ·) := by
      rw [← cons_append, all_append, all_eq_true.2 hS, Bool.and_true]
    rw [cons_append]
    unfold insGo
    rw [hall]
    split
    · rfl
    · rw [insGo_append_right x S hS fs, cons_append]

/-- `x` is less than nothing of `F`: it is inserted behind `F` -/
theorem insGo_append_left {α} {lt : α → α → Bool} (x : α) (S : List α) :
    ∀ F : List α, (∀ y ∈ F, lt x y = false) → insGo lt x (F ++ S) = F ++ insGo lt x S
  | [], _ => rfl
  | f :: fs, hF => by
    have hf : lt x f = false := hF f mem_cons_self
    have : ¬ (f :: (fs ++ S)).all (lt x ·) = true := by rw [all_cons, hf]; simp
    rw [cons_append, insGo_cons_neg this, insGo_append_left x S fs (fun y hy => hF y (mem_cons_of_mem _ hy)),
      cons_append]

theorem mem_insGo {α} {lt : α → α → Bool} {x y : α} : ∀ {l : List α}, y ∈ insGo lt x l ↔ y = x ∨ y ∈ l
  | [] => by simp [insGo]
  | z :: zs => by
    unfold insGo
    split
    · simp
    · rw [mem_cons, mem_insGo (l := zs), mem_cons]
      constructor
      · rintro (h | h | h)
        · exact Or.inr (Or.inl h)
        · exact Or.inl h
        · exact Or.inr (Or.inr h)
      · rintro (h | h | h)
        · exact Or.inr (Or.inl h)
        · exact Or.inl h
        · exact Or.inr (Or.inr h)

/-- an entry without filter, seen as an entry of the extended model -/
def liftU (e : Entry) : FEntry := ⟨e, none⟩

/-- the entries without filter, as entries of the filter-less model -/
def unfE (l : List FEntry) : List Entry := (l.filter (!·.hasFilter)).map (·.e)

theorem liftU_of_not_hasFilter {x : FEntry} (h : x.hasFilter = false) : liftU x.e = x := by
  cases x with
  | mk e hd =>
    cases hd with
    | none => rfl
    | some l => simp [FEntry.hasFilter] at h

theorem hasFilter_liftU (e : Entry) : (liftU e).hasFilter = false := rfl

theorem unfE_cons_filt {x : FEntry} {l : List FEntry} (h : x.hasFilter = true) : unfE (x :: l) = unfE l := by
  simp [unfE, h]

theorem unfE_cons_unf {x : FEntry} {l : List FEntry} (h : x.hasFilter = false) :
    unfE (x :: l) = x.e :: unfE l := by
  simp [unfE, h]

theorem unfE_map_liftU (S : List Entry) : unfE (S.map liftU) = S := by
  induction S with
  | nil => rfl
  | cons a as ih => rw [map_cons, unfE_cons_unf (hasFilter_liftU a), ih]; rfl

theorem ltF_liftU (gt : Entry → Entry → Bool) (a b : Entry) : ltF gt (liftU a) (liftU b) = gt a b := by
  simp [ltF, liftU]

/-- the invariant of the pre-sort: entries with filter in front, the others sorted as in the filter-less model -/
theorem foldl_insGo_split {gt : Entry → Entry → Bool} (so : StrictOn (fun _ => True) gt) (nt : NegTrans gt) :
    ∀ (l F : List FEntry) (S : List Entry), (∀ x ∈ F, x.hasFilter = true) → SortedBy gt S →
      ∃ F', l.foldl (fun acc x => insGo (ltF gt) x acc) (F ++ S.map liftU) =
          F' ++ ((unfE l).foldl (fun acc x => insertBy gt x acc) S).map liftU ∧
        (∀ x, x ∈ F' ↔ x ∈ F ∨ (x ∈ l ∧ x.hasFilter = true))
  | [], F, S, _, _ => ⟨F, rfl, fun x => by simp⟩
  | x :: xs, F, S, hF, hS => by
    rw [foldl_cons]
    cases hx : x.hasFilter with
    | true =>
      have h1 : insGo (ltF gt) x (F ++ S.map liftU) = insGo (ltF gt) x F ++ S.map liftU := by
        apply insGo_append_right
        intro y hy
        obtain ⟨e, _, rfl⟩ := mem_map.1 hy
        have : x.headers ≠ none := by
          intro h0; simp [FEntry.hasFilter, h0] at hx
        simp [ltF, liftU, this, hx]
      rw [h1, unfE_cons_filt hx]
      obtain ⟨F', e, hm⟩ := foldl_insGo_split so nt xs (insGo (ltF gt) x F) S
        (fun y hy => by
          rcases mem_insGo.1 hy with rfl | hy
          · exact hx
          · exact hF y hy) hS
      refine ⟨F', e, fun y => ?_⟩
      rw [hm y, mem_insGo, mem_cons]
      constructor
      · rintro ((rfl | h) | h)
        · exact Or.inr ⟨Or.inl rfl, hx⟩
        · exact Or.inl h
        · exact Or.inr ⟨Or.inr h.1, h.2⟩
      · rintro (h | ⟨rfl | h, h2⟩)
        · exact Or.inl (Or.inr h)
        · exact Or.inl (Or.inl rfl)
        · exact Or.inr ⟨h, h2⟩
    | false =>
      have hxe : liftU x.e = x := liftU_of_not_hasFilter hx
      have h1 : insGo (ltF gt) x (F ++ S.map liftU) = F ++ (insertBy gt x.e S).map liftU := by
        rw [insGo_append_left x _ F]
        · congr 1
          have h2 := insGo_map liftU (ltF_liftU gt) x.e S
          rw [hxe] at h2
          rw [h2, insGo_eq_insertBy nt x.e S hS]
        · intro y hy
          have hy' := hF y hy
          have : x.headers = none := by
            cases h0 : x.headers with
            | none => rfl
            | some l => simp [FEntry.hasFilter, h0] at hx
          have hy0 : y.headers ≠ none := by
            intro h0; simp [FEntry.hasFilter, h0] at hy'
          simp [ltF, this, hx, Ne.symm hy0]
      rw [h1, unfE_cons_unf hx, foldl_cons]
      obtain ⟨F', e, hm⟩ := foldl_insGo_split so nt xs F (insertBy gt x.e S) hF
        (insertBy_sorted so x.e trivial S (fun _ _ => trivial) hS)
      refine ⟨F', e, fun y => ?_⟩
      rw [hm y, mem_cons]
      constructor
      · rintro (h | h)
        · exact Or.inl h
        · exact Or.inr ⟨Or.inr h.1, h.2⟩
      · rintro (h | ⟨rfl | h, h2⟩)
        · exact Or.inl h
        · rw [hx] at h2; exact absurd h2 (by decide)
        · exact Or.inr ⟨h, h2⟩

theorem sortGo_split {gt : Entry → Entry → Bool} (so : StrictOn (fun _ => True) gt) (nt : NegTrans gt)
    (l : List FEntry) :
    ∃ F, sortGo (ltF gt) l = F ++ (sortBy gt (unfE l)).map liftU ∧
      (∀ x, x ∈ F ↔ x ∈ l ∧ x.hasFilter = true) := by
  obtain ⟨F, e, hm⟩ := foldl_insGo_split so nt l [] [] (by simp) Pairwise.nil
  refine ⟨F, ?_, fun x => by rw [hm x]; simp⟩
  simpa [sortGo, sortBy] using e

theorem mem_foldl_insGo {α} {lt : α → α → Bool} {y : α} :
    ∀ (l acc : List α), y ∈ l.foldl (fun acc x => insGo lt x acc) acc ↔ y ∈ l ∨ y ∈ acc
  | [], acc => by simp
  | x :: xs, acc => by
    rw [foldl_cons, mem_foldl_insGo xs, mem_insGo, mem_cons]
    constructor
    · rintro (h | h | h)
      · exact Or.inl (Or.inr h)
      · exact Or.inl (Or.inl h)
      · exact Or.inr h
    · rintro ((h | h) | h)
      · exact Or.inr (Or.inl h)
      · exact Or.inl h
      · exact Or.inr (Or.inr h)

theorem mem_sortGo {α} {lt : α → α → Bool} {y : α} {l : List α} : y ∈ sortGo lt l ↔ y ∈ l := by
  simp [sortGo, mem_foldl_insGo]

/-! ## `listWithFilters` -/

def flEntries (fl : List FPFile) : List FEntry := fl.flatMap (·.entries)
def flOrders (fl : List FPFile) : List Nat := (flEntries fl).map (·.e.order)

theorem mem_findOrCreateF {x y : FEntry} :
    ∀ {fl : List FPFile}, y ∈ flEntries (findOrCreateF fl x) ↔ y ∈ flEntries fl ∨ y = x
  | [] => by simp [findOrCreateF, flEntries]
  | f :: fs => by
    unfold findOrCreateF
    split
    · simp only [flEntries, flatMap_cons, mem_append, mem_singleton]
      constructor
      · rintro ((h | h) | h)
        · exact Or.inl (Or.inl h)
        · exact Or.inr h
        · exact Or.inl (Or.inr h)
      · rintro ((h | h) | h)
        · exact Or.inl (Or.inl h)
        · exact Or.inr h
        · exact Or.inl (Or.inr h)
    · have ih := mem_findOrCreateF (x := x) (y := y) (fl := fs)
      simp only [flEntries, flatMap_cons, mem_append] at ih ⊢
      rw [ih]
      constructor
      · rintro (h | h | h)
        · exact Or.inl (Or.inl h)
        · exact Or.inl (Or.inr h)
        · exact Or.inr h
      · rintro ((h | h) | h)
        · exact Or.inl h
        · exact Or.inr (Or.inl h)
        · exact Or.inr (Or.inr h)

/-- every filter file is non-empty, holds entries of `P` only, and its `headers` are those of its entries -/
def FlInv (P : FEntry → Prop) (fl : List FPFile) : Prop :=
  ∀ f ∈ fl, f.entries ≠ [] ∧ ∀ x ∈ f.entries, P x ∧ x.headers = f.headers

theorem findOrCreateF_inv {P : FEntry → Prop} {x : FEntry} (hP : P x) :
    ∀ {fl : List FPFile}, FlInv P fl → FlInv P (findOrCreateF fl x)
  | [], _ => by
    intro f hf
    simp only [findOrCreateF, mem_singleton] at hf
    subst hf
    exact ⟨by simp, fun y hy => by simp only [mem_singleton] at hy; subst hy; exact ⟨hP, rfl⟩⟩
  | g :: gs, h => by
    unfold findOrCreateF
    split
    · rename_i hc
      intro f hf
      rcases mem_cons.1 hf with rfl | hf
      · refine ⟨by simp, fun y hy => ?_⟩
        rcases mem_append.1 hy with hy | hy
        · exact (h g mem_cons_self).2 y hy
        · simp only [mem_singleton] at hy; subst hy; exact ⟨hP, hc.2.symm⟩
      · exact h f (mem_cons_of_mem _ hf)
    · intro f hf
      rcases mem_cons.1 hf with rfl | hf
      · exact h f mem_cons_self
      · exact findOrCreateF_inv hP (fun f' hf' => h f' (mem_cons_of_mem _ hf')) f hf

/-- invariant of the scan state: `FlInv`, and `_elem != nil` only for entries that sit in a filter file -/
structure StInv (P : FEntry → Prop) (st : FSt) : Prop where
  fl : FlInv P st.fl
  done : ∀ o ∈ st.done, o ∈ flOrders st.fl

/-- `st'` extends the filter files of `st` -/
structure FlExt (P : FEntry → Prop) (st st' : FSt) : Prop where
  inv : StInv P st'
  mono : ∀ o ∈ flOrders st.fl, o ∈ flOrders st'.fl

theorem FlExt.refl {P : FEntry → Prop} {st : FSt} (h : StInv P st) : FlExt P st st := ⟨h, fun _ h => h⟩

theorem FlExt.trans {P : FEntry → Prop} {a b c : FSt} (h1 : FlExt P a b) (h2 : FlExt P b c) : FlExt P a c :=
  ⟨h2.inv, fun o ho => h2.mono o (h1.mono o ho)⟩

theorem placeF_prio (st : FSt) (x : FEntry) : (placeF st x).prio = st.prio ∧ (placeF st x).upper = st.upper := by
  unfold placeF; split <;> exact ⟨rfl, rfl⟩

theorem placeF_ext {P : FEntry → Prop} {st : FSt} {x : FEntry} (hP : P x) (h : StInv P st) :
    FlExt P st (placeF st x) ∧ x.e.order ∈ flOrders (placeF st x).fl := by
  unfold placeF
  split
  · rename_i hc
    exact ⟨FlExt.refl h, h.done _ (by simpa using hc)⟩
  · have hmem : ∀ y, y ∈ flEntries st.fl → y ∈ flEntries (findOrCreateF st.fl x) :=
      fun y hy => mem_findOrCreateF.2 (Or.inl hy)
    have hmono : ∀ o ∈ flOrders st.fl, o ∈ flOrders (findOrCreateF st.fl x) := by
      intro o ho
      obtain ⟨y, hy, rfl⟩ := mem_map.1 ho
      exact mem_map.2 ⟨y, hmem y hy, rfl⟩
    have hx : x.e.order ∈ flOrders (findOrCreateF st.fl x) :=
      mem_map.2 ⟨x, mem_findOrCreateF.2 (Or.inr rfl), rfl⟩
    refine ⟨⟨⟨findOrCreateF_inv hP h.fl, ?_⟩, hmono⟩, hx⟩
    intro o ho
    rcases mem_cons.1 ho with rfl | ho
    · exact hx
    · exact hmono o (h.done o ho)

theorem placeFilt_prio : ∀ (l : List FEntry) (st : FSt),
    (placeFilt st l).prio = st.prio ∧ (placeFilt st l).upper = st.upper
  | [], _ => ⟨rfl, rfl⟩
  | y :: ys, st => by
    unfold placeFilt
    rw [foldl_cons]
    have ih := placeFilt_prio ys (if y.hasFilter then placeF st y else st)
    unfold placeFilt at ih
    rw [ih.1, ih.2]
    split
    · exact placeF_prio st y
    · exact ⟨rfl, rfl⟩

theorem placeFilt_unf : ∀ (l : List FEntry) (st : FSt), (∀ y ∈ l, y.hasFilter = false) → placeFilt st l = st
  | [], _, _ => rfl
  | y :: ys, st, h => by
    unfold placeFilt
    rw [foldl_cons, h y mem_cons_self]
    exact placeFilt_unf ys st (fun z hz => h z (mem_cons_of_mem _ hz))

theorem placeFilt_ext {P : FEntry → Prop} : ∀ (l : List FEntry) (st : FSt),
    (∀ y ∈ l, y.hasFilter = true → P y) → StInv P st →
    FlExt P st (placeFilt st l) ∧ ∀ y ∈ l, y.hasFilter = true → y.e.order ∈ flOrders (placeFilt st l).fl
  | [], st, _, h => ⟨FlExt.refl h, fun _ hy => absurd hy not_mem_nil⟩
  | y :: ys, st, hl, h => by
    have hl' : ∀ z ∈ ys, z.hasFilter = true → P z := fun z hz => hl z (mem_cons_of_mem _ hz)
    unfold placeFilt
    rw [foldl_cons]
    cases hy : y.hasFilter with
    | false =>
      have ih := placeFilt_ext ys st hl' h
      unfold placeFilt at ih
      simp only [Bool.false_eq_true, if_false]
      refine ⟨ih.1, fun z hz hzf => ?_⟩
      rcases mem_cons.1 hz with rfl | hz
      · rw [hy] at hzf; exact absurd hzf (by decide)
      · exact ih.2 z hz hzf
    | true =>
      obtain ⟨e1, p1⟩ := placeF_ext (hl y mem_cons_self hy) h
      have ih := placeFilt_ext ys (placeF st y) hl' e1.inv
      unfold placeFilt at ih
      simp only [if_true]
      refine ⟨e1.trans ih.1, fun z hz hzf => ?_⟩
      rcases mem_cons.1 hz with rfl | hz
      · exact ih.1.mono _ p1
      · exact ih.2 z hz hzf

/-! ## the scan of one host -/

theorem stInv_congr {P : FEntry → Prop} {a b : FSt} (hf : b.fl = a.fl) (hd : b.done = a.done) (h : StInv P a) :
    StInv P b := ⟨by rw [hf]; exact h.fl, by rw [hf, hd]; exact h.done⟩

/-- the scan only extends the filter files -/
theorem hostLoopF_ext {P : FEntry → Prop} (v : Variant) : ∀ (l : List FEntry) (st : FSt),
    (∀ y ∈ l, y.hasFilter = true → P y) → StInv P st → FlExt P st (hostLoopF v st l)
  | [], st, _, h => FlExt.refl h
  | e1 :: rest, st, hl, h => by
    have hl' : ∀ z ∈ rest, z.hasFilter = true → P z := fun z hz => hl z (mem_cons_of_mem _ hz)
    unfold hostLoopF
    cases h1 : e1.hasFilter with
    | true =>
      simp only [if_true]
      have e0 : FlExt P st (if rest.isEmpty then st else placeF st e1) := by
        split
        · exact FlExt.refl h
        · exact (placeF_ext (hl e1 mem_cons_self h1) h).1
      have e1' := (placeFilt_ext rest _ hl' e0.inv).1
      exact (e0.trans e1').trans (hostLoopF_ext v rest _ hl' e1'.inv)
    | false =>
      simp only [Bool.false_eq_true, if_false]
      have e1' := (placeFilt_ext rest st hl' h).1
      have key : ∀ (p : List PFile) (u : Nat → Option Nat),
          FlExt P (placeFilt st rest) (hostLoopF v { placeFilt st rest with prio := p, upper := u } rest) :=
        fun p u =>
          have h' := hostLoopF_ext v rest { placeFilt st rest with prio := p, upper := u } hl'
            ⟨e1'.inv.fl, e1'.inv.done⟩
          ⟨h'.inv, h'.mono⟩
      split
      · exact e1'.trans (key _ _)
      · exact e1'.trans (hostLoopF_ext v rest _ hl' e1'.inv)

/-- with at least two entries, the first iteration moves every entry with filter -/
theorem hostLoopF_placed {P : FEntry → Prop} (v : Variant) (e1 e2 : FEntry) (r : List FEntry) (st : FSt)
    (hl : ∀ y ∈ e1 :: e2 :: r, y.hasFilter = true → P y) (h : StInv P st) :
    ∀ y ∈ e1 :: e2 :: r, y.hasFilter = true → y.e.order ∈ flOrders (hostLoopF v st (e1 :: e2 :: r)).fl := by
  have hl' : ∀ z ∈ e2 :: r, z.hasFilter = true → P z := fun z hz => hl z (mem_cons_of_mem _ hz)
  intro y hy hyf
  unfold hostLoopF
  cases h1 : e1.hasFilter with
  | true =>
    simp only [if_true, isEmpty_cons, Bool.false_eq_true, if_false]
    obtain ⟨x0, p0⟩ := placeF_ext (hl e1 mem_cons_self h1) h
    obtain ⟨x1, p1⟩ := placeFilt_ext (e2 :: r) _ hl' x0.inv
    have x2 := hostLoopF_ext v (e2 :: r) _ hl' x1.inv
    rcases mem_cons.1 hy with rfl | hy
    · exact x2.mono _ (x1.mono _ p0)
    · exact x2.mono _ (p1 y hy hyf)
  | false =>
    simp only [Bool.false_eq_true, if_false]
    obtain ⟨x1, p1⟩ := placeFilt_ext (e2 :: r) st hl' h
    have hy' : y ∈ e2 :: r := by
      rcases mem_cons.1 hy with rfl | hy
      · rw [h1] at hyf; exact absurd hyf (by decide)
      · exact hy
    have key : ∀ (p : List PFile) (u : Nat → Option Nat),
        FlExt P (placeFilt st (e2 :: r)) (hostLoopF v { placeFilt st (e2 :: r) with prio := p, upper := u } (e2 :: r)) :=
      fun p u =>
        have h' := hostLoopF_ext v (e2 :: r) { placeFilt st (e2 :: r) with prio := p, upper := u } hl'
          ⟨x1.inv.fl, x1.inv.done⟩
        ⟨h'.inv, h'.mono⟩
    split
    · exact (key _ _).mono _ (p1 y hy' hyf)
    · exact (hostLoopF_ext v (e2 :: r) _ hl' x1.inv).mono _ (p1 y hy' hyf)

/-- on entries without filter the scan is `processHost` -/
theorem hostLoopF_unf (v : Variant) : ∀ (S : List Entry) (st : FSt),
    (hostLoopF v st (S.map liftU)).prio = processHost v st.prio st.upper S
  | [], _ => rfl
  | e1 :: rest, st => by
    rw [map_cons]
    unfold hostLoopF processHost
    have hu : ∀ y ∈ rest.map liftU, y.hasFilter = false := by
      intro y hy; obtain ⟨e, _, rfl⟩ := mem_map.1 hy; rfl
    have hus : ((rest.map liftU).filter (!·.hasFilter)).map (·.e) = rest := unfE_map_liftU rest
    have he : (liftU e1).e = e1 := rfl
    simp only [hasFilter_liftU, Bool.false_eq_true, if_false, placeFilt_unf _ st hu, hus, he]
    by_cases hc : (rest.any fun x => v.ov e1 x) = true
    · rw [if_pos hc, if_pos hc, hostLoopF_unf v rest]
    · rw [if_neg hc, if_neg hc, hostLoopF_unf v rest]

/-- entries with filter in front do not touch `order` -/
theorem hostLoopF_split (v : Variant) (S : List Entry) : ∀ (F : List FEntry) (st : FSt),
    (∀ x ∈ F, x.hasFilter = true) →
    (hostLoopF v st (F ++ S.map liftU)).prio = processHost v st.prio st.upper S
  | [], st, _ => hostLoopF_unf v S st
  | e1 :: F, st, hF => by
    rw [cons_append]
    unfold hostLoopF
    simp only [hF e1 mem_cons_self, if_true]
    rw [hostLoopF_split v S F _ (fun x hx => hF x (mem_cons_of_mem _ hx))]
    have h1 := placeFilt_prio (F ++ S.map liftU) (if (F ++ S.map liftU).isEmpty then st else placeF st e1)
    rw [h1.1, h1.2]
    split
    · rfl
    · rw [(placeF_prio st e1).1, (placeF_prio st e1).2]

/-! ## one host, all hosts -/

theorem unfE_filter_host (es : List FEntry) (h : Str) :
    unfE (es.filter (·.e.host = h)) = (unfE es).filter (·.host = h) := by
  induction es with
  | nil => rfl
  | cons x xs ih =>
    cases hx : x.hasFilter with
    | true =>
      rw [unfE_cons_filt hx, filter_cons]
      split
      · rw [unfE_cons_filt hx, ih]
      · exact ih
    | false =>
      rw [unfE_cons_unf hx, filter_cons, filter_cons]
      by_cases hh : x.e.host = h
      · subst hh
        simp only [decide_true, if_true]
        rw [unfE_cons_unf hx, ih]
      · simp only [hh, decide_false, Bool.false_eq_true, if_false]
        exact ih

theorem hostF_prio {v : Variant} (so : StrictOn (fun _ => True) v.gt) (nt : NegTrans v.gt)
    (st : FSt) (l : List FEntry) :
    (hostF v st l).prio = processHost v st.prio (fun _ => none) (sortBy v.gt (unfE l)) := by
  obtain ⟨F, hs, hm⟩ := sortGo_split so nt l
  unfold hostF
  simp only
  rw [hs, hostLoopF_split v _ F _ (fun x hx => ((hm x).1 hx).2)]
  dsimp only
  congr 1
  split
  · split
    · exact (placeF_prio st _).1
    · rfl
  · rfl

theorem hostF_ext {P : FEntry → Prop} (v : Variant) (st : FSt) (l : List FEntry)
    (hl : ∀ y ∈ l, y.hasFilter = true → P y) (h : StInv P st) :
    FlExt P st (hostF v st l) ∧ ∀ y ∈ l, y.hasFilter = true → y.e.order ∈ flOrders (hostF v st l).fl := by
  have hmem : ∀ y, y ∈ l → y ∈ sortGo (ltF v.gt) l := fun y hy => mem_sortGo.2 hy
  have hs : ∀ y ∈ sortGo (ltF v.gt) l, y.hasFilter = true → P y := fun y hy => hl y (mem_sortGo.1 hy)
  have key : ∀ (st0 : FSt) (u : Nat → Option Nat), StInv P st0 → ∀ (s : List FEntry),
      (∀ y ∈ s, y.hasFilter = true → P y) → FlExt P st0 (hostLoopF v { st0 with upper := u } s) :=
    fun st0 u h0 s hs' =>
      have h' := hostLoopF_ext v s { st0 with upper := u } hs' ⟨h0.fl, h0.done⟩
      ⟨h'.inv, h'.mono⟩
  unfold hostF
  simp only
  generalize sortGo (ltF v.gt) l = s at hs hmem
  match s, hs, hmem with
  | [], _, hmem =>
    exact ⟨key st _ h [] (fun _ hy => absurd hy not_mem_nil), fun y hy => absurd (hmem y hy) not_mem_nil⟩
  | [x], hs, hmem =>
    cases hx : x.hasFilter with
    | true =>
      obtain ⟨e0, p0⟩ := placeF_ext (hs x mem_cons_self hx) h
      simp only [hx, if_true]
      have k := key (placeF st x) (fun _ => none) e0.inv [x] hs
      refine ⟨e0.trans k, fun y hy _ => ?_⟩
      have : y = x := by simpa using hmem y hy
      subst this
      exact k.mono _ p0
    | false =>
      simp only [hx, Bool.false_eq_true, if_false]
      refine ⟨key st _ h [x] hs, fun y hy hyf => ?_⟩
      have : y = x := by simpa using hmem y hy
      subst this
      rw [hx] at hyf; exact absurd hyf (by decide)
  | e1 :: e2 :: r, hs, hmem =>
    refine ⟨key st _ h _ hs, fun y hy hyf => ?_⟩
    exact hostLoopF_placed v e1 e2 r { st with upper := fun _ => none } hs ⟨h.fl, h.done⟩ y (hmem y hy) hyf

theorem buildF_spec {P : FEntry → Prop} {v : Variant} (so : StrictOn (fun _ => True) v.gt) (nt : NegTrans v.gt)
    (es : List FEntry) (hP : ∀ x ∈ es, x.hasFilter = true → P x) : ∀ (π : List Str) (st : FSt), StInv P st →
    (π.foldl (fun st h => hostF v st (es.filter (·.e.host = h))) st).prio =
        π.foldl (fun prio h => processHost v prio (fun _ => none) (sortBy v.gt ((unfE es).filter (·.host = h)))) st.prio ∧
      FlExt P st (π.foldl (fun st h => hostF v st (es.filter (·.e.host = h))) st) ∧
      ∀ x ∈ es, x.hasFilter = true → x.e.host ∈ π →
        x.e.order ∈ flOrders (π.foldl (fun st h => hostF v st (es.filter (·.e.host = h))) st).fl
  | [], st, h => ⟨rfl, FlExt.refl h, fun _ _ _ hx => absurd hx not_mem_nil⟩
  | h0 :: π, st, h => by
    have hl : ∀ y ∈ es.filter (·.e.host = h0), y.hasFilter = true → P y :=
      fun y hy => hP y (mem_filter.1 hy).1
    obtain ⟨e0, p0⟩ := hostF_ext v st (es.filter (·.e.host = h0)) hl h
    obtain ⟨i1, i2, i3⟩ := buildF_spec so nt es hP π (hostF v st (es.filter (·.e.host = h0))) e0.inv
    rw [foldl_cons, foldl_cons]
    refine ⟨?_, e0.trans i2, fun x hx hxf hxh => ?_⟩
    · rw [i1, hostF_prio so nt, unfE_filter_host]
    · by_cases hh : x.e.host = h0
      · exact i2.mono _ (p0 x (mem_filter.2 ⟨hx, by simpa using hh⟩) hxf)
      · rcases mem_cons.1 hxh with h' | h'
        · exact absurd h' hh
        · exact i3 x hx hxf h'

theorem buildF_prio {v : Variant} (so : StrictOn (fun _ => True) v.gt) (nt : NegTrans v.gt)
    (es : List FEntry) (π : List Str) : (buildF v es π).prio = buildPrio v (unfE es) π :=
  (buildF_spec (P := fun _ => True) so nt es (fun _ _ _ => trivial) π _
    ⟨fun _ hf => absurd hf not_mem_nil, fun _ ho => absurd ho not_mem_nil⟩).1

/-! ## `rebuildFV` = filter files ++ the filter-less `rebuildV` -/

def flFiles (fl : List FPFile) : List FFile :=
  fl.map fun f => ⟨mkFile f.mt (f.entries.map (·.e)), f.headers⟩

theorem filter_unf_map (es : List FEntry) (p : FEntry → Bool) (q : Entry → Bool)
    (h : ∀ x ∈ es, p x = (!x.hasFilter && q x.e)) :
    (es.filter p).map (·.e) = (unfE es).filter q := by
  induction es with
  | nil => rfl
  | cons x xs ih =>
    have ih' := ih (fun y hy => h y (mem_cons_of_mem _ hy))
    have hx := h x mem_cons_self
    cases hf : x.hasFilter with
    | true =>
      rw [hf] at hx
      rw [unfE_cons_filt hf, filter_cons, hx]
      simpa using ih'
    | false =>
      rw [hf] at hx
      rw [unfE_cons_unf hf, filter_cons, filter_cons, hx]
      simp only [Bool.not_false, Bool.true_and]
      split
      · rw [map_cons, ih']
      · exact ih'

theorem rebuildFV_split {v : Variant} (so : StrictOn (fun _ => True) v.gt) (nt : NegTrans v.gt)
    (mo : List MT) (es : List FEntry) (π : List Str)
    (hsep : ∀ x ∈ es, x.hasFilter = false → ∀ y ∈ es, y.hasFilter = true → y.e.order ≠ x.e.order)
    (hπ : ∀ x ∈ es, x.hasFilter = true → x.e.host ∈ π) :
    rebuildFV v mo es π = flFiles (buildF v es π).fl ++ (rebuildV v mo (unfE es) π).map plain ∧
      FlInv (fun x => x ∈ es ∧ x.hasFilter = true) (buildF v es π).fl := by
  obtain ⟨i1, i2, i3⟩ := buildF_spec (P := fun x => x ∈ es ∧ x.hasFilter = true) so nt es
    (fun x hx hf => ⟨hx, hf⟩) π ⟨[], fun _ => none, [], []⟩
    ⟨fun _ hf => absurd hf not_mem_nil, fun _ ho => absurd ho not_mem_nil⟩
  refine ⟨?_, i2.inv.fl⟩
  have hprio : (buildF v es π).prio = buildPrio v (unfE es) π := buildF_prio so nt es π
  have hrest : (es.filter fun x =>
        !((((buildPrio v (unfE es) π).flatMap (·.entries)).map (·.order)) ++
          (((buildF v es π).fl.flatMap (·.entries)).map (·.e.order))).contains x.e.order).map (·.e) =
      (unfE es).filter fun e => !(((buildPrio v (unfE es) π).flatMap (·.entries)).map (·.order)).contains e.order := by
    apply filter_unf_map
    intro x hx
    cases hf : x.hasFilter with
    | true =>
      have : x.e.order ∈ flOrders (buildF v es π).fl := i3 x hx hf (hπ x hx hf)
      have : (((buildPrio v (unfE es) π).flatMap (·.entries)).map (·.order) ++
          (((buildF v es π).fl.flatMap (·.entries)).map (·.e.order))).contains x.e.order = true := by
        rw [contains_eq_mem, decide_eq_true_eq, mem_append]; exact Or.inr this
      rw [this]; rfl
    | false =>
      have hn : x.e.order ∉ flOrders (buildF v es π).fl := by
        intro hm
        obtain ⟨y, hy, hyo⟩ := mem_map.1 hm
        obtain ⟨f, hf1, hf2⟩ := mem_flatMap.1 hy
        have hPy := ((i2.inv.fl f hf1).2 y hf2).1
        exact hsep x hx hf y hPy.1 hPy.2 hyo
      simp only [Bool.not_false, Bool.true_and]
      congr 1
      rw [contains_eq_mem, contains_eq_mem]
      apply decide_eq_decide.2
      rw [mem_append]
      exact ⟨fun h => h.resolve_right hn, Or.inl⟩
  unfold rebuildFV rebuildV
  simp only [hprio]
  simp only [hrest, flFiles]

theorem sep_of_nodup {es : List FEntry} (hnd : (es.map (·.e.order)).Nodup) :
    ∀ x ∈ es, x.hasFilter = false → ∀ y ∈ es, y.hasFilter = true → y.e.order ≠ x.e.order := by
  intro x hx hxf y hy hyf ho
  have : y = x := inj_of_map_nodup (fun z : FEntry => z.e.order) hnd y hy x hx ho
  rw [this, hxf] at hyf
  exact absurd hyf (by decide)

/-! ## lookups -/

theorem lookupFilesF_append (sat : HMatch → Bool) (A B : List FFile) (s : Str) :
    lookupFilesF sat (A ++ B) s = (lookupFilesF sat A s).or (lookupFilesF sat B s) := by
  unfold lookupFilesF; exact findSome?_append

theorem lookupFilesF_plain (sat : HMatch → Bool) (B : List MFile) (s : Str) :
    lookupFilesF sat (B.map plain) s = lookupFiles B s := by
  unfold lookupFilesF lookupFiles
  rw [findSome?_map]
  congr 1

theorem lookupFilesF_none {sat : HMatch → Bool} {A : List FFile} (h : ∀ f ∈ A, fileApplies sat f = false)
    (s : Str) : lookupFilesF sat A s = none := by
  unfold lookupFilesF
  rw [findSome?_eq_none_iff]
  intro f hf
  simp [h f hf]

/-! ## producers -/

theorem foldl_goAppend : ∀ (l : List HMatch) (s : Hdrs),
    l.foldl goAppend s = if l = [] then s else some (s.getD [] ++ l)
  | [], s => rfl
  | a :: as, s => by
    rw [foldl_cons, foldl_goAppend as]
    by_cases h : as = []
    · subst h; simp [goAppend]
    · simp [h, goAppend]

theorem produce_unfiltered {p : Producer} {decl : Option (List HMatch)} (h : decl.getD [] = []) (hp : p ≠ .seeded) :
    produce p decl = none := by
  cases p with
  | gateway => simp [produce, gatewayHeaders, h]
  | ingress => simp [produce, ingressHeaders, addHeadersMatch, h]
  | seeded => exact absurd rfl hp

theorem produce_filtered {p : Producer} {decl : Option (List HMatch)} (h : decl.getD [] ≠ []) (hp : p ≠ .seeded) :
    (produce p decl).isSome = true ∧ produce p decl ≠ some [] := by
  cases p with
  | gateway =>
    simp only [produce, gatewayHeaders, foldl_goAppend, h, if_false, Option.getD_none, nil_append]
    exact ⟨rfl, fun e => h (Option.some.inj e)⟩
  | ingress =>
    simp only [produce, ingressHeaders, addHeadersMatch]
    by_cases hB : (filter (fun x => x.regex) (decl.getD [])).isEmpty = true
    · have hA : ¬ (filter (fun x => !x.regex) (decl.getD [])).isEmpty = true := by
        intro hA
        rw [isEmpty_iff] at hA hB
        cases hl : decl.getD [] with
        | nil => exact h hl
        | cons a l =>
          rw [hl] at hA hB
          cases ha : a.regex with
          | true => simp [ha] at hB
          | false => simp [ha] at hA
      simp only [hB, hA, if_true, Bool.false_eq_true, if_false, Option.getD_none, nil_append]
      refine ⟨rfl, fun e => hA ?_⟩
      rw [Option.some.inj e]; rfl
    · simp only [hB, Bool.false_eq_true, if_false]
      refine ⟨rfl, fun e => hB ?_⟩
      have := Option.some.inj e
      rw [append_eq_nil_iff] at this
      rw [this.2]; rfl
  | seeded => exact absurd rfl hp

/-! ## entries of a declared rule list -/

theorem entriesOfF_zip (p : Producer) : ∀ (l : List FRule) (idx : List Nat),
    ((l.zip idx).map fun (ri : FRule × Nat) => (⟨addTarget ri.1.rule ri.2, produce p ri.1.decl⟩ : FEntry)).map (·.e) =
      ((l.map (·.rule)).zip idx).map fun (ri : Rule × Nat) => addTarget ri.1 ri.2
  | [], _ => rfl
  | _ :: _, [] => rfl
  | r :: rs, i :: is => by
    simp only [zip_cons_cons, map_cons]
    rw [entriesOfF_zip p rs is]

theorem entriesOfF_map_e (p : Producer) (rules : List FRule) :
    (entriesOfF p rules).map (·.e) = entriesOf (rules.map (·.rule)) := by
  unfold entriesOfF entriesOf
  rw [length_map]
  exact entriesOfF_zip p rules _

theorem entriesOfF_orders (p : Producer) (rules : List FRule) :
    (entriesOfF p rules).map (·.e.order) = range rules.length := by
  have : (entriesOfF p rules).map (·.e.order) = ((entriesOfF p rules).map (·.e)).map (·.order) := by
    rw [map_map]; rfl
  rw [this, entriesOfF_map_e, entriesOf_orders, length_map]

theorem mem_entriesOfF {p : Producer} {rules : List FRule} {x : FEntry} (hx : x ∈ entriesOfF p rules) :
    ∃ r ∈ rules, ∃ i, x = ⟨addTarget r.rule i, produce p r.decl⟩ := by
  unfold entriesOfF at hx
  obtain ⟨⟨r, i⟩, hri, rfl⟩ := mem_map.1 hx
  exact ⟨r, (of_mem_zip hri).1, i, rfl⟩

theorem unfE_all_unf : ∀ (l : List FEntry), (∀ x ∈ l, x.hasFilter = false) → unfE l = l.map (·.e)
  | [], _ => rfl
  | x :: xs, h => by
    rw [unfE_cons_unf (h x mem_cons_self), map_cons, unfE_all_unf xs (fun y hy => h y (mem_cons_of_mem _ hy))]

theorem unfE_all_filt : ∀ (l : List FEntry), (∀ x ∈ l, x.hasFilter = true) → unfE l = []
  | [], _ => rfl
  | x :: xs, h => by
    rw [unfE_cons_filt (h x mem_cons_self), unfE_all_filt xs (fun y hy => h y (mem_cons_of_mem _ hy))]

theorem unfE_append (a b : List FEntry) : unfE (a ++ b) = unfE a ++ unfE b := by
  simp [unfE, filter_append]

end HapVerif.C04
