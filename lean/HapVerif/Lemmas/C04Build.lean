import HapVerif.Lemmas.C04Host
/-!
# C04 — `buildPrio current`: the invariant kept across hosts.  Core only.
-/
namespace HapVerif.C04
open List

theorem sorted_before {lt : Entry → Entry → Bool} {L : List Entry} {x y : Entry}
    (hs : SortedBy lt L) (hx : x ∈ L) (hy : y ∈ L) (hlt : lt x y = true) (hirr : lt x x = false) :
    ∃ l1 l2, L = l1 ++ x :: l2 ∧ y ∈ l2 := by
  obtain ⟨l1, l2, rfl⟩ := append_of_mem hx
  refine ⟨l1, l2, rfl, ?_⟩
  rcases mem_append.1 hy with h | h
  · unfold SortedBy at hs
    have := (pairwise_append.1 hs).2.2 y h x mem_cons_self
    rw [hlt] at this; exact absurd this (by decide)
  · rcases mem_cons.1 h with rfl | h
    · rw [hirr] at hlt; exact absurd hlt (by decide)
    · exact h

theorem pairwise_before {R : Entry → Entry → Prop} {l1 l2 : List Entry} {x y : Entry}
    (h : (l1 ++ x :: l2).Pairwise R) (hy : y ∈ l2) : R x y :=
  (pairwise_cons.1 (pairwise_append.1 h).2.1).1 y hy

/-- the sorted entries of one host -/
def hostList (es : List Entry) (h : Str) : List Entry := sortBy pathGt (es.filter (·.host = h))

theorem mem_hostList {es : List Entry} {h : Str} {e : Entry} :
    e ∈ hostList es h ↔ e ∈ es ∧ e.host = h := by
  simp [hostList, mem_sortBy, mem_filter]

theorem hostList_sorted (es : List Entry) (h : Str) : SortedBy pathGt (hostList es h) :=
  sortBy_sorted pathGt_strict _ (fun _ _ => trivial)

theorem hostList_nodup {es : List Entry} (hn : es.Nodup) (h : Str) : (hostList es h).Nodup :=
  (sortBy_perm _ _).nodup_iff.2 (hn.sublist filter_sublist)

/-- assumptions on the entry list: distinct entries with distinct insertion indices -/
structure EsOK (es : List Entry) : Prop where
  nodup : es.Nodup
  ordInj : ∀ a ∈ es, ∀ b ∈ es, a.order = b.order → a = b

/-- what holds of the priority list after the hosts in `D` have been scanned -/
structure Inv (es : List Entry) (p : Layout) (D : Str → Prop) : Prop where
  mem : ∀ i e, At p i e → e ∈ es ∧ D e.host
  nodup : (p.flatMap (·.entries)).Nodup
  typed : ∀ i e, At p i e → TypeAt p i e.mt
  noExact : ∀ i, ¬ TypeAt p i .exact
  order : ∀ i j e1 e2, At p i e1 → At p j e2 → e1.host = e2.host → e1.mt ≠ .exact →
    e2.mt ≠ .exact → ext e1 e2 = true → i ≤ j
  placed : ∀ e1 ∈ es, ∀ e2 ∈ es, e1.host = e2.host → D e1.host → e1.mt ≠ .exact →
    e2.mt ≠ .exact → ext e1 e2 = true → (e1.mt ≠ e2.mt ∨ ∃ j, At p j e2) → ∃ i, At p i e1

theorem Inv.congr {es : List Entry} {p : Layout} {D D' : Str → Prop} (h : ∀ x, D x ↔ D' x)
    (inv : Inv es p D) : Inv es p D' :=
  ⟨fun i e he => ⟨(inv.mem i e he).1, (h _).1 (inv.mem i e he).2⟩, inv.nodup, inv.typed,
   inv.noExact, inv.order,
   fun e1 h1 e2 h2 hh hd => inv.placed e1 h1 e2 h2 hh ((h _).2 hd)⟩

theorem inv_nil (es : List Entry) : Inv es [] (fun _ => False) := by
  refine ⟨?_, by simp, ?_, ?_, ?_, ?_⟩
  · rintro i e ⟨f, hf, _⟩; simp at hf
  · rintro i e ⟨f, hf, _⟩; simp at hf
  · rintro i ⟨f, hf, _⟩; simp at hf
  · rintro i j e1 e2 ⟨f, hf, _⟩; simp at hf
  · intro e1 _ e2 _ _ hd; exact absurd hd id

theorem inv_step {es : List Entry} (eok : EsOK es) {p : Layout} {D : Str → Prop}
    (inv : Inv es p D) {h : Str} (hD : ¬ D h) :
    Inv es (processHost current p (fun _ => none) (hostList es h)) (fun x => D x ∨ x = h) := by
  have hLn := hostList_nodup eok.nodup h
  have pre : PHPre p (fun _ => none) (hostList es h) := by
    refine ⟨hLn, ?_, ?_, ?_, ?_⟩
    · intro a ha b hb
      exact eok.ordInj a (mem_hostList.1 ha).1 b (mem_hostList.1 hb).1
    · intro o u hu; cases hu
    · exact Pairwise.imp_of_mem (fun _ _ _ _ _ => Nat.le_refl _) hLn
    · intro e he i hi
      have := (inv.mem i e hi).2
      rw [(mem_hostList.1 he).2] at this
      exact hD this
  have post := processHost_post _ _ _ pre
  generalize processHost current p (fun _ => none) (hostList es h) = p' at post ⊢
  have hsorted := hostList_sorted es h
  have hplmem : ∀ x, x ∈ placedList (hostList es h) → x ∈ es ∧ x.host = h :=
    fun x hx => mem_hostList.1 ((placedList_sublist _).subset hx)
  -- old entries belong to scanned hosts, new ones to `h`
  have hsplit : ∀ i x, At p' i x → (At p i x ∧ D x.host) ∨ (x ∈ hostList es h ∧ x.host = h) := by
    intro i x hx
    rcases post.new i x hx with h1 | h1
    · exact Or.inl ⟨h1, (inv.mem i x h1).2⟩
    · exact Or.inr ⟨(placedList_sublist _).subset h1, (hplmem x h1).2⟩
  have hplaced_at : ∀ x, x ∈ placedList (hostList es h) → ∃ i, At p' i x := by
    intro x hx
    apply mem_flatMap_iff_at.1
    exact post.perm.mem_iff.2 (mem_append_right _ hx)
  refine ⟨?_, ?_, ?_, ?_, ?_, ?_⟩
  · intro i e he
    rcases post.new i e he with h1 | h1
    · exact ⟨(inv.mem i e h1).1, Or.inl (inv.mem i e h1).2⟩
    · exact ⟨(hplmem e h1).1, Or.inr (hplmem e h1).2⟩
  · refine post.perm.nodup_iff.2 (nodup_append.2 ⟨inv.nodup, hLn.sublist (placedList_sublist _), ?_⟩)
    intro a ha b hb hab
    subst hab
    obtain ⟨i, hi⟩ := mem_flatMap_iff_at.1 ha
    have := (inv.mem i a hi).2
    rw [(hplmem a hb).2] at this
    exact hD this
  · intro i e he
    rcases post.new i e he with h1 | h1
    · exact post.grow.typ _ _ (inv.typed i e h1)
    · exact (post.loc e ((placedList_sublist _).subset h1) i he).1
  · intro i hi
    rcases post.newTyp i _ hi with h1 | h1
    · exact inv.noExact i h1
    · exact h1 rfl
  · intro i j e1 e2 h1 h2 hh x1 x2 he
    rcases hsplit i e1 h1 with ⟨a1, d1⟩ | ⟨a1, d1⟩
    · rcases hsplit j e2 h2 with ⟨a2, _⟩ | ⟨_, d2⟩
      · exact inv.order i j e1 e2 a1 a2 hh x1 x2 he
      · rw [hh, d2] at d1; exact absurd d1 hD
    · rcases hsplit j e2 h2 with ⟨_, d2⟩ | ⟨a2, _⟩
      · rw [← hh, d1] at d2; exact absurd d2 hD
      · obtain ⟨l1, l2, hl, hy⟩ := sorted_before hsorted a1 a2 (pathGt_of_ext he) (ltStr_irrefl _)
        have hord := post.ord
        rw [hl] at hord
        obtain ⟨o1, o2⟩ := pairwise_before hord hy
        by_cases ht : e1.mt = e2.mt
        · exact o2 ht he i j h1 h2
        · exact Nat.le_of_lt (o1 (ov_of_ext he ht x1 x2) i j h1 h2)
  · intro e1 m1 e2 m2 hh hd x1 x2 he hor
    rcases hd with hd | hd
    · have hne : e1.host ≠ h := fun e => hD (e ▸ hd)
      have : e1.mt ≠ e2.mt ∨ ∃ j, At p j e2 := by
        rcases hor with h1 | ⟨j, hj⟩
        · exact Or.inl h1
        · rcases hsplit j e2 hj with ⟨a2, _⟩ | ⟨_, d2⟩
          · exact Or.inr ⟨j, a2⟩
          · exact absurd (hh.trans d2) hne
      obtain ⟨i, hi⟩ := inv.placed e1 m1 e2 m2 hh hd x1 x2 he this
      exact ⟨i, post.grow.ent i e1 hi⟩
    · have a1 : e1 ∈ hostList es h := mem_hostList.2 ⟨m1, hd⟩
      have a2 : e2 ∈ hostList es h := mem_hostList.2 ⟨m2, hh ▸ hd⟩
      apply hplaced_at
      by_cases ht : e1.mt = e2.mt
      · rcases hor with h1 | ⟨j, hj⟩
        · exact absurd ht h1
        · have hp2 : e2 ∈ placedList (hostList es h) := by
            rcases post.new j e2 hj with h1 | h1
            · have := (inv.mem j e2 h1).2
              rw [← hh, hd] at this
              exact absurd this hD
            · exact h1
          obtain ⟨m1', m2', hm, hany⟩ := mem_placedList.1 hp2
          obtain ⟨e3, he3, ho3⟩ := any_eq_true.1 hany
          obtain ⟨ho13, he13⟩ := ext_ov_trans he ho3 ht
          have a3 : e3 ∈ hostList es h := by rw [hm]; simp [he3]
          obtain ⟨l1, l2, hl, hy⟩ :=
            sorted_before hsorted a1 a3 (pathGt_of_ext he13) (ltStr_irrefl _)
          exact mem_placedList.2 ⟨l1, l2, hl, any_eq_true.2 ⟨e3, hy, ho13⟩⟩
      · obtain ⟨l1, l2, hl, hy⟩ := sorted_before hsorted a1 a2 (pathGt_of_ext he) (ltStr_irrefl _)
        exact mem_placedList.2 ⟨l1, l2, hl, any_eq_true.2 ⟨e2, hy, ov_of_ext he ht x1 x2⟩⟩

theorem buildPrio_fold {es : List Entry} (eok : EsOK es) :
    ∀ (ho : List Str) (p : Layout) (D : Str → Prop), Inv es p D → ho.Nodup → (∀ h ∈ ho, ¬ D h) →
      Inv es (ho.foldl (fun prio h => processHost current prio (fun _ => none)
        (sortBy current.gt (es.filter (·.host = h)))) p) (fun x => D x ∨ x ∈ ho)
  | [], p, D, inv, _, _ => inv.congr (by simp)
  | h :: ho, p, D, inv, hn, hd => by
    rw [foldl_cons]
    have hn' := nodup_cons.1 hn
    have step := inv_step eok inv (hd h mem_cons_self)
    have := buildPrio_fold eok ho _ _ step hn'.2 (by
      intro x hx hc
      rcases hc with hc | hc
      · exact hd x (mem_cons_of_mem _ hx) hc
      · subst hc; exact hn'.1 hx)
    refine this.congr ?_
    intro x
    simp only [mem_cons]
    constructor
    · rintro ((h1 | h1) | h1)
      · exact Or.inl h1
      · exact Or.inr (Or.inl h1)
      · exact Or.inr (Or.inr h1)
    · rintro (h1 | h1 | h1)
      · exact Or.inl (Or.inl h1)
      · exact Or.inl (Or.inr h1)
      · exact Or.inr h1

theorem buildPrio_inv {es : List Entry} (eok : EsOK es) {ho : List Str} (hn : ho.Nodup) :
    Inv es (buildPrio current es ho) (· ∈ ho) := by
  unfold buildPrio
  exact (buildPrio_fold eok ho [] _ (inv_nil es) hn (fun _ _ h => h)).congr (by simp)

end HapVerif.C04
