import HapVerif.Lemmas.C04Prio
/-!
# C04 — the overlap scan of one host (`processHost current`): invariant and postcondition.
Core only.
-/
namespace HapVerif.C04
open List

/-! ### overlap / extension facts -/

theorem ext_iff {x y : Entry} :
    ext x y = true ↔ lower y.path <+: lower x.path ∧ y.path.length < x.path.length := by
  simp [ext, isPrefixOf_iff_prefix]

theorem overlaps_iff {x y : Entry} :
    overlaps x y = true ↔ x.mt ≠ y.mt ∧ x.path ≠ y.path ∧ x.mt ≠ .exact ∧ y.mt ≠ .exact ∧
      lower y.path <+: lower x.path := by
  simp [overlaps, isPrefixOf_iff_prefix, and_assoc]

theorem prefix_len {x y : Entry} (h : lower y.path <+: lower x.path) :
    y.path.length ≤ x.path.length := by
  simpa using h.length_le

theorem ov_of_ext {x y : Entry} (h : ext x y = true) (ht : x.mt ≠ y.mt) (hx : x.mt ≠ .exact)
    (hy : y.mt ≠ .exact) : overlaps x y = true := by
  rw [ext_iff] at h
  rw [overlaps_iff]
  exact ⟨ht, fun e => by rw [e] at h; omega, hx, hy, h.1⟩

/-- `a ⊒ x ⊐ y`, `x`, `y` of one type -/
theorem ov_trans {a x y : Entry} (h1 : overlaps a x = true) (h2 : ext x y = true)
    (ht : x.mt = y.mt) : overlaps a y = true := by
  rw [overlaps_iff] at h1 ⊢
  rw [ext_iff] at h2
  obtain ⟨a1, _, a3, a4, a5⟩ := h1
  have := prefix_len a5
  exact ⟨ht ▸ a1, fun e => by rw [e] at this; omega, a3, ht ▸ a4, h2.1.trans a5⟩

/-- `a ⊐ x ⊒ z`, `a`, `x` of one type -/
theorem ext_ov_trans {a x z : Entry} (h1 : ext a x = true) (h2 : overlaps x z = true)
    (ht : a.mt = x.mt) : overlaps a z = true ∧ ext a z = true := by
  rw [overlaps_iff] at h2 ⊢
  rw [ext_iff] at h1 ⊢
  obtain ⟨a1, _, a3, a4, a5⟩ := h2
  have := prefix_len a5
  exact ⟨⟨ht ▸ a1, fun e => by rw [e] at h1; omega, ht ▸ a3, a4, a5.trans h1.1⟩,
    a5.trans h1.1, by omega⟩

theorem pathGt_of_ext {x y : Entry} (h : ext x y = true) : pathGt x y = true := by
  rw [ext_iff] at h
  apply ltStr_of_prefix h.1
  intro e
  have := congrArg length e
  simp at this
  omega

theorem getD_updUpper (o : Option Nat) (j : Nat) : (updUpper o j).getD 0 = max (o.getD 0) j := by
  cases o with
  | none => simp [updUpper]
  | some u =>
    simp only [updUpper]
    split <;> simp <;> omega

theorem updUpper_some (o : Option Nat) (j u : Nat) (h : updUpper o j = some u) :
    u = j ∨ o = some u := by
  cases o with
  | none => simp [updUpper] at h; exact Or.inl h.symm
  | some v =>
    simp only [updUpper] at h
    split at h
    · simp at h; exact Or.inl h.symm
    · exact Or.inr h

/-! ### the entries that get a priority file -/

def placedList : List Entry → List Entry
  | [] => []
  | e :: r => if r.any (overlaps e ·) then e :: placedList r else placedList r

theorem placedList_sublist : ∀ L : List Entry, placedList L <+ L
  | [] => Sublist.slnil
  | e :: r => by
    unfold placedList
    split
    · exact (placedList_sublist r).cons_cons e
    · exact (placedList_sublist r).cons e

theorem mem_placedList {y : Entry} : ∀ {L : List Entry},
    y ∈ placedList L ↔ ∃ l1 l2, L = l1 ++ y :: l2 ∧ l2.any (overlaps y ·) = true
  | [] => by simp [placedList]
  | e :: r => by
    unfold placedList
    constructor
    · intro h
      split at h
      · rename_i hany
        rcases mem_cons.1 h with rfl | h
        · exact ⟨[], r, rfl, hany⟩
        · obtain ⟨l1, l2, rfl, h2⟩ := mem_placedList.1 h
          exact ⟨e :: l1, l2, rfl, h2⟩
      · obtain ⟨l1, l2, rfl, h2⟩ := mem_placedList.1 h
        exact ⟨e :: l1, l2, rfl, h2⟩
    · rintro ⟨l1, l2, hl, h2⟩
      cases l1 with
      | nil =>
        simp only [nil_append, cons.injEq] at hl
        obtain ⟨rfl, rfl⟩ := hl
        simp [h2]
      | cons a l1 =>
        simp only [cons_append, cons.injEq] at hl
        obtain ⟨rfl, rfl⟩ := hl
        have : y ∈ placedList (l1 ++ y :: l2) := mem_placedList.2 ⟨l1, l2, rfl, h2⟩
        split
        · exact mem_cons_of_mem _ this
        · exact this

/-! ### one step of the scan -/

def stepUpper (upper : Nat → Option Nat) (e1 : Entry) (rest : List Entry) (j : Nat) :
    Nat → Option Nat :=
  fun o => if rest.any (fun e2 => e2.order = o ∧ overlaps e1 e2) then updUpper (upper o) j else upper o

theorem processHost_cons (p : Layout) (upper : Nat → Option Nat) (e1 : Entry) (rest : List Entry) :
    processHost current p upper (e1 :: rest) =
      if rest.any (overlaps e1 ·) then
        processHost current (findOrCreate p e1 (upper e1.order)).1
          (stepUpper upper e1 rest (findOrCreate p e1 (upper e1.order)).2) rest
      else processHost current p upper rest := rfl

theorem stepUpper_ge (upper : Nat → Option Nat) (e1 : Entry) (rest : List Entry) (j o : Nat) :
    (upper o).getD 0 ≤ (stepUpper upper e1 rest j o).getD 0 := by
  unfold stepUpper
  split
  · rw [getD_updUpper]; omega
  · exact Nat.le_refl _

theorem stepUpper_hit {upper : Nat → Option Nat} {e1 y : Entry} {rest : List Entry} {j : Nat}
    (hy : y ∈ rest) (ho : overlaps e1 y = true) :
    (stepUpper upper e1 rest j y.order).getD 0 = max ((upper y.order).getD 0) j := by
  unfold stepUpper
  have : rest.any (fun e2 => e2.order = y.order ∧ overlaps e1 e2) = true := by
    rw [any_eq_true]; exact ⟨y, hy, by simp [ho]⟩
  rw [if_pos this, getD_updUpper]

structure PHPre (p : Layout) (upper : Nat → Option Nat) (L : List Entry) : Prop where
  nodup : L.Nodup
  ordInj : ∀ a ∈ L, ∀ b ∈ L, a.order = b.order → a = b
  upValid : ∀ o u, upper o = some u → u < p.length
  upMono : L.Pairwise (fun x y => x.mt = y.mt → ext x y = true →
    (upper x.order).getD 0 ≤ (upper y.order).getD 0)
  disj : ∀ e ∈ L, ∀ i, ¬ At p i e

structure PHPost (p : Layout) (upper : Nat → Option Nat) (L : List Entry) (p' : Layout) : Prop where
  grow : Ext p p'
  perm : (p'.flatMap (·.entries)).Perm (p.flatMap (·.entries) ++ placedList L)
  new : ∀ i x, At p' i x → At p i x ∨ x ∈ placedList L
  newTyp : ∀ i t, TypeAt p' i t → TypeAt p i t ∨ t ≠ .exact
  loc : ∀ y ∈ L, ∀ j, At p' j y → TypeAt p' j y.mt ∧ (upper y.order).getD 0 ≤ j
  ord : L.Pairwise (fun x y =>
    (overlaps x y = true → ∀ i j, At p' i x → At p' j y → i < j) ∧
    (x.mt = y.mt → ext x y = true → ∀ i j, At p' i x → At p' j y → i ≤ j))

theorem PHPre.tail {p : Layout} {upper : Nat → Option Nat} {e1 : Entry} {rest : List Entry}
    (h : PHPre p upper (e1 :: rest)) : PHPre p upper rest :=
  ⟨(nodup_cons.1 h.nodup).2,
   fun a ha b hb => h.ordInj a (mem_cons_of_mem _ ha) b (mem_cons_of_mem _ hb),
   h.upValid, (pairwise_cons.1 h.upMono).2, fun e he => h.disj e (mem_cons_of_mem _ he)⟩

theorem processHost_post : ∀ (L : List Entry) (p : Layout) (upper : Nat → Option Nat),
    PHPre p upper L → PHPost p upper L (processHost current p upper L)
  | [], p, upper, _ => by
    refine ⟨Ext.refl p, by simp [processHost, placedList], fun i x h => Or.inl h,
      fun i t h => Or.inl h, by simp, Pairwise.nil⟩
  | e1 :: rest, p, upper, pre => by
    have hnd := nodup_cons.1 pre.nodup
    rw [processHost_cons]
    by_cases hany : rest.any (overlaps e1 ·) = true
    · rw [if_pos hany]
      have foc := findOrCreate_spec p e1 (upper e1.order)
      generalize (findOrCreate p e1 (upper e1.order)).1 = p1 at foc ⊢
      generalize (findOrCreate p e1 (upper e1.order)).2 = j1 at foc ⊢
      have hj1 : j1 < p1.length := foc.typ_j.lt
      have hu1 : (upper e1.order).getD 0 ≤ j1 := foc.ge (pre.upValid _)
      have hmt1 : e1.mt ≠ .exact := by
        obtain ⟨x, _, hx⟩ := any_eq_true.1 hany
        exact (overlaps_iff.1 hx).2.2.1
      -- the precondition for the rest of the scan
      have pre1 : PHPre p1 (stepUpper upper e1 rest j1) rest := by
        refine ⟨hnd.2, fun a ha b hb => pre.ordInj a (mem_cons_of_mem _ ha) b (mem_cons_of_mem _ hb),
          ?_, ?_, ?_⟩
        · intro o u hu
          unfold stepUpper at hu
          split at hu
          · rcases updUpper_some _ _ _ hu with rfl | h
            · exact hj1
            · exact Nat.lt_of_lt_of_le (pre.upValid o u h) foc.len
          · exact Nat.lt_of_lt_of_le (pre.upValid o u hu) foc.len
        · refine Pairwise.imp_of_mem ?_ (pairwise_cons.1 pre.upMono).2
          intro x y hx hy hxy ht he
          have h0 := hxy ht he
          by_cases hc : rest.any (fun e2 => e2.order = x.order ∧ overlaps e1 e2) = true
          · obtain ⟨e2, he2, h2⟩ := any_eq_true.1 hc
            simp only [Bool.decide_and, Bool.decide_eq_true, Bool.and_eq_true,
              decide_eq_true_eq] at h2
            have : e2 = x := pre.ordInj e2 (mem_cons_of_mem _ he2) x (mem_cons_of_mem _ hx) h2.1
            subst this
            have hoy := ov_trans h2.2 he ht
            rw [stepUpper_hit he2 h2.2, stepUpper_hit hy hoy]
            omega
          · have : stepUpper upper e1 rest j1 x.order = upper x.order := by
              unfold stepUpper; rw [if_neg hc]
            rw [this]
            exact Nat.le_trans h0 (stepUpper_ge _ _ _ _ _)
        · intro e he i hat
          rcases (foc.at_iff i e).1 hat with h | ⟨rfl, _⟩
          · exact pre.disj e (mem_cons_of_mem _ he) i h
          · exact hnd.1 he
      have ih := processHost_post rest p1 (stepUpper upper e1 rest j1) pre1
      generalize processHost current p1 (stepUpper upper e1 rest j1) rest = p' at ih ⊢
      have hpl : placedList (e1 :: rest) = e1 :: placedList rest := by
        simp [placedList, hany]
      -- `e1` sits in file `j1` and nowhere else
      have hat1 : ∀ i, At p' i e1 → i = j1 := by
        intro i hi
        rcases ih.new i e1 hi with h | h
        · rcases (foc.at_iff i e1).1 h with h | ⟨_, h⟩
          · exact absurd h (pre.disj e1 mem_cons_self i)
          · exact h
        · exact absurd ((placedList_sublist rest).subset h) hnd.1
      have hty1 : TypeAt p' j1 e1.mt := ih.grow.typ _ _ foc.typ_j
      refine ⟨foc.ext.trans ih.grow, ?_, ?_, ?_, ?_, ?_⟩
      · rw [hpl]
        refine ih.perm.trans ?_
        refine (Perm.append_right _ foc.perm).trans ?_
        simp only [cons_append]
        exact perm_middle.symm
      · intro i x hx
        rw [hpl]
        rcases ih.new i x hx with h | h
        · rcases (foc.at_iff i x).1 h with h | ⟨rfl, _⟩
          · exact Or.inl h
          · exact Or.inr mem_cons_self
        · exact Or.inr (mem_cons_of_mem _ h)
      · intro i t ht
        rcases ih.newTyp i t ht with h | h
        · rcases (foc.typ_iff i t).1 h with h | ⟨_, rfl⟩
          · exact Or.inl h
          · exact Or.inr hmt1
        · exact Or.inr h
      · intro y hy j hj
        rcases mem_cons.1 hy with rfl | hy
        · have := hat1 j hj
          subst this
          exact ⟨hty1, hu1⟩
        · obtain ⟨h1, h2⟩ := ih.loc y hy j hj
          exact ⟨h1, Nat.le_trans (stepUpper_ge _ _ _ _ _) h2⟩
      · rw [pairwise_cons]
        refine ⟨?_, ih.ord⟩
        intro y hy
        constructor
        · intro ho i j hi hj
          have := hat1 i hi
          subst this
          obtain ⟨h1, h2⟩ := ih.loc y hy j hj
          rw [stepUpper_hit hy ho] at h2
          have hne : i ≠ j := by
            intro e; subst e
            exact (overlaps_iff.1 ho).1 (hty1.unique h1)
          omega
        · intro ht he i j hi hj
          have := hat1 i hi
          subst this
          obtain ⟨h1, h2⟩ := ih.loc y hy j hj
          have h3 := (pairwise_cons.1 pre.upMono).1 y hy ht he
          have h4 := stepUpper_ge upper e1 rest i y.order
          apply Nat.le_of_not_lt
          intro hlt
          have hjp1 : j < p1.length := by omega
          have := ih.grow.typ_back hjp1 h1
          rw [← ht] at this
          exact foc.first j (by omega) hlt this
    · rw [if_neg hany]
      have ih := processHost_post rest p upper pre.tail
      generalize processHost current p upper rest = p' at ih ⊢
      have hpl : placedList (e1 :: rest) = placedList rest := by
        simp [placedList, hany]
      have hnot1 : ∀ i, ¬ At p' i e1 := by
        intro i hi
        rcases ih.new i e1 hi with h | h
        · exact pre.disj e1 mem_cons_self i h
        · exact hnd.1 ((placedList_sublist rest).subset h)
      refine ⟨ih.grow, by rw [hpl]; exact ih.perm, by rw [hpl]; exact ih.new, ih.newTyp, ?_, ?_⟩
      · intro y hy j hj
        rcases mem_cons.1 hy with rfl | hy
        · exact absurd hj (hnot1 j)
        · exact ih.loc y hy j hj
      · rw [pairwise_cons]
        refine ⟨?_, ih.ord⟩
        intro y _
        exact ⟨fun _ i j hi _ => absurd hi (hnot1 i), fun _ _ i j hi _ => absurd hi (hnot1 i)⟩

end HapVerif.C04
