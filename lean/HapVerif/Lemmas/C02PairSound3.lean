import HapVerif.Lemmas.C02PairSound2
/-!
# M-Dyn soundness, part 3: running table = rendered table after a successful dynamic update
-/
namespace HapVerif.C02

theorem normSrv_fst (s : Srv) : (normSrv s).1 = s.name := by
  unfold normSrv; split <;> rfl

theorem norm_keys (T : List Srv) : (norm T).map (·.1) = T.map (·.name) := by
  simp [norm, List.map_map, Function.comp_def, normSrv_fst]

theorem nodup_of_map {α β} (f : α → β) {l : List α} (h : (l.map f).Nodup) : l.Nodup := by
  unfold List.Nodup at h ⊢
  rw [List.pairwise_map] at h
  exact h.imp (fun {a b} hab (e : a = b) => hab (by rw [e]))

/-- two tables with the same distinct names whose servers look alike name by name have the same rows -/
theorem norm_perm_of_lookup {T R : List Srv} (hT : (T.map (·.name)).Nodup) (hP : (R.map (·.name)).Perm (T.map (·.name)))
    (h : ∀ r ∈ R, TL T r.name (fun srv => normSrv srv = normSrv r)) : (norm T).Perm (norm R) := by
  have hR : (R.map (·.name)).Nodup := hP.nodup_iff.2 hT
  have hnT : (norm T).Nodup := by
    have : ((norm T).map (·.1)).Nodup := by rw [norm_keys]; exact hT
    exact nodup_of_map _ this
  have hnR : (norm R).Nodup := by
    have : ((norm R).map (·.1)).Nodup := by rw [norm_keys]; exact hR
    exact nodup_of_map _ this
  refine (List.perm_ext_iff_of_nodup hnT hnR).2 (fun x => ⟨fun hx => ?_, fun hx => ?_⟩)
  · obtain ⟨srv, hs, rfl⟩ := List.mem_map.1 hx
    have : srv.name ∈ R.map (·.name) := hP.symm.subset (List.mem_map_of_mem hs)
    obtain ⟨r, hr, hrn⟩ := List.mem_map.1 this
    rw [h r hr srv hs hrn.symm]
    exact List.mem_map_of_mem hr
  · obtain ⟨r, hr, rfl⟩ := List.mem_map.1 hx
    have : r.name ∈ T.map (·.name) := hP.subset (List.mem_map_of_mem hr)
    obtain ⟨srv, hs, hsn⟩ := List.mem_map.1 this
    rw [← h r hr srv hs hsn]
    exact List.mem_map_of_mem hs

section
variable {old cur0 : List EP}

/-- **pair_sound** for the loop -/
theorem pairLoop_sound (pr : Bool) (iw : Int) (same : Bool) (sc : List Resp)
    (hO : hasDupTarget old = false) (hC : (cur0.map (·.target)).Nodup) (hE : ∀ e ∈ cur0, e.enabled = true)
    (hN : (old.map (·.name)).Nodup) (hlen : cur0.length ≤ old.length)
    (s : PairSt) (hs : pairLoop old cur0 pr iw same sc = some s) (hu : s.updated = true) :
    sortN (norm (s.cmds.foldl applyCmd (load old))) = sortN (norm (load s.cur)) := by
  obtain ⟨W, s', hWe, hW, hX, h4, hY, hle, he⟩ := pairLoop_shape (old := old) (cur0 := cur0) pr iw same sc hO hlen
    (SInv old) (walk0_sound same sc hO hN)
    (fun w t ts hW hS => walkStep_sound hO hN hE pr w t ts hW hS)
    (fun s done _ => TInv old (walkEnd old cur0 pr same sc) s done)
    (fun W hWe _ hX => by subst hWe; exact stage4_init hX)
    (fun W hWe hW _ s done a r slot h4 hslot hT => by
      subst hWe; exact stage4_sound hO hN hE hW pr s done a r slot h4 hslot hT)
  rw [he] at hs
  simp only [Option.some.injEq] at hs
  subst hs
  have hT4 : TCore (tbl old s'.cmds) W s'.cur W.added := by
    have := hY hu
    rw [← hWe] at this
    exact this
  have hcl : s'.cur.length = cur0.length := length_of_clr h4.clr
  show sortN (norm (tbl old s'.cmds)) = sortN (norm (load (copyEmpty pr iw s'.cur (W.empty.drop W.added.length))))
  have hnames : ((load (copyEmpty pr iw s'.cur (W.empty.drop W.added.length))).map (·.name)).Perm
      ((tbl old s'.cmds).map (·.name)) := by
    rw [tbl_names, load_names]
    exact result_names_perm pr iw hC hW h4
  have hTn : ((tbl old s'.cmds).map (·.name)).Nodup := by rw [tbl_names]; exact hN
  apply sortN_eq_of_perm
  · apply norm_perm_of_lookup hTn hnames
    intro r hr
    rw [copyEmpty_load] at hr
    rcases List.mem_append.1 hr with hr | hr
    · -- a current endpoint
      obtain ⟨c, hc, rfl⟩ := List.mem_map.1 hr
      obtain ⟨i, hi, rfl⟩ := List.getElem_of_mem hc
      have hgd : s'.cur.getD i default = s'.cur[i] := by
        rw [List.getD_eq_getElem?_getD, List.getElem?_eq_getElem hi]; rfl
      have hcase := hW.cov hC i (by omega)
      rcases hcase with hi' | hi'
      · obtain ⟨p, hp, hpc⟩ := mem_asg.1 hi'
        have hnm : (s'.cur.getD i default).name = p.old.name := h4.nm p hp i hpc
        have := hT4.t1 p hp i hpc
        rw [hgd] at this hnm
        show TL _ (loadSrv s'.cur[i]).name _
        have e : (loadSrv s'.cur[i]).name = p.old.name := hnm
        rw [e]; exact this
      · obtain ⟨m, hm, hmi⟩ := List.getElem_of_mem hi'
        have hm' : m < W.empty.length := by omega
        have hdn := congrArg (fun l => l[m]?) h4.dn
        simp only [List.getElem?_map, List.getElem?_eq_getElem hm, List.getElem?_take,
          List.getElem?_eq_getElem hm', hm, if_true, Option.map_some, Option.some.injEq] at hdn
        have := hT4.t2 m i W.empty[m] (by rw [List.getElem?_eq_getElem hm, hmi]) (List.getElem?_eq_getElem hm')
        rw [hmi] at hdn
        unfold nameAt at hdn
        rw [hgd] at this hdn
        show TL _ (loadSrv s'.cur[i]).name _
        have e : (loadSrv s'.cur[i]).name = W.empty[m].name := hdn
        rw [e]; exact this
    · -- a copied empty slot
      obtain ⟨slot, hsl, rfl⟩ := List.mem_map.1 hr
      obtain ⟨m, hm, rfl⟩ := List.getElem_of_mem hsl
      rw [List.getElem_drop]
      simp only [List.length_drop] at hm
      have := hT4.t3 (W.added.length + m) W.empty[W.added.length + m] (by omega)
        (List.getElem?_eq_getElem (by omega))
      show TL _ (loadSrv (mkEmpty W.empty[W.added.length + m].name iw)).name _
      have e : (loadSrv (mkEmpty W.empty[W.added.length + m].name iw)).name = W.empty[W.added.length + m].name := rfl
      rw [e]
      refine TL_mono this ?_
      intro srv hn hs
      exact norm_maint _ iw hn hs
  · rw [norm_keys]; exact hTn

end
end HapVerif.C02
