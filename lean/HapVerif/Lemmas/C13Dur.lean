import HapVerif.Lemmas.C13
/-! Lemmas about the model with run durations (`StD`): what the worker does not touch, and the
relation between the ready events (`St.runs`) and the delaying queue entries that are due. -/
namespace HapVerif.C13

@[simp] theorem setLast_id (s : StD) (x : Int) : setLast s (forgetId s.q.last x) = s := rfl

/-! ### the worker does not touch the limiter / delaying queue when `Forget` is a no-op -/

theorem addD_q (s : StD) (b : Bool) : (addD s b).q = s.q := by
  unfold addD
  split
  · rfl
  · split
    · split <;> rfl
    · rfl

theorem drainD_q (now : Int) : ∀ (n : Nat) (s : StD), (drainD forgetId now n s).q = s.q
  | 0, s => rfl
  | n + 1, s => by
    unfold drainD
    split
    · simp only
      split
      · rw [setLast_id]
        exact drainD_q now n _
      · rfl
    · rfl

theorem drain_q (now : Int) (s : StD) : (drain forgetId now s).q = s.q := drainD_q now _ s

theorem finishD_q (s : StD) : (finishD forgetId s).q = s.q := by
  unfold finishD
  split
  · rw [drain_q]; rfl
  · rfl

theorem catchUpD_q (lim : Option Int) (who : Option Bool) :
    ∀ (n : Nat) (s : StD), (catchUpD forgetId lim who n s).q = s.q
  | 0, s => rfl
  | n + 1, s => by
    unfold catchUpD
    split
    · split
      · rw [catchUpD_q lim who n, finishD_q]
      · rfl
    · rfl

theorem catchUp_q (lim : Option Int) (who : Option Bool) (s : StD) :
    (catchUp forgetId lim who s).q = s.q := catchUpD_q lim who _ s

theorem readyD_q (multi : Bool) (s : StD) (r : Int × Bool) : (readyD forgetId multi s r).q = s.q := by
  unfold readyD
  rw [drain_q, addD_q, catchUp_q]

theorem foldl_readyD_q (multi : Bool) : ∀ (l : List (Int × Bool)) (s : StD),
    (l.foldl (readyD forgetId multi) s).q = s.q
  | [], s => rfl
  | r :: l, s => by rw [List.foldl_cons, foldl_readyD_q multi l, readyD_q]

theorem serveDue_q (s : StD) (t : Int) : (serveDue forgetId s t).q = s.q := by
  unfold serveDue
  exact foldl_readyD_q _ _ s

/-- **projection** — with the `Forget` of the code that exists, the limiter and the delaying queue evolve
exactly as in the instantaneous model, whatever the run durations are: the ready events do not depend on
the worker. -/
theorem arriveW_q (lim : Limiter) (s : StD) (t : Int) (b : Bool) :
    (arriveW lim forgetId s t b).q = arrive lim s.q t b := by
  unfold arriveW
  simp only
  split
  · rw [drain_q, addD_q]
  · rfl

theorem arriveD_q (lim : Limiter) (s : StD) (t : Int) (b : Bool) :
    (arriveD lim forgetId s t b).q = arrive lim s.q t b := by
  unfold arriveD
  rw [arriveW_q, catchUp_q, serveDue_q]

theorem foldl_arriveD_q (lim : Limiter) : ∀ (evs : List (Int × Bool)) (s : StD),
    (evs.foldl (fun s e => arriveD lim forgetId s e.1 e.2) s).q
      = evs.foldl (fun s e => arrive lim s e.1 e.2) s.q
  | [], s => rfl
  | e :: evs, s => by
    rw [List.foldl_cons, List.foldl_cons, foldl_arriveD_q lim evs, arriveD_q]

theorem runAllD_q (lim : Limiter) (durs : List Int) (evs : List (Int × Bool)) :
    (runAllD lim forgetId durs evs).q = runAll lim evs := by
  unfold runAllD runAll
  rw [foldl_arriveD_q]

theorem flushD_q (s : StD) : (flushD forgetId s).q = flush s.q := by
  unfold flushD
  simp only [catchUp_q, serveDue_q]

/-! ### ready events of `fire` = the due entries of the delaying queue -/

theorem fire1_runs (s : St) (t : Int) (x : Bool) :
    (fire1 s t x).runs = (dueOf s t x).map (·, x) ++ s.runs := by
  unfold fire1 dueOf
  cases s.pend x with
  | none => rfl
  | some d => by_cases h : d ≤ t <;> simp [h]

theorem fire1_last (s : St) (t : Int) (x : Bool) : (fire1 s t x).last = s.last := by
  unfold fire1
  cases s.pend x with
  | none => rfl
  | some d => by_cases h : d ≤ t <;> simp [h]

theorem fire1_pend_ne (s : St) (t : Int) (x y : Bool) (h : y ≠ x) : (fire1 s t x).pend y = s.pend y := by
  unfold fire1
  cases s.pend x with
  | none => rfl
  | some d => by_cases hd : d ≤ t <;> simp [hd, setPend, h]

theorem fire_last (s : St) (t : Int) : (fire s t).last = s.last := by
  unfold fire; rw [fire1_last, fire1_last]

theorem dueOf_fire1_ne (s : St) (t : Int) (x y : Bool) (h : y ≠ x) :
    dueOf (fire1 s t x) t y = dueOf s t y := by
  unfold dueOf; rw [fire1_pend_ne _ _ _ _ h]

theorem fire_runs (s : St) (t : Int) :
    (fire s t).runs = (dueOf s t true).map (·, true) ++ ((dueOf s t false).map (·, false) ++ s.runs) := by
  unfold fire
  rw [fire1_runs, fire1_runs, dueOf_fire1_ne _ _ _ _ (by decide)]

theorem runsOf_append (b : Bool) (l₁ l₂ : List (Int × Bool)) :
    runsOf b (l₁ ++ l₂) = runsOf b l₁ ++ runsOf b l₂ := by
  simp [runsOf]

theorem runsOf_map_same (b : Bool) (l : List Int) : runsOf b (l.map (·, b)) = l := by
  induction l with
  | nil => rfl
  | cons a l ih => rw [List.map_cons, runsOf_cons_same, ih]

theorem runsOf_map_other (b x : Bool) (h : x ≠ b) (l : List Int) : runsOf b (l.map (·, x)) = [] := by
  induction l with
  | nil => rfl
  | cons a l ih => rw [List.map_cons, runsOf_cons_other _ _ _ _ h, ih]

/-- per item, `fire` adds exactly the due deadline -/
theorem runsOf_fire (s : St) (t : Int) (b : Bool) :
    runsOf b (fire s t).runs = dueOf s t b ++ runsOf b s.runs := by
  rw [fire_runs, runsOf_append, runsOf_append]
  cases b
  · rw [runsOf_map_other _ _ (by decide), runsOf_map_same]; rfl
  · rw [runsOf_map_same, runsOf_map_other _ _ (by decide)]; rfl

/-- `due` lists the same entries, root first -/
theorem runsOf_due (q : St) (root : Bool) (t : Int) (b : Bool) :
    runsOf b (due q root t) = dueOf q t b := by
  unfold due
  rw [runsOf_append]
  cases root <;> cases b
  · rw [runsOf_map_same, runsOf_map_other _ _ (by decide)]; simp
  · rw [runsOf_map_other _ _ (by decide)]; exact runsOf_map_same _ _
  · rw [runsOf_map_other _ _ (by decide)]; exact runsOf_map_same _ _
  · rw [runsOf_map_same, runsOf_map_other _ _ (by decide)]; simp

/-- runs of `arrive` in terms of `fire` -/
theorem arrive_runs (lim : Limiter) (q : St) (t : Int) (b : Bool) :
    (arrive lim q t b).runs =
      if (lim q.last t).2 ≤ 0 then (t, b) :: (fire q t).runs else (fire q t).runs := by
  unfold arrive
  simp only [fire_last]
  split <;> rfl

/-! ### instantaneous runs (every duration `≤ 0`) -/

/-- the worker is idle and every run still to start is instantaneous -/
structure Idle (s : StD) : Prop where
  busy : s.busy = none
  queue : s.queue = []
  durs : ∀ d, d ∈ s.durs → d ≤ 0

theorem headD_le_zero {l : List Int} (h : ∀ d, d ∈ l → d ≤ 0) : l.headD 0 ≤ 0 := by
  cases l with
  | nil => exact Int.le_refl 0
  | cons a l => exact h a List.mem_cons_self

theorem tail_le_zero {l : List Int} (h : ∀ d, d ∈ l → d ≤ 0) : ∀ d, d ∈ l.tail → d ≤ 0 :=
  fun d hd => h d (List.mem_of_mem_tail hd)

theorem catchUp_idle (fg : Forget) (lim : Option Int) (who : Option Bool) (s : StD) (h : s.busy = none) :
    catchUp fg lim who s = s := by
  unfold catchUp catchUpD
  rw [h]

/-- an idle worker with instantaneous runs starts (and completes) a ready item at once -/
theorem addDrain_idle (s : StD) (h : Idle s) (now : Int) (b : Bool) :
    drain forgetId now (addD s b) = { s with starts := (now, b) :: s.starts, durs := s.durs.tail } := by
  obtain ⟨q, root, queue, busy, dirty, durs, starts, tie⟩ := s
  obtain ⟨h1, h2, h3⟩ := h
  simp only at h1 h2 h3
  subst h1 h2
  have : durs.head?.getD 0 ≤ 0 := by simpa using headD_le_zero h3
  simp [addD, drain, drainD, this, setLast, forgetId]

theorem addDrain_idle' (s : StD) (h : Idle s) (now : Int) (b : Bool) :
    Idle (drain forgetId now (addD s b)) := by
  rw [addDrain_idle s h]
  exact ⟨h.busy, h.queue, tail_le_zero h.durs⟩

theorem readyD_idle (s : StD) (h : Idle s) (multi : Bool) (r : Int × Bool) :
    Idle (readyD forgetId multi s r) ∧ (readyD forgetId multi s r).starts = r :: s.starts := by
  unfold readyD
  rw [catchUp_idle _ _ _ _ h.busy]
  exact ⟨addDrain_idle' s h _ _, by rw [addDrain_idle s h]⟩

theorem foldl_readyD_idle (multi : Bool) : ∀ (l : List (Int × Bool)) (s : StD), Idle s →
    Idle (l.foldl (readyD forgetId multi) s) ∧
      (l.foldl (readyD forgetId multi) s).starts = l.reverse ++ s.starts
  | [], s, h => ⟨h, rfl⟩
  | r :: l, s, h => by
    obtain ⟨h1, h2⟩ := readyD_idle s h multi r
    obtain ⟨h3, h4⟩ := foldl_readyD_idle multi l _ h1
    rw [List.foldl_cons]
    refine ⟨h3, ?_⟩
    rw [h4, h2]; simp

theorem arriveW_idle (lim : Limiter) (s : StD) (h : Idle s) (t : Int) (b : Bool) :
    Idle (arriveW lim forgetId s t b) ∧
      (arriveW lim forgetId s t b).starts =
        (if (lim s.q.last t).2 ≤ 0 then [(t, b)] else []) ++ s.starts := by
  unfold arriveW
  simp only
  split
  · constructor
    · apply addDrain_idle'
      exact ⟨h.busy, h.queue, h.durs⟩
    · rw [addDrain_idle]
      · simp
      · exact ⟨h.busy, h.queue, h.durs⟩
  · exact ⟨⟨h.busy, h.queue, h.durs⟩, by simp⟩

theorem arriveD_idle (lim : Limiter) (s : StD) (h : Idle s) (t : Int) (b : Bool) :
    Idle (arriveD lim forgetId s t b) ∧
      (arriveD lim forgetId s t b).starts =
        (if (lim s.q.last t).2 ≤ 0 then [(t, b)] else []) ++ ((due s.q s.root t).reverse ++ s.starts) := by
  obtain ⟨h1, h2⟩ := foldl_readyD_idle (sameInstant (due s.q s.root t)) (due s.q s.root t) s h
  unfold arriveD serveDue
  simp only
  rw [catchUp_idle _ _ _ _ h1.busy]
  obtain ⟨h3, h4⟩ := arriveW_idle lim _ h1 t b
  refine ⟨h3, ?_⟩
  rw [h4, h2, foldl_readyD_q]


theorem runsOf_rev (b : Bool) (l : List (Int × Bool)) : runsOf b l.reverse = (runsOf b l).reverse := by
  simp [runsOf, List.filter_reverse, List.map_reverse]

theorem dueOf_reverse (q : St) (t : Int) (b : Bool) : (dueOf q t b).reverse = dueOf q t b := by
  unfold dueOf
  cases q.pend b with
  | none => rfl
  | some d => by_cases h : d ≤ t <;> simp [h]

/-- instantaneous runs: idle worker, and per item the run starts are the ready events -/
def ZInv (s : StD) : Prop := Idle s ∧ ∀ x, runsOf x s.starts = runsOf x s.q.runs

theorem arriveD_zinv (lim : Limiter) (s : StD) (h : ZInv s) (t : Int) (b : Bool) :
    ZInv (arriveD lim forgetId s t b) := by
  obtain ⟨h1, h2⟩ := arriveD_idle lim s h.1 t b
  refine ⟨h1, fun x => ?_⟩
  rw [h2, arriveD_q, arrive_runs, runsOf_append, runsOf_append, runsOf_rev, runsOf_due, dueOf_reverse, h.2 x]
  rw [← runsOf_fire]
  split
  · exact (runsOf_append x [(t, b)] _).symm
  · rfl

theorem foldl_arriveD_zinv (lim : Limiter) : ∀ (evs : List (Int × Bool)) (s : StD), ZInv s →
    ZInv (evs.foldl (fun s e => arriveD lim forgetId s e.1 e.2) s)
  | [], _, h => h
  | e :: evs, s, h => by
    rw [List.foldl_cons]
    exact foldl_arriveD_zinv lim evs _ (arriveD_zinv lim s h e.1 e.2)

theorem flushD_zinv (s : StD) (h : ZInv s) : ZInv (flushD forgetId s) := by
  unfold flushD serveDue
  simp only
  generalize hm : max ((s.q.pend false).getD 0) ((s.q.pend true).getD 0) = m
  obtain ⟨h1, h2⟩ := foldl_readyD_idle (sameInstant (due s.q s.root m)) (due s.q s.root m) s h.1
  generalize hs1 : List.foldl (readyD forgetId (sameInstant (due s.q s.root m))) s (due s.q s.root m) = s1 at h1 h2
  have hq : s1.q = s.q := by rw [← hs1, foldl_readyD_q]
  rw [catchUp_idle _ _ _ _ (show ({ s1 with q := flush s1.q } : StD).busy = none from h1.busy)]
  refine ⟨⟨h1.busy, h1.queue, h1.durs⟩, fun x => ?_⟩
  show runsOf x s1.starts = runsOf x (flush s1.q).runs
  rw [h2, hq]
  unfold flush
  simp only
  rw [hm, runsOf_append, runsOf_rev, runsOf_due, dueOf_reverse, runsOf_fire, h.2 x]

/-! ### one kind of item, every run shorter than the interval -/
/-- the run in progress ends (nothing queued, nothing dirty) or is still running at `lim` -/
theorem catchUp_calm (s : StD) (b : Bool) (e : Int) (lim : Option Int) (who : Option Bool)
    (hq : s.queue = []) (hd : s.dirty = false) (hb : s.busy = some (b, e)) :
    ∃ tie', catchUp forgetId lim who s =
      { s with busy := if lim.all (e ≤ ·) then none else some (b, e), tie := tie' } := by
  obtain ⟨q, root, queue, busy, dirty, durs, starts, tie⟩ := s
  simp only at hq hd hb
  subst hq hd hb
  by_cases h : lim.all (e ≤ ·) = true
  · refine ⟨tie || (lim == some e && (who != some b || false)), ?_⟩
    simp only [catchUp, catchUpD, h, if_true, finishD, drain, setLast, forgetId, List.length_nil]
    rfl
  · refine ⟨tie, ?_⟩
    simp only [catchUp, catchUpD, h]
    simp

/-- an idle worker takes a ready item at once -/
theorem addDrain_free (s : StD) (hq : s.queue = []) (hb : s.busy = none) (now : Int) (b : Bool) :
    drain forgetId now (addD s b) =
      { s with starts := (now, b) :: s.starts, durs := s.durs.tail,
               busy := if s.durs.headD 0 ≤ 0 then none else some (b, now + s.durs.headD 0) } := by
  obtain ⟨q, root, queue, busy, dirty, durs, starts, tie⟩ := s
  simp only at hq hb
  subst hq hb
  by_cases h : durs.headD 0 ≤ 0
  · have h' : durs.head?.getD 0 ≤ 0 := by simpa using h
    simp [addD, drain, drainD, h', setLast, forgetId]
  · have h' : ¬ durs.head?.getD 0 ≤ 0 := by simpa using h
    simp [addD, drain, drainD, h']


/-- shape of the worker while one kind of item `b0` arrives and every run is shorter than `δ`: nothing is
queued or dirty, the run starts are `runs`, a run in progress started at some `r ∈ runs` and ends before
`r + δ` (and after `lo`, the time the worker has caught up with) -/
structure WS (δ : Int) (b0 : Bool) (s : StD) (runs : List (Int × Bool)) (lo : Option Int) : Prop where
  queue : s.queue = []
  dirty : s.dirty = false
  starts : s.starts = runs
  busy : s.busy = none ∨ ∃ e r, s.busy = some (b0, e) ∧ (r, b0) ∈ runs ∧ e < r + δ ∧ (∀ t, lo = some t → t < e)
  durs : ∀ d, d ∈ s.durs → d < δ

theorem ws_catchUp {δ : Int} {b0 : Bool} {s : StD} {runs : List (Int × Bool)} {lo : Option Int}
    (h : WS δ b0 s runs lo) (lim : Option Int) (who : Option Bool) :
    WS δ b0 (catchUp forgetId lim who s) runs lim := by
  rcases h.busy with hb | ⟨e, r, hb, hr, he, _⟩
  · rw [catchUp_idle _ _ _ _ hb]
    exact ⟨h.queue, h.dirty, h.starts, Or.inl hb, h.durs⟩
  · obtain ⟨tie', heq⟩ := catchUp_calm s b0 e lim who h.queue h.dirty hb
    rw [heq]
    refine ⟨h.queue, h.dirty, h.starts, ?_, h.durs⟩
    by_cases hle : lim.all (e ≤ ·) = true
    · exact Or.inl (if_pos hle)
    · refine Or.inr ⟨e, r, if_neg hle, hr, he, ?_⟩
      intro t' ht'; subst ht'
      simpa using hle

theorem ws_idle {δ : Int} {b0 : Bool} {s : StD} {runs : List (Int × Bool)} {t : Int}
    (h : WS δ b0 s runs (some t)) (hr : ∀ r, (r, b0) ∈ runs → r + δ ≤ t) : s.busy = none := by
  rcases h.busy with hb | ⟨e, r, _, hr', he, hlo⟩
  · exact hb
  · have := hr r hr'; have := hlo t rfl; omega

theorem headD_lt {δ : Int} {l : List Int} (h : ∀ d, d ∈ l → d < δ) (h0 : ¬ l.headD 0 ≤ 0) : l.headD 0 < δ := by
  cases l with
  | nil => exact absurd (Int.le_refl 0) h0
  | cons a l => exact h a List.mem_cons_self

theorem ws_addDrain {δ : Int} {b0 : Bool} {s : StD} {runs : List (Int × Bool)} {lo : Option Int}
    (h : WS δ b0 s runs lo) (hb : s.busy = none) (now : Int) :
    WS δ b0 (drain forgetId now (addD s b0)) ((now, b0) :: runs) none := by
  rw [addDrain_free s h.queue hb]
  refine ⟨h.queue, h.dirty, by simp [h.starts], ?_, fun d hd => h.durs d (List.mem_of_mem_tail hd)⟩
  by_cases h0 : s.durs.headD 0 ≤ 0
  · exact Or.inl (if_pos h0)
  · refine Or.inr ⟨now + s.durs.headD 0, now, if_neg h0, List.mem_cons_self, ?_, fun _ ht => by cases ht⟩
    have := headD_lt h.durs h0; omega

theorem dueOf_none (q : St) (t : Int) (b : Bool) (h : q.pend b = none) : dueOf q t b = [] := by
  unfold dueOf; rw [h]

theorem due_single (q : St) (root : Bool) (t : Int) (b0 : Bool) (h : q.pend (!b0) = none) :
    due q root t = (dueOf q t b0).map (·, b0) := by
  unfold due
  by_cases hr : root = b0
  · subst hr; rw [dueOf_none _ _ _ h]; simp
  · have : root = !b0 := by cases root <;> cases b0 <;> simp_all
    subst this; rw [dueOf_none _ _ _ h]; simp

theorem fire_single (q : St) (t : Int) (b0 : Bool) (h : q.pend (!b0) = none) :
    (fire q t).runs = (dueOf q t b0).map (·, b0) ++ q.runs := by
  rw [fire_runs]
  cases b0
  · rw [dueOf_none _ _ true h]; rfl
  · rw [dueOf_none _ _ false h]; rfl


theorem fire1_pend_none (s : St) (t : Int) (x y : Bool) (h : s.pend y = none) : (fire1 s t x).pend y = none := by
  by_cases hxy : y = x
  · subst hxy; unfold fire1; rw [h]; exact h
  · rw [fire1_pend_ne _ _ _ _ hxy]; exact h

theorem fire_pend_none (s : St) (t : Int) (y : Bool) (h : s.pend y = none) : (fire s t).pend y = none := by
  unfold fire
  exact fire1_pend_none _ _ _ _ (fire1_pend_none _ _ _ _ h)

theorem arrive_pend_ne (lim : Limiter) (q : St) (t : Int) (b x : Bool) (h : x ≠ b) :
    (arrive lim q t b).pend x = (fire q t).pend x := by
  unfold arrive
  simp only
  split
  · rfl
  · exact setPend_other _ _ _ _ h

/-- invariant while one kind of item `b0` arrives and every run is shorter than `δ`: the limiter/delaying
queue invariant of the instantaneous model, and the run starts ARE its ready events -/
structure SInv (δ w : Int) (b0 : Bool) (s : StD) (c : Int) (done : List (Int × Bool)) : Prop where
  inv : Inv δ w s.q c c done
  only : s.q.pend (!b0) = none
  ws : WS δ b0 s s.q.runs none

theorem serveDue_ws {δ w : Int} {b0 : Bool} {s : StD} {c : Int} {done : List (Int × Bool)}
    (h : SInv δ w b0 s c done) (t : Int) :
    WS δ b0 (serveDue forgetId s t) (fire s.q t).runs none := by
  rw [fire_single _ _ _ h.only]
  unfold serveDue
  simp only
  rw [due_single _ _ _ _ h.only]
  unfold dueOf
  cases hp : s.q.pend b0 with
  | none => exact h.ws
  | some d =>
    by_cases hd : d ≤ t
    · simp only [hd, if_true, List.map_cons, List.map_nil, List.foldl_cons, List.foldl_nil, sameInstant]
      unfold readyD
      have h1 := ws_catchUp h.ws (some d) (some b0)
      have hidle := ws_idle h1 (fun r hr => h.inv.pendGap b0 d hp r hr)
      exact ws_addDrain h1 hidle d
    · simp only [hd, if_false, List.map_nil, List.foldl_nil]
      exact h.ws

theorem served_ws {δ w : Int} {b0 : Bool} {s : StD} {c : Int} {done : List (Int × Bool)}
    (h : SInv δ w b0 s c done) (t : Int) :
    WS δ b0 (catchUp forgetId (some t) none (serveDue forgetId s t)) (fire s.q t).runs (some t) :=
  ws_catchUp (serveDue_ws h t) (some t) none

theorem arriveD_sinv {δ w : Int} {b0 : Bool} {s : StD} {c t : Int} {done : List (Int × Bool)}
    (h : SInv δ w b0 s c done) (hle : c ≤ t) (hδ : 0 < δ) (hw : 0 ≤ w) :
    SInv δ w b0 (arriveD (ingressWhen δ w) forgetId s t b0) t ((t, b0) :: done) := by
  have hinv := arrive_inv b0 h.inv hle hδ hw
  have hws := served_ws h t
  have hq : (catchUp forgetId (some t) none (serveDue forgetId s t)).q = s.q := by
    rw [catchUp_q, serveDue_q]
  refine ⟨by rw [arriveD_q]; exact hinv, ?_, ?_⟩
  · rw [arriveD_q, arrive_pend_ne _ _ _ _ _ (by cases b0 <;> decide)]
    exact fire_pend_none _ _ _ h.only
  · rw [arriveD_q, arrive_runs]
    unfold arriveD arriveW
    simp only [hq]
    generalize catchUp forgetId (some t) none (serveDue forgetId s t) = s2 at hws
    by_cases himm : ((ingressWhen δ w) s.q.last t).2 ≤ 0
    · simp only [himm, if_true]
      have hsp := hinv.spaced b0
      rw [arrive_runs, if_pos himm, runsOf_cons_same] at hsp
      have hidle : s2.busy = none := by
        apply ws_idle hws
        intro r hr
        exact (List.pairwise_cons.mp hsp).1 r (mem_runsOf.mpr hr)
      apply ws_addDrain (lo := some t)
      · exact ⟨hws.queue, hws.dirty, hws.starts, hws.busy, hws.durs⟩
      · exact hidle
    · simp only [himm, if_false]
      refine ⟨hws.queue, hws.dirty, hws.starts, ?_, hws.durs⟩
      rcases hws.busy with hb | ⟨e, r, hb, hr, he, _⟩
      · exact Or.inl hb
      · exact Or.inr ⟨e, r, hb, hr, he, fun _ ht => by cases ht⟩

/-- after the flush the run starts are the ready events of the flushed delaying queue -/
theorem flushD_starts {δ w : Int} {b0 : Bool} {s : StD} {c : Int} {done : List (Int × Bool)}
    (h : SInv δ w b0 s c done) : (flushD forgetId s).starts = (flush s.q).runs := by
  unfold flushD flush
  simp only [serveDue_q]
  generalize max ((s.q.pend false).getD 0) ((s.q.pend true).getD 0) = m
  have h1 := serveDue_ws h m
  apply WS.starts (δ := δ) (b0 := b0) (lo := none)
  apply ws_catchUp (lo := none)
  exact ⟨h1.queue, h1.dirty, h1.starts, h1.busy, h1.durs⟩

/-! ### no extra runs: any durations, both kinds of item -/
/-- runs of `b` started, queued, or owed to a dirty item in process -/
def cntW (s : StD) (b : Bool) : Nat :=
  (runsOf b s.starts).length + s.queue.count b +
    (if s.dirty = true ∧ s.busy.map (·.1) = some b then 1 else 0)

/-- the worker never owes more runs of `b` than `n b` -/
structure WInv (s : StD) (n : Bool → Nat) : Prop where
  clean : s.busy = none → s.dirty = false
  cnt : ∀ b, cntW s b ≤ n b

theorem winv_mono {s : StD} {n n' : Bool → Nat} (h : WInv s n) (hn : ∀ b, n b ≤ n' b) : WInv s n' :=
  ⟨h.clean, fun b => Nat.le_trans (h.cnt b) (hn b)⟩

theorem winv_setLast {s : StD} {n : Bool → Nat} (h : WInv s n) (l : Option Int) : WInv (setLast s l) n :=
  ⟨h.clean, h.cnt⟩

theorem count_single (b x : Bool) : List.count b [x] = if b = x then 1 else 0 := by
  cases b <;> cases x <;> rfl

theorem winv_add {s : StD} {n : Bool → Nat} (h : WInv s n) (x : Bool) :
    WInv (addD s x) (fun b => n b + if b = x then 1 else 0) := by
  obtain ⟨q, root, queue, busy, dirty, durs, starts, tie⟩ := s
  obtain ⟨h1, h2⟩ := h
  unfold addD
  simp only
  by_cases hc : queue.contains x = true
  · simp only [hc, if_true]
    exact ⟨h1, fun b => Nat.le_trans (h2 b) (Nat.le_add_right _ _)⟩
  · simp only [hc]
    cases busy with
    | none =>
      refine ⟨h1, fun b => ?_⟩
      have := h2 b
      simp only [cntW] at this ⊢
      by_cases hb : b = x
      · subst hb; simp [List.count_append] at this ⊢; omega
      · have hxb : ¬ x = b := fun e => hb e.symm
        simp [hb, hxb, List.count_append] at this ⊢; omega
    | some ce =>
      obtain ⟨c, e⟩ := ce
      by_cases hcx : c = x
      · simp only [hcx, if_true]
        refine ⟨fun hh => (by cases hh), fun b => ?_⟩
        have := h2 b
        simp only [cntW] at this ⊢
        by_cases hb : b = x
        · subst hb hcx; simp at this ⊢; split at this <;> omega
        · have hxb : ¬ x = b := fun e => hb e.symm
          subst hcx; simp [hb, hxb] at this ⊢; omega
      · simp only [hcx, if_false]
        refine ⟨fun hh => (by cases hh), fun b => ?_⟩
        have := h2 b
        simp only [cntW] at this ⊢
        by_cases hb : b = x
        · subst hb; simp [List.count_append] at this ⊢; omega
        · have hxb : ¬ x = b := fun e => hb e.symm
          simp [hb, hxb, List.count_append] at this ⊢; omega

theorem winv_drainD (fg : Forget) (now : Int) {n : Bool → Nat} :
    ∀ (k : Nat) (s : StD), WInv s n → WInv (drainD fg now k s) n
  | 0, _, h => h
  | k + 1, s, h => by
    obtain ⟨q, root, queue, busy, dirty, durs, starts, tie⟩ := s
    unfold drainD
    cases busy with
    | some ce => exact h
    | none =>
      cases queue with
      | nil => exact h
      | cons b rest =>
        have hd : dirty = false := h.clean rfl
        subst hd
        have key : WInv (StD.mk q root rest none false durs.tail ((now, b) :: starts) tie) n := by
          refine ⟨fun _ => rfl, fun x => ?_⟩
          have := h.cnt x
          simp only [cntW] at this ⊢
          by_cases hx : x = b
          · subst hx; simp [runsOf_cons_same] at this ⊢; omega
          · have hbx : ¬ b = x := fun e => hx e.symm
            simp [runsOf_cons_other _ _ _ _ hbx, hbx] at this ⊢; omega
        simp only
        split
        · exact winv_drainD fg now k _ (winv_setLast key _)
        · refine ⟨fun hh => (by cases hh), fun x => ?_⟩
          have := key.cnt x
          simp only [cntW] at this ⊢
          simpa using this

theorem winv_drain (fg : Forget) (now : Int) {n : Bool → Nat} {s : StD} (h : WInv s n) :
    WInv (drain fg now s) n := winv_drainD fg now _ s h

theorem winv_finish (fg : Forget) {n : Bool → Nat} {s : StD} (h : WInv s n) : WInv (finishD fg s) n := by
  obtain ⟨q, root, queue, busy, dirty, durs, starts, tie⟩ := s
  unfold finishD
  cases busy with
  | none => exact h
  | some ce =>
    obtain ⟨c, e⟩ := ce
    simp only
    apply winv_drain
    refine ⟨fun _ => rfl, fun x => ?_⟩
    have := h.cnt x
    simp only [cntW, setLast] at this ⊢
    cases dirty
    · simpa using this
    · by_cases hx : x = c
      · subst hx; simp [List.count_append] at this ⊢; omega
      · have hcx : ¬ c = x := fun e => hx e.symm
        simp [List.count_append, hcx] at this ⊢; omega

theorem winv_tie {s : StD} {n : Bool → Nat} (h : WInv s n) (t : Bool) : WInv { s with tie := t } n :=
  ⟨h.clean, h.cnt⟩

theorem winv_catchUpD (fg : Forget) (lim : Option Int) (who : Option Bool) {n : Bool → Nat} :
    ∀ (k : Nat) (s : StD), WInv s n → WInv (catchUpD fg lim who k s) n
  | 0, _, h => h
  | k + 1, s, h => by
    unfold catchUpD
    split
    · split
      · exact winv_catchUpD fg lim who k _ (winv_finish fg (winv_tie h _))
      · exact h
    · exact h

theorem winv_catchUp (fg : Forget) (lim : Option Int) (who : Option Bool) {n : Bool → Nat} {s : StD}
    (h : WInv s n) : WInv (catchUp fg lim who s) n := winv_catchUpD fg lim who _ s h

theorem winv_readyD (fg : Forget) (multi : Bool) {n : Bool → Nat} {s : StD} (h : WInv s n) (r : Int × Bool) :
    WInv (readyD fg multi s r) (fun b => n b + if b = r.2 then 1 else 0) := by
  unfold readyD
  exact winv_drain fg _ (winv_add (winv_catchUp fg _ _ h) r.2)

theorem winv_foldl_readyD (fg : Forget) (multi : Bool) : ∀ (l : List (Int × Bool)) {n : Bool → Nat} {s : StD},
    WInv s n → WInv (l.foldl (readyD fg multi) s) (fun b => n b + (runsOf b l).length)
  | [], _, _, h => winv_mono h (fun b => by simp [runsOf])
  | r :: l, n, s, h => by
    rw [List.foldl_cons]
    refine winv_mono (winv_foldl_readyD fg multi l (winv_readyD fg multi h r)) (fun b => ?_)
    obtain ⟨t, x⟩ := r
    by_cases hb : b = x
    · subst hb; simp [runsOf_cons_same]; omega
    · have hxb : ¬ x = b := fun e => hb e.symm
      simp [runsOf_cons_other _ _ _ _ hxb, hb]

theorem winv_serveDue (fg : Forget) {n : Bool → Nat} {s : StD} (h : WInv s n) (t : Int) :
    WInv (serveDue fg s t) (fun b => n b + (dueOf s.q t b).length) := by
  unfold serveDue
  simp only
  refine winv_mono (winv_foldl_readyD fg _ _ h) (fun b => ?_)
  rw [runsOf_due]; exact Nat.le_refl _

/-! the delaying queue never holds or hands over more than was asked for -/

theorem fire1_pend_self' (s : St) (t : Int) (x : Bool) :
    pc ((fire1 s t x).pend x) + (dueOf s t x).length = pc (s.pend x) := by
  unfold fire1 dueOf
  cases h : s.pend x with
  | none => simp [h]
  | some d => by_cases hd : d ≤ t <;> simp [hd, h, setPend]

theorem fire_count (q : St) (t : Int) (b : Bool) :
    pc ((fire q t).pend b) + (dueOf q t b).length = pc (q.pend b) := by
  unfold fire
  cases b
  · rw [fire1_pend_ne _ _ _ _ (by decide)]; exact fire1_pend_self' q t false
  · rw [← dueOf_fire1_ne q t false true (by decide), fire1_pend_self', fire1_pend_ne _ _ _ _ (by decide)]

theorem arrive_count (lim : Limiter) (q : St) (t : Int) (b x : Bool) :
    (runsOf x (arrive lim q t b).runs).length + pc ((arrive lim q t b).pend x)
      ≤ (runsOf x (fire q t).runs).length + pc ((fire q t).pend x) + (if x = b then 1 else 0) := by
  unfold arrive
  simp only
  split
  · by_cases hx : x = b
    · subst hx; simp [runsOf_cons_same]; omega
    · have hbx : ¬ b = x := fun e => hx e.symm
      simp [runsOf_cons_other _ _ _ _ hbx, hx]
  · by_cases hx : x = b
    · subst hx; simp [setPend_same]
    · simp [setPend_other _ _ _ _ hx, hx]

/-- what was started, queued or owed never exceeds the ready events; ready + waiting never exceeds the
notifications -/
structure EInv (s : StD) (done : List (Int × Bool)) : Prop where
  w : WInv s (fun b => (runsOf b s.q.runs).length)
  q : ∀ b, (runsOf b s.q.runs).length + pc (s.q.pend b) ≤ (runsOf b done).length

theorem arriveD_einv (lim : Limiter) {s : StD} {done : List (Int × Bool)} (h : EInv s done) (t : Int) (b : Bool) :
    EInv (arriveD lim forgetId s t b) ((t, b) :: done) := by
  have h2 := winv_catchUp forgetId (some t) none (winv_serveDue forgetId h.w t)
  have hq : (catchUp forgetId (some t) none (serveDue forgetId s t)).q = s.q := by
    rw [catchUp_q, serveDue_q]
  constructor
  · rw [arriveD_q, arrive_runs]
    unfold arriveD arriveW
    simp only [hq]
    generalize catchUp forgetId (some t) none (serveDue forgetId s t) = s2 at h2
    by_cases himm : (lim s.q.last t).2 ≤ 0
    · simp only [himm, if_true]
      apply winv_mono (n := fun x => (runsOf x s.q.runs).length + (dueOf s.q t x).length + if x = b then 1 else 0)
      · apply winv_drain
        apply winv_add (n := fun x => (runsOf x s.q.runs).length + (dueOf s.q t x).length)
        exact ⟨h2.clean, h2.cnt⟩
      intro x
      by_cases hx : x = b
      · subst hx; simp [runsOf_cons_same, runsOf_fire]; omega
      · have hbx : ¬ b = x := fun e => hx e.symm
        simp [runsOf_cons_other _ _ _ _ hbx, hx, runsOf_fire]; omega
    · simp only [himm, if_false]
      apply winv_mono (n := fun x => (runsOf x s.q.runs).length + (dueOf s.q t x).length)
      · exact ⟨h2.clean, h2.cnt⟩
      intro x
      simp only [runsOf_fire, List.length_append]; omega
  · intro x
    rw [arriveD_q]
    have h1 := arrive_count lim s.q t b x
    have h3 := fire_count s.q t x
    have h4 := h.q x
    rw [runsOf_fire, List.length_append] at h1
    by_cases hx : x = b
    · subst hx; simp [runsOf_cons_same] at h1 ⊢; omega
    · have hbx : ¬ b = x := fun e => hx e.symm
      simp [runsOf_cons_other _ _ _ _ hbx, hx] at h1 ⊢; omega

theorem foldl_arriveD_einv (lim : Limiter) : ∀ (evs : List (Int × Bool)) (s : StD) (done : List (Int × Bool)),
    EInv s done → EInv (evs.foldl (fun s e => arriveD lim forgetId s e.1 e.2) s) (evs.reverse ++ done)
  | [], _, _, h => h
  | e :: evs, s, done, h => by
    rw [List.foldl_cons, List.reverse_cons, List.append_assoc]
    exact foldl_arriveD_einv lim evs _ _ (arriveD_einv lim h e.1 e.2)

theorem flushD_einv {s : StD} {done : List (Int × Bool)} (h : EInv s done) (b : Bool) :
    (runsOf b (flushD forgetId s).starts).length ≤ (runsOf b done).length := by
  unfold flushD
  simp only [serveDue_q]
  unfold flush
  simp only
  generalize max ((s.q.pend false).getD 0) ((s.q.pend true).getD 0) = m
  have h1 := winv_serveDue forgetId h.w m
  have h2 : WInv (catchUp forgetId none none { serveDue forgetId s m with q := fire s.q m })
      (fun b => (runsOf b s.q.runs).length + (dueOf s.q m b).length) := by
    apply winv_catchUp
    exact ⟨h1.clean, h1.cnt⟩
  have h3 := h2.cnt b
  have h4 := fire_count s.q m b
  have h5 := h.q b
  simp only [cntW] at h3
  omega

end HapVerif.C13
