import HapVerif.Lemmas.C04Lookup
/-!
# C04 — from entries back to rules: `best`, `checkReq`, and T2 at the level of rules.  Core only.
-/
namespace HapVerif.C04
open List

theorem foldl_max_ge : ∀ (l : List Nat) (a : Nat), a ≤ l.foldl max a ∧ ∀ x ∈ l, x ≤ l.foldl max a
  | [], a => by simp
  | y :: l, a => by
    obtain ⟨h1, h2⟩ := foldl_max_ge l (max a y)
    simp only [foldl_cons]
    refine ⟨by omega, ?_⟩
    intro x hx
    rcases mem_cons.1 hx with rfl | hx
    · omega
    · exact h2 x hx

theorem foldl_max_le : ∀ (l : List Nat) (a b : Nat), a ≤ b → (∀ x ∈ l, x ≤ b) → l.foldl max a ≤ b
  | [], a, b, h, _ => by simpa using h
  | y :: l, a, b, h, hl => by
    simp only [foldl_cons]
    apply foldl_max_le l
    · have := hl y mem_cons_self; omega
    · exact fun x hx => hl x (mem_cons_of_mem _ hx)

theorem best_nil {rules : List Rule} {h q : Str}
    (hn : ∀ r ∈ rules, ruleMatches r h q = false) : best rules h q = [] := by
  have : rules.filter (ruleMatches · h q) = [] := by
    rw [filter_eq_nil_iff]; intro r hr; simp [hn r hr]
  simp [best, this]

theorem mem_best_exact {rules : List Rule} {h q : Str} {r : Rule} (hr : r ∈ rules)
    (hm : ruleMatches r h q = true) (hx : r.mt = .exact) : r.target ∈ best rules h q := by
  have hmem : r ∈ (rules.filter (ruleMatches · h q)).filter (·.mt = .exact) := by
    simp [mem_filter, hr, hm, hx]
  have hne : ((rules.filter (ruleMatches · h q)).filter (·.mt = .exact)).isEmpty = false := by
    cases hh : (rules.filter (ruleMatches · h q)).filter (·.mt = .exact) with
    | nil => rw [hh] at hmem; simp at hmem
    | cons _ _ => rfl
  unfold best
  simp only [hne, Bool.not_false, if_true]
  exact mem_map.2 ⟨r, hmem, rfl⟩

theorem mem_best_longest {rules : List Rule} {h q : Str} {r : Rule} (hr : r ∈ rules)
    (hm : ruleMatches r h q = true)
    (hnx : ∀ r' ∈ rules, ruleMatches r' h q = true → r'.mt ≠ .exact)
    (hmax : ∀ r' ∈ rules, ruleMatches r' h q = true → r'.path.length ≤ r.path.length) :
    r.target ∈ best rules h q := by
  have hex : ((rules.filter (ruleMatches · h q)).filter (·.mt = .exact)) = [] := by
    rw [filter_eq_nil_iff]
    intro r' hr'
    rw [mem_filter] at hr'
    simpa using hnx r' hr'.1 hr'.2
  have hrm : r ∈ rules.filter (ruleMatches · h q) := mem_filter.2 ⟨hr, hm⟩
  have hmx : ((rules.filter (ruleMatches · h q)).map (·.path.length)).foldl max 0 = r.path.length := by
    apply Nat.le_antisymm
    · apply foldl_max_le _ _ _ (Nat.zero_le _)
      intro x hx
      obtain ⟨r', hr', rfl⟩ := mem_map.1 hx
      rw [mem_filter] at hr'
      exact hmax r' hr'.1 hr'.2
    · exact (foldl_max_ge _ 0).2 _ (mem_map.2 ⟨r, hrm, rfl⟩)
  unfold best
  simp only [hex, isEmpty_nil, Bool.not_true, Bool.false_eq_true, if_false, hmx]
  exact mem_map.2 ⟨r, mem_filter.2 ⟨hrm, by simp⟩, rfl⟩

theorem sem_addTarget (r : Rule) (i : Nat) (h q : Str) :
    sem (addTarget r i) (lower h) q = ruleMatches r h q := by
  unfold sem ruleMatches
  cases hmt : r.mt <;> simp [addTarget, pm, hmt]

theorem addTarget_path_length (r : Rule) (i : Nat) : (addTarget r i).path.length = r.path.length := by
  simp only [addTarget]; split <;> simp

theorem checkReq_none_of {rules : List Rule} {fs : List MFile} {h q : Str}
    (h1 : lookupFiles fs (sampleOf h q) = none → best rules h q = [])
    (h2 : ∀ t, lookupFiles fs (sampleOf h q) = some t → t ∈ best rules h q) :
    checkReq rules fs h q = none := by
  unfold checkReq
  cases hg : lookupFiles fs (sampleOf h q) with
  | none => simp [h1 hg]
  | some t =>
    have := h2 t hg
    simp [this]

/-- **T2**: a well-ordered layout that holds exactly the entries of the rules answers every
request as the property demands -/
theorem checkReq_of_wellordered {rules : List Rule} {l : Layout} {h q : Str}
    (wf : WF rules = true) (rq : WFReq h q = true) (wo : WellOrdered l)
    (cov : ∀ e, e ∈ l.flatMap (·.entries) ↔ e ∈ entriesOf rules) :
    checkReq rules (emit l) h q = none := by
  simp only [WFReq, Bool.and_eq_true, Bool.not_eq_true', contains_eq_mem,
    decide_eq_false_iff_not] at rq
  obtain ⟨⟨⟨r1, r2⟩, _⟩, r4⟩ := rq
  have hH : '#' ∉ lower h := fun x => r2 (mem_lower_hash.1 x)
  have hHs : '/' ∉ lower h := fun x => r1 (mem_lower_slash.1 x)
  obtain ⟨hN, hS⟩ := lookup_entries (H := lower h) (q := q) wo cov (entriesOf_ok wf) hH hHs
    (lower_idem h) r4
  have hrule : ∀ r ∈ rules, ∃ i, addTarget r i ∈ entriesOf rules := by
    intro r hr
    obtain ⟨i, hi, rfl⟩ := mem_iff_getElem.1 hr
    exact ⟨i, mem_entriesOf.2 ⟨i, hi, rfl⟩⟩
  apply checkReq_none_of
  · intro hg
    apply best_nil
    intro r hr
    obtain ⟨i, hi⟩ := hrule r hr
    rw [← sem_addTarget r i]
    exact hN hg _ hi
  · intro t hg
    obtain ⟨e, he, htg, hs, hx, hlong⟩ := hS t hg
    obtain ⟨i, hi, rfl⟩ := mem_entriesOf.1 he
    rw [sem_addTarget] at hs
    have hr : rules[i] ∈ rules := getElem_mem hi
    have htg' : rules[i].target = t := htg
    rw [← htg']
    by_cases hex : ∃ r' ∈ rules, ruleMatches r' h q = true ∧ r'.mt = .exact
    · obtain ⟨r', hr', hm', hx'⟩ := hex
      obtain ⟨j, hj⟩ := hrule r' hr'
      have := hx ⟨_, hj, by rw [sem_addTarget]; exact hm', hx'⟩
      exact mem_best_exact hr hs this
    · have hnx : ∀ r' ∈ rules, ruleMatches r' h q = true → r'.mt ≠ .exact :=
        fun r' hr' hm' hx' => hex ⟨r', hr', hm', hx'⟩
      apply mem_best_longest hr hs hnx
      intro r' hr' hm'
      obtain ⟨j, hj⟩ := hrule r' hr'
      have h1 : ∀ x ∈ entriesOf rules, sem x (lower h) q = true → x.mt ≠ .exact := by
        intro x hxm hsx
        obtain ⟨k, hk, rfl⟩ := mem_entriesOf.1 hxm
        rw [sem_addTarget] at hsx
        exact hnx _ (getElem_mem hk) hsx
      have := hlong h1 _ hj (by rw [sem_addTarget]; exact hm')
      rw [addTarget_path_length, addTarget_path_length] at this
      exact this

end HapVerif.C04
