import HapVerif.Lemmas.C02PairNoop
/-!
# M-Dyn: the runtime server table — lookups by name, effect of one command, canonical sort
-/
namespace HapVerif.C02

/-! ### `sortN` is canonical on lists with distinct names -/

abbrev NRow := String × Option (String × Nat × Int)

theorem insertN_perm (x : NRow) (l : List NRow) : (insertN x l).Perm (x :: l) := by
  induction l with
  | nil => simp [insertN]
  | cons y ys ih =>
    unfold insertN
    split
    · exact List.Perm.refl _
    · exact (List.Perm.cons y ih).trans (List.Perm.swap x y ys)

theorem insertN_sorted (x : NRow) (l : List NRow) (h : l.Pairwise (fun a b => a.1 ≤ b.1)) :
    (insertN x l).Pairwise (fun a b => a.1 ≤ b.1) := by
  induction l with
  | nil => simp [insertN]
  | cons y ys ih =>
    rw [List.pairwise_cons] at h
    unfold insertN
    split
    · next hlt =>
      rw [List.pairwise_cons]
      refine ⟨?_, List.pairwise_cons.2 h⟩
      intro b hb
      have hxy : x.1 ≤ y.1 := String.not_lt.1 (String.lt_asymm hlt)
      rcases List.mem_cons.1 hb with rfl | hb
      · exact hxy
      · exact String.le_trans hxy (h.1 b hb)
    · next hnlt =>
      rw [List.pairwise_cons]
      refine ⟨?_, ih h.2⟩
      intro b hb
      rcases List.mem_cons.1 ((insertN_perm x ys).subset hb) with rfl | hb
      · exact String.not_lt.1 hnlt
      · exact h.1 b hb

theorem sortN_fold (l : List NRow) : ∀ acc : List NRow, acc.Pairwise (fun a b => a.1 ≤ b.1) →
    (l.foldl (fun acc x => insertN x acc) acc).Perm (acc ++ l) ∧
    (l.foldl (fun acc x => insertN x acc) acc).Pairwise (fun a b => a.1 ≤ b.1) := by
  induction l with
  | nil => intro acc h; simpa using h
  | cons x xs ih =>
    intro acc h
    rw [List.foldl_cons]
    obtain ⟨h1, h2⟩ := ih _ (insertN_sorted x acc h)
    refine ⟨h1.trans ?_, h2⟩
    refine ((insertN_perm x acc).append_right xs).trans ?_
    simpa using (List.perm_middle (a := x) (l₁ := acc) (l₂ := xs)).symm

theorem sortN_perm (l : List NRow) : (sortN l).Perm l := by
  simpa [sortN] using (sortN_fold l [] List.Pairwise.nil).1

theorem sortN_sorted (l : List NRow) : (sortN l).Pairwise (fun a b => a.1 ≤ b.1) :=
  (sortN_fold l [] List.Pairwise.nil).2

/-- two tables with the same rows and pairwise distinct names sort to the same list -/
theorem sortN_eq_of_perm {l1 l2 : List NRow} (hp : l1.Perm l2) (hn : (l1.map (·.1)).Nodup) : sortN l1 = sortN l2 := by
  refine List.Perm.eq_of_pairwise (le := fun a b => a.1 ≤ b.1) ?_ (sortN_sorted l1) (sortN_sorted l2)
    ((sortN_perm l1).trans (hp.trans (sortN_perm l2).symm))
  intro a b ha hb hab hba
  have ha' : a ∈ l1 := (sortN_perm l1).subset ha
  have hb' : b ∈ l1 := hp.symm.subset ((sortN_perm l2).subset hb)
  exact eq_of_nodup_map (·.1) l1 hn a ha' b hb' (String.le_antisymm hab hba)

/-! ### lookups by name -/

/-- every server called `nm` in table `T` satisfies `P` -/
def TL (T : List Srv) (nm : String) (P : Srv → Prop) : Prop := ∀ srv ∈ T, srv.name = nm → P srv

def cmdName : Cmd → String
  | .disable n => n
  | .enable n _ _ _ => n

/-- what a command does to one server -/
def updSrv (c : Cmd) (s : Srv) : Srv :=
  match c with
  | .disable n => if s.name = n then { s with state := .maint, ip := emptyIP, port := emptyPort, weight := 0 } else s
  | .enable n ip port w =>
    if s.name = n then { s with ip := ip, port := port, weight := w, state := if w > 0 then .ready else .drain } else s

theorem applyCmd_eq (T : List Srv) (c : Cmd) : applyCmd T c = T.map (updSrv c) := by
  cases c <;> rfl

theorem updSrv_name (c : Cmd) (s : Srv) : (updSrv c s).name = s.name := by
  cases c <;> simp only [updSrv] <;> split <;> rfl

theorem updSrv_other (c : Cmd) (s : Srv) (h : s.name ≠ cmdName c) : updSrv c s = s := by
  cases c <;> simp only [updSrv, cmdName] at h ⊢ <;> rw [if_neg h]

theorem TL_other {T : List Srv} {nm : String} {P : Srv → Prop} (c : Cmd) (hne : cmdName c ≠ nm) (h : TL T nm P) :
    TL (applyCmd T c) nm P := by
  intro srv hs hn
  rw [applyCmd_eq] at hs
  obtain ⟨s0, hs0, rfl⟩ := List.mem_map.1 hs
  rw [updSrv_name] at hn
  rw [updSrv_other c s0 (by rw [hn]; exact fun e => hne e.symm)]
  exact h s0 hs0 hn

theorem TL_enable (T : List Srv) (nm ip : String) (port : Nat) (w : Int) :
    TL (applyCmd T (.enable nm ip port w)) nm
      (fun s => s.ip = ip ∧ s.port = port ∧ s.weight = w ∧ s.state ≠ .maint) := by
  intro srv hs hn
  rw [applyCmd_eq] at hs
  obtain ⟨s0, hs0, rfl⟩ := List.mem_map.1 hs
  rw [updSrv_name] at hn
  simp only [updSrv, hn, if_true, true_and]
  split <;> simp

theorem TL_disable (T : List Srv) (nm : String) :
    TL (applyCmd T (.disable nm)) nm (fun s => s.state = .maint) := by
  intro srv hs hn
  rw [applyCmd_eq] at hs
  obtain ⟨s0, hs0, rfl⟩ := List.mem_map.1 hs
  rw [updSrv_name] at hn
  simp only [updSrv, hn, if_true]

theorem TL_mono {T : List Srv} {nm : String} {P Q : Srv → Prop} (h : TL T nm P) (hpq : ∀ s, s.name = nm → P s → Q s) :
    TL T nm Q := fun srv hs hn => hpq srv hn (h srv hs hn)

/-- the table after the commands -/
def tbl (old : List EP) (cmds : List Cmd) : List Srv := cmds.foldl applyCmd (load old)

theorem tbl_snoc (old : List EP) (cmds : List Cmd) (c : Cmd) : tbl old (cmds ++ [c]) = applyCmd (tbl old cmds) c := by
  simp [tbl, List.foldl_append]

theorem tbl_names (old : List EP) (cmds : List Cmd) : (tbl old cmds).map (·.name) = old.map (·.name) := by
  unfold tbl
  have : ∀ (T : List Srv), (cmds.foldl applyCmd T).map (·.name) = T.map (·.name) := by
    induction cmds with
    | nil => intro T; rfl
    | cons c cs ih =>
      intro T
      rw [List.foldl_cons, ih, applyCmd_eq, List.map_map]
      apply List.map_congr_left
      intro s _; exact updSrv_name c s
  rw [this, load_names]

/-- an enabled endpoint and a running server with the same address, port and weight look the same -/
theorem norm_enabled {srv : Srv} {c : EP} (hen : c.enabled = true) (hn : srv.name = c.name)
    (h : srv.ip = c.ip ∧ srv.port = c.port ∧ srv.weight = c.weight ∧ srv.state ≠ .maint) :
    normSrv srv = normSrv (loadSrv c) := by
  obtain ⟨h1, h2, h3, h4⟩ := h
  have hl : (loadSrv c).state ≠ .maint := by
    simp only [loadSrv, hen, Bool.not_true, Bool.false_eq_true, if_false]; split <;> simp
  have e1 : normSrv srv = (srv.name, some (srv.ip, srv.port, srv.weight)) := by
    unfold normSrv; cases hs : srv.state <;> simp_all
  have e2 : normSrv (loadSrv c) = ((loadSrv c).name, some ((loadSrv c).ip, (loadSrv c).port, (loadSrv c).weight)) := by
    unfold normSrv; cases hs : (loadSrv c).state <;> simp_all
  rw [e1, e2, hn, h1, h2, h3]; rfl

theorem norm_maint {srv : Srv} (nm : String) (iw : Int) (hn : srv.name = nm) (h : srv.state = .maint) :
    normSrv srv = normSrv (loadSrv (mkEmpty nm iw)) := by
  unfold normSrv
  rw [h]
  simp [loadSrv, mkEmpty, hn]

end HapVerif.C02
