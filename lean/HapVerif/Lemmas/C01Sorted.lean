import HapVerif.Lemmas.C01Congr
/-
`sortIngress`: the sorted list of valid ingresses is determined by its members (total order on distinct keys), so
the ingresses that are valid and unchanged keep their relative order from one cluster state to the next.
-/
set_option linter.unusedSectionVars false
set_option linter.unusedSimpArgs false
set_option linter.unusedVariables false
namespace HapVerif.C01
open List

theorem ingLE_iff {a b : Ingress} :
    ingLE a b = true ↔ a.created < b.created ∨ (a.created = b.created ∧ ¬ b.key < a.key) := by
  simp [ingLE]

theorem ingLE_total (a b : Ingress) : ingLE a b = true ∨ ingLE b a = true := by
  rw [ingLE_iff, ingLE_iff]
  rcases Nat.lt_trichotomy a.created b.created with h | h | h
  · exact Or.inl (Or.inl h)
  · by_cases hk : b.key < a.key
    · exact Or.inr (Or.inr ⟨h.symm, String.lt_asymm hk⟩)
    · exact Or.inl (Or.inr ⟨h, hk⟩)
  · exact Or.inr (Or.inl h)

theorem ingLE_trans {a b c : Ingress} (h1 : ingLE a b = true) (h2 : ingLE b c = true) : ingLE a c = true := by
  rw [ingLE_iff] at *
  rcases h1 with h1 | ⟨h1, k1⟩
  · rcases h2 with h2 | ⟨h2, _⟩
    · exact Or.inl (Nat.lt_trans h1 h2)
    · exact Or.inl (h2 ▸ h1)
  · rcases h2 with h2 | ⟨h2, k2⟩
    · exact Or.inl (h1 ▸ h2)
    · refine Or.inr ⟨h1.trans h2, ?_⟩
      have ab : a.key ≤ b.key := String.not_lt.mp k1
      have bc : b.key ≤ c.key := String.not_lt.mp k2
      exact String.not_lt.mpr (String.le_trans ab bc)

theorem ingLE_antisymm {a b : Ingress} (h1 : ingLE a b = true) (h2 : ingLE b a = true) : a.key = b.key := by
  rw [ingLE_iff] at *
  rcases h1 with h1 | ⟨h1, k1⟩
  · rcases h2 with h2 | ⟨h2, _⟩
    · exact absurd (Nat.lt_trans h1 h2) (Nat.lt_irrefl _)
    · rw [h2] at h1; exact absurd h1 (Nat.lt_irrefl _)
  · rcases h2 with h2 | ⟨_, k2⟩
    · rw [h1] at h2; exact absurd h2 (Nat.lt_irrefl _)
    · exact String.le_antisymm (String.not_lt.mp k1) (String.not_lt.mp k2)

theorem pairwise_insertIng {a : Ingress} {l : List Ingress} (h : l.Pairwise (fun x y => ingLE x y = true)) :
    (insertIng a l).Pairwise (fun x y => ingLE x y = true) := by
  induction l with
  | nil => simp [insertIng]
  | cons b l ih =>
    unfold insertIng
    rw [pairwise_cons] at h
    by_cases hab : ingLE a b = true
    · simp only [hab, if_true]
      rw [pairwise_cons]
      refine ⟨?_, pairwise_cons.mpr h⟩
      intro c hc
      rcases mem_cons.mp hc with hc | hc
      · rw [hc]; exact hab
      · exact ingLE_trans hab (h.1 c hc)
    · simp only [hab, Bool.false_eq_true, if_false]
      rw [pairwise_cons]
      refine ⟨?_, ih h.2⟩
      intro c hc
      rcases mem_insertIng.mp hc with hc | hc
      · rw [hc]; exact (ingLE_total a b).resolve_left hab
      · exact h.1 c hc

theorem pairwise_sortIngs (l : List Ingress) : (sortIngs l).Pairwise (fun x y => ingLE x y = true) := by
  induction l with
  | nil => simp [sortIngs]
  | cons b l ih => exact pairwise_insertIng ih

theorem insertIng_perm (a : Ingress) (l : List Ingress) : insertIng a l ~ a :: l := by
  induction l with
  | nil => simp [insertIng]
  | cons b l ih =>
    unfold insertIng
    split
    · exact Perm.refl _
    · exact ((Perm.cons b ih).trans (Perm.swap a b l))

theorem sortIngs_perm (l : List Ingress) : sortIngs l ~ l := by
  induction l with
  | nil => exact Perm.refl _
  | cons b l ih => exact (insertIng_perm b (sortIngs l)).trans (Perm.cons b ih)

theorem nodup_of_nodup_map_key {l : List Ingress} (h : (l.map Ingress.key).Nodup) : l.Nodup := by
  induction l with
  | nil => simp
  | cons a l ih =>
    simp only [map_cons, nodup_cons] at h ⊢
    exact ⟨fun ha => h.1 (mem_map_of_mem (f := Ingress.key) ha), ih h.2⟩

theorem validSorted_nodup {w : World} (hwf : w.WF) : w.validSorted.Nodup := by
  unfold World.validSorted
  rw [(sortIngs_perm _).nodup_iff]
  exact (nodup_of_nodup_map_key hwf).sublist filter_sublist

theorem validSorted_pairwise (w : World) : w.validSorted.Pairwise (fun x y => ingLE x y = true) :=
  pairwise_sortIngs _

theorem key_inj_of_wf {w : World} (hwf : w.WF) {a b : Ingress} (ha : a ∈ w.validSorted) (hb : b ∈ w.validSorted)
    (hk : a.key = b.key) : a = b := by
  have h1 := validIng_of_mem hwf ha
  have h2 := validIng_of_mem hwf hb
  rw [hk, h2] at h1
  exact (Option.some.inj h1).symm

/-- two sorted duplicate-free lists with the same members are equal -/
theorem sorted_unique (L1 L2 : List Ingress)
    (hp1 : L1.Pairwise (fun x y => ingLE x y = true)) (hp2 : L2.Pairwise (fun x y => ingLE x y = true))
    (hn1 : L1.Nodup) (hn2 : L2.Nodup) (hmem : ∀ i, i ∈ L1 ↔ i ∈ L2)
    (hanti : ∀ a ∈ L1, ∀ b ∈ L1, a.key = b.key → a = b) : L1 = L2 := by
  induction L1 generalizing L2 with
  | nil =>
    cases L2 with
    | nil => rfl
    | cons b t => exact absurd ((hmem b).mpr (mem_cons_self ..)) (by simp)
  | cons a t1 ih =>
    cases L2 with
    | nil => exact absurd ((hmem a).mp (mem_cons_self ..)) (by simp)
    | cons b t2 =>
      rw [pairwise_cons] at hp1 hp2
      rw [nodup_cons] at hn1 hn2
      have hab : a = b := by
        have ha2 : a ∈ b :: t2 := (hmem a).mp (mem_cons_self ..)
        have hb1 : b ∈ a :: t1 := (hmem b).mpr (mem_cons_self ..)
        rcases mem_cons.mp ha2 with h | h
        · exact h
        · rcases mem_cons.mp hb1 with h' | h'
          · exact h'.symm
          · exact hanti a (mem_cons_self ..) b (mem_cons_of_mem _ h') (ingLE_antisymm (hp1.1 b h') (hp2.1 a h))
      subst hab
      congr 1
      apply ih t2 hp1.2 hp2.2 hn1.2 hn2.2
      · intro i
        constructor
        · intro hi
          rcases mem_cons.mp ((hmem i).mp (mem_cons_of_mem _ hi)) with h | h
          · subst h; exact absurd hi hn1.1
          · exact h
        · intro hi
          rcases mem_cons.mp ((hmem i).mpr (mem_cons_of_mem _ hi)) with h | h
          · subst h; exact absurd hi hn2.1
          · exact h
      · intro x hx y hy
        exact hanti x (mem_cons_of_mem _ hx) y (mem_cons_of_mem _ hy)

/-- filtering commutes with flattening into declarations when the predicate only looks at the ingress -/
theorem filter_flatMap_declsOf (p : Ingress → Bool) (L : List Ingress) :
    (L.flatMap declsOf).filter (fun d => p d.ing) = (L.filter p).flatMap declsOf := by
  induction L with
  | nil => rfl
  | cons i L ih =>
    simp only [flatMap_cons, filter_append, ih]
    by_cases hp : p i = true
    · have : (declsOf i).filter (fun d => p d.ing) = declsOf i := by
        rw [filter_eq_self]
        intro d hd
        rw [declsOf_ing hd]; exact hp
      rw [this, filter_cons_of_pos hp, flatMap_cons]
    · have : (declsOf i).filter (fun d => p d.ing) = [] := by
        rw [filter_eq_nil_iff]
        intro d hd
        rw [declsOf_ing hd]; exact hp
      rw [this, filter_cons_of_neg hp]
      simp

end HapVerif.C01
