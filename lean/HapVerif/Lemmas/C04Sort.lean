import HapVerif.Lemmas.C04Str
/-!
# C04 — the insertion sort of maps.go: permutation, sortedness for a transitive comparator,
`pathGt` and the per-file comparator `fileLt .pfx` are transitive.  Core only.
-/
namespace HapVerif.C04
open List

theorem insertBy_perm (lt : Entry → Entry → Bool) (x : Entry) :
    ∀ l : List Entry, (insertBy lt x l).Perm (x :: l)
  | [] => Perm.refl _
  | y :: ys => by
    unfold insertBy
    split
    · exact Perm.refl _
    · exact ((insertBy_perm lt x ys).cons y).trans (Perm.swap x y ys)

theorem foldl_insertBy_perm (lt : Entry → Entry → Bool) :
    ∀ (l acc : List Entry), (l.foldl (fun acc x => insertBy lt x acc) acc).Perm (l ++ acc)
  | [], acc => Perm.refl _
  | x :: xs, acc => by
    simp only [foldl_cons]
    refine (foldl_insertBy_perm lt xs (insertBy lt x acc)).trans ?_
    refine ((insertBy_perm lt x acc).append_left xs).trans ?_
    simp

theorem sortBy_perm (lt : Entry → Entry → Bool) (l : List Entry) : (sortBy lt l).Perm l := by
  simpa [sortBy] using foldl_insertBy_perm lt l []

theorem mem_sortBy {lt : Entry → Entry → Bool} {l : List Entry} {e : Entry} :
    e ∈ sortBy lt l ↔ e ∈ l := (sortBy_perm lt l).mem_iff

/-- comparator facts needed for sortedness, relative to a carrier set `S` -/
structure StrictOn (S : Entry → Prop) (lt : Entry → Entry → Bool) : Prop where
  trans : ∀ a b c, S a → S b → S c → lt a b = true → lt b c = true → lt a c = true
  asymm : ∀ a b, S a → S b → lt a b = true → lt b a = false

/-- no later element is smaller than an earlier one -/
def SortedBy (lt : Entry → Entry → Bool) (l : List Entry) : Prop :=
  l.Pairwise (fun a b => lt b a = false)

theorem insertBy_sorted {S : Entry → Prop} {lt : Entry → Entry → Bool} (so : StrictOn S lt)
    (x : Entry) (hx : S x) :
    ∀ l : List Entry, (∀ e ∈ l, S e) → SortedBy lt l → SortedBy lt (insertBy lt x l)
  | [], _, _ => by simp [insertBy, SortedBy]
  | y :: ys, hS, hs => by
    have hy : S y := hS y (mem_cons_self)
    have hys : ∀ e ∈ ys, S e := fun e he => hS e (mem_cons_of_mem _ he)
    unfold SortedBy at hs ⊢
    rw [pairwise_cons] at hs
    unfold insertBy
    split
    · rename_i hlt
      rw [pairwise_cons]
      refine ⟨?_, pairwise_cons.2 hs⟩
      intro z hz
      rcases mem_cons.1 hz with rfl | hz
      · exact so.asymm _ _ hx hy hlt
      · cases hzx : lt z x with
        | false => rfl
        | true =>
          have := so.trans z x y (hys z hz) hx hy hzx hlt
          rw [hs.1 z hz] at this; exact absurd this (by decide)
    · rename_i hlt
      rw [pairwise_cons]
      refine ⟨?_, insertBy_sorted so x hx ys hys hs.2⟩
      intro z hz
      rcases mem_cons.1 ((insertBy_perm lt x ys).mem_iff.1 hz) with rfl | hz
      · simpa using hlt
      · exact hs.1 z hz

theorem foldl_insertBy_sorted {S : Entry → Prop} {lt : Entry → Entry → Bool} (so : StrictOn S lt) :
    ∀ (l acc : List Entry), (∀ e ∈ l, S e) → (∀ e ∈ acc, S e) → SortedBy lt acc →
      SortedBy lt (l.foldl (fun acc x => insertBy lt x acc) acc)
  | [], _, _, _, h => h
  | x :: xs, acc, hl, ha, h => by
    simp only [foldl_cons]
    have hx : S x := hl x mem_cons_self
    apply foldl_insertBy_sorted so xs _ (fun e he => hl e (mem_cons_of_mem _ he))
    · intro e he
      rcases mem_cons.1 ((insertBy_perm lt x acc).mem_iff.1 he) with rfl | he
      · exact hx
      · exact ha e he
    · exact insertBy_sorted so x hx acc ha h

theorem sortBy_sorted {S : Entry → Prop} {lt : Entry → Entry → Bool} (so : StrictOn S lt)
    (l : List Entry) (hl : ∀ e ∈ l, S e) : SortedBy lt (sortBy lt l) :=
  foldl_insertBy_sorted so l [] hl (by simp) Pairwise.nil

/-- in a sorted list, the element found first is not preceded by any element of the list that
does not sit in the skipped part -/
theorem sorted_first {lt : Entry → Entry → Bool} {l as bs : List Entry} {e e' : Entry}
    (hs : SortedBy lt l) (hl : l = as ++ e :: bs) (hirr : lt e e = false)
    (he' : e' ∈ l) (hn : e' ∉ as) : lt e' e = false := by
  subst hl
  rcases mem_append.1 he' with h | h
  · exact absurd h hn
  · rcases mem_cons.1 h with rfl | h
    · exact hirr
    · unfold SortedBy at hs
      have := (pairwise_append.1 hs).2.1
      exact (pairwise_cons.1 this).1 e' h

/-! ## the comparators -/

theorem pathGt_strict : StrictOn (fun _ => True) pathGt where
  trans := fun _ _ _ _ _ _ h1 h2 => ltStr_trans h2 h1
  asymm := fun _ _ _ _ h => ltStr_asymm h

/-- shape of an entry produced by `addTarget` from a well-formed rule -/
structure KeyOK (e : Entry) : Prop where
  hash : '#' ∉ e.host
  key : e.key = e.host ++ '#' :: e.path

theorem key_cmp {a b : Entry} (ha : KeyOK a) (hb : KeyOK b) (hne : a.host ≠ b.host) :
    ltStr a.key b.key = ltStr (a.host ++ ['#']) (b.host ++ ['#']) := by
  have e1 : a.key = (a.host ++ ['#']) ++ a.path := by rw [ha.key]; simp
  have e2 : b.key = (b.host ++ ['#']) ++ b.path := by rw [hb.key]; simp
  rw [e1, e2]
  exact ltStr_append_of_not_prefix _ _ (sep_not_prefix ha.hash hb.hash hne)
    (sep_not_prefix hb.hash ha.hash (Ne.symm hne))

theorem fileLt_pfx_eq {a b : Entry} (ha : KeyOK a) (hb : KeyOK b) :
    fileLt .pfx a b =
      if a.host = b.host then
        (if a.path = b.path then decide (a.order < b.order) else ltStr b.path a.path)
      else ltStr (a.host ++ ['#']) (b.host ++ ['#']) := by
  unfold fileLt
  by_cases h : a.host = b.host
  · simp [h]
  · simp [h, key_cmp ha hb h]

/-- the comparator on raw data -/
def cmp3 (h p : Str) (o : Nat) (h' p' : Str) (o' : Nat) : Bool :=
  if h = h' then (if p = p' then decide (o < o') else ltStr p' p)
  else ltStr (h ++ ['#']) (h' ++ ['#'])

theorem cmp3_trans {h1 p1 h2 p2 h3 p3 : Str} {o1 o2 o3 : Nat}
    (a : cmp3 h1 p1 o1 h2 p2 o2 = true) (b : cmp3 h2 p2 o2 h3 p3 o3 = true) :
    cmp3 h1 p1 o1 h3 p3 o3 = true := by
  unfold cmp3 at *
  by_cases H1 : h1 = h2
  · subst H1
    by_cases H2 : h1 = h3
    · subst H2
      simp only [if_true] at a b ⊢
      by_cases P1 : p1 = p2
      · subst P1
        by_cases P2 : p1 = p3
        · subst P2
          simp only [if_true, decide_eq_true_eq] at a b ⊢
          omega
        · simpa [P2] using b
      · by_cases P2 : p2 = p3
        · subst P2
          simpa [P1] using a
        · simp only [P1, P2, if_false] at a b
          have h3 := ltStr_trans b a
          have P3 : p1 ≠ p3 := by
            intro e; rw [e, ltStr_irrefl] at h3; exact absurd h3 (by decide)
          simpa [P3] using h3
    · simpa [H2] using b
  · by_cases H2 : h2 = h3
    · subst H2
      simpa [H1] using a
    · simp only [H1, H2, if_false] at a b
      have h3' := ltStr_trans a b
      have H3 : h1 ≠ h3 := by
        intro e; rw [e, ltStr_irrefl] at h3'; exact absurd h3' (by decide)
      simpa [H3] using h3'

theorem fileLt_pfx_trans {a b c : Entry} (ha : KeyOK a) (hb : KeyOK b) (hc : KeyOK c)
    (h1 : fileLt .pfx a b = true) (h2 : fileLt .pfx b c = true) : fileLt .pfx a c = true := by
  rw [fileLt_pfx_eq ha hb] at h1
  rw [fileLt_pfx_eq hb hc] at h2
  rw [fileLt_pfx_eq ha hc]
  exact cmp3_trans h1 h2

theorem fileLt_pfx_irrefl (a : Entry) : fileLt .pfx a a = false := by
  simp [fileLt]

theorem fileLt_pfx_strict : StrictOn KeyOK (fileLt .pfx) where
  trans := fun _ _ _ ha hb hc h1 h2 => fileLt_pfx_trans ha hb hc h1 h2
  asymm := fun a b ha hb h => by
    cases h' : fileLt .pfx b a with
    | false => rfl
    | true =>
      have := fileLt_pfx_trans ha hb ha h h'
      rw [fileLt_pfx_irrefl] at this; exact absurd this (by decide)

end HapVerif.C04
