import HapVerif.Lemmas.C02PairWalk
/-!
# M-Dyn: sorted targets, start of the walk, stage 4 (`addedStep`) and stage 5 (`copyEmpty`)
-/
namespace HapVerif.C02

/-! ### `sortStrs` is a permutation -/

theorem insertStr_perm (x : String) (l : List String) : (insertStr x l).Perm (x :: l) := by
  induction l with
  | nil => simp [insertStr]
  | cons y ys ih =>
    unfold insertStr
    split
    · exact List.Perm.refl _
    · exact (List.Perm.cons y ih).trans (List.Perm.swap x y ys)

theorem sortFold_perm (l : List String) : ∀ acc, (l.foldl (fun acc x => insertStr x acc) acc).Perm (acc ++ l) := by
  induction l with
  | nil => intro acc; simp
  | cons x xs ih =>
    intro acc
    rw [List.foldl_cons]
    refine (ih _).trans ?_
    refine ((insertStr_perm x acc).append_right xs).trans ?_
    simpa using (List.perm_middle (a := x) (l₁ := acc) (l₂ := xs)).symm

theorem sortStrs_perm (l : List String) : (sortStrs l).Perm l := by
  simpa [sortStrs] using sortFold_perm l []

/-! ### the pieces of `pairLoop` -/

/-- the walk state before the first target -/
def walk0 (old cur : List EP) (same : Bool) (sc : List Resp) : Walk :=
  let sp := splitOld old
  let as := assocCur sp.pairs cur
  { s := { updated := same, cur := as.cur, script := sc }, pairs := as.pairs, added := as.added, empty := sp.empty }

/-- the walk state after the last target -/
def walkEnd (old cur : List EP) (pr same : Bool) (sc : List Resp) : Walk :=
  (sortStrs (splitOld old).targets).foldl (walkStep pr) (walk0 old cur same sc)

def stage4 (pr : Bool) (W : Walk) : Option PairSt × Nat :=
  W.added.foldl (addedStep pr W.empty) (some W.s, 0)

theorem pairLoop_eq (old cur : List EP) (pr : Bool) (iw : Int) (same : Bool) (sc : List Resp) :
    pairLoop old cur pr iw same sc =
      let W := walkEnd old cur pr same sc
      match (stage4 pr W).1 with
      | none => none
      | some s => some { s with cur := copyEmpty pr iw s.cur (W.empty.drop W.added.length) } := rfl

theorem walk0_inv {old cur0 : List EP} (same : Bool) (sc : List Resp) (hO : hasDupTarget old = false) :
    WInv old cur0 ((cur0.map (·.target)).Nodup) (walk0 old cur0 same sc) (sortStrs (splitOld old).targets) := by
  have hT := (hasDupTarget_false_iff old).1 hO
  have hsp := splitOld_eq old hO
  obtain ⟨hp, _, hc⟩ := assocCur_inv (cur0 := cur0) hO
  unfold walk0
  simp only [hsp]
  have hperm := sortStrs_perm ((enOf old).map (·.target))
  refine ⟨hp, hperm.nodup_iff.2 hT, ?_, ?_, hc⟩
  · intro t ht
    dsimp only
    rw [hp.tg]; exact hperm.subset ht
  · dsimp only
    have : (assocCur ((enOf old).map mkPair) cur0).pairs.filter
        (gone (sortStrs ((enOf old).map (·.target)))) = [] := by
      rw [List.filter_eq_nil_iff]
      intro q hq
      have : q.target ∈ sortStrs ((enOf old).map (·.target)) := by
        apply hperm.symm.subset; rw [← hp.tg]; exact List.mem_map_of_mem hq
      simp [gone, this]
    rw [this]; simp

theorem walkEnd_inv {old cur0 : List EP} (pr same : Bool) (sc : List Resp) (hO : hasDupTarget old = false) :
    WInv old cur0 ((cur0.map (·.target)).Nodup) (walkEnd old cur0 pr same sc) [] := by
  have hT := (hasDupTarget_false_iff old).1 hO
  exact foldl_inv (walkStep pr) (WInv old cur0 _) (fun w t ts h => walkStep_inv hT pr w t ts h) _ _
    (walk0_inv same sc hO)

/-! ### counting at the end of the walk -/

theorem asg_length (ps : List Pair) : (asg ps).length + (ps.filter (gone [])).length = ps.length := by
  induction ps with
  | nil => rfl
  | cons p ps ih =>
    cases hc : p.cur with
    | none =>
      have : gone [] p = true := by simp [gone, hc]
      simp only [asg, List.filterMap_cons, hc, List.filter_cons, this, if_true, List.length_cons] at ih ⊢
      omega
    | some j =>
      have : gone [] p = false := by simp [gone, hc]
      simp only [asg, List.filterMap_cons, hc, List.filter_cons, this, List.length_cons] at ih ⊢
      simp only [Bool.false_eq_true, if_false]
      omega

theorem nodup_lt_length {l : List Nat} {n : Nat} (hn : l.Nodup) (hl : ∀ x ∈ l, x < n) : l.length ≤ n := by
  have := List.Nodup.length_le_of_subset hn (l₂ := List.range n) (fun x hx => List.mem_range.2 (hl x hx))
  simpa using this

theorem perm_range {l : List Nat} {n : Nat} (hn : l.Nodup) (hl : ∀ x ∈ l, x < n) (hc : ∀ j, j < n → j ∈ l) :
    l.Perm (List.range n) :=
  (List.perm_ext_iff_of_nodup hn List.nodup_range).2 (fun a =>
    ⟨fun h => List.mem_range.2 (hl a h), fun h => hc a (List.mem_range.1 h)⟩)

/-- slots are enough: `empty[i]` is in range for every remaining added endpoint -/
theorem walkEnd_count {old cur0 : List EP} {cv : Prop} {W : Walk} (h : WInv old cur0 cv W []) :
    W.empty.length + (asg W.pairs).length = old.length ∧
    (asg W.pairs).length + W.added.length ≤ cur0.length ∧
    (cv → (asg W.pairs).length + W.added.length = cur0.length) := by
  have h1 := h.emp.length_eq
  have h2 := asg_length W.pairs
  have h3 : W.pairs.length = (enOf old).length := by simpa using congrArg List.length h.p.od
  have h4 := en_dis_length old
  have h5 := nodup_lt_length h.p.nd h.p.lt
  simp only [List.length_append, List.length_map] at h1 h5
  refine ⟨by omega, h5, fun hcv => ?_⟩
  have := (perm_range h.p.nd h.p.lt (fun j hj => List.mem_append.2 (h.cov hcv j hj))).length_eq
  simpa using this

end HapVerif.C02
