import HapVerif.Model.C18
/-!
# C18 — helper lemmas

1. the auth-proxy port allocator (`scan`, `acquire`, `removeExcept`): sortedness, free-port
   characterisation, "list is full" exactly when the range is exhausted, no port / target bound twice,
   over arbitrary operation histories;
2. `createPathConfig` grouping: a path id is in the id set of an item iff the item's config is the
   path's config; the rules resolved for a path id are the rules of the path's own record;
3. the invariant of a converter run: every backend-path record that names `_auth_<port>` has a bind
   of that port to the backend of the path's own auth-url, whatever clean-ups happen in between.
-/
namespace HapVerif.C18

/-! ## 1. allocator -/

def ports (bs : List Bind) : List Int := bs.map (·.port)
def targets (bs : List Bind) : List Nat := bs.map (·.target)

/-- `BindList` strictly ascending by `LocalPort` -/
def Sorted (bs : List Bind) : Prop := (ports bs).Pairwise (· < ·)

theorem sorted_nil : Sorted [] := List.Pairwise.nil

theorem sorted_cons {b : Bind} {bs : List Bind} :
    Sorted (b :: bs) ↔ (∀ q ∈ ports bs, b.port < q) ∧ Sorted bs := by
  simp [Sorted, ports, List.pairwise_cons]

theorem mem_ports {q : Int} {bs : List Bind} : q ∈ ports bs ↔ ∃ b ∈ bs, b.port = q := by
  simp [ports]

theorem sorted_ports_nodup {bs : List Bind} (h : Sorted bs) : (ports bs).Nodup := by
  unfold Sorted at h
  exact h.imp (fun hlt => by omega)

/-- a sorted list binds a port to one target only -/
theorem sorted_functional {bs : List Bind} (h : Sorted bs) {a b : Bind}
    (ha : a ∈ bs) (hb : b ∈ bs) (hp : a.port = b.port) : a = b := by
  induction bs with
  | nil => cases ha
  | cons x xs ih =>
    obtain ⟨hx, hs⟩ := sorted_cons.mp h
    rcases List.mem_cons.mp ha with rfl | ha' <;> rcases List.mem_cons.mp hb with rfl | hb'
    · rfl
    · have := hx b.port (mem_ports.mpr ⟨b, hb', rfl⟩); omega
    · have := hx a.port (mem_ports.mpr ⟨a, ha', rfl⟩); omega
    · exact ih hs ha' hb'

theorem scan_found {t : Nat} : ∀ (bs : List Bind) (free p : Int),
    scan t bs free = .found p → ⟨p, t⟩ ∈ bs := by
  intro bs
  induction bs with
  | nil => intro free p h; simp [scan] at h
  | cons b bs ih =>
    intro free p h
    unfold scan at h
    split at h
    · rename_i ht
      injection h with h
      subst h; subst ht
      exact List.mem_cons_self
    · exact List.mem_cons_of_mem _ (ih _ _ h)

theorem scan_free_notarget {t : Nat} : ∀ (bs : List Bind) (free f : Int),
    scan t bs free = .free f → ∀ b ∈ bs, b.target ≠ t := by
  intro bs
  induction bs with
  | nil => intro _ _ _ b hb; cases hb
  | cons x xs ih =>
    intro free f h b hb
    unfold scan at h
    split at h
    · cases h
    · rename_i hne
      rcases List.mem_cons.mp hb with rfl | hb'
      · exact hne
      · exact ih _ _ h b hb'

theorem scan_notarget_free {t : Nat} : ∀ (bs : List Bind) (free : Int),
    (∀ b ∈ bs, b.target ≠ t) → ∃ f, scan t bs free = .free f := by
  intro bs
  induction bs with
  | nil => intro free _; exact ⟨free, rfl⟩
  | cons x xs ih =>
    intro free h
    unfold scan
    rw [if_neg (h x List.mem_cons_self)]
    exact ih _ (fun b hb => h b (List.mem_cons_of_mem _ hb))

/-- on a sorted list the scan ends on the least port `≥ free` that is not bound -/
theorem scan_free_spec {t : Nat} : ∀ (bs : List Bind) (free f : Int), Sorted bs →
    scan t bs free = .free f →
    free ≤ f ∧ f ∉ ports bs ∧ ∀ q, free ≤ q → q < f → q ∈ ports bs := by
  intro bs
  induction bs with
  | nil =>
    intro free f _ h
    simp [scan] at h
    subst h
    refine ⟨Int.le_refl _, by simp [ports], ?_⟩
    intro q h1 h2; omega
  | cons b bs ih =>
    intro free f hs h
    obtain ⟨hb, hs'⟩ := sorted_cons.mp hs
    unfold scan at h
    split at h
    · cases h
    · by_cases hfb : free = b.port
      · rw [if_pos hfb] at h
        obtain ⟨h1, h2, h3⟩ := ih _ _ hs' h
        refine ⟨by omega, ?_, ?_⟩
        · intro hm
          simp only [ports, List.map_cons, List.mem_cons] at hm
          rcases hm with hm | hm
          · omega
          · exact h2 hm
        · intro q hq1 hq2
          simp only [ports, List.map_cons, List.mem_cons]
          by_cases hq : q = b.port
          · exact Or.inl hq
          · exact Or.inr (h3 q (by omega) hq2)
      · rw [if_neg hfb] at h
        obtain ⟨h1, h2, h3⟩ := ih _ _ hs' h
        have hne : f ≠ b.port := by
          intro hfe
          -- then free < f, so free would be a bound port of the tail, all of which exceed b.port = f
          have hlt : free < f := by omega
          have := hb free (h3 free (Int.le_refl _) hlt)
          omega
        refine ⟨h1, ?_, ?_⟩
        · intro hm
          simp only [ports, List.map_cons, List.mem_cons] at hm
          rcases hm with hm | hm
          · exact hne hm
          · exact h2 hm
        · intro q hq1 hq2
          simp only [ports, List.map_cons, List.mem_cons]
          exact Or.inr (h3 q hq1 hq2)

theorem mem_insertBind {n b : Bind} : ∀ {bs : List Bind}, b ∈ insertBind n bs ↔ b = n ∨ b ∈ bs := by
  intro bs
  induction bs with
  | nil => simp [insertBind]
  | cons x xs ih =>
    unfold insertBind
    split
    · simp
    · simp only [List.mem_cons, ih]
      constructor
      · rintro (h | h | h)
        · exact Or.inr (Or.inl h)
        · exact Or.inl h
        · exact Or.inr (Or.inr h)
      · rintro (h | h | h)
        · exact Or.inr (Or.inl h)
        · exact Or.inl h
        · exact Or.inr (Or.inr h)

theorem sorted_insertBind {n : Bind} : ∀ {bs : List Bind}, Sorted bs → n.port ∉ ports bs →
    Sorted (insertBind n bs) := by
  intro bs
  induction bs with
  | nil => intro _ _; simp [insertBind, Sorted, ports]
  | cons x xs ih =>
    intro hs hn
    obtain ⟨hx, hs'⟩ := sorted_cons.mp hs
    have hn' : n.port ≠ x.port ∧ n.port ∉ ports xs := by
      simp only [ports, List.map_cons, List.mem_cons, not_or] at hn
      exact hn
    unfold insertBind
    split
    · rename_i hlt
      refine sorted_cons.mpr ⟨?_, hs⟩
      intro q hq
      simp only [ports, List.map_cons, List.mem_cons] at hq
      rcases hq with rfl | hq
      · exact hlt
      · have := hx q hq; omega
    · rename_i hlt
      refine sorted_cons.mpr ⟨?_, ih hs' hn'.2⟩
      intro q hq
      obtain ⟨b, hb, rfl⟩ := mem_ports.mp hq
      rcases mem_insertBind.mp hb with rfl | hb'
      · have := hn'.1; omega
      · exact hx _ (mem_ports.mpr ⟨b, hb', rfl⟩)

/-- a successful acquire: the answer is bound to the target afterwards, nothing else changes,
and a new port is a free port of the range -/
theorem acquire_some {bs bs' : List Bind} {rs re p : Int} {t : Nat} (hs : Sorted bs)
    (h : acquire bs rs re t = (some p, bs')) :
    ⟨p, t⟩ ∈ bs' ∧ (∀ b, b ∈ bs' ↔ b = ⟨p, t⟩ ∨ b ∈ bs) ∧ Sorted bs' ∧
    (⟨p, t⟩ ∈ bs ∨ (rs ≤ p ∧ p ≤ re ∧ p ∉ ports bs ∧ ∀ b ∈ bs, b.target ≠ t)) := by
  unfold acquire at h
  split at h
  · rename_i q hq
    simp only [Prod.mk.injEq, Option.some.injEq] at h
    obtain ⟨rfl, rfl⟩ := h
    have hm := scan_found _ _ _ hq
    exact ⟨hm, fun b => ⟨Or.inr, fun hb => hb.elim (fun e => e ▸ hm) id⟩, hs, Or.inl hm⟩
  · rename_i f hf
    split at h
    · simp at h
    · rename_i hle
      simp only [Prod.mk.injEq, Option.some.injEq] at h
      obtain ⟨rfl, rfl⟩ := h
      obtain ⟨h1, h2, _⟩ := scan_free_spec _ _ _ hs hf
      refine ⟨mem_insertBind.mpr (Or.inl rfl), fun b => mem_insertBind, sorted_insertBind hs h2, Or.inr ⟨h1, by omega, h2, scan_free_notarget _ _ _ hf⟩⟩

/-- the error: nothing changes, the target has no bind and every port of the range is bound -/
theorem acquire_none {bs bs' : List Bind} {rs re : Int} {t : Nat} (hs : Sorted bs)
    (h : acquire bs rs re t = (none, bs')) :
    bs' = bs ∧ (∀ b ∈ bs, b.target ≠ t) ∧ ∀ q, rs ≤ q → q ≤ re → q ∈ ports bs := by
  unfold acquire at h
  split at h
  · simp at h
  · rename_i f hf
    split at h
    · rename_i hgt
      simp only [Prod.mk.injEq, true_and] at h
      obtain ⟨_, _, h3⟩ := scan_free_spec _ _ _ hs hf
      exact ⟨h.symm, scan_free_notarget _ _ _ hf, fun q h1 h2 => h3 q h1 (by omega)⟩
    · simp at h

/-- **"auth proxy list is full" exactly when the range is exhausted** (and the target is new) -/
theorem acquire_full_iff {bs : List Bind} {rs re : Int} {t : Nat} (hs : Sorted bs) :
    (acquire bs rs re t).1 = none ↔
      (∀ b ∈ bs, b.target ≠ t) ∧ ∀ q, rs ≤ q → q ≤ re → q ∈ ports bs := by
  constructor
  · intro h
    have : acquire bs rs re t = (none, (acquire bs rs re t).2) := by
      rw [← h]
    exact (acquire_none hs this).2
  · rintro ⟨h1, h2⟩
    obtain ⟨f, hf⟩ := scan_notarget_free bs rs h1
    obtain ⟨g1, g2, _⟩ := scan_free_spec _ _ _ hs hf
    unfold acquire
    rw [hf]
    by_cases hgt : f > re
    · simp [hgt]
    · exact absurd (h2 f g1 (by omega)) g2

theorem sorted_filter {bs : List Bind} (p : Bind → Bool) (h : Sorted bs) : Sorted (bs.filter p) := by
  unfold Sorted ports at *
  rw [List.pairwise_map] at *
  exact h.filter p

theorem acquire_sorted {bs : List Bind} {rs re : Int} {t : Nat} (hs : Sorted bs) :
    Sorted (acquire bs rs re t).2 := by
  cases hres : acquire bs rs re t with
  | mk o bs' =>
    cases o with
    | none => rw [(acquire_none hs hres).1]; exact hs
    | some p => exact (acquire_some hs hres).2.2.1

/-- no target is bound twice -/
def TargetsNodup (bs : List Bind) : Prop := (targets bs).Nodup

theorem targets_filter_nodup {bs : List Bind} (p : Bind → Bool) (h : TargetsNodup bs) :
    TargetsNodup (bs.filter p) := by
  unfold TargetsNodup targets at *
  exact List.Nodup.sublist (List.Sublist.map _ List.filter_sublist) h

theorem targets_insert_nodup {n : Bind} : ∀ {bs : List Bind}, TargetsNodup bs →
    (∀ b ∈ bs, b.target ≠ n.target) → TargetsNodup (insertBind n bs) := by
  intro bs
  induction bs with
  | nil => intro _ _; simp [insertBind, TargetsNodup, targets]
  | cons x xs ih =>
    intro h hn
    have hx : x.target ∉ targets xs ∧ TargetsNodup xs := by
      simpa [TargetsNodup, targets, List.nodup_cons] using h
    unfold insertBind
    split
    · simp only [TargetsNodup, targets, List.map_cons, List.nodup_cons, List.mem_cons, not_or]
      refine ⟨⟨?_, ?_⟩, ?_, ?_⟩
      · exact fun e => hn x List.mem_cons_self e.symm
      · intro hm
        obtain ⟨b, hb, he⟩ := List.mem_map.mp hm
        exact hn b (List.mem_cons_of_mem _ hb) he
      · exact hx.1
      · exact hx.2
    · simp only [TargetsNodup, targets, List.map_cons, List.nodup_cons]
      refine ⟨?_, ih hx.2 (fun b hb => hn b (List.mem_cons_of_mem _ hb))⟩
      intro hm
      obtain ⟨b, hb, he⟩ := List.mem_map.mp hm
      rcases mem_insertBind.mp hb with rfl | hb'
      · exact hn x List.mem_cons_self he.symm
      · exact hx.1 (List.mem_map.mpr ⟨b, hb', he⟩)

theorem acquire_targets_nodup {bs : List Bind} {rs re : Int} {t : Nat} (h : TargetsNodup bs) :
    TargetsNodup (acquire bs rs re t).2 := by
  unfold acquire
  split
  · exact h
  · rename_i f hf
    split
    · exact h
    · exact targets_insert_nodup h (scan_free_notarget _ _ _ hf)

/-- operations on `Frontend.AuthProxy` -/
inductive AllocOp where
  | acquire (t : Nat)                -- AcquireAuthBackendName
  | except (used : List Int)         -- RemoveAuthBackendExcept
  | byTarget (ts : List Nat)         -- RemoveAuthBackendByTarget
  | range (rs re : Int)              -- buildGlobalAuthProxy assigns a new range

structure AllocState where
  rs : Int
  re : Int
  binds : List Bind

def AllocState.step (s : AllocState) : AllocOp → AllocState
  | .acquire t => { s with binds := (acquire s.binds s.rs s.re t).2 }
  | .except used => { s with binds := removeExcept used s.binds }
  | .byTarget ts => { s with binds := removeByTarget ts s.binds }
  | .range rs re => { s with rs := rs, re := re }

/-- over every history of operations starting from an empty list: the list stays strictly
sorted (so no port is bound twice) and no target is bound twice -/
theorem alloc_history_inv (rs re : Int) (ops : List AllocOp) :
    Sorted (ops.foldl AllocState.step ⟨rs, re, []⟩).binds ∧
    TargetsNodup (ops.foldl AllocState.step ⟨rs, re, []⟩).binds := by
  suffices ∀ (s : AllocState), Sorted s.binds ∧ TargetsNodup s.binds →
      Sorted (ops.foldl AllocState.step s).binds ∧ TargetsNodup (ops.foldl AllocState.step s).binds from
    this _ ⟨sorted_nil, by simp [TargetsNodup, targets]⟩
  induction ops with
  | nil => intro s h; exact h
  | cons op ops ih =>
    intro s h
    apply ih
    cases op with
    | acquire t => exact ⟨acquire_sorted h.1, acquire_targets_nodup h.2⟩
    | except used => exact ⟨sorted_filter _ h.1, targets_filter_nodup _ h.2⟩
    | byTarget ts => exact ⟨sorted_filter _ h.1, targets_filter_nodup _ h.2⟩
    | range rs re => exact h

/-! ## 2. `createPathConfig` grouping -/

abbrev Groups := List (AuthRec × List Nat)

/-- invariant of the grouping of the processed (id, config) pairs `l` -/
structure GroupInv (l : List (Nat × AuthRec)) (gs : Groups) : Prop where
  sound : ∀ g ∈ gs, ∀ i ∈ g.2, (i, g.1) ∈ l
  complete : ∀ x ∈ l, ∃ g ∈ gs, g.1 = x.2 ∧ x.1 ∈ g.2
  keys : (gs.map (·.1)).Nodup

theorem mem_addGroup_keys {r : AuthRec} {i : Nat} : ∀ {gs : Groups} {k : AuthRec},
    k ∈ (addGroup gs i r).map (·.1) ↔ k = r ∨ k ∈ gs.map (·.1) := by
  intro gs
  induction gs with
  | nil => intro k; simp [addGroup]
  | cons g gs ih =>
    intro k
    obtain ⟨r', ids⟩ := g
    unfold addGroup
    split
    · rename_i he
      subst he
      simp only [List.map_cons, List.mem_cons]
      constructor
      · intro h; exact Or.inr h
      · rintro (h | h)
        · exact Or.inl h
        · exact h
    · simp only [List.map_cons, List.mem_cons, ih]
      constructor
      · rintro (h | h | h)
        · exact Or.inr (Or.inl h)
        · exact Or.inl h
        · exact Or.inr (Or.inr h)
      · rintro (h | h | h)
        · exact Or.inr (Or.inl h)
        · exact Or.inl h
        · exact Or.inr (Or.inr h)

theorem addGroup_inv {l : List (Nat × AuthRec)} {gs : Groups} (i : Nat) (r : AuthRec)
    (h : GroupInv l gs) : GroupInv (l ++ [(i, r)]) (addGroup gs i r) := by
  induction gs generalizing l with
  | nil =>
    refine ⟨?_, ?_, ?_⟩
    · intro g hg j hj
      simp only [addGroup, List.mem_singleton] at hg
      subst hg
      simp only [List.mem_singleton] at hj
      subst hj
      simp
    · intro x hx
      rcases List.mem_append.mp hx with hx | hx
      · obtain ⟨g, hg, _⟩ := h.complete x hx
        cases hg
      · simp only [List.mem_singleton] at hx
        subst hx
        exact ⟨(r, [i]), by simp [addGroup], rfl, by simp⟩
    · simp [addGroup]
  | cons g gs ih =>
    obtain ⟨r', ids⟩ := g
    have hkeys : r' ∉ gs.map (·.1) ∧ (gs.map (·.1)).Nodup := by
      simpa [List.nodup_cons] using h.keys
    by_cases he : r' = r
    · subst he
      have hadd : addGroup ((r', ids) :: gs) i r' = (r', ids ++ [i]) :: gs := by
        simp [addGroup]
      rw [hadd]
      refine ⟨?_, ?_, ?_⟩
      · intro g hg j hj
        rcases List.mem_cons.mp hg with rfl | hg
        · rcases List.mem_append.mp hj with hj | hj
          · exact List.mem_append_left _ (h.sound _ List.mem_cons_self j hj)
          · simp only [List.mem_singleton] at hj
            subst hj
            simp
        · exact List.mem_append_left _ (h.sound g (List.mem_cons_of_mem _ hg) j hj)
      · intro x hx
        rcases List.mem_append.mp hx with hx | hx
        · obtain ⟨g, hg, h1, h2⟩ := h.complete x hx
          rcases List.mem_cons.mp hg with rfl | hg
          · exact ⟨(r', ids ++ [i]), List.mem_cons_self, h1, List.mem_append_left _ h2⟩
          · exact ⟨g, List.mem_cons_of_mem _ hg, h1, h2⟩
        · simp only [List.mem_singleton] at hx
          subst hx
          exact ⟨(r', ids ++ [i]), List.mem_cons_self, rfl, by simp⟩
      · simpa [List.nodup_cons] using hkeys
    · have hadd : addGroup ((r', ids) :: gs) i r = (r', ids) :: addGroup gs i r := by
        simp [addGroup, he]
      rw [hadd]
      -- the tail groups the pairs whose config is not r'
      have htail : GroupInv (l.filter fun x => x.2 ≠ r') gs := by
        refine ⟨?_, ?_, hkeys.2⟩
        · intro g hg j hj
          have := h.sound g (List.mem_cons_of_mem _ hg) j hj
          refine List.mem_filter.mpr ⟨this, ?_⟩
          have : g.1 ≠ r' := fun e => hkeys.1 (e ▸ List.mem_map.mpr ⟨g, hg, rfl⟩)
          simpa using this
        · intro x hx
          obtain ⟨hx1, hx2⟩ := List.mem_filter.mp hx
          obtain ⟨g, hg, h1, h2⟩ := h.complete x hx1
          rcases List.mem_cons.mp hg with rfl | hg
          · simp at hx2; exact absurd h1.symm hx2
          · exact ⟨g, hg, h1, h2⟩
      have ih' := ih htail
      refine ⟨?_, ?_, ?_⟩
      · intro g hg j hj
        rcases List.mem_cons.mp hg with rfl | hg
        · exact List.mem_append_left _ (h.sound _ List.mem_cons_self j hj)
        · have := ih'.sound g hg j hj
          rcases List.mem_append.mp this with hm | hm
          · exact List.mem_append_left _ (List.mem_filter.mp hm).1
          · exact List.mem_append_right _ hm
      · intro x hx
        rcases List.mem_append.mp hx with hx | hx
        · obtain ⟨g, hg, h1, h2⟩ := h.complete x hx
          rcases List.mem_cons.mp hg with rfl | hg
          · exact ⟨_, List.mem_cons_self, h1, h2⟩
          · have hne : x.2 ≠ r' := fun e => hkeys.1 (e ▸ h1 ▸ List.mem_map.mpr ⟨g, hg, rfl⟩)
            obtain ⟨g', hg', h1', h2'⟩ := ih'.complete x
              (List.mem_append_left _ (List.mem_filter.mpr ⟨hx, by simpa using hne⟩))
            exact ⟨g', List.mem_cons_of_mem _ hg', h1', h2'⟩
        · obtain ⟨g', hg', h1', h2'⟩ := ih'.complete x (List.mem_append_right _ hx)
          exact ⟨g', List.mem_cons_of_mem _ hg', h1', h2'⟩
      · simp only [List.map_cons, List.nodup_cons]
        refine ⟨?_, ih'.keys⟩
        intro hm
        rcases mem_addGroup_keys.mp hm with h' | h'
        · exact he h'
        · exact hkeys.1 h'

theorem groupsOf_inv (brec : Nat → AuthRec) (idxs : List Nat) :
    GroupInv (idxs.map fun i => (i, brec i)) (groupsOf brec idxs) := by
  unfold groupsOf
  suffices ∀ (l : List (Nat × AuthRec)) (gs : Groups), GroupInv l gs →
      GroupInv (l ++ idxs.map fun i => (i, brec i))
        (idxs.foldl (fun gs i => addGroup gs i (brec i)) gs) by
    simpa using this [] [] ⟨by simp, by simp, by simp⟩
  induction idxs with
  | nil => intro l gs h; simpa using h
  | cons i idxs ih =>
    intro l gs h
    have := ih _ _ (addGroup_inv i (brec i) h)
    simpa [List.append_assoc] using this

/-- **scoped**: the id set that guards the rules of an item holds exactly the paths whose
config the item was built from -/
theorem group_scoped (brec : Nat → AuthRec) (idxs : List Nat) {g : AuthRec × List Nat}
    (hg : g ∈ groupsOf brec idxs) {i : Nat} (hi : i ∈ idxs) :
    i ∈ g.2 ↔ g.1 = brec i := by
  have inv := groupsOf_inv brec idxs
  constructor
  · intro h
    have := inv.sound g hg i h
    obtain ⟨j, _, hj⟩ := List.mem_map.mp this
    simp only [Prod.mk.injEq] at hj
    rw [← hj.2, hj.1]
  · intro h
    obtain ⟨g', hg', h1, h2⟩ := inv.complete (i, brec i) (List.mem_map.mpr ⟨i, hi, rfl⟩)
    -- keys are distinct: g' = g
    have : g' = g := by
      have hk := inv.keys
      have key : ∀ (gs : Groups), (gs.map (·.1)).Nodup → ∀ a ∈ gs, ∀ b ∈ gs, a.1 = b.1 → a = b := by
        intro gs
        induction gs with
        | nil => intro _ a ha; cases ha
        | cons x xs ih =>
          intro hn a ha b hb hab
          have hx : x.1 ∉ xs.map (·.1) ∧ (xs.map (·.1)).Nodup := by simpa [List.nodup_cons] using hn
          rcases List.mem_cons.mp ha with rfl | ha' <;> rcases List.mem_cons.mp hb with rfl | hb'
          · rfl
          · exact absurd (hab ▸ List.mem_map.mpr ⟨b, hb', rfl⟩) hx.1
          · exact absurd (hab ▸ List.mem_map.mpr ⟨a, ha', rfl⟩) hx.1
          · exact ih hx.2 a ha' b hb' hab
      exact key _ hk g' hg' g hg (by simp only at h1; rw [h1, h])
    exact this ▸ h2

/-- the rules of one path id: among items with distinct configs only the path's own item passes
the guard -/
theorem flatMap_own (k : AuthRec) (i : Nat) : ∀ (gs : Groups), (gs.map (·.1)).Nodup →
    (∀ g ∈ gs, (g.2.contains i = true ↔ g.1 = k)) →
    gs.flatMap (fun g => if !true || g.2.contains i then rulesOf g.1 else []) =
      if k ∈ gs.map (·.1) then rulesOf k else [] := by
  intro gs
  induction gs with
  | nil => intro _ _; simp
  | cons g gs ih =>
    intro hn hg
    have hx : g.1 ∉ gs.map (·.1) ∧ (gs.map (·.1)).Nodup := by simpa [List.nodup_cons] using hn
    have ih' := ih hx.2 (fun g' hg' => hg g' (List.mem_cons_of_mem _ hg'))
    rw [List.flatMap_cons, ih']
    by_cases hk : g.1 = k
    · have hc : g.2.contains i = true := (hg g List.mem_cons_self).mpr hk
      have hnot : k ∉ gs.map (·.1) := hk ▸ hx.1
      have hhead : (!true || g.2.contains i) = true := by rw [hc]; rfl
      have hin : k ∈ (g :: gs).map (·.1) := by
        simp only [List.map_cons, List.mem_cons]; exact Or.inl hk.symm
      rw [if_pos hhead, if_neg hnot, if_pos hin, hk, List.append_nil]
    · have hc : g.2.contains i = false := by
        cases h : g.2.contains i with
        | false => rfl
        | true => exact absurd ((hg g List.mem_cons_self).mp h) hk
      have hhead : ¬ ((!true || g.2.contains i) = true) := by rw [hc]; simp
      have : (k ∈ (g :: gs).map (·.1)) ↔ k ∈ gs.map (·.1) := by
        simp only [List.map_cons, List.mem_cons]
        constructor
        · rintro (h | h)
          · exact absurd h.symm hk
          · exact h
        · exact Or.inr
      rw [if_neg hhead, List.nil_append]
      by_cases hm : k ∈ gs.map (·.1)
      · rw [if_pos hm, if_pos (this.mpr hm)]
      · rw [if_neg hm, if_neg (fun h => hm (this.mp h))]

/-- **the backend section gives path `i` exactly the rules of its own record**, however the
other paths of the backend are configured -/
theorem backendRules_eq (brec : Nat → AuthRec) (idxs : List Nat) {i : Nat} (hi : i ∈ idxs) :
    backendRules brec idxs i = rulesOf (brec i) := by
  have inv := groupsOf_inv brec idxs
  obtain ⟨g0, hg0, h01, _⟩ := inv.complete (i, brec i) (List.mem_map.mpr ⟨i, hi, rfl⟩)
  simp only at h01
  unfold backendRules
  by_cases hlen : (groupsOf brec idxs).length > 1
  · simp only [hlen, decide_true]
    rw [flatMap_own (brec i) i _ inv.keys (fun g hg => by
      rw [List.contains_iff_mem]; exact group_scoped brec idxs hg hi)]
    rw [if_pos (List.mem_map.mpr ⟨g0, hg0, h01⟩)]
  · simp only [hlen, decide_false, Bool.not_false, Bool.true_or, if_true]
    -- a single item: it is the path's own
    match hgs : groupsOf brec idxs, hg0, hlen with
    | [g], hg0, _ =>
      simp only [List.mem_singleton] at hg0
      subst hg0
      simp [h01]
    | [], hg0, _ => cases hg0
    | _ :: _ :: _, _, hlen => simp at hlen

/-! ## 3. the invariant of a converter run -/

theorem mem_usedPorts {n : Nat} {brec : Nat → AuthRec} {P : Int} :
    P ∈ usedPorts n brec ↔ ∃ j, j < n ∧ (brec j).name = .proxy P := by
  unfold usedPorts
  simp only [List.mem_filterMap, List.mem_range]
  constructor
  · rintro ⟨j, hj, h⟩
    refine ⟨j, hj, ?_⟩
    split at h
    · rename_i p hp
      simp only [Option.some.injEq] at h
      rw [hp, h]
    · cases h
  · rintro ⟨j, hj, h⟩
    exact ⟨j, hj, by rw [h]⟩

theorem resolveTarget_some {e l : Bool} {u : Url} {t : Nat} (h : resolveTarget e l u = some t) :
    t = u.target := by
  unfold resolveTarget at h
  split at h
  · cases h
  · split at h
    · cases h
    · split at h
      · split at h <;> simp at h <;> exact h.symm
      · split at h <;> simp at h <;> exact h.symm
      · repeat' split at h
        all_goals simp at h
        all_goals exact h.symm
      · cases h

/-- what `setAuthExternal` guarantees: the list stays sorted, binds of ports in use survive
the clean-up, and the record is either the denied one or names a port bound to the URL's backend -/
theorem setAuth_spec {ext lua : Bool} {rs re : Int} {used : List Int} {binds : List Bind}
    {r0 : AuthRec} {u : Url} {signin : Bool} (hs : Sorted binds) :
    Sorted (setAuth ext lua rs re used binds r0 u signin).2.1 ∧
    (∀ b ∈ binds, b.port ∈ used → b ∈ (setAuth ext lua rs re used binds r0 u signin).2.1) ∧
    ((setAuth ext lua rs re used binds r0 u signin).1 = denyRec r0 ∨
      ∃ P, (setAuth ext lua rs re used binds r0 u signin).1 = okRec r0 P u signin ∧
        ⟨P, u.target⟩ ∈ (setAuth ext lua rs re used binds r0 u signin).2.1 ∧
        resolveTarget ext lua u = some u.target) := by
  unfold setAuth
  cases hr : resolveTarget ext lua u with
  | none => exact ⟨hs, fun b hb _ => hb, Or.inl rfl⟩
  | some t =>
    have ht := resolveTarget_some hr
    subst ht
    simp only
    cases ha : acquire binds rs re u.target with
    | mk o b' =>
      cases o with
      | some p =>
        obtain ⟨h1, h2, h3, _⟩ := acquire_some hs ha
        exact ⟨h3, fun b hb _ => (h2 b).mpr (Or.inr hb), Or.inr ⟨p, rfl, h1, by first | rfl | trivial⟩⟩
      | none =>
        simp only
        have hs1 : Sorted (removeExcept used binds) := sorted_filter _ hs
        have hkeep : ∀ b ∈ binds, b.port ∈ used → b ∈ removeExcept used binds := by
          intro b hb hu
          exact List.mem_filter.mpr ⟨hb, by simpa using hu⟩
        cases ha2 : acquire (removeExcept used binds) rs re u.target with
        | mk o2 b2 =>
          cases o2 with
          | some p =>
            obtain ⟨h1, h2, h3, _⟩ := acquire_some hs1 ha2
            exact ⟨h3, fun b hb hu => (h2 b).mpr (Or.inr (hkeep b hb hu)), Or.inr ⟨p, rfl, h1, by first | rfl | trivial⟩⟩
          | none => exact ⟨hs1, hkeep, Or.inl rfl⟩

/-- every backend-path record that names `_auth_<P>` belongs to a path with an auth-url, and
port `P` is bound to the backend of that URL -/
def RecInv (w : World) (brec : Nat → AuthRec) (binds : List Bind) : Prop :=
  ∀ i P, (brec i).name = .proxy P →
    ∃ p u, w.paths[i]? = some p ∧ p.url = .val u ∧ ⟨P, u.target⟩ ∈ binds

def Inv (w : World) (st : St) : Prop := Sorted st.binds ∧ RecInv w st.brec st.binds

theorem getElem?_lt {α} {l : List α} {i : Nat} {a : α} (h : l[i]? = some a) : i < l.length := by
  rcases Nat.lt_or_ge i l.length with hlt | hge
  · exact hlt
  · rw [List.getElem?_eq_none hge] at h; cases h

/-- the binds the records rely on survive a `setAuthExternal` call made with the used names -/
theorem recInv_survive {w : World} {brec : Nat → AuthRec} {binds binds' : List Bind}
    {used : List Int} (h : RecInv w brec binds)
    (hsub : ∀ P, P ∈ usedPorts w.paths.length brec → P ∈ used)
    (hk : ∀ b ∈ binds, b.port ∈ used → b ∈ binds') :
    RecInv w brec binds' := by
  intro i P hn
  obtain ⟨p, u, hp, hu, hb⟩ := h i P hn
  exact ⟨p, u, hp, hu, hk _ hb (hsub _ (mem_usedPorts.mpr ⟨i, getElem?_lt hp, hn⟩))⟩

theorem usedPorts_sub_usedOf (v : Variant) (w : World) (st : St) :
    ∀ P, P ∈ usedPorts w.paths.length st.brec → P ∈ usedOf v w st :=
  fun _ h => List.mem_append_left _ h

theorem inv_init (w : World) : Inv w {} := by
  refine ⟨sorted_nil, ?_⟩
  intro i P h
  simp at h

theorem frontStep_inv {v : Variant} {w : World} {u : Url} {signin : Bool} {st : St} (i : Nat)
    (h : Inv w st) : Inv w (frontStep v w u signin st i) := by
  obtain ⟨hs, hr⟩ := h
  obtain ⟨h1, h2, _⟩ := setAuth_spec (ext := w.isExternal) (lua := w.hasLua) (rs := w.rangeStart)
    (re := w.rangeEnd) (used := usedOf v w st) (r0 := {}) (u := u) (signin := signin) hs
  exact ⟨h1, recInv_survive hr (usedPorts_sub_usedOf v w st) h2⟩

theorem frontStep_brec {v : Variant} {w : World} {u : Url} {signin : Bool} {st : St} (i : Nat) :
    (frontStep v w u signin st i).brec = st.brec := rfl

theorem foldl_inv {w : World} (step : St → Nat → St) (hstep : ∀ st i, Inv w st → Inv w (step st i)) :
    ∀ (l : List Nat) (st : St), Inv w st → Inv w (l.foldl step st) := by
  intro l
  induction l with
  | nil => intro st h; exact h
  | cons i l ih => intro st h; exact ih _ (hstep st i h)

theorem hostPhase_inv {v : Variant} {w : World} {st : St} (h : Nat) (hi : Inv w st) :
    Inv w (hostPhase v w st h) := by
  unfold hostPhase
  split
  · exact foldl_inv _ (fun st i => frontStep_inv i) _ _ hi
  · exact hi

theorem hostPhase_brec {v : Variant} {w : World} {st : St} (h : Nat) :
    (hostPhase v w st h).brec = st.brec := by
  unfold hostPhase
  split
  · rename_i u _ _
    generalize idxsWhere w (fun x => decide (x.host = h)) = l
    induction l generalizing st with
    | nil => rfl
    | cons i l ih => simp only [List.foldl_cons]; rw [ih]; rfl
  · rfl

theorem authStep_inv {v : Variant} {w : World} {st : St} (i : Nat) (h : Inv w st) :
    Inv w (authStep v w st i) := by
  obtain ⟨hs, hr⟩ := h
  unfold authStep
  split
  · exact ⟨hs, hr⟩
  · rename_i p hp
    split
    · rename_i u hplc hurl
      obtain ⟨h1, h2, h3⟩ := setAuth_spec (ext := w.isExternal) (lua := w.hasLua) (rs := w.rangeStart)
        (re := w.rangeEnd) (used := usedOf v w st) (r0 := st.brec i) (u := u)
        (signin := p.signin) hs
      have hsub := usedPorts_sub_usedOf v w st
      refine ⟨h1, ?_⟩
      intro j P hn
      simp only [upd] at hn
      by_cases hj : j = i
      · subst hj
        rw [if_pos rfl] at hn
        rcases h3 with h3 | ⟨P', h3, hb, _⟩
        · rw [h3] at hn
          exact recInv_survive hr hsub h2 j P hn
        · rw [h3] at hn
          simp only [okRec, AuthName.proxy.injEq] at hn
          subst hn
          exact ⟨p, u, hp, hurl, hb⟩
      · rw [if_neg hj] at hn
        exact recInv_survive hr hsub h2 j P hn
    · exact ⟨hs, hr⟩

theorem oauthRec_name {fixed : Bool} {w : World} {p : PathIn} {r : AuthRec} {P : Int}
    (h : (oauthRec fixed w p r).name = .proxy P) : r.name = .proxy P := by
  unfold oauthRec at h
  split at h
  · exact h
  · repeat' split at h
    all_goals first | exact h | (simp at h; try exact h)

theorem oauthStep_inv {v : Variant} {w : World} {st : St} (i : Nat) (h : Inv w st) :
    Inv w (oauthStep v w st i) := by
  obtain ⟨hs, hr⟩ := h
  unfold oauthStep
  split
  · exact ⟨hs, hr⟩
  · rename_i p hp
    refine ⟨hs, ?_⟩
    intro j P hn
    simp only [upd] at hn
    by_cases hj : j = i
    · subst hj
      rw [if_pos rfl] at hn
      exact hr j P (oauthRec_name hn)
    · rw [if_neg hj] at hn
      exact hr j P hn

theorem backendPhase_inv {v : Variant} {w : World} {st : St} (b : Nat) (h : Inv w st) :
    Inv w (backendPhase v w st b) := by
  unfold backendPhase
  exact foldl_inv _ (fun st i => oauthStep_inv i) _ _ (foldl_inv _ (fun st i => authStep_inv i) _ _ h)

/-- **invariant of every run** (both variants of `buildBackendOAuth`, every host and backend order) -/
theorem run_inv (v : Variant) (w : World) (ho bo : List Nat) : Inv w (run v w ho bo) := by
  unfold run
  exact foldl_inv _ (fun st b => backendPhase_inv b) _ _ (foldl_inv _ (fun st h => hostPhase_inv h) _ _ (inv_init w))

/-! ### the record of one path through the run -/

theorem authStep_other {v : Variant} {w : World} {st : St} {i j : Nat} (h : j ≠ i) :
    (authStep v w st j).brec i = st.brec i := by
  unfold authStep
  split
  · rfl
  · split
    · simp only [upd]; rw [if_neg (Ne.symm h)]
    · rfl

theorem oauthStep_other {v : Variant} {w : World} {st : St} {i j : Nat} (h : j ≠ i) :
    (oauthStep v w st j).brec i = st.brec i := by
  unfold oauthStep
  split
  · rfl
  · simp only [upd]; rw [if_neg (Ne.symm h)]

theorem foldl_untouched (step : St → Nat → St) (i : Nat)
    (hother : ∀ st j, j ≠ i → (step st j).brec i = st.brec i) :
    ∀ (l : List Nat) (st : St), i ∉ l → (l.foldl step st).brec i = st.brec i := by
  intro l
  induction l with
  | nil => intro st _; rfl
  | cons j l ih =>
    intro st hi
    simp only [List.mem_cons, not_or] at hi
    simp only [List.foldl_cons]
    rw [ih _ hi.2, hother st j (Ne.symm hi.1)]

/-- a step list that visits `i` exactly once applies the step of `i` to whatever record `i` had -/
theorem foldl_once (step : St → Nat → St) (i : Nat) (f : AuthRec → AuthRec → Prop)
    (hother : ∀ st j, j ≠ i → (step st j).brec i = st.brec i)
    (hstep : ∀ st, f (st.brec i) ((step st i).brec i)) :
    ∀ (l : List Nat) (st : St), l.Nodup → i ∈ l → f (st.brec i) ((l.foldl step st).brec i) := by
  intro l
  induction l with
  | nil => intro st _ hi; cases hi
  | cons j l ih =>
    intro st hn hi
    have hj : j ∉ l ∧ l.Nodup := by simpa [List.nodup_cons] using hn
    simp only [List.foldl_cons]
    by_cases hji : j = i
    · subst hji
      rw [foldl_untouched step j hother l _ hj.1]
      exact hstep st
    · have hil : i ∈ l := by
        rcases List.mem_cons.mp hi with h | h
        · exact absurd h.symm hji
        · exact h
      have := ih (step st j) hj.2 hil
      rw [hother st j hji] at this
      exact this

/-- result of `buildBackendAuthExternal` on a fresh record -/
def PostAuth (w : World) (p : PathIn) (r : AuthRec) : Prop :=
  (∃ u, ownPlc p = .backend ∧ p.url = .val u ∧
      (r = denyRec {} ∨ ∃ P, r = okRec {} P u p.signin ∧
        resolveTarget w.isExternal w.hasLua u = some u.target)) ∨
  (¬ (ownPlc p = .backend ∧ p.url.nonEmpty) ∧ r = {})

theorem authStep_post {v : Variant} {w : World} {st : St} {i : Nat} {p : PathIn}
    (hp : w.paths[i]? = some p) (h0 : st.brec i = {}) :
    PostAuth w p ((authStep v w st i).brec i) := by
  unfold authStep
  rw [hp]
  simp only
  split
  · rename_i u hplc hurl
    simp only [upd]
    left
    refine ⟨u, hplc, hurl, ?_⟩
    -- the record part of `setAuth_spec` does not need sortedness
    unfold setAuth
    rw [h0]
    cases hr : resolveTarget w.isExternal w.hasLua u with
    | none => exact Or.inl rfl
    | some t =>
      have ht := resolveTarget_some hr
      subst ht
      simp only
      cases acquire st.binds w.rangeStart w.rangeEnd u.target with
      | mk o b' =>
        cases o with
        | some P => exact Or.inr ⟨P, rfl, by first | rfl | trivial⟩
        | none =>
          simp only
          cases acquire (removeExcept (usedOf v w st) st.binds) w.rangeStart w.rangeEnd u.target with
          | mk o2 b2 =>
            cases o2 with
            | some P => exact Or.inr ⟨P, rfl, by first | rfl | trivial⟩
            | none => exact Or.inl rfl
  · rename_i hno
    right
    refine ⟨?_, h0⟩
    rintro ⟨h1, h2⟩
    cases hu : p.url with
    | val u => exact hno u h1 hu
    | absent => rw [hu] at h2; cases h2
    | empty => rw [hu] at h2; cases h2

theorem oauthStep_self {v : Variant} {w : World} {st : St} {i : Nat} {p : PathIn}
    (hp : w.paths[i]? = some p) :
    (oauthStep v w st i).brec i = oauthRec v.oauthOwn w p (st.brec i) := by
  unfold oauthStep
  rw [hp]
  simp [upd]

/-! ### index lists -/

theorem mem_idxsWhere {w : World} {f : PathIn → Bool} {i : Nat} :
    i ∈ idxsWhere w f ↔ ∃ p, w.paths[i]? = some p ∧ f p = true := by
  unfold idxsWhere
  simp only [List.mem_filter, List.mem_range]
  constructor
  · rintro ⟨hlt, h⟩
    split at h
    · rename_i p hp; exact ⟨p, hp, h⟩
    · cases h
  · rintro ⟨p, hp, hf⟩
    exact ⟨getElem?_lt hp, by rw [hp]; exact hf⟩

theorem mem_insertBy {key : Nat → Nat} {i j : Nat} : ∀ {l : List Nat},
    j ∈ insertBy key i l ↔ j = i ∨ j ∈ l := by
  intro l
  induction l with
  | nil => simp [insertBy]
  | cons x xs ih =>
    unfold insertBy
    split
    · simp
    · simp only [List.mem_cons, ih]
      constructor
      · rintro (h | h | h)
        · exact Or.inr (Or.inl h)
        · exact Or.inl h
        · exact Or.inr (Or.inr h)
      · rintro (h | h | h)
        · exact Or.inr (Or.inl h)
        · exact Or.inl h
        · exact Or.inr (Or.inr h)

theorem mem_sortBy {key : Nat → Nat} {j : Nat} : ∀ {l : List Nat}, j ∈ sortBy key l ↔ j ∈ l := by
  intro l
  induction l with
  | nil => simp [sortBy]
  | cons x xs ih => simp [sortBy, mem_insertBy, ih]

theorem nodup_insertBy {key : Nat → Nat} {i : Nat} : ∀ {l : List Nat}, i ∉ l → l.Nodup →
    (insertBy key i l).Nodup := by
  intro l
  induction l with
  | nil => intro _ _; simp [insertBy]
  | cons x xs ih =>
    intro hi hn
    have hx : x ∉ xs ∧ xs.Nodup := by simpa [List.nodup_cons] using hn
    have hi' : i ≠ x ∧ i ∉ xs := by simpa [List.mem_cons, not_or] using hi
    unfold insertBy
    split
    · exact List.nodup_cons.mpr ⟨hi, hn⟩
    · refine List.nodup_cons.mpr ⟨?_, ih hi'.2 hx.2⟩
      intro hm
      rcases mem_insertBy.mp hm with h | h
      · exact hi'.1 h.symm
      · exact hx.1 h

theorem nodup_sortBy {key : Nat → Nat} : ∀ {l : List Nat}, l.Nodup → (sortBy key l).Nodup := by
  intro l
  induction l with
  | nil => intro _; simp [sortBy]
  | cons x xs ih =>
    intro hn
    have hx : x ∉ xs ∧ xs.Nodup := by simpa [List.nodup_cons] using hn
    exact nodup_insertBy (fun h => hx.1 (mem_sortBy.mp h)) (ih hx.2)

theorem mem_backendIdxs {w : World} {b i : Nat} :
    i ∈ backendIdxs w b ↔ ∃ p, w.paths[i]? = some p ∧ p.backend = b := by
  unfold backendIdxs
  rw [mem_sortBy, mem_idxsWhere]
  simp

theorem backendIdxs_nodup (w : World) (b : Nat) : (backendIdxs w b).Nodup := by
  unfold backendIdxs
  apply nodup_sortBy
  unfold idxsWhere
  exact List.Nodup.sublist List.filter_sublist List.nodup_range

/-- the record of path `i` after the phase of its own backend, from a fresh record -/
theorem backendPhase_own {v : Variant} {w : World} {st : St} {i : Nat} {p : PathIn}
    (hp : w.paths[i]? = some p) (h0 : st.brec i = {}) :
    ∃ r1, PostAuth w p r1 ∧ (backendPhase v w st p.backend).brec i = oauthRec v.oauthOwn w p r1 := by
  have hi : i ∈ backendIdxs w p.backend := mem_backendIdxs.mpr ⟨p, hp, rfl⟩
  have hn := backendIdxs_nodup w p.backend
  unfold backendPhase
  have h1 := foldl_once (authStep v w) i (fun r r' => r = {} → PostAuth w p r')
    (fun st j hj => authStep_other hj) (fun st h => authStep_post hp h) _ st hn hi h0
  refine ⟨_, h1, ?_⟩
  exact foldl_once (oauthStep v w) i (fun r r' => r' = oauthRec v.oauthOwn w p r)
    (fun st j hj => oauthStep_other hj) (fun st => oauthStep_self hp) _ _ hn hi

theorem backendPhase_other {v : Variant} {w : World} {st : St} {i b : Nat} {p : PathIn}
    (hp : w.paths[i]? = some p) (hb : p.backend ≠ b) :
    (backendPhase v w st b).brec i = st.brec i := by
  have hi : i ∉ backendIdxs w b := by
    intro h
    obtain ⟨p', hp', hb'⟩ := mem_backendIdxs.mp h
    rw [hp] at hp'
    injection hp' with hp'
    exact hb (hp' ▸ hb')
  unfold backendPhase
  rw [foldl_untouched (oauthStep v w) i (fun st j hj => oauthStep_other hj) _ _ hi,
      foldl_untouched (authStep v w) i (fun st j hj => authStep_other hj) _ _ hi]

/-- **the record of path `i` at the end of a run**: `buildBackendOAuth` applied to the result of
`buildBackendAuthExternal` on a fresh record — the steps of all other paths, hosts and backends
leave it alone -/
theorem run_brec {v : Variant} {w : World} {ho bo : List Nat} {i : Nat} {p : PathIn}
    (hp : w.paths[i]? = some p) (hbo : bo.Nodup) (hmem : p.backend ∈ bo) :
    ∃ r1, PostAuth w p r1 ∧ (run v w ho bo).brec i = oauthRec v.oauthOwn w p r1 := by
  unfold run
  have hstart : (ho.foldl (hostPhase v w) {}).brec i = {} := by
    suffices ∀ (s : St), (ho.foldl (hostPhase v w) s).brec = s.brec by
      rw [this]
    induction ho with
    | nil => intro s; rfl
    | cons h ho ih => intro s; simp only [List.foldl_cons]; rw [ih, hostPhase_brec]
  generalize ho.foldl (hostPhase v w) {} = s at hstart
  induction bo generalizing s with
  | nil => cases hmem
  | cons b bo ih =>
    have hb : b ∉ bo ∧ bo.Nodup := by simpa [List.nodup_cons] using hbo
    simp only [List.foldl_cons]
    by_cases he : p.backend = b
    · subst he
      obtain ⟨r1, hr1, hfin⟩ := backendPhase_own (v := v) hp hstart
      refine ⟨r1, hr1, ?_⟩
      rw [← hfin]
      -- the remaining backends are different ones
      generalize backendPhase v w s p.backend = s'
      clear hfin hstart ih
      induction bo generalizing s' with
      | nil => rfl
      | cons b' bo ih2 =>
        have hb1 : p.backend ≠ b' ∧ p.backend ∉ bo := by
          simpa [List.mem_cons, not_or] using hb.1
        have hb2 : b' ∉ bo ∧ bo.Nodup := by simpa [List.nodup_cons] using hb.2
        simp only [List.foldl_cons]
        rw [ih2 ⟨hb1.2, hb2.2⟩ (hbo := by
              simp only [List.nodup_cons]; exact ⟨hb1.2, hb2.2⟩)
            (hmem := List.mem_cons_self)]
        exact backendPhase_other hp hb1.1
    · have hm : p.backend ∈ bo := by
        rcases List.mem_cons.mp hmem with h | h
        · exact absurd h he
        · exact h
      exact ih hb.2 hm _ (by rw [backendPhase_other hp he]; exact hstart)

/-! ### from the record to the rendered rules -/

theorem targetOf_of_mem {bs : List Bind} (hs : Sorted bs) {P : Int} {t : Nat} (h : ⟨P, t⟩ ∈ bs) :
    targetOf bs P = some t := by
  unfold targetOf
  induction bs with
  | nil => cases h
  | cons x xs ih =>
    by_cases hx : x.port = P
    · have : x = ⟨P, t⟩ := sorted_functional hs List.mem_cons_self h hx
      subst this
      simp [List.find?]
    · have hm : (⟨P, t⟩ : Bind) ∈ xs := by
        rcases List.mem_cons.mp h with h | h
        · exact absurd (by rw [← h]) hx
        · exact h
      simp only [List.find?, hx, decide_false]
      exact ih (sorted_cons.mp hs).2 hm

/-- the final record of a path whose protection rests on the backend section (its own auth-url
with backend placement, or oauth alone), `buildBackendOAuth` in the repaired form -/
theorem final_rules_covered {w : World} {binds : List Bind} {p : PathIn} {r1 : AuthRec}
    (hs : Sorted binds) (hpost : PostAuth w p r1)
    (hbind : ∀ P, (oauthRec true w p r1).name = .proxy P →
      ∃ u, p.url = .val u ∧ ⟨P, u.target⟩ ∈ binds)
    (hdecl : declared p = true)
    (hside : ¬ (p.url.nonEmpty = true ∧ ownPlc p ≠ .backend)) :
    covered binds (wants w p) (rulesOf (oauthRec true w p r1)) = true := by
  have deny_ok : ∀ r : AuthRec, covered binds (wants w p) (rulesOf (denyRec r)) = true := by
    intro r; simp [rulesOf, denyRec, covered]
  -- a record filled by the path's own auth-url
  have ok_ok : ∀ (u : Url) (P : Int), ownPlc p = .backend → p.url = .val u →
      resolveTarget w.isExternal w.hasLua u = some u.target → ⟨P, u.target⟩ ∈ binds →
      covered binds (wants w p) (rulesOf (okRec {} P u p.signin)) = true := by
    intro u P hplc hurl hres hb
    have hw : Want.proxy u.target (normPath u.path) ∈ wants w p := by
      unfold wants
      rw [hurl]
      simp [placed, hplc, hres]
    have ht := targetOf_of_mem hs hb
    have hrules : rulesOf (okRec {} P u p.signin) =
        [.icpt (.proxy P) (normPath u.path) "", .unless p.signin ""] := by
      simp [rulesOf, okRec]
    rw [hrules]
    simp only [covered]
    rw [ht]
    simpa using hw
  rcases hpost with ⟨u, hplc, hurl, hr1⟩ | ⟨hno, hr1⟩
  · -- own auth-url, backend placement: oauth never overrides it
    have hne : p.url.nonEmpty = true := by rw [hurl]; rfl
    have hkeep : oauthRec true w p r1 = r1 ∨ oauthRec true w p r1 = denyRec r1 := by
      unfold oauthRec
      split
      · exact Or.inl rfl
      · split
        · exact Or.inr rfl
        · split
          · exact Or.inr rfl
          · simp [hne]
    rcases hkeep with hk | hk
    · rw [hk]
      rcases hr1 with rfl | ⟨P, rfl, hres⟩
      · exact deny_ok {}
      · obtain ⟨u', hu', hb⟩ := hbind P (by rw [hk]; rfl)
        rw [hurl] at hu'
        injection hu' with hu'
        subst hu'
        exact ok_ok u P hplc hurl hres hb
    · rw [hk]; exact deny_ok r1
  · -- oauth alone
    subst hr1
    have hurl : p.url.nonEmpty = false := by
      cases h : p.url.nonEmpty with
      | false => rfl
      | true =>
        by_cases hb : ownPlc p = .backend
        · exact absurd ⟨hb, h⟩ hno
        · exact absurd ⟨h, hb⟩ hside
    have hoa : declaredOAuth p = true := by
      simp only [declared, declaredUrl, hurl, Bool.false_and, Bool.false_or] at hdecl
      exact hdecl
    unfold oauthRec
    cases ho : p.oauth with
    | absent => simp [declaredOAuth, ho] at hoa
    | val implOk found pfx b =>
      simp only [hurl]
      cases implOk with
      | false => exact deny_ok {}
      | true =>
        by_cases hl : (w.isExternal && !w.hasLua) = true
        · simp only [hl, Bool.not_true, Bool.false_eq_true, if_false, if_true]; exact deny_ok {}
        · cases found with
          | false => simp only [hl]; exact deny_ok {}
          | true =>
            have hw : Want.backend b (pfx ++ "/auth") (pfx ++ "/") ∈ wants w p := by
              unfold wants
              rw [ho]
              simp
            simp only [hl]
            simp only [Bool.not_true, Bool.false_eq_true, if_false, rulesOf, covered]
            simpa using hw

/-! ## 4. frontend placement (`buildHostAuthExternal`) -/

theorem mem_usedFrontPorts {n : Nat} {frec : Nat → Option AuthRec} {P : Int} :
    P ∈ usedFrontPorts n frec ↔ ∃ j r, j < n ∧ frec j = some r ∧ r.name = .proxy P := by
  unfold usedFrontPorts
  simp only [List.mem_filterMap, List.mem_range]
  constructor
  · rintro ⟨j, hj, h⟩
    split at h
    · rename_i r hr
      split at h
      · rename_i p hp
        simp only [Option.some.injEq] at h
        exact ⟨j, r, hj, hr, by rw [hp, h]⟩
      · cases h
    · cases h
  · rintro ⟨j, r, hj, hr, h⟩
    exact ⟨j, hj, by rw [hr]; simp [h]⟩

/-- every `HostPath.AuthExt` was written by `buildHostAuthExternal` of the path's host from the
host-level auth-url: it is the denied record, or names a port which — when the clean-up keeps
frontend names — is bound to the backend of that URL -/
def FrecInv (v : Variant) (w : World) (frec : Nat → Option AuthRec) (binds : List Bind) : Prop :=
  ∀ i r, frec i = some r →
    ∃ p u, w.paths[i]? = some p ∧ hostPlc w p.host = .frontend ∧ hostUrl w p.host = .val u ∧
      (r = denyRec {} ∨ ∃ P, r = okRec {} P u (hostSignin w p.host) ∧
        resolveTarget w.isExternal w.hasLua u = some u.target ∧
        (v.usedFront = true → ⟨P, u.target⟩ ∈ binds))

theorem frecInv_survive {v : Variant} {w : World} {st : St} {binds' : List Bind}
    (h : FrecInv v w st.frec st.binds)
    (hk : ∀ b ∈ st.binds, b.port ∈ usedOf v w st → b ∈ binds') :
    FrecInv v w st.frec binds' := by
  intro i r hr
  obtain ⟨p, u, hp, hplc, hu, hshape⟩ := h i r hr
  refine ⟨p, u, hp, hplc, hu, ?_⟩
  rcases hshape with hd | ⟨P, hok, hres, hb⟩
  · exact Or.inl hd
  · refine Or.inr ⟨P, hok, hres, fun hv => hk _ (hb hv) ?_⟩
    unfold usedOf
    rw [if_pos hv]
    exact List.mem_append_right _ (mem_usedFrontPorts.mpr ⟨i, r, getElem?_lt hp, hr, by rw [hok]; rfl⟩)

theorem frontStep_frecInv {v : Variant} {w : World} {u : Url} {st : St} {i : Nat} {p : PathIn}
    (hp : w.paths[i]? = some p) (hplc : hostPlc w p.host = .frontend)
    (hu : hostUrl w p.host = .val u) (hs : Sorted st.binds) (h : FrecInv v w st.frec st.binds) :
    FrecInv v w (frontStep v w u (hostSignin w p.host) st i).frec
      (frontStep v w u (hostSignin w p.host) st i).binds := by
  obtain ⟨_, h2, h3⟩ := setAuth_spec (ext := w.isExternal) (lua := w.hasLua) (rs := w.rangeStart)
    (re := w.rangeEnd) (used := usedOf v w st) (r0 := {}) (u := u) (signin := hostSignin w p.host) hs
  have hsurv := frecInv_survive h h2
  intro j r hr
  simp only [frontStep, upd] at hr
  by_cases hj : j = i
  · subst hj
    rw [if_pos rfl] at hr
    injection hr with hr
    refine ⟨p, u, hp, hplc, hu, ?_⟩
    rcases h3 with h3 | ⟨P, h3, hb, hres⟩
    · exact Or.inl (by rw [← hr]; exact h3)
    · exact Or.inr ⟨P, by rw [← hr]; exact h3, hres, fun _ => hb⟩
  · rw [if_neg hj] at hr
    exact hsurv j r hr

theorem authStep_frec {v : Variant} {w : World} {st : St} (i : Nat) :
    (authStep v w st i).frec = st.frec := by
  unfold authStep
  split
  · rfl
  · split <;> rfl

theorem oauthStep_frec {v : Variant} {w : World} {st : St} (i : Nat) :
    (oauthStep v w st i).frec = st.frec := by
  unfold oauthStep
  split <;> rfl

theorem oauthStep_binds {v : Variant} {w : World} {st : St} (i : Nat) :
    (oauthStep v w st i).binds = st.binds := by
  unfold oauthStep
  split <;> rfl

theorem authStep_frecInv {v : Variant} {w : World} {st : St} (i : Nat) (hs : Sorted st.binds)
    (h : FrecInv v w st.frec st.binds) :
    FrecInv v w (authStep v w st i).frec (authStep v w st i).binds := by
  rw [authStep_frec]
  unfold authStep
  split
  · exact h
  · rename_i p hp
    split
    · rename_i u _ _
      obtain ⟨_, h2, _⟩ := setAuth_spec (ext := w.isExternal) (lua := w.hasLua) (rs := w.rangeStart)
        (re := w.rangeEnd) (used := usedOf v w st) (r0 := st.brec i) (u := u) (signin := p.signin) hs
      exact frecInv_survive h h2
    · exact h

/-- both invariants together -/
def Inv2 (v : Variant) (w : World) (st : St) : Prop := Inv w st ∧ FrecInv v w st.frec st.binds

theorem foldl_inv_mem {I : St → Prop} (step : St → Nat → St) :
    ∀ (l : List Nat) (st : St), (∀ st i, i ∈ l → I st → I (step st i)) → I st → I (l.foldl step st) := by
  intro l
  induction l with
  | nil => intro st _ h; exact h
  | cons i l ih =>
    intro st hstep h
    exact ih _ (fun st j hj => hstep st j (List.mem_cons_of_mem _ hj)) (hstep st i List.mem_cons_self h)

theorem hostPhase_inv2 {v : Variant} {w : World} {st : St} (h : Nat) (hi : Inv2 v w st) :
    Inv2 v w (hostPhase v w st h) := by
  unfold hostPhase
  split
  · rename_i u hplc hurl
    refine foldl_inv_mem (I := Inv2 v w) _ _ _ ?_ hi
    intro st i hmem hst
    obtain ⟨p, hp, hh⟩ := mem_idxsWhere.mp hmem
    have hh : p.host = h := by simpa using hh
    subst hh
    exact ⟨frontStep_inv i hst.1, frontStep_frecInv hp hplc hurl hst.1.1 hst.2⟩
  · exact hi

theorem backendPhase_inv2 {v : Variant} {w : World} {st : St} (b : Nat) (hi : Inv2 v w st) :
    Inv2 v w (backendPhase v w st b) := by
  unfold backendPhase
  refine foldl_inv_mem (I := Inv2 v w) _ _ _ ?_ (foldl_inv_mem (I := Inv2 v w) _ _ _ ?_ hi)
  · intro st i _ hst
    refine ⟨oauthStep_inv i hst.1, ?_⟩
    rw [oauthStep_frec, oauthStep_binds]
    exact hst.2
  · intro st i _ hst
    exact ⟨authStep_inv i hst.1, authStep_frecInv i hst.1.1 hst.2⟩

theorem run_inv2 (v : Variant) (w : World) (ho bo : List Nat) : Inv2 v w (run v w ho bo) := by
  unfold run
  refine foldl_inv_mem (I := Inv2 v w) _ _ _ (fun st b _ => backendPhase_inv2 b)
    (foldl_inv_mem (I := Inv2 v w) _ _ _ (fun st h _ => hostPhase_inv2 h) ⟨inv_init w, ?_⟩)
  intro i r hr
  cases hr

/-! ### a visited frontend host leaves a record on each of its paths -/

theorem frontStep_isSome {v : Variant} {w : World} {u : Url} {sg : Bool} {st : St} {i j : Nat}
    (h : (st.frec i).isSome = true ∨ j = i) : ((frontStep v w u sg st j).frec i).isSome = true := by
  simp only [frontStep, upd]
  by_cases hj : i = j
  · rw [if_pos hj]; rfl
  · rw [if_neg hj]
    rcases h with h | h
    · exact h
    · exact absurd h.symm hj

theorem foldl_frontStep_isSome {v : Variant} {w : World} {u : Url} {sg : Bool} {i : Nat} :
    ∀ (l : List Nat) (st : St), ((st.frec i).isSome = true ∨ i ∈ l) →
      (((l.foldl (frontStep v w u sg) st)).frec i).isSome = true := by
  intro l
  induction l with
  | nil =>
    intro st h
    rcases h with h | h
    · exact h
    · cases h
  | cons j l ih =>
    intro st h
    simp only [List.foldl_cons]
    apply ih
    rcases h with h | h
    · exact Or.inl (frontStep_isSome (Or.inl h))
    · rcases List.mem_cons.mp h with h | h
      · exact Or.inl (frontStep_isSome (Or.inr h.symm))
      · exact Or.inr h

theorem hostPhase_isSome_mono {v : Variant} {w : World} {st : St} {h i : Nat}
    (hs : (st.frec i).isSome = true) : ((hostPhase v w st h).frec i).isSome = true := by
  unfold hostPhase
  split
  · exact foldl_frontStep_isSome _ _ (Or.inl hs)
  · exact hs

theorem hostPhase_sets {v : Variant} {w : World} {st : St} {i : Nat} {p : PathIn} {u : Url}
    (hp : w.paths[i]? = some p) (hplc : hostPlc w p.host = .frontend)
    (hu : hostUrl w p.host = .val u) : ((hostPhase v w st p.host).frec i).isSome = true := by
  unfold hostPhase
  rw [hplc, hu]
  exact foldl_frontStep_isSome _ _ (Or.inr (mem_idxsWhere.mpr ⟨p, hp, by simp⟩))

theorem backendPhase_frec {v : Variant} {w : World} {st : St} (b : Nat) :
    (backendPhase v w st b).frec = st.frec := by
  unfold backendPhase
  have h1 : ∀ (l : List Nat) (s : St), (l.foldl (authStep v w) s).frec = s.frec := by
    intro l
    induction l with
    | nil => intro s; rfl
    | cons i l ih => intro s; simp only [List.foldl_cons]; rw [ih, authStep_frec]
  have h2 : ∀ (l : List Nat) (s : St), (l.foldl (oauthStep v w) s).frec = s.frec := by
    intro l
    induction l with
    | nil => intro s; rfl
    | cons i l ih => intro s; simp only [List.foldl_cons]; rw [ih, oauthStep_frec]
  rw [h2, h1]

theorem run_frec_isSome {v : Variant} {w : World} {ho bo : List Nat} {i : Nat} {p : PathIn} {u : Url}
    (hp : w.paths[i]? = some p) (hho : p.host ∈ ho) (hplc : hostPlc w p.host = .frontend)
    (hu : hostUrl w p.host = .val u) : ((run v w ho bo).frec i).isSome = true := by
  unfold run
  have hb : ∀ (l : List Nat) (s : St), (l.foldl (backendPhase v w) s).frec = s.frec := by
    intro l
    induction l with
    | nil => intro s; rfl
    | cons b l ih => intro s; simp only [List.foldl_cons]; rw [ih, backendPhase_frec]
  rw [hb]
  have hh : ∀ (l : List Nat) (s : St), ((s.frec i).isSome = true ∨ p.host ∈ l) →
      ((l.foldl (hostPhase v w) s).frec i).isSome = true := by
    intro l
    induction l with
    | nil =>
      intro s h
      rcases h with h | h
      · exact h
      · cases h
    | cons h l ih =>
      intro s hs
      simp only [List.foldl_cons]
      apply ih
      rcases hs with hs | hs
      · exact Or.inl (hostPhase_isSome_mono hs)
      · rcases List.mem_cons.mp hs with hs | hs
        · exact Or.inl (hs ▸ hostPhase_sets hp hplc hu)
        · exact Or.inr hs
  exact hh _ _ (Or.inr hho)

/-! ### the frontend rules that reach a request equal to the path -/

theorem flatMap_single {α β} (f : α → List β) (i : α) : ∀ (l : List α), l.Nodup → i ∈ l →
    (∀ j ∈ l, j ≠ i → f j = []) → l.flatMap f = f i := by
  intro l
  induction l with
  | nil => intro _ hi; cases hi
  | cons x xs ih =>
    intro hn hi hz
    have hx : x ∉ xs ∧ xs.Nodup := by simpa [List.nodup_cons] using hn
    rw [List.flatMap_cons]
    by_cases hxi : x = i
    · subst hxi
      have : xs.flatMap f = [] := by
        rw [List.flatMap_eq_nil_iff]
        intro j hj
        exact hz j (List.mem_cons_of_mem _ hj) (fun e => hx.1 (e ▸ hj))
      rw [this, List.append_nil]
    · have hi' : i ∈ xs := by
        rcases List.mem_cons.mp hi with h | h
        · exact absurd h.symm hxi
        · exact h
      rw [hz x List.mem_cons_self hxi, List.nil_append]
      exact ih hx.2 hi' (fun j hj => hz j (List.mem_cons_of_mem _ hj))

theorem aclMatch_front_own (p : PathIn) :
    aclMatch (frontCond p).1 (frontCond p).2 p.key = true := by
  simp [aclMatch, frontCond]

theorem aclMatch_front_other {q : PathIn} {s : String} (h1 : q.hamatch ≠ s) (h2 : q.key ≠ s) :
    aclMatch (frontCond q).1 (frontCond q).2 s = false := by
  simp [aclMatch, frontCond, Ne.symm h1, Ne.symm h2]

/-- a request whose base equals the key of path `i` meets the rules of the record of path `i`
only, when no other path has that key and no match word equals it -/
theorem frontRules_own {w : World} {frec : Nat → Option AuthRec} {i : Nat} {p : PathIn} {r : AuthRec}
    (hp : w.paths[i]? = some p) (hr : frec i = some r)
    (hkeys : ∀ (j : Nat) (q : PathIn), w.paths[j]? = some q → j ≠ i → q.key ≠ p.key)
    (hham : ∀ (j : Nat) (q : PathIn), w.paths[j]? = some q → q.hamatch ≠ p.key) :
    frontRules w frec p.key = rulesOf r := by
  unfold frontRules
  rw [flatMap_single _ i _ List.nodup_range (List.mem_range.mpr (getElem?_lt hp))]
  · rw [hp, hr]
    simp only
    rw [aclMatch_front_own, if_pos rfl]
  · intro j _ hji
    cases hq : w.paths[j]? with
    | none => rfl
    | some q =>
      cases hf : frec j with
      | none => rfl
      | some r' =>
        simp only
        rw [aclMatch_front_other (hham j q hq) (hkeys j q hq hji)]
        rfl

end HapVerif.C18
