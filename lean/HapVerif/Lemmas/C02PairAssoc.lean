import HapVerif.Lemmas.C02PairSplit
/-!
# M-Dyn: the structural invariant of the pairing loop, and stage 2 (`assocCur`)
-/
namespace HapVerif.C02

/-- indices of the current endpoints that already carry an old name: the `cur` fields of the pairs -/
def asg (ps : List Pair) : List Nat := ps.filterMap (·.cur)

theorem asg_split (l1 l2 : List Pair) (p : Pair) : asg (l1 ++ p :: l2) = asg l1 ++ (p.cur.toList ++ asg l2) := by
  unfold asg
  rw [List.filterMap_append, List.filterMap_cons]
  cases p.cur <;> simp

theorem asg_split_some (l1 l2 : List Pair) (p : Pair) (i : Nat) :
    asg (l1 ++ { p with cur := some i } :: l2) = asg l1 ++ i :: asg l2 := by
  rw [asg_split]; simp

/-- structural invariant shared by stages 2–4 -/
structure PInv (old cur0 : List EP) (pairs : List Pair) (cur : List EP) (added : List Nat) (bound : Nat) : Prop where
  clr : cur.map clr = cur0.map clr
  tg : pairs.map (·.target) = (enOf old).map (·.target)
  od : pairs.map (·.old) = enOf old
  nd : (asg pairs ++ added).Nodup
  lt : ∀ x ∈ asg pairs ++ added, x < bound
  nm : ∀ p ∈ pairs, ∀ j, p.cur = some j → nameAt cur j = p.old.name

/-- every index below the bound is either named or waiting in `added` -/
def Cover (pairs : List Pair) (added : List Nat) (bound : Nat) : Prop :=
  ∀ j, j < bound → j ∈ asg pairs ∨ j ∈ added

/-- target link (valid during stage 2 only): a pair's current endpoint has the pair's target -/
def TLink (cur0 : List EP) (pairs : List Pair) : Prop :=
  ∀ p ∈ pairs, ∀ j, p.cur = some j → (cur0.getD j default).target = p.target

theorem mem_asg {ps : List Pair} {j : Nat} : j ∈ asg ps ↔ ∃ p ∈ ps, p.cur = some j := by
  simp [asg, List.mem_filterMap]

theorem assocStep_none (a : Assoc) (i : Nat)
    (hf : a.pairs.find? (fun q => decide (q.target = (a.cur.getD i default).target)) = none) :
    assocStep a i = { a with added := a.added ++ [i] } := by
  unfold assocStep; simp only [hf]

theorem assocStep_some (a : Assoc) (i : Nat) (p : Pair)
    (hf : a.pairs.find? (fun q => decide (q.target = (a.cur.getD i default).target)) = some p) :
    assocStep a i = { a with pairs := setCur a.pairs (a.cur.getD i default).target i,
                             cur := setName a.cur i p.old.name } := by
  unfold assocStep; simp only [hf]

section assoc
variable {old cur0 : List EP}

theorem assocStep_inv (hT : ((enOf old).map (·.target)).Nodup) (a : Assoc) (i : Nat) (hi : i < cur0.length)
    (h : PInv old cur0 a.pairs a.cur a.added i) (hl : TLink cur0 a.pairs) :
    PInv old cur0 (assocStep a i).pairs (assocStep a i).cur (assocStep a i).added (i + 1) ∧
    TLink cur0 (assocStep a i).pairs := by
  have hlen : a.cur.length = cur0.length := length_of_clr h.clr
  have htg : (a.cur.getD i default).target = (cur0.getD i default).target := clr_target (clr_getD h.clr i)
  cases hf : a.pairs.find? (fun q => decide (q.target = (a.cur.getD i default).target)) with
  | none =>
    rw [assocStep_none a i hf]
    refine ⟨⟨h.clr, h.tg, h.od, ?_, ?_, h.nm⟩, hl⟩
    · rw [← List.append_assoc, List.nodup_append]
      refine ⟨h.nd, by simp, ?_⟩
      intro x hx y hy
      simp only [List.mem_singleton] at hy
      have := h.lt x hx; omega
    · intro x hx
      rw [← List.append_assoc, List.mem_append] at hx
      rcases hx with hx | hx
      · have := h.lt x hx; omega
      · simp only [List.mem_singleton] at hx; omega
  | some p =>
    rw [assocStep_some a i p hf]
    simp only
    have hn : (a.pairs.map (·.target)).Nodup := by rw [h.tg]; exact hT
    obtain ⟨hp, l1, l2, hps, h1, h2⟩ := find_split hn hf
    rw [hps, setCur_split l1 l2 p _ i hp h1 h2]
    have hsub : ∀ x, x ∈ asg l1 ++ (asg l2 ++ a.added) → x ∈ asg a.pairs ++ a.added := by
      intro x hx
      rw [hps, asg_split]
      simp only [List.mem_append] at hx ⊢
      rcases hx with hx | hx | hx
      · exact Or.inl (Or.inl hx)
      · exact Or.inl (Or.inr (Or.inr hx))
      · exact Or.inr hx
    have hsl : (asg l1 ++ (asg l2 ++ a.added)).Sublist (asg a.pairs ++ a.added) := by
      rw [hps, asg_split, List.append_assoc, List.append_assoc]
      exact List.Sublist.append_left (List.sublist_append_right _ _) _
    have hnd' : (asg l1 ++ (asg l2 ++ a.added)).Nodup := hsl.nodup h.nd
    have hperm : (asg (l1 ++ { p with cur := some i } :: l2) ++ a.added).Perm (i :: (asg l1 ++ (asg l2 ++ a.added))) := by
      rw [asg_split_some, List.append_assoc, List.cons_append]
      exact List.perm_middle
    refine ⟨⟨?_, ?_, ?_, ?_, ?_, ?_⟩, ?_⟩
    · rw [map_clr_setName]; exact h.clr
    · rw [← h.tg, hps]; simp
    · rw [← h.od, hps]; simp
    · refine hperm.nodup_iff.2 (List.nodup_cons.2 ⟨?_, hnd'⟩)
      intro hmem; have := h.lt i (hsub i hmem); omega
    · intro x hx
      have := hperm.subset hx
      rcases List.mem_cons.1 this with rfl | hx'
      · omega
      · have := h.lt x (hsub x hx'); omega
    · intro q hq j hj
      rcases List.mem_append.1 hq with hq | hq
      · have hq' : q ∈ a.pairs := by rw [hps]; simp [hq]
        have hji : j < i := h.lt j (List.mem_append_left _ (mem_asg.2 ⟨q, hq', hj⟩))
        rw [nameAt_setName_ne _ _ _ _ (by omega)]; exact h.nm q hq' j hj
      · rcases List.mem_cons.1 hq with rfl | hq
        · simp only [Option.some.injEq] at hj
          subst hj
          exact nameAt_setName_eq _ _ _ (by omega)
        · have hq' : q ∈ a.pairs := by rw [hps]; simp [hq]
          have hji : j < i := h.lt j (List.mem_append_left _ (mem_asg.2 ⟨q, hq', hj⟩))
          rw [nameAt_setName_ne _ _ _ _ (by omega)]; exact h.nm q hq' j hj
    · intro q hq j hj
      rcases List.mem_append.1 hq with hq | hq
      · exact hl q (by rw [hps]; simp [hq]) j hj
      · rcases List.mem_cons.1 hq with rfl | hq
        · simp only [Option.some.injEq] at hj
          subst hj
          simp only
          rw [← htg, hp]
        · exact hl q (by rw [hps]; simp [hq]) j hj

/-- with pairwise distinct current targets no pair is overwritten, so no index is lost -/
theorem assocStep_cover (hT : ((enOf old).map (·.target)).Nodup) (hC : (cur0.map (·.target)).Nodup)
    (a : Assoc) (i : Nat) (hi : i < cur0.length)
    (h : PInv old cur0 a.pairs a.cur a.added i) (hl : TLink cur0 a.pairs) (hc : Cover a.pairs a.added i) :
    Cover (assocStep a i).pairs (assocStep a i).added (i + 1) := by
  have htg : (a.cur.getD i default).target = (cur0.getD i default).target := clr_target (clr_getD h.clr i)
  cases hf : a.pairs.find? (fun q => decide (q.target = (a.cur.getD i default).target)) with
  | none =>
    rw [assocStep_none a i hf]
    intro j hj
    by_cases hji : j = i
    · right; simp [hji]
    · rcases hc j (by omega) with h1 | h1
      · exact Or.inl h1
      · right; simp [h1]
  | some p =>
    rw [assocStep_some a i p hf]
    simp only
    have hn : (a.pairs.map (·.target)).Nodup := by rw [h.tg]; exact hT
    obtain ⟨hp, l1, l2, hps, h1, h2⟩ := find_split hn hf
    unfold Cover
    rw [hps, setCur_split l1 l2 p _ i hp h1 h2, asg_split_some]
    -- the pair found cannot have a current endpoint yet
    have hpc : p.cur = none := by
      cases hpc : p.cur with
      | none => rfl
      | some j =>
        exfalso
        have hpm : p ∈ a.pairs := by rw [hps]; simp
        have hji : j < i := h.lt j (List.mem_append_left _ (mem_asg.2 ⟨p, hpm, hpc⟩))
        have e1 : (cur0.getD j default).target = (cur0.getD i default).target := by
          rw [hl p hpm j hpc, hp, htg]
        have hjl : j < cur0.length := by omega
        have := (List.pairwise_iff_getElem.1 hC) j i (by simpa using hjl) (by simpa using hi) hji
        apply this
        simpa [List.getD_eq_getElem?_getD, List.getElem?_eq_getElem hjl, List.getElem?_eq_getElem hi] using e1
    intro j hj
    by_cases hji : j = i
    · left; simp [hji]
    · rcases hc j (by omega) with h3 | h3
      · left
        rw [hps, asg_split, hpc] at h3
        simp only [Option.toList_none, List.nil_append, List.mem_append] at h3
        simp only [List.mem_append, List.mem_cons]
        rcases h3 with h3 | h3
        · exact Or.inl h3
        · exact Or.inr (Or.inr h3)
      · exact Or.inr h3

/-- stage 2 as a whole -/
theorem assocCur_inv (hO : hasDupTarget old = false) :
    let as := assocCur ((enOf old).map mkPair) cur0
    PInv old cur0 as.pairs as.cur as.added cur0.length ∧ TLink cur0 as.pairs ∧
    ((cur0.map (·.target)).Nodup → Cover as.pairs as.added cur0.length) := by
  have hT := (hasDupTarget_false_iff old).1 hO
  intro as
  let Inv : Assoc → List Nat → Prop := fun a r =>
    ∃ i, r = List.range' i (cur0.length - i) ∧ i ≤ cur0.length ∧ PInv old cur0 a.pairs a.cur a.added i ∧
      TLink cur0 a.pairs ∧ ((cur0.map (·.target)).Nodup → Cover a.pairs a.added i)
  have key : Inv as [] := by
    apply foldl_inv assocStep Inv
    · intro a x xs ⟨i, hr, hi, hp, hl, hc⟩
      have hpos : cur0.length - i ≠ 0 := by
        intro h0; rw [h0] at hr; simp at hr
      obtain ⟨m, hm⟩ := Nat.exists_eq_succ_of_ne_zero hpos
      rw [hm, List.range'_succ] at hr
      injection hr with hx hxs
      subst hx
      have hil : x < cur0.length := by omega
      obtain ⟨hp', hl'⟩ := assocStep_inv hT a x hil hp hl
      refine ⟨x + 1, ?_, by omega, hp', hl', fun hC => assocStep_cover hT hC a x hil hp hl (hc hC)⟩
      rw [hxs]; congr 1; omega
    · refine ⟨0, by simp [List.range_eq_range'], Nat.zero_le _, ⟨rfl, ?_, ?_, ?_, ?_, ?_⟩, ?_, ?_⟩
      · simp [mkPair, Function.comp_def]
      · simp [mkPair, Function.comp_def]
      · have : asg ((enOf old).map mkPair) = [] := by
          simp [asg, mkPair, List.filterMap_eq_nil_iff]
        simp [this]
      · intro x hx
        have : asg ((enOf old).map mkPair) = [] := by
          simp [asg, mkPair, List.filterMap_eq_nil_iff]
        simp [this] at hx
      · intro p hp j hj
        obtain ⟨e, _, rfl⟩ := List.mem_map.1 hp
        simp [mkPair] at hj
      · intro p hp j hj
        obtain ⟨e, _, rfl⟩ := List.mem_map.1 hp
        simp [mkPair] at hj
      · intro _ j hj; omega
  obtain ⟨i, hr, hi, hp, hl, hc⟩ := key
  have : i = cur0.length := by
    have := congrArg List.length hr
    simp at this; omega
  subst this
  exact ⟨hp, hl, hc⟩

end assoc
end HapVerif.C02
