import HapVerif.Model.C02
/-!
# M-Dyn proof base: list facts, `setName`, `hasDupTarget`, `putPair`/`splitOld`, `setCur`

Core-only helper lemmas for the proofs about `pairLoop` (Props/C02Pair.lean).
-/
namespace HapVerif.C02

/-! ### generic fold invariant (the invariant may mention the items still to come) -/

theorem foldl_inv {α σ : Type _} (f : σ → α → σ) (Inv : σ → List α → Prop)
    (step : ∀ s x xs, Inv s (x :: xs) → Inv (f s x) xs) :
    ∀ (l : List α) (s : σ), Inv s l → Inv (l.foldl f s) [] := by
  intro l
  induction l with
  | nil => intro s h; simpa using h
  | cons x xs ih => intro s h; exact ih _ (step s x xs h)

/-! ### `eraseDups` and `Nodup` -/

theorem eraseDups_length_le {α} [BEq α] [LawfulBEq α] :
    ∀ (n : Nat) (l : List α), l.length ≤ n → l.eraseDups.length ≤ l.length := by
  intro n
  induction n with
  | zero => intro l h; cases l with
    | nil => simp
    | cons a as => simp at h
  | succ n ih =>
    intro l h
    cases l with
    | nil => simp
    | cons a as =>
      rw [List.eraseDups_cons]
      simp only [List.length_cons] at h ⊢
      have h1 := List.length_filter_le (fun b => !b == a) as
      have := ih (as.filter fun b => !b == a) (by omega)
      omega

theorem eraseDups_length_eq_iff {α} [BEq α] [LawfulBEq α] :
    ∀ (n : Nat) (l : List α), l.length ≤ n → (l.eraseDups.length = l.length ↔ l.Nodup) := by
  intro n
  induction n with
  | zero => intro l h; cases l with
    | nil => simp
    | cons a as => simp at h
  | succ n ih =>
    intro l h
    cases l with
    | nil => simp
    | cons a as =>
      rw [List.eraseDups_cons]
      simp only [List.length_cons] at h ⊢
      have h1 := List.length_filter_le (fun b => !b == a) as
      have h2 := eraseDups_length_le _ (as.filter fun b => !b == a) (Nat.le_refl _)
      have h3 := ih (as.filter fun b => !b == a) (by omega)
      rw [List.nodup_cons]
      constructor
      · intro he
        have hf : (as.filter fun b => !b == a).length = as.length := by omega
        have hfe : as.filter (fun b => !b == a) = as := List.filter_eq_self.2 (by
          have := (List.length_filter_eq_length_iff (p := fun b => !b == a) (l := as)).1 hf
          exact this)
        rw [hfe] at h3 he
        refine ⟨?_, h3.1 (by omega)⟩
        intro hmem
        have := (List.filter_eq_self.1 hfe) a hmem
        simp at this
      · intro ⟨hn, hd⟩
        have hfe : as.filter (fun b => !b == a) = as := List.filter_eq_self.2 (by
          intro b hb
          simp only [Bool.not_eq_eq_eq_not, Bool.not_true, beq_eq_false_iff_ne, ne_eq]
          intro hba; subst hba; exact hn hb)
        rw [hfe] at h3 ⊢
        have := h3.2 hd
        omega

theorem eraseDups_length_ne_iff {α} [BEq α] [LawfulBEq α] (l : List α) :
    (decide (l.eraseDups.length ≠ l.length) = false) ↔ l.Nodup := by
  rw [← eraseDups_length_eq_iff l.length l (Nat.le_refl _)]
  simp

/-! ### targets -/

/-- enabled endpoints -/
def enOf (l : List EP) : List EP := l.filter (·.enabled)
/-- disabled endpoints (the empty slots) -/
def disOf (l : List EP) : List EP := l.filter (fun e => !e.enabled)

theorem hasDupTarget_false_iff (l : List EP) :
    hasDupTarget l = false ↔ ((enOf l).map (·.target)).Nodup := by
  unfold hasDupTarget enOf
  exact eraseDups_length_ne_iff _

theorem namesNodup_iff (l : List EP) : namesNodup l = true ↔ (l.map (·.name)).Nodup := by
  unfold namesNodup
  have := eraseDups_length_eq_iff (l.map (·.name)).length (l.map (·.name)) (Nat.le_refl _)
  simp only [List.length_map] at this
  simp [this]

/-! ### `setName` and the name-erasing view -/

/-- an endpoint with its name erased: everything `setName` leaves alone -/
def clr (e : EP) : EP := { e with name := "" }

theorem clr_default : clr (default : EP) = default := rfl

theorem setName_length (l : List EP) (i : Nat) (n : String) : (setName l i n).length = l.length := by
  simp [setName]

theorem map_clr_setName (l : List EP) (i : Nat) (n : String) : (setName l i n).map clr = l.map clr := by
  apply List.ext_getElem?
  intro j
  simp only [setName, List.getElem?_map, List.getElem?_modify]
  cases l[j]? with
  | none => rfl
  | some e => by_cases h : i = j <;> simp [h, clr]

theorem getD_setName_ne (l : List EP) (i j : Nat) (n : String) (h : i ≠ j) :
    (setName l i n).getD j default = l.getD j default := by
  simp [setName, List.getD_eq_getElem?_getD, h]

theorem getD_setName_eq (l : List EP) (i : Nat) (n : String) (h : i < l.length) :
    (setName l i n).getD i default = { l.getD i default with name := n } := by
  simp [setName, List.getD_eq_getElem?_getD, List.getElem?_eq_getElem h]

theorem clr_getD {l l0 : List EP} (h : l.map clr = l0.map clr) (j : Nat) :
    clr (l.getD j default) = clr (l0.getD j default) := by
  have key : ∀ l : List EP, clr (l.getD j default) = ((l.map clr)[j]?).getD default := by
    intro l
    simp only [List.getD_eq_getElem?_getD, List.getElem?_map]
    cases l[j]? <;> simp [clr_default]
  rw [key, key, h]

theorem length_of_clr {l l0 : List EP} (h : l.map clr = l0.map clr) : l.length = l0.length := by
  simpa using congrArg List.length h

theorem clr_target {a b : EP} (h : clr a = clr b) : a.target = b.target := by
  cases a; cases b; simp only [clr, EP.mk.injEq] at h; simp [EP.target, h]

theorem clr_fields {a b : EP} (h : clr a = clr b) :
    a.ip = b.ip ∧ a.port = b.port ∧ a.enabled = b.enabled ∧ a.weight = b.weight ∧ a.cookie = b.cookie ∧
    a.label = b.label := by
  cases a; cases b; simp only [clr, EP.mk.injEq] at h; simp [h]

/-- the name held by index `i` -/
def nameAt (l : List EP) (i : Nat) : String := (l.getD i default).name

theorem nameAt_setName_ne (l : List EP) (i j : Nat) (n : String) (h : i ≠ j) :
    nameAt (setName l i n) j = nameAt l j := by
  unfold nameAt; rw [getD_setName_ne l i j n h]

theorem nameAt_setName_eq (l : List EP) (i : Nat) (n : String) (h : i < l.length) :
    nameAt (setName l i n) i = n := by
  unfold nameAt; rw [getD_setName_eq l i n h]

theorem map_nameAt_range (l : List EP) : (List.range l.length).map (nameAt l) = l.map (·.name) := by
  apply List.ext_getElem
  · simp
  · intro i h1 h2
    simp only [List.length_map, List.length_range] at h1
    simp [nameAt, List.getD_eq_getElem?_getD, List.getElem?_eq_getElem h1]

end HapVerif.C02
