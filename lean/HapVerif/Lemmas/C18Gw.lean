import HapVerif.Lemmas.C18
import HapVerif.Model.C18Gw
/-!
Lemmas for C18, gateway mode (Model/C18Gw.lean): a sync as a list of updater calls, each with a
mapper (`viewOf`) of its own.

1. what a view is (`viewOf_get`, `SubView`); the one-batch model is the view that sees everything
2. a call whose mapper knows nothing about a path leaves the record of that path alone (`Silent`)
3. the invariant of Lemmas/C18.lean (`Inv`: sorted binds, a record naming `_auth_<P>` sits on a path
   that DECLARES an auth-url whose backend `P` forwards to) survives every call
4. the record of one path through a list of calls (`runCalls_brec`)
-/
namespace HapVerif.C18

/-! ## 1. views -/

theorem viewOf_get (w : World) (g : Globals) (m : List Nat) (i : Nat) :
    (viewOf w g m).paths[i]? = (w.paths[i]?).map fun p => if m.contains i then p else maskPath p := by
  simp [viewOf, List.getElem?_mapIdx]

theorem viewOf_length (w : World) (g : Globals) (m : List Nat) :
    (viewOf w g m).paths.length = w.paths.length := by
  simp [viewOf]

theorem viewOf_mapped {w : World} {g : Globals} {m : List Nat} {i : Nat} {p : PathIn}
    (hp : w.paths[i]? = some p) (hm : i ∈ m) : (viewOf w g m).paths[i]? = some p := by
  rw [viewOf_get, hp]
  simp [hm]

theorem viewOf_unmapped {w : World} {g : Globals} {m : List Nat} {i : Nat} {p : PathIn}
    (hp : w.paths[i]? = some p) (hm : i ∉ m) : (viewOf w g m).paths[i]? = some (maskPath p) := by
  rw [viewOf_get, hp]
  simp [hm]

/-- the view that holds every path, with the world's own globals, is the world -/
theorem viewOf_full (w : World) : viewOf w w.globals (List.range w.paths.length) = w := by
  cases w with
  | mk x l rs re paths =>
    simp only [viewOf, World.globals]
    congr 1
    apply List.ext_getElem?
    intro i
    rw [List.getElem?_mapIdx]
    cases h : paths[i]? with
    | none => rfl
    | some p =>
      have hlt : i < paths.length := getElem?_lt h
      simp [hlt]

/-- a view declares no auth-url that the world does not declare for the same path -/
def SubView (w w' : World) : Prop :=
  w'.paths.length = w.paths.length ∧
  ∀ (i : Nat) (p : PathIn) (u : Url), w'.paths[i]? = some p → p.url = .val u →
    ∃ q : PathIn, w.paths[i]? = some q ∧ q.url = .val u

theorem subView_viewOf (w : World) (g : Globals) (m : List Nat) : SubView w (viewOf w g m) := by
  refine ⟨viewOf_length w g m, ?_⟩
  intro i p u hp hu
  rw [viewOf_get] at hp
  cases hq : w.paths[i]? with
  | none => rw [hq] at hp; cases hp
  | some q =>
    rw [hq] at hp
    simp only [Option.map_some, Option.some.injEq] at hp
    by_cases hm : m.contains i = true
    · rw [if_pos hm] at hp
      subst hp
      exact ⟨q, rfl, hu⟩
    · rw [if_neg hm] at hp
      subst hp
      simp [maskPath] at hu

/-! ## 2. a mapper that knows nothing about a path -/

/-- path `i` declares neither an auth-url nor oauth in this view -/
def Silent (w' : World) (i : Nat) : Prop :=
  ∀ p, w'.paths[i]? = some p → p.url = .absent ∧ p.oauth = .absent

theorem silent_of_unmapped {w : World} {g : Globals} {m : List Nat} {i : Nat} (hm : i ∉ m) :
    Silent (viewOf w g m) i := by
  intro p hp
  rw [viewOf_get] at hp
  cases hq : w.paths[i]? with
  | none => rw [hq] at hp; cases hp
  | some q =>
    rw [hq] at hp
    simp [hm] at hp
    subst hp
    exact ⟨rfl, rfl⟩

theorem upd_self {α} (f : Nat → α) (i : Nat) : upd f i (f i) = f := by
  funext j
  unfold upd
  split
  · rename_i h; rw [h]
  · rfl

/-- **`buildBackendAuthExternal` touches only what is declared**: on a path the mapper holds no
auth-url for, the step is the identity on the whole state -/
theorem authStep_silent {v : Variant} {w' : World} {st : St} {i : Nat} (hs : Silent w' i) :
    authStep v w' st i = st := by
  unfold authStep
  cases hp : w'.paths[i]? with
  | none => rfl
  | some p =>
    simp only
    have hu := (hs p hp).1
    split
    · rename_i u _ hurl
      rw [hu] at hurl
      cases hurl
    · rfl

/-- `buildBackendOAuth` skips a path whose oauth value has no source -/
theorem oauthStep_silent {v : Variant} {w' : World} {st : St} {i : Nat} (hs : Silent w' i) :
    oauthStep v w' st i = st := by
  unfold oauthStep
  cases hp : w'.paths[i]? with
  | none => rfl
  | some p =>
    simp only
    have ho := (hs p hp).2
    have : oauthRec v.oauthOwn w' p (st.brec i) = st.brec i := by
      unfold oauthRec
      rw [ho]
    rw [this, upd_self]

theorem foldl_id {α β} (step : α → β → α) (l : List β) (st : α) (h : ∀ st j, j ∈ l → step st j = st) :
    l.foldl step st = st := by
  induction l generalizing st with
  | nil => rfl
  | cons j l ih =>
    simp only [List.foldl_cons]
    rw [h st j List.mem_cons_self]
    exact ih st fun st k hk => h st k (List.mem_cons_of_mem _ hk)

/-- a step list that may visit `i`, every step keeping the record of `i` -/
theorem foldl_keep (step : St → Nat → St) (i : Nat)
    (h : ∀ st j, (step st j).brec i = st.brec i) :
    ∀ (l : List Nat) (st : St), (l.foldl step st).brec i = st.brec i := by
  intro l
  induction l with
  | nil => intro st; rfl
  | cons j l ih => intro st; simp only [List.foldl_cons]; rw [ih, h]

/-- the record of a path the mapper is silent about survives `UpdateBackendConfig` of any backend -/
theorem backendPhase_silent {v : Variant} {w' : World} {st : St} {i : Nat} (b : Nat)
    (hs : Silent w' i) : (backendPhase v w' st b).brec i = st.brec i := by
  unfold backendPhase
  rw [foldl_keep (oauthStep v w') i, foldl_keep (authStep v w') i]
  · intro st j
    by_cases hj : j = i
    · subst hj; rw [authStep_silent hs]
    · exact authStep_other hj
  · intro st j
    by_cases hj : j = i
    · subst hj; rw [oauthStep_silent hs]
    · exact oauthStep_other hj

theorem backendPhaseWith_authStep (v : Variant) (w : World) (st : St) (b : Nat) :
    backendPhaseWith authStep v w st b = backendPhase v w st b := rfl

/-- **re-running `UpdateBackendConfig` with an empty mapper changes nothing** — not the records of
the backend's paths (AuthBackendName, AlwaysDeny, what `buildBackendOAuth` wrote), not the bind list -/
theorem backendPhase_empty_mapper (v : Variant) (w : World) (g : Globals) (st : St) (b : Nat) :
    backendPhase v (viewOf w g []) st b = st := by
  have hs : ∀ i, Silent (viewOf w g []) i := fun i => silent_of_unmapped (by simp)
  unfold backendPhase
  rw [foldl_id _ _ _ fun st j _ => authStep_silent (hs j)]
  exact foldl_id _ _ _ fun st j _ => oauthStep_silent (hs j)

/-! ## 3. the invariant survives every call -/

theorem usedPorts_sub_usedOf_sub {w w' : World} (hv : SubView w w') (v : Variant) (st : St) :
    ∀ P, P ∈ usedPorts w.paths.length st.brec → P ∈ usedOf v w' st := by
  intro P h
  unfold usedOf
  rw [hv.1]
  exact List.mem_append_left _ h

theorem frontStep_inv_sub {v : Variant} {w w' : World} (hv : SubView w w') {u : Url} {signin : Bool}
    {st : St} (i : Nat) (h : Inv w st) : Inv w (frontStep v w' u signin st i) := by
  obtain ⟨hs, hr⟩ := h
  obtain ⟨h1, h2, _⟩ := setAuth_spec (ext := w'.isExternal) (lua := w'.hasLua) (rs := w'.rangeStart)
    (re := w'.rangeEnd) (used := usedOf v w' st) (r0 := {}) (u := u) (signin := signin) hs
  exact ⟨h1, recInv_survive hr (usedPorts_sub_usedOf_sub hv v st) h2⟩

theorem hostPhase_inv_sub {v : Variant} {w w' : World} (hv : SubView w w') {st : St} (h : Nat)
    (hi : Inv w st) : Inv w (hostPhase v w' st h) := by
  unfold hostPhase
  split
  · exact foldl_inv _ (fun st i => frontStep_inv_sub hv i) _ _ hi
  · exact hi

theorem authStep_inv_sub {v : Variant} {w w' : World} (hv : SubView w w') {st : St} (i : Nat)
    (h : Inv w st) : Inv w (authStep v w' st i) := by
  obtain ⟨hs, hr⟩ := h
  unfold authStep
  split
  · exact ⟨hs, hr⟩
  · rename_i p hp
    split
    · rename_i u hplc hurl
      obtain ⟨h1, h2, h3⟩ := setAuth_spec (ext := w'.isExternal) (lua := w'.hasLua) (rs := w'.rangeStart)
        (re := w'.rangeEnd) (used := usedOf v w' st) (r0 := st.brec i) (u := u)
        (signin := p.signin) hs
      have hsub := usedPorts_sub_usedOf_sub hv v st
      refine ⟨h1, ?_⟩
      intro j P hn
      simp only [upd] at hn
      by_cases hj : j = i
      · subst hj
        rw [if_pos rfl] at hn
        rcases h3 with h3 | ⟨P', h3, hb, _⟩
        · rw [h3] at hn
          exact recInv_survive hr hsub h2 j P hn
        · rw [h3] at hn
          simp only [okRec, AuthName.proxy.injEq] at hn
          subst hn
          obtain ⟨q, hq, hqu⟩ := hv.2 j p u hp hurl
          exact ⟨q, u, hq, hqu, hb⟩
      · rw [if_neg hj] at hn
        exact recInv_survive hr hsub h2 j P hn
    · exact ⟨hs, hr⟩

theorem oauthStep_inv_sub {v : Variant} {w w' : World} {st : St} (i : Nat) (h : Inv w st) :
    Inv w (oauthStep v w' st i) := by
  obtain ⟨hs, hr⟩ := h
  unfold oauthStep
  split
  · exact ⟨hs, hr⟩
  · refine ⟨hs, ?_⟩
    intro j P hn
    simp only [upd] at hn
    by_cases hj : j = i
    · subst hj
      rw [if_pos rfl] at hn
      exact hr j P (oauthRec_name hn)
    · rw [if_neg hj] at hn
      exact hr j P hn

theorem backendPhase_inv_sub {v : Variant} {w w' : World} (hv : SubView w w') {st : St} (b : Nat)
    (h : Inv w st) : Inv w (backendPhase v w' st b) := by
  unfold backendPhase
  exact foldl_inv _ (fun st i => oauthStep_inv_sub i) _ _
    (foldl_inv _ (fun st i => authStep_inv_sub hv i) _ _ h)

theorem applyCall_inv {v : Variant} {w : World} {st : St} (c : Call) (h : Inv w st) :
    Inv w (applyCall authStep v w st c) := by
  cases c with
  | backend g b m => exact backendPhase_inv_sub (subView_viewOf w g m) b h
  | host g hh m => exact hostPhase_inv_sub (subView_viewOf w g m) hh h

/-- **invariant of every list of calls**, whatever the mappers and the globals of the calls -/
theorem runCalls_inv (v : Variant) (w : World) (calls : List Call) :
    Inv w (runCalls authStep v w calls) := by
  unfold runCalls
  generalize hst : ({} : St) = st
  have h : Inv w st := hst ▸ inv_init w
  clear hst
  induction calls generalizing st with
  | nil => exact h
  | cons c cs ih => exact ih _ (applyCall_inv c h)

/-! ## 4. the record of one path through a list of calls -/

/-- the call does not hand the annotations of path `i` to the updater -/
def NotMapping (i : Nat) : Call → Prop
  | .backend _ _ m => i ∉ m
  | .host _ _ _ => True

theorem applyCall_keep {v : Variant} {w : World} {st : St} {i : Nat} {c : Call}
    (hc : NotMapping i c) : (applyCall authStep v w st c).brec i = st.brec i := by
  cases c with
  | backend g b m => exact backendPhase_silent b (silent_of_unmapped hc)
  | host g h m => exact congrFun (hostPhase_brec h) i

theorem foldl_calls_keep {v : Variant} {w : World} {i : Nat} :
    ∀ (cs : List Call) (st : St), (∀ c ∈ cs, NotMapping i c) →
      (cs.foldl (applyCall authStep v w) st).brec i = st.brec i := by
  intro cs
  induction cs with
  | nil => intro st _; rfl
  | cons c cs ih =>
    intro st h
    simp only [List.foldl_cons]
    rw [ih _ fun c' hc' => h c' (List.mem_cons_of_mem _ hc'), applyCall_keep (h c List.mem_cons_self)]

/-- **the record of path `i` after a sync in which exactly one call carries its annotations**: what
`buildBackendOAuth` made of the result of `buildBackendAuthExternal` on a fresh record IN THAT CALL —
every other call (other backends, hosts, and any number of runs over its own backend with a mapper
that does not know the path) leaves it alone -/
theorem runCalls_brec {v : Variant} {w : World} {pre post : List Call} {g : Globals} {m : List Nat}
    {i : Nat} {p : PathIn} (hp : w.paths[i]? = some p) (him : i ∈ m)
    (hpre : ∀ c ∈ pre, NotMapping i c) (hpost : ∀ c ∈ post, NotMapping i c) :
    ∃ r1, PostAuth (viewOf w g m) p r1 ∧
      (runCalls authStep v w (pre ++ [.backend g p.backend m] ++ post)).brec i =
        oauthRec v.oauthOwn (viewOf w g m) p r1 := by
  unfold runCalls
  rw [List.foldl_append, List.foldl_append, foldl_calls_keep post _ hpost]
  simp only [List.foldl_cons, List.foldl_nil]
  have h0 : (pre.foldl (applyCall authStep v w) {}).brec i = {} := by
    rw [foldl_calls_keep pre _ hpre]
  exact backendPhase_own (v := v) (w := viewOf w g m) (viewOf_mapped hp him) h0

end HapVerif.C18
