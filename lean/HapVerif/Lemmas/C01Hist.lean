import HapVerif.Lemmas.C01Watch
/-
Histories of OPERATIONS: batches of operations on the cluster, the watchers model builds the batch, the
controller reconciles after each batch (`runHistory`). Partial = full by induction over the batches.
-/
set_option linter.unusedSectionVars false
set_option linter.unusedSimpArgs false
set_option linter.unusedVariables false
namespace HapVerif.C01

/-- host entries and backend traces coincide -/
def ObsEq (st1 st2 : St) : Prop := (∀ h, st1.hm h = st2.hm h) ∧ (∀ x, st1.bm x = st2.bm x)

/-- one batch of operations followed by one reconciliation -/
def runBatch (rev : Rev) (wc : World × Ctl) (ops : List Op) : World × Ctl :=
  ((ops.foldl applyOp (wc.1, {})).1, reconcile rev (ops.foldl applyOp (wc.1, {})).1 (ops.foldl applyOp (wc.1, {})).2 wc.2)

theorem runHistory_eq (rev : Rev) (batches : List (List Op)) :
    runHistory rev batches = batches.foldl (runBatch rev) ({}, {}) := rfl

/-- side conditions and assumptions along a history: at every PARTIAL sync the side condition `SCdef`, the
naming assumption `BackIdInj`, drain-support off before and after -/
def HistOK (rev : Rev) : World × Ctl → List (List Op) → Prop
  | _, [] => True
  | wc, ops :: rest =>
    (needFull wc.2 (ops.foldl applyOp (wc.1, {})).2 = false →
        BackIdInj wc.1 (ops.foldl applyOp (wc.1, {})).1 ∧ SCdef (ops.foldl applyOp (wc.1, {})).2 wc.2.st ∧
          wc.1.drain = false ∧ (ops.foldl applyOp (wc.1, {})).1.drain = false) ∧
      HistOK rev (runBatch rev wc ops) rest

/-- what holds between reconciliations -/
def Good (rev : Rev) (wc : World × Ctl) : Prop :=
  wc.1.WF ∧ (wc.2.first = true ∨ (ObsEq wc.2.st (syncFull rev wc.1) ∧ Linked wc.1 wc.2.st))

theorem batch_full_false_eq (b : Batch) (h : b.full = false) : ({ b with full := false } : Batch) = b := by
  cases b; simp_all

theorem good_runBatch (rev : Rev) (hrev : 2 ≤ rev) (wc : World × Ctl) (ops : List Op) (hg : Good rev wc)
    (hok : needFull wc.2 (ops.foldl applyOp (wc.1, {})).2 = false →
        BackIdInj wc.1 (ops.foldl applyOp (wc.1, {})).1 ∧ SCdef (ops.foldl applyOp (wc.1, {})).2 wc.2.st ∧
          wc.1.drain = false ∧ (ops.foldl applyOp (wc.1, {})).1.drain = false) :
    Good rev (runBatch rev wc ops) ∧ (runBatch rev wc ops).2.first = false := by
  obtain ⟨hwf, hinv⟩ := hg
  have hwf' := wf_ops ops wc.1 {} hwf
  refine ⟨⟨hwf', Or.inr ?_⟩, rfl⟩
  show ObsEq (step rev _ _ wc.2.st) _ ∧ Linked _ (step rev _ _ wc.2.st)
  unfold step
  cases hnf : needFull wc.2 (ops.foldl applyOp (wc.1, {})).2 with
  | true =>
    simp only [if_true]
    exact ⟨⟨fun _ => rfl, fun _ => rfl⟩, linked_syncFull rev hrev _⟩
  | false =>
    simp only [Bool.false_eq_true, if_false]
    obtain ⟨hinj, hsc, hdr, hdr'⟩ := hok hnf
    unfold needFull at hnf
    simp only [Bool.or_eq_false_iff] at hnf
    obtain ⟨⟨hfirst, hbfull⟩, _⟩ := hnf
    rcases hinv with hf | ⟨hobs, hl⟩
    · rw [hf] at hfirst; cases hfirst
    · rw [batch_full_false_eq _ hbfull]
      have hd := describes_of_ops ops hwf hbfull hdr hdr'
      exact ⟨partial_eq_full_step ⟨hrev, hd, hwf, hwf', hl, hobs.1, hobs.2, hinj, hsc⟩,
        linked_syncPartial rev hrev hd hwf hwf' hl⟩

/-- for ALL histories of operations: after every reconciliation the controller holds the items of a full sync
on the current cluster, and the tracking invariant -/
theorem good_history (rev : Rev) (hrev : 2 ≤ rev) (batches : List (List Op)) (wc : World × Ctl)
    (hg : Good rev wc) (hok : HistOK rev wc batches) : Good rev (batches.foldl (runBatch rev) wc) := by
  induction batches generalizing wc with
  | nil => exact hg
  | cons ops rest ih =>
    simp only [List.foldl_cons]
    exact ih _ (good_runBatch rev hrev wc ops hg hok.1).1 hok.2

theorem first_false_history (rev : Rev) (batches : List (List Op)) (wc : World × Ctl)
    (h : batches ≠ [] ∨ wc.2.first = false) : (batches.foldl (runBatch rev) wc).2.first = false := by
  induction batches generalizing wc with
  | nil => rcases h with h | h; exact absurd rfl h; exact h
  | cons ops rest ih =>
    simp only [List.foldl_cons]
    exact ih _ (Or.inr rfl)

end HapVerif.C01
