import HapVerif.Lemmas.C02PairTable
/-!
# M-Dyn soundness, part 1: the ledger of names, what a surviving `updated = true` tells about the
commands sent, and the table invariant of one walk step
-/
namespace HapVerif.C02

/-! ### ledger: pairs not yet disabled + empty slots = the old endpoints -/

theorem ledger_perm {old cur0 : List EP} {cv : Prop} {w : Walk} {ts : List String} (hW : WInv old cur0 cv w ts) :
    (((w.pairs.filter (fun p => !gone ts p)).map (·.old)) ++ w.empty).Perm old := by
  refine (List.Perm.append_left _ hW.emp).trans ?_
  have h3 : ((w.pairs.filter (fun p => !gone ts p)) ++ (w.pairs.filter (gone ts))).Perm w.pairs := by
    have := List.filter_append_perm (fun p => !gone ts p) w.pairs
    simpa using this
  have h4 := h3.map (·.old)
  rw [hW.p.od, List.map_append] at h4
  refine List.Perm.trans ?_ (en_dis_perm old)
  refine List.Perm.trans ?_ (h4.append_right _)
  simp only [List.append_assoc]
  exact List.Perm.append_left _ List.perm_append_comm

/-- distinctness facts used by the table invariant -/
structure Led (old : List EP) (pairs : List Pair) (empty : List EP) (ts : List String) : Prop where
  d1 : ∀ p ∈ pairs, ∀ q ∈ pairs, q.old.name = p.old.name → q = p
  d2 : ∀ p ∈ pairs, gone ts p = false → ∀ e ∈ empty, e.name ≠ p.old.name
  d3 : (empty.map (·.name)).Nodup
  uq : ∀ p ∈ pairs, ∀ q ∈ pairs, q.target = p.target → q = p
  pm : ∀ p ∈ pairs, p.old ∈ old
  em : ∀ e ∈ empty, e ∈ old

theorem led_of_winv {old cur0 : List EP} {cv : Prop} {w : Walk} {ts : List String} (hW : WInv old cur0 cv w ts)
    (hT : ((enOf old).map (·.target)).Nodup) (hN : (old.map (·.name)).Nodup) : Led old w.pairs w.empty ts := by
  have hL := ledger_perm hW
  have hLn : ((((w.pairs.filter (fun p => !gone ts p)).map (·.old)) ++ w.empty).map (·.name)).Nodup :=
    ((hL.map (·.name)).nodup_iff).2 hN
  rw [List.map_append, List.nodup_append] at hLn
  have hpn : (w.pairs.map (fun p => p.old.name)).Nodup := by
    have : w.pairs.map (fun p => p.old.name) = (enOf old).map (·.name) := by
      rw [← hW.p.od, List.map_map]; rfl
    rw [this]
    exact (List.Sublist.map _ List.filter_sublist).nodup hN
  have hptn : (w.pairs.map (·.target)).Nodup := by rw [hW.p.tg]; exact hT
  refine ⟨fun p hp q hq h => eq_of_nodup_map _ _ hpn q hq p hp h, ?_, hLn.2.1,
    fun p hp q hq h => eq_of_nodup_map _ _ hptn q hq p hp h, ?_, ?_⟩
  · intro p hp hg e he heq
    have h1 : p.old.name ∈ ((w.pairs.filter (fun p => !gone ts p)).map (·.old)).map (·.name) :=
      List.mem_map_of_mem (List.mem_map_of_mem (List.mem_filter.2 ⟨hp, by simp [hg]⟩))
    exact hLn.2.2 _ h1 _ (List.mem_map_of_mem he) heq.symm
  · intro p hp
    have : p.old ∈ enOf old := by rw [← hW.p.od]; exact List.mem_map_of_mem hp
    exact (List.mem_filter.1 this).1
  · intro e he
    exact hL.subset (List.mem_append_right _ he)

/-! ### what `updated = true` after a step says about the commands -/

theorem chk_sound (s : PairSt) (pr : Bool) (o c : EP)
    (hu : (finish (checkEndpointPair s pr o c)).updated = true) :
    s.updated = true ∧
    ((o = c ∧ (finish (checkEndpointPair s pr o c)).cmds = s.cmds) ∨
     (finish (checkEndpointPair s pr o c)).cmds = s.cmds ++ [.enable c.name c.ip c.port c.weight]) := by
  revert hu
  unfold checkEndpointPair finish
  split
  · next h => intro hu; exact ⟨by simpa using hu, Or.inl ⟨h, rfl⟩⟩
  · split
    · intro hu; simp at hu
    · simp only
      split
      · intro hu; simp at hu
      · intro hu
        rw [exec_updated] at hu
        exact ⟨hu, Or.inr (exec_cmds _ _)⟩

theorem disable_sound (s : PairSt) (o : EP) (hu : (disableSt s o).updated = true) :
    s.updated = true ∧ (disableSt s o).cmds = s.cmds ++ [.disable o.name] := by
  revert hu
  unfold disableSt
  simp only
  split
  · intro hu; simp at hu
  · intro hu
    rw [exec_updated] at hu
    exact ⟨hu, exec_cmds _ _⟩

theorem slot_sound (pr : Bool) (s : PairSt) (a : Nat) (slot : EP) (hu : (slotSt pr s a slot).updated = true) :
    s.updated = true ∧
    (slotSt pr s a slot).cmds = s.cmds ++
      [.enable ((setName s.cur a slot.name).getD a default).name ((setName s.cur a slot.name).getD a default).ip
        ((setName s.cur a slot.name).getD a default).port ((setName s.cur a slot.name).getD a default).weight] := by
  revert hu
  unfold slotSt
  simp only
  split
  · intro hu; simp at hu
  · split
    · intro hu; simp at hu
    · intro hu
      rw [exec_updated] at hu
      exact ⟨hu, exec_cmds _ _⟩

/-! ### the table invariant -/

/-- the running server looks like the rendered endpoint `c` -/
def Match (c : EP) : Srv → Prop := fun srv => normSrv srv = normSrv (loadSrv c)

/-- table invariant of the walk (`T` = running table, `ts` = targets still to visit) -/
structure SCore (T : List Srv) (pairs : List Pair) (cur : List EP) (empty : List EP) (ts : List String) : Prop where
  s1 : ∀ p ∈ pairs, ∀ j, p.cur = some j → p.target ∉ ts → TL T p.old.name (Match (cur.getD j default))
  s2 : ∀ p ∈ pairs, p.target ∈ ts → TL T p.old.name (fun srv => srv = loadSrv p.old)
  s3 : ∀ e ∈ empty, TL T e.name (fun srv => srv.state = .maint)

/-- an added endpoint takes the name of an unmatched old one: the table is not touched -/
theorem score_take {T : List Srv} {l1 l2 : List Pair} {p : Pair} {cur empty : List EP} {t : String}
    {ts : List String} (a : Nat) (nm : String)
    (hS : SCore T (l1 ++ p :: l2) cur empty (t :: ts)) (hpt : p.target = t)
    (ha : ∀ q ∈ l1 ++ p :: l2, q.cur ≠ some a) :
    SCore T (l1 ++ { p with cur := some a } :: l2) (setName cur a nm) empty (t :: ts) := by
  have hmem : ∀ q, q ∈ l1 ++ { p with cur := some a } :: l2 → q = { p with cur := some a } ∨
      (q ∈ l1 ++ p :: l2 ∧ q ≠ { p with cur := some a }) ∨ q = { p with cur := some a } := by
    intro q hq
    rcases List.mem_append.1 hq with h | h
    · by_cases hqe : q = { p with cur := some a }
      · exact Or.inl hqe
      · exact Or.inr (Or.inl ⟨by simp [h], hqe⟩)
    · rcases List.mem_cons.1 h with h | h
      · exact Or.inl h
      · by_cases hqe : q = { p with cur := some a }
        · exact Or.inl hqe
        · exact Or.inr (Or.inl ⟨by simp [h], hqe⟩)
  refine ⟨?_, ?_, hS.s3⟩
  · intro q hq j hj hnt
    rcases hmem q hq with rfl | ⟨hq', _⟩ | rfl
    · exact absurd (by simp [hpt]) hnt
    · have hja : a ≠ j := fun e => ha q hq' (e ▸ hj)
      rw [getD_setName_ne _ _ _ _ hja]
      exact hS.s1 q hq' j hj hnt
    · exact absurd (by simp [hpt]) hnt
  · intro q hq ht
    rcases hmem q hq with rfl | ⟨hq', _⟩ | rfl
    · exact hS.s2 p (by simp) (by rw [hpt]; simp)
    · exact hS.s2 q hq' ht
    · exact hS.s2 p (by simp) (by rw [hpt]; simp)

/-- visiting a pair that has a current endpoint: nothing sent (old = cur) or one `enable` -/
theorem score_check {old : List EP} {T T' : List Srv} {pairs : List Pair} {cur empty : List EP} {t : String}
    {ts : List String} {p : Pair} {ci : Nat}
    (hS : SCore T pairs cur empty (t :: ts)) (hL : Led old pairs empty ts)
    (hpm : p ∈ pairs) (hpt : p.target = t) (hpc : p.cur = some ci) (htn : t ∉ ts)
    (hname : (cur.getD ci default).name = p.old.name) (hen : (cur.getD ci default).enabled = true)
    (hT' : (p.old = cur.getD ci default ∧ T' = T) ∨
      T' = applyCmd T (.enable (cur.getD ci default).name (cur.getD ci default).ip (cur.getD ci default).port
        (cur.getD ci default).weight)) :
    SCore T' pairs cur empty ts := by
  have hpg : gone ts p = false := by simp [gone, hpc]
  rcases hT' with ⟨heq, rfl⟩ | rfl
  · refine ⟨?_, fun q hq ht => hS.s2 q hq (List.mem_cons_of_mem _ ht), hS.s3⟩
    intro q hq j hj hnt
    by_cases hqt : q.target = t
    · have : q = p := hL.uq p hpm q hq (by rw [hqt, hpt])
      subst this
      rw [hpc] at hj; injection hj with hj; subst hj
      refine TL_mono (hS.s2 q hq (by rw [hqt]; simp)) ?_
      intro srv _ hs
      show normSrv srv = _
      rw [hs, heq]
    · exact hS.s1 q hq j hj (by simp [hqt, hnt])
  · have hcn : cmdName (.enable (cur.getD ci default).name (cur.getD ci default).ip (cur.getD ci default).port
        (cur.getD ci default).weight) = p.old.name := hname
    refine ⟨?_, ?_, ?_⟩
    · intro q hq j hj hnt
      by_cases hqp : q = p
      · subst hqp
        rw [hpc] at hj; injection hj with hj; subst hj
        rw [← hname]
        refine TL_mono (TL_enable T _ _ _ _) ?_
        intro srv hn hs
        exact norm_enabled hen hn hs
      · have hqt : q.target ≠ t := fun e => hqp (hL.uq p hpm q hq (by rw [e, hpt]))
        refine TL_other _ ?_ (hS.s1 q hq j hj (by simp [hqt, hnt]))
        rw [hcn]; exact fun e => hqp (hL.d1 p hpm q hq e.symm)
    · intro q hq ht
      have hqp : q ≠ p := by
        intro e; subst e
        exact htn (hpt ▸ ht)
      refine TL_other _ ?_ (hS.s2 q hq (List.mem_cons_of_mem _ ht))
      rw [hcn]; exact fun e => hqp (hL.d1 p hpm q hq e.symm)
    · intro e he
      refine TL_other _ ?_ (hS.s3 e he)
      rw [hcn]; exact fun h => hL.d2 p hpm hpg e he h.symm

/-- visiting a pair without current endpoint when no added endpoint is left: one `disable` -/
theorem score_disable {old : List EP} {T : List Srv} {pairs : List Pair} {cur empty : List EP} {t : String}
    {ts : List String} {p : Pair}
    (hS : SCore T pairs cur empty (t :: ts)) (hL : Led old pairs (empty ++ [p.old]) ts)
    (hpm : p ∈ pairs) (hpt : p.target = t) (hpc : p.cur = none) (htn : t ∉ ts) :
    SCore (applyCmd T (.disable p.old.name)) pairs cur (empty ++ [p.old]) ts := by
  have hne : ∀ q ∈ pairs, q ≠ p → cmdName (.disable p.old.name) ≠ q.old.name :=
    fun q hq hqp e => hqp (hL.d1 p hpm q hq e.symm)
  refine ⟨?_, ?_, ?_⟩
  · intro q hq j hj hnt
    have hqp : q ≠ p := by intro e; subst e; rw [hpc] at hj; cases hj
    have hqt : q.target ≠ t := fun e => hqp (hL.uq p hpm q hq (by rw [e, hpt]))
    exact TL_other _ (hne q hq hqp) (hS.s1 q hq j hj (by simp [hqt, hnt]))
  · intro q hq ht
    have hqp : q ≠ p := by intro e; subst e; exact htn (hpt ▸ ht)
    exact TL_other _ (hne q hq hqp) (hS.s2 q hq (List.mem_cons_of_mem _ ht))
  · intro e he
    rcases List.mem_append.1 he with he | he
    · refine TL_other _ ?_ (hS.s3 e he)
      have := hL.d3
      rw [List.map_append, List.nodup_append] at this
      exact fun h => this.2.2 e.name (List.mem_map_of_mem he) p.old.name (by simp) h.symm
    · simp only [List.mem_singleton] at he
      subst he
      exact TL_disable T _

end HapVerif.C02
