import HapVerif.Lemmas.C04Layout
/-!
# C04 — what one emitted file answers (`lookupFile (mkFile t E)`), by method.  Core only.
-/
namespace HapVerif.C04
open List

/-- an entry matches a sample under the method of a file of type `t` -/
def entMatch (t : MT) (e : Entry) (s : Str) : Bool :=
  match t with
  | .exact => e.key = s
  | .pfx => wordMatch e.key s
  | .beg => e.key.isPrefixOf (lower s)

/-! ### the `beg` fold: longest matching key -/

def begStep (s : Str) (best : Option (Str × Nat)) (e : Str × Nat) : Option (Str × Nat) :=
  if e.1.isPrefixOf s then
    match best with
    | some b => if b.1.length < e.1.length then some e else best
    | none => some e
  else best

theorem begFold_none (s : Str) : ∀ (ks : List (Str × Nat)) (init : Option (Str × Nat)),
    ks.foldl (begStep s) init = none ↔ init = none ∧ ∀ k ∈ ks, k.1.isPrefixOf s = false
  | [], init => by simp
  | k :: ks, init => by
    rw [foldl_cons, begFold_none s ks]
    unfold begStep
    cases hk : k.1.isPrefixOf s
    · simp [hk]
    · cases init with
      | none => simp [hk]
      | some b => simp only [if_true]; split <;> simp [hk]

theorem begFold_some (s : Str) : ∀ (ks : List (Str × Nat)) (init : Option (Str × Nat)) (b : Str × Nat),
    ks.foldl (begStep s) init = some b →
      (init = some b ∨ (b ∈ ks ∧ b.1.isPrefixOf s = true)) ∧
      (∀ k ∈ ks, k.1.isPrefixOf s = true → k.1.length ≤ b.1.length) ∧
      (∀ b0, init = some b0 → b0.1.length ≤ b.1.length)
  | [], init, b, h => by
    simp only [foldl_nil] at h
    subst h
    simp
  | k :: ks, init, b, h => by
    rw [foldl_cons] at h
    obtain ⟨h1, h2, h3⟩ := begFold_some s ks _ b h
    cases hk : k.1.isPrefixOf s
    · have hs : begStep s init k = init := by simp [begStep, hk]
      rw [hs] at h1 h3
      refine ⟨?_, ?_, h3⟩
      · rcases h1 with h1 | ⟨h1, h1'⟩
        · exact Or.inl h1
        · exact Or.inr ⟨mem_cons_of_mem _ h1, h1'⟩
      · intro k' hk' hp
        rcases mem_cons.1 hk' with rfl | hk'
        · rw [hk] at hp; exact absurd hp (by decide)
        · exact h2 k' hk' hp
    · cases init with
      | none =>
        have hs : begStep s none k = some k := by simp [begStep, hk]
        rw [hs] at h1 h3
        refine ⟨?_, ?_, by simp⟩
        · rcases h1 with h1 | ⟨h1, h1'⟩
          · cases h1; exact Or.inr ⟨mem_cons_self, hk⟩
          · exact Or.inr ⟨mem_cons_of_mem _ h1, h1'⟩
        · intro k' hk' hp
          rcases mem_cons.1 hk' with rfl | hk'
          · exact h3 _ rfl
          · exact h2 k' hk' hp
      | some b0 =>
        by_cases hl : b0.1.length < k.1.length
        · have hs : begStep s (some b0) k = some k := by simp [begStep, hk, hl]
          rw [hs] at h1 h3
          have hkb := h3 _ rfl
          refine ⟨?_, ?_, ?_⟩
          · rcases h1 with h1 | ⟨h1, h1'⟩
            · cases h1; exact Or.inr ⟨mem_cons_self, hk⟩
            · exact Or.inr ⟨mem_cons_of_mem _ h1, h1'⟩
          · intro k' hk' hp
            rcases mem_cons.1 hk' with rfl | hk'
            · exact hkb
            · exact h2 k' hk' hp
          · intro b1 hb1; cases hb1; omega
        · have hs : begStep s (some b0) k = some b0 := by simp [begStep, hk, hl]
          rw [hs] at h1 h3
          have hkb := h3 _ rfl
          refine ⟨?_, ?_, ?_⟩
          · rcases h1 with h1 | ⟨h1, h1'⟩
            · exact Or.inl h1
            · exact Or.inr ⟨mem_cons_of_mem _ h1, h1'⟩
          · intro k' hk' hp
            rcases mem_cons.1 hk' with rfl | hk'
            · omega
            · exact h2 k' hk' hp
          · intro b1 hb1; cases hb1; exact hkb

/-! ### per-file answers -/

theorem lookupFile_exact (E : List Entry) (s : Str) :
    lookupFile (mkFile .exact E) s =
      ((sortBy (fileLt .exact) E).find? fun e => e.key = s).map (·.target) := by
  simp [lookupFile, mkFile, methodOf, find?_map, Function.comp_def]

theorem lookupFile_pfx (E : List Entry) (s : Str) :
    lookupFile (mkFile .pfx E) s =
      ((sortBy (fileLt .pfx) E).find? fun e => wordMatch e.key s).map (·.target) := by
  simp [lookupFile, mkFile, methodOf, find?_map, Function.comp_def]

theorem lookupFile_beg (E : List Entry) (s : Str) :
    lookupFile (mkFile .beg E) s =
      ((((sortBy (fileLt .beg) E).map fun e => (e.key, e.target)).foldl (begStep (lower s)) none).map (·.2)) := by
  simp only [lookupFile, mkFile, methodOf, decide_true, if_true]
  rfl

theorem lookupFile_none {t : MT} {E : List Entry} {s : Str} :
    lookupFile (mkFile t E) s = none ↔ ∀ e ∈ E, entMatch t e s = false := by
  cases t with
  | exact =>
    rw [lookupFile_exact, Option.map_eq_none_iff, find?_eq_none]
    simp [entMatch, mem_sortBy]
  | pfx =>
    rw [lookupFile_pfx, Option.map_eq_none_iff, find?_eq_none]
    simp [entMatch, mem_sortBy]
  | beg =>
    rw [lookupFile_beg, Option.map_eq_none_iff, begFold_none]
    simp [entMatch, mem_sortBy]

theorem lookupFile_some {t : MT} {E : List Entry} {s : Str} {tg : Nat}
    (h : lookupFile (mkFile t E) s = some tg) :
    ∃ e ∈ E, e.target = tg ∧ entMatch t e s = true ∧
      (t = .pfx → (∀ e ∈ E, KeyOK e) → ∀ e' ∈ E, entMatch .pfx e' s = true → fileLt .pfx e' e = false) ∧
      (t = .beg → ∀ e' ∈ E, entMatch .beg e' s = true → e'.key.length ≤ e.key.length) := by
  cases t with
  | exact =>
    rw [lookupFile_exact, Option.map_eq_some_iff] at h
    obtain ⟨e, hf, rfl⟩ := h
    have hm := mem_of_find?_eq_some hf
    have hp := find?_some hf
    exact ⟨e, mem_sortBy.1 hm, rfl, by simpa [entMatch] using hp, by simp, by simp⟩
  | pfx =>
    rw [lookupFile_pfx, Option.map_eq_some_iff] at h
    obtain ⟨e, hf, rfl⟩ := h
    have hm := mem_of_find?_eq_some hf
    obtain ⟨hp, as, bs, hl, has⟩ := find?_eq_some_iff_append.1 hf
    refine ⟨e, mem_sortBy.1 hm, rfl, hp, ?_, by simp⟩
    intro _ hK e' he' hm'
    have hs := sortBy_sorted fileLt_pfx_strict E hK
    refine sorted_first hs hl (fileLt_pfx_irrefl e) (mem_sortBy.2 he') ?_
    intro hin
    have := has e' hin
    simp only [entMatch] at hm'
    simp [hm'] at this
  | beg =>
    rw [lookupFile_beg, Option.map_eq_some_iff] at h
    obtain ⟨b, hf, rfl⟩ := h
    obtain ⟨h1, h2, _⟩ := begFold_some _ _ _ _ hf
    rcases h1 with h1 | ⟨h1, h1'⟩
    · cases h1
    · obtain ⟨e, he, rfl⟩ := mem_map.1 h1
      refine ⟨e, mem_sortBy.1 he, rfl, h1', by simp, ?_⟩
      intro _ e' he' hm'
      exact h2 (e'.key, e'.target) (mem_map.2 ⟨e', mem_sortBy.2 he', rfl⟩) hm'

end HapVerif.C04
