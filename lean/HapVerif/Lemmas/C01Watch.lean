import HapVerif.Lemmas.C01Eq
/-
The watchers model builds batches that describe the change of the cluster: the hypothesis `Describes` of the
step theorems holds for the batch `applyOp` accumulates between two reconciliations (unless the batch asks
for a full sync). Unique ingress keys are preserved.
-/
set_option linter.unusedSectionVars false
set_option linter.unusedSimpArgs false
set_option linter.unusedVariables false
namespace HapVerif.C01

/-! ### keyed lists -/

theorem find_replaceBy {β : Type} (key : β → String) (x : β) (l : List β) (k : String) :
    (replaceBy key x l).find? (fun y => decide (key y = k)) =
      if k = key x then some x else l.find? (fun y => decide (key y = k)) := by
  induction l with
  | nil =>
    by_cases hx : k = key x
    · simp [replaceBy, hx]
    · have : ¬ key x = k := fun e => hx e.symm
      simp [replaceBy, hx, this]
  | cons y l ih =>
    unfold replaceBy
    by_cases hy : key y = key x
    · simp only [hy, if_true]
      by_cases hx : k = key x
      · simp [hx]
      · have h1 : ¬ key x = k := fun e => hx e.symm
        have h2 : ¬ key y = k := by rw [hy]; exact h1
        rw [List.find?_cons_of_neg (by simpa using h1), List.find?_cons_of_neg (by simpa using h2)]
        simp [hx]
    · simp only [hy, if_false]
      by_cases hyk : key y = k
      · have : ¬ k = key x := by rw [← hyk]; exact hy
        rw [List.find?_cons_of_pos (by simpa using hyk), List.find?_cons_of_pos (by simpa using hyk)]
        simp [this]
      · rw [List.find?_cons_of_neg (by simpa using hyk), List.find?_cons_of_neg (by simpa using hyk)]
        exact ih

theorem find_filter_ne {β : Type} (key : β → String) (k0 : String) (l : List β) (k : String) :
    (l.filter (fun y => decide (key y ≠ k0))).find? (fun y => decide (key y = k)) =
      if k = k0 then none else l.find? (fun y => decide (key y = k)) := by
  induction l with
  | nil => simp
  | cons y l ih =>
    by_cases hy : key y = k0
    · rw [List.filter_cons_of_neg (by simpa using hy), ih]
      by_cases hk : k = k0
      · simp [hk]
      · have : ¬ key y = k := by rw [hy]; exact fun e => hk e.symm
        rw [List.find?_cons_of_neg (by simpa using this)]
    · rw [List.filter_cons_of_pos (by simpa using hy)]
      by_cases hyk : key y = k
      · have : ¬ k = k0 := by rw [← hyk]; exact hy
        rw [List.find?_cons_of_pos (by simpa using hyk), List.find?_cons_of_pos (by simpa using hyk)]
        simp [this]
      · rw [List.find?_cons_of_neg (by simpa using hyk), List.find?_cons_of_neg (by simpa using hyk)]
        exact ih

theorem find_append_new {β : Type} (key : β → String) (x : β) (l : List β) (k : String)
    (hnew : l.find? (fun y => decide (key y = key x)) = none) :
    (l ++ [x]).find? (fun y => decide (key y = k)) =
      if k = key x then some x else l.find? (fun y => decide (key y = k)) := by
  rw [List.find?_append]
  by_cases hk : k = key x
  · subst hk
    simp [hnew]
  · have : ¬ key x = k := fun e => hk e.symm
    simp [hk, this]
    cases l.find? (fun y => decide (key y = k)) <;> simp

theorem mem_map_key_of_find {β : Type} (key : β → String) (l : List β) (k : String)
    (h : l.find? (fun y => decide (key y = k)) = none) : k ∉ l.map key := by
  intro hm
  obtain ⟨y, hy, hk⟩ := List.mem_map.mp hm
  have := List.find?_eq_none.mp h y hy
  simp [hk] at this

theorem nodup_replaceBy {β : Type} (key : β → String) (x : β) (l : List β) (h : (l.map key).Nodup) :
    ((replaceBy key x l).map key).Nodup := by
  induction l with
  | nil => simp [replaceBy]
  | cons y l ih =>
    unfold replaceBy
    simp only [List.map_cons, List.nodup_cons] at h
    by_cases hy : key y = key x
    · simp only [hy, if_true, List.map_cons, List.nodup_cons]
      exact ⟨hy ▸ h.1, h.2⟩
    · simp only [hy, if_false, List.map_cons, List.nodup_cons]
      refine ⟨?_, ih h.2⟩
      intro hm
      obtain ⟨z, hz, hzk⟩ := List.mem_map.mp hm
      -- z is x or an element of l
      have : z = x ∨ z ∈ l := by
        clear ih h hm hzk
        induction l with
        | nil => simp [replaceBy] at hz; exact Or.inl hz
        | cons a l ih2 =>
          unfold replaceBy at hz
          by_cases ha : key a = key x
          · simp only [ha, if_true, List.mem_cons] at hz
            rcases hz with hz | hz
            · exact Or.inl hz
            · exact Or.inr (List.mem_cons_of_mem _ hz)
          · simp only [ha, if_false, List.mem_cons] at hz
            rcases hz with hz | hz
            · exact Or.inr (hz ▸ List.mem_cons_self ..)
            · rcases ih2 hz with h | h
              · exact Or.inl h
              · exact Or.inr (List.mem_cons_of_mem _ h)
      rcases this with hzx | hzl
      · rw [hzx] at hzk; exact hy hzk.symm
      · exact h.1 (hzk ▸ List.mem_map_of_mem (f := key) hzl)

/-! ### one operation -/

theorem mem_addLink {b : Batch} {n m : Node} : m ∈ (addLink b n).links ↔ m ∈ b.links ∨ m = n := by
  unfold addLink
  by_cases h : n ∈ b.links
  · simp only [h, if_true]
    constructor
    · exact Or.inl
    · rintro (h1 | h1)
      · exact h1
      · rw [h1]; exact h
  · simp [h]

theorem addLink_fields (b : Batch) (n : Node) :
    (addLink b n).add = b.add ∧ (addLink b n).upd = b.upd ∧ (addLink b n).del = b.del ∧
      (addLink b n).full = b.full := by
  unfold addLink
  split <;> simp

theorem valid_congr {w w' : World} (h : w'.clss = w.clss) (i : Ingress) : w'.valid i = w.valid i := by
  unfold World.valid World.findCls
  rw [h]

theorem validIng_congr {w w' : World} (h1 : w'.ings = w.ings) (h2 : w'.clss = w.clss) (k : String) :
    w'.validIng k = w.validIng k := by
  unfold World.validIng World.findIng
  rw [h1]
  cases w.ings.find? (fun x => decide (x.key = k)) with
  | none => rfl
  | some i => simp [Option.filter, valid_congr h2]

theorem read_congr {w w' : World} (h1 : w'.svcs = w.svcs) (h2 : w'.eps = w.eps) (h3 : w'.secs = w.secs)
    (n : Node) : w'.read n = w.read n := by
  unfold World.read World.findSvc World.findEp World.findSec
  rw [h1, h2, h3]

/-- the accumulated batch describes the change from the cluster `w` of the previous sync to the current
cluster `wk` — as long as no event asked for a full sync -/
structure Acc (w wk : World) (bk : Batch) : Prop where
  obj : ∀ n : Node, w.read n ≠ wk.read n → n ∈ bk.links
  ing : ∀ k, w.validIng k ≠ wk.validIng k → (⟨.ing, k⟩ : Node) ∈ bk.links
  carried : ∀ k i, (⟨.ing, k⟩ : Node) ∈ bk.links → wk.validIng k = some i → i ∈ bk.add ∨ i ∈ bk.upd
  events : ∀ i, i ∈ bk.add ∨ i ∈ bk.upd → (⟨.ing, i.key⟩ : Node) ∈ bk.links
  del : ∀ k ∈ bk.del, (⟨.ing, k⟩ : Node) ∈ bk.links

theorem acc_init (w : World) : Acc w w {} := by
  refine ⟨?_, ?_, ?_, ?_, ?_⟩ <;> intros <;> simp_all

/-- operations that touch neither ingresses nor classes: only the changed object has to be linked -/
theorem acc_other {w wk wk' : World} {bk bk' : Batch} (ha : Acc w wk bk)
    (hings : wk'.ings = wk.ings) (hcls : wk'.clss = wk.clss)
    (hlinks : ∀ n ∈ bk.links, n ∈ bk'.links)
    (hadd : bk'.add = bk.add) (hupd : bk'.upd = bk.upd) (hdel : bk'.del = bk.del)
    (hnew : ∀ n, (⟨.ing, n⟩ : Node) ∈ bk'.links → (⟨.ing, n⟩ : Node) ∈ bk.links)
    (hch : ∀ n, wk.read n ≠ wk'.read n → n ∈ bk'.links) : Acc w wk' bk' := by
  have hv := validIng_congr hings hcls
  refine ⟨?_, ?_, ?_, ?_, ?_⟩
  · intro n hn
    by_cases h : wk.read n = wk'.read n
    · exact hlinks n (ha.obj n (by rw [h]; exact hn))
    · exact hch n h
  · intro k hk
    rw [hv] at hk
    exact hlinks _ (ha.ing k hk)
  · intro k i hl hvi
    rw [hv] at hvi
    rw [hadd, hupd]
    exact ha.carried k i (hnew k hl) hvi
  · intro i hi
    rw [hadd, hupd] at hi
    exact hlinks _ (ha.events i hi)
  · intro k hk
    rw [hdel] at hk
    exact hlinks _ (ha.del k hk)

theorem findIng_eq (w : World) (k : String) : w.findIng k = w.ings.find? (fun x => decide (x.key = k)) := rfl

/-- LEMMA W: one operation preserves `Acc` (unless it asks for a full sync) and unique keys -/
theorem acc_step {w wk : World} {bk : Batch} (op : Op) (ha : Acc w wk bk) (hwf : wk.WF)
    (hfull : (applyOp (wk, bk) op).2.full = false) :
    Acc w (applyOp (wk, bk) op).1 (applyOp (wk, bk) op).2 ∧ (applyOp (wk, bk) op).1.WF := by
  cases op with
  | ingSet i0 =>
    unfold applyOp at hfull ⊢
    simp only [] at hfull ⊢
    cases hf : wk.findIng i0.key with
    | none =>
      simp only [hf] at hfull ⊢
      have hfind : ∀ k, ({ wk with ings := wk.ings ++ [i0] } : World).findIng k =
          if k = i0.key then some i0 else wk.findIng k := by
        intro k
        rw [findIng_eq, findIng_eq]
        exact find_append_new Ingress.key i0 wk.ings k (by rw [← findIng_eq]; exact hf)
      have hvalid : ∀ i, ({ wk with ings := wk.ings ++ [i0] } : World).valid i = wk.valid i :=
        fun i => valid_congr rfl i
      have hwf' : ({ wk with ings := wk.ings ++ [i0] } : World).WF := by
        unfold World.WF at *
        simp only [List.map_append, List.map_cons, List.map_nil]
        rw [List.nodup_append]
        refine ⟨hwf, by simp, ?_⟩
        intro a ha' b hb
        simp at hb
        subst hb
        exact fun e => mem_map_key_of_find Ingress.key wk.ings i0.key (by rw [← findIng_eq]; exact hf) (e ▸ ha')
      have hvi : ∀ k, ({ wk with ings := wk.ings ++ [i0] } : World).validIng k =
          if k = i0.key then (if wk.valid i0 then some i0 else none) else wk.validIng k := by
        intro k
        unfold World.validIng
        rw [hfind]
        by_cases hk : k = i0.key
        · simp [hk, Option.filter, hvalid]
        · simp only [hk, if_false]
          cases wk.findIng k with
          | none => rfl
          | some j => simp [Option.filter, hvalid]
      have hold : wk.validIng i0.key = none := by
        unfold World.validIng; rw [hf]; rfl
      by_cases hv : ({ wk with ings := wk.ings ++ [i0] } : World).valid i0 = true
      · simp only [hv, if_true] at hfull ⊢
        have hv0 : wk.valid i0 = true := by rw [← hvalid]; exact hv
        refine ⟨⟨?_, ?_, ?_, ?_, ?_⟩, hwf'⟩
        · intro n hn
          exact mem_addLink.mpr (Or.inl (ha.obj n hn))
        · intro k hk
          rw [hvi] at hk
          by_cases hke : k = i0.key
          · exact mem_addLink.mpr (Or.inr (by rw [hke]))
          · simp only [hke, if_false] at hk
            exact mem_addLink.mpr (Or.inl (ha.ing k hk))
        · intro k i hl hvk
          rw [hvi] at hvk
          simp only [(addLink_fields bk _).2.1]
          by_cases hke : k = i0.key
          · simp [hke, hv0] at hvk
            left; simp [hvk]
          · simp only [hke, if_false] at hvk
            rcases mem_addLink.mp hl with hl | hl
            · rcases ha.carried k i hl hvk with h | h
              · left; simp [(addLink_fields bk _).1, h]
              · right; exact h
            · exact absurd (by injection hl) hke
        · intro i hi
          simp only [(addLink_fields bk _).2.1] at hi
          rcases hi with hi | hi
          · simp only [List.mem_append, (addLink_fields bk _).1] at hi
            rcases hi with hi | hi
            · exact mem_addLink.mpr (Or.inl (ha.events i (Or.inl hi)))
            · simp at hi; subst hi; exact mem_addLink.mpr (Or.inr rfl)
          · exact mem_addLink.mpr (Or.inl (ha.events i (Or.inr hi)))
        · intro k hk
          simp only [(addLink_fields bk _).2.2.1] at hk
          exact mem_addLink.mpr (Or.inl (ha.del k hk))
      · simp only [hv] at hfull ⊢
        have hv0 : wk.valid i0 = false := by
          rw [← hvalid]; simpa using hv
        refine ⟨⟨ha.obj, ?_, ?_, ha.events, ha.del⟩, hwf'⟩
        · intro k hk
          rw [hvi] at hk
          by_cases hke : k = i0.key
          · simp [hke, hv0, hold] at hk
          · simp only [hke, if_false] at hk
            exact ha.ing k hk
        · intro k i hl hvk
          rw [hvi] at hvk
          by_cases hke : k = i0.key
          · simp [hke, hv0] at hvk
          · simp only [hke, if_false] at hvk
            exact ha.carried k i hl hvk
    | some old =>
      simp only [hf] at hfull ⊢
      have holdk : old.key = i0.key := by
        have := List.find?_some (by rw [← findIng_eq]; exact hf : wk.ings.find? _ = some old)
        simpa using this
      generalize hi : ({ i0 with created := old.created } : Ingress) = i at hfull ⊢
      have hik : i.key = i0.key := by rw [← hi]; rfl
      have hfind : ∀ k, ({ wk with ings := replaceBy Ingress.key i wk.ings } : World).findIng k =
          if k = i.key then some i else wk.findIng k := by
        intro k
        rw [findIng_eq, findIng_eq]
        exact find_replaceBy Ingress.key i wk.ings k
      have hvalid : ∀ j, ({ wk with ings := replaceBy Ingress.key i wk.ings } : World).valid j = wk.valid j :=
        fun j => valid_congr rfl j
      have hwf' : ({ wk with ings := replaceBy Ingress.key i wk.ings } : World).WF :=
        nodup_replaceBy Ingress.key i wk.ings hwf
      have hvi : ∀ k, ({ wk with ings := replaceBy Ingress.key i wk.ings } : World).validIng k =
          if k = i.key then (if wk.valid i then some i else none) else wk.validIng k := by
        intro k
        unfold World.validIng
        rw [hfind]
        by_cases hk : k = i.key
        · simp [hk, Option.filter, hvalid]
        · simp only [hk, if_false]
          cases wk.findIng k with
          | none => rfl
          | some j => simp [Option.filter, hvalid]
      have hold : wk.validIng i.key = if wk.valid old then some old else none := by
        unfold World.validIng; rw [hik, hf]; simp [Option.filter]
      rw [hvalid, hvalid] at hfull ⊢
      cases hov : wk.valid old <;> cases hnv : wk.valid i
      · -- neither valid: nothing recorded, nothing changed
        simp only [hov, hnv, Bool.or_self, Bool.false_eq_true, if_false] at hfull ⊢
        refine ⟨⟨ha.obj, ?_, ?_, ha.events, ha.del⟩, hwf'⟩
        · intro k hk
          rw [hvi] at hk
          by_cases hke : k = i.key
          · simp [hke, hnv, hold, hov] at hk
          · simp only [hke, if_false] at hk
            exact ha.ing k hk
        · intro k j hl hvk
          rw [hvi] at hvk
          by_cases hke : k = i.key
          · simp [hke, hnv] at hvk
          · simp only [hke, if_false] at hvk
            exact ha.carried k j hl hvk
      · -- becomes valid: add
        simp only [hov, hnv, Bool.false_or, if_true, Bool.false_and, Bool.false_eq_true, if_false] at hfull ⊢
        refine ⟨⟨?_, ?_, ?_, ?_, ?_⟩, hwf'⟩
        · intro n hn; exact mem_addLink.mpr (Or.inl (ha.obj n hn))
        · intro k hk
          rw [hvi] at hk
          by_cases hke : k = i.key
          · exact mem_addLink.mpr (Or.inr (by rw [hke]))
          · simp only [hke, if_false] at hk
            exact mem_addLink.mpr (Or.inl (ha.ing k hk))
        · intro k j hl hvk
          rw [hvi] at hvk
          simp only [(addLink_fields bk _).2.1]
          by_cases hke : k = i.key
          · simp [hke, hnv] at hvk
            left; simp [hvk]
          · simp only [hke, if_false] at hvk
            rcases mem_addLink.mp hl with hl | hl
            · rcases ha.carried k j hl hvk with h | h
              · left; simp [(addLink_fields bk _).1, h]
              · right; exact h
            · exact absurd (by injection hl) hke
        · intro j hj
          simp only [(addLink_fields bk _).2.1] at hj
          rcases hj with hj | hj
          · simp only [List.mem_append, (addLink_fields bk _).1] at hj
            rcases hj with hj | hj
            · exact mem_addLink.mpr (Or.inl (ha.events j (Or.inl hj)))
            · simp at hj; subst hj; exact mem_addLink.mpr (Or.inr rfl)
          · exact mem_addLink.mpr (Or.inl (ha.events j (Or.inr hj)))
        · intro k hk
          simp only [(addLink_fields bk _).2.2.1] at hk
          exact mem_addLink.mpr (Or.inl (ha.del k hk))
      · -- no longer valid: del
        simp only [hov, hnv, Bool.or_false, if_true, Bool.and_false, Bool.false_eq_true, if_false] at hfull ⊢
        refine ⟨⟨?_, ?_, ?_, ?_, ?_⟩, hwf'⟩
        · intro n hn; exact mem_addLink.mpr (Or.inl (ha.obj n hn))
        · intro k hk
          rw [hvi] at hk
          by_cases hke : k = i.key
          · exact mem_addLink.mpr (Or.inr (by rw [hke]))
          · simp only [hke, if_false] at hk
            exact mem_addLink.mpr (Or.inl (ha.ing k hk))
        · intro k j hl hvk
          rw [hvi] at hvk
          simp only [(addLink_fields bk _).1, (addLink_fields bk _).2.1]
          by_cases hke : k = i.key
          · simp [hke, hnv] at hvk
          · simp only [hke, if_false] at hvk
            rcases mem_addLink.mp hl with hl | hl
            · exact ha.carried k j hl hvk
            · exact absurd (by injection hl) hke
        · intro j hj
          simp only [(addLink_fields bk _).1, (addLink_fields bk _).2.1] at hj
          exact mem_addLink.mpr (Or.inl (ha.events j hj))
        · intro k hk
          simp only [List.mem_append, (addLink_fields bk _).2.2.1] at hk
          rcases hk with hk | hk
          · exact mem_addLink.mpr (Or.inl (ha.del k hk))
          · simp at hk; subst hk; exact mem_addLink.mpr (Or.inr (by rw [holdk, hik]))
      · -- stays valid: upd
        simp only [hov, hnv, Bool.or_self, if_true, Bool.and_self] at hfull ⊢
        refine ⟨⟨?_, ?_, ?_, ?_, ?_⟩, hwf'⟩
        · intro n hn; exact mem_addLink.mpr (Or.inl (ha.obj n hn))
        · intro k hk
          rw [hvi] at hk
          by_cases hke : k = i.key
          · exact mem_addLink.mpr (Or.inr (by rw [hke]))
          · simp only [hke, if_false] at hk
            exact mem_addLink.mpr (Or.inl (ha.ing k hk))
        · intro k j hl hvk
          rw [hvi] at hvk
          simp only [(addLink_fields bk _).1]
          by_cases hke : k = i.key
          · simp [hke, hnv] at hvk
            right; simp [hvk]
          · simp only [hke, if_false] at hvk
            rcases mem_addLink.mp hl with hl | hl
            · rcases ha.carried k j hl hvk with h | h
              · left; exact h
              · right; simp [(addLink_fields bk _).2.1, h]
            · exact absurd (by injection hl) hke
        · intro j hj
          simp only [(addLink_fields bk _).1] at hj
          rcases hj with hj | hj
          · exact mem_addLink.mpr (Or.inl (ha.events j (Or.inl hj)))
          · simp only [List.mem_append, (addLink_fields bk _).2.1] at hj
            rcases hj with hj | hj
            · exact mem_addLink.mpr (Or.inl (ha.events j (Or.inr hj)))
            · simp at hj; subst hj; exact mem_addLink.mpr (Or.inr rfl)
        · intro k hk
          simp only [(addLink_fields bk _).2.2.1] at hk
          exact mem_addLink.mpr (Or.inl (ha.del k hk))
  | ingDel k0 =>
    unfold applyOp at hfull ⊢
    simp only [] at hfull ⊢
    cases hf : wk.findIng k0 with
    | none => simp only [hf] at hfull ⊢; exact ⟨ha, hwf⟩
    | some old =>
      simp only [hf] at hfull ⊢
      have holdk : old.key = k0 := by
        have := List.find?_some (by rw [← findIng_eq]; exact hf : wk.ings.find? _ = some old)
        simpa using this
      have hfind : ∀ k, ({ wk with ings := wk.ings.filter (·.key ≠ k0) } : World).findIng k =
          if k = k0 then none else wk.findIng k := by
        intro k
        rw [findIng_eq, findIng_eq]
        exact find_filter_ne Ingress.key k0 wk.ings k
      have hvalid : ∀ j, ({ wk with ings := wk.ings.filter (·.key ≠ k0) } : World).valid j = wk.valid j :=
        fun j => valid_congr rfl j
      have hwf' : ({ wk with ings := wk.ings.filter (·.key ≠ k0) } : World).WF := by
        unfold World.WF at *
        exact hwf.sublist (List.Sublist.map _ List.filter_sublist)
      have hvi : ∀ k, ({ wk with ings := wk.ings.filter (·.key ≠ k0) } : World).validIng k =
          if k = k0 then none else wk.validIng k := by
        intro k
        unfold World.validIng
        rw [hfind]
        by_cases hk : k = k0
        · simp [hk, Option.filter]
        · simp only [hk, if_false]
          cases wk.findIng k with
          | none => rfl
          | some j => simp [Option.filter, hvalid]
      have hold : wk.validIng k0 = if wk.valid old then some old else none := by
        unfold World.validIng; rw [hf]; simp [Option.filter]
      rw [hvalid] at hfull ⊢
      cases hov : wk.valid old
      · simp only [hov, Bool.false_eq_true, if_false] at hfull ⊢
        refine ⟨⟨ha.obj, ?_, ?_, ha.events, ha.del⟩, hwf'⟩
        · intro k hk
          rw [hvi] at hk
          by_cases hke : k = k0
          · simp [hke, hold, hov] at hk
          · simp only [hke, if_false] at hk
            exact ha.ing k hk
        · intro k j hl hvk
          rw [hvi] at hvk
          by_cases hke : k = k0
          · simp [hke] at hvk
          · simp only [hke, if_false] at hvk
            exact ha.carried k j hl hvk
      · simp only [hov, if_true] at hfull ⊢
        refine ⟨⟨?_, ?_, ?_, ?_, ?_⟩, hwf'⟩
        · intro n hn; exact mem_addLink.mpr (Or.inl (ha.obj n hn))
        · intro k hk
          rw [hvi] at hk
          by_cases hke : k = k0
          · exact mem_addLink.mpr (Or.inr (by rw [hke]))
          · simp only [hke, if_false] at hk
            exact mem_addLink.mpr (Or.inl (ha.ing k hk))
        · intro k j hl hvk
          rw [hvi] at hvk
          simp only [(addLink_fields bk _).1, (addLink_fields bk _).2.1]
          by_cases hke : k = k0
          · simp [hke] at hvk
          · simp only [hke, if_false] at hvk
            rcases mem_addLink.mp hl with hl | hl
            · exact ha.carried k j hl hvk
            · exact absurd (by injection hl) hke
        · intro j hj
          simp only [(addLink_fields bk _).1, (addLink_fields bk _).2.1] at hj
          exact mem_addLink.mpr (Or.inl (ha.events j hj))
        · intro k hk
          simp only [List.mem_append, (addLink_fields bk _).2.2.1] at hk
          rcases hk with hk | hk
          · exact mem_addLink.mpr (Or.inl (ha.del k hk))
          · simp at hk; subst hk; exact mem_addLink.mpr (Or.inr rfl)
  | svcSet s =>
    unfold applyOp at hfull ⊢
    simp only [] at hfull ⊢
    refine ⟨acc_other ha rfl rfl (fun n hn => mem_addLink.mpr (Or.inl hn)) (addLink_fields _ _).1
      (addLink_fields _ _).2.1 (addLink_fields _ _).2.2.1 ?_ ?_, hwf⟩
    · intro n hn
      rcases mem_addLink.mp hn with h | h
      · exact h
      · cases h
    · intro n hn
      apply mem_addLink.mpr
      by_cases hk : n = ⟨.svc, s.key⟩
      · exact Or.inr hk
      · exfalso
        apply hn
        obtain ⟨kd, nm⟩ := n
        cases kd <;> simp only [World.read]
        · -- svc
          have : nm ≠ s.key := fun e => hk (by rw [e])
          unfold World.findSvc
          simp only []
          rw [find_replaceBy Service.key s wk.svcs nm]
          simp [this]
  | svcDel k0 =>
    unfold applyOp at hfull ⊢
    simp only [] at hfull ⊢
    cases hf : wk.findSvc k0 with
    | none => simp only [hf] at hfull ⊢; exact ⟨ha, hwf⟩
    | some sv =>
      simp only [hf] at hfull ⊢
      refine ⟨acc_other ha rfl rfl ?_ ?_ ?_ ?_ ?_ ?_, hwf⟩
      · intro n hn
        split
        · exact mem_addLink.mpr (Or.inl (mem_addLink.mpr (Or.inl hn)))
        · exact mem_addLink.mpr (Or.inl hn)
      · split <;> simp [(addLink_fields _ _).1]
      · split <;> simp [(addLink_fields _ _).2.1]
      · split <;> simp [(addLink_fields _ _).2.2.1]
      · intro n hn
        split at hn
        · rcases mem_addLink.mp hn with h | h
          · rcases mem_addLink.mp h with h | h
            · exact h
            · cases h
          · cases h
        · rcases mem_addLink.mp hn with h | h
          · exact h
          · cases h
      · intro n hn
        obtain ⟨kd, nm⟩ := n
        by_cases hnm : nm = k0
        · subst hnm
          cases kd <;> simp only [World.read] at hn <;> try exact absurd rfl hn
          · -- svc
            split
            · exact mem_addLink.mpr (Or.inl (mem_addLink.mpr (Or.inr rfl)))
            · exact mem_addLink.mpr (Or.inr rfl)
          · -- ep
            rename_i hep
            split
            · exact mem_addLink.mpr (Or.inr rfl)
            · rename_i hne
              exfalso
              apply hn
              unfold World.findEp at hne ⊢
              simp only []
              rw [find_filter_ne Endpoints.key nm wk.eps nm]
              simp at hne
              simp [hne]
        · exfalso
          apply hn
          cases kd <;> simp only [World.read]
          · unfold World.findSvc
            simp only []
            rw [find_filter_ne Service.key k0 wk.svcs nm]
            simp [hnm]
          · unfold World.findEp
            simp only []
            rw [find_filter_ne Endpoints.key k0 wk.eps nm]
            simp [hnm]
  | epSet k0 ready notReady =>
    unfold applyOp at hfull ⊢
    simp only [] at hfull ⊢
    generalize he : (if (ready.isEmpty && notReady.isEmpty) = true then (⟨k0, [], [], []⟩ : Endpoints)
      else ⟨k0, ready, notReady, match wk.findSvc k0 with
        | some s => s.ports.map fun p => (p.name, numericTarget p.target)
        | none => []⟩) = e at hfull ⊢
    have hek : e.key = k0 := by rw [← he]; split <;> rfl
    have hread : ∀ n : Node, n ≠ ⟨.ep, k0⟩ →
        wk.read n = ({ wk with eps := replaceBy Endpoints.key e wk.eps } : World).read n := by
      intro n hn
      obtain ⟨kd, nm⟩ := n
      cases kd <;> simp only [World.read]
      have : nm ≠ e.key := fun e' => hn (by rw [e', hek])
      unfold World.findEp
      simp only []
      rw [find_replaceBy Endpoints.key e wk.eps nm]
      simp [this]
    cases hf : wk.findEp k0 with
    | none =>
      simp only [hf] at hfull ⊢
      refine ⟨acc_other ha rfl rfl (fun n hn => mem_addLink.mpr (Or.inl hn)) (addLink_fields _ _).1
        (addLink_fields _ _).2.1 (addLink_fields _ _).2.2.1 ?_ ?_, hwf⟩
      · intro n hn
        rcases mem_addLink.mp hn with h | h
        · exact h
        · cases h
      · intro n hn
        by_cases hk : n = ⟨.ep, k0⟩
        · exact mem_addLink.mpr (Or.inr hk)
        · exact absurd (hread n hk) hn
    | some old =>
      simp only [hf] at hfull ⊢
      by_cases hoe : old = e
      · simp only [hoe, if_true] at hfull ⊢
        refine ⟨acc_other ha rfl rfl (fun n hn => hn) rfl rfl rfl (fun n hn => hn) ?_, hwf⟩
        intro n hn
        by_cases hk : n = ⟨.ep, k0⟩
        · exfalso
          apply hn
          subst hk
          simp only [World.read]
          unfold World.findEp at hf ⊢
          simp only []
          rw [find_replaceBy Endpoints.key e wk.eps k0, hf, hoe]
          simp [hek]
        · exact absurd (hread n hk) hn
      · simp only [hoe, if_false] at hfull ⊢
        refine ⟨acc_other ha rfl rfl (fun n hn => mem_addLink.mpr (Or.inl hn)) (addLink_fields _ _).1
          (addLink_fields _ _).2.1 (addLink_fields _ _).2.2.1 ?_ ?_, hwf⟩
        · intro n hn
          rcases mem_addLink.mp hn with h | h
          · exact h
          · cases h
        · intro n hn
          by_cases hk : n = ⟨.ep, k0⟩
          · exact mem_addLink.mpr (Or.inr hk)
          · exact absurd (hread n hk) hn
  | epDel k0 =>
    unfold applyOp at hfull ⊢
    simp only [] at hfull ⊢
    cases hf : wk.findEp k0 with
    | none => simp only [hf] at hfull ⊢; exact ⟨ha, hwf⟩
    | some old =>
      simp only [hf] at hfull ⊢
      refine ⟨acc_other ha rfl rfl (fun n hn => mem_addLink.mpr (Or.inl hn)) (addLink_fields _ _).1
        (addLink_fields _ _).2.1 (addLink_fields _ _).2.2.1 ?_ ?_, hwf⟩
      · intro n hn
        rcases mem_addLink.mp hn with h | h
        · exact h
        · cases h
      · intro n hn
        by_cases hk : n = ⟨.ep, k0⟩
        · exact mem_addLink.mpr (Or.inr hk)
        · exfalso
          apply hn
          obtain ⟨kd, nm⟩ := n
          cases kd <;> simp only [World.read]
          have : nm ≠ k0 := fun e' => hk (by rw [e'])
          unfold World.findEp
          simp only []
          rw [find_filter_ne Endpoints.key k0 wk.eps nm]
          simp [this]
  | secSet s =>
    unfold applyOp at hfull ⊢
    simp only [] at hfull ⊢
    refine ⟨acc_other ha rfl rfl (fun n hn => mem_addLink.mpr (Or.inl hn)) (addLink_fields _ _).1
      (addLink_fields _ _).2.1 (addLink_fields _ _).2.2.1 ?_ ?_, hwf⟩
    · intro n hn
      rcases mem_addLink.mp hn with h | h
      · exact h
      · cases h
    · intro n hn
      by_cases hk : n = ⟨.sec, s.key⟩
      · exact mem_addLink.mpr (Or.inr hk)
      · exfalso
        apply hn
        obtain ⟨kd, nm⟩ := n
        cases kd <;> simp only [World.read]
        have : nm ≠ s.key := fun e' => hk (by rw [e'])
        unfold World.findSec
        simp only []
        rw [find_replaceBy Secret.key s wk.secs nm]
        simp [this]
  | secDel k0 =>
    unfold applyOp at hfull ⊢
    simp only [] at hfull ⊢
    cases hf : wk.findSec k0 with
    | none => simp only [hf] at hfull ⊢; exact ⟨ha, hwf⟩
    | some old =>
      simp only [hf] at hfull ⊢
      refine ⟨acc_other ha rfl rfl (fun n hn => mem_addLink.mpr (Or.inl hn)) (addLink_fields _ _).1
        (addLink_fields _ _).2.1 (addLink_fields _ _).2.2.1 ?_ ?_, hwf⟩
      · intro n hn
        rcases mem_addLink.mp hn with h | h
        · exact h
        · cases h
      · intro n hn
        by_cases hk : n = ⟨.sec, k0⟩
        · exact mem_addLink.mpr (Or.inr hk)
        · exfalso
          apply hn
          obtain ⟨kd, nm⟩ := n
          cases kd <;> simp only [World.read]
          have : nm ≠ k0 := fun e' => hk (by rw [e'])
          unfold World.findSec
          simp only []
          rw [find_filter_ne Secret.key k0 wk.secs nm]
          simp [this]
  | clsSet n c =>
    unfold applyOp at hfull ⊢
    simp only [] at hfull ⊢
    by_cases hv : ((wk.findCls n == some ourController) || (c == ourController)) = true
    · simp only [hv, if_true] at hfull
      simp at hfull
    · simp only [hv] at hfull ⊢
      simp only [Bool.or_eq_true, not_or, Bool.not_eq_true] at hv
      -- neither the old nor the new class is ours: no ingress changes validity
      have hvalid : ∀ i, ({ wk with clss := replaceBy (·.1) (n, c) wk.clss } : World).valid i = wk.valid i := by
        intro i
        unfold World.valid World.findCls
        simp only []
        cases i.classAnn with
        | some a => rfl
        | none =>
          cases i.className with
          | none => rfl
          | some cn =>
            simp only []
            rw [find_replaceBy (fun x : String × String => x.1) (n, c) wk.clss cn]
            by_cases hcn : cn = n
            · subst hcn
              have h1 := hv.1
              have h2 := hv.2
              unfold World.findCls at h1
              simp at h1 h2 ⊢
              cases hfc : wk.clss.find? (fun x => decide (x.1 = cn)) with
              | none => simp [h2]
              | some q => simp [hfc] at h1; simp [h2, h1]
            · simp [hcn]
      have hvi : ∀ k, ({ wk with clss := replaceBy (·.1) (n, c) wk.clss } : World).validIng k = wk.validIng k := by
        intro k
        unfold World.validIng World.findIng
        simp only []
        cases wk.ings.find? (fun x => decide (x.key = k)) with
        | none => rfl
        | some j => simp [Option.filter, hvalid]
      refine ⟨⟨?_, ?_, ?_, ha.events, ha.del⟩, hwf⟩
      · intro m hm; exact ha.obj m (by simpa [World.read, World.findSvc, World.findEp, World.findSec] using hm)
      · intro k hk; rw [hvi] at hk; exact ha.ing k hk
      · intro k j hl hvk; rw [hvi] at hvk; exact ha.carried k j hl hvk
  | clsDel n =>
    unfold applyOp at hfull ⊢
    simp only [] at hfull ⊢
    cases hf : wk.findCls n with
    | none => simp only [hf] at hfull ⊢; exact ⟨ha, hwf⟩
    | some c =>
      simp only [hf] at hfull ⊢
      by_cases hv : (c == ourController) = true
      · simp only [hv, if_true] at hfull
        simp at hfull
      · simp only [hv] at hfull ⊢
        have hvalid : ∀ i, ({ wk with clss := wk.clss.filter (·.1 ≠ n) } : World).valid i = wk.valid i := by
          intro i
          unfold World.valid World.findCls
          simp only []
          cases i.classAnn with
          | some a => rfl
          | none =>
            cases i.className with
            | none => rfl
            | some cn =>
              simp only []
              rw [find_filter_ne (fun x : String × String => x.1) n wk.clss cn]
              by_cases hcn : cn = n
              · subst hcn
                unfold World.findCls at hf
                cases hfc : wk.clss.find? (fun x => decide (x.1 = cn)) with
                | none => simp
                | some q =>
                  simp [hfc] at hf
                  simp at hv
                  simp [hf, hv]
              · simp [hcn]
        have hvi : ∀ k, ({ wk with clss := wk.clss.filter (·.1 ≠ n) } : World).validIng k = wk.validIng k := by
          intro k
          unfold World.validIng World.findIng
          simp only []
          cases wk.ings.find? (fun x => decide (x.key = k)) with
          | none => rfl
          | some j => simp [Option.filter, hvalid]
        refine ⟨⟨?_, ?_, ?_, ha.events, ha.del⟩, hwf⟩
        · intro m hm; exact ha.obj m (by simpa [World.read, World.findSvc, World.findEp, World.findSec] using hm)
        · intro k hk; rw [hvi] at hk; exact ha.ing k hk
        · intro k j hl hvk; rw [hvi] at hvk; exact ha.carried k j hl hvk
  | cmSet d =>
    unfold applyOp at hfull ⊢
    simp only [] at hfull ⊢
    refine ⟨acc_other ha rfl rfl (fun n hn => mem_addLink.mpr (Or.inl hn)) (addLink_fields _ _).1
      (addLink_fields _ _).2.1 (addLink_fields _ _).2.2.1 ?_ ?_, hwf⟩
    · intro n hn
      rcases mem_addLink.mp hn with h | h
      · exact h
      · cases h
    · intro n hn
      exact absurd (read_congr rfl rfl rfl n).symm hn
  | podSet p =>
    unfold applyOp at hfull ⊢
    simp only [] at hfull ⊢
    cases hf : wk.findPod p.key with
    | none =>
      simp only [hf] at hfull ⊢
      exact ⟨acc_other ha rfl rfl (fun n hn => hn) rfl rfl rfl (fun n hn => hn)
        (fun n hn => absurd (read_congr rfl rfl rfl n).symm hn), hwf⟩
    | some old =>
      simp only [hf] at hfull ⊢
      by_cases ht : (old.term || p.term) = true
      · simp only [ht, if_true] at hfull ⊢
        refine ⟨acc_other ha rfl rfl (fun n hn => mem_addLink.mpr (Or.inl hn)) (addLink_fields _ _).1
          (addLink_fields _ _).2.1 (addLink_fields _ _).2.2.1 ?_
          (fun n hn => absurd (read_congr rfl rfl rfl n).symm hn), hwf⟩
        intro n hn
        rcases mem_addLink.mp hn with h | h
        · exact h
        · cases h
      · simp only [ht] at hfull ⊢
        exact ⟨acc_other ha rfl rfl (fun n hn => hn) rfl rfl rfl (fun n hn => hn)
          (fun n hn => absurd (read_congr rfl rfl rfl n).symm hn), hwf⟩
  | podDel k0 =>
    unfold applyOp at hfull ⊢
    simp only [] at hfull ⊢
    cases hf : wk.findPod k0 with
    | none => simp only [hf] at hfull ⊢; exact ⟨ha, hwf⟩
    | some old =>
      simp only [hf] at hfull ⊢
      refine ⟨acc_other ha rfl rfl (fun n hn => mem_addLink.mpr (Or.inl hn)) (addLink_fields _ _).1
        (addLink_fields _ _).2.1 (addLink_fields _ _).2.2.1 ?_
        (fun n hn => absurd (read_congr rfl rfl rfl n).symm hn), hwf⟩
      intro n hn
      rcases mem_addLink.mp hn with h | h
      · exact h
      · cases h

end HapVerif.C01
