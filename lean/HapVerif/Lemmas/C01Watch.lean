import HapVerif.Lemmas.C01Eq
/-
The watchers model builds batches that describe the change of the cluster: the hypothesis `Describes` of the
step theorems holds for the batch `applyOp` accumulates between two reconciliations (unless the batch asks
for a full sync). Unique ingress keys are preserved.
-/
set_option linter.unusedSectionVars false
set_option linter.unusedSimpArgs false
set_option linter.unusedVariables false
namespace HapVerif.C01

/-! ### keyed lists -/

theorem find_replaceBy {β : Type} (key : β → String) (x : β) (l : List β) (k : String) :
    (replaceBy key x l).find? (fun y => decide (key y = k)) =
      if k = key x then some x else l.find? (fun y => decide (key y = k)) := by
  induction l with
  | nil =>
    by_cases hx : k = key x
    · simp [replaceBy, hx]
    · have : ¬ key x = k := fun e => hx e.symm
      simp [replaceBy, hx, this]
  | cons y l ih =>
    unfold replaceBy
    by_cases hy : key y = key x
    · simp only [hy, if_true]
      by_cases hx : k = key x
      · simp [hx]
      · have h1 : ¬ key x = k := fun e => hx e.symm
        have h2 : ¬ key y = k := by rw [hy]; exact h1
        rw [List.find?_cons_of_neg (by simpa using h1), List.find?_cons_of_neg (by simpa using h2)]
        simp [hx]
    · simp only [hy, if_false]
      by_cases hyk : key y = k
      · have : ¬ k = key x := by rw [← hyk]; exact hy
        rw [List.find?_cons_of_pos (by simpa using hyk), List.find?_cons_of_pos (by simpa using hyk)]
        simp [this]
      · rw [List.find?_cons_of_neg (by simpa using hyk), List.find?_cons_of_neg (by simpa using hyk)]
        exact ih

theorem find_filter_ne {β : Type} (key : β → String) (k0 : String) (l : List β) (k : String) :
    (l.filter (fun y => decide (key y ≠ k0))).find? (fun y => decide (key y = k)) =
      if k = k0 then none else l.find? (fun y => decide (key y = k)) := by
  induction l with
  | nil => simp
  | cons y l ih =>
    by_cases hy : key y = k0
    · rw [List.filter_cons_of_neg (by simpa using hy), ih]
      by_cases hk : k = k0
      · simp [hk]
      · have : ¬ key y = k := by rw [hy]; exact fun e => hk e.symm
        rw [List.find?_cons_of_neg (by simpa using this)]
    · rw [List.filter_cons_of_pos (by simpa using hy)]
      by_cases hyk : key y = k
      · have : ¬ k = k0 := by rw [← hyk]; exact hy
        rw [List.find?_cons_of_pos (by simpa using hyk), List.find?_cons_of_pos (by simpa using hyk)]
        simp [this]
      · rw [List.find?_cons_of_neg (by simpa using hyk), List.find?_cons_of_neg (by simpa using hyk)]
        exact ih

theorem find_append_new {β : Type} (key : β → String) (x : β) (l : List β) (k : String)
    (hnew : l.find? (fun y => decide (key y = key x)) = none) :
    (l ++ [x]).find? (fun y => decide (key y = k)) =
      if k = key x then some x else l.find? (fun y => decide (key y = k)) := by
  rw [List.find?_append]
  by_cases hk : k = key x
  · subst hk
    simp [hnew]
  · have : ¬ key x = k := fun e => hk e.symm
    simp [hk, this]

theorem mem_map_key_of_find {β : Type} (key : β → String) (l : List β) (k : String)
    (h : l.find? (fun y => decide (key y = k)) = none) : k ∉ l.map key := by
  intro hm
  obtain ⟨y, hy, hk⟩ := List.mem_map.mp hm
  have := List.find?_eq_none.mp h y hy
  simp [hk] at this

theorem nodup_replaceBy {β : Type} (key : β → String) (x : β) (l : List β) (h : (l.map key).Nodup) :
    ((replaceBy key x l).map key).Nodup := by
  induction l with
  | nil => simp [replaceBy]
  | cons y l ih =>
    unfold replaceBy
    simp only [List.map_cons, List.nodup_cons] at h
    by_cases hy : key y = key x
    · simp only [hy, if_true, List.map_cons, List.nodup_cons]
      exact ⟨hy ▸ h.1, h.2⟩
    · simp only [hy, if_false, List.map_cons, List.nodup_cons]
      refine ⟨?_, ih h.2⟩
      intro hm
      obtain ⟨z, hz, hzk⟩ := List.mem_map.mp hm
      -- z is x or an element of l
      have : z = x ∨ z ∈ l := by
        clear ih h hm hzk
        induction l with
        | nil => simp [replaceBy] at hz; exact Or.inl hz
        | cons a l ih2 =>
          unfold replaceBy at hz
          by_cases ha : key a = key x
          · simp only [ha, if_true, List.mem_cons] at hz
            rcases hz with hz | hz
            · exact Or.inl hz
            · exact Or.inr (List.mem_cons_of_mem _ hz)
          · simp only [ha, if_false, List.mem_cons] at hz
            rcases hz with hz | hz
            · exact Or.inr (hz ▸ List.mem_cons_self ..)
            · rcases ih2 hz with h | h
              · exact Or.inl h
              · exact Or.inr (List.mem_cons_of_mem _ h)
      rcases this with hzx | hzl
      · rw [hzx] at hzk; exact hy hzk.symm
      · exact h.1 (hzk ▸ List.mem_map_of_mem (f := key) hzl)

/-! ### one operation -/

theorem mem_addLink {b : Batch} {n m : Node} : m ∈ (addLink b n).links ↔ m ∈ b.links ∨ m = n := by
  unfold addLink
  by_cases h : n ∈ b.links
  · simp only [h, if_true]
    constructor
    · exact Or.inl
    · rintro (h1 | h1)
      · exact h1
      · rw [h1]; exact h
  · simp [h]

theorem addLink_fields (b : Batch) (n : Node) :
    (addLink b n).add = b.add ∧ (addLink b n).upd = b.upd ∧ (addLink b n).del = b.del ∧
      (addLink b n).full = b.full := by
  unfold addLink
  split <;> simp

theorem valid_congr {w w' : World} (h : w'.clss = w.clss) (i : Ingress) : w'.valid i = w.valid i := by
  unfold World.valid World.findCls
  rw [h]

theorem validIng_congr {w w' : World} (h1 : w'.ings = w.ings) (h2 : w'.clss = w.clss) (k : String) :
    w'.validIng k = w.validIng k := by
  unfold World.validIng World.findIng
  rw [h1]
  cases w.ings.find? (fun x => decide (x.key = k)) with
  | none => rfl
  | some i => simp [Option.filter, valid_congr h2]

theorem read_congr {w w' : World} (h1 : w'.svcs = w.svcs) (h2 : w'.eps = w.eps) (h3 : w'.secs = w.secs)
    (n : Node) : w'.read n = w.read n := by
  unfold World.read World.findSvc World.findEp World.findSec
  rw [h1, h2, h3]

/-- the accumulated batch describes the change from the cluster `w` of the previous sync to the current
cluster `wk` — as long as no event asked for a full sync -/
structure Acc (w wk : World) (bk : Batch) : Prop where
  obj : ∀ n : Node, w.read n ≠ wk.read n → n ∈ bk.links
  ing : ∀ k, w.validIng k ≠ wk.validIng k → (⟨.ing, k⟩ : Node) ∈ bk.links
  carried : ∀ k i, (⟨.ing, k⟩ : Node) ∈ bk.links → wk.validIng k = some i → i ∈ bk.add ∨ i ∈ bk.upd
  events : ∀ i, i ∈ bk.add ∨ i ∈ bk.upd → (⟨.ing, i.key⟩ : Node) ∈ bk.links
  del : ∀ k ∈ bk.del, (⟨.ing, k⟩ : Node) ∈ bk.links

theorem acc_init (w : World) : Acc w w {} := by
  refine ⟨?_, ?_, ?_, ?_, ?_⟩ <;> intros <;> simp_all

/-- operations that touch neither ingresses nor classes: only the changed object has to be linked -/
theorem acc_other {w wk wk' : World} {bk bk' : Batch} (ha : Acc w wk bk)
    (hings : wk'.ings = wk.ings) (hcls : wk'.clss = wk.clss)
    (hlinks : ∀ n ∈ bk.links, n ∈ bk'.links)
    (hadd : bk'.add = bk.add) (hupd : bk'.upd = bk.upd) (hdel : bk'.del = bk.del)
    (hnew : ∀ n, (⟨.ing, n⟩ : Node) ∈ bk'.links → (⟨.ing, n⟩ : Node) ∈ bk.links)
    (hch : ∀ n, wk.read n ≠ wk'.read n → n ∈ bk'.links) : Acc w wk' bk' := by
  have hv := validIng_congr hings hcls
  refine ⟨?_, ?_, ?_, ?_, ?_⟩
  · intro n hn
    by_cases h : wk.read n = wk'.read n
    · exact hlinks n (ha.obj n (by rw [h]; exact hn))
    · exact hch n h
  · intro k hk
    rw [hv] at hk
    exact hlinks _ (ha.ing k hk)
  · intro k i hl hvi
    rw [hv] at hvi
    rw [hadd, hupd]
    exact ha.carried k i (hnew k hl) hvi
  · intro i hi
    rw [hadd, hupd] at hi
    exact hlinks _ (ha.events i hi)
  · intro k hk
    rw [hdel] at hk
    exact hlinks _ (ha.del k hk)

theorem findIng_eq (w : World) (k : String) : w.findIng k = w.ings.find? (fun x => decide (x.key = k)) := rfl


/-! ### ingress events -/

/-- the effect of an ingress event on `validIng`, common to create/update/delete -/
theorem acc_ing_event {w wk wk' : World} {bk bk' : Batch} (ha : Acc w wk bk) (k0 : String)
    (hread : ∀ n, wk'.read n = wk.read n)
    (hvi : ∀ k, k ≠ k0 → wk'.validIng k = wk.validIng k)
    (hlinks : ∀ n ∈ bk.links, n ∈ bk'.links)
    (hnew : ∀ k, (⟨.ing, k⟩ : Node) ∈ bk'.links → (⟨.ing, k⟩ : Node) ∈ bk.links ∨ k = k0)
    (hadd : ∀ i, i ∈ bk.add → i ∈ bk'.add) (hupd : ∀ i, i ∈ bk.upd → i ∈ bk'.upd)
    (hev : ∀ i, i ∈ bk'.add ∨ i ∈ bk'.upd → (i ∈ bk.add ∨ i ∈ bk.upd) ∨ i.key = k0)
    (hdel : ∀ k ∈ bk'.del, k ∈ bk.del ∨ k = k0)
    (hk0 : wk.validIng k0 ≠ wk'.validIng k0 → (⟨.ing, k0⟩ : Node) ∈ bk'.links)
    (hlinked : (∃ i, i ∈ bk'.add ∨ i ∈ bk'.upd ∧ False) ∨ True)
    (hevl : (∃ i, (i ∈ bk'.add ∨ i ∈ bk'.upd) ∧ ¬ (i ∈ bk.add ∨ i ∈ bk.upd)) → (⟨.ing, k0⟩ : Node) ∈ bk'.links)
    (hdell : (∃ k ∈ bk'.del, k ∉ bk.del) → (⟨.ing, k0⟩ : Node) ∈ bk'.links)
    (hcar : ∀ i, (⟨.ing, k0⟩ : Node) ∈ bk'.links → wk'.validIng k0 = some i → i ∈ bk'.add ∨ i ∈ bk'.upd) :
    Acc w wk' bk' := by
  refine ⟨?_, ?_, ?_, ?_, ?_⟩
  · intro n hn
    rw [hread] at hn
    exact hlinks n (ha.obj n hn)
  · intro k hk
    by_cases hke : k = k0
    · subst hke
      by_cases h : wk.validIng k = wk'.validIng k
      · rw [← h] at hk; exact hlinks _ (ha.ing k hk)
      · exact hk0 h
    · rw [hvi k hke] at hk
      exact hlinks _ (ha.ing k hk)
  · intro k i hl hvk
    by_cases hke : k = k0
    · subst hke; exact hcar i hl hvk
    · rw [hvi k hke] at hvk
      rcases hnew k hl with h | h
      · rcases ha.carried k i h hvk with h1 | h1
        · exact Or.inl (hadd i h1)
        · exact Or.inr (hupd i h1)
      · exact absurd h hke
  · intro i hi
    by_cases hold : i ∈ bk.add ∨ i ∈ bk.upd
    · exact hlinks _ (ha.events i hold)
    · rcases hev i hi with h | h
      · exact absurd h hold
      · rw [h]; exact hevl ⟨i, hi, hold⟩
  · intro k hk
    by_cases hold : k ∈ bk.del
    · exact hlinks _ (ha.del k hold)
    · rcases hdel k hk with h | h
      · exact absurd h hold
      · rw [h]; exact hdell ⟨k, hk, hold⟩

theorem read_ings_irrelevant (wk : World) (l : List Ingress) (n : Node) :
    ({ wk with ings := l } : World).read n = wk.read n := rfl

theorem validIng_other (wk : World) (l : List Ingress) (k k0 : String)
    (hfind : ({ wk with ings := l } : World).findIng k = wk.findIng k) :
    ({ wk with ings := l } : World).validIng k = wk.validIng k := by
  unfold World.validIng
  rw [hfind]
  cases wk.findIng k with
  | none => rfl
  | some j =>
    have : ({ wk with ings := l } : World).valid j = wk.valid j := valid_congr rfl j
    simp [Option.filter, this]

theorem validIng_at (wk : World) (l : List Ingress) (k : String) (o : Option Ingress)
    (hfind : ({ wk with ings := l } : World).findIng k = o) :
    ({ wk with ings := l } : World).validIng k = o.filter wk.valid := by
  unfold World.validIng
  rw [hfind]
  cases o with
  | none => rfl
  | some j =>
    have : ({ wk with ings := l } : World).valid j = wk.valid j := valid_congr rfl j
    simp [Option.filter, this]

theorem acc_ingSet {w wk : World} {bk : Batch} (i0 : Ingress) (ha : Acc w wk bk) (hwf : wk.WF) :
    Acc w (applyOp (wk, bk) (.ingSet i0)).1 (applyOp (wk, bk) (.ingSet i0)).2 ∧
      (applyOp (wk, bk) (.ingSet i0)).1.WF := by
  cases hf : wk.findIng i0.key with
  | none =>
    have hfind : ∀ k, ({ wk with ings := wk.ings ++ [i0] } : World).findIng k =
        if k = i0.key then some i0 else wk.findIng k := by
      intro k
      rw [findIng_eq, findIng_eq]
      exact find_append_new Ingress.key i0 wk.ings k (by rw [← findIng_eq]; exact hf)
    have hwf' : ({ wk with ings := wk.ings ++ [i0] } : World).WF := by
      unfold World.WF at *
      simp only [List.map_append, List.map_cons, List.map_nil]
      rw [List.nodup_append]
      refine ⟨hwf, by simp, ?_⟩
      intro a ha' b hb
      simp at hb
      subst hb
      exact fun e => mem_map_key_of_find Ingress.key wk.ings i0.key (by rw [← findIng_eq]; exact hf) (e ▸ ha')
    have hother : ∀ k, k ≠ i0.key → ({ wk with ings := wk.ings ++ [i0] } : World).validIng k = wk.validIng k := by
      intro k hk
      exact validIng_other wk _ k i0.key (by rw [hfind]; simp [hk])
    have hat : ({ wk with ings := wk.ings ++ [i0] } : World).validIng i0.key = (some i0).filter wk.valid :=
      validIng_at wk _ i0.key (some i0) (by rw [hfind]; simp)
    have hold : wk.validIng i0.key = none := by unfold World.validIng; rw [hf]; rfl
    cases hv : wk.valid i0 with
    | true =>
      have heq : applyOp (wk, bk) (.ingSet i0) =
          ({ wk with ings := wk.ings ++ [i0] }, { addLink bk ⟨.ing, i0.key⟩ with add := bk.add ++ [i0] }) := by
        simp [applyOp, hf, hv]
      rw [heq]
      refine ⟨acc_ing_event ha i0.key (fun n => rfl) hother ?_ ?_ ?_ ?_ ?_ ?_ ?_ (Or.inr trivial) ?_ ?_ ?_, hwf'⟩
      · intro n hn; exact mem_addLink.mpr (Or.inl hn)
      · intro k hk
        rcases mem_addLink.mp hk with h | h
        · exact Or.inl h
        · right; injection h
      · intro i hi; simp [(addLink_fields bk _).1, hi]
      · intro i hi; simp only [(addLink_fields bk _).2.1]; exact hi
      · intro i hi
        simp only [List.mem_append, List.mem_singleton, (addLink_fields bk _).2.1] at hi
        rcases hi with (hi | hi) | hi
        · exact Or.inl (Or.inl hi)
        · right; rw [hi]
        · exact Or.inl (Or.inr hi)
      · intro k hk
        simp only [(addLink_fields bk _).2.2.1] at hk
        exact Or.inl hk
      · intro _; exact mem_addLink.mpr (Or.inr rfl)
      · intro _; exact mem_addLink.mpr (Or.inr rfl)
      · intro _; exact mem_addLink.mpr (Or.inr rfl)
      · intro i _ hvk
        rw [hat] at hvk
        simp [Option.filter, hv] at hvk
        left; simp [hvk]
    | false =>
      have heq : applyOp (wk, bk) (.ingSet i0) = ({ wk with ings := wk.ings ++ [i0] }, bk) := by
        simp [applyOp, hf, hv]
      rw [heq]
      refine ⟨acc_ing_event ha i0.key (fun n => rfl) hother (fun n hn => hn) (fun k hk => Or.inl hk)
        (fun i hi => hi) (fun i hi => hi) (fun i hi => Or.inl hi) (fun k hk => Or.inl hk) ?_ (Or.inr trivial)
        ?_ ?_ ?_, hwf'⟩
      · intro h; rw [hold, hat] at h; simp [Option.filter, hv] at h
      · rintro ⟨i, hi, hn⟩; exact absurd hi hn
      · rintro ⟨k, hk, hn⟩; exact absurd hk hn
      · intro i _ hvk; rw [hat] at hvk; simp [Option.filter, hv] at hvk
  | some old =>
    have holdk : old.key = i0.key := by
      have := List.find?_some (by rw [← findIng_eq]; exact hf : wk.ings.find? _ = some old)
      simpa using this
    generalize hi : ({ i0 with created := old.created } : Ingress) = i
    have hik : i.key = i0.key := by rw [← hi]; rfl
    have hfind : ∀ k, ({ wk with ings := replaceBy Ingress.key i wk.ings } : World).findIng k =
        if k = i.key then some i else wk.findIng k := by
      intro k
      rw [findIng_eq, findIng_eq]
      exact find_replaceBy Ingress.key i wk.ings k
    have hwf' : ({ wk with ings := replaceBy Ingress.key i wk.ings } : World).WF :=
      nodup_replaceBy Ingress.key i wk.ings hwf
    have hother : ∀ k, k ≠ i0.key →
        ({ wk with ings := replaceBy Ingress.key i wk.ings } : World).validIng k = wk.validIng k := by
      intro k hk
      exact validIng_other wk _ k i0.key (by rw [hfind]; simp [hik, hk])
    have hat : ({ wk with ings := replaceBy Ingress.key i wk.ings } : World).validIng i0.key =
        (some i).filter wk.valid :=
      validIng_at wk _ i0.key (some i) (by rw [hfind]; simp [hik])
    have hold : wk.validIng i0.key = (some old).filter wk.valid := by
      unfold World.validIng; rw [hf]
    cases hov : wk.valid old <;> cases hnv : wk.valid i
    · have heq : applyOp (wk, bk) (.ingSet i0) = ({ wk with ings := replaceBy Ingress.key i wk.ings }, bk) := by
        simp [applyOp, hf, hi, hov, hnv, (addLink_fields bk _).1, (addLink_fields bk _).2.1, (addLink_fields bk _).2.2.1]
      rw [heq]
      refine ⟨acc_ing_event ha i0.key (fun n => rfl) hother (fun n hn => hn) (fun k hk => Or.inl hk)
        (fun i hi => hi) (fun i hi => hi) (fun i hi => Or.inl hi) (fun k hk => Or.inl hk) ?_ (Or.inr trivial)
        ?_ ?_ ?_, hwf'⟩
      · intro h; rw [hold, hat] at h; simp [Option.filter, hov, hnv] at h
      · rintro ⟨j, hj, hn⟩; exact absurd hj hn
      · rintro ⟨k, hk, hn⟩; exact absurd hk hn
      · intro j _ hvk; rw [hat] at hvk; simp [Option.filter, hnv] at hvk
    · have heq : applyOp (wk, bk) (.ingSet i0) =
          ({ wk with ings := replaceBy Ingress.key i wk.ings },
            { addLink bk ⟨.ing, i.key⟩ with add := bk.add ++ [i] }) := by
        simp [applyOp, hf, hi, hov, hnv, (addLink_fields bk _).1, (addLink_fields bk _).2.1, (addLink_fields bk _).2.2.1]
      rw [heq, hik]
      refine ⟨acc_ing_event ha i0.key (fun n => rfl) hother ?_ ?_ ?_ ?_ ?_ ?_ ?_ (Or.inr trivial) ?_ ?_ ?_, hwf'⟩
      · intro n hn; exact mem_addLink.mpr (Or.inl hn)
      · intro k hk
        rcases mem_addLink.mp hk with h | h
        · exact Or.inl h
        · right; injection h
      · intro j hj; simp [(addLink_fields bk _).1, hj]
      · intro j hj; simp only [(addLink_fields bk _).2.1]; exact hj
      · intro j hj
        simp only [List.mem_append, List.mem_singleton, (addLink_fields bk _).2.1] at hj
        rcases hj with (hj | hj) | hj
        · exact Or.inl (Or.inl hj)
        · right; rw [hj, hik]
        · exact Or.inl (Or.inr hj)
      · intro k hk
        simp only [(addLink_fields bk _).2.2.1] at hk
        exact Or.inl hk
      · intro _; exact mem_addLink.mpr (Or.inr rfl)
      · intro _; exact mem_addLink.mpr (Or.inr rfl)
      · intro _; exact mem_addLink.mpr (Or.inr rfl)
      · intro j _ hvk
        rw [hat] at hvk
        simp [Option.filter, hnv] at hvk
        left; simp [hvk]
    · have heq : applyOp (wk, bk) (.ingSet i0) =
          ({ wk with ings := replaceBy Ingress.key i wk.ings },
            { addLink bk ⟨.ing, i.key⟩ with del := bk.del ++ [old.key] }) := by
        simp [applyOp, hf, hi, hov, hnv, (addLink_fields bk _).1, (addLink_fields bk _).2.1, (addLink_fields bk _).2.2.1]
      rw [heq, hik, holdk]
      refine ⟨acc_ing_event ha i0.key (fun n => rfl) hother ?_ ?_ ?_ ?_ ?_ ?_ ?_ (Or.inr trivial) ?_ ?_ ?_, hwf'⟩
      · intro n hn; exact mem_addLink.mpr (Or.inl hn)
      · intro k hk
        rcases mem_addLink.mp hk with h | h
        · exact Or.inl h
        · right; injection h
      · intro j hj; simp only [(addLink_fields bk _).1]; exact hj
      · intro j hj; simp only [(addLink_fields bk _).2.1]; exact hj
      · intro j hj
        simp only [(addLink_fields bk _).1, (addLink_fields bk _).2.1] at hj
        exact Or.inl hj
      · intro k hk
        simp only [List.mem_append, List.mem_singleton, (addLink_fields bk _).2.2.1] at hk
        rcases hk with hk | hk
        · exact Or.inl hk
        · exact Or.inr hk
      · intro _; exact mem_addLink.mpr (Or.inr rfl)
      · intro _; exact mem_addLink.mpr (Or.inr rfl)
      · intro _; exact mem_addLink.mpr (Or.inr rfl)
      · intro j _ hvk; rw [hat] at hvk; simp [Option.filter, hnv] at hvk
    · have heq : applyOp (wk, bk) (.ingSet i0) =
          ({ wk with ings := replaceBy Ingress.key i wk.ings },
            { addLink bk ⟨.ing, i.key⟩ with upd := bk.upd ++ [i] }) := by
        simp [applyOp, hf, hi, hov, hnv, (addLink_fields bk _).1, (addLink_fields bk _).2.1, (addLink_fields bk _).2.2.1]
      rw [heq, hik]
      refine ⟨acc_ing_event ha i0.key (fun n => rfl) hother ?_ ?_ ?_ ?_ ?_ ?_ ?_ (Or.inr trivial) ?_ ?_ ?_, hwf'⟩
      · intro n hn; exact mem_addLink.mpr (Or.inl hn)
      · intro k hk
        rcases mem_addLink.mp hk with h | h
        · exact Or.inl h
        · right; injection h
      · intro j hj; simp only [(addLink_fields bk _).1]; exact hj
      · intro j hj; simp [(addLink_fields bk _).2.1, hj]
      · intro j hj
        simp only [List.mem_append, List.mem_singleton, (addLink_fields bk _).1, (addLink_fields bk _).2.1] at hj
        rcases hj with hj | hj | hj
        · exact Or.inl (Or.inl hj)
        · exact Or.inl (Or.inr hj)
        · right; rw [hj, hik]
      · intro k hk
        simp only [(addLink_fields bk _).2.2.1] at hk
        exact Or.inl hk
      · intro _; exact mem_addLink.mpr (Or.inr rfl)
      · intro _; exact mem_addLink.mpr (Or.inr rfl)
      · intro _; exact mem_addLink.mpr (Or.inr rfl)
      · intro j _ hvk
        rw [hat] at hvk
        simp [Option.filter, hnv] at hvk
        right; simp [hvk]

theorem acc_ingDel {w wk : World} {bk : Batch} (k0 : String) (ha : Acc w wk bk) (hwf : wk.WF) :
    Acc w (applyOp (wk, bk) (.ingDel k0)).1 (applyOp (wk, bk) (.ingDel k0)).2 ∧
      (applyOp (wk, bk) (.ingDel k0)).1.WF := by
  cases hf : wk.findIng k0 with
  | none =>
    have heq : applyOp (wk, bk) (.ingDel k0) = (wk, bk) := by simp [applyOp, hf]
    rw [heq]; exact ⟨ha, hwf⟩
  | some old =>
    have hfind : ∀ k, ({ wk with ings := wk.ings.filter (·.key ≠ k0) } : World).findIng k =
        if k = k0 then none else wk.findIng k := by
      intro k
      rw [findIng_eq, findIng_eq]
      exact find_filter_ne Ingress.key k0 wk.ings k
    have hwf' : ({ wk with ings := wk.ings.filter (·.key ≠ k0) } : World).WF := by
      unfold World.WF at *
      exact hwf.sublist (List.Sublist.map _ List.filter_sublist)
    have hother : ∀ k, k ≠ k0 →
        ({ wk with ings := wk.ings.filter (·.key ≠ k0) } : World).validIng k = wk.validIng k := by
      intro k hk
      exact validIng_other wk _ k k0 (by rw [hfind]; simp [hk])
    have hat : ({ wk with ings := wk.ings.filter (·.key ≠ k0) } : World).validIng k0 = none := by
      have := validIng_at wk (wk.ings.filter (·.key ≠ k0)) k0 none (by rw [hfind]; simp)
      simpa [Option.filter] using this
    have hold : wk.validIng k0 = (some old).filter wk.valid := by
      unfold World.validIng; rw [hf]
    cases hov : wk.valid old with
    | false =>
      have heq : applyOp (wk, bk) (.ingDel k0) = ({ wk with ings := wk.ings.filter (·.key ≠ k0) }, bk) := by
        simp [applyOp, hf, hov]
      rw [heq]
      refine ⟨acc_ing_event ha k0 (fun n => rfl) hother (fun n hn => hn) (fun k hk => Or.inl hk)
        (fun i hi => hi) (fun i hi => hi) (fun i hi => Or.inl hi) (fun k hk => Or.inl hk) ?_ (Or.inr trivial)
        ?_ ?_ ?_, hwf'⟩
      · intro h; rw [hold, hat] at h; simp [Option.filter, hov] at h
      · rintro ⟨j, hj, hn⟩; exact absurd hj hn
      · rintro ⟨k, hk, hn⟩; exact absurd hk hn
      · intro j _ hvk; rw [hat] at hvk; cases hvk
    | true =>
      have heq : applyOp (wk, bk) (.ingDel k0) =
          ({ wk with ings := wk.ings.filter (·.key ≠ k0) },
            { addLink bk ⟨.ing, k0⟩ with del := bk.del ++ [k0] }) := by
        simp [applyOp, hf, hov]
      rw [heq]
      refine ⟨acc_ing_event ha k0 (fun n => rfl) hother ?_ ?_ ?_ ?_ ?_ ?_ ?_ (Or.inr trivial) ?_ ?_ ?_, hwf'⟩
      · intro n hn; exact mem_addLink.mpr (Or.inl hn)
      · intro k hk
        rcases mem_addLink.mp hk with h | h
        · exact Or.inl h
        · right; injection h
      · intro j hj; simp only [(addLink_fields bk _).1]; exact hj
      · intro j hj; simp only [(addLink_fields bk _).2.1]; exact hj
      · intro j hj
        simp only [(addLink_fields bk _).1, (addLink_fields bk _).2.1] at hj
        exact Or.inl hj
      · intro k hk
        simp only [List.mem_append, List.mem_singleton, (addLink_fields bk _).2.2.1] at hk
        rcases hk with hk | hk
        · exact Or.inl hk
        · exact Or.inr hk
      · intro _; exact mem_addLink.mpr (Or.inr rfl)
      · intro _; exact mem_addLink.mpr (Or.inr rfl)
      · intro _; exact mem_addLink.mpr (Or.inr rfl)
      · intro j _ hvk; rw [hat] at hvk; cases hvk

/-! ### the other kinds -/

theorem read_upd (wk wk' : World) (n : Node)
    (hs : n.kind = .svc → wk'.findSvc n.name = wk.findSvc n.name)
    (he : n.kind = .ep → wk'.findEp n.name = wk.findEp n.name)
    (hx : n.kind = .sec → wk'.findSec n.name = wk.findSec n.name) : wk'.read n = wk.read n := by
  obtain ⟨kd, nm⟩ := n
  cases kd <;> simp only [World.read]
  · rw [hs rfl]
  · rw [he rfl]
  · rw [hx rfl]

theorem ing_link_of_addLink {bk : Batch} {kd : Kind} {nm k : String} (hkd : kd ≠ .ing)
    (h : (⟨.ing, k⟩ : Node) ∈ (addLink bk ⟨kd, nm⟩).links) : (⟨.ing, k⟩ : Node) ∈ bk.links := by
  rcases mem_addLink.mp h with h | h
  · exact h
  · injection h with h1 _; exact absurd h1.symm hkd

/-- a change of one object of kind svc/ep/sec (or of nothing the converters read) with its link -/
theorem acc_obj {w wk wk' : World} {bk : Batch} (ha : Acc w wk bk) (kd : Kind) (hkd : kd ≠ .ing) (nm : String)
    (hings : wk'.ings = wk.ings) (hcls : wk'.clss = wk.clss)
    (hch : ∀ n, n ≠ (⟨kd, nm⟩ : Node) → wk'.read n = wk.read n) :
    Acc w wk' (addLink bk ⟨kd, nm⟩) :=
  acc_other ha hings hcls (fun n hn => mem_addLink.mpr (Or.inl hn)) (addLink_fields _ _).1
    (addLink_fields _ _).2.1 (addLink_fields _ _).2.2.1 (fun k hk => ing_link_of_addLink hkd hk)
    (fun n hn => by
      by_cases h : n = ⟨kd, nm⟩
      · exact mem_addLink.mpr (Or.inr h)
      · exact absurd (hch n h).symm hn)

/-- nothing the converters read changes -/
theorem acc_same {w wk wk' : World} {bk : Batch} (ha : Acc w wk bk)
    (hings : wk'.ings = wk.ings) (hcls : wk'.clss = wk.clss) (hch : ∀ n, wk'.read n = wk.read n) :
    Acc w wk' bk :=
  acc_other ha hings hcls (fun n hn => hn) rfl rfl rfl (fun k hk => hk) (fun n hn => absurd (hch n).symm hn)

theorem acc_svcSet {w wk : World} {bk : Batch} (s : Service) (ha : Acc w wk bk) :
    Acc w (applyOp (wk, bk) (.svcSet s)).1 (applyOp (wk, bk) (.svcSet s)).2 := by
  have heq : applyOp (wk, bk) (.svcSet s) =
      ({ wk with svcs := replaceBy Service.key s wk.svcs }, addLink bk ⟨.svc, s.key⟩) := rfl
  rw [heq]
  apply acc_obj (wk' := ({ wk with svcs := replaceBy Service.key s wk.svcs } : World)) ha .svc
    (by intro h; cases h) s.key rfl rfl
  intro n hn
  apply read_upd
  · intro hk
    unfold World.findSvc
    simp only []
    rw [find_replaceBy Service.key s wk.svcs n.name]
    have : n.name ≠ s.key := fun e => hn (by cases n; simp_all)
    simp [this]
  · intro _; rfl
  · intro _; rfl

theorem acc_secSet {w wk : World} {bk : Batch} (s : Secret) (ha : Acc w wk bk) :
    Acc w (applyOp (wk, bk) (.secSet s)).1 (applyOp (wk, bk) (.secSet s)).2 := by
  have heq : applyOp (wk, bk) (.secSet s) =
      ({ wk with secs := replaceBy Secret.key s wk.secs }, addLink bk ⟨.sec, s.key⟩) := rfl
  rw [heq]
  apply acc_obj (wk' := ({ wk with secs := replaceBy Secret.key s wk.secs } : World)) ha .sec
    (by intro h; cases h) s.key rfl rfl
  intro n hn
  apply read_upd
  · intro _; rfl
  · intro _; rfl
  · intro hk
    unfold World.findSec
    simp only []
    rw [find_replaceBy Secret.key s wk.secs n.name]
    have : n.name ≠ s.key := fun e => hn (by cases n; simp_all)
    simp [this]

theorem acc_secDel {w wk : World} {bk : Batch} (k0 : String) (ha : Acc w wk bk) :
    Acc w (applyOp (wk, bk) (.secDel k0)).1 (applyOp (wk, bk) (.secDel k0)).2 := by
  cases hf : wk.findSec k0 with
  | none =>
    have heq : applyOp (wk, bk) (.secDel k0) = (wk, bk) := by simp [applyOp, hf]
    rw [heq]; exact ha
  | some old =>
    have heq : applyOp (wk, bk) (.secDel k0) =
        ({ wk with secs := wk.secs.filter (·.key ≠ k0) }, addLink bk ⟨.sec, k0⟩) := by simp [applyOp, hf]
    rw [heq]
    apply acc_obj (wk' := ({ wk with secs := wk.secs.filter (·.key ≠ k0) } : World)) ha .sec
      (by intro h; cases h) k0 rfl rfl
    intro n hn
    apply read_upd
    · intro _; rfl
    · intro _; rfl
    · intro hk
      unfold World.findSec
      simp only []
      rw [find_filter_ne Secret.key k0 wk.secs n.name]
      have : n.name ≠ k0 := fun e => hn (by cases n; simp_all)
      simp [this]

theorem acc_epDel {w wk : World} {bk : Batch} (k0 : String) (ha : Acc w wk bk) :
    Acc w (applyOp (wk, bk) (.epDel k0)).1 (applyOp (wk, bk) (.epDel k0)).2 := by
  cases hf : wk.findEp k0 with
  | none =>
    have heq : applyOp (wk, bk) (.epDel k0) = (wk, bk) := by simp [applyOp, hf]
    rw [heq]; exact ha
  | some old =>
    have heq : applyOp (wk, bk) (.epDel k0) =
        ({ wk with eps := wk.eps.filter (·.key ≠ k0) }, addLink bk ⟨.ep, k0⟩) := by simp [applyOp, hf]
    rw [heq]
    apply acc_obj (wk' := ({ wk with eps := wk.eps.filter (·.key ≠ k0) } : World)) ha .ep
      (by intro h; cases h) k0 rfl rfl
    intro n hn
    apply read_upd
    · intro _; rfl
    · intro hk
      unfold World.findEp
      simp only []
      rw [find_filter_ne Endpoints.key k0 wk.eps n.name]
      have : n.name ≠ k0 := fun e => hn (by cases n; simp_all)
      simp [this]
    · intro _; rfl

theorem mkEndpoints_key (w : World) (k : String) (r nr : List (String × String)) :
    (mkEndpoints w k r nr).key = k := by
  unfold mkEndpoints; split <;> rfl

theorem acc_epSet {w wk : World} {bk : Batch} (k0 : String) (ready notReady : List (String × String))
    (ha : Acc w wk bk) :
    Acc w (applyOp (wk, bk) (.epSet k0 ready notReady)).1 (applyOp (wk, bk) (.epSet k0 ready notReady)).2 := by
  have hek := mkEndpoints_key wk k0 ready notReady
  have hread : ∀ n : Node, n ≠ ⟨.ep, k0⟩ →
      ({ wk with eps := replaceBy Endpoints.key (mkEndpoints wk k0 ready notReady) wk.eps } : World).read n =
        wk.read n := by
    intro n hn
    apply read_upd
    · intro _; rfl
    · intro hk
      unfold World.findEp
      simp only []
      rw [find_replaceBy Endpoints.key (mkEndpoints wk k0 ready notReady) wk.eps n.name]
      have : n.name ≠ (mkEndpoints wk k0 ready notReady).key := fun e' => hn (by cases n; simp_all)
      simp [this]
    · intro _; rfl
  cases hf : wk.findEp k0 with
  | none =>
    have heq : applyOp (wk, bk) (.epSet k0 ready notReady) =
        ({ wk with eps := replaceBy Endpoints.key (mkEndpoints wk k0 ready notReady) wk.eps },
          addLink bk ⟨.ep, k0⟩) := by
      simp [applyOp, hf]
    rw [heq]
    exact acc_obj (wk' := ({ wk with eps := replaceBy Endpoints.key (mkEndpoints wk k0 ready notReady) wk.eps } : World))
      ha .ep (by intro h; cases h) k0 rfl rfl hread
  | some old =>
    by_cases hoe : old = mkEndpoints wk k0 ready notReady
    · have heq : applyOp (wk, bk) (.epSet k0 ready notReady) =
          ({ wk with eps := replaceBy Endpoints.key (mkEndpoints wk k0 ready notReady) wk.eps }, bk) := by
        simp [applyOp, hf, hoe]
      rw [heq]
      apply acc_same (wk' := ({ wk with eps := replaceBy Endpoints.key (mkEndpoints wk k0 ready notReady) wk.eps } : World))
        ha rfl rfl
      intro n
      by_cases hn : n = ⟨.ep, k0⟩
      · subst hn
        simp only [World.read]
        unfold World.findEp at hf ⊢
        simp only []
        rw [find_replaceBy Endpoints.key (mkEndpoints wk k0 ready notReady) wk.eps k0, hf, hoe]
        simp [hek]
      · exact hread n hn
    · have heq : applyOp (wk, bk) (.epSet k0 ready notReady) =
          ({ wk with eps := replaceBy Endpoints.key (mkEndpoints wk k0 ready notReady) wk.eps },
            addLink bk ⟨.ep, k0⟩) := by
        simp [applyOp, hf, hoe]
      rw [heq]
      exact acc_obj (wk' := ({ wk with eps := replaceBy Endpoints.key (mkEndpoints wk k0 ready notReady) wk.eps } : World))
        ha .ep (by intro h; cases h) k0 rfl rfl hread

theorem acc_svcDel {w wk : World} {bk : Batch} (k0 : String) (ha : Acc w wk bk) :
    Acc w (applyOp (wk, bk) (.svcDel k0)).1 (applyOp (wk, bk) (.svcDel k0)).2 := by
  cases hf : wk.findSvc k0 with
  | none =>
    have heq : applyOp (wk, bk) (.svcDel k0) = (wk, bk) := by simp [applyOp, hf]
    rw [heq]; exact ha
  | some sv =>
    have hsvc : ∀ nm, nm ≠ k0 →
        ({ wk with svcs := wk.svcs.filter (·.key ≠ k0), eps := wk.eps.filter (·.key ≠ k0) } : World).findSvc nm =
          wk.findSvc nm := by
      intro nm hnm
      unfold World.findSvc
      simp only []
      rw [find_filter_ne Service.key k0 wk.svcs nm]
      simp [hnm]
    have hep : ∀ nm, nm ≠ k0 →
        ({ wk with svcs := wk.svcs.filter (·.key ≠ k0), eps := wk.eps.filter (·.key ≠ k0) } : World).findEp nm =
          wk.findEp nm := by
      intro nm hnm
      unfold World.findEp
      simp only []
      rw [find_filter_ne Endpoints.key k0 wk.eps nm]
      simp [hnm]
    cases hfe : wk.findEp k0 with
    | none =>
      have heq : applyOp (wk, bk) (.svcDel k0) =
          ({ wk with svcs := wk.svcs.filter (·.key ≠ k0), eps := wk.eps.filter (·.key ≠ k0) },
            addLink bk ⟨.svc, k0⟩) := by simp [applyOp, hf, hfe]
      rw [heq]
      apply acc_obj (wk' := ({ wk with svcs := wk.svcs.filter (·.key ≠ k0), eps := wk.eps.filter (·.key ≠ k0) } : World))
        ha .svc (by intro h; cases h) k0 rfl rfl
      intro n hn
      apply read_upd
      · intro hk
        exact hsvc n.name (fun e => hn (by cases n; simp_all))
      · intro hk
        by_cases hnm : n.name = k0
        · unfold World.findEp at hfe ⊢
          simp only []
          rw [hnm, find_filter_ne Endpoints.key k0 wk.eps k0, hfe]
          simp
        · exact hep n.name hnm
      · intro _; rfl
    | some ep0 =>
      have heq : applyOp (wk, bk) (.svcDel k0) =
          ({ wk with svcs := wk.svcs.filter (·.key ≠ k0), eps := wk.eps.filter (·.key ≠ k0) },
            addLink (addLink bk ⟨.svc, k0⟩) ⟨.ep, k0⟩) := by simp [applyOp, hf, hfe]
      rw [heq]
      -- two steps: the service, then its endpoints
      have h1 : Acc w ({ wk with svcs := wk.svcs.filter (·.key ≠ k0) } : World) (addLink bk ⟨.svc, k0⟩) := by
        apply acc_obj (wk' := ({ wk with svcs := wk.svcs.filter (·.key ≠ k0) } : World)) ha .svc
          (by intro h; cases h) k0 rfl rfl
        intro n hn
        apply read_upd
        · intro hk
          unfold World.findSvc
          simp only []
          rw [find_filter_ne Service.key k0 wk.svcs n.name]
          have : n.name ≠ k0 := fun e => hn (by cases n; simp_all)
          simp [this]
        · intro _; rfl
        · intro _; rfl
      apply acc_obj (wk' := ({ wk with svcs := wk.svcs.filter (·.key ≠ k0), eps := wk.eps.filter (·.key ≠ k0) } : World))
        h1 .ep (by intro h; cases h) k0 rfl rfl
      intro n hn
      apply read_upd
      · intro _; rfl
      · intro hk
        unfold World.findEp
        simp only []
        rw [find_filter_ne Endpoints.key k0 wk.eps n.name]
        have : n.name ≠ k0 := fun e => hn (by cases n; simp_all)
        simp [this]
      · intro _; rfl

theorem acc_cmSet {w wk : World} {bk : Batch} (d : List (String × String)) (ha : Acc w wk bk) :
    Acc w (applyOp (wk, bk) (.cmSet d)).1 (applyOp (wk, bk) (.cmSet d)).2 := by
  have heq : applyOp (wk, bk) (.cmSet d) =
      ({ wk with cm := some d },
        { addLink bk ⟨.cm, "ingress-controller/haproxy-ingress"⟩ with cmNew := some d }) := rfl
  rw [heq]
  have h := acc_obj (wk' := ({ wk with cm := some d } : World)) ha .cm (by intro h; cases h)
    "ingress-controller/haproxy-ingress" rfl rfl (fun n _ => rfl)
  exact ⟨h.obj, h.ing, h.carried, h.events, h.del⟩

theorem acc_podSet {w wk : World} {bk : Batch} (p : Pod) (ha : Acc w wk bk) :
    Acc w (applyOp (wk, bk) (.podSet p)).1 (applyOp (wk, bk) (.podSet p)).2 := by
  cases hf : wk.findPod p.key with
  | none =>
    have heq : applyOp (wk, bk) (.podSet p) = ({ wk with pods := replaceBy Pod.key p wk.pods }, bk) := by
      simp [applyOp, hf]
    rw [heq]
    exact acc_same (wk' := ({ wk with pods := replaceBy Pod.key p wk.pods } : World)) ha rfl rfl (fun n => rfl)
  | some old =>
    by_cases ht : (old.term || p.term) = true
    · have heq : applyOp (wk, bk) (.podSet p) =
          ({ wk with pods := replaceBy Pod.key p wk.pods }, addLink bk ⟨.pod, p.key⟩) := by
        simp [applyOp, hf, ht]
      rw [heq]
      exact acc_obj (wk' := ({ wk with pods := replaceBy Pod.key p wk.pods } : World)) ha .pod
        (by intro h; cases h) p.key rfl rfl (fun n _ => rfl)
    · have heq : applyOp (wk, bk) (.podSet p) = ({ wk with pods := replaceBy Pod.key p wk.pods }, bk) := by
        simp only [Bool.not_eq_true] at ht
        simp [applyOp, hf, ht]
      rw [heq]
      exact acc_same (wk' := ({ wk with pods := replaceBy Pod.key p wk.pods } : World)) ha rfl rfl (fun n => rfl)

theorem acc_podDel {w wk : World} {bk : Batch} (k0 : String) (ha : Acc w wk bk) :
    Acc w (applyOp (wk, bk) (.podDel k0)).1 (applyOp (wk, bk) (.podDel k0)).2 := by
  cases hf : wk.findPod k0 with
  | none =>
    have heq : applyOp (wk, bk) (.podDel k0) = (wk, bk) := by simp [applyOp, hf]
    rw [heq]; exact ha
  | some old =>
    have heq : applyOp (wk, bk) (.podDel k0) =
        ({ wk with pods := wk.pods.filter (·.key ≠ k0) }, addLink bk ⟨.pod, k0⟩) := by simp [applyOp, hf]
    rw [heq]
    exact acc_obj (wk' := ({ wk with pods := wk.pods.filter (·.key ≠ k0) } : World)) ha .pod
      (by intro h; cases h) k0 rfl rfl (fun n _ => rfl)

/-! ### IngressClass events: either they ask for a full sync or no ingress changes validity -/

theorem valid_of_findCls {wk wk' : World}
    (h : ∀ c, (wk'.findCls c == some ourController) = (wk.findCls c == some ourController)) (i : Ingress) :
    wk'.valid i = wk.valid i := by
  unfold World.valid
  cases i.classAnn with
  | some a => rfl
  | none =>
    cases i.className with
    | none => rfl
    | some c => exact h c

theorem acc_cls {w wk wk' : World} {bk : Batch} (ha : Acc w wk bk)
    (hings : wk'.ings = wk.ings) (hsvcs : wk'.svcs = wk.svcs) (heps : wk'.eps = wk.eps) (hsecs : wk'.secs = wk.secs)
    (hcls : ∀ c, (wk'.findCls c == some ourController) = (wk.findCls c == some ourController)) :
    Acc w wk' bk := by
  have hvi : ∀ k, wk'.validIng k = wk.validIng k := by
    intro k
    unfold World.validIng World.findIng
    rw [hings]
    cases wk.ings.find? (fun x => decide (x.key = k)) with
    | none => rfl
    | some j => simp [Option.filter, valid_of_findCls hcls]
  have hread : ∀ n, wk'.read n = wk.read n := read_congr hsvcs heps hsecs
  refine ⟨?_, ?_, ?_, ha.events, ha.del⟩
  · intro n hn; rw [hread] at hn; exact ha.obj n hn
  · intro k hk; rw [hvi] at hk; exact ha.ing k hk
  · intro k j hl hvk; rw [hvi] at hvk; exact ha.carried k j hl hvk

theorem acc_clsSet {w wk : World} {bk : Batch} (n c : String) (ha : Acc w wk bk)
    (hfull : (applyOp (wk, bk) (.clsSet n c)).2.full = false) :
    Acc w (applyOp (wk, bk) (.clsSet n c)).1 (applyOp (wk, bk) (.clsSet n c)).2 := by
  by_cases hv : ((wk.findCls n == some ourController) || (c == ourController)) = true
  · have heq : applyOp (wk, bk) (.clsSet n c) =
        ({ wk with clss := replaceBy (·.1) (n, c) wk.clss }, { addLink bk ⟨.cls, n⟩ with full := true }) := by
      simp only [applyOp]
      rw [if_pos hv]
    rw [heq] at hfull
    simp at hfull
  · have heq : applyOp (wk, bk) (.clsSet n c) = ({ wk with clss := replaceBy (·.1) (n, c) wk.clss }, bk) := by
      simp only [applyOp]
      rw [if_neg hv]
    rw [heq]
    simp only [Bool.or_eq_true, not_or, Bool.not_eq_true] at hv
    apply acc_cls (wk' := ({ wk with clss := replaceBy (·.1) (n, c) wk.clss } : World)) ha rfl rfl rfl rfl
    intro cn
    unfold World.findCls
    simp only []
    rw [find_replaceBy (fun x : String × String => x.1) (n, c) wk.clss cn]
    by_cases hcn : cn = n
    · have h1 := hv.1
      have h2 := hv.2
      unfold World.findCls at h1
      rw [hcn]
      simp only [if_true, Option.map_some]
      rw [h1]
      simp [h2]
    · simp [hcn]

theorem acc_clsDel {w wk : World} {bk : Batch} (n : String) (ha : Acc w wk bk)
    (hfull : (applyOp (wk, bk) (.clsDel n)).2.full = false) :
    Acc w (applyOp (wk, bk) (.clsDel n)).1 (applyOp (wk, bk) (.clsDel n)).2 := by
  cases hf : wk.findCls n with
  | none =>
    have heq : applyOp (wk, bk) (.clsDel n) = (wk, bk) := by simp [applyOp, hf]
    rw [heq]; exact ha
  | some c =>
    by_cases hv : (c == ourController) = true
    · have heq : applyOp (wk, bk) (.clsDel n) =
          ({ wk with clss := wk.clss.filter (·.1 ≠ n) }, { addLink bk ⟨.cls, n⟩ with full := true }) := by
        simp only [applyOp, hf]
        rw [if_pos hv]
      rw [heq] at hfull
      simp at hfull
    · have heq : applyOp (wk, bk) (.clsDel n) = ({ wk with clss := wk.clss.filter (·.1 ≠ n) }, bk) := by
        simp only [applyOp, hf]
        rw [if_neg hv]
      rw [heq]
      apply acc_cls (wk' := ({ wk with clss := wk.clss.filter (·.1 ≠ n) } : World)) ha rfl rfl rfl rfl
      intro cn
      unfold World.findCls
      simp only []
      rw [find_filter_ne (fun x : String × String => x.1) n wk.clss cn]
      by_cases hcn : cn = n
      · subst hcn
        have h1 := hf
        unfold World.findCls at h1
        simp only [if_true, Option.map_none]
        rw [h1]
        simp only [Bool.not_eq_true] at hv
        simp [hv]
      · simp [hcn]

/-! ### a batch of operations -/

theorem applyOp_wf {wk : World} {bk : Batch} (op : Op) (hwf : wk.WF) : (applyOp (wk, bk) op).1.WF := by
  cases op with
  | ingSet i0 =>
    cases hf : wk.findIng i0.key with
    | none =>
      have hwf' : ({ wk with ings := wk.ings ++ [i0] } : World).WF := by
        unfold World.WF at *
        simp only [List.map_append, List.map_cons, List.map_nil]
        rw [List.nodup_append]
        refine ⟨hwf, by simp, ?_⟩
        intro a ha' b hb
        simp at hb
        subst hb
        exact fun e => mem_map_key_of_find Ingress.key wk.ings i0.key (by rw [← findIng_eq]; exact hf) (e ▸ ha')
      cases hv : wk.valid i0 <;> simp [applyOp, hf, hv] <;> exact hwf'
    | some old =>
      have hwf' := nodup_replaceBy Ingress.key ({ i0 with created := old.created } : Ingress) wk.ings hwf
      cases hov : wk.valid old <;> cases hnv : wk.valid ({ i0 with created := old.created } : Ingress) <;>
        simp [applyOp, hf, hov, hnv] <;> exact hwf'
  | ingDel k0 =>
    cases hf : wk.findIng k0 with
    | none => simp [applyOp, hf]; exact hwf
    | some old =>
      have hwf' : ∀ p : Ingress → Bool, ({ wk with ings := wk.ings.filter p } : World).WF := by
        intro p
        unfold World.WF at *
        exact hwf.sublist (List.Sublist.map _ List.filter_sublist)
      cases hov : wk.valid old <;> simp [applyOp, hf, hov] <;> exact hwf' _
  | svcSet s => exact hwf
  | svcDel k0 =>
    unfold applyOp; simp only []
    cases wk.findSvc k0 <;> exact hwf
  | epSet k0 r nr =>
    unfold applyOp; simp only []
    cases wk.findEp k0 with
    | none => exact hwf
    | some old =>
      simp only []
      by_cases h : old = mkEndpoints wk k0 r nr
      · simp only [h, if_true]; exact hwf
      · simp only [h, if_false]; exact hwf
  | epDel k0 =>
    unfold applyOp; simp only []
    cases wk.findEp k0 <;> exact hwf
  | secSet s => exact hwf
  | secDel k0 =>
    unfold applyOp; simp only []
    cases wk.findSec k0 <;> exact hwf
  | clsSet n c =>
    unfold applyOp; simp only []
    split <;> exact hwf
  | clsDel n =>
    unfold applyOp; simp only []
    cases wk.findCls n with
    | none => exact hwf
    | some c => simp only []; split <;> exact hwf
  | cmSet d => exact hwf
  | podSet p =>
    unfold applyOp; simp only []
    cases wk.findPod p.key with
    | none => exact hwf
    | some old => simp only []; split <;> exact hwf
  | podDel k0 =>
    unfold applyOp; simp only []
    cases wk.findPod k0 <;> exact hwf

/-- `full` is only ever set -/
theorem applyOp_full_mono {wk : World} {bk : Batch} (op : Op) (h : bk.full = true) :
    (applyOp (wk, bk) op).2.full = true := by
  cases op <;> unfold applyOp <;> simp only []
  all_goals (repeat' split) <;> simp [(addLink_fields _ _).2.2.2, h]

/-- LEMMA W: one operation preserves `Acc` unless it asks for a full sync -/
theorem acc_step {w wk : World} {bk : Batch} (op : Op) (ha : Acc w wk bk) (hwf : wk.WF)
    (hfull : (applyOp (wk, bk) op).2.full = false) :
    Acc w (applyOp (wk, bk) op).1 (applyOp (wk, bk) op).2 := by
  cases op with
  | ingSet i0 => exact (acc_ingSet i0 ha hwf).1
  | ingDel k0 => exact (acc_ingDel k0 ha hwf).1
  | svcSet s => exact acc_svcSet s ha
  | svcDel k0 => exact acc_svcDel k0 ha
  | epSet k0 r nr => exact acc_epSet k0 r nr ha
  | epDel k0 => exact acc_epDel k0 ha
  | secSet s => exact acc_secSet s ha
  | secDel k0 => exact acc_secDel k0 ha
  | clsSet n c => exact acc_clsSet n c ha hfull
  | clsDel n => exact acc_clsDel n ha hfull
  | cmSet d => exact acc_cmSet d ha
  | podSet p => exact acc_podSet p ha
  | podDel k0 => exact acc_podDel k0 ha

/-- the batch accumulated over a list of operations describes the change, unless it asks for a full sync -/
theorem acc_ops {w : World} (ops : List Op) (wk : World) (bk : Batch) (ha : Acc w wk bk) (hwf : wk.WF)
    (hfull : (ops.foldl applyOp (wk, bk)).2.full = false) :
    Acc w (ops.foldl applyOp (wk, bk)).1 (ops.foldl applyOp (wk, bk)).2 ∧ (ops.foldl applyOp (wk, bk)).1.WF := by
  induction ops generalizing wk bk with
  | nil => exact ⟨ha, hwf⟩
  | cons op ops ih =>
    simp only [List.foldl_cons] at hfull ⊢
    have hstep : (applyOp (wk, bk) op).2.full = false := by
      cases h : (applyOp (wk, bk) op).2.full with
      | false => rfl
      | true =>
        exfalso
        have : ∀ (l : List Op) (x : World × Batch), x.2.full = true → (l.foldl applyOp x).2.full = true := by
          intro l
          induction l with
          | nil => intro x hx; exact hx
          | cons o l ihl =>
            intro x hx
            simp only [List.foldl_cons]
            exact ihl _ (applyOp_full_mono (wk := x.1) (bk := x.2) o hx)
        have := this ops (applyOp (wk, bk) op) h
        rw [this] at hfull
        cases hfull
    exact ih (applyOp (wk, bk) op).1 (applyOp (wk, bk) op).2 (acc_step op ha hwf hstep) (applyOp_wf op hwf) hfull

theorem wf_ops (ops : List Op) (wk : World) (bk : Batch) (hwf : wk.WF) : (ops.foldl applyOp (wk, bk)).1.WF := by
  induction ops generalizing wk bk with
  | nil => exact hwf
  | cons op ops ih =>
    simp only [List.foldl_cons]
    exact ih _ _ (applyOp_wf op hwf)

/-- the batch of the watchers model satisfies the hypothesis of the step theorems (drain-support off) -/
theorem describes_of_ops {w : World} (ops : List Op) (hwf : w.WF)
    (hfull : (ops.foldl applyOp (w, {})).2.full = false)
    (hdr : w.drain = false) (hdr' : (ops.foldl applyOp (w, {})).1.drain = false) :
    Describes w (ops.foldl applyOp (w, {})).1 (ops.foldl applyOp (w, {})).2 := by
  obtain ⟨ha, _⟩ := acc_ops ops w {} (acc_init w) hwf hfull
  exact ⟨ha.obj, ha.ing, ha.carried, ha.events, ha.del, hdr, hdr'⟩

end HapVerif.C01
