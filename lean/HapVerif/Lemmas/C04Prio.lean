import HapVerif.Lemmas.C04Layout
/-!
# C04 — the append-only priority list: positions of entries and file types, `findFrom`,
`findOrCreate`.  Core only.
-/
namespace HapVerif.C04
open List

/-- entry `e` sits in file number `i` -/
def At (p : Layout) (i : Nat) (e : Entry) : Prop := ∃ f : PFile, p[i]? = some f ∧ e ∈ f.entries

/-- file number `i` exists and has type `t` -/
def TypeAt (p : Layout) (i : Nat) (t : MT) : Prop := ∃ f : PFile, p[i]? = some f ∧ f.mt = t

theorem TypeAt.unique {p : Layout} {i : Nat} {t t' : MT} (h : TypeAt p i t) (h' : TypeAt p i t') :
    t = t' := by
  obtain ⟨f, hf, rfl⟩ := h
  obtain ⟨f', hf', rfl⟩ := h'
  rw [hf] at hf'; cases hf'; rfl

theorem TypeAt.lt {p : Layout} {i : Nat} {t : MT} (h : TypeAt p i t) : i < p.length := by
  obtain ⟨f, hf, _⟩ := h
  exact (List.getElem?_eq_some_iff.1 hf).1

theorem typeAt_of_lt {p : Layout} {i : Nat} (h : i < p.length) : ∃ t, TypeAt p i t :=
  ⟨p[i].mt, p[i], getElem?_eq_getElem h, rfl⟩

theorem At.lt {p : Layout} {i : Nat} {e : Entry} (h : At p i e) : i < p.length := by
  obtain ⟨f, hf, _⟩ := h
  exact (List.getElem?_eq_some_iff.1 hf).1

theorem mem_flatMap_iff_at {p : Layout} {e : Entry} :
    e ∈ p.flatMap (·.entries) ↔ ∃ i, At p i e := by
  rw [mem_flatMap]
  constructor
  · rintro ⟨f, hf, he⟩
    obtain ⟨i, hi⟩ := mem_iff_getElem?.1 hf
    exact ⟨i, f, hi, he⟩
  · rintro ⟨i, f, hi, he⟩
    exact ⟨f, mem_of_getElem? hi, he⟩

/-- the list only grows: length, file types and members are kept -/
structure Ext (p p' : Layout) : Prop where
  len : p.length ≤ p'.length
  typ : ∀ i t, TypeAt p i t → TypeAt p' i t
  ent : ∀ i e, At p i e → At p' i e

theorem Ext.refl (p : Layout) : Ext p p := ⟨Nat.le_refl _, fun _ _ h => h, fun _ _ h => h⟩

theorem Ext.trans {p q r : Layout} (a : Ext p q) (b : Ext q r) : Ext p r :=
  ⟨Nat.le_trans a.len b.len, fun i t h => b.typ i t (a.typ i t h), fun i e h => b.ent i e (a.ent i e h)⟩

/-- types of old positions do not change -/
theorem Ext.typ_back {p p' : Layout} (x : Ext p p') {i : Nat} {t : MT} (hi : i < p.length)
    (h : TypeAt p' i t) : TypeAt p i t := by
  obtain ⟨t0, h0⟩ := typeAt_of_lt hi
  have := (x.typ i t0 h0).unique h
  rw [← this]; exact h0

/-! ### findFrom -/

theorem getD_mt {p : Layout} {j : Nat} {f : PFile} (h : p[j]? = some f) :
    (p.getD j ⟨.exact, []⟩).mt = f.mt := by
  simp [getD_eq_getElem?_getD, h]

theorem findFrom_some {p : Layout} {t : MT} {s j : Nat} (h : findFrom p t s = some j) :
    s ≤ j ∧ TypeAt p j t ∧ ∀ k, s ≤ k → k < j → ¬ TypeAt p k t := by
  unfold findFrom at h
  rw [range_eq_range', drop_range', find?_range'_eq_some] at h
  obtain ⟨h1, h2, h3⟩ := h
  rw [mem_range'_1] at h2
  have hj : j < p.length := by omega
  refine ⟨by omega, ⟨p[j], getElem?_eq_getElem hj, ?_⟩, ?_⟩
  · rw [getD_mt (getElem?_eq_getElem hj)] at h1
    simpa using h1
  · intro k hk hkj ⟨f, hf, hft⟩
    have := h3 k (by omega) hkj
    rw [getD_mt hf] at this
    simp [hft] at this

theorem findFrom_none {p : Layout} {t : MT} {s : Nat} (h : findFrom p t s = none) :
    ∀ k, s ≤ k → ¬ TypeAt p k t := by
  unfold findFrom at h
  rw [range_eq_range', drop_range', find?_range'_eq_none] at h
  intro k hk ⟨f, hf, hft⟩
  have hlt : k < p.length := (List.getElem?_eq_some_iff.1 hf).1
  have := h k (by omega) (by omega)
  rw [getD_mt hf] at this
  simp [hft] at this

/-! ### findOrCreate -/

theorem at_append_single {p : Layout} {f : PFile} {i : Nat} {x : Entry} :
    At (p ++ [f]) i x ↔ At p i x ∨ (i = p.length ∧ x ∈ f.entries) := by
  unfold At
  constructor
  · rintro ⟨g, hg, hx⟩
    rw [getElem?_append] at hg
    split at hg
    · exact Or.inl ⟨g, hg, hx⟩
    · rename_i hlt
      have : i - p.length = 0 := by
        cases hh : i - p.length with
        | zero => rfl
        | succ n => rw [hh] at hg; simp at hg
      rw [this] at hg
      simp at hg
      subst hg
      exact Or.inr ⟨by omega, hx⟩
  · rintro (⟨g, hg, hx⟩ | ⟨rfl, hx⟩)
    · exact ⟨g, by rw [getElem?_append_left (List.getElem?_eq_some_iff.1 hg).1]; exact hg, hx⟩
    · exact ⟨f, by simp, hx⟩

theorem typeAt_append_single {p : Layout} {f : PFile} {i : Nat} {t : MT} :
    TypeAt (p ++ [f]) i t ↔ TypeAt p i t ∨ (i = p.length ∧ f.mt = t) := by
  unfold TypeAt
  constructor
  · rintro ⟨g, hg, hx⟩
    rw [getElem?_append] at hg
    split at hg
    · exact Or.inl ⟨g, hg, hx⟩
    · rename_i hlt
      have : i - p.length = 0 := by
        cases hh : i - p.length with
        | zero => rfl
        | succ n => rw [hh] at hg; simp at hg
      rw [this] at hg
      simp at hg
      subst hg
      exact Or.inr ⟨by omega, hx⟩
  · rintro (⟨g, hg, hx⟩ | ⟨rfl, hx⟩)
    · exact ⟨g, by rw [getElem?_append_left (List.getElem?_eq_some_iff.1 hg).1]; exact hg, hx⟩
    · exact ⟨f, by simp, hx⟩

/-- adding one entry to file `j` -/
def addAt (p : Layout) (j : Nat) (e : Entry) : Layout :=
  p.modify j (fun f => { f with entries := f.entries ++ [e] })

theorem at_addAt {p : Layout} {j : Nat} {e : Entry} (hj : j < p.length) {i : Nat} {x : Entry} :
    At (addAt p j e) i x ↔ At p i x ∨ (x = e ∧ i = j) := by
  unfold At addAt
  simp only [getElem?_modify]
  constructor
  · rintro ⟨g, hg, hx⟩
    cases hp : p[i]? with
    | none => rw [hp] at hg; simp at hg
    | some f =>
      rw [hp] at hg
      simp only [Option.map_eq_map, Option.map_some, Option.some.injEq] at hg
      by_cases hji : j = i
      · subst hji
        simp only [if_true] at hg
        subst hg
        simp only [mem_append, mem_singleton] at hx
        rcases hx with hx | hx
        · exact Or.inl ⟨f, rfl, hx⟩
        · exact Or.inr ⟨hx, rfl⟩
      · simp only [hji, if_false] at hg
        subst hg
        exact Or.inl ⟨f, rfl, hx⟩
  · rintro (⟨f, hf, hx⟩ | ⟨rfl, rfl⟩)
    · rw [hf]
      by_cases hji : j = i
      · exact ⟨{ f with entries := f.entries ++ [e] }, by simp [hji], by simp [hx]⟩
      · exact ⟨f, by simp [hji], hx⟩
    · rw [getElem?_eq_getElem hj]
      exact ⟨{ p[i] with entries := p[i].entries ++ [x] }, by simp, by simp⟩

theorem typeAt_addAt {p : Layout} {j : Nat} {e : Entry} {i : Nat} {t : MT} :
    TypeAt (addAt p j e) i t ↔ TypeAt p i t := by
  unfold TypeAt addAt
  simp only [getElem?_modify]
  cases hp : p[i]? with
  | none => simp
  | some f =>
    by_cases hji : j = i <;> simp [hji]

theorem flatMap_addAt_perm {p : Layout} {j : Nat} {e : Entry} (hj : j < p.length) :
    ((addAt p j e).flatMap (·.entries)).Perm (e :: p.flatMap (·.entries)) := by
  unfold addAt
  induction p generalizing j with
  | nil => simp at hj
  | cons f p ih =>
    cases j with
    | zero =>
      simp only [modify_cons, if_true, flatMap_cons, append_assoc]
      exact perm_middle
    | succ j =>
      simp only [modify_succ_cons, flatMap_cons]
      have := ih (j := j) (by simpa using hj)
      exact (Perm.append_left f.entries this).trans perm_middle

/-- everything `processHost` needs to know about one call of `findOrCreate` -/
structure FocSpec (p : Layout) (e : Entry) (up : Option Nat) (p1 : Layout) (j : Nat) : Prop where
  at_iff : ∀ i x, At p1 i x ↔ At p i x ∨ (x = e ∧ i = j)
  typ_iff : ∀ i t, TypeAt p1 i t ↔ TypeAt p i t ∨ (i = j ∧ t = e.mt)
  typ_j : TypeAt p1 j e.mt
  len : p.length ≤ p1.length
  ge : (∀ u, up = some u → u < p.length) → up.getD 0 ≤ j
  first : ∀ k, up.getD 0 ≤ k → k < j → ¬ TypeAt p1 k e.mt
  perm : (p1.flatMap (·.entries)).Perm (e :: p.flatMap (·.entries))

theorem findOrCreate_spec (p : Layout) (e : Entry) (up : Option Nat) :
    FocSpec p e up (findOrCreate p e up).1 (findOrCreate p e up).2 := by
  unfold findOrCreate
  cases hf : findFrom p e.mt (up.getD 0) with
  | some j =>
    obtain ⟨h1, h2, h3⟩ := findFrom_some hf
    have hj := h2.lt
    show FocSpec p e up (addAt p j e) j
    refine ⟨fun i x => at_addAt hj, ?_, typeAt_addAt.2 h2, by simp [addAt], fun _ => h1, ?_,
      flatMap_addAt_perm hj⟩
    · intro i t
      rw [typeAt_addAt]
      constructor
      · exact Or.inl
      · rintro (h | ⟨rfl, rfl⟩)
        · exact h
        · exact h2
    · intro k hk hkj hc
      exact h3 k hk hkj (typeAt_addAt.1 hc)
  | none =>
    have hn := findFrom_none hf
    show FocSpec p e up (p ++ [⟨e.mt, [e]⟩]) p.length
    refine ⟨?_, ?_, typeAt_append_single.2 (Or.inr ⟨rfl, rfl⟩), by simp, ?_, ?_, ?_⟩
    · intro i x
      rw [at_append_single]
      simp only [mem_singleton]
      constructor
      · rintro (h | ⟨h1, h2⟩)
        · exact Or.inl h
        · exact Or.inr ⟨h2, h1⟩
      · rintro (h | ⟨h1, h2⟩)
        · exact Or.inl h
        · exact Or.inr ⟨h2, h1⟩
    · intro i t
      rw [typeAt_append_single]
      constructor
      · rintro (h | ⟨h1, h2⟩)
        · exact Or.inl h
        · exact Or.inr ⟨h1, h2.symm⟩
      · rintro (h | ⟨h1, h2⟩)
        · exact Or.inl h
        · exact Or.inr ⟨h1, h2.symm⟩
    · intro hu
      cases up with
      | none => simp
      | some u => simpa using Nat.le_of_lt (hu u rfl)
    · intro k hk hkj hc
      rcases typeAt_append_single.1 hc with h | ⟨h, _⟩
      · exact hn k hk h
      · omega
    · simp only [flatMap_append, flatMap_cons, flatMap_nil, append_nil]
      exact perm_append_comm

theorem FocSpec.ext {p p1 : Layout} {e : Entry} {up : Option Nat} {j : Nat}
    (s : FocSpec p e up p1 j) : Ext p p1 :=
  ⟨s.len, fun i t h => (s.typ_iff i t).2 (Or.inl h), fun i x h => (s.at_iff i x).2 (Or.inl h)⟩

end HapVerif.C04
