import Mathlib.Tactic.Ring
import Mathlib.Tactic.Linarith
import Mathlib.Tactic.Positivity
import Mathlib.Tactic.FieldSimp
import Mathlib.Data.Rat.Floor
import HapVerif.Model.C16
/-!
# C16 — integer layer of `RebalanceWeight`

Facts about `lcmCount`, `clusterWeight` and the accumulator `accAll` that every later proof
(exact arithmetic and binary32) uses:

* every non-empty cluster's length divides `lcmCount` (`len_dvd_lcmCount`), so
  `clusterWeight` is the exact quotient `weight * lcm / length` (`clusterWeight_cast`);
* `accAll`: either no active cluster was seen (`g = 0`) or `0 < g`, `0 < mn ≤ cw ≤ mx`
  for every active cluster (`accAll_spec`), and `g ∣ cw` (`accAll_g_dvd`).

Hypotheses on the input are collected in `WFIn`.
-/
namespace HapVerif.C16

/-- well-formed input: weights in `0..256`, lengths `≥ 0`, `1 ≤ initial ≤ 256` -/
structure WFIn (cls : List Cluster) (initial : Int) : Prop where
  wlo : ∀ c ∈ cls, 0 ≤ c.weight
  whi : ∀ c ∈ cls, c.weight ≤ 256
  len : ∀ c ∈ cls, 0 ≤ c.length
  ilo : 1 ≤ initial
  ihi : initial ≤ 256

/-! ## gcd / lcm -/

theorem gcdI_eq (a b : Int) : gcdI a b = (Int.gcd a b : Int) := rfl

theorem gcdI_pos_left {a : Int} (b : Int) (ha : 0 < a) : 0 < gcdI a b := by
  rw [gcdI_eq]
  have : 0 < Int.gcd a b := Int.gcd_pos_of_ne_zero_left _ (by omega)
  exact_mod_cast this

theorem gcdI_dvd_left (a b : Int) : gcdI a b ∣ a := Int.gcd_dvd_left a b
theorem gcdI_dvd_right (a b : Int) : gcdI a b ∣ b := Int.gcd_dvd_right a b

theorem lcmI_spec {a b : Int} (ha : 0 < a) (hb : 0 < b) :
    0 < lcmI a b ∧ a ∣ lcmI a b ∧ b ∣ lcmI a b := by
  unfold lcmI
  have hg := gcdI_pos_left b ha
  obtain ⟨a', ha'⟩ := gcdI_dvd_left a b
  obtain ⟨b', hb'⟩ := gcdI_dvd_right a b
  have hbdiv : b / gcdI a b = b' := Int.ediv_eq_of_eq_mul_right (ne_of_gt hg) hb'
  rw [hbdiv]
  have hb'pos : 0 < b' := by
    have hb2 : 0 < gcdI a b * b' := hb' ▸ hb
    exact (mul_pos_iff_of_pos_left hg).1 hb2
  refine ⟨Int.mul_pos ha hb'pos, Dvd.intro _ rfl, ?_⟩
  refine ⟨a', ?_⟩
  calc a * b' = (gcdI a b * a') * b' := by rw [← ha']
    _ = (gcdI a b * b') * a' := by ring
    _ = b * a' := by rw [← hb']

/-! ## lcmCount -/

def lcmStep (acc : Int) (cl : Cluster) : Int :=
  if cl.length = 0 then acc else if acc > 0 then lcmI acc cl.length else cl.length

theorem lcmCount_eq (cls : List Cluster) : lcmCount cls = cls.foldl lcmStep 0 := rfl

theorem lcmStep_spec {acc : Int} {c : Cluster} (hacc : 0 ≤ acc) (hc : 0 ≤ c.length) :
    0 ≤ lcmStep acc c ∧ (0 < acc → acc ∣ lcmStep acc c ∧ 0 < lcmStep acc c) ∧
    (c.length ≠ 0 → c.length ∣ lcmStep acc c ∧ 0 < lcmStep acc c) := by
  unfold lcmStep
  by_cases h0 : c.length = 0
  · simp [h0, hacc]
  · have hpos : 0 < c.length := by omega
    by_cases ha : acc > 0
    · have := lcmI_spec ha hpos
      rw [if_neg h0, if_pos ha]
      exact ⟨by omega, fun _ => ⟨this.2.1, this.1⟩, fun _ => ⟨this.2.2, this.1⟩⟩
    · rw [if_neg h0, if_neg ha]
      exact ⟨by omega, fun h => absurd h ha, fun _ => ⟨Int.dvd_refl _, hpos⟩⟩

theorem lcmFold_spec (cls : List Cluster) : ∀ (acc : Int), 0 ≤ acc → (∀ c ∈ cls, 0 ≤ c.length) →
    0 ≤ cls.foldl lcmStep acc ∧
    (0 < acc → acc ∣ cls.foldl lcmStep acc ∧ 0 < cls.foldl lcmStep acc) ∧
    (∀ c ∈ cls, c.length ≠ 0 → c.length ∣ cls.foldl lcmStep acc ∧ 0 < cls.foldl lcmStep acc) := by
  induction cls with
  | nil => intro acc h _; simp [h]
  | cons c cs ih =>
    intro acc hacc hlen
    have hc := hlen c (by simp)
    have hs := lcmStep_spec hacc hc
    have := ih (lcmStep acc c) hs.1 (fun x hx => hlen x (by simp [hx]))
    simp only [List.foldl_cons]
    refine ⟨this.1, ?_, ?_⟩
    · intro hp
      have h1 := hs.2.1 hp
      have h2 := this.2.1 h1.2
      exact ⟨Int.dvd_trans h1.1 h2.1, h2.2⟩
    · intro x hx hx0
      rcases List.mem_cons.1 hx with rfl | hx
      · have h1 := hs.2.2 hx0
        have h2 := this.2.1 h1.2
        exact ⟨Int.dvd_trans h1.1 h2.1, h2.2⟩
      · exact this.2.2 x hx hx0

theorem lcmCount_nonneg {cls : List Cluster} (hlen : ∀ c ∈ cls, 0 ≤ c.length) :
    0 ≤ lcmCount cls := (lcmFold_spec cls 0 (by omega) hlen).1

/-- every non-empty cluster's length divides the lcm, which is then positive -/
theorem len_dvd_lcmCount {cls : List Cluster} (hlen : ∀ c ∈ cls, 0 ≤ c.length)
    {c : Cluster} (hc : c ∈ cls) (h0 : c.length ≠ 0) :
    c.length ∣ lcmCount cls ∧ 0 < lcmCount cls :=
  (lcmFold_spec cls 0 (by omega) hlen).2.2 c hc h0

/-! ## clusterWeight -/

theorem clusterWeight_eq {lcm : Int} {c : Cluster} (hd : c.length ∣ lcm) :
    clusterWeight lcm c = c.weight * (lcm / c.length) := by
  unfold clusterWeight
  rw [Int.tdiv_eq_ediv_of_dvd (Dvd.dvd.mul_left hd _), Int.mul_ediv_assoc _ hd]

/-- `clusterWeight` is the exact rational quotient -/
theorem clusterWeight_cast {lcm : Int} {c : Cluster} (hd : c.length ∣ lcm) (hl : c.length ≠ 0) :
    ((clusterWeight lcm c : Int) : Rat) = (c.weight : Rat) * (lcm : Rat) / (c.length : Rat) := by
  rw [clusterWeight_eq hd]
  obtain ⟨k, hk⟩ := hd
  have hl' : (c.length : Rat) ≠ 0 := by exact_mod_cast hl
  rw [hk, Int.mul_ediv_cancel_left _ hl]
  push_cast
  field_simp

theorem clusterWeight_cast_ratio {lcm : Int} {c : Cluster} (hd : c.length ∣ lcm) (hl : c.length ≠ 0) :
    ((clusterWeight lcm c : Int) : Rat) = ratio c * (lcm : Rat) := by
  rw [clusterWeight_cast hd hl, ratio]; ring

theorem clusterWeight_pos {lcm : Int} {c : Cluster} (hd : c.length ∣ lcm) (hl : 0 < c.length)
    (hL : 0 < lcm) (hw : 0 < c.weight) : 0 < clusterWeight lcm c := by
  rw [clusterWeight_eq hd]
  obtain ⟨k, hk⟩ := hd
  rw [hk, Int.mul_ediv_cancel_left _ (by omega)]
  have : 0 < k := by
    by_contra h
    have : c.length * k ≤ 0 := Int.mul_nonpos_of_nonneg_of_nonpos (by omega) (by omega)
    omega
  exact Int.mul_pos hw this

theorem clusterWeight_zero {lcm : Int} {c : Cluster} (hw : c.weight = 0) : clusterWeight lcm c = 0 := by
  simp [clusterWeight, hw]

/-! ## the accumulator -/

def active (c : Cluster) : Prop := ¬ (c.length = 0 ∨ c.weight = 0)

instance (c : Cluster) : Decidable (active c) := by unfold active; infer_instance

/-- invariant of the second loop -/
def AccInv (lcm : Int) (seen : List Cluster) (a : Acc) : Prop :=
  (a.g = 0 ∧ a.mn = -1 ∧ a.mx = 0 ∧ ∀ c ∈ seen, ¬ active c) ∨
  (0 < a.g ∧ 0 < a.mn ∧ a.mn ≤ a.mx ∧
    (∀ c ∈ seen, active c → a.g ∣ clusterWeight lcm c ∧ a.mn ≤ clusterWeight lcm c ∧
      clusterWeight lcm c ≤ a.mx) ∧
    (∃ c ∈ seen, active c ∧ a.mn = clusterWeight lcm c) ∧
    (∃ c ∈ seen, active c ∧ a.mx = clusterWeight lcm c))

theorem accStep_inv {lcm : Int} {seen : List Cluster} {a : Acc} {c : Cluster}
    (hpos : active c → 0 < clusterWeight lcm c) (h : AccInv lcm seen a) :
    AccInv lcm (seen ++ [c]) (accStep lcm a c) := by
  unfold accStep
  by_cases hc : c.length = 0 ∨ c.weight = 0
  · rw [if_pos hc]
    rcases h with ⟨h1, h2, h3, h4⟩ | ⟨h1, h2, h3, h4, ⟨p, hp, hp'⟩, ⟨q, hq, hq'⟩⟩
    · left; refine ⟨h1, h2, h3, ?_⟩
      intro x hx
      rcases List.mem_append.1 hx with hx | hx
      · exact h4 x hx
      · simp at hx; subst hx; exact fun h => h hc
    · right; refine ⟨h1, h2, h3, ?_, ⟨p, by simp [hp], hp'⟩, ⟨q, by simp [hq], hq'⟩⟩
      intro x hx hax
      rcases List.mem_append.1 hx with hx | hx
      · exact h4 x hx hax
      · simp at hx; subst hx; exact absurd hc hax
  · rw [if_neg hc]
    have hcw := hpos hc
    right
    rcases h with ⟨h1, h2, h3, h4⟩ | ⟨h1, h2, h3, h4, ⟨p, hp, hp', hpe⟩, ⟨q, hq, hq', hqe⟩⟩
    · simp only [h1, h2, h3]
      have e1 : ¬ ((0:Int) > 0) := by omega
      have e2 : (clusterWeight lcm c < -1 ∨ (-1:Int) < 0) := Or.inr (by omega)
      have e3 : clusterWeight lcm c > 0 := hcw
      rw [if_neg e1, if_pos e2, if_pos e3]
      refine ⟨hcw, hcw, Int.le_refl _, ?_, ⟨c, by simp, hc, rfl⟩, ⟨c, by simp, hc, rfl⟩⟩
      intro x hx hax
      rcases List.mem_append.1 hx with hx | hx
      · exact absurd hax (h4 x hx)
      · simp at hx; subst hx; exact ⟨Int.dvd_refl _, Int.le_refl _, Int.le_refl _⟩
    · have e1 : a.g > 0 := h1
      simp only [e1, if_true]
      refine ⟨gcdI_pos_left _ h1, ?_, ?_, ?_, ?_, ?_⟩
      · split <;> omega
      · split <;> split <;> omega
      · intro x hx hax
        rcases List.mem_append.1 hx with hx | hx
        · have := h4 x hx hax
          refine ⟨Int.dvd_trans (gcdI_dvd_left _ _) this.1, ?_, ?_⟩
          · split <;> omega
          · split <;> omega
        · simp at hx; subst hx
          refine ⟨gcdI_dvd_right _ _, ?_, ?_⟩
          · split <;> omega
          · split <;> omega
      · by_cases hlt : clusterWeight lcm c < a.mn ∨ a.mn < 0
        · exact ⟨c, by simp, hc, by rw [if_pos hlt]⟩
        · exact ⟨p, by simp [hp], hp', by rw [if_neg hlt]; exact hpe⟩
      · by_cases hgt : clusterWeight lcm c > a.mx
        · exact ⟨c, by simp, hc, by rw [if_pos hgt]⟩
        · exact ⟨q, by simp [hq], hq', by rw [if_neg hgt]; exact hqe⟩

theorem accFold_inv {lcm : Int} (cls : List Cluster) : ∀ (seen : List Cluster) (a : Acc),
    (∀ c ∈ cls, active c → 0 < clusterWeight lcm c) → AccInv lcm seen a →
    AccInv lcm (seen ++ cls) (cls.foldl (accStep lcm) a) := by
  induction cls with
  | nil => intro seen a _ h; simpa using h
  | cons c cs ih =>
    intro seen a hpos h
    have h1 := accStep_inv (hpos c (by simp)) h
    have := ih (seen ++ [c]) _ (fun x hx => hpos x (by simp [hx])) h1
    simpa using this

theorem accAll_inv {lcm : Int} {cls : List Cluster}
    (hpos : ∀ c ∈ cls, active c → 0 < clusterWeight lcm c) : AccInv lcm cls (accAll lcm cls) := by
  have := accFold_inv (lcm := lcm) cls [] {} hpos (Or.inl ⟨rfl, rfl, rfl, by simp⟩)
  simpa [accAll] using this

theorem active_pos {cls : List Cluster} {initial : Int} (h : WFIn cls initial) {c : Cluster}
    (hc : c ∈ cls) (ha : active c) : 0 < c.length ∧ 0 < c.weight := by
  have := h.wlo c hc; have := h.len c hc
  unfold active at ha
  omega

theorem active_cw_pos {cls : List Cluster} {initial : Int} (h : WFIn cls initial) :
    ∀ c ∈ cls, active c → 0 < clusterWeight (lcmCount cls) c := by
  intro c hc ha
  have hp := active_pos h hc ha
  have hd := len_dvd_lcmCount h.len hc (by omega)
  exact clusterWeight_pos hd.1 hp.1 hd.2 hp.2

/-- all facts about the accumulator in the non-degenerate case `g ≠ 0` -/
theorem accAll_spec {cls : List Cluster} {initial : Int} (h : WFIn cls initial)
    (hg : (accAll (lcmCount cls) cls).g ≠ 0) :
    let a := accAll (lcmCount cls) cls
    0 < a.g ∧ 0 < a.mn ∧ a.mn ≤ a.mx ∧
    (∀ c ∈ cls, active c → a.g ∣ clusterWeight (lcmCount cls) c ∧
      a.mn ≤ clusterWeight (lcmCount cls) c ∧ clusterWeight (lcmCount cls) c ≤ a.mx) ∧
    (∃ c ∈ cls, active c ∧ a.mn = clusterWeight (lcmCount cls) c) ∧
    (∃ c ∈ cls, active c ∧ a.mx = clusterWeight (lcmCount cls) c) := by
  rcases accAll_inv (active_cw_pos h) with ⟨h1, _⟩ | h1
  · exact absurd h1 hg
  · exact h1

/-- in the degenerate case `g = 0` no cluster is active -/
theorem accAll_g_zero {cls : List Cluster} {initial : Int} (h : WFIn cls initial)
    (hg : (accAll (lcmCount cls) cls).g = 0) : ∀ c ∈ cls, ¬ active c := by
  rcases accAll_inv (active_cw_pos h) with ⟨_, _, _, h4⟩ | ⟨h1, _⟩
  · exact h4
  · omega

end HapVerif.C16
