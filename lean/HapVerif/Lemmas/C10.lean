import HapVerif.Model.C10
/-!
# C10 — helper lemmas (core-only)

* `firsts`: "first declared wins" (an element is kept iff no earlier element has its key);
* the code's admission tests (`refersGateway`, `classOurs`, `findGateway`, `sectionOK`, `kindAllowed`,
  `termValid`/`termMatch`, `nsAllowed`, `listenerAllowed`, `resolveParent`) against the declarative
  Spec predicates, under object identity (`WF`);
* where an event of `events` comes from (the loop nest of `Sync`).
-/
namespace HapVerif.C10

section Firsts
variable {α κ : Type} [DecidableEq κ]

theorem foldl_addFirst_mem (key : α → κ) (l acc : List α) (x : α) :
    x ∈ l.foldl (addFirst key) acc ↔
      x ∈ acc ∨ ∃ pre post, l = pre ++ x :: post ∧ (∀ z ∈ acc, key z ≠ key x) ∧ ∀ z ∈ pre, key z ≠ key x := by
  induction l generalizing acc with
  | nil => simp
  | cons a t ih =>
    rw [List.foldl_cons, ih]
    unfold addFirst
    by_cases hk : acc.any (fun y => key y = key a) = true
    · rw [if_pos hk]
      simp only [List.any_eq_true, decide_eq_true_eq] at hk
      obtain ⟨z0, hz0, hz0k⟩ := hk
      constructor
      · rintro (h | ⟨pre, post, rfl, h1, h2⟩)
        · exact Or.inl h
        · refine Or.inr ⟨a :: pre, post, rfl, h1, ?_⟩
          intro z hz
          rcases List.mem_cons.1 hz with rfl | hz
          · have := h1 z0 hz0; rw [hz0k] at this; exact this
          · exact h2 z hz
      · rintro (h | ⟨pre, post, heq, h1, h2⟩)
        · exact Or.inl h
        · cases pre with
          | nil =>
            simp only [List.nil_append, List.cons.injEq] at heq
            obtain ⟨rfl, rfl⟩ := heq
            exact absurd hz0k (h1 z0 hz0)
          | cons p pre =>
            simp only [List.cons_append, List.cons.injEq] at heq
            obtain ⟨rfl, rfl⟩ := heq
            exact Or.inr ⟨pre, post, rfl, h1, fun z hz => h2 z (List.mem_cons_of_mem _ hz)⟩
    · rw [if_neg hk]
      simp only [List.any_eq_true, decide_eq_true_eq, not_exists, not_and] at hk
      constructor
      · rintro (h | ⟨pre, post, rfl, h1, h2⟩)
        · rcases List.mem_append.1 h with h | h
          · exact Or.inl h
          · simp only [List.mem_singleton] at h
            subst h
            exact Or.inr ⟨[], t, rfl, hk, by simp⟩
        · refine Or.inr ⟨a :: pre, post, rfl, fun z hz => h1 z (List.mem_append_left _ hz), ?_⟩
          intro z hz
          rcases List.mem_cons.1 hz with rfl | hz
          · exact h1 z (List.mem_append_right _ (List.mem_singleton.2 rfl))
          · exact h2 z hz
      · rintro (h | ⟨pre, post, heq, h1, h2⟩)
        · exact Or.inl (List.mem_append_left _ h)
        · cases pre with
          | nil =>
            simp only [List.nil_append, List.cons.injEq] at heq
            obtain ⟨rfl, rfl⟩ := heq
            exact Or.inl (List.mem_append_right _ (List.mem_singleton.2 rfl))
          | cons p pre =>
            simp only [List.cons_append, List.cons.injEq] at heq
            obtain ⟨rfl, rfl⟩ := heq
            refine Or.inr ⟨pre, post, rfl, ?_, fun z hz => h2 z (List.mem_cons_of_mem _ hz)⟩
            intro z hz
            rcases List.mem_append.1 hz with hz | hz
            · exact h1 z hz
            · simp only [List.mem_singleton] at hz
              subst hz
              exact h2 z (List.mem_cons_self ..)

/-- an element is kept iff no earlier element has its key -/
theorem mem_firsts (key : α → κ) (l : List α) (x : α) :
    x ∈ firsts key l ↔ ∃ pre post, l = pre ++ x :: post ∧ ∀ z ∈ pre, key z ≠ key x := by
  unfold firsts
  rw [foldl_addFirst_mem]
  simp

theorem firsts_sub {key : α → κ} {l : List α} {x : α} (h : x ∈ firsts key l) : x ∈ l := by
  obtain ⟨pre, post, rfl, _⟩ := (mem_firsts key l x).1 h
  simp

theorem first_with_key (key : α → κ) (l : List α) (x : α) (hx : x ∈ l) :
    ∃ pre y post, l = pre ++ y :: post ∧ key y = key x ∧ ∀ z ∈ pre, key z ≠ key x := by
  induction l with
  | nil => cases hx
  | cons a t ih =>
    by_cases hk : key a = key x
    · exact ⟨[], a, t, rfl, hk, by simp⟩
    · have hxt : x ∈ t := by
        rcases List.mem_cons.1 hx with rfl | h
        · exact absurd rfl hk
        · exact h
      obtain ⟨pre, y, post, rfl, h1, h2⟩ := ih hxt
      refine ⟨a :: pre, y, post, rfl, h1, ?_⟩
      intro z hz
      rcases List.mem_cons.1 hz with rfl | hz
      · exact hk
      · exact h2 z hz

/-- every key that occurs is kept, by its first occurrence -/
theorem firsts_complete (key : α → κ) (l : List α) (x : α) (hx : x ∈ l) :
    ∃ y ∈ firsts key l, key y = key x ∧
      ∃ pre post, l = pre ++ y :: post ∧ ∀ z ∈ pre, key z ≠ key y := by
  obtain ⟨pre, y, post, h, hk, hp⟩ := first_with_key key l x hx
  refine ⟨y, (mem_firsts key l y).2 ⟨pre, post, h, fun z hz => hk ▸ hp z hz⟩, hk, pre, post, h, fun z hz => hk ▸ hp z hz⟩

/-- one element per key -/
theorem firsts_key_inj (key : α → κ) (l : List α) (x y : α)
    (hx : x ∈ firsts key l) (hy : y ∈ firsts key l) (hk : key x = key y) : x = y := by
  obtain ⟨p1, q1, h1, n1⟩ := (mem_firsts key l x).1 hx
  obtain ⟨p2, q2, h2, n2⟩ := (mem_firsts key l y).1 hy
  rw [h1] at h2
  rcases List.append_eq_append_iff.1 h2 with ⟨a', ha, hb⟩ | ⟨c', hc, hd⟩
  · cases a' with
    | nil => simp at hb; exact hb.1
    | cons a a' =>
      simp only [List.cons_append, List.cons.injEq] at hb
      obtain ⟨rfl, _⟩ := hb
      have : x ∈ p2 := by rw [ha]; simp
      exact absurd hk (n2 x this)
  · cases c' with
    | nil => simp at hd; exact hd.1.symm
    | cons c c' =>
      simp only [List.cons_append, List.cons.injEq] at hd
      obtain ⟨rfl, _⟩ := hd
      have : y ∈ p1 := by rw [hc]; simp
      exact absurd hk.symm (n1 y this)

end Firsts

theorem lookup_iff_mem_of_unique {β : Type} (l : List (String × β)) (h : l.Pairwise fun a b => a.1 ≠ b.1) (k : String) (v : β) :
    l.lookup k = some v ↔ (k, v) ∈ l := by
  induction l with
  | nil => simp
  | cons a t ih =>
    obtain ⟨k', v'⟩ := a
    rw [List.pairwise_cons] at h
    simp only [List.lookup_cons, List.mem_cons, Prod.mk.injEq]
    by_cases hk : k = k'
    · subst hk
      simp only [beq_self_eq_true, Option.some.injEq, true_and]
      constructor
      · intro h'; exact Or.inl h'.symm
      · rintro (h' | h')
        · exact h'.symm
        · exact absurd rfl (h.1 (k, v) h')
    · have : (k == k') = false := by simpa using hk
      simp only [this, hk, false_and, false_or]
      exact ih h.2

theorem lookup_none_iff {β : Type} (l : List (String × β)) (k : String) :
    l.lookup k = none ↔ ∀ v, (k, v) ∉ l := by
  induction l with
  | nil => simp
  | cons a t ih =>
    obtain ⟨k', v'⟩ := a
    simp only [List.lookup_cons, List.mem_cons, Prod.mk.injEq, not_or, not_and]
    by_cases hk : k = k'
    · subst hk
      simp only [beq_self_eq_true]
      constructor
      · intro h; cases h
      · intro h; have := h v'; simp at this
    · have : (k == k') = false := by simpa using hk
      simp only [this, ih]
      constructor
      · intro h v; exact ⟨fun h' => absurd h' hk, h v⟩
      · intro h v; exact (h v).2

theorem gwGroup_ne_empty : gwGroup ≠ "" := by decide

theorem orDefault_eq_iff (o : Option String) (d : String) :
    orDefault o d = d ↔ (o = none ∨ o = some "" ∨ o = some d) := by
  unfold orDefault
  cases o with
  | none => simp
  | some s =>
    by_cases hs : s = ""
    · subst hs; simp
    · simp [hs]

theorem refersGateway_iff (pr : ParentRef) : refersGateway pr = true ↔ RefersGateway pr := by
  unfold refersGateway RefersGateway
  simp only [Bool.and_eq_true, beq_iff_eq]
  rw [orDefault_eq_iff, orDefault_eq_iff]

theorem parentNs_iff (r : Route) (pr : ParentRef) (ns : String) : ParentNs r pr ns ↔ ns = parentNs r pr := by
  unfold ParentNs parentNs orDefault
  cases h : pr.ns with
  | none => simp
  | some s =>
    by_cases hs : s = ""
    · subst hs; simp
    · simp [hs]

theorem classOurs_iff (w : World) (hwf : WF w) (gw : Gateway) : classOurs w gw.cls = true ↔ ClassOurs w gw := by
  unfold classOurs ClassOurs
  rw [← lookup_iff_mem_of_unique _ hwf.classUnique]
  cases h : w.classes.lookup gw.cls with
  | none => simp
  | some b => simp

theorem findGateway_iff (w : World) (hwf : WF w) (ns name : String) (gw : Gateway) :
    findGateway w ns name = some gw ↔ gw ∈ w.gws ∧ gw.ns = ns ∧ gw.name = name := by
  unfold findGateway
  have hu := hwf.gwUnique
  generalize w.gws = l at hu
  induction l with
  | nil => simp
  | cons a t ih =>
    rw [List.pairwise_cons] at hu
    rw [List.find?_cons]
    by_cases ha : (a.ns == ns && a.name == name) = true
    · rw [ha]
      simp only [Bool.and_eq_true, beq_iff_eq] at ha
      simp only [Option.some.injEq, List.mem_cons]
      constructor
      · rintro rfl; exact ⟨Or.inl rfl, ha.1, ha.2⟩
      · rintro ⟨h | h, h1, h2⟩
        · exact h.symm
        · exact absurd ⟨ha.1.trans h1.symm, ha.2.trans h2.symm⟩ (hu.1 gw h)
    · have ha' : (a.ns == ns && a.name == name) = false := by simpa using ha
      rw [ha']
      simp only [Bool.and_eq_true, beq_iff_eq, not_and] at ha
      have ih' := ih hu.2
      simp only [List.mem_cons]
      constructor
      · intro h
        obtain ⟨h, h1, h2⟩ := ih'.1 h
        exact ⟨Or.inr h, h1, h2⟩
      · rintro ⟨h | h, h1, h2⟩
        · subst h; exact absurd h2 (ha h1)
        · exact ih'.2 ⟨h, h1, h2⟩

theorem sectionOK_iff (pr : ParentRef) (l : Listener) : sectionOK pr l = true ↔ SectionOK pr l := by
  unfold sectionOK SectionOK
  cases pr.sect with
  | none => simp
  | some s => simp

theorem kindAllowed_iff (r : Route) (a : Allowed) : kindAllowed r a.kinds = true ↔ KindListed r a := by
  unfold kindAllowed KindListed
  simp only [Bool.or_eq_true, List.isEmpty_iff, List.any_eq_true, Bool.and_eq_true, beq_iff_eq]


theorem mem_unique_val (ls : List (String × String)) (hu : ls.Pairwise fun a b => a.1 ≠ b.1) {k v v' : String}
    (h : (k, v) ∈ ls) (h' : (k, v') ∈ ls) : v = v' := by
  have a := (lookup_iff_mem_of_unique ls hu k v).2 h
  have b := (lookup_iff_mem_of_unique ls hu k v').2 h'
  rw [a] at b; exact Option.some.inj b

theorem term_iff (ls : List (String × String)) (hu : ls.Pairwise fun a b => a.1 ≠ b.1) (t : Term) :
    (termValid t && termMatch ls t) = true ↔ TermHolds ls t := by
  obtain ⟨key, op, vals⟩ := t
  unfold termValid termMatch TermHolds
  simp only
  cases hl : ls.lookup key with
  | none =>
    have hn := (lookup_none_iff ls key).1 hl
    by_cases h1 : op = "="
    · subst h1; simp [hn]
    by_cases h2 : op = "In"
    · subst h2; simp [hn]
    by_cases h3 : op = "NotIn"
    · subst h3; simp [hn]
    by_cases h4 : op = "Exists"
    · subst h4; simp [hn]
    by_cases h5 : op = "DoesNotExist"
    · subst h5; simp [hn]
    simp [h1, h2, h3, h4, h5]
  | some v =>
    have hm := (lookup_iff_mem_of_unique ls hu key v).1 hl
    have hv : ∀ v', (key, v') ∈ ls ↔ v' = v := fun v' =>
      ⟨fun h => mem_unique_val ls hu h hm, fun h => h ▸ hm⟩
    by_cases h1 : op = "="
    · subst h1
      simp [hv]
      constructor
      · rintro ⟨h, h'⟩
        match vals, h, h' with
        | [x], _, h' => simp at h'; simp [h']
      · rintro rfl; simp
    by_cases h2 : op = "In"
    · subst h2; simp [hv]
      intro h hn; rw [hn] at h; cases h
    by_cases h3 : op = "NotIn"
    · subst h3; simp [hv]
      intro _
      constructor
      · intro h x hx hxv; exact h (hxv ▸ hx)
      · intro h hx; exact h v hx rfl
    by_cases h4 : op = "Exists"
    · subst h4; simp [hv]
    by_cases h5 : op = "DoesNotExist"
    · subst h5; simp [hv]
    simp [h1, h2, h3, h4, h5]


theorem selectorAllows_iff (w : World) (hwf : WF w) (r : Route) (sel : Option (List Term)) :
    selectorAllows w r sel = true ↔
      ∃ ts ls, sel = some ts ∧ (r.ns, ls) ∈ w.nss ∧ ∀ t ∈ ts, TermHolds ls t := by
  unfold selectorAllows
  cases sel with
  | none => simp
  | some ts =>
    cases hl : w.nss.lookup r.ns with
    | none =>
      have hn := (lookup_none_iff _ _).1 hl
      simp only [Bool.and_false, Bool.false_eq_true, Option.some.injEq, false_iff, not_exists, not_and]
      intro ts' ls _ hmem
      exact absurd hmem (hn ls)
    | some ls =>
      have hm := (lookup_iff_mem_of_unique _ hwf.nsUnique _ _).1 hl
      have hlu := hwf.labelUnique _ hm
      simp only [Bool.and_eq_true, List.all_eq_true, Option.some.injEq]
      constructor
      · rintro ⟨h1, h2⟩
        refine ⟨ts, ls, rfl, hm, fun t ht => (term_iff ls hlu t).1 ?_⟩
        simp [h1 t ht, h2 t ht]
      · rintro ⟨ts', ls', rfl, hm', h⟩
        have : ls' = ls := by
          have a := (lookup_iff_mem_of_unique _ hwf.nsUnique _ _).2 hm'
          rw [hl] at a; exact (Option.some.inj a).symm
        subst this
        have h' := fun t ht => (term_iff ls' hlu t).2 (h t ht)
        simp only [Bool.and_eq_true] at h'
        exact ⟨fun t ht => (h' t ht).1, fun t ht => (h' t ht).2⟩

theorem nsAllowed_iff (w : World) (hwf : WF w) (gw : Gateway) (r : Route) (a : Allowed) :
    nsAllowed w gw r a.nss = true ↔ NsOK w gw r a := by
  unfold nsAllowed NsOK
  cases a.nss with
  | none => simp
  | some nr =>
    obtain ⟨frm, sel⟩ := nr
    cases frm with
    | none => simp
    | some f =>
      simp only [Option.some.injEq, exists_and_left, exists_eq_left']
      by_cases h1 : f = "Same" ∧ r.ns = gw.ns
      · simp [h1]
      · rw [if_neg h1]
        by_cases h2 : f = "All"
        · simp [h2]
        · rw [if_neg h2]
          by_cases h3 : f = "Selector"
          · rw [if_pos h3, selectorAllows_iff w hwf]
            subst h3
            simp at h1
            simp
          · rw [if_neg h3]
            simp [h1, h2, h3]

theorem listenerAllowed_iff (w : World) (hwf : WF w) (gw : Gateway) (r : Route) (l : Listener) :
    listenerAllowed w gw r l = true ↔ ∃ a, l.allowed = some a ∧ KindListed r a ∧ NsOK w gw r a := by
  unfold listenerAllowed
  cases l.allowed with
  | none => simp
  | some a => simp [kindAllowed_iff, nsAllowed_iff w hwf]

theorem resolveParent_iff (w : World) (hwf : WF w) (r : Route) (pr : ParentRef) (gw : Gateway) :
    resolveParent w r pr = some gw ↔
      RefersGateway pr ∧ gw ∈ w.gws ∧ ParentNs r pr gw.ns ∧ gw.name = pr.name ∧ ClassOurs w gw := by
  unfold resolveParent getGateway
  rw [← refersGateway_iff, parentNs_iff, ← classOurs_iff w hwf]
  by_cases hr : refersGateway pr = true
  · rw [if_pos hr]
    cases hf : findGateway w (parentNs r pr) pr.name with
    | none =>
      simp only [reduceCtorEq, false_iff]
      rintro ⟨_, h1, h2, h3, _⟩
      have := (findGateway_iff w hwf _ _ gw).2 ⟨h1, h2, h3⟩
      rw [hf] at this; cases this
    | some g =>
      have hg := (findGateway_iff w hwf _ _ g).1 hf
      simp only
      constructor
      · intro h
        split at h
        · cases h; rename_i hc; exact ⟨hr, hg.1, hg.2.1, hg.2.2, hc⟩
        · cases h
      · rintro ⟨_, h1, h2, h3, hc⟩
        have := (findGateway_iff w hwf _ _ gw).2 ⟨h1, h2, h3⟩
        rw [hf] at this; cases this
        rw [if_pos hc]
  · rw [if_neg hr]; simp [hr]

theorem mem_insertBy {α} (le : α → α → Bool) (x a : α) (l : List α) : a ∈ insertBy le x l ↔ a = x ∨ a ∈ l := by
  induction l with
  | nil => simp [insertBy]
  | cons y ys ih =>
    unfold insertBy
    split
    · simp
    · simp only [List.mem_cons, ih]
      constructor
      · rintro (h | h | h)
        · exact Or.inr (Or.inl h)
        · exact Or.inl h
        · exact Or.inr (Or.inr h)
      · rintro (h | h | h)
        · exact Or.inr (Or.inl h)
        · exact Or.inl h
        · exact Or.inr (Or.inr h)

theorem mem_isort {α} (le : α → α → Bool) (a : α) (l : List α) : a ∈ isort le l ↔ a ∈ l := by
  unfold isort
  induction l with
  | nil => simp
  | cons x xs ih => rw [List.foldr_cons, mem_insertBy, ih]; simp

theorem pairwise_insertBy {α} (le : α → α → Bool) (htrans : ∀ a b c, le a b = true → le b c = true → le a c = true)
    (htotal : ∀ a b, (le a b || le b a) = true) (x : α) (l : List α)
    (h : l.Pairwise fun a b => le a b = true) : (insertBy le x l).Pairwise fun a b => le a b = true := by
  induction l with
  | nil => simp [insertBy]
  | cons y ys ih =>
    rw [List.pairwise_cons] at h
    unfold insertBy
    split
    · rename_i hxy
      refine List.pairwise_cons.2 ⟨?_, List.pairwise_cons.2 h⟩
      intro z hz
      rcases List.mem_cons.1 hz with rfl | hz
      · exact hxy
      · exact htrans _ _ _ hxy (h.1 z hz)
    · rename_i hxy
      refine List.pairwise_cons.2 ⟨?_, ih h.2⟩
      intro z hz
      rcases (mem_insertBy le x z ys).1 hz with rfl | hz
      · have := htotal z y
        simp only [Bool.or_eq_true] at this
        rcases this with h' | h'
        · exact absurd h' hxy
        · exact h'
      · exact h.1 z hz

theorem pairwise_isort {α} (le : α → α → Bool) (htrans : ∀ a b c, le a b = true → le b c = true → le a c = true)
    (htotal : ∀ a b, (le a b || le b a) = true) (l : List α) :
    (isort le l).Pairwise fun a b => le a b = true := by
  unfold isort
  induction l with
  | nil => simp
  | cons x xs ih => rw [List.foldr_cons]; exact pairwise_insertBy le htrans htotal x _ ih

theorem mem_sortRoutes (rs : List Route) (r : Route) : r ∈ sortRoutes rs ↔ r ∈ rs := by
  unfold sortRoutes; exact mem_isort _ _ _

theorem mem_events (fx : Bool) (w : World) (e : Ev) : e ∈ events fx w ↔ ∃ r ∈ w.routes, e ∈ routeEvents fx w r := by
  unfold events
  simp only [List.mem_append, List.mem_flatMap, mem_sortRoutes, List.mem_filter]
  constructor
  · rintro (⟨r, ⟨hr, _⟩, he⟩ | ⟨r, ⟨hr, _⟩, he⟩) <;> exact ⟨r, hr, he⟩
  · rintro ⟨r, hr, he⟩
    cases ht : r.tcp
    · exact Or.inl ⟨r, ⟨hr, by simp [ht]⟩, he⟩
    · exact Or.inr ⟨r, ⟨hr, by simp [ht]⟩, he⟩

theorem mem_routeEvents (fx : Bool) (w : World) (r : Route) (e : Ev) :
    e ∈ routeEvents fx w r ↔ ∃ pr ∈ r.parents, ∃ gw, resolveParent w r pr = some gw ∧ e ∈ gatewayEvents fx w r pr gw := by
  unfold routeEvents
  simp only [List.mem_flatMap]
  constructor
  · rintro ⟨pr, hpr, he⟩
    cases hg : resolveParent w r pr with
    | none => rw [hg] at he; cases he
    | some gw => rw [hg] at he; exact ⟨pr, hpr, gw, hg, he⟩
  · rintro ⟨pr, hpr, gw, hg, he⟩
    exact ⟨pr, hpr, by rw [hg]; exact he⟩

theorem mem_gatewayEvents (fx : Bool) (w : World) (r : Route) (pr : ParentRef) (gw : Gateway) (e : Ev) :
    e ∈ gatewayEvents fx w r pr gw ↔
      ∃ l ∈ gw.listeners, sectionOK pr l = true ∧ protoGuard fx r l = true ∧ listenerAllowed w gw r l = true ∧
        e ∈ rulesEvents w r l := by
  unfold gatewayEvents
  simp only [List.mem_flatMap]
  constructor
  · rintro ⟨l, hl, he⟩
    split at he
    · rename_i h; simp only [Bool.and_eq_true] at h; exact ⟨l, hl, h.1.1, h.1.2, h.2, he⟩
    · cases he
  · rintro ⟨l, hl, h1, h2, h3, he⟩
    exact ⟨l, hl, by simp [h1, h2, h3, he]⟩

theorem mem_rulesEvents (w : World) (r : Route) (l : Listener) (e : Ev) :
    e ∈ rulesEvents w r l ↔
      ∃ rule i b, (rule, i) ∈ r.rules.zipIdx ∧ mkBackend w r i rule = some b ∧ e ∈ ruleEvents r l rule b := by
  unfold rulesEvents
  simp only [List.mem_flatMap]
  constructor
  · rintro ⟨⟨rule, i⟩, hri, he⟩
    simp only at he
    cases hb : mkBackend w r i rule with
    | none => rw [hb] at he; cases he
    | some b => rw [hb] at he; exact ⟨rule, i, b, hri, hb, he⟩
  · rintro ⟨rule, i, b, hri, hb, he⟩
    exact ⟨(rule, i), hri, by simp only [hb]; exact he⟩

theorem attaches_iff (fx : Bool) (w : World) (r : Route) (pr : ParentRef) (gw : Gateway) (l : Listener) :
    attaches fx w r pr gw l = true ↔
      resolveParent w r pr = some gw ∧ l ∈ gw.listeners ∧ sectionOK pr l = true ∧ protoGuard fx r l = true ∧
        listenerAllowed w gw r l = true := by
  unfold attaches
  simp only [Bool.and_eq_true, beq_iff_eq, List.contains_iff_mem, and_assoc]

/-- where an event comes from: the loop nest of `Sync` -/
theorem mem_events_iff (fx : Bool) (w : World) (e : Ev) :
    e ∈ events fx w ↔
      ∃ r ∈ w.routes, ∃ pr ∈ r.parents, ∃ gw l, attaches fx w r pr gw l = true ∧
        ∃ rule i b, (rule, i) ∈ r.rules.zipIdx ∧ mkBackend w r i rule = some b ∧ e ∈ ruleEvents r l rule b := by
  rw [mem_events]
  constructor
  · rintro ⟨r, hr, he⟩
    obtain ⟨pr, hpr, gw, hg, he⟩ := (mem_routeEvents fx w r e).1 he
    obtain ⟨l, hl, h1, h2, h3, he⟩ := (mem_gatewayEvents fx w r pr gw e).1 he
    obtain ⟨rule, i, b, hri, hb, he⟩ := (mem_rulesEvents w r l e).1 he
    exact ⟨r, hr, pr, hpr, gw, l, (attaches_iff ..).2 ⟨hg, hl, h1, h2, h3⟩, rule, i, b, hri, hb, he⟩
  · rintro ⟨r, hr, pr, hpr, gw, l, ha, rule, i, b, hri, hb, he⟩
    obtain ⟨hg, hl, h1, h2, h3⟩ := (attaches_iff ..).1 ha
    exact ⟨r, hr, (mem_routeEvents fx w r e).2 ⟨pr, hpr, gw, hg,
      (mem_gatewayEvents fx w r pr gw e).2 ⟨l, hl, h1, h2, h3, (mem_rulesEvents w r l e).2 ⟨rule, i, b, hri, hb, he⟩⟩⟩⟩

theorem protoGuard_iff (fx : Bool) (r : Route) (l : Listener) :
    protoGuard fx r l = true ↔ (fx = true → ProtoCompat r l) := by
  unfold protoGuard ProtoCompat
  cases fx <;> cases r.tcp <;> simp [or_assoc]

theorem mem_ruleEvents_path (r : Route) (l : Listener) (rule : Rule) (b : Backend) (d : PathDecl) :
    Ev.path d ∈ ruleEvents r l rule b ↔
      r.tcp = false ∧ ∃ m ∈ effMatches rule, ∃ h ∈ filterHostnames l.host r.hostnames,
        d = { host := normHost h, link := linkOf m, backend := b } := by
  unfold ruleEvents
  cases ht : r.tcp
  · simp only [Bool.false_eq_true, ↓reduceIte, List.mem_flatMap, List.mem_map, Ev.path.injEq, true_and]
    constructor
    · rintro ⟨m, hm, h, hh, rfl⟩; exact ⟨m, hm, h, hh, rfl⟩
    · rintro ⟨m, hm, h, hh, rfl⟩; exact ⟨m, hm, h, hh, rfl⟩
  · simp

theorem mem_ruleEvents_tcp (r : Route) (l : Listener) (rule : Rule) (b : Backend) (d : TcpDecl) :
    Ev.tcp d ∈ ruleEvents r l rule b ↔ r.tcp = true ∧ d = { port := l.port, backend := b } := by
  unfold ruleEvents
  cases ht : r.tcp
  · simp
  · simp

theorem mkBackend_id {w : World} {r : Route} {i : Nat} {rule : Rule} {b : Backend}
    (h : mkBackend w r i rule = some b) : b.id = backendID r i ∧ b.tcp = r.tcp := by
  unfold mkBackend at h
  simp only at h
  split at h
  · cases h
  · cases h; exact ⟨rfl, rfl⟩



/-! ### C16 `zero_iff` (copied from Props/C16.lean so that C10 depends only on Model/C16.lean;
the statement is about `C16.rebalance`, the model validated by the C16 correspondence) -/
namespace W16
open HapVerif.C16

theorem f32_zero : f32 0 = 0 := by simp [f32]

theorem truncI_zero : truncI 0 = 0 := by decide +kernel
theorem rat_zero_div (x : Rat) : 0 / x = 0 := by rw [Rat.div_def, Rat.zero_mul]


theorem newWeight_zero_iff (rnd : Rat → Rat) (h0 : rnd 0 = 0) (lcm g : Int) (wfm wf : Rat)
    (cl : Cluster) (hw : 0 ≤ cl.weight) (w : Int)
    (h : newWeight rnd lcm g wfm wf cl = some w) : w = 0 ↔ cl.weight = 0 := by
  unfold newWeight at h
  split at h
  · cases h
  · by_cases hz : cl.weight = 0
    · simp [hz, h0, Rat.mul_zero, rat_zero_div, truncI_zero] at h
      simp [hz]; omega
    · have hpos : cl.weight > 0 := by omega
      simp [hpos] at h
      split at h <;> simp at h <;> (split at h <;> omega)

theorem mem_zip_self {α} {l : List α} {a b : α} (h : (a, b) ∈ l.zip l) : a = b ∧ a ∈ l := by
  induction l with
  | nil => simp at h
  | cons x xs ih =>
    simp only [List.zip_cons_cons, List.mem_cons, Prod.mk.injEq] at h
    rcases h with ⟨h1, h2⟩ | h
    · subst h1 h2; simp
    · have := ih h; exact ⟨this.1, List.mem_cons_of_mem _ this.2⟩

theorem mem_zip_map {α β} {l : List α} {f : α → β} {a : α} {b : β}
    (h : (a, b) ∈ l.zip (l.map f)) : a ∈ l ∧ b = f a := by
  rw [List.zip_map_right] at h
  simp only [List.mem_map, Prod.map, id, Prod.mk.injEq] at h
  obtain ⟨⟨x, y⟩, hxy, h1, h2⟩ := h
  have := mem_zip_self hxy
  simp only at h1 h2
  obtain ⟨e, hx⟩ := this
  subst e h1; exact ⟨hx, h2.symm⟩

theorem zero_iff (cls : List Cluster) (initial : Int) (hw : ∀ c ∈ cls, 0 ≤ c.weight)
    (c : Cluster) (w : Int) (hm : (c, some w) ∈ cls.zip (rebalance cls initial)) :
    w = 0 ↔ c.weight = 0 := by
  unfold rebalance rebalanceWith at hm
  simp only at hm
  split at hm
  · have := (mem_zip_map hm).2; simp at this; omega
  · split at hm
    · have := (mem_zip_map hm).2; simp at this; omega
    · have := mem_zip_map hm
      exact newWeight_zero_iff f32 f32_zero _ _ _ _ c (hw c this.1) w this.2.symm

end W16

end HapVerif.C10
