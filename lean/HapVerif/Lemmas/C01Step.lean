import HapVerif.Lemmas.C01Inv
/-
One partial sync: what the batch has to say about the change of the cluster (`Describes`), the state after
pre-tracking and removal of the dirty items, preservation of the tracking invariant `Linked`, and the
closure properties (what is not dirty has no changed dependency; every declarer of a dirty host is re-synced).
-/
set_option linter.unusedSectionVars false
set_option linter.unusedSimpArgs false
set_option linter.unusedVariables false
namespace HapVerif.C01

/-- the valid ingress stored under key `k` -/
def World.validIng (w : World) (k : String) : Option Ingress := (w.findIng k).filter w.valid

/-- keys identify ingresses -/
def World.WF (w : World) : Prop := (w.ings.map Ingress.key).Nodup

/-- `b` describes the change of the cluster from `w` (state at the previous sync) to `w'` for a PARTIAL sync:
every changed object and every ingress whose valid content changed is in `links`; a touched ingress that is
valid in `w'` is carried (with its final content) by `add` or `upd`. A change of an IngressClass that flips the
validity of an ingress is a change of `validIng` (such batches are full syncs in the real code); what the
converter reads from an IngressClass (Parameters) is outside the model. Pods are outside the proved fragment
(`drain-support` off). -/
structure Describes (w w' : World) (b : Batch) : Prop where
  obj : ∀ n : Node, w.read n ≠ w'.read n → n ∈ b.links
  ing : ∀ k, w.validIng k ≠ w'.validIng k → (⟨.ing, k⟩ : Node) ∈ b.links
  carried : ∀ k i, (⟨.ing, k⟩ : Node) ∈ b.links → w'.validIng k = some i → i ∈ b.add ∨ i ∈ b.upd
  events : ∀ i, i ∈ b.add ∨ i ∈ b.upd → (⟨.ing, i.key⟩ : Node) ∈ b.links
  del : ∀ k ∈ b.del, (⟨.ing, k⟩ : Node) ∈ b.links
  drain : w.drain = false ∧ w'.drain = false

/-! ### lists of valid ingresses -/

theorem mem_insertIng {a i : Ingress} {l : List Ingress} : i ∈ insertIng a l ↔ i = a ∨ i ∈ l := by
  induction l with
  | nil => simp [insertIng]
  | cons b l ih =>
    unfold insertIng
    split
    · simp
    · simp only [List.mem_cons, ih]
      constructor
      · rintro (h | h | h)
        · exact Or.inr (Or.inl h)
        · exact Or.inl h
        · exact Or.inr (Or.inr h)
      · rintro (h | h | h)
        · exact Or.inr (Or.inl h)
        · exact Or.inl h
        · exact Or.inr (Or.inr h)

theorem mem_sortIngs {i : Ingress} {l : List Ingress} : i ∈ sortIngs l ↔ i ∈ l := by
  induction l with
  | nil => simp [sortIngs]
  | cons b l ih =>
    have : sortIngs (b :: l) = insertIng b (sortIngs l) := rfl
    rw [this, mem_insertIng, ih]
    simp

theorem mem_validSorted {w : World} {i : Ingress} : i ∈ w.validSorted ↔ i ∈ w.ings ∧ w.valid i = true := by
  unfold World.validSorted
  rw [mem_sortIngs, List.mem_filter]

theorem find_key_of_mem (l : List Ingress) (hnd : (l.map Ingress.key).Nodup) {i : Ingress} (hi : i ∈ l) :
    l.find? (fun x => decide (x.key = i.key)) = some i := by
  induction l with
  | nil => cases hi
  | cons x l ih =>
    simp only [List.map_cons, List.nodup_cons] at hnd
    rcases List.mem_cons.mp hi with h | h
    · subst h; simp
    · have : x.key ≠ i.key := by
        intro e
        exact hnd.1 (e ▸ List.mem_map_of_mem (f := Ingress.key) h)
      rw [List.find?_cons_of_neg (by simpa using this)]
      exact ih hnd.2 h

theorem findIng_of_mem {w : World} (hwf : w.WF) {i : Ingress} (hi : i ∈ w.ings) : w.findIng i.key = some i :=
  find_key_of_mem w.ings hwf hi

theorem validIng_of_mem {w : World} (hwf : w.WF) {i : Ingress} (hi : i ∈ w.validSorted) :
    w.validIng i.key = some i := by
  obtain ⟨h1, h2⟩ := mem_validSorted.mp hi
  simp [World.validIng, findIng_of_mem hwf h1, h2]

theorem mem_of_validIng {w : World} {k : String} {i : Ingress} (h : w.validIng k = some i) :
    i ∈ w.validSorted ∧ i.key = k := by
  unfold World.validIng at h
  cases hf : w.findIng k with
  | none => simp [hf] at h
  | some j =>
    simp [hf, Option.filter] at h
    obtain ⟨hv, rfl⟩ := h
    unfold World.findIng at hf
    exact ⟨mem_validSorted.mpr ⟨List.mem_of_find?_eq_some hf, hv⟩, by simpa using List.find?_some hf⟩

/-! ### the state after removal -/

theorem mem_namesOf {k : Kind} {l : List Node} {n : String} : n ∈ namesOf k l ↔ (⟨k, n⟩ : Node) ∈ l := by
  unfold namesOf
  simp only [List.mem_map, List.mem_filter]
  constructor
  · rintro ⟨x, ⟨hx, hk⟩, rfl⟩
    have : x.kind = k := by simpa using hk
    cases x; simp_all
  · intro h
    exact ⟨⟨k, n⟩, ⟨h, by simp⟩, rfl⟩

theorem find_filter_hosts (names : List String) (l : List Host) (h : String) :
    (l.filter (fun x => decide (x.name ∉ names))).find? (fun y => decide (y.name = h)) =
      if h ∈ names then none else l.find? (fun y => decide (y.name = h)) := by
  induction l with
  | nil => simp
  | cons x l ih =>
    by_cases hx : x.name ∈ names
    · rw [List.filter_cons_of_neg (by simpa using hx), ih]
      by_cases hh : h ∈ names
      · simp [hh]
      · have : ¬ x.name = h := fun e => hh (e ▸ hx)
        rw [List.find?_cons_of_neg (by simpa using this)]
    · rw [List.filter_cons_of_pos (by simpa using hx)]
      by_cases hxh : x.name = h
      · have : h ∉ names := hxh ▸ hx
        rw [List.find?_cons_of_pos (by simpa using hxh), List.find?_cons_of_pos (by simpa using hxh)]
        simp [this]
      · rw [List.find?_cons_of_neg (by simpa using hxh), List.find?_cons_of_neg (by simpa using hxh)]
        exact ih

theorem find_filter_backs (names : List String) (l : List Back) (h : String) :
    (l.filter (fun x => decide (x.id ∉ names))).find? (fun y => decide (y.id = h)) =
      if h ∈ names then none else l.find? (fun y => decide (y.id = h)) := by
  induction l with
  | nil => simp
  | cons x l ih =>
    by_cases hx : x.id ∈ names
    · rw [List.filter_cons_of_neg (by simpa using hx), ih]
      by_cases hh : h ∈ names
      · simp [hh]
      · have : ¬ x.id = h := fun e => hh (e ▸ hx)
        rw [List.find?_cons_of_neg (by simpa using this)]
    · rw [List.filter_cons_of_pos (by simpa using hx)]
      by_cases hxh : x.id = h
      · have : h ∉ names := hxh ▸ hx
        rw [List.find?_cons_of_pos (by simpa using hxh), List.find?_cons_of_pos (by simpa using hxh)]
        simp [this]
      · rw [List.find?_cons_of_neg (by simpa using hxh), List.find?_cons_of_neg (by simpa using hxh)]
        exact ih

/-- tracker after `trackAddedIngress` -/
def preTr (w : World) (b : Batch) (st : St) : Tr Node := (preTrack w b st).tr

theorem preTr_sub (w : World) (b : Batch) (st : St) : ∀ e ∈ st.tr, e ∈ preTr w b st := by
  intro e he
  exact mem_trackAll.mpr (Or.inr he)

/-- the tracker output of the partial sync -/
def dirty (w : World) (b : Batch) (st : St) : List Node := queryOut (preTr w b st) b.links

theorem afterRemove_out (w : World) (b : Batch) (st : St) : (afterRemove w b st).2 = dirty w b st := rfl

theorem afterRemove_tr (w : World) (b : Batch) (st : St) :
    (afterRemove w b st).1.tr = rest (preTr w b st) b.links := rfl

theorem afterRemove_hm (w : World) (b : Batch) (st : St) (h : String) :
    (afterRemove w b st).1.hm h = if (⟨.host, h⟩ : Node) ∈ dirty w b st then none else st.hm h := by
  unfold afterRemove St.hm St.findHost
  simp only []
  have := find_filter_hosts (namesOf .host (queryOut (preTrack w b st).tr b.links)) (preTrack w b st).hosts h
  rw [this]
  by_cases hd : (⟨.host, h⟩ : Node) ∈ dirty w b st
  · have hn : h ∈ namesOf .host (queryOut (preTrack w b st).tr b.links) := mem_namesOf.mpr hd
    rw [if_pos hn, if_pos hd]
  · have hn : h ∉ namesOf .host (queryOut (preTrack w b st).tr b.links) := fun x => hd (mem_namesOf.mp x)
    rw [if_neg hn, if_neg hd]
    rfl

theorem afterRemove_bm (w : World) (b : Batch) (st : St) (x : String) :
    (afterRemove w b st).1.bm x = if (⟨.back, x⟩ : Node) ∈ dirty w b st then [] else st.bm x := by
  unfold afterRemove St.bm St.findBack
  simp only []
  have := find_filter_backs (namesOf .back (queryOut (preTrack w b st).tr b.links)) (preTrack w b st).backs x
  rw [this]
  by_cases hd : (⟨.back, x⟩ : Node) ∈ dirty w b st
  · have hn : x ∈ namesOf .back (queryOut (preTrack w b st).tr b.links) := mem_namesOf.mpr hd
    rw [if_pos hn, if_pos hd]
    rfl
  · have hn : x ∉ namesOf .back (queryOut (preTrack w b st).tr b.links) := fun y => hd (mem_namesOf.mp y)
    rw [if_neg hn, if_neg hd]
    rfl

/-- a node that has an edge and is not returned by the tracker is not connected to any seed -/
theorem not_reach_of_not_dirty {w : World} {b : Batch} {st : St} {n : Node}
    (he : HasEdge (preTr w b st) n) (hn : n ∉ dirty w b st) : n ∉ reach (preTr w b st) b.links := by
  intro hr
  exact hn (mem_queryOut.mpr ⟨he, mem_reach.mp hr⟩)

theorem hasEdge_of_conn_ne {t : Tr Node} {a c : Node} (h : Conn t a c) (hne : a ≠ c) : HasEdge t a := by
  have h' := h.symm
  clear h
  induction h' with
  | refl => exact absurd rfl hne
  | tail hab hadj ih =>
    rename_i m z
    by_cases hm : m = z
    · subst hm
      exact ih hne
    · exact ⟨m, hadj.symm⟩

theorem HasEdge.mono {t t' : Tr Node} (hs : ∀ e ∈ t, e ∈ t') {a : Node} (h : HasEdge t a) : HasEdge t' a := by
  obtain ⟨c, hc⟩ := h
  exact ⟨c, hc.mono hs⟩

/-- connectivity of a clean node survives pre-tracking and removal -/
theorem conn_afterRemove {w : World} {b : Batch} {st : St} {a c : Node}
    (ha : a ∉ reach (preTr w b st) b.links) (h : Conn st.tr a c) :
    Conn (afterRemove w b st).1.tr a c := by
  rw [afterRemove_tr]
  exact (rest_conn_iff ha c).mpr (h.mono (preTr_sub w b st))

/-- LEMMA C1: removal of the dirty items preserves `TrackComplete` -/
theorem trackComplete_afterRemove {w : World} {b : Batch} {st : St} (htc : TrackComplete st) :
    TrackComplete (afterRemove w b st).1 := by
  refine ⟨?_, ?_, ?_⟩
  · intro h x hx t ht
    rw [afterRemove_hm] at hx
    by_cases hd : (⟨.host, h⟩ : Node) ∈ dirty w b st
    · simp [hd] at hx
    · simp only [hd, if_false] at hx
      have hok := htc.host h x hx
      have hne := htc.ne h x hx
      -- the entry has a touch, so its node has an edge
      obtain ⟨t0, ht0⟩ := List.exists_mem_of_ne_nil _ hne
      have hedge : HasEdge (preTr w b st) ⟨.host, h⟩ :=
        (hasEdge_of_conn_ne (hok t0 ht0).1 (by intro e; cases e)).mono (preTr_sub w b st)
      have hnr := not_reach_of_not_dirty hedge hd
      exact ⟨conn_afterRemove hnr (hok t ht).1, fun r hr => conn_afterRemove hnr ((hok t ht).2 r hr)⟩
  · intro x t ht
    rw [afterRemove_bm] at ht
    by_cases hd : (⟨.back, x⟩ : Node) ∈ dirty w b st
    · simp [hd] at ht
    · simp only [hd, if_false] at ht
      have hok := htc.back x
      have hedge : HasEdge (preTr w b st) ⟨.back, x⟩ :=
        (hasEdge_of_conn_ne (hok t ht).1 (by intro e; cases e)).mono (preTr_sub w b st)
      have hnr := not_reach_of_not_dirty hedge hd
      exact ⟨conn_afterRemove hnr (hok t ht).1, fun r hr => conn_afterRemove hnr ((hok t ht).2 r hr)⟩
  · intro h x hx
    rw [afterRemove_hm] at hx
    by_cases hd : (⟨.host, h⟩ : Node) ∈ dirty w b st
    · simp [hd] at hx
    · simp only [hd, if_false] at hx
      exact htc.ne h x hx

/-! ### the tracking invariant of a controller that is in sync with the cluster `w` -/

/-- `Linked w st`: `st` is `TrackComplete` and every valid ingress of `w` is linked to everything its
declarations name (hosts, services, the backends they resolve to in `w`) -/
structure Linked (w : World) (st : St) : Prop where
  tc : TrackComplete st
  ing : ∀ i ∈ w.validSorted, ∀ d ∈ declsOf i, DeclLinked w st.tr d

/-- (a) established by a full sync -/
theorem linked_syncFull (rev : Rev) (hrev : 2 ≤ rev) (w : World) : Linked w (syncFull rev w) := by
  obtain ⟨h1, h2⟩ := syncList_post rev hrev w w.validSorted {} trackComplete_empty
  exact ⟨h1, h2⟩

theorem syncPartial_eq (rev : Rev) (w : World) (b : Batch) (st : St) :
    syncPartial rev w b st =
      (resyncList w b (dirty w b st)).foldl (syncIngress rev w) (afterRemove w b st).1 := rfl

theorem mem_resyncList {w : World} {b : Batch} {out : List Node} {i : Ingress} :
    i ∈ resyncList w b out ↔ i ∈ w.validSorted ∧ i.key ∈ resyncKeys b (namesOf .ing out) := by
  unfold resyncList
  simp [List.mem_filter]

theorem mem_resyncKeys {b : Batch} {out : List Node} {k : String} :
    k ∈ resyncKeys b (namesOf .ing out) ↔
      ((⟨.ing, k⟩ : Node) ∈ out ∧ k ∉ b.del) ∨ (∃ i ∈ b.upd, i.key = k) ∨ (∃ i ∈ b.add, i.key = k) := by
  unfold resyncKeys
  simp only [List.mem_append, List.mem_filter, List.mem_map, mem_namesOf]
  constructor
  · rintro ((⟨h1, h2⟩ | h) | h)
    · exact Or.inl ⟨h1, by simpa using h2⟩
    · exact Or.inr (Or.inl h)
    · exact Or.inr (Or.inr h)
  · rintro (⟨h1, h2⟩ | h | h)
    · exact Or.inl (Or.inl ⟨h1, by simpa using h2⟩)
    · exact Or.inl (Or.inr h)
    · exact Or.inr h

/-- an ingress that is valid after the change and is NOT re-synced was valid before with the same content,
is not a seed, and is not connected to any seed (unless it is linked to nothing) -/
theorem not_resynced {w w' : World} {b : Batch} {st : St} (hd : Describes w w' b)
    (hwf : w.WF) (hwf' : w'.WF) {i : Ingress} (hi : i ∈ w'.validSorted)
    (hn : i ∉ resyncList w' b (dirty w' b st)) :
    i ∈ w.validSorted ∧ (⟨.ing, i.key⟩ : Node) ∉ b.links ∧ (⟨.ing, i.key⟩ : Node) ∉ dirty w' b st := by
  have hk : i.key ∉ resyncKeys b (namesOf .ing (dirty w' b st)) := fun hk => hn (mem_resyncList.mpr ⟨hi, hk⟩)
  have hv' := validIng_of_mem hwf' hi
  have hnl : (⟨.ing, i.key⟩ : Node) ∉ b.links := by
    intro hl
    rcases hd.carried i.key i hl hv' with h | h
    · exact hk (mem_resyncKeys.mpr (Or.inr (Or.inr ⟨i, h, rfl⟩)))
    · exact hk (mem_resyncKeys.mpr (Or.inr (Or.inl ⟨i, h, rfl⟩)))
  have hv : w.validIng i.key = some i := by
    by_cases h : w.validIng i.key = w'.validIng i.key
    · rw [h]; exact hv'
    · exact absurd (hd.ing i.key h) hnl
  refine ⟨(mem_of_validIng hv).1, hnl, ?_⟩
  intro ho
  apply hk
  refine mem_resyncKeys.mpr (Or.inl ⟨ho, ?_⟩)
  intro hdel
  exact hnl (hd.del _ hdel)

/-- (a) preserved by a partial sync -/
theorem linked_syncPartial (rev : Rev) (hrev : 2 ≤ rev) {w w' : World} {b : Batch} {st : St}
    (hd : Describes w w' b) (hwf : w.WF) (hwf' : w'.WF) (hl : Linked w st) :
    Linked w' (syncPartial rev w' b st) := by
  rw [syncPartial_eq]
  obtain ⟨h1, h2⟩ := syncList_post rev hrev w' (resyncList w' b (dirty w' b st)) (afterRemove w' b st).1
    (trackComplete_afterRemove hl.tc)
  refine ⟨h1, ?_⟩
  intro i hi d hdd
  by_cases hr : i ∈ resyncList w' b (dirty w' b st)
  · exact h2 i hr d hdd
  · obtain ⟨hiw, hnl, hnd⟩ := not_resynced hd hwf hwf' hi hr
    have hold := hl.ing i hiw d hdd
    have hdi : d.ing = i := declsOf_ing hdd
    -- the ingress node has an edge (it is connected to a host node), so it is not connected to a seed
    have hedge : HasEdge (preTr w' b st) ⟨.ing, d.ing.key⟩ :=
      (hasEdge_of_conn_ne hold.1 (by intro e; cases e)).mono (preTr_sub w' b st)
    have hnr : (⟨.ing, d.ing.key⟩ : Node) ∉ reach (preTr w' b st) b.links :=
      not_reach_of_not_dirty hedge (by rw [hdi]; exact hnd)
    have hsub := procs_tr_sub rev w' ((resyncList w' b (dirty w' b st)).flatMap declsOf) (afterRemove w' b st).1
    rw [← syncList_eq_procs] at hsub
    have lift : ∀ {c : Node}, Conn st.tr ⟨.ing, d.ing.key⟩ c →
        Conn ((resyncList w' b (dirty w' b st)).foldl (syncIngress rev w') (afterRemove w' b st).1).tr
          ⟨.ing, d.ing.key⟩ c := fun h => (conn_afterRemove hnr h).mono hsub
    refine ⟨lift hold.1, fun s p hs => lift (hold.2.1 s p hs), ?_⟩
    intro s p sv tg hs hres
    -- the service did not change, otherwise it would be a seed connected to the ingress
    have hsvc : w.read ⟨.svc, d.ing.ns ++ "/" ++ s⟩ = w'.read ⟨.svc, d.ing.ns ++ "/" ++ s⟩ := by
      apply Classical.byContradiction
      intro hne
      have hseed := hd.obj _ hne
      apply hnr
      exact mem_reach.mpr ⟨_, hseed, ((hold.2.1 s p hs).mono (preTr_sub w' b st)).symm⟩
    have hres' : resolve w d.ing.ns s p = .ok sv tg := by
      unfold World.read at hsvc
      simp only [] at hsvc
      unfold resolve at hres ⊢
      have : w.findSvc (d.ing.ns ++ "/" ++ s) = w'.findSvc (d.ing.ns ++ "/" ++ s) := by
        injection hsvc
      rw [this]; exact hres
    exact lift (hold.2.2 s p sv tg hs hres')

end HapVerif.C01
