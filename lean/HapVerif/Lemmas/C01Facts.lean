import HapVerif.Lemmas.C01Sorted
/-
Who is dirty in a partial sync: facts derived from the tracking invariant `Linked`, the batch (`Describes`)
and pre-tracking, used by the equality proof.
-/
set_option linter.unusedSectionVars false
set_option linter.unusedSimpArgs false
set_option linter.unusedVariables false
namespace HapVerif.C01

/-- backend ids identify (namespace, service): true for Kubernetes names (DNS labels have no `_`);
an explicit assumption about the names of the two cluster states -/
def BackIdInj (w w' : World) : Prop :=
  ∀ i ∈ w.ings ++ w'.ings, ∀ j ∈ w.ings ++ w'.ings, ∀ s tg s' tg',
    backID i.ns s tg = backID j.ns s' tg' → i.ns = j.ns ∧ s = s'

/-- side condition of the proof (harmless for the code, see Props): when an added/updated ingress has a
default backend, the default host is either live or has no entry at all (no record of FAILED default
backends of other ingresses only: such an entry is not pre-tracked by `trackAddedIngress`) -/
def SCdef (b : Batch) (st : St) : Prop :=
  (∃ i, (i ∈ b.add ∨ i ∈ b.upd) ∧ i.defBackend.isSome) → st.hostLive defaultHost = true ∨ st.hm defaultHost = none

/-- everything the equality proof assumes about one partial sync -/
structure StepCtx (rev : Rev) (w w' : World) (b : Batch) (st : St) : Prop where
  hrev : 2 ≤ rev
  hd : Describes w w' b
  hwf : w.WF
  hwf' : w'.WF
  hl : Linked w st
  hobsH : ∀ h, st.hm h = (syncFull rev w).hm h
  hobsB : ∀ x, st.bm x = (syncFull rev w).bm x
  hinj : BackIdInj w w'
  hsc : SCdef b st

theorem seed_in_reach {α : Type} [DecidableEq α] {t : Tr α} {seeds : List α} {s : α} (hs : s ∈ seeds) :
    s ∈ reach t seeds := sweep_sub _ _ _ s hs

theorem reach_closed {α : Type} [DecidableEq α] {t : Tr α} {seeds : List α} {a c : α}
    (ha : a ∈ reach t seeds) (h : Conn t a c) : c ∈ reach t seeds := by
  obtain ⟨s, hs, hc⟩ := mem_reach.mp ha
  exact mem_reach.mpr ⟨s, hs, hc.trans h⟩

theorem dirty_iff {w : World} {b : Batch} {st : St} {n : Node} :
    n ∈ dirty w b st ↔ HasEdge (preTr w b st) n ∧ n ∈ reach (preTr w b st) b.links := by
  unfold dirty
  rw [mem_queryOut, mem_reach]

section
variable {rev : Rev} {w w' : World} {b : Batch} {st : St}

/-- an ingress that is valid before and is re-synced, or is no longer valid with the same content, is
connected to a seed -/
theorem old_in_reach (c : StepCtx rev w w' b st) {i : Ingress} (hi : i ∈ w.validSorted)
    (h : i ∉ w'.validSorted ∨ i ∈ resyncList w' b (dirty w' b st)) :
    (⟨.ing, i.key⟩ : Node) ∈ reach (preTr w' b st) b.links := by
  rcases h with h | h
  · apply seed_in_reach
    apply c.hd.ing
    rw [validIng_of_mem c.hwf hi]
    intro e
    exact h ((mem_of_validIng e.symm).1)
  · obtain ⟨_, hk⟩ := mem_resyncList.mp h
    rcases mem_resyncKeys.mp hk with ⟨hdirty, _⟩ | ⟨i', hi', hk'⟩ | ⟨i', hi', hk'⟩
    · exact (dirty_iff.mp hdirty).2
    · rw [← hk']; exact seed_in_reach (c.hd.events i' (Or.inr hi'))
    · rw [← hk']; exact seed_in_reach (c.hd.events i' (Or.inl hi'))

/-- the hosts of an old ingress that is connected to a seed are connected to a seed -/
theorem old_host_in_reach (c : StepCtx rev w w' b st) {i : Ingress} (hi : i ∈ w.validSorted)
    (hr : (⟨.ing, i.key⟩ : Node) ∈ reach (preTr w' b st) b.links) {d : Decl} (hd : d ∈ declsOf i) :
    (⟨.host, d.host⟩ : Node) ∈ reach (preTr w' b st) b.links := by
  have h1 := (c.hl.ing i hi d hd).1
  rw [declsOf_ing hd] at h1
  exact reach_closed hr (h1.mono (preTr_sub w' b st))

/-- an ingress that is valid after the change and not re-synced is not connected to a seed -/
theorem kept_not_reach (c : StepCtx rev w w' b st) {j : Ingress} (hj : j ∈ w'.validSorted)
    (hn : j ∉ resyncList w' b (dirty w' b st)) {d : Decl} (hd : d ∈ declsOf j) :
    j ∈ w.validSorted ∧ (⟨.ing, j.key⟩ : Node) ∉ reach (preTr w' b st) b.links := by
  obtain ⟨hjw, _, hnd⟩ := not_resynced c.hd c.hwf c.hwf' hj hn
  refine ⟨hjw, ?_⟩
  have h1 := (c.hl.ing j hjw d hd).1
  rw [declsOf_ing hd] at h1
  exact not_reach_of_not_dirty ((hasEdge_of_conn_ne h1 (by intro e; cases e)).mono (preTr_sub w' b st)) hnd

/-- the hosts of a kept ingress are not connected to a seed -/
theorem kept_host_not_reach (c : StepCtx rev w w' b st) {j : Ingress} (hj : j ∈ w'.validSorted)
    (hn : j ∉ resyncList w' b (dirty w' b st)) {d : Decl} (hd : d ∈ declsOf j) :
    (⟨.host, d.host⟩ : Node) ∉ reach (preTr w' b st) b.links := by
  obtain ⟨hjw, hnr⟩ := kept_not_reach c hj hn hd
  have h1 := (c.hl.ing j hjw d hd).1
  rw [declsOf_ing hd] at h1
  intro hr
  exact hnr (reach_closed hr (h1.mono (preTr_sub w' b st)).symm)

/-! ### pre-tracking -/

theorem mem_preTr {i : Ingress} (hi : i ∈ b.add ∨ i ∈ b.upd) {e : Node × Node} (he : e ∈ preEdges w' st i) :
    e ∈ preTr w' b st := by
  unfold preTr preTrack
  simp only []
  apply mem_trackAll.mpr
  left
  rw [List.mem_flatMap]
  exact ⟨i, by rcases hi with h | h <;> simp [h], he⟩

/-- `trackAddedIngress` links the ingress to every host it names; the default host only when it is live -/
theorem preEdges_host {i : Ingress} {d : Decl} (hd : d ∈ declsOf i)
    (hdef : (∀ s p, d.k ≠ .defBack s p) ∨ st.hostLive defaultHost = true) :
    ((⟨.ing, i.key⟩ : Node), (⟨.host, d.host⟩ : Node)) ∈ preEdges w' st i := by
  unfold declsOf at hd
  unfold preEdges
  simp only [List.mem_append, List.mem_flatMap, List.mem_cons, List.mem_map] at hd ⊢
  rcases hd with (hd | ⟨r, hr, hd | ⟨p, _, hd⟩⟩) | ⟨t, ht, h, hh, hd⟩
  · cases hdb : i.defBackend with
    | none => simp [hdb] at hd
    | some q =>
      obtain ⟨s, pp⟩ := q
      simp [hdb] at hd
      subst hd
      rcases hdef with hdef | hdef
      · exact absurd rfl (hdef s pp)
      · left; left
        simp [hdef]
  · subst hd
    right
    exact ⟨r, hr, Or.inl rfl⟩
  · subst hd
    right
    exact ⟨r, hr, Or.inl rfl⟩
  · subst hd
    left; right
    exact ⟨t, ht, h, hh, rfl⟩

/-- `trackAddedIngress` links the ingress to the LIVE backend each of its declarations resolves to -/
theorem preEdges_back {i : Ingress} {d : Decl} (hd : d ∈ declsOf i) {s p : String} {sv : Service} {tg : String}
    (hs : declSvc d = some (s, p)) (hres : resolve w' i.ns s p = .ok sv tg)
    (hlive : st.backLive (backID i.ns s tg) = true) :
    ((⟨.ing, i.key⟩ : Node), (⟨.back, backID i.ns s tg⟩ : Node)) ∈ preEdges w' st i := by
  have hflb : findLiveBack w' st i.ns s p = some (backID i.ns s tg) := by
    simp [findLiveBack, hres, hlive]
  unfold declsOf at hd
  unfold preEdges
  simp only [List.mem_append, List.mem_flatMap, List.mem_cons, List.mem_map] at hd ⊢
  rcases hd with (hd | ⟨r, hr, hd | ⟨q, hq, hd⟩⟩) | ⟨t, ht, h, hh, hd⟩
  · cases hdb : i.defBackend with
    | none => simp [hdb] at hd
    | some q =>
      obtain ⟨s0, p0⟩ := q
      simp [hdb] at hd
      subst hd
      simp [declSvc] at hs
      obtain ⟨rfl, rfl⟩ := hs
      left; left
      simp [hflb]
  · subst hd; simp [declSvc] at hs
  · subst hd
    simp [declSvc] at hs
    obtain ⟨rfl, rfl⟩ := hs
    right
    refine ⟨r, hr, Or.inr ⟨q, hq, ?_⟩⟩
    simp [hflb]
  · subst hd; simp [declSvc] at hs

/-- every declaration leaves an entry for its host -/
theorem finalHM_some_of_mem (rev : Rev) (w : World) (ds : List Decl) (hm : HM) {d : Decl} (hd : d ∈ ds) :
    finalHM rev w ds hm d.host ≠ none := by
  induction ds generalizing hm with
  | nil => cases hd
  | cons x ds ih =>
    simp only [finalHM]
    rcases List.mem_cons.mp hd with h | h
    · subst h
      obtain ⟨x', l, h1, _⟩ := finalHM_prefix rev w ds (hm.set d.host (outcome rev w (hm d.host) d).host) d.host
        (outcome rev w (hm d.host) d).host (by simp [HM.set])
      rw [h1]; simp
    · exact ih _ h

theorem syncFull_hm (rev : Rev) (w : World) :
    (syncFull rev w).hm = finalHM rev w (w.validSorted.flatMap declsOf) (fun _ => none) := by
  unfold syncFull
  rw [syncList_eq_procs, procs_hm]
  rfl

theorem syncFull_bm (rev : Rev) (w : World) (x : String) :
    (syncFull rev w).bm x = backTouches x (logM rev w (w.validSorted.flatMap declsOf) (fun _ => none)) := by
  unfold syncFull
  rw [syncList_eq_procs, procs_bm]
  simp [St.bm, St.findBack]
  rfl

/-- an old valid ingress has an entry for each of its hosts -/
theorem old_host_entry (c : StepCtx rev w w' b st) {i : Ingress} (hi : i ∈ w.validSorted) {d : Decl}
    (hd : d ∈ declsOf i) : st.hm d.host ≠ none := by
  rw [c.hobsH, syncFull_hm]
  exact finalHM_some_of_mem rev w _ _ (List.mem_flatMap.mpr ⟨i, hi, hd⟩)

/-- the hosts named by a re-synced ingress are connected to a seed — or it is the default host, not
pre-tracked because it has no entry -/
theorem resynced_host (c : StepCtx rev w w' b st) {i : Ingress} (hi : i ∈ resyncList w' b (dirty w' b st))
    {d : Decl} (hd : d ∈ declsOf i) :
    (⟨.host, d.host⟩ : Node) ∈ reach (preTr w' b st) b.links ∨ st.hm d.host = none := by
  obtain ⟨hiw', _⟩ := mem_resyncList.mp hi
  by_cases hl : (⟨.ing, i.key⟩ : Node) ∈ b.links
  · -- carried by the batch: pre-tracked
    have hcar := c.hd.carried i.key i hl (validIng_of_mem c.hwf' hiw')
    by_cases hdef : ∀ s p, d.k ≠ .defBack s p
    · left
      have he := mem_preTr hcar (preEdges_host (w' := w') (st := st) hd (Or.inl hdef))
      exact reach_closed (seed_in_reach hl) (Conn.single (Or.inl he))
    · have hdh : d.host = defaultHost := by
        have hd0 := hd
        unfold declsOf at hd0
        simp only [List.mem_append, List.mem_flatMap, List.mem_cons, List.mem_map] at hd0
        rcases hd0 with (hd0 | ⟨r, hr, hd0 | ⟨p, _, hd0⟩⟩) | ⟨t, ht, h, hh, hd0⟩
        · cases hdb : i.defBackend with
          | none => simp [hdb] at hd0
          | some q => obtain ⟨s, pp⟩ := q; simp [hdb] at hd0; subst hd0; rfl
        · subst hd0; exact absurd (fun s p => by intro h; cases h) hdef
        · subst hd0; exact absurd (fun s p => by intro h; cases h) hdef
        · subst hd0; exact absurd (fun s p => by intro h; cases h) hdef
      have hsome : i.defBackend.isSome = true := by
        have hd0 := hd
        unfold declsOf at hd0
        cases hdb : i.defBackend with
        | some _ => rfl
        | none =>
          exfalso
          simp only [hdb, List.nil_append, List.mem_append, List.mem_flatMap, List.mem_cons, List.mem_map] at hd0
          rcases hd0 with ⟨r, hr, hd0 | ⟨p, _, hd0⟩⟩ | ⟨t, ht, h, hh, hd0⟩
          · subst hd0; exact hdef (fun s p => by intro h; cases h)
          · subst hd0; exact hdef (fun s p => by intro h; cases h)
          · subst hd0; exact hdef (fun s p => by intro h; cases h)
      rcases c.hsc ⟨i, hcar, hsome⟩ with hlive | hnone
      · left
        have he := mem_preTr hcar (preEdges_host (w' := w') (st := st) hd (Or.inr hlive))
        exact reach_closed (seed_in_reach hl) (Conn.single (Or.inl he))
      · right; rw [hdh]; exact hnone
  · -- not a seed: the same valid object as before, linked to its hosts
    left
    have hv : w.validIng i.key = some i := by
      by_cases h : w.validIng i.key = w'.validIng i.key
      · rw [h]; exact validIng_of_mem c.hwf' hiw'
      · exact absurd (c.hd.ing i.key h) hl
    have hiw := (mem_of_validIng hv).1
    exact old_host_in_reach c hiw (old_in_reach c hiw (Or.inr hi)) hd

/-- (A-ii) the entry of a host named by a re-synced ingress has been removed (or never existed) -/
theorem resynced_host_removed (c : StepCtx rev w w' b st) {i : Ingress}
    (hi : i ∈ resyncList w' b (dirty w' b st)) {d : Decl} (hd : d ∈ declsOf i) :
    (afterRemove w' b st).1.hm d.host = none := by
  rw [afterRemove_hm]
  by_cases hdirty : (⟨.host, d.host⟩ : Node) ∈ dirty w' b st
  · simp [hdirty]
  · simp only [hdirty, if_false]
    rcases resynced_host c hi hd with hr | hnone
    · cases hx : st.hm d.host with
      | none => rfl
      | some x =>
        exfalso
        obtain ⟨t0, ht0⟩ := List.exists_mem_of_ne_nil _ (c.hl.tc.ne _ x hx)
        have hedge := (hasEdge_of_conn_ne (c.hl.tc.host _ x hx t0 ht0).1 (by intro e; cases e)).mono
          (preTr_sub w' b st)
        exact hdirty (dirty_iff.mpr ⟨hedge, hr⟩)
    · exact hnone

/-- (A-i) a host named by a re-synced ingress is named by no kept ingress -/
theorem resynced_host_exclusive (c : StepCtx rev w w' b st) {i j : Ingress}
    (hi : i ∈ resyncList w' b (dirty w' b st)) (hj : j ∈ w'.validSorted)
    (hjn : j ∉ resyncList w' b (dirty w' b st)) {d dj : Decl} (hd : d ∈ declsOf i) (hdj : dj ∈ declsOf j)
    (hh : dj.host = d.host) : False := by
  rcases resynced_host c hi hd with hr | hnone
  · exact kept_host_not_reach c hj hjn hdj (hh ▸ hr)
  · obtain ⟨hjw, _⟩ := kept_not_reach c hj hjn hdj
    exact old_host_entry c hjw hdj (hh ▸ hnone)

end
end HapVerif.C01
