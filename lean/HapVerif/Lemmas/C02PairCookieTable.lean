import HapVerif.Lemmas.C02PairCookie
/-!
# M-Dyn: the runtime table with the cookie column — canonical sort, projection onto the plain table,
and `pairLoop_soundC` (running table = loaded table, cookies included)
-/
namespace HapVerif.C02

/-! ### `sortNC` is canonical on lists with distinct names (as `sortN`) -/

theorem insertNC_perm (x : RowC) (l : List RowC) : (insertNC x l).Perm (x :: l) := by
  induction l with
  | nil => simp [insertNC]
  | cons y ys ih =>
    unfold insertNC
    split
    · exact List.Perm.refl _
    · exact (List.Perm.cons y ih).trans (List.Perm.swap x y ys)

theorem insertNC_sorted (x : RowC) (l : List RowC) (h : l.Pairwise (fun a b => a.1 ≤ b.1)) :
    (insertNC x l).Pairwise (fun a b => a.1 ≤ b.1) := by
  induction l with
  | nil => simp [insertNC]
  | cons y ys ih =>
    rw [List.pairwise_cons] at h
    unfold insertNC
    split
    · next hlt =>
      rw [List.pairwise_cons]
      refine ⟨?_, List.pairwise_cons.2 h⟩
      intro b hb
      have hxy : x.1 ≤ y.1 := String.not_lt.1 (String.lt_asymm hlt)
      rcases List.mem_cons.1 hb with rfl | hb
      · exact hxy
      · exact String.le_trans hxy (h.1 b hb)
    · next hnlt =>
      rw [List.pairwise_cons]
      refine ⟨?_, ih h.2⟩
      intro b hb
      rcases List.mem_cons.1 ((insertNC_perm x ys).subset hb) with rfl | hb
      · exact String.not_lt.1 hnlt
      · exact h.1 b hb

theorem sortNC_fold (l : List RowC) : ∀ acc : List RowC, acc.Pairwise (fun a b => a.1 ≤ b.1) →
    (l.foldl (fun acc x => insertNC x acc) acc).Perm (acc ++ l) ∧
    (l.foldl (fun acc x => insertNC x acc) acc).Pairwise (fun a b => a.1 ≤ b.1) := by
  induction l with
  | nil => intro acc h; simpa using h
  | cons x xs ih =>
    intro acc h
    rw [List.foldl_cons]
    obtain ⟨h1, h2⟩ := ih _ (insertNC_sorted x acc h)
    refine ⟨h1.trans ?_, h2⟩
    refine ((insertNC_perm x acc).append_right xs).trans ?_
    simpa using (List.perm_middle (a := x) (l₁ := acc) (l₂ := xs)).symm

theorem sortNC_perm (l : List RowC) : (sortNC l).Perm l := by
  simpa [sortNC] using (sortNC_fold l [] List.Pairwise.nil).1

theorem sortNC_sorted (l : List RowC) : (sortNC l).Pairwise (fun a b => a.1 ≤ b.1) :=
  (sortNC_fold l [] List.Pairwise.nil).2

theorem sortNC_eq_of_perm {l1 l2 : List RowC} (hp : l1.Perm l2) (hn : (l1.map (·.1)).Nodup) :
    sortNC l1 = sortNC l2 := by
  refine List.Perm.eq_of_pairwise (le := fun a b => a.1 ≤ b.1) ?_ (sortNC_sorted l1) (sortNC_sorted l2)
    ((sortNC_perm l1).trans (hp.trans (sortNC_perm l2).symm))
  intro a b ha hb hab hba
  have ha' : a ∈ l1 := (sortNC_perm l1).subset ha
  have hb' : b ∈ l1 := hp.symm.subset ((sortNC_perm l2).subset hb)
  exact eq_of_nodup_map (·.1) l1 hn a ha' b hb' (String.le_antisymm hab hba)

/-! ### the table with cookies, server by server -/

theorem stepSrv_eq (c : Cmd) (s : Srv) : stepSrv c s = updSrv c s := by cases c <;> rfl

/-- all commands on one server -/
def stepAll (cmds : List Cmd) (s : Srv) : Srv := cmds.foldl (fun s c => stepSrv c s) s

theorem stepAll_name (cmds : List Cmd) : ∀ s : Srv, (stepAll cmds s).name = s.name := by
  induction cmds with
  | nil => intro s; rfl
  | cons c cs ih =>
    intro s
    show (stepAll cs (stepSrv c s)).name = s.name
    rw [ih, stepSrv_eq, updSrv_name]

theorem foldl_applyCmd_map (cmds : List Cmd) : ∀ T : List Srv, cmds.foldl applyCmd T = T.map (stepAll cmds) := by
  induction cmds with
  | nil => intro T; simp [show stepAll [] = fun s => s from rfl]
  | cons c cs ih =>
    intro T
    rw [List.foldl_cons, ih, applyCmd_eq, List.map_map]
    apply List.map_congr_left
    intro s _
    simp [stepAll, stepSrv_eq]

theorem foldl_applyCmdC_map (cmds : List Cmd) : ∀ T : List SrvC,
    cmds.foldl applyCmdC T = T.map (fun s => ⟨stepAll cmds s.srv, s.cookie⟩) := by
  induction cmds with
  | nil => intro T; simp [show stepAll [] = fun s => s from rfl]
  | cons c cs ih =>
    intro T
    rw [List.foldl_cons, ih]
    simp [applyCmdC, List.map_map, Function.comp_def, stepAll]

theorem tbl_eq (old : List EP) (cmds : List Cmd) : tbl old cmds = old.map (fun e => stepAll cmds (loadSrv e)) := by
  unfold tbl load
  rw [foldl_applyCmd_map, List.map_map]; rfl

theorem tableC_eq (ck : Bool) (old : List EP) (cmds : List Cmd) :
    tableC ck old cmds = old.map (fun e => ⟨stepAll cmds (loadSrv e), renderedCookie ck e⟩) := by
  unfold tableC loadC
  rw [foldl_applyCmdC_map, List.map_map]; rfl

/-- `set server` cannot change the cookie column: the running cookies are the loaded ones -/
theorem tableC_cookies (ck : Bool) (old : List EP) (cmds : List Cmd) :
    (tableC ck old cmds).map (·.cookie) = (loadC ck old).map (·.cookie) := by
  rw [tableC_eq]; simp [loadC, loadSrvC, List.map_map, Function.comp_def]

/-- the table with cookies projects onto the plain table -/
theorem tableC_srv (ck : Bool) (old : List EP) (cmds : List Cmd) :
    (tableC ck old cmds).map (·.srv) = tbl old cmds := by
  rw [tableC_eq, tbl_eq]; simp [List.map_map, Function.comp_def]

theorem loadC_srv (ck : Bool) (eps : List EP) : (loadC ck eps).map (·.srv) = load eps := by
  simp [loadC, load, loadSrvC, List.map_map, Function.comp_def]

/-! ### normal forms -/

theorem normSrvC_fst (s : SrvC) : (normSrvC s).1 = s.srv.name := by
  unfold normSrvC; split <;> rfl

theorem normC_keys (T : List SrvC) : (normC T).map (·.1) = T.map (·.srv.name) := by
  simp [normC, List.map_map, Function.comp_def, normSrvC_fst]

/-- dropping the cookie from a row -/
def dropCookie (r : RowC) : NRow := (r.1, r.2.map fun x => (x.1, x.2.1, x.2.2.1))

theorem dropCookie_normSrvC (s : SrvC) : dropCookie (normSrvC s) = normSrv s.srv := by
  unfold normSrvC normSrv dropCookie
  cases s.srv.state <;> rfl

/-- rows agree when the plain rows agree and, for a server that is not in maintenance, the cookies do -/
theorem normSrvC_eq {t r : SrvC} (h : normSrv t.srv = normSrv r.srv)
    (hc : r.srv.state ≠ .maint → t.cookie = r.cookie) : normSrvC t = normSrvC r := by
  unfold normSrv at h
  unfold normSrvC
  cases ht : t.srv.state <;> cases hr : r.srv.state <;> simp only [ht, hr] at h ⊢ <;>
    first
      | (injection h with h1 h2
         injection h2 with h2
         injection h2 with h2 h3
         injection h3 with h3 h4
         rw [h1, h2, h3, h4, hc (by rw [hr]; simp)])
      | (injection h with h1 h2; cases h2; done)
      | (injection h with h1 h2; rw [h1])

/-- two tables with the same distinct names whose servers look alike name by name have the same rows -/
theorem normC_perm_of_lookup {T R : List SrvC} (hT : (T.map (·.srv.name)).Nodup)
    (hP : (R.map (·.srv.name)).Perm (T.map (·.srv.name)))
    (h : ∀ r ∈ R, ∀ t ∈ T, t.srv.name = r.srv.name → normSrvC t = normSrvC r) : (normC T).Perm (normC R) := by
  have hR : (R.map (·.srv.name)).Nodup := hP.nodup_iff.2 hT
  have hnT : (normC T).Nodup := by
    have : ((normC T).map (·.1)).Nodup := by rw [normC_keys]; exact hT
    exact nodup_of_map _ this
  have hnR : (normC R).Nodup := by
    have : ((normC R).map (·.1)).Nodup := by rw [normC_keys]; exact hR
    exact nodup_of_map _ this
  refine (List.perm_ext_iff_of_nodup hnT hnR).2 (fun x => ⟨fun hx => ?_, fun hx => ?_⟩)
  · obtain ⟨t, ht, rfl⟩ := List.mem_map.1 hx
    have : t.srv.name ∈ R.map (·.srv.name) := hP.symm.subset (List.mem_map_of_mem (f := (·.srv.name)) ht)
    obtain ⟨r, hr, hrn⟩ := List.mem_map.1 this
    rw [h r hr t ht hrn.symm]
    exact List.mem_map_of_mem hr
  · obtain ⟨r, hr, rfl⟩ := List.mem_map.1 hx
    have : r.srv.name ∈ T.map (·.srv.name) := hP.subset (List.mem_map_of_mem (f := (·.srv.name)) hr)
    obtain ⟨t, ht, htn⟩ := List.mem_map.1 this
    rw [← h r hr t ht htn]
    exact List.mem_map_of_mem ht

/-- from the equality of the sorted plain tables back to a lookup by name -/
theorem lookup_of_sortN_eq {T R : List Srv} (hT : (T.map (·.name)).Nodup)
    (h : sortN (norm T) = sortN (norm R)) :
    ∀ r ∈ R, ∀ t ∈ T, t.name = r.name → normSrv t = normSrv r := by
  have hp : (norm R).Perm (norm T) :=
    (sortN_perm (norm R)).symm.trans ((h ▸ List.Perm.refl _ : (sortN (norm R)).Perm (sortN (norm T))).trans
      (sortN_perm (norm T)))
  intro r hr t ht hn
  have : normSrv r ∈ norm T := hp.subset (List.mem_map_of_mem hr)
  obtain ⟨t', ht', he⟩ := List.mem_map.1 this
  have hn' : t'.name = t.name := by
    have := congrArg (·.1) he
    simp only [normSrv_fst] at this
    rw [this, hn]
  have : t' = t := eq_of_nodup_map (·.name) T hT t' ht' t ht hn'
  rw [← this, he]

theorem loadSrv_state_enabled (e : EP) (h : (loadSrv e).state ≠ .maint) : e.enabled = true := by
  cases he : e.enabled with
  | true => rfl
  | false => exact absurd (by simp [loadSrv, he]) h

section
variable {old cur0 : List EP}

/-- **pair_sound with the cookie column**, for the loop: when the cookie column is in scope (`ck`) the
backend has `preserve` (that is `cookieScope`), and then the guards of the pairing loop make the loaded
cookies of the written endpoints equal to the cookies the running servers were loaded with -/
theorem pairLoop_soundC (ck pr : Bool) (hck : ck = true → pr = true) (iw : Int) (same : Bool) (sc : List Resp)
    (hO : hasDupTarget old = false) (hC : (cur0.map (·.target)).Nodup) (hE : ∀ e ∈ cur0, e.enabled = true)
    (hN : (old.map (·.name)).Nodup) (hlen : cur0.length ≤ old.length)
    (s : PairSt) (hs : pairLoop old cur0 pr iw same sc = some s) (hu : s.updated = true) :
    sortNC (normC (tableC ck old s.cmds)) = sortNC (normC (loadC ck s.cur)) := by
  have hplain := pairLoop_sound pr iw same sc hO hC hE hN hlen s hs hu
  have hTn : ((tbl old s.cmds).map (·.name)).Nodup := by rw [tbl_names]; exact hN
  have hlk := lookup_of_sortN_eq hTn hplain
  have hTCn : ((tableC ck old s.cmds).map (·.srv.name)).Nodup := by
    have : (tableC ck old s.cmds).map (·.srv.name) = ((tableC ck old s.cmds).map (·.srv)).map (·.name) := by
      simp [List.map_map, Function.comp_def]
    rw [this, tableC_srv]; exact hTn
  have hnames : ((loadC ck s.cur).map (·.srv.name)).Perm ((tableC ck old s.cmds).map (·.srv.name)) := by
    have e1 : (loadC ck s.cur).map (·.srv.name) = s.cur.map (·.name) := by
      simp [loadC, loadSrvC, loadSrv, List.map_map, Function.comp_def]
    have e2 : (tableC ck old s.cmds).map (·.srv.name) = old.map (·.name) := by
      rw [tableC_eq]; simp [List.map_map, Function.comp_def, stepAll_name, loadSrv]
    rw [e1, e2]
    -- names of the result are a permutation of the old names
    obtain ⟨W, s', hW, h4, _, he⟩ := pairLoop_struct (old := old) (cur0 := cur0) pr iw same sc hO hlen
    rw [he] at hs
    simp only [Option.some.injEq] at hs
    subst hs
    exact result_names_perm pr iw hC hW h4
  apply sortNC_eq_of_perm
  · apply normC_perm_of_lookup hTCn hnames
    intro r hr t ht hn
    obtain ⟨e, he, rfl⟩ := List.mem_map.1 hr
    rw [tableC_eq] at ht
    obtain ⟨o, ho, rfl⟩ := List.mem_map.1 ht
    have hn' : o.name = e.name := by
      have : (stepAll s.cmds (loadSrv o)).name = (loadSrv e).name := hn
      rwa [stepAll_name] at this
    apply normSrvC_eq
    · apply hlk (loadSrv e) (List.mem_map_of_mem he) (stepAll s.cmds (loadSrv o))
      · rw [tbl_eq]; exact List.mem_map_of_mem (f := fun e => stepAll s.cmds (loadSrv e)) ho
      · exact hn
    · intro hst
      show renderedCookie ck o = renderedCookie ck e
      cases hckv : ck with
      | false => rfl
      | true =>
        have hpr : pr = true := hck hckv
        subst hpr
        have hen : e.enabled = true := loadSrv_state_enabled e hst
        obtain ⟨o', ho', hon, hoc⟩ := pairLoop_cookie iw same sc hO hC hN hlen s hs hu e he hen
        have : o' = o := eq_of_nodup_map (·.name) old hN o' ho' o ho (hon.trans hn'.symm)
        subst this
        simp [renderedCookie, hoc]
  · rw [normC_keys]; exact hTCn

end

/-! ### the cookie of every server, free slots included -/

/-- the row of one endpoint -/
def ckRow (ck : Bool) (e : EP) : RowC := (e.name, some ("", 0, 0, renderedCookie ck e))

theorem cookieRows_tableC (ck : Bool) (old : List EP) (cmds : List Cmd) :
    cookieRows (tableC ck old cmds) = old.map (ckRow ck) := by
  rw [tableC_eq]
  simp only [cookieRows, List.map_map]
  apply List.map_congr_left
  intro e _
  simp [ckRow, stepAll_name, loadSrv]

theorem cookieRows_loadC (ck : Bool) (cur : List EP) : cookieRows (loadC ck cur) = cur.map (ckRow ck) := by
  simp only [cookieRows, loadC, List.map_map]
  apply List.map_congr_left
  intro e _
  simp [ckRow, loadSrvC, loadSrv]

/-- same names, and every written endpoint has the cookie of the old endpoint of that name: the cookie columns
agree server by server -/
theorem cookieRows_eq {ck : Bool} {old cur : List EP} (cmds : List Cmd) (hN : (old.map (·.name)).Nodup)
    (hP : (cur.map (·.name)).Perm (old.map (·.name)))
    (h : ∀ e ∈ cur, ∃ o ∈ old, o.name = e.name ∧ renderedCookie ck o = renderedCookie ck e) :
    sortNC (cookieRows (tableC ck old cmds)) = sortNC (cookieRows (loadC ck cur)) := by
  rw [cookieRows_tableC, cookieRows_loadC]
  have hk : ∀ l : List EP, (l.map (ckRow ck)).map (·.1) = l.map (·.name) := by
    intro l; simp [List.map_map, Function.comp_def, ckRow]
  have hNc : (cur.map (·.name)).Nodup := hP.nodup_iff.2 hN
  have hn1 : (old.map (ckRow ck)).Nodup := nodup_of_map (·.1) (by rw [hk]; exact hN)
  have hn2 : (cur.map (ckRow ck)).Nodup := nodup_of_map (·.1) (by rw [hk]; exact hNc)
  refine sortNC_eq_of_perm ((List.perm_ext_iff_of_nodup hn1 hn2).2 (fun x => ⟨fun hx => ?_, fun hx => ?_⟩))
    (by rw [hk]; exact hN)
  · obtain ⟨o, ho, rfl⟩ := List.mem_map.1 hx
    have : o.name ∈ cur.map (·.name) := hP.symm.subset (List.mem_map_of_mem (f := (·.name)) ho)
    obtain ⟨e, he, hen⟩ := List.mem_map.1 this
    obtain ⟨o', ho', hon, hoc⟩ := h e he
    have : o' = o := eq_of_nodup_map (·.name) old hN o' ho' o ho (hon.trans hen)
    subst this
    have : ckRow ck o' = ckRow ck e := by simp [ckRow, hon, hoc]
    rw [this]; exact List.mem_map_of_mem he
  · obtain ⟨e, he, rfl⟩ := List.mem_map.1 hx
    obtain ⟨o, ho, hon, hoc⟩ := h e he
    have : ckRow ck e = ckRow ck o := by simp [ckRow, hon, hoc]
    rw [this]; exact List.mem_map_of_mem ho

section
variable {old cur0 : List EP}

/-- **full strength for one update**: the cookie HAProxy holds for EVERY server, free slots included, is the one
on the server line just written -/
theorem pairLoop_cookieRows (ck pr : Bool) (hck : ck = true → pr = true) (iw : Int) (same : Bool) (sc : List Resp)
    (hO : hasDupTarget old = false) (hC : (cur0.map (·.target)).Nodup)
    (hN : (old.map (·.name)).Nodup) (hlen : cur0.length ≤ old.length)
    (s : PairSt) (hs : pairLoop old cur0 pr iw same sc = some s) (hu : s.updated = true) :
    sortNC (cookieRows (tableC ck old s.cmds)) = sortNC (cookieRows (loadC ck s.cur)) := by
  have hP : (s.cur.map (·.name)).Perm (old.map (·.name)) := by
    obtain ⟨W, s', hW, h4, _, he⟩ := pairLoop_struct (old := old) (cur0 := cur0) pr iw same sc hO hlen
    rw [he] at hs
    simp only [Option.some.injEq] at hs
    subst hs
    exact result_names_perm pr iw hC hW h4
  apply cookieRows_eq s.cmds hN hP
  intro e he
  cases hckv : ck with
  | false =>
    have : e.name ∈ old.map (·.name) := hP.subset (List.mem_map_of_mem (f := (·.name)) he)
    obtain ⟨o, ho, hon⟩ := List.mem_map.1 this
    exact ⟨o, ho, hon, rfl⟩
  | true =>
    have hpr : pr = true := hck hckv
    subst hpr
    obtain ⟨o, ho, hon, hoc⟩ := pairLoop_cookie_all iw same sc hO hC hN hlen s hs hu e he
    exact ⟨o, ho, hon, by simp [renderedCookie, hoc]⟩

end
end HapVerif.C02
