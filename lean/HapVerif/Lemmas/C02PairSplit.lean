import HapVerif.Lemmas.C02PairBase
/-!
# M-Dyn: stage 1 (`splitOld`) under distinct targets; decomposition lemmas for `setCur`/`find?`
-/
namespace HapVerif.C02

def mkPair (e : EP) : Pair := ⟨e.target, e, none⟩

theorem putPair_fresh (ps : List Pair) (p : Pair) (h : ∀ q ∈ ps, q.target ≠ p.target) :
    putPair ps p = ps ++ [p] := by
  unfold putPair
  have : ps.any (fun q => decide (q.target = p.target)) = false := by
    rw [List.any_eq_false]; intro q hq; simpa using h q hq
  simp [this]

theorem enOf_cons (e : EP) (l : List EP) : enOf (e :: l) = if e.enabled then e :: enOf l else enOf l := by
  simp only [enOf, List.filter_cons]

theorem disOf_cons (e : EP) (l : List EP) : disOf (e :: l) = if e.enabled then disOf l else e :: disOf l := by
  simp only [disOf, List.filter_cons]; cases e.enabled <;> simp

theorem splitFold (l : List EP) : ∀ (acc : Split),
    (acc.pairs.map (·.target) ++ (enOf l).map (·.target)).Nodup →
    l.foldl splitStep acc =
      { pairs := acc.pairs ++ (enOf l).map mkPair, targets := acc.targets ++ (enOf l).map (·.target),
        empty := acc.empty ++ disOf l } := by
  induction l with
  | nil => intro acc _; simp [enOf, disOf]
  | cons e l ih =>
    intro acc h
    rw [List.foldl_cons]
    by_cases he : e.enabled = true
    · have hfresh : ∀ q ∈ acc.pairs, q.target ≠ (⟨e.target, e, none⟩ : Pair).target := by
        intro q hq heq
        rw [enOf_cons, if_pos he] at h
        have := (List.nodup_append.1 h).2.2 q.target (List.mem_map_of_mem hq) e.target (by simp)
        exact this heq
      have hs : splitStep acc e = { acc with pairs := acc.pairs ++ [mkPair e], targets := acc.targets ++ [e.target] } := by
        unfold splitStep; rw [if_pos he, putPair_fresh _ _ hfresh]; rfl
      rw [hs, ih]
      · simp [enOf_cons, disOf_cons, he]
      · rw [enOf_cons, if_pos he] at h
        simpa [mkPair] using h
    · have he' : e.enabled = false := by simpa using he
      have hs : splitStep acc e = { acc with empty := acc.empty ++ [e] } := by
        unfold splitStep; simp [he']
      rw [hs, ih]
      · simp [enOf_cons, disOf_cons, he']
      · rw [enOf_cons] at h; simpa [he'] using h

theorem splitOld_eq (old : List EP) (h : hasDupTarget old = false) :
    splitOld old = { pairs := (enOf old).map mkPair, targets := (enOf old).map (·.target), empty := disOf old } := by
  unfold splitOld
  rw [splitFold old {} (by simpa using (hasDupTarget_false_iff old).1 h)]
  simp

theorem en_dis_perm (old : List EP) : (enOf old ++ disOf old).Perm old :=
  List.filter_append_perm _ old

theorem en_dis_length (old : List EP) : (enOf old).length + (disOf old).length = old.length := by
  have := (en_dis_perm old).length_eq
  simpa using this

/-! ### pairs with distinct targets -/

theorem find_split {ps : List Pair} {t : String} {p : Pair} (hn : (ps.map (·.target)).Nodup)
    (hf : ps.find? (fun q => decide (q.target = t)) = some p) :
    p.target = t ∧ ∃ l1 l2, ps = l1 ++ p :: l2 ∧ (∀ q ∈ l1, q.target ≠ t) ∧ (∀ q ∈ l2, q.target ≠ t) := by
  obtain ⟨hp, l1, l2, rfl, h1⟩ := List.find?_eq_some_iff_append.1 hf
  have hp' : p.target = t := by simpa using hp
  refine ⟨hp', l1, l2, rfl, ?_, ?_⟩
  · intro q hq; simpa using h1 q hq
  · intro q hq heq
    simp only [List.map_append, List.map_cons] at hn
    have := (List.nodup_append.1 hn).2.1
    rw [List.nodup_cons] at this
    exact this.1 (by rw [hp', ← heq]; exact List.mem_map_of_mem hq)

theorem find_of_mem {ps : List Pair} {t : String} (ht : t ∈ ps.map (·.target)) :
    ∃ p, ps.find? (fun q => decide (q.target = t)) = some p := by
  cases h : ps.find? (fun q => decide (q.target = t)) with
  | some p => exact ⟨p, rfl⟩
  | none =>
    rw [List.find?_eq_none] at h
    obtain ⟨q, hq, rfl⟩ := List.mem_map.1 ht
    exact absurd (by simp) (h q hq)

theorem setCur_notin (l : List Pair) (t : String) (i : Nat) (h : ∀ q ∈ l, q.target ≠ t) : setCur l t i = l := by
  unfold setCur
  conv => rhs; rw [← List.map_id l]
  apply List.map_congr_left
  intro q hq; simp [h q hq]

theorem setCur_split (l1 l2 : List Pair) (p : Pair) (t : String) (i : Nat) (hp : p.target = t)
    (h1 : ∀ q ∈ l1, q.target ≠ t) (h2 : ∀ q ∈ l2, q.target ≠ t) :
    setCur (l1 ++ p :: l2) t i = l1 ++ { p with cur := some i } :: l2 := by
  have e1 := setCur_notin l1 t i h1
  have e2 := setCur_notin l2 t i h2
  unfold setCur at e1 e2 ⊢
  rw [List.map_append, List.map_cons, e1, e2]
  simp [hp]

theorem setCur_map_target (l : List Pair) (t : String) (i : Nat) :
    (setCur l t i).map (·.target) = l.map (·.target) := by
  unfold setCur
  rw [List.map_map]
  apply List.map_congr_left
  intro q _; simp only [Function.comp]; split <;> rfl

theorem setCur_map_old (l : List Pair) (t : String) (i : Nat) :
    (setCur l t i).map (·.old) = l.map (·.old) := by
  unfold setCur
  rw [List.map_map]
  apply List.map_congr_left
  intro q _; simp only [Function.comp]; split <;> rfl

end HapVerif.C02
