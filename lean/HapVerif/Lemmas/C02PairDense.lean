import HapVerif.Lemmas.C02PairBase
/-!
# M-Dyn: generated server names `srvNNN` are fresh when the existing ones are dense
(`AddEmptyEndpoint` / `sanitizeName` with an empty name)
-/
namespace HapVerif.C02

/-- the name `sanitizeName` produces for slot number `k` (1-based) -/
def srvName (k : Nat) : String :=
  "srv" ++ String.ofList (List.replicate (3 - (toString k).length) '0') ++ toString k

/-- inverse of `srvName`: `srv` followed by at least three decimal digits -/
def srvIdx (s : String) : Option Nat :=
  match s.toList with
  | 's' :: 'r' :: 'v' :: ds => if 3 ≤ ds.length ∧ ds.all Char.isDigit = true then some (Nat.ofDigitChars 10 ds 0) else none
  | _ => none

theorem srvName_toList (k : Nat) :
    (srvName k).toList = 's' :: 'r' :: 'v' :: (List.replicate (3 - (Nat.toDigits 10 k).length) '0' ++ Nat.toDigits 10 k) := by
  have h1 : (toString k).toList = Nat.toDigits 10 k := by simp
  have h2 : (toString k).length = (Nat.toDigits 10 k).length := by rw [← String.length_toList, h1]
  unfold srvName
  rw [String.toList_append, String.toList_append, String.toList_ofList, h1, h2]
  simp

theorem srvIdx_srvName (k : Nat) : srvIdx (srvName k) = some k := by
  unfold srvIdx
  rw [srvName_toList]
  simp only
  have hlen : 3 ≤ (List.replicate (3 - (Nat.toDigits 10 k).length) '0' ++ Nat.toDigits 10 k).length := by
    simp only [List.length_append, List.length_replicate]; omega
  have hdig : (List.replicate (3 - (Nat.toDigits 10 k).length) '0' ++ Nat.toDigits 10 k).all Char.isDigit = true := by
    rw [List.all_eq_true]
    intro c hc
    rcases List.mem_append.1 hc with hc | hc
    · rw [(List.mem_replicate.1 hc).2]; rfl
    · exact Nat.isDigit_of_mem_toDigits (by decide) (by decide) hc
  rw [if_pos ⟨hlen, hdig⟩, Nat.ofDigitChars_append, Nat.ofDigitChars_replicate_zero]
  simp [Nat.ofDigitChars_ten_toDigits]

/-- every name of the form `srvNNN` has `NNN ≤` number of names -/
def denseN (names : List String) : Bool :=
  names.all fun nm => match srvIdx nm with
    | some k => decide (k ≤ names.length)
    | none => true

/-- `Dense`: the hypothesis under which `AddEmptyEndpoint` never creates a duplicate -/
def dense (eps : List EP) : Bool := denseN (eps.map (·.name))

theorem denseN_perm {a b : List String} (h : a.Perm b) (ha : denseN a = true) : denseN b = true := by
  unfold denseN at ha ⊢
  rw [List.all_eq_true] at ha ⊢
  intro nm hnm
  have := ha nm (h.mem_iff.2 hnm)
  rw [← h.length_eq]; exact this

theorem srvName_fresh {names : List String} (hd : denseN names = true) : srvName (names.length + 1) ∉ names := by
  intro hm
  have := (List.all_eq_true.1 hd) _ hm
  rw [srvIdx_srvName] at this
  simp only [decide_eq_true_eq] at this
  omega

theorem denseN_snoc {names : List String} (hd : denseN names = true) :
    denseN (names ++ [srvName (names.length + 1)]) = true := by
  unfold denseN at hd ⊢
  rw [List.all_eq_true] at hd ⊢
  intro nm hnm
  rcases List.mem_append.1 hnm with h | h
  · have := hd nm h
    cases hi : srvIdx nm with
    | none => rfl
    | some k =>
      rw [hi] at this
      simp only [decide_eq_true_eq, List.length_append, List.length_singleton] at this ⊢
      omega
  · simp only [List.mem_singleton] at h
    subst h
    rw [srvIdx_srvName]
    simp

theorem addEmpty_eps (b : Back) :
    (addEmpty b).eps = b.eps ++ [mkEmpty (srvName (b.eps.length + 1)) b.initialWeight] := by
  simp [addEmpty, sanitizeName, srvName]

theorem addEmpty_names (b : Back) :
    (addEmpty b).eps.map (·.name) = b.eps.map (·.name) ++ [srvName ((b.eps.map (·.name)).length + 1)] := by
  rw [addEmpty_eps]; simp [mkEmpty]

/-- `AddEmptyEndpoint` keeps names unique and dense -/
theorem addEmpty_ok (b : Back) (h : namesNodup b.eps = true ∧ dense b.eps = true) :
    namesNodup (addEmpty b).eps = true ∧ dense (addEmpty b).eps = true := by
  obtain ⟨hn, hd⟩ := h
  rw [namesNodup_iff] at hn ⊢
  unfold dense at hd ⊢
  rw [addEmpty_names]
  refine ⟨?_, denseN_snoc hd⟩
  rw [List.nodup_append]
  refine ⟨hn, by simp, ?_⟩
  intro a ha c hc
  simp only [List.mem_singleton] at hc
  subst hc
  intro e; subst e
  exact srvName_fresh hd ha

theorem addEmpty_fold_ok (l : List Nat) : ∀ b : Back, namesNodup b.eps = true ∧ dense b.eps = true →
    namesNodup (l.foldl (fun b _ => addEmpty b) b).eps = true ∧ dense (l.foldl (fun b _ => addEmpty b) b).eps = true := by
  induction l with
  | nil => intro b h; exact h
  | cons x xs ih => intro b h; exact ih _ (addEmpty_ok b h)

/-- `alignSlots` keeps names unique and dense: the names it adds are `srv(len+1)`, `srv(len+2)`, … -/
theorem alignSlots_ok (b : Back) (minFree blockSize : Nat) (h : namesNodup b.eps = true ∧ dense b.eps = true) :
    namesNodup (alignSlots b minFree blockSize).eps = true ∧ dense (alignSlots b minFree blockSize).eps = true := by
  unfold alignSlots
  split
  · exact h
  · simp only
    split
    · exact addEmpty_fold_ok _ _ h
    · exact addEmpty_fold_ok _ _ (addEmpty_fold_ok _ _ h)

end HapVerif.C02
