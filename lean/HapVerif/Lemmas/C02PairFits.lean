import HapVerif.Lemmas.C02PairStruct
/-!
# M-Dyn / C11: an endpoint-only change that fits in the slots is applied without reload
(no label, no preserved cookie, every response OK)
-/
namespace HapVerif.C02

/-- `updated` still true and nothing but OK answers ahead -/
structure UInv (s : PairSt) : Prop where
  upd : s.updated = true
  scr : s.script = []

theorem exec_nil {s : PairSt} (c : Cmd) (h : s.script = []) :
    (s.exec c).2 = true ∧ (s.exec c).1.script = [] ∧ (s.exec c).1.updated = s.updated := by
  unfold PairSt.exec
  rw [h]
  exact ⟨rfl, rfl, rfl⟩

theorem chk_U {s : PairSt} (o c : EP) (ho : o.label = "") (hc : c.label = "") (h : UInv s) :
    UInv (finish (checkEndpointPair s false o c)) := by
  unfold checkEndpointPair finish
  split
  · simpa using h
  · simp only [Bool.false_eq_true, false_and, if_false]
    obtain ⟨h1, h2, h3⟩ := exec_nil (.enable c.name c.ip c.port c.weight) h.scr
    simp only [h1, ho, hc, Bool.true_and, decide_true, Bool.not_true, Bool.false_eq_true, if_false]
    exact ⟨h3.trans h.upd, h2⟩

theorem disableSt_U {s : PairSt} (o : EP) (ho : o.label = "") (h : UInv s) : UInv (disableSt s o) := by
  obtain ⟨h1, h2, h3⟩ := exec_nil (.disable o.name) h.scr
  unfold disableSt
  simp only [h1, ho, Bool.not_true, ne_eq, not_true_eq_false, decide_false, Bool.or_self, Bool.false_eq_true, if_false]
  exact ⟨h3.trans h.upd, h2⟩

theorem slotSt_U {s : PairSt} (a : Nat) (slot : EP)
    (hl : ((setName s.cur a slot.name).getD a default).label = "") (h : UInv s) :
    UInv (slotSt false s a slot) := by
  have hs1 : ({ s with cur := setName s.cur a slot.name } : PairSt).script = [] := h.scr
  obtain ⟨h1, h2, h3⟩ := exec_nil (.enable ((setName s.cur a slot.name).getD a default).name
    ((setName s.cur a slot.name).getD a default).ip ((setName s.cur a slot.name).getD a default).port
    ((setName s.cur a slot.name).getD a default).weight) hs1
  unfold slotSt
  simp only [Bool.false_eq_true, false_and, if_false, h1, hl, Bool.not_true, ne_eq, not_true_eq_false, decide_false,
    Bool.or_self]
  exact ⟨h3.trans h.upd, h2⟩

theorem getD_label {l : List EP} (h : ∀ e ∈ l, e.label = "") (i : Nat) : (l.getD i default).label = "" := by
  rw [List.getD_eq_getElem?_getD]
  cases hi : l[i]? with
  | none => rfl
  | some e => exact h e (List.mem_of_getElem? hi)

theorem label_of_clr {l l0 : List EP} (hc : l.map clr = l0.map clr) (h : ∀ e ∈ l0, e.label = "") (i : Nat) :
    (l.getD i default).label = "" := by
  rw [(clr_fields (clr_getD hc i)).2.2.2.2.2]; exact getD_label h i

theorem pair_old_mem {old cur0 : List EP} {pairs : List Pair} {cur : List EP} {added : List Nat} {n : Nat}
    (h : PInv old cur0 pairs cur added n) {p : Pair} (hp : p ∈ pairs) : p.old ∈ old := by
  have : p.old ∈ enOf old := by rw [← h.od]; exact List.mem_map_of_mem hp
  exact (List.mem_filter.1 this).1

/-- the loop keeps `updated = true` when nothing can go wrong -/
theorem pairLoop_fits (old cur0 : List EP) (iw : Int) (hO : hasDupTarget old = false)
    (hlen : cur0.length ≤ old.length) (hlo : ∀ e ∈ old, e.label = "") (hlc : ∀ e ∈ cur0, e.label = "") :
    ∃ s, pairLoop old cur0 false iw true [] = some s ∧ s.updated = true := by
  obtain ⟨W, s, _, hW, hX, h4, hY, hle, he⟩ := pairLoop_shape (old := old) (cur0 := cur0) false iw true [] hO hlen
    (fun w _ => UInv w.s) ⟨rfl, rfl⟩
    (by
      intro w t ts hW hU
      cases hf : w.pairs.find? (fun q => decide (q.target = t)) with
      | none => rw [walkStep_none false w t hf]; exact hU
      | some p =>
        have hpm : p ∈ w.pairs := List.mem_of_find?_eq_some hf
        have hol : p.old.label = "" := hlo _ (pair_old_mem hW.p hpm)
        cases hc : p.cur with
        | some ci =>
          rw [walkStep_cur false w t p ci hf hc]
          exact chk_U _ _ hol (label_of_clr hW.p.clr hlc ci) hU
        | none =>
          cases ha : w.added with
          | nil => rw [walkStep_disable false w t p hf hc ha]; exact disableSt_U _ hol hU
          | cons a rest =>
            rw [walkStep_take false w t p a rest hf hc ha]
            refine chk_U _ _ hol ?_ ⟨hU.upd, hU.scr⟩
            exact label_of_clr ((map_clr_setName _ _ _).trans hW.p.clr) hlc a)
    (fun s _ _ => UInv s) (fun W _ _ hX => hX)
    (by
      intro W _ _ _ s done a r slot h4 _ hU
      exact slotSt_U a slot (label_of_clr ((map_clr_setName _ _ _).trans h4.clr) hlc a) hU)
  exact ⟨_, he, hY.upd⟩

end HapVerif.C02
