import HapVerif.Lemmas.C04Word
import HapVerif.Lemmas.C04Sort
/-!
# C04 — well-formedness predicates, the typed layout behind `rebuildV`, `WellOrdered`.  Core only.
-/
namespace HapVerif.C04
open List

/-! ## well-formed rules and requests (decidable) -/

/-- no empty path segment: `//` does not occur -/
def noDbl : Str → Bool
  | [] => true
  | [_] => true
  | a :: b :: cs => !(a = '/' && b = '/') && noDbl (b :: cs)

def hostOk (h : Str) : Bool := !h.isEmpty && !h.contains '/' && !h.contains '#'

def pathOk (p : Str) : Bool := p.head? = some '/' && !p.contains '#' && noDbl p

def ruleOk (r : Rule) : Bool := hostOk r.host && pathOk r.path

/-- hypotheses on the declared rules -/
def WF (rules : List Rule) : Bool := rules.all ruleOk

/-- hypotheses on a request: the host has no `/` and no `#`, the path starts with `/`, has no `#` -/
def WFReq (host path : Str) : Bool :=
  !host.contains '/' && !host.contains '#' && path.head? = some '/' && !path.contains '#'

theorem noDbl_tail {x : Char} : ∀ {s : Str}, noDbl (x :: s) = true → noDbl s = true
  | [], _ => rfl
  | _ :: _, h => by simp only [noDbl, Bool.and_eq_true] at h; exact h.2

theorem noDbl_append_right : ∀ {a b : Str}, noDbl (a ++ b) = true → noDbl b = true
  | [], _, h => h
  | _ :: a, _, h => noDbl_append_right (a := a) (noDbl_tail h)

theorem lower_noDbl : ∀ {s : Str}, noDbl s = true → noDbl (lower s) = true
  | [], _ => rfl
  | [_], _ => rfl
  | a :: b :: cs, h => by
    simp only [noDbl, Bool.and_eq_true, Bool.not_eq_true', Bool.and_eq_false_iff,
      decide_eq_false_iff_not] at h
    simp only [lower_cons, noDbl, Bool.and_eq_true, Bool.not_eq_true', Bool.and_eq_false_iff,
      decide_eq_false_iff_not, lowerC_eq_slash]
    exact ⟨h.1, by simpa using lower_noDbl h.2⟩

/-! ## entries of well-formed rules -/

structure EntryOK (e : Entry) : Prop where
  hne : e.host ≠ []
  hash : '#' ∉ e.host
  slash : '/' ∉ e.host
  key : e.key = e.host ++ '#' :: e.path
  nodbl : noDbl e.path = true
  low : e.mt = .beg → lower e.path = e.path

theorem EntryOK.keyOK {e : Entry} (h : EntryOK e) : KeyOK e := ⟨h.hash, h.key⟩

theorem addTarget_ok {r : Rule} (h : ruleOk r = true) (i : Nat) : EntryOK (addTarget r i) := by
  simp only [ruleOk, hostOk, pathOk, Bool.and_eq_true, Bool.not_eq_true', decide_eq_true_eq,
    contains_eq_mem, decide_eq_false_iff_not, isEmpty_eq_false_iff] at h
  obtain ⟨⟨⟨h1, h2⟩, h3⟩, ⟨h4, h5⟩, h6⟩ := h
  have hp : (if r.mt = .beg then lower r.path else r.path) ≠ [] := by
    split
    · intro e; rw [lower_eq_nil] at e; rw [e] at h4; simp at h4
    · intro e; rw [e] at h4; simp at h4
  have hl : lower r.host ≠ [] := fun e => h1 (lower_eq_nil.1 e)
  refine ⟨hl, fun hh => h3 (mem_lower_hash.1 hh), fun hh => h2 (mem_lower_slash.1 hh), ?_, ?_, ?_⟩
  · simp only [addTarget, buildMapKey]
    rw [if_pos ⟨hl, hp⟩]
  · simp only [addTarget]
    split
    · exact lower_noDbl h6
    · exact h6
  · intro hb
    simp only [addTarget] at hb ⊢
    simp [hb]

theorem mem_entriesOf {rules : List Rule} {e : Entry} :
    e ∈ entriesOf rules ↔ ∃ i, ∃ h : i < rules.length, e = addTarget rules[i] i := by
  unfold entriesOf
  rw [mem_map]
  constructor
  · rintro ⟨⟨r, i⟩, hm, rfl⟩
    obtain ⟨k, hk, e⟩ := mem_iff_getElem.1 hm
    rw [getElem_zip] at e
    simp only [getElem_range, Prod.mk.injEq] at e
    obtain ⟨rfl, rfl⟩ := e
    simp only [length_zip, length_range, Nat.min_self] at hk
    exact ⟨k, hk, rfl⟩
  · rintro ⟨i, hi, rfl⟩
    refine ⟨(rules[i], i), ?_, rfl⟩
    apply mem_iff_getElem.2
    refine ⟨i, by simp [hi], ?_⟩
    rw [getElem_zip]; simp

theorem entriesOf_ok {rules : List Rule} (h : WF rules = true) :
    ∀ e ∈ entriesOf rules, EntryOK e := by
  intro e he
  obtain ⟨i, hi, rfl⟩ := mem_entriesOf.1 he
  exact addTarget_ok (all_eq_true.1 h _ (getElem_mem hi)) i

/-! ## the typed layout behind `rebuildV` -/

abbrev Layout := List PFile

/-- what is written to disk for a typed layout -/
def emit (l : Layout) : List MFile := l.map fun f => mkFile f.mt f.entries

/-- entries not placed in a priority file -/
def restOf (prio : Layout) (es : List Entry) : List Entry :=
  es.filter fun e => !((prio.flatMap (·.entries)).map (·.order)).contains e.order

def dfltFile (rest : List Entry) (mt : MT) : Layout :=
  if (rest.filter (·.mt = mt)).isEmpty then [] else [⟨mt, rest.filter (·.mt = mt)⟩]

/-- `rebuildV` before the per-file sort -/
def layoutV (v : Variant) (matchOrder : List MT) (es : List Entry) (hostOrder : List Str) : Layout :=
  let prio := buildPrio v es hostOrder
  let rest := restOf prio es
  (if matchOrder.contains .exact then dfltFile rest .exact else []) ++ prio ++
    (matchOrder.filter (· ≠ .exact)).flatMap (dfltFile rest)

theorem emit_dfltFile (rest : List Entry) (mt : MT) :
    emit (dfltFile rest mt) =
      (if (rest.filter (·.mt = mt)).isEmpty then [] else [mkFile mt (rest.filter (·.mt = mt))]) := by
  unfold dfltFile emit; split <;> simp

theorem rebuildV_eq_emit (v : Variant) (mo : List MT) (es : List Entry) (ho : List Str) :
    rebuildV v mo es ho = emit (layoutV v mo es ho) := by
  have hfm : ∀ (ms : List MT) (rest : List Entry),
      emit (ms.flatMap (dfltFile rest)) = ms.flatMap (fun mt => emit (dfltFile rest mt)) := by
    intro ms rest; simp [emit, map_flatMap]
  unfold rebuildV layoutV
  simp only [emit, map_append] 
  congr 1
  · congr 1
    split
    · exact (emit_dfltFile _ _).symm
    · rfl
  · have := hfm (mo.filter (· ≠ .exact)) (restOf (buildPrio v es ho) es)
    simp only [emit] at this
    rw [this]
    congr 1
    funext mt
    exact (emit_dfltFile _ _).symm

/-- `e1`'s folded path properly extends `e2`'s -/
def ext (e1 e2 : Entry) : Bool :=
  (lower e2.path).isPrefixOf (lower e1.path) && decide (e2.path.length < e1.path.length)

/-- the layout invariant that makes first-answer-wins lookups return the longest declared path -/
structure WellOrdered (l : Layout) : Prop where
  /-- every entry sits in a file of its own type -/
  typed : ∀ f ∈ l, ∀ e ∈ f.entries, e.mt = f.mt
  /-- only the first file may be an exact file -/
  exactFirst : ∀ (i : Nat) (f : PFile), l[i]? = some f → f.mt = .exact → i = 0
  /-- same host, non-exact, `e1` properly extends `e2` ⇒ `e1`'s file is not after `e2`'s
      (hence strictly before when the types differ, by `typed`) -/
  order : ∀ (i j : Nat) (f g : PFile) (e1 e2 : Entry), l[i]? = some f → l[j]? = some g → e1 ∈ f.entries → e2 ∈ g.entries →
    e1.host = e2.host → e1.mt ≠ .exact → e2.mt ≠ .exact → ext e1 e2 = true → i ≤ j

theorem WellOrdered.strict {l : Layout} (w : WellOrdered l) {i j : Nat} {f g : PFile} {e1 e2 : Entry}
    (hf : l[i]? = some f) (hg : l[j]? = some g) (h1 : e1 ∈ f.entries) (h2 : e2 ∈ g.entries)
    (hh : e1.host = e2.host) (x1 : e1.mt ≠ .exact) (x2 : e2.mt ≠ .exact) (he : ext e1 e2 = true)
    (hne : e1.mt ≠ e2.mt) : i < j := by
  have := w.order i j f g e1 e2 hf hg h1 h2 hh x1 x2 he
  rcases Nat.lt_or_eq_of_le this with h | h
  · exact h
  · subst h
    rw [hf] at hg; cases hg
    exact absurd ((w.typed f (mem_of_getElem? hf) e1 h1).trans (w.typed f (mem_of_getElem? hf) e2 h2).symm) hne

end HapVerif.C04
