import HapVerif.Lemmas.C16Core
/-!
# C16 — E1: `RebalanceWeight` in exact rational arithmetic satisfies the whole Spec

With `rnd = id` the pre-weight of a cluster is `s * clusterWeight` for one positive scale
`s` common to all clusters (`256 / mx` when the weights have to be scaled down, else
`initial / mn`) — `exact_char`.  The four clauses follow from the rounding-independent
lemmas of `C16Core`.
-/
namespace HapVerif.C16

/-- scaled form of `share_core`: ideal weights `t * ratio`, relative error `e` -/
theorem share_scaled {t rp rq xt yt e : Rat} {a b : Int} (ht : 0 < t) (hrp : 0 < rp)
    (hpq : rp ≤ rq) (he : 0 ≤ e)
    (hx : |xt - t * rp| ≤ e * (t * rp)) (hy : |yt - t * rq| ≤ e * (t * rq))
    (ha : a = max 1 ⌊xt⌋) (hb : b = max 1 ⌊yt⌋) :
    |(a : Rat) * rq - (b : Rat) * rp| ≤ rq * (1 + 2 * e * (t * rp)) := by
  have hx' := abs_le.1 hx
  have hy' := abs_le.1 hy
  have hxpos : 0 < t * rp := mul_pos ht hrp
  have hxy : t * rp ≤ t * rq := mul_le_mul_of_nonneg_left hpq (le_of_lt ht)
  have hrq : 0 < rq := lt_of_lt_of_le hrp hpq
  have core := share_core (x := t * rp) (y := t * rq) (xt := xt) (yt := yt)
    (ex := e * (t * rp)) (ey := e * (t * rq)) (a := a) (b := b) hxpos hxy
    (by linarith) (by linarith) (by linarith) (by linarith)
    (mul_nonneg he (le_of_lt hxpos)) (mul_nonneg he (le_of_lt (mul_pos ht hrq))) ha hb
  have e1 : (a : Rat) * (t * rq) - (b : Rat) * (t * rp) = t * ((a : Rat) * rq - (b : Rat) * rp) := by ring
  rw [e1, abs_mul, abs_of_pos ht] at core
  have e2 : t * rq + (e * (t * rp) * (t * rq) + e * (t * rq) * (t * rp)) =
      t * (rq * (1 + 2 * e * (t * rp))) := by ring
  rw [e2] at core
  exact le_of_mul_le_mul_left core ht

section exact
variable {cls : List Cluster} {initial : Int}

/-- the common scale factor of the exact computation -/
def scaleE (initial : Int) (a : Acc) : Rat :=
  if (initial : Rat) * a.mx / (256 * a.mn) > 1 then 256 / (a.mx : Rat) else (initial : Rat) / a.mn

theorem preW_id {lcm : Int} {a : Acc} {c : Cluster} (hg : 0 < a.g) (hmn : 0 < a.mn) (hmx : 0 < a.mx)
    (hi : 0 < initial) (hd : c.length ∣ lcm) (hl : 0 < c.length) :
    preW id lcm a.g (wfmOf id initial a) (wfOf id initial a) c =
      scaleE initial a * (clusterWeight lcm c : Rat) := by
  have hg' : (0 : Rat) < a.g := by exact_mod_cast hg
  have hmn' : (0 : Rat) < a.mn := by exact_mod_cast hmn
  have hmx' : (0 : Rat) < a.mx := by exact_mod_cast hmx
  have hi' : (0 : Rat) < initial := by exact_mod_cast hi
  have hl' : (0 : Rat) < c.length := by exact_mod_cast hl
  rw [clusterWeight_cast hd (by omega)]
  have hwf : wfOf id initial a = (initial : Rat) * a.mx / (256 * a.mn) := by
    unfold wfOf wfmOf id; field_simp
  unfold preW scaleE
  rw [hwf]
  by_cases hm : (initial : Rat) * a.mx / (256 * a.mn) > 1
  · simp only [hm, if_true]
    unfold wfmOf id; field_simp
  · simp only [hm, if_false]
    unfold wfmOf id; field_simp

/-- **characterisation of the exact result**: one positive scale `s`, every written weight
is `clamp (trunc (s * clusterWeight))`, and `s * clusterWeight ≤ 256`. -/
theorem exact_char (h : WFIn cls initial) :
    ∃ s : Rat, 0 < s ∧ ∀ p ∈ live cls (rebalanceExact cls initial),
      p.1 ∈ cls ∧ 0 < p.1.length ∧ 0 < lcmCount cls ∧ p.1.length ∣ lcmCount cls ∧
      p.2 = clampW p.1.weight (truncI (s * (clusterWeight (lcmCount cls) p.1 : Rat))) ∧
      s * (clusterWeight (lcmCount cls) p.1 : Rat) ≤ 256 := by
  by_cases hg : (accAll (lcmCount cls) cls).g = 0
  · refine ⟨1, one_pos, ?_⟩
    intro p hp
    obtain ⟨h1, h2, h3, h4, h5⟩ := live_rebalanceWith h hp
    rcases h5 with ⟨_, hw, hz⟩ | ⟨hne, _⟩
    · refine ⟨h1, h2, h3, h4, ?_, ?_⟩
      · rw [clusterWeight_zero hw, hz, hw]; simp [truncI_zero', clampW]
      · rw [clusterWeight_zero hw]; norm_num
    · exact absurd hg hne
  · obtain ⟨g0, mn0, mnmx, hall, _, _⟩ := accAll_spec h hg
    have hmx0 : 0 < (accAll (lcmCount cls) cls).mx := by omega
    have hi0 : 0 < initial := by have := h.ilo; omega
    have hsc : 0 < scaleE initial (accAll (lcmCount cls) cls) := by
      have hmn' : (0 : Rat) < (accAll (lcmCount cls) cls).mn := by exact_mod_cast mn0
      have hmx' : (0 : Rat) < (accAll (lcmCount cls) cls).mx := by exact_mod_cast hmx0
      have hi' : (0 : Rat) < initial := by exact_mod_cast hi0
      unfold scaleE; split <;> positivity
    refine ⟨_, hsc, ?_⟩
    intro p hp
    obtain ⟨h1, h2, h3, h4, h5⟩ := live_rebalanceWith h hp
    rcases h5 with ⟨hz, _⟩ | ⟨_, hv⟩
    · exact absurd hz hg
    · rw [preW_id g0 mn0 hmx0 hi0 h4 h2] at hv
      refine ⟨h1, h2, h3, h4, hv, ?_⟩
      -- the bound
      have hcw : clusterWeight (lcmCount cls) p.1 ≤ (accAll (lcmCount cls) cls).mx ∧
          0 ≤ clusterWeight (lcmCount cls) p.1 := by
        by_cases hw : p.1.weight = 0
        · rw [clusterWeight_zero hw]; omega
        · have hact : active p.1 := by unfold active; omega
          have := hall p.1 h1 hact
          omega
      have hmn' : (0 : Rat) < (accAll (lcmCount cls) cls).mn := by exact_mod_cast mn0
      have hmx' : (0 : Rat) < (accAll (lcmCount cls) cls).mx := by exact_mod_cast hmx0
      have hi' : (0 : Rat) < initial := by exact_mod_cast hi0
      have c1 : (clusterWeight (lcmCount cls) p.1 : Rat) ≤ (accAll (lcmCount cls) cls).mx := by
        exact_mod_cast hcw.1
      have c0 : (0 : Rat) ≤ (clusterWeight (lcmCount cls) p.1 : Rat) := by exact_mod_cast hcw.2
      unfold scaleE
      split
      · rw [div_mul_eq_mul_div, div_le_iff₀ hmx']
        nlinarith
      · rename_i hm
        have hm' := not_lt.1 hm
        rw [div_le_one (by positivity)] at hm'
        rw [div_mul_eq_mul_div, div_le_iff₀ hmn']
        nlinarith

/-- E1 `exact_range` -/
theorem exact_range' (h : WFIn cls initial) :
    ∀ p ∈ live cls (rebalanceExact cls initial), 0 ≤ p.2 ∧ p.2 ≤ 256 := by
  obtain ⟨s, hs, hall⟩ := exact_char h
  intro p hp
  obtain ⟨h1, h2, h3, h4, hv, hb⟩ := hall p hp
  rw [hv]
  have hw := h.wlo p.1 h1
  have c0 : (0 : Rat) ≤ (clusterWeight (lcmCount cls) p.1 : Rat) := by
    rw [clusterWeight_cast_ratio h4 (by omega)]
    have : (0 : Rat) < lcmCount cls := by exact_mod_cast h3
    have := ratio_nonneg h2 hw
    positivity
  exact out_range (by positivity) (by linarith)

/-- E1 `exact_zero_iff` -/
theorem exact_zero_iff' (h : WFIn cls initial) :
    ∀ p ∈ live cls (rebalanceExact cls initial), (p.2 = 0 ↔ p.1.weight = 0) := by
  obtain ⟨s, hs, hall⟩ := exact_char h
  intro p hp
  obtain ⟨h1, h2, h3, h4, hv, hb⟩ := hall p hp
  rw [hv]
  have hw := h.wlo p.1 h1
  have c0 : (0 : Rat) ≤ (clusterWeight (lcmCount cls) p.1 : Rat) := by
    rw [clusterWeight_cast_ratio h4 (by omega)]
    have : (0 : Rat) < lcmCount cls := by exact_mod_cast h3
    have := ratio_nonneg h2 hw
    positivity
  refine out_zero_iff hw (by positivity) ?_
  intro hz; rw [clusterWeight_zero hz]; simp

/-- E1 `exact_order`, non-strict form: `ratio p ≤ ratio q → w_p ≤ w_q` -/
theorem exact_order_le' (h : WFIn cls initial) :
    ∀ p ∈ live cls (rebalanceExact cls initial), ∀ q ∈ live cls (rebalanceExact cls initial),
      ratio p.1 ≤ ratio q.1 → p.2 ≤ q.2 := by
  obtain ⟨s, hs, hall⟩ := exact_char h
  intro p hp q hq hr
  obtain ⟨p1, p2, p3, p4, pv, _⟩ := hall p hp
  obtain ⟨q1, q2, _, q4, qv, _⟩ := hall q hq
  rw [pv, qv, clusterWeight_cast_ratio p4 (by omega), clusterWeight_cast_ratio q4 (by omega)]
  have hL : (0 : Rat) < lcmCount cls := by exact_mod_cast p3
  have hrp := ratio_nonneg p2 (h.wlo p.1 p1)
  refine out_order (by positivity) ?_ ?_
  · exact mul_le_mul_of_nonneg_left (mul_le_mul_of_nonneg_right hr (le_of_lt hL)) (le_of_lt hs)
  · intro hwp
    have := (ratio_pos_iff p2).2 hwp
    exact (ratio_pos_iff q2).1 (lt_of_lt_of_le this hr)

/-- E1 `exact_share` -/
theorem exact_share' (h : WFIn cls initial) :
    ∀ p ∈ live cls (rebalanceExact cls initial), ∀ q ∈ live cls (rebalanceExact cls initial),
      0 < ratio p.1 → ratio p.1 ≤ ratio q.1 →
      |(p.2 : Rat) * ratio q.1 - (q.2 : Rat) * ratio p.1| ≤ ratio q.1 := by
  obtain ⟨s, hs, hall⟩ := exact_char h
  intro p hp q hq hr0 hr
  obtain ⟨p1, p2, p3, p4, pv, _⟩ := hall p hp
  obtain ⟨q1, q2, _, q4, qv, _⟩ := hall q hq
  rw [clusterWeight_cast_ratio p4 (by omega)] at pv
  rw [clusterWeight_cast_ratio q4 (by omega)] at qv
  have hL : (0 : Rat) < lcmCount cls := by exact_mod_cast p3
  have hwp : 0 < p.1.weight := (ratio_pos_iff p2).1 hr0
  have hwq : 0 < q.1.weight := (ratio_pos_iff q2).1 (lt_of_lt_of_le hr0 hr)
  have hrq : 0 < ratio q.1 := lt_of_lt_of_le hr0 hr
  have hxp : 0 ≤ s * (ratio p.1 * (lcmCount cls : Rat)) := by positivity
  have hxq : 0 ≤ s * (ratio q.1 * (lcmCount cls : Rat)) := by positivity
  rw [truncI_nonneg hxp, clampW_pos hwp (Int.floor_nonneg.2 hxp)] at pv
  rw [truncI_nonneg hxq, clampW_pos hwq (Int.floor_nonneg.2 hxq)] at qv
  have ht : 0 < s * (lcmCount cls : Rat) := mul_pos hs hL
  have := share_scaled (t := s * (lcmCount cls : Rat)) (rp := ratio p.1) (rq := ratio q.1)
    (xt := s * (ratio p.1 * (lcmCount cls : Rat))) (yt := s * (ratio q.1 * (lcmCount cls : Rat)))
    (e := 0) (a := p.2) (b := q.2) ht hr0 hr (le_refl _)
    (by rw [show s * (ratio p.1 * (lcmCount cls : Rat)) - s * (lcmCount cls : Rat) * ratio p.1 = 0 by ring]; simp)
    (by rw [show s * (ratio q.1 * (lcmCount cls : Rat)) - s * (lcmCount cls : Rat) * ratio q.1 = 0 by ring]; simp)
    pv qv
  simpa using this

/-- E1: the exact-arithmetic algorithm meets the whole Spec -/
theorem exact_oracle' (h : WFIn cls initial) : oracle cls (rebalanceExact cls initial) = none := by
  refine oracle_none (rebalanceWith_length _ _ _).symm ?_ ?_ ?_ ?_
  · intro p hp; exact (specRange_iff p).2 (exact_range' h p hp)
  · intro p hp; exact (specZero_iff p).2 (exact_zero_iff' h p hp)
  · intro p hp q hq
    exact (specOrder_iff p q).2 fun hr => exact_order_le' h p hp q hq (le_of_lt hr)
  · intro p hp q hq
    refine (specShare_iff p q).2 fun hr => le_trans (exact_share' h p hp q hq hr.1 hr.2) ?_
    have : 0 < ratio q.1 := lt_of_lt_of_le hr.1 hr.2
    nlinarith

end exact
end HapVerif.C16
