import HapVerif.Model.C15
import HapVerif.Lemmas.C03
/-!
# C15 — lemmas (core Lean)

* the tls list of `fullSync` is the fold "first declaration of a host wins" over `tlsDecls`;
  `crtOfHost` of the configuration = `declaredCrt` of the cluster state;
* the host list = hosts of rules and tls blocks of the ingresses of this controller;
* membership in the generated crt-list (`mem_crtList`);
* `served_eq_spec`: HAProxy's lookup in that list = `specCrt` (full strength, after repair c836d74);
* replacing the content of a secret commutes with everything (`specCrt_setVersion`).
-/
namespace HapVerif.C15
open HapVerif.Sync List
open HapVerif.C04 (Str lower lowerC)

/-! ## the tls list of the full sync = first declaration per host -/

def stepT (t : List (Str × Crt)) (d : Str × Crt) : List (Str × Crt) := addTLSHost d.2 t d.1

theorem addTLS_eq (w : World) (ns : Str) (t : List (Str × Crt)) (b : TLSSpec) :
    addTLS w ns t b = (b.hosts.map fun h => (h, crtOf w ns b.secret)).foldl stepT t := by
  unfold addTLS
  rw [foldl_map]
  rfl

theorem foldl_addTLS_eq (w : World) (ns : Str) : ∀ (bs : List TLSSpec) (t : List (Str × Crt)),
    bs.foldl (addTLS w ns) t =
      (bs.flatMap fun b => b.hosts.map fun h => (h, crtOf w ns b.secret)).foldl stepT t
  | [], _ => rfl
  | b :: bs, t => by
    simp only [foldl_cons, flatMap_cons, foldl_append]
    rw [foldl_addTLS_eq w ns bs, addTLS_eq]

theorem foldl_syncIngress_tls (w : World) : ∀ (l : List Ingress) (c : Cfg),
    (l.foldl (syncIngress w) c).tls =
      (l.flatMap fun i => i.tls.flatMap fun b => b.hosts.map fun h => (h, crtOf w i.ns b.secret)).foldl stepT c.tls
  | [], _ => rfl
  | i :: l, c => by
    simp only [foldl_cons, flatMap_cons, foldl_append]
    rw [foldl_syncIngress_tls w l, C03.syncIngress_tls, foldl_addTLS_eq]

theorem fullSync_tls (w : World) : (fullSync w).tls = (tlsDecls w).foldl stepT [] := by
  unfold fullSync tlsDecls
  rw [foldl_syncIngress_tls, C03.initCfg_tls]

theorem stepT_nodup {t : List (Str × Crt)} (d : Str × Crt) (h : (t.map (·.1)).Nodup) :
    ((stepT t d).map (·.1)).Nodup := by
  unfold stepT addTLSHost
  split
  · exact h
  · rename_i hn
    rw [map_append, map_singleton]
    refine nodup_append.2 ⟨h, by simp, ?_⟩
    intro a ha b hb
    simp only [mem_singleton] at hb
    subst hb
    intro e
    subst e
    apply hn
    obtain ⟨x, hx, hx1⟩ := mem_map.1 ha
    exact any_eq_true.2 ⟨x, hx, by simp [hx1]⟩

theorem foldl_stepT_nodup : ∀ (ds t : List (Str × Crt)), (t.map (·.1)).Nodup →
    ((ds.foldl stepT t).map (·.1)).Nodup
  | [], _, h => h
  | d :: ds, _, h => foldl_stepT_nodup ds _ (stepT_nodup d h)

theorem foldl_stepT_find (h : Str) : ∀ (ds t : List (Str × Crt)),
    (ds.foldl stepT t).find? (·.1 = h) = (t ++ ds).find? (·.1 = h)
  | [], t => by simp
  | d :: ds, t => by
    simp only [foldl_cons]
    rw [foldl_stepT_find h ds]
    unfold stepT addTLSHost
    split
    · rename_i ha
      rw [find?_append, find?_append, find?_cons]
      by_cases e : d.1 = h
      · obtain ⟨x, hx, hx1⟩ := any_eq_true.1 ha
        have : (t.find? (·.1 = h)).isSome := by
          rw [find?_isSome]
          exact ⟨x, hx, by simpa [e] using hx1⟩
        cases ht : t.find? (·.1 = h) with
        | none => rw [ht] at this; simp at this
        | some y => simp
      · simp [e]
    · rw [append_assoc, singleton_append]

/-- the certificate of a host in the configuration = the one of its first tls declaration -/
theorem crtOfHost_spec (w : World) (h : Str) : (fullSync w).crtOfHost h = (declaredCrt w h).getD .dflt := by
  unfold Cfg.crtOfHost declaredCrt
  have hf := foldl_stepT_find h (tlsDecls w) []
  rw [nil_append, ← fullSync_tls] at hf
  rw [hf]

/-! ## the host list -/

theorem addHost_mem {l : List Str} {h x : Str} : x ∈ addHost l h ↔ x ∈ l ∨ x = h := by
  unfold addHost
  split
  · rename_i hc
    constructor
    · exact Or.inl
    · rintro (h1 | h1)
      · exact h1
      · subst h1; exact contains_iff_mem.1 hc
  · simp

theorem foldl_addHost_mem {x : Str} : ∀ (hs l : List Str), x ∈ hs.foldl addHost l ↔ x ∈ l ∨ x ∈ hs
  | [], l => by simp
  | h :: hs, l => by
    simp only [foldl_cons]
    rw [foldl_addHost_mem hs, addHost_mem, mem_cons, or_assoc]

theorem foldl_addDecl_hosts (w : World) : ∀ (ds : List Decl) (c : Cfg), (ds.foldl (addDecl w) c).hosts = c.hosts
  | [], _ => rfl
  | d :: ds, c => by
    simp only [foldl_cons]
    rw [foldl_addDecl_hosts w ds]
    unfold addDecl
    split
    · rfl
    · split <;> rfl

theorem foldl_syncIngress_hosts_mem (w : World) (x : Str) : ∀ (l : List Ingress) (c : Cfg),
    x ∈ (l.foldl (syncIngress w) c).hosts ↔ x ∈ c.hosts ∨ ∃ i ∈ l, x ∈ hostsOfIng i
  | [], c => by simp
  | i :: l, c => by
    simp only [foldl_cons]
    rw [foldl_syncIngress_hosts_mem w x l]
    have : (syncIngress w c i).hosts = (hostsOfIng i).foldl addHost c.hosts := by
      unfold syncIngress
      simp only
      rw [foldl_addDecl_hosts]
    rw [this, foldl_addHost_mem]
    simp only [mem_cons, exists_eq_or_imp, or_assoc]

theorem initCfg_hosts (w : World) : (initCfg w).hosts = [] := by
  unfold initCfg
  repeat' split
  all_goals rfl

theorem mem_fullSync_hosts {w : World} {x : Str} :
    x ∈ (fullSync w).hosts ↔ ∃ i ∈ w.ings.filter (·.valid), x ∈ hostsOfIng i := by
  unfold fullSync sortIngs
  rw [foldl_syncIngress_hosts_mem, initCfg_hosts]
  simp only [not_mem_nil, false_or]
  constructor
  · rintro ⟨i, hi, hx⟩; exact ⟨i, C03.mem_sortBy.1 hi, hx⟩
  · rintro ⟨i, hi, hx⟩; exact ⟨i, C03.mem_sortBy.2 hi, hx⟩

theorem mem_tlsDecls {w : World} {d : Str × Crt} (h : d ∈ tlsDecls w) :
    ∃ i ∈ w.ings.filter (·.valid), d.1 ∈ i.tls.flatMap (·.hosts) := by
  unfold tlsDecls sortIngs at h
  obtain ⟨i, hi, h2⟩ := mem_flatMap.1 h
  obtain ⟨b, hb, h3⟩ := mem_flatMap.1 h2
  obtain ⟨x, hx, rfl⟩ := mem_map.1 h3
  exact ⟨i, C03.mem_sortBy.1 hi, mem_flatMap.2 ⟨b, hb, hx⟩⟩

theorem declaredCrt_mem {w : World} {h : Str} {c : Crt} (hd : declaredCrt w h = some c) :
    ∃ d ∈ tlsDecls w, d.1 = h := by
  unfold declaredCrt at hd
  cases hf : (tlsDecls w).find? (·.1 = h) with
  | none => rw [hf] at hd; simp at hd
  | some x => exact ⟨x, mem_of_find?_eq_some hf, by simpa using find?_some hf⟩

/-- a host with a tls declaration is in the host list -/
theorem declared_in_hosts {w : World} {h : Str} {c : Crt} (hd : declaredCrt w h = some c) :
    h ∈ (fullSync w).hosts := by
  obtain ⟨d, hd1, rfl⟩ := declaredCrt_mem hd
  obtain ⟨i, hi, hx⟩ := mem_tlsDecls hd1
  exact mem_fullSync_hosts.2 ⟨i, hi, by unfold hostsOfIng; exact mem_append_right _ hx⟩

theorem declaredCrt_host_ok {w : World} (wf : WFTls w = true) {h : Str} {c : Crt}
    (hd : declaredCrt w h = some c) : lower h = h ∧ h ≠ dfltHost := by
  obtain ⟨d, hd1, rfl⟩ := declaredCrt_mem hd
  have := all_eq_true.1 wf d hd1
  unfold tlsHostOk at this
  simpa using this

/-- a non-empty rule host is in the host list -/
theorem ruleHost_in_hosts {w : World} {h : Str} (hr : isRuleHost w h = true) (hne : h ≠ []) :
    h ∈ (fullSync w).hosts := by
  unfold isRuleHost at hr
  obtain ⟨i, hi, h2⟩ := any_eq_true.1 hr
  obtain ⟨r, hr1, h3⟩ := any_eq_true.1 h2
  simp only [decide_eq_true_eq] at h3
  refine mem_fullSync_hosts.2 ⟨i, hi, ?_⟩
  unfold hostsOfIng
  apply mem_append_left
  refine mem_map.2 ⟨r, hr1, ?_⟩
  unfold normHost
  rw [h3]
  cases h with
  | nil => exact absurd rfl hne
  | cons a as => rfl

/-- every host of the list is lower case; one without tls declaration, other than `<default>`, is a rule host -/
theorem host_cases {w : World} (wt : WFTls w = true) (wh : WFHosts w = true) {h : Str}
    (hm : h ∈ (fullSync w).hosts) :
    lower h = h ∧ (declaredCrt w h = none → h ≠ dfltHost → isRuleHost w h = true) := by
  obtain ⟨i, hi, hx⟩ := mem_fullSync_hosts.1 hm
  unfold hostsOfIng at hx
  rcases mem_append.1 hx with hx | hx
  · obtain ⟨r, hr, rfl⟩ := mem_map.1 hx
    have hl := all_eq_true.1 (all_eq_true.1 wh i hi) r hr
    simp only [decide_eq_true_eq] at hl
    unfold normHost
    split
    · exact ⟨by decide, fun _ hne => absurd rfl hne⟩
    · refine ⟨hl, fun _ _ => ?_⟩
      unfold isRuleHost
      exact any_eq_true.2 ⟨i, hi, any_eq_true.2 ⟨r, hr, by simp⟩⟩
  · -- a tls host: it has a declaration
    have : ∃ c, declaredCrt w h = some c := by
      unfold declaredCrt
      cases hf : (tlsDecls w).find? (·.1 = h) with
      | some x => exact ⟨x.2, rfl⟩
      | none =>
        exfalso
        obtain ⟨b, hb, hh⟩ := mem_flatMap.1 hx
        have hmem : (h, crtOf w i.ns b.secret) ∈ tlsDecls w := by
          unfold tlsDecls sortIngs
          exact mem_flatMap.2 ⟨i, C03.mem_sortBy.2 hi, mem_flatMap.2 ⟨b, hb, mem_map.2 ⟨h, hh, rfl⟩⟩⟩
        have := find?_eq_none.1 hf _ hmem
        simp at this
    obtain ⟨c, hc⟩ := this
    exact ⟨(declaredCrt_host_ok wt hc).1, fun hn => by rw [hc] at hn; simp at hn⟩

/-- the lines of the crt-list -/
theorem mem_crtList {w : World} {e : CrtLine} :
    e ∈ crtList (fullSync w) ↔ e.filter ∈ (fullSync w).hosts ∧ e.filter ≠ dfltHost ∧
      e.crt = (fullSync w).crtOfHost e.filter ∧
      (e.crt ≠ .dflt ∨ (fullSync w).wildcardHasCustomCrt e.filter = true) := by
  unfold crtList
  simp only [mem_map, mem_filter, C03.mem_sortBy, decide_eq_true_eq, Bool.or_eq_true]
  constructor
  · rintro ⟨h, ⟨⟨h1, h2⟩, h3⟩, rfl⟩
    exact ⟨h1, h2, rfl, h3⟩
  · rintro ⟨h1, h2, h3, h4⟩
    refine ⟨e.filter, ⟨⟨h1, h2⟩, by rw [← h3]; exact h4⟩, ?_⟩
    cases e
    simp only at h3 ⊢
    rw [h3]

theorem lowerC_eq_star {c : Char} (h : lowerC c = '*') : c = '*' := by
  rcases C04.lowerC_cases c with ⟨e, _⟩ | ⟨h1, _⟩
  · rw [← e]; exact h
  · rw [h] at h1; exact absurd h1 (by decide)

theorem lower_head_star {s : Str} (h : s.head? ≠ some '*') : (lower s).head? ≠ some '*' := by
  cases s with
  | nil => simp
  | cons c cs =>
    simp only [C04.lower_cons, head?_cons, ne_eq, Option.some.injEq] at h ⊢
    exact fun e => h (lowerC_eq_star e)

theorem wildHost_eq_wildOf {s : Str} (h : s.head? ≠ some '*') : wildHost s = wildOf s := by
  unfold wildHost
  rw [if_neg h]

theorem wildHost_star (wc : Str) : wildHost ('*' :: wc) = none := by
  unfold wildHost
  simp



/-- a line of the crt-list has a lower-case filter -/
theorem crtList_filter_lower {w : World} (wt : WFTls w = true) (wh : WFHosts w = true) {e : CrtLine}
    (he : e ∈ crtList (fullSync w)) : lower e.filter = e.filter :=
  (host_cases wt wh (mem_crtList.1 he).1).1

/-- a wildcard line exists exactly when the wildcard host has a certificate of its own -/
theorem wild_line {w : World} (_wt : WFTls w = true) (_wh : WFHosts w = true) {rest : Str} {e : CrtLine}
    (he : e ∈ crtList (fullSync w)) (hf : e.filter = '*' :: rest) :
    e.crt ≠ .dflt ∧ e.crt = (declaredCrt w ('*' :: rest)).getD .dflt := by
  obtain ⟨_, _, h3, h4⟩ := mem_crtList.1 he
  rw [hf] at h3 h4
  rw [crtOfHost_spec] at h3
  refine ⟨?_, h3⟩
  rcases h4 with h4 | h4
  · exact h4
  · unfold Cfg.wildcardHasCustomCrt at h4
    rw [wildHost_star] at h4
    simp at h4

theorem no_line_of_find_none {w : World} {p : CrtLine → Bool} {h : Str}
    (hx : (crtList (fullSync w)).find? p = none) (hp : ∀ c, p ⟨c, h⟩ = true)
    (hm : h ∈ (fullSync w).hosts) (hd : h ≠ dfltHost) :
    (fullSync w).crtOfHost h = .dflt ∧ (fullSync w).wildcardHasCustomCrt h = false := by
  have key : ¬ ((fullSync w).crtOfHost h ≠ .dflt ∨ (fullSync w).wildcardHasCustomCrt h = true) := by
    intro hor
    have hmem : (⟨(fullSync w).crtOfHost h, h⟩ : CrtLine) ∈ crtList (fullSync w) :=
      mem_crtList.2 ⟨hm, hd, rfl, hor⟩
    have := find?_eq_none.1 hx _ hmem
    rw [hp] at this
    exact this rfl
  constructor
  · by_cases e : (fullSync w).crtOfHost h = .dflt
    · exact e
    · exact absurd (Or.inl e) key
  · cases e : (fullSync w).wildcardHasCustomCrt h with
    | false => rfl
    | true => exact absurd (Or.inr e) key

/-- **sni_spec**: the certificate the generated crt-list serves for a name is the one the Spec demands -/
theorem served_eq_spec {w : World} (wt : WFTls w = true) (wh : WFHosts w = true) {sni : Str}
    (hs : WFSni sni = true) : served w sni = specCrt w sni := by
  unfold served sniCrt specCrt
  simp only
  have hstar : (lower sni).head? ≠ some '*' := lower_head_star (by simpa [WFSni] using hs)
  have hlow : lower (lower sni) = lower sni := C04.lower_idem sni
  generalize lower sni = s at hstar hlow ⊢
  have hnw : isWild s = false := by unfold isWild; simpa using hstar
  cases hx : (crtList (fullSync w)).find? (fun e => !isWild e.filter && lower e.filter = s) with
  | some e =>
    simp only
    have he := mem_of_find?_eq_some hx
    have hp := find?_some hx
    simp only [Bool.and_eq_true, Bool.not_eq_true', decide_eq_true_eq] at hp
    rw [crtList_filter_lower wt wh he] at hp
    obtain ⟨m1, m2, m3, m4⟩ := mem_crtList.1 he
    rw [hp.2] at m1 m2 m3 m4
    rw [crtOfHost_spec] at m3
    cases hd : declaredCrt w s with
    | some c => rw [hd] at m3; simpa using m3
    | none =>
      rw [hd] at m3
      simp only [Option.getD_none] at m3
      have := (host_cases wt wh m1).2 hd m2
      simp only [this, if_true]
      exact m3
  | none =>
    simp only
    have hp : ∀ c, (fun e : CrtLine => !isWild e.filter && decide (lower e.filter = s)) ⟨c, s⟩ = true := by
      intro c; simp [hnw, hlow]
    have hwo := wildHost_eq_wildOf hstar
    -- the wildcard step of the model, in terms of the Spec
    have wstep : ∀ wc, wildOf s = some wc → s ∈ (fullSync w).hosts → s ≠ dfltHost →
        (crtList (fullSync w)).find? (fun e => lower e.filter = wc) = none := by
      intro wc hwc hm hd
      obtain ⟨_, h2⟩ := no_line_of_find_none hx hp hm hd
      cases hy : (crtList (fullSync w)).find? (fun e => lower e.filter = wc) with
      | none => rfl
      | some e' =>
        exfalso
        have he' := mem_of_find?_eq_some hy
        have hp' := find?_some hy
        simp only [decide_eq_true_eq] at hp'
        rw [crtList_filter_lower wt wh he'] at hp'
        have hwc' : wc = '*' :: s.dropWhile (· ≠ '.') := by
          unfold wildOf at hwc
          simp only at hwc
          split at hwc
          · simp at hwc
          · simpa using hwc.symm
        rw [hwc'] at hp'
        obtain ⟨hne, hcr⟩ := wild_line wt wh he' hp'
        unfold Cfg.wildcardHasCustomCrt at h2
        rw [hwo, hwc] at h2
        simp only at h2
        rw [crtOfHost_spec, hwc', ← hcr] at h2
        simp [hne] at h2
    have dot_ne : ∀ wc, wildOf s = some wc → s ≠ [] ∧ s ≠ dfltHost := by
      intro wc hwc
      unfold wildOf at hwc
      simp only at hwc
      split at hwc
      · simp at hwc
      · rename_i hcond
        constructor
        · intro e; subst e; simp at hcond
        · intro e; subst e; exact hcond (Or.inl (by decide))
    -- value of the model's wildcard step
    have mstep : ∀ wc, wildOf s = some wc →
        (match (crtList (fullSync w)).find? (fun e => lower e.filter = wc) with
          | some e => e.crt | none => Crt.dflt) = (declaredCrt w wc).getD .dflt ∨
        (crtList (fullSync w)).find? (fun e => lower e.filter = wc) = none := by
      intro wc hwc
      cases hy : (crtList (fullSync w)).find? (fun e => lower e.filter = wc) with
      | none => exact Or.inr rfl
      | some e' =>
        left
        have he' := mem_of_find?_eq_some hy
        have hp' := find?_some hy
        simp only [decide_eq_true_eq] at hp'
        rw [crtList_filter_lower wt wh he'] at hp'
        have hwc' : wc = '*' :: s.dropWhile (· ≠ '.') := by
          unfold wildOf at hwc
          simp only at hwc
          split at hwc
          · simp at hwc
          · simpa using hwc.symm
        simp only
        rw [hwc'] at hp' ⊢
        exact (wild_line wt wh he' hp').2
    have wnone : ∀ wc, wildOf s = some wc →
        (crtList (fullSync w)).find? (fun e => lower e.filter = wc) = none →
        (declaredCrt w wc).getD .dflt = .dflt := by
      intro wc hwc hy
      cases hdw : declaredCrt w wc with
      | none => rfl
      | some c =>
        simp only [Option.getD_some]
        by_cases hcd : c = .dflt
        · exact hcd
        · exfalso
          have hok := declaredCrt_host_ok wt hdw
          have hmem : (⟨c, wc⟩ : CrtLine) ∈ crtList (fullSync w) :=
            mem_crtList.2 ⟨declared_in_hosts hdw, hok.2, by rw [crtOfHost_spec, hdw]; rfl, Or.inl hcd⟩
          have := find?_eq_none.1 hy _ hmem
          simp [hok.1] at this
    cases hd : declaredCrt w s with
    | some c =>
      simp only
      have hm := declared_in_hosts hd
      have hok := declaredCrt_host_ok wt hd
      obtain ⟨h1, _⟩ := no_line_of_find_none hx hp hm hok.2
      rw [crtOfHost_spec, hd] at h1
      simp only [Option.getD_some] at h1
      rw [h1]
      cases hwc : wildOf s with
      | none => rfl
      | some wc => simp only; rw [wstep wc hwc hm hok.2]
    | none =>
      simp only
      by_cases hr : isRuleHost w s = true
      · simp only [hr, if_true]
        cases hwc : wildOf s with
        | none => rfl
        | some wc =>
          simp only
          obtain ⟨hne, hdf⟩ := dot_ne wc hwc
          rw [wstep wc hwc (ruleHost_in_hosts hr hne) hdf]
      · simp only [hr, Bool.false_eq_true, if_false]
        cases hwc : wildOf s with
        | none => rfl
        | some wc =>
          simp only
          rcases mstep wc hwc with h | h
          · exact h
          · rw [h]; simp only; exact (wnone wc hwc h).symm


/-! ## replacing the content of a secret -/

theorem find?_map_inv {α : Type} (f : α → α) (p : α → Bool) (hp : ∀ x, p (f x) = p x) :
    ∀ l : List α, (l.map f).find? p = (l.find? p).map f
  | [] => rfl
  | x :: l => by
    simp only [map_cons, find?_cons, hp]
    cases p x
    · exact find?_map_inv f p hp l
    · rfl

theorem crtOf_setVersion (w : World) (ns name : Str) (v : Nat) (ns0 sec : Str) :
    crtOf (setSecretVersion w ns name v) ns0 sec = rot ns name v (crtOf w ns0 sec) := by
  unfold crtOf
  split
  · rfl
  · have hr : secretRef (setSecretVersion w ns name v) ns0 sec = secretRef w ns0 sec := rfl
    rw [hr]
    cases secretRef w ns0 sec with
    | none => rfl
    | some an =>
      obtain ⟨a, n⟩ := an
      simp only
      have hsecs : (setSecretVersion w ns name v).secs =
          w.secs.map fun s => if s.ns = ns ∧ s.name = name then { s with version := v } else s := rfl
      rw [hsecs, find?_map_inv]
      · cases hf : w.secs.find? (fun s => s.ns = a ∧ s.name = n) with
        | none => rfl
        | some s =>
          simp only [Option.map_some]
          by_cases hc : s.ns = ns ∧ s.name = name
          · rw [if_pos hc]
            cases hs : s.isTLS
            · simp [rot]
            · simp [rot, hc]
          · rw [if_neg hc]
            cases hs : s.isTLS
            · simp [rot]
            · simp [rot, hc]
      · intro x
        by_cases hc : x.ns = ns ∧ x.name = name
        · rw [if_pos hc]
        · rw [if_neg hc]

theorem tlsDecls_setVersion (w : World) (ns name : Str) (v : Nat) :
    tlsDecls (setSecretVersion w ns name v) = (tlsDecls w).map fun d => (d.1, rot ns name v d.2) := by
  unfold tlsDecls
  have hi : (setSecretVersion w ns name v).ings = w.ings := rfl
  rw [hi]
  simp only [map_flatMap, map_map]
  congr 1
  funext i
  congr 1
  funext b
  apply map_congr_left
  intro h _
  simp only [Function.comp, crtOf_setVersion]

theorem declaredCrt_setVersion (w : World) (ns name : Str) (v : Nat) (h : Str) :
    declaredCrt (setSecretVersion w ns name v) h = (declaredCrt w h).map (rot ns name v) := by
  unfold declaredCrt
  rw [tlsDecls_setVersion]
  have : ∀ l : List (Str × Crt), (l.map fun d => (d.1, rot ns name v d.2)).find? (·.1 = h) =
      (l.find? (·.1 = h)).map fun d => (d.1, rot ns name v d.2) := by
    intro l
    induction l with
    | nil => rfl
    | cons x l ih =>
      simp only [map_cons, find?_cons]
      cases decide (x.1 = h)
      · exact ih
      · rfl
  rw [this]
  cases (tlsDecls w).find? (·.1 = h) <;> rfl

theorem specCrt_setVersion (w : World) (ns name : Str) (v : Nat) (sni : Str) :
    specCrt (setSecretVersion w ns name v) sni = rot ns name v (specCrt w sni) := by
  unfold specCrt
  simp only
  rw [declaredCrt_setVersion]
  have hr : ∀ h, isRuleHost (setSecretVersion w ns name v) h = isRuleHost w h := fun _ => rfl
  cases declaredCrt w (lower sni) with
  | some c => rfl
  | none =>
    simp only [Option.map_none, hr]
    split
    · rfl
    · cases wildOf (lower sni) with
      | none => rfl
      | some wc =>
        simp only
        rw [declaredCrt_setVersion]
        cases declaredCrt w wc <;> rfl

theorem WFTls_setVersion (w : World) (ns name : Str) (v : Nat) :
    WFTls (setSecretVersion w ns name v) = WFTls w := by
  unfold WFTls
  rw [tlsDecls_setVersion, all_map]
  rfl
end HapVerif.C15
