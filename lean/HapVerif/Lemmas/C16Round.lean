import Mathlib.Tactic.Ring
import Mathlib.Tactic.Linarith
import Mathlib.Tactic.Positivity
import Mathlib.Tactic.FieldSimp
import Mathlib.Data.Rat.Floor
import HapVerif.Model.C16
/-!
# C16 — E2: the rounding interface and its binary32 instance

`Rounding rnd`: monotone, `rnd 0 = 0`, exact on `z * 2^k` for integers `|z| ≤ 2^24`,
relative error `≤ 2^-24`.  `f32_rounding : Rounding f32`.

Scope: `f32` models the *normal* range only (unbounded exponent): no subnormals, no
overflow to infinity.  Hence `f32_relative_error` holds for every rational `x`; for the real
binary32 it holds for `2^-126 ≤ |x| < 2^128(1 - 2^-25)`, which covers every value that
`RebalanceWeight` can produce from `WFIn` inputs (magnitudes between `2^-24`-ish and `2^33`).
-/
namespace HapVerif.C16

/-! ## powers of two -/

theorem pow2_eq (e : Int) : pow2 e = (2 : Rat) ^ e := by
  unfold pow2
  split
  · rename_i h
    have he : e = (e.toNat : Int) := (Int.toNat_of_nonneg h).symm
    conv_rhs => rw [he]
    rw [zpow_natCast]; push_cast; rfl
  · rename_i h
    have hneg : 0 ≤ -e := by omega
    have he : e = -((-e).toNat : Int) := by rw [Int.toNat_of_nonneg hneg]; ring
    conv_rhs => rw [he]
    rw [zpow_neg, zpow_natCast]; push_cast; rw [one_div]

theorem pow2_pos (e : Int) : 0 < pow2 e := by rw [pow2_eq]; exact zpow_pos (by norm_num) e

theorem pow2_add (a b : Int) : pow2 (a + b) = pow2 a * pow2 b := by
  simp only [pow2_eq]; exact zpow_add₀ (by norm_num) a b

theorem pow2_le_iff (a b : Int) : pow2 a ≤ pow2 b ↔ a ≤ b := by
  simp only [pow2_eq]; exact zpow_le_zpow_iff_right₀ (by norm_num)

theorem pow2_lt_iff (a b : Int) : pow2 a < pow2 b ↔ a < b := by
  simp only [pow2_eq]; exact zpow_lt_zpow_iff_right₀ (by norm_num)

theorem pow2_natCast (n : Nat) : pow2 (n : Int) = ((2 ^ n : Nat) : Rat) := by
  rw [pow2_eq, zpow_natCast]; push_cast; rfl

/-! ## ilog2 -/

/-- `2^e ≤ x < 2^(e+1)` for the exponent computed from `Nat.log2` of numerator and denominator -/
theorem ilog2_bounds {x : Rat} (hx : 0 < x) : pow2 (ilog2 x) ≤ x ∧ x < pow2 (ilog2 x + 1) := by
  have hnum : 0 < x.num := Rat.num_pos.2 hx
  have hN : x.num.natAbs ≠ 0 := by omega
  have hD : x.den ≠ 0 := x.den_nz
  have a1 := Nat.log2_self_le hN
  have a2 := @Nat.lt_log2_self x.num.natAbs
  have b1 := Nat.log2_self_le hD
  have b2 := @Nat.lt_log2_self x.den
  have hDpos : (0 : Rat) < x.den := by exact_mod_cast Nat.pos_of_ne_zero hD
  have hxe : x * (x.den : Rat) = (x.num.natAbs : Rat) := by
    have h1 : ((x.num.natAbs : Int) : Rat) = (x.num : Rat) := by
      rw [Int.natAbs_of_nonneg (le_of_lt hnum)]
    have h2 : x * (x.den : Rat) = (x.num : Rat) := Rat.mul_den_eq_num x
    rw [h2, ← h1, Int.cast_natCast]
  -- rational versions of the four bounds
  have A1 : pow2 (Nat.log2 x.num.natAbs : Int) ≤ (x.num.natAbs : Rat) := by
    rw [pow2_natCast]; exact_mod_cast a1
  have A2 : (x.num.natAbs : Rat) < pow2 ((Nat.log2 x.num.natAbs : Int) + 1) := by
    have : ((Nat.log2 x.num.natAbs : Int) + 1) = ((Nat.log2 x.num.natAbs + 1 : Nat) : Int) := by push_cast; ring
    rw [this, pow2_natCast]; exact_mod_cast a2
  have B1 : pow2 (Nat.log2 x.den : Int) ≤ (x.den : Rat) := by
    rw [pow2_natCast]; exact_mod_cast b1
  have B2 : (x.den : Rat) < pow2 ((Nat.log2 x.den : Int) + 1) := by
    have : ((Nat.log2 x.den : Int) + 1) = ((Nat.log2 x.den + 1 : Nat) : Int) := by push_cast; ring
    rw [this, pow2_natCast]; exact_mod_cast b2
  -- 2^(e0-1) < x < 2^(e0+1)
  have lo : pow2 ((Nat.log2 x.num.natAbs : Int) - (Nat.log2 x.den : Int) - 1) < x := by
    have h1 : pow2 ((Nat.log2 x.num.natAbs : Int) - (Nat.log2 x.den : Int) - 1) *
        pow2 ((Nat.log2 x.den : Int) + 1) = pow2 (Nat.log2 x.num.natAbs : Int) := by
      rw [← pow2_add]; congr 1; ring
    have h2 : pow2 ((Nat.log2 x.num.natAbs : Int) - (Nat.log2 x.den : Int) - 1) * (x.den : Rat) <
        x * (x.den : Rat) := by
      calc _ < pow2 ((Nat.log2 x.num.natAbs : Int) - (Nat.log2 x.den : Int) - 1) *
            pow2 ((Nat.log2 x.den : Int) + 1) := mul_lt_mul_of_pos_left B2 (pow2_pos _)
        _ = pow2 (Nat.log2 x.num.natAbs : Int) := h1
        _ ≤ (x.num.natAbs : Rat) := A1
        _ = x * (x.den : Rat) := hxe.symm
    exact lt_of_mul_lt_mul_right h2 (le_of_lt hDpos)
  have hi : x < pow2 ((Nat.log2 x.num.natAbs : Int) - (Nat.log2 x.den : Int) + 1) := by
    have h1 : pow2 ((Nat.log2 x.num.natAbs : Int) - (Nat.log2 x.den : Int) + 1) *
        pow2 (Nat.log2 x.den : Int) = pow2 ((Nat.log2 x.num.natAbs : Int) + 1) := by
      rw [← pow2_add]; congr 1; ring
    have h2 : x * (x.den : Rat) <
        pow2 ((Nat.log2 x.num.natAbs : Int) - (Nat.log2 x.den : Int) + 1) * (x.den : Rat) := by
      calc x * (x.den : Rat) = (x.num.natAbs : Rat) := hxe
        _ < pow2 ((Nat.log2 x.num.natAbs : Int) + 1) := A2
        _ = pow2 ((Nat.log2 x.num.natAbs : Int) - (Nat.log2 x.den : Int) + 1) *
            pow2 (Nat.log2 x.den : Int) := h1.symm
        _ ≤ _ := mul_le_mul_of_nonneg_left B1 (le_of_lt (pow2_pos _))
    exact lt_of_mul_lt_mul_right h2 (le_of_lt hDpos)
  unfold ilog2
  simp only
  split
  · rename_i h; exact ⟨h, hi⟩
  · rename_i h
    refine ⟨le_of_lt lo, ?_⟩
    have : (Nat.log2 x.num.natAbs : Int) - (Nat.log2 x.den : Int) - 1 + 1 =
        (Nat.log2 x.num.natAbs : Int) - (Nat.log2 x.den : Int) := by ring
    rw [this]; exact not_le.1 h

theorem ilog2_unique {x : Rat} {e : Int} (h1 : pow2 e ≤ x) (h2 : x < pow2 (e + 1)) : ilog2 x = e := by
  have hx : 0 < x := lt_of_lt_of_le (pow2_pos e) h1
  obtain ⟨s1, s2⟩ := ilog2_bounds hx
  have a : ilog2 x < e + 1 := (pow2_lt_iff _ _).1 (lt_of_le_of_lt s1 h2)
  have b : e < ilog2 x + 1 := (pow2_lt_iff _ _).1 (lt_of_le_of_lt h1 s2)
  omega

theorem ilog2_mono {x y : Rat} (hx : 0 < x) (hxy : x ≤ y) : ilog2 x ≤ ilog2 y := by
  obtain ⟨s1, _⟩ := ilog2_bounds hx
  obtain ⟨_, t2⟩ := ilog2_bounds (lt_of_lt_of_le hx hxy)
  have : ilog2 x < ilog2 y + 1 := (pow2_lt_iff _ _).1 (lt_of_le_of_lt (le_trans s1 hxy) t2)
  omega

/-! ## round-half-even -/

theorem roundEven_err (q : Rat) : |(roundEven q : Rat) - q| ≤ 1 / 2 := by
  have f1 : ((q.floor : Int) : Rat) ≤ q := Rat.floor_le q
  have f2 : q < ((q.floor : Int) : Rat) + 1 := by
    have := Rat.lt_floor_add_one q; push_cast at this; exact this
  unfold roundEven
  simp only
  rw [abs_le]
  split
  · rename_i h; constructor <;> linarith
  · split
    · rename_i h1 h2; push_cast; constructor <;> linarith
    · rename_i h1 h2
      have : q - (q.floor : Rat) = 1 / 2 := le_antisymm (not_lt.1 h2) (not_lt.1 h1)
      split
      · constructor <;> linarith
      · push_cast; constructor <;> linarith

theorem roundEven_int (z : Int) : roundEven (z : Rat) = z := by
  have hf : (z : Rat).floor = z := by
    have : ⌊(z : Rat)⌋ = z := Int.floor_intCast z
    exact this
  unfold roundEven
  simp only [hf]
  rw [if_pos (by norm_num)]

theorem roundEven_mono {p q : Rat} (h : p ≤ q) : roundEven p ≤ roundEven q := by
  have p1 : ((p.floor : Int) : Rat) ≤ p := Rat.floor_le p
  have p2 : p < ((p.floor : Int) : Rat) + 1 := by
    have := Rat.lt_floor_add_one p; push_cast at this; exact this
  have q1 : ((q.floor : Int) : Rat) ≤ q := Rat.floor_le q
  have q2 : q < ((q.floor : Int) : Rat) + 1 := by
    have := Rat.lt_floor_add_one q; push_cast at this; exact this
  have hfl : p.floor ≤ q.floor := by
    have : ⌊p⌋ ≤ ⌊q⌋ := Int.floor_mono h
    exact this
  -- bounds of each result
  have rp : roundEven p ≤ p.floor + 1 := by unfold roundEven; simp only; split_ifs <;> omega
  have rq : q.floor ≤ roundEven q := by unfold roundEven; simp only; split_ifs <;> omega
  rcases Int.lt_or_eq_of_le hfl with hlt | heq
  · omega
  · -- same floor: compare fractional parts
    have hfr : p - (p.floor : Rat) ≤ q - (q.floor : Rat) := by rw [heq]; linarith
    unfold roundEven
    simp only
    rw [heq]
    rw [heq] at hfr
    by_cases c1 : p - (q.floor : Rat) < 1 / 2
    · rw [if_pos c1]; split_ifs <;> omega
    · rw [if_neg c1]
      by_cases c2 : 1 / 2 < p - (q.floor : Rat)
      · rw [if_pos c2]
        have d1 : ¬ (q - (q.floor : Rat) < 1 / 2) := by linarith
        have d2 : 1 / 2 < q - (q.floor : Rat) := by linarith
        rw [if_neg d1, if_pos d2]
      · rw [if_neg c2]
        have d1 : ¬ (q - (q.floor : Rat) < 1 / 2) := by linarith
        rw [if_neg d1]
        split_ifs <;> omega

/-! ## f32 -/

theorem f32_pos {x : Rat} (hx : 0 < x) :
    f32 x = (roundEven (x / pow2 (ilog2 x - 23)) : Rat) * pow2 (ilog2 x - 23) := by
  unfold f32
  rw [if_neg (ne_of_gt hx)]
  simp only [if_neg (not_lt.2 (le_of_lt hx))]

theorem f32_neg (x : Rat) : f32 (-x) = - f32 x := by
  rcases lt_trichotomy x 0 with h | h | h
  · have hn : 0 < -x := by linarith
    have e1 : f32 x = -((roundEven ((-x) / pow2 (ilog2 (-x) - 23)) : Rat) * pow2 (ilog2 (-x) - 23)) := by
      unfold f32
      rw [if_neg (ne_of_lt h)]
      simp only [if_pos h]
    rw [e1, f32_pos hn]; ring
  · subst h; simp [f32]
  · have hn : -x < 0 := by linarith
    have e1 : f32 (-x) = -((roundEven (x / pow2 (ilog2 x - 23)) : Rat) * pow2 (ilog2 x - 23)) := by
      unfold f32
      rw [if_neg (ne_of_lt hn)]
      simp only [if_pos hn, neg_neg]
    rw [e1, f32_pos h]

/-- mantissa bounds: `2^23 ≤ x / ulp < 2^24` -/
theorem mant_bounds {x : Rat} (hx : 0 < x) :
    (2 ^ 23 : Rat) ≤ x / pow2 (ilog2 x - 23) ∧ x / pow2 (ilog2 x - 23) < (2 ^ 24 : Rat) := by
  obtain ⟨s1, s2⟩ := ilog2_bounds hx
  have hu := pow2_pos (ilog2 x - 23)
  have e1 : pow2 (ilog2 x) = (2 ^ 23 : Rat) * pow2 (ilog2 x - 23) := by
    have : ilog2 x = 23 + (ilog2 x - 23) := by ring
    conv_lhs => rw [this]
    rw [pow2_add]; congr 1
  have e2 : pow2 (ilog2 x + 1) = (2 ^ 24 : Rat) * pow2 (ilog2 x - 23) := by
    have : ilog2 x + 1 = 24 + (ilog2 x - 23) := by ring
    conv_lhs => rw [this]
    rw [pow2_add]; congr 1
  rw [le_div_iff₀ hu, div_lt_iff₀ hu]
  constructor
  · rw [← e1]; exact s1
  · rw [← e2]; exact s2

theorem f32_abs_err_pos {x : Rat} (hx : 0 < x) : |f32 x - x| ≤ x * (1 / 2 ^ 24) := by
  obtain ⟨s1, _⟩ := ilog2_bounds hx
  have hu := pow2_pos (ilog2 x - 23)
  rw [f32_pos hx]
  have hre := roundEven_err (x / pow2 (ilog2 x - 23))
  have e : (roundEven (x / pow2 (ilog2 x - 23)) : Rat) * pow2 (ilog2 x - 23) - x =
      ((roundEven (x / pow2 (ilog2 x - 23)) : Rat) - x / pow2 (ilog2 x - 23)) * pow2 (ilog2 x - 23) := by
    field_simp
  rw [e, abs_mul, abs_of_pos hu]
  have e1 : pow2 (ilog2 x) = (2 ^ 23 : Rat) * pow2 (ilog2 x - 23) := by
    have : ilog2 x = 23 + (ilog2 x - 23) := by ring
    conv_lhs => rw [this]
    rw [pow2_add]; congr 1
  calc _ ≤ 1 / 2 * pow2 (ilog2 x - 23) := mul_le_mul_of_nonneg_right hre (le_of_lt hu)
    _ = pow2 (ilog2 x) * (1 / 2 ^ 24) := by rw [e1]; ring
    _ ≤ x * (1 / 2 ^ 24) := mul_le_mul_of_nonneg_right s1 (by positivity)

/-- E2 `f32_relative_error`: relative error at most `2^-24` (normal range; see the file header) -/
theorem f32_relative_error (x : Rat) : |f32 x - x| ≤ |x| * (1 / 2 ^ 24) := by
  rcases lt_trichotomy x 0 with h | h | h
  · have hn : 0 < -x := by linarith
    have := f32_abs_err_pos hn
    rw [f32_neg] at this
    rw [abs_of_neg h]
    have e : -f32 x - -x = -(f32 x - x) := by ring
    rw [e, abs_neg] at this; exact this
  · subst h; simp [f32]
  · rw [abs_of_pos h]; exact f32_abs_err_pos h

/-- a positive value whose mantissa is an integer is representable -/
theorem f32_of_int_mant {x : Rat} (hx : 0 < x) {j : Int} (hj : x / pow2 (ilog2 x - 23) = (j : Rat)) :
    f32 x = x := by
  have hu := pow2_pos (ilog2 x - 23)
  rw [f32_pos hx, hj, roundEven_int, ← hj]
  field_simp

theorem f32_exact_pos {z k : Int} (hz0 : 0 < z) (hz : z ≤ 2 ^ 24) :
    f32 ((z : Rat) * pow2 k) = (z : Rat) * pow2 k := by
  have hz0' : (0 : Rat) < z := by exact_mod_cast hz0
  have hx : 0 < (z : Rat) * pow2 k := mul_pos hz0' (pow2_pos k)
  obtain ⟨s1, _⟩ := ilog2_bounds hx
  -- 2^(e-k) ≤ z
  have h1 : pow2 (ilog2 ((z : Rat) * pow2 k) - k) ≤ (z : Rat) := by
    have : pow2 (ilog2 ((z : Rat) * pow2 k)) = pow2 (ilog2 ((z : Rat) * pow2 k) - k) * pow2 k := by
      rw [← pow2_add]; congr 1; ring
    rw [this] at s1
    exact le_of_mul_le_mul_right s1 (pow2_pos k)
  have hz' : (z : Rat) ≤ pow2 24 := by
    rw [show (24 : Int) = ((24 : Nat) : Int) from rfl, pow2_natCast]; exact_mod_cast hz
  have h2 : ilog2 ((z : Rat) * pow2 k) - k ≤ 24 := (pow2_le_iff _ _).1 (le_trans h1 hz')
  -- mantissa = z * 2^(k - e + 23)
  have hm : (z : Rat) * pow2 k / pow2 (ilog2 ((z : Rat) * pow2 k) - 23) =
      (z : Rat) * pow2 (k - ilog2 ((z : Rat) * pow2 k) + 23) := by
    have hu := pow2_pos (ilog2 ((z : Rat) * pow2 k) - 23)
    rw [div_eq_iff (ne_of_gt hu), mul_assoc, ← pow2_add]
    congr 2; ring
  by_cases hn : 0 ≤ k - ilog2 ((z : Rat) * pow2 k) + 23
  · have e : k - ilog2 ((z : Rat) * pow2 k) + 23 =
        (((k - ilog2 ((z : Rat) * pow2 k) + 23).toNat : Nat) : Int) := (Int.toNat_of_nonneg hn).symm
    refine f32_of_int_mant hx (j := z * ((2 ^ (k - ilog2 ((z : Rat) * pow2 k) + 23).toNat : Nat) : Int)) ?_
    rw [hm, e, pow2_natCast]; push_cast; rw [← e]
  · have he : ilog2 ((z : Rat) * pow2 k) - k = 24 := by omega
    rw [he] at h1
    have hz24 : z = 2 ^ 24 := by
      have : ((2 ^ 24 : Int) : Rat) ≤ (z : Rat) := by
        rw [show (24 : Int) = ((24 : Nat) : Int) from rfl, pow2_natCast] at h1
        exact_mod_cast h1
      have : (2 ^ 24 : Int) ≤ z := by exact_mod_cast this
      omega
    refine f32_of_int_mant hx (j := 2 ^ 23) ?_
    have hk : k - ilog2 ((z : Rat) * pow2 k) + 23 = -1 := by omega
    rw [hm, hk, hz24, pow2_eq]; norm_num

/-- E2 `f32_exact_of_int` (general form): integers of absolute value `≤ 2^24`, and their
products with powers of two, are representable -/
theorem f32_exact_of_int_pow2 (z k : Int) (hz : |z| ≤ 2 ^ 24) :
    f32 ((z : Rat) * pow2 k) = (z : Rat) * pow2 k := by
  rcases lt_trichotomy z 0 with h | h | h
  · have hz' : -z ≤ 2 ^ 24 := by rw [abs_of_neg h] at hz; exact hz
    have := f32_exact_pos (z := -z) (k := k) (by omega) hz'
    push_cast at this
    rw [neg_mul, f32_neg] at this
    exact neg_injective this
  · subst h; simp [f32]
  · have hz' : z ≤ 2 ^ 24 := by rw [abs_of_pos h] at hz; exact hz
    exact f32_exact_pos h hz'

theorem f32_exact_of_int (z : Int) (hz : |z| ≤ 2 ^ 24) : f32 (z : Rat) = (z : Rat) := by
  have := f32_exact_of_int_pow2 z 0 hz
  have e : pow2 0 = 1 := by rw [pow2_eq]; simp
  rwa [e, mul_one] at this

/-- a positive value rounds into its own binade (closed at the top) -/
theorem f32_binade {x : Rat} (hx : 0 < x) : pow2 (ilog2 x) ≤ f32 x ∧ f32 x ≤ pow2 (ilog2 x + 1) := by
  obtain ⟨m1, m2⟩ := mant_bounds hx
  have hu := pow2_pos (ilog2 x - 23)
  have e1 : pow2 (ilog2 x) = (2 ^ 23 : Rat) * pow2 (ilog2 x - 23) := by
    have : ilog2 x = 23 + (ilog2 x - 23) := by ring
    conv_lhs => rw [this]
    rw [pow2_add]; congr 1
  have e2 : pow2 (ilog2 x + 1) = (2 ^ 24 : Rat) * pow2 (ilog2 x - 23) := by
    have : ilog2 x + 1 = 24 + (ilog2 x - 23) := by ring
    conv_lhs => rw [this]
    rw [pow2_add]; congr 1
  have r1 : (2 ^ 23 : Int) ≤ roundEven (x / pow2 (ilog2 x - 23)) := by
    have := roundEven_mono (p := ((2 ^ 23 : Int) : Rat)) (q := x / pow2 (ilog2 x - 23)) (by push_cast; exact m1)
    rwa [roundEven_int] at this
  have r2 : roundEven (x / pow2 (ilog2 x - 23)) ≤ (2 ^ 24 : Int) := by
    have := roundEven_mono (p := x / pow2 (ilog2 x - 23)) (q := ((2 ^ 24 : Int) : Rat)) (by push_cast; exact le_of_lt m2)
    rwa [roundEven_int] at this
  have r1' : (2 ^ 23 : Rat) ≤ (roundEven (x / pow2 (ilog2 x - 23)) : Rat) := by exact_mod_cast r1
  have r2' : (roundEven (x / pow2 (ilog2 x - 23)) : Rat) ≤ (2 ^ 24 : Rat) := by exact_mod_cast r2
  rw [f32_pos hx, e1, e2]
  exact ⟨mul_le_mul_of_nonneg_right r1' (le_of_lt hu), mul_le_mul_of_nonneg_right r2' (le_of_lt hu)⟩

theorem f32_pos_of_pos {x : Rat} (hx : 0 < x) : 0 < f32 x :=
  lt_of_lt_of_le (pow2_pos _) (f32_binade hx).1

theorem f32_nonneg {x : Rat} (hx : 0 ≤ x) : 0 ≤ f32 x := by
  rcases eq_or_lt_of_le hx with h | h
  · subst h; simp [f32]
  · exact le_of_lt (f32_pos_of_pos h)

theorem f32_monotone_pos {x y : Rat} (hx : 0 < x) (hxy : x ≤ y) : f32 x ≤ f32 y := by
  have hy : 0 < y := lt_of_lt_of_le hx hxy
  rcases Int.lt_or_eq_of_le (ilog2_mono hx hxy) with hlt | heq
  · calc f32 x ≤ pow2 (ilog2 x + 1) := (f32_binade hx).2
      _ ≤ pow2 (ilog2 y) := (pow2_le_iff _ _).2 (by omega)
      _ ≤ f32 y := (f32_binade hy).1
  · rw [f32_pos hx, f32_pos hy, heq]
    have hu := pow2_pos (ilog2 y - 23)
    have : x / pow2 (ilog2 y - 23) ≤ y / pow2 (ilog2 y - 23) := div_le_div_of_nonneg_right hxy (le_of_lt hu)
    have := roundEven_mono this
    have : (roundEven (x / pow2 (ilog2 y - 23)) : Rat) ≤ (roundEven (y / pow2 (ilog2 y - 23)) : Rat) := by
      exact_mod_cast this
    exact mul_le_mul_of_nonneg_right this (le_of_lt hu)

/-- E2 `f32_monotone` -/
theorem f32_monotone {x y : Rat} (hxy : x ≤ y) : f32 x ≤ f32 y := by
  rcases lt_trichotomy x 0 with hx | hx | hx
  · rcases lt_or_ge y 0 with hy | hy
    · have := f32_monotone_pos (x := -y) (y := -x) (by linarith) (by linarith)
      rw [f32_neg, f32_neg] at this; linarith
    · have h1 : f32 x ≤ 0 := by
        have := f32_nonneg (x := -x) (by linarith)
        rw [f32_neg] at this; linarith
      exact le_trans h1 (f32_nonneg hy)
  · subst hx
    have : f32 0 = 0 := by simp [f32]
    rw [this]; exact f32_nonneg hxy
  · exact f32_monotone_pos hx hxy

/-! ## the interface -/

/-- what the proofs about `rebalanceWith rnd` use of a rounding function -/
structure Rounding (rnd : Rat → Rat) : Prop where
  mono : ∀ {x y : Rat}, x ≤ y → rnd x ≤ rnd y
  zero : rnd 0 = 0
  exact : ∀ (z k : Int), |z| ≤ 2 ^ 24 → rnd ((z : Rat) * pow2 k) = (z : Rat) * pow2 k
  rel : ∀ x : Rat, |rnd x - x| ≤ |x| * (1 / 2 ^ 24)

theorem f32_rounding : Rounding f32 where
  mono := f32_monotone
  zero := by simp [f32]
  exact := f32_exact_of_int_pow2
  rel := f32_relative_error

theorem id_rounding : Rounding id where
  mono := fun h => h
  zero := rfl
  exact := fun _ _ _ => rfl
  rel := fun x => by simp only [id, sub_self, abs_zero]; positivity

end HapVerif.C16
