import HapVerif.Model.C19
/-!
# C19 — helper lemmas: the table loops of `firstToken`, `strings.Split`/`TrimRight`
-/
namespace HapVerif.C19

/-! ### the `asciiSpace` table against C `isspace` -/

theorem tbl_cases (b : Nat) : (isSpace b = true ∧ tbl b = 1) ∨ (isSpace b = false ∧ tbl b = 0) := by
  by_cases h9 : b = 9; · subst h9; decide
  by_cases h10 : b = 10; · subst h10; decide
  by_cases h11 : b = 11; · subst h11; decide
  by_cases h12 : b = 12; · subst h12; decide
  by_cases h13 : b = 13; · subst h13; decide
  by_cases h32 : b = 32; · subst h32; decide
  right
  simp [isSpace, tbl, spaceTable, List.lookup,
    beq_false_of_ne h9, beq_false_of_ne h10, beq_false_of_ne h11, beq_false_of_ne h12,
    beq_false_of_ne h13, beq_false_of_ne h32]

theorem tbl_eq_zero (b : Nat) : (tbl b == 0) = !isSpace b := by
  rcases tbl_cases b with ⟨h1, h2⟩ | ⟨h1, h2⟩ <;> simp [h1, h2]

theorem tbl_eq_one (b : Nat) : (tbl b == 1) = isSpace b := by
  rcases tbl_cases b with ⟨h1, h2⟩ | ⟨h1, h2⟩ <;> simp [h1, h2]

theorem skipBlanks_eq (s : Str) : skipBlanks s = s.dropWhile isSpace := by
  induction s with
  | nil => rfl
  | cons b r ih =>
    rcases tbl_cases b with ⟨h1, h2⟩ | ⟨h1, h2⟩ <;> simp [skipBlanks, List.dropWhile, h1, h2, ih]

theorem takeToken_eq (s : Str) : takeToken s = s.takeWhile (fun b => !isSpace b) := by
  induction s with
  | nil => rfl
  | cons b r ih =>
    rcases tbl_cases b with ⟨h1, h2⟩ | ⟨h1, h2⟩ <;> simp [takeToken, List.takeWhile, h1, h2, ih]

/-! ### `strings.Split(s, "\n")` -/

theorem splitNL_ne_nil (s : Str) : splitNL s ≠ [] := by
  induction s with
  | nil => simp [splitNL]
  | cons b r ih =>
    unfold splitNL
    split
    · simp
    · split <;> simp

/-- a text without line feed is its own single line -/
theorem splitNL_of_not_mem {l : Str} (h : nl ∉ l) : splitNL l = [l] := by
  induction l with
  | nil => rfl
  | cons b r ih =>
    have hb : b ≠ nl := fun e => h (e ▸ List.mem_cons_self)
    have hr : nl ∉ r := fun m => h (List.mem_cons_of_mem _ m)
    simp [splitNL, hb, ih hr]

/-- the separator splits: the lines of `a ++ "\n" ++ r` are the lines of `a` then those of `r` -/
theorem splitNL_append_nl (a r : Str) : splitNL (a ++ nl :: r) = splitNL a ++ splitNL r := by
  induction a with
  | nil => simp [splitNL]
  | cons b a ih =>
    by_cases hb : b = nl
    · simp [splitNL, hb, ih]
    · simp only [List.cons_append, splitNL, beq_iff_eq, hb, if_false, ih]
      cases h : splitNL a with
      | nil => exact absurd h (splitNL_ne_nil a)
      | cons x t => simp

theorem splitNL_no_nl (s : Str) : ∀ l ∈ splitNL s, nl ∉ l := by
  induction s with
  | nil => simp [splitNL]
  | cons b r ih =>
    unfold splitNL
    split
    · intro l hl
      rcases List.mem_cons.1 hl with rfl | hl
      · simp
      · exact ih l hl
    · rename_i hb
      split
      · rename_i h t heq
        intro l hl
        rw [heq] at ih
        rcases List.mem_cons.1 hl with rfl | hl
        · intro hm
          rcases List.mem_cons.1 hm with e | hm
          · exact hb (by simp [e])
          · exact ih h List.mem_cons_self hm
        · exact ih l (List.mem_cons_of_mem _ hl)
      · intro l hl
        simp only [List.mem_singleton] at hl
        subst hl
        intro hm
        rcases List.mem_cons.1 hm with e | hm
        · exact hb (by simp [e])
        · simp at hm

/-- joining the lines with line feeds gives the text back -/
theorem splitNL_join (s : Str) : List.intercalate [nl] (splitNL s) = s := by
  induction s with
  | nil => simp [splitNL, List.intercalate]
  | cons b r ih =>
    unfold splitNL
    split
    · rename_i hb
      have hb : b = nl := by simpa using hb
      cases h : splitNL r with
      | nil => exact absurd h (splitNL_ne_nil r)
      | cons x t =>
        rw [h] at ih
        subst hb
        rw [← ih]
        simp [List.intercalate, List.intersperse]
    · split
      · rename_i h t heq
        rw [heq] at ih
        rw [← ih]
        cases t <;> simp [List.intercalate, List.intersperse]
      · rename_i heq
        exact absurd heq (splitNL_ne_nil r)

/-! ### `strings.TrimRight(s, "\n")` -/

theorem trimRightNL_append_of_not_all (x y : Str) (hy : y.all (· == nl) = false) :
    trimRightNL (x ++ y) = x ++ trimRightNL y := by
  induction x with
  | nil => rfl
  | cons b x ih =>
    have : ((b :: x) ++ y).all (· == nl) = false := by
      simp only [List.all_append, hy, Bool.and_false]
    simp only [List.cons_append] at this ⊢
    rw [trimRightNL, this]
    simp [ih]

theorem trimRightNL_append_clean (l b : Str) (hl : nl ∉ l) : trimRightNL (l ++ b) = l ++ trimRightNL b := by
  induction l with
  | nil => rfl
  | cons c l ih =>
    have hc : c ≠ nl := fun e => hl (e ▸ List.mem_cons_self)
    have hr : nl ∉ l := fun m => hl (List.mem_cons_of_mem _ m)
    simp [trimRightNL, hc, ih hr]

/-- what is cut off consists of line feeds only -/
theorem trimRightNL_spec (s : Str) : ∃ t, s = trimRightNL s ++ t ∧ t.all (· == nl) = true := by
  induction s with
  | nil => exact ⟨[], rfl, rfl⟩
  | cons b r ih =>
    unfold trimRightNL
    split
    · rename_i h; exact ⟨b :: r, rfl, h⟩
    · obtain ⟨t, h1, h2⟩ := ih
      exact ⟨t, by rw [List.cons_append, ← h1], h2⟩

theorem trimRightNL_nl_cons (b : Str) : trimRightNL (nl :: b) = [] ∨ trimRightNL (nl :: b) = nl :: trimRightNL b := by
  rw [trimRightNL]
  split
  · exact Or.inl rfl
  · exact Or.inr rfl

end HapVerif.C19
