import HapVerif.Lemmas.C02PairSlots
/-!
# M-Dyn: generic folds with an extra invariant, and the structural results
(no out-of-range read, length, names)
-/
namespace HapVerif.C02

section
variable {old cur0 : List EP}

/-- walk fold with an extra invariant `X` riding along the structural one -/
theorem walk_fold (pr same : Bool) (sc : List Resp) (hO : hasDupTarget old = false)
    (X : Walk → List String → Prop)
    (hX0 : X (walk0 old cur0 same sc) (sortStrs (splitOld old).targets))
    (hXs : ∀ w t ts, WInv old cur0 ((cur0.map (·.target)).Nodup) w (t :: ts) → X w (t :: ts) → X (walkStep pr w t) ts) :
    WInv old cur0 ((cur0.map (·.target)).Nodup) (walkEnd old cur0 pr same sc) [] ∧ X (walkEnd old cur0 pr same sc) [] := by
  have hT := (hasDupTarget_false_iff old).1 hO
  exact foldl_inv (walkStep pr) (fun w ts => WInv old cur0 _ w ts ∧ X w ts)
    (fun w t ts h => ⟨walkStep_inv hT pr w t ts h.1, hXs w t ts h.1 h.2⟩) _ _ ⟨walk0_inv same sc hO, hX0⟩

/-- stage-4 fold with an extra invariant -/
theorem stage4_fold {cv : Prop} {W : Walk} (pr : Bool) (hW : WInv old cur0 cv W [])
    (hle : W.added.length ≤ W.empty.length)
    (X : PairSt → List Nat → List Nat → Prop) (hX0 : X W.s [] W.added)
    (hXs : ∀ s done a r slot, A4 cur0 W s done (a :: r) → W.empty[done.length]? = some slot →
      X s done (a :: r) → X (slotSt pr s a slot) (done ++ [a]) r) :
    ∃ s, stage4 pr W = (some s, W.added.length) ∧ A4 cur0 W s W.added [] ∧ X s W.added [] := by
  let Inv : Option PairSt × Nat → List Nat → Prop := fun acc r =>
    ∃ s done, acc = (some s, done.length) ∧ A4 cur0 W s done r ∧ X s done r
  have key : Inv (stage4 pr W) [] := by
    apply foldl_inv (addedStep pr W.empty) Inv
    · intro acc a r ⟨s, done, hacc, h4, hx⟩
      obtain ⟨slot, hs, h4'⟩ := A4_step hW hle pr s done r a h4
      refine ⟨slotSt pr s a slot, done ++ [a], ?_, h4', hXs s done a r slot h4 hs hx⟩
      rw [hacc, addedStep_some pr W.empty s done.length a slot hs]; simp
    · exact ⟨W.s, [], rfl, A4_init hW, hX0⟩
  obtain ⟨s, done, hacc, h4, hx⟩ := key
  have hd : W.added = done := by simpa using h4.split
  subst hd
  exact ⟨s, hacc, h4, hx⟩

theorem walkEnd_le {cv : Prop} {W : Walk} (hW : WInv old cur0 cv W []) (hlen : cur0.length ≤ old.length) :
    W.added.length ≤ W.empty.length := by
  obtain ⟨h1, h2, _⟩ := walkEnd_count hW
  omega

/-- the shape of `pairLoop`'s result, with extra invariants for both folds -/
theorem pairLoop_shape (pr : Bool) (iw : Int) (same : Bool) (sc : List Resp) (hO : hasDupTarget old = false)
    (hlen : cur0.length ≤ old.length)
    (X : Walk → List String → Prop)
    (hX0 : X (walk0 old cur0 same sc) (sortStrs (splitOld old).targets))
    (hXs : ∀ w t ts, WInv old cur0 ((cur0.map (·.target)).Nodup) w (t :: ts) → X w (t :: ts) → X (walkStep pr w t) ts)
    (Y : PairSt → List Nat → List Nat → Prop)
    (hY0 : ∀ W, W = walkEnd old cur0 pr same sc → WInv old cur0 ((cur0.map (·.target)).Nodup) W [] → X W [] →
      Y W.s [] W.added)
    (hYs : ∀ W, W = walkEnd old cur0 pr same sc → WInv old cur0 ((cur0.map (·.target)).Nodup) W [] → X W [] →
      ∀ s done a r slot, A4 cur0 W s done (a :: r) → W.empty[done.length]? = some slot →
      Y s done (a :: r) → Y (slotSt pr s a slot) (done ++ [a]) r) :
    ∃ W s, W = walkEnd old cur0 pr same sc ∧
      WInv old cur0 ((cur0.map (·.target)).Nodup) W [] ∧ X W [] ∧ A4 cur0 W s W.added [] ∧ Y s W.added [] ∧
      W.added.length ≤ W.empty.length ∧
      pairLoop old cur0 pr iw same sc =
        some { s with cur := copyEmpty pr iw s.cur (W.empty.drop W.added.length) } := by
  obtain ⟨hW, hX⟩ := walk_fold pr same sc hO X hX0 hXs
  have hle := walkEnd_le hW hlen
  obtain ⟨s, hs, h4, hy⟩ := stage4_fold pr hW hle Y (hY0 _ rfl hW hX) (hYs _ rfl hW hX)
  refine ⟨_, s, rfl, hW, hX, h4, hy, hle, ?_⟩
  rw [pairLoop_eq]
  simp only [hs]

/-- structural shape only -/
theorem pairLoop_struct (pr : Bool) (iw : Int) (same : Bool) (sc : List Resp) (hO : hasDupTarget old = false)
    (hlen : cur0.length ≤ old.length) :
    ∃ W s, WInv old cur0 ((cur0.map (·.target)).Nodup) W [] ∧ A4 cur0 W s W.added [] ∧
      W.added.length ≤ W.empty.length ∧
      pairLoop old cur0 pr iw same sc =
        some { s with cur := copyEmpty pr iw s.cur (W.empty.drop W.added.length) } := by
  obtain ⟨W, s, _, hW, _, h4, _, hle, he⟩ := pairLoop_shape pr iw same sc hO hlen (fun _ _ => True) trivial
    (fun _ _ _ _ _ => trivial) (fun _ _ _ => True) (fun _ _ _ _ => trivial)
    (fun _ _ _ _ _ _ _ _ _ _ _ _ => trivial)
  exact ⟨W, s, hW, h4, hle, he⟩

/-! ### names -/

theorem asg_map_names {ps : List Pair} {f : Nat → String}
    (h : ∀ p ∈ ps, ∀ j, p.cur = some j → f j = p.old.name) :
    (asg ps).map f = ((ps.filter (fun p => !gone [] p)).map (·.old.name)) := by
  induction ps with
  | nil => rfl
  | cons p ps ih =>
    have ih' := ih (fun q hq => h q (List.mem_cons_of_mem _ hq))
    cases hc : p.cur with
    | none =>
      have : gone [] p = true := by simp [gone, hc]
      simp only [asg, List.filterMap_cons, hc, List.filter_cons, this] at ih' ⊢
      simpa using ih'
    | some j =>
      have : gone [] p = false := by simp [gone, hc]
      simp only [asg, List.filterMap_cons, hc, List.filter_cons, this] at ih' ⊢
      simp only [Bool.not_false, if_true, List.map_cons, ih']
      rw [h p (by simp) j hc]

/-- the names of the result are a permutation of the old names -/
theorem result_names_perm {W : Walk} {s : PairSt} (pr : Bool) (iw : Int)
    (hC : (cur0.map (·.target)).Nodup)
    (hW : WInv old cur0 ((cur0.map (·.target)).Nodup) W []) (h4 : A4 cur0 W s W.added []) :
    ((copyEmpty pr iw s.cur (W.empty.drop W.added.length)).map (·.name)).Perm (old.map (·.name)) := by
  rw [copyEmpty_names]
  have hcl : s.cur.length = cur0.length := length_of_clr h4.clr
  have hr : (asg W.pairs ++ W.added).Perm (List.range s.cur.length) := by
    rw [hcl]
    exact perm_range hW.p.nd hW.p.lt (fun j hj => List.mem_append.2 (hW.cov hC j hj))
  have h1 : (s.cur.map (·.name)).Perm ((asg W.pairs ++ W.added).map (nameAt s.cur)) := by
    rw [← map_nameAt_range]; exact (hr.map _).symm
  rw [List.map_append, asg_map_names h4.nm, h4.dn] at h1
  have h2 := (hW.emp.map (·.name))
  -- all names: named pairs, slots taken, slots left
  refine (h1.append_right _).trans ?_
  rw [List.append_assoc, ← List.map_append, List.take_append_drop]
  refine (List.Perm.append_left _ h2).trans ?_
  have h3 : ((W.pairs.filter (fun p => !gone [] p)) ++ (W.pairs.filter (gone []))).Perm W.pairs := by
    have := List.filter_append_perm (fun p => !gone [] p) W.pairs
    simpa using this
  have h4' := (h3.map (·.old)).map (·.name)
  rw [hW.p.od] at h4'
  have h5 := (en_dis_perm old).map (·.name)
  rw [List.map_append] at h5
  refine List.Perm.trans ?_ h5
  refine List.Perm.trans ?_ (h4'.append_right _)
  simp only [List.map_append, List.map_map, List.append_assoc, Function.comp_def]
  refine List.Perm.append_left _ ?_
  exact List.perm_append_comm

end
end HapVerif.C02
