import HapVerif.Model.C14
/-!
Helper lemmas for C14: `appendDedup`, the effect of one handler step on each field of the
accumulating batch, the batch accumulated over a window (`accum`), and the refinement
"batches returned by `run` = per-window accumulation over `windows`".  Core-only.
-/
namespace HapVerif.C14

/-! ### appendDedup -/

theorem mem_appendDedup {α} [DecidableEq α] (l : List α) (x y : α) :
    y ∈ appendDedup l x ↔ y ∈ l ∨ y = x := by
  unfold appendDedup
  by_cases h : x ∈ l
  · simp only [h, if_true]
    constructor
    · intro hy; exact Or.inl hy
    · rintro (hy | rfl)
      · exact hy
      · exact h
  · simp [h]

theorem nodup_appendDedup {α} [DecidableEq α] (l : List α) (x : α) (h : l.Nodup) :
    (appendDedup l x).Nodup := by
  unfold appendDedup
  by_cases hx : x ∈ l
  · simp only [hx, if_true]; exact h
  · simp only [hx, if_false]
    rw [List.nodup_append]
    refine ⟨h, by simp, ?_⟩
    intro a ha b hb
    simp at hb
    subst hb
    intro hab; subst hab; exact hx ha

/-! ### one step -/

theorem entryOf_generic (e : Event) (h : e.typ = .generic) : entryOf e = none := by
  unfold entryOf
  cases e.kind.fam <;> simp [h]

theorem setsCm_generic (g : Bool) (e : Event) (h : e.typ = .generic) : setsCm g e = false := by
  simp [setsCm, h]

theorem applyCm_gCur (b : Batch) (e : Event) : (applyCm b e).gCur = b.gCur := by
  unfold applyCm; split
  · split <;> rfl
  · rfl

theorem applyCm_tCur (b : Batch) (e : Event) : (applyCm b e).tCur = b.tCur := by
  unfold applyCm; split
  · split <;> rfl
  · rfl

theorem applyCm_typed (b : Batch) (e : Event) : (applyCm b e).typed = b.typed := by
  unfold applyCm; split
  · split <;> rfl
  · rfl

theorem applyCm_links (b : Batch) (e : Event) : (applyCm b e).links = b.links := by
  unfold applyCm; split
  · split <;> rfl
  · rfl

theorem applyCm_objects (b : Batch) (e : Event) : (applyCm b e).objects = b.objects := by
  unfold applyCm; split
  · split <;> rfl
  · rfl

theorem applyCm_full (b : Batch) (e : Event) : (applyCm b e).full = b.full := by
  unfold applyCm; split
  · split <;> rfl
  · rfl

theorem applyCm_gNew (b : Batch) (e : Event) :
    (applyCm b e).gNew = if setsCm true e then some (e.data.getD 0) else b.gNew := by
  unfold applyCm setsCm
  by_cases hk : e.kind = .cm
  · by_cases ht : e.typ = .create ∨ e.typ = .update
    · have ht' : (decide (e.typ = .create) || decide (e.typ = .update)) = true := by
        rcases ht with h | h <;> simp [h]
      simp only [hk, ht, and_self, if_true, decide_true, Bool.true_and, ht']
      cases hs : cmSel e with
      | none => simp
      | some g => cases g <;> simp
    · have ht' : (decide (e.typ = .create) || decide (e.typ = .update)) = false := by
        simp only [not_or] at ht; simp [ht.1, ht.2]
      simp [hk, ht, ht']
  · simp [hk]

theorem applyCm_tNew (b : Batch) (e : Event) :
    (applyCm b e).tNew = if setsCm false e then some (e.data.getD 0) else b.tNew := by
  unfold applyCm setsCm
  by_cases hk : e.kind = .cm
  · by_cases ht : e.typ = .create ∨ e.typ = .update
    · have ht' : (decide (e.typ = .create) || decide (e.typ = .update)) = true := by
        rcases ht with h | h <;> simp [h]
      simp only [hk, ht, and_self, if_true, decide_true, Bool.true_and, ht']
      cases hs : cmSel e with
      | none => simp
      | some g => cases g <;> simp
    · have ht' : (decide (e.typ = .create) || decide (e.typ = .update)) = false := by
        simp only [not_or] at ht; simp [ht.1, ht.2]
      simp [hk, ht, ht']
  · simp [hk]

theorem apply_gCur (b : Batch) (e : Event) : (apply b e).gCur = b.gCur := by
  unfold apply; split
  · rfl
  · exact applyCm_gCur b e

theorem apply_tCur (b : Batch) (e : Event) : (apply b e).tCur = b.tCur := by
  unfold apply; split
  · rfl
  · exact applyCm_tCur b e

theorem apply_typed (b : Batch) (e : Event) : (apply b e).typed = b.typed ++ (entryOf e).toList := by
  unfold apply; split
  · rename_i h; simp [entryOf_generic e h]
  · simp [applyCm_typed]

theorem apply_links (b : Batch) (e : Event) :
    (apply b e).links = if e.typ = .generic then b.links else appendDedup b.links (linkOf e) := by
  unfold apply; split
  · rfl
  · simp [applyCm_links]

theorem apply_objects (b : Batch) (e : Event) :
    (apply b e).objects = if e.typ = .generic then b.objects else appendDedup b.objects (descrOf e) := by
  unfold apply; split
  · rfl
  · simp [applyCm_objects]

/-- events that force `NeedFullSync` -/
def forcesFull (e : Event) : Bool := e.typ = .generic || e.kind.full

theorem apply_full (b : Batch) (e : Event) : (apply b e).full = (b.full || forcesFull e) := by
  unfold apply forcesFull; split
  · rename_i h; simp [h]
  · rename_i h; simp [applyCm_full, h]

theorem apply_gNew (b : Batch) (e : Event) :
    (apply b e).gNew = if setsCm true e then some (e.data.getD 0) else b.gNew := by
  unfold apply; split
  · rename_i h; simp [setsCm_generic true e h]
  · exact applyCm_gNew b e

theorem apply_tNew (b : Batch) (e : Event) :
    (apply b e).tNew = if setsCm false e then some (e.data.getD 0) else b.tNew := by
  unfold apply; split
  · rename_i h; simp [setsCm_generic false e h]
  · exact applyCm_tNew b e

/-! ### a window -/

/-- the batch accumulated by the accepted events `w`, starting from `b` -/
def accum (b : Batch) (w : List Event) : Batch := w.foldl apply b

/-- the empty batch `initCh` creates, with the carried `…Cur` -/
def fresh (g t : Option Nat) : Batch := { gCur := g, tCur := t }

@[simp] theorem accum_nil (b : Batch) : accum b [] = b := rfl
@[simp] theorem accum_cons (b : Batch) (e : Event) (w : List Event) :
    accum b (e :: w) = accum (apply b e) w := rfl
theorem accum_snoc (b : Batch) (e : Event) (w : List Event) :
    accum b (w ++ [e]) = apply (accum b w) e := by simp [accum, List.foldl_append]

/-- the `…New` a window leaves: data of the last event that sets it (nil data = empty data) -/
def newData (g : Bool) (init : Option Nat) (w : List Event) : Option Nat :=
  w.foldl (fun cur e => if setsCm g e then some (e.data.getD 0) else cur) init

theorem accum_gCur (w : List Event) : ∀ b, (accum b w).gCur = b.gCur := by
  induction w with
  | nil => intro b; rfl
  | cons e w ih => intro b; simp [ih, apply_gCur]

theorem accum_tCur (w : List Event) : ∀ b, (accum b w).tCur = b.tCur := by
  induction w with
  | nil => intro b; rfl
  | cons e w ih => intro b; simp [ih, apply_tCur]

theorem accum_typed (w : List Event) : ∀ b, (accum b w).typed = b.typed ++ w.filterMap entryOf := by
  induction w with
  | nil => intro b; simp
  | cons e w ih =>
    intro b
    simp only [accum_cons, ih, apply_typed, List.filterMap_cons]
    cases entryOf e <;> simp

theorem accum_full (w : List Event) : ∀ b, (accum b w).full = (b.full || w.any forcesFull) := by
  induction w with
  | nil => intro b; simp
  | cons e w ih => intro b; simp [ih, apply_full, Bool.or_assoc]

theorem accum_gNew (w : List Event) : ∀ b, (accum b w).gNew = newData true b.gNew w := by
  induction w with
  | nil => intro b; rfl
  | cons e w ih => intro b; simp [ih, apply_gNew, newData]

theorem accum_tNew (w : List Event) : ∀ b, (accum b w).tNew = newData false b.tNew w := by
  induction w with
  | nil => intro b; rfl
  | cons e w ih => intro b; simp [ih, apply_tNew, newData]

theorem mem_accum_links (w : List Event) : ∀ b x,
    x ∈ (accum b w).links ↔ x ∈ b.links ∨ ∃ e ∈ w, e.typ ≠ .generic ∧ linkOf e = x := by
  induction w with
  | nil => intro b x; simp
  | cons e w ih =>
    intro b x
    rw [accum_cons, ih, apply_links]
    by_cases hg : e.typ = .generic
    · simp [hg]
    · simp only [hg, if_false, mem_appendDedup, List.mem_cons, exists_eq_or_imp, ne_eq,
        not_false_eq_true, true_and]
      constructor
      · rintro ((h | h) | h)
        · exact Or.inl h
        · exact Or.inr (Or.inl h.symm)
        · exact Or.inr (Or.inr h)
      · rintro (h | h | h)
        · exact Or.inl (Or.inl h)
        · exact Or.inl (Or.inr h.symm)
        · exact Or.inr h

theorem mem_accum_objects (w : List Event) : ∀ b x,
    x ∈ (accum b w).objects ↔ x ∈ b.objects ∨ ∃ e ∈ w, e.typ ≠ .generic ∧ descrOf e = x := by
  induction w with
  | nil => intro b x; simp
  | cons e w ih =>
    intro b x
    rw [accum_cons, ih, apply_objects]
    by_cases hg : e.typ = .generic
    · simp [hg]
    · simp only [hg, if_false, mem_appendDedup, List.mem_cons, exists_eq_or_imp, ne_eq,
        not_false_eq_true, true_and]
      constructor
      · rintro ((h | h) | h)
        · exact Or.inl h
        · exact Or.inr (Or.inl h.symm)
        · exact Or.inr (Or.inr h)
      · rintro (h | h | h)
        · exact Or.inl (Or.inl h)
        · exact Or.inl (Or.inr h.symm)
        · exact Or.inr h

theorem nodup_accum_links (w : List Event) : ∀ b, b.links.Nodup → (accum b w).links.Nodup := by
  induction w with
  | nil => intro b h; exact h
  | cons e w ih =>
    intro b h
    rw [accum_cons]
    apply ih
    rw [apply_links]
    split
    · exact h
    · exact nodup_appendDedup _ _ h

theorem nodup_accum_objects (w : List Event) : ∀ b, b.objects.Nodup → (accum b w).objects.Nodup := by
  induction w with
  | nil => intro b h; exact h
  | cons e w ih =>
    intro b h
    rw [accum_cons]
    apply ih
    rw [apply_objects]
    split
    · exact h
    · exact nodup_appendDedup _ _ h

/-- `newData` is the data of the last setter of the window (or the initial value) -/
theorem newData_eq_last (g : Bool) (init : Option Nat) (w : List Event) :
    newData g init w = match (w.filter (setsCm g)).getLast? with
      | none => init
      | some e => some (e.data.getD 0) := by
  suffices h : ∀ (w' : List Event) (init : Option Nat),
      newData g init w'.reverse = match (w'.reverse.filter (setsCm g)).getLast? with
        | none => init
        | some e => some (e.data.getD 0) by
    have := h w.reverse init
    simpa using this
  intro w'
  induction w' with
  | nil => intro init; rfl
  | cons e w' ih =>
    intro init
    simp only [List.reverse_cons, newData, List.foldl_append, List.foldl_cons, List.foldl_nil,
      List.filter_append]
    by_cases hs : setsCm g e
    · simp [hs]
    · have := ih init
      simp only [newData] at this
      simp [hs, this]

/-! ### op sequences and windows -/

theorem windowsFrom_append (acc : Event → Bool) (a b : List Op) : ∀ w,
    windowsFrom acc w (a ++ b) =
      ((windowsFrom acc w a).1 ++ (windowsFrom acc (windowsFrom acc w a).2 b).1,
       (windowsFrom acc (windowsFrom acc w a).2 b).2) := by
  induction a with
  | nil => intro w; simp [windowsFrom]
  | cons o a ih =>
    intro w
    cases o with
    | ev e => simp only [List.cons_append, windowsFrom]; exact ih _
    | swap => simp only [List.cons_append, windowsFrom, ih, List.cons_append]

theorem windowsFrom_length (acc : Event → Bool) (a : List Op) : ∀ w,
    (windowsFrom acc w a).1.length = swapCount a := by
  induction a with
  | nil => intro w; rfl
  | cons o a ih =>
    intro w
    cases o with
    | ev e => simp only [windowsFrom, swapCount]; exact ih _
    | swap => simp only [windowsFrom, swapCount, List.length_cons, ih]

/-- the windows partition the accepted events, keeping their order -/
theorem windowsFrom_partition (acc : Event → Bool) (ops : List Op) : ∀ w,
    (windowsFrom acc w ops).1.flatten ++ (windowsFrom acc w ops).2 = w ++ (eventsOf ops).filter acc := by
  induction ops with
  | nil => intro w; simp [windowsFrom, eventsOf]
  | cons o ops ih =>
    intro w
    cases o with
    | ev e =>
      simp only [windowsFrom, eventsOf, ih, List.filter_cons]
      by_cases h : acc e <;> simp [h]
    | swap =>
      simp only [windowsFrom, eventsOf, List.flatten_cons, List.append_assoc, ih, List.nil_append]

/-- up to the next swap the pending window only grows -/
theorem windowsFrom_head (acc : Event → Bool) (mid post : List Op) (hm : ∀ o ∈ mid, o ≠ Op.swap) :
    ∀ w, ∃ w', (windowsFrom acc w (mid ++ .swap :: post)).1.head? = some w' ∧ ∀ e ∈ w, e ∈ w' := by
  induction mid with
  | nil => intro w; exact ⟨w, by simp [windowsFrom], fun _ h => h⟩
  | cons o mid ih =>
    intro w
    cases o with
    | swap => exact absurd rfl (hm .swap (by simp))
    | ev e =>
      simp only [List.cons_append, windowsFrom]
      obtain ⟨w', h1, h2⟩ := ih (fun o ho => hm o (by simp [ho])) (if acc e then w ++ [e] else w)
      refine ⟨w', h1, fun x hx => h2 x ?_⟩
      split
      · simp [hx]
      · exact hx

/-- an accepted event is a member of the window whose index is the number of swaps before it -/
theorem windows_decomp (acc : Event → Bool) (pre mid post : List Op) (e : Event)
    (ha : acc e = true) (hm : ∀ o ∈ mid, o ≠ Op.swap) :
    ∃ w, (windows acc (pre ++ .ev e :: (mid ++ .swap :: post))).1[swapCount pre]? = some w ∧ e ∈ w := by
  unfold windows
  rw [windowsFrom_append]
  simp only
  rw [List.getElem?_append_right (by rw [windowsFrom_length]; exact Nat.le_refl _), windowsFrom_length,
    Nat.sub_self]
  simp only [windowsFrom, ha, if_true]
  obtain ⟨w', h1, h2⟩ := windowsFrom_head acc mid post hm ((windowsFrom acc [] pre).2 ++ [e])
  refine ⟨w', ?_, h2 e (by simp)⟩
  rw [← List.head?_eq_getElem?]; exact h1

/-! ### refinement: returned batches = accumulation per window -/

/-- batches of consecutive windows, the `…Cur` of each being what the previous one carried -/
def batchesOf : Option Nat → Option Nat → List (List Event) → List Batch
  | _, _, [] => []
  | g, t, w :: ws =>
    accum (fresh g t) w :: batchesOf (pick (accum (fresh g t) w).gNew g) (pick (accum (fresh g t) w).tNew t) ws

theorem onEvent_ch (c : Cfg) (s : St) (e : Event) :
    (onEvent c s e).ch = if accepts c e then apply s.ch e else s.ch := by
  unfold onEvent; split <;> rfl

theorem runFrom_windows (c : Cfg) (ops : List Op) : ∀ (s : St) (w : List Event) (g t : Option Nat),
    s.ch = accum (fresh g t) w →
    (runFrom c s ops).1 = batchesOf g t (windowsFrom (accepts c) w ops).1 := by
  induction ops with
  | nil => intro s w g t _; rfl
  | cons o ops ih =>
    intro s w g t hs
    cases o with
    | ev e =>
      simp only [runFrom, windowsFrom]
      apply ih
      rw [onEvent_ch]
      by_cases h : accepts c e
      · simp only [h, if_true]; rw [accum_snoc, hs]
      · simp only [h]; exact hs
    | swap =>
      simp only [runFrom, windowsFrom, batchesOf, swap]
      rw [← hs]
      congr 1
      apply ih
      have hg : s.ch.gCur = g := by rw [hs, accum_gCur]; rfl
      have ht : s.ch.tCur = t := by rw [hs, accum_tCur]; rfl
      simp [carry, fresh, hg, ht]

theorem runFrom_final (c : Cfg) (ops : List Op) : ∀ (s : St) (w : List Event) (g t : Option Nat),
    s.ch = accum (fresh g t) w →
    ∃ g' t', (runFrom c s ops).2.ch = accum (fresh g' t') (windowsFrom (accepts c) w ops).2 := by
  induction ops with
  | nil => intro s w g t hs; exact ⟨g, t, hs⟩
  | cons o ops ih =>
    intro s w g t hs
    cases o with
    | ev e =>
      simp only [runFrom, windowsFrom]
      apply ih _ _ g t
      rw [onEvent_ch]
      by_cases h : accepts c e
      · simp only [h, if_true]; rw [accum_snoc, hs]
      · simp only [h]; exact hs
    | swap =>
      simp only [runFrom, windowsFrom, swap]
      apply ih _ _ (pick s.ch.gNew s.ch.gCur) (pick s.ch.tNew s.ch.tCur)
      simp [carry, fresh]

theorem run_batches (c : Cfg) (ops : List Op) :
    (run c ops).1 = batchesOf none none (windows (accepts c) ops).1 :=
  runFrom_windows c ops {} [] none none rfl

theorem batchesOf_length : ∀ (ws : List (List Event)) (g t : Option Nat), (batchesOf g t ws).length = ws.length := by
  intro ws
  induction ws with
  | nil => intro g t; rfl
  | cons w ws ih => intro g t; simp [batchesOf, ih]

theorem batchesOf_getElem? : ∀ (ws : List (List Event)) (g t : Option Nat) (k : Nat) (b : Batch),
    (batchesOf g t ws)[k]? = some b → ∃ w g' t', ws[k]? = some w ∧ b = accum (fresh g' t') w := by
  intro ws
  induction ws with
  | nil => intro g t k b h; simp [batchesOf] at h
  | cons w ws ih =>
    intro g t k b h
    cases k with
    | zero =>
      simp only [batchesOf, List.getElem?_cons_zero, Option.some.injEq] at h
      exact ⟨w, g, t, by simp, h.symm⟩
    | succ k =>
      simp only [batchesOf, List.getElem?_cons_succ] at h
      obtain ⟨w', g', t', h1, h2⟩ := ih _ _ k b h
      exact ⟨w', g', t', by simpa using h1, h2⟩

theorem batchesOf_chain : ∀ (ws : List (List Event)) (g t : Option Nat), checkChain g t (batchesOf g t ws) = true := by
  intro ws
  induction ws with
  | nil => intro g t; rfl
  | cons w ws ih =>
    intro g t
    simp only [batchesOf, checkChain, accum_gCur, accum_tCur, fresh, ih, Bool.and_true]
    simp

theorem batchesOf_typed : ∀ (ws : List (List Event)) (g t : Option Nat),
    (batchesOf g t ws).flatMap (·.typed) = ws.flatten.filterMap entryOf := by
  intro ws
  induction ws with
  | nil => intro g t; rfl
  | cons w ws ih =>
    intro g t
    simp only [batchesOf, List.flatMap_cons, ih, List.flatten_cons, List.filterMap_append, accum_typed, fresh]
    simp

end HapVerif.C14
