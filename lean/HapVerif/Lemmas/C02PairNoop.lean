import HapVerif.Lemmas.C02PairStruct
/-!
# M-Dyn / C11: a no-op re-notification sends nothing and needs no reload
-/
namespace HapVerif.C02

theorem eq_of_nodup_map {α β} (f : α → β) : ∀ (l : List α), (l.map f).Nodup → ∀ a ∈ l, ∀ b ∈ l, f a = f b → a = b := by
  intro l
  induction l with
  | nil => intro _ a ha; cases ha
  | cons x xs ih =>
    intro hn a ha b hb hab
    rw [List.map_cons, List.nodup_cons] at hn
    rcases List.mem_cons.1 ha with hax | ha <;> rcases List.mem_cons.1 hb with hbx | hb
    · rw [hax, hbx]
    · exfalso; apply hn.1; rw [← hax, hab]; exact List.mem_map_of_mem hb
    · exfalso; apply hn.1; rw [← hbx, ← hab]; exact List.mem_map_of_mem ha
    · exact ih hn.2 a ha b hb hab

/-- the current endpoints are the enabled old ones (up to names and order) -/
structure Noop (old cur0 : List EP) : Prop where
  hO : hasDupTarget old = false
  hC : (cur0.map (·.target)).Nodup
  same : ∀ c ∈ cur0, ∃ o ∈ old, o.enabled = true ∧ o.target = c.target ∧ { c with name := o.name } = o
  all : ∀ o ∈ enOf old, ∃ c ∈ cur0, c.target = o.target

section
variable {old cur0 : List EP}

/-- stage 2 finds a pair for every current endpoint -/
theorem assoc_added_nil (h : Noop old cur0) : (assocCur ((enOf old).map mkPair) cur0).added = [] := by
  let Inv : Assoc → List Nat → Prop := fun a r =>
    a.pairs.map (·.target) = (enOf old).map (·.target) ∧ a.cur.map clr = cur0.map clr ∧ a.added = [] ∧
    ∀ i ∈ r, i < cur0.length
  have key : Inv (assocCur ((enOf old).map mkPair) cur0) [] := by
    apply foldl_inv assocStep Inv
    · intro a i r ⟨h1, h2, h3, h4⟩
      have hi : i < cur0.length := h4 i (by simp)
      have htg : (a.cur.getD i default).target = (cur0.getD i default).target := clr_target (clr_getD h2 i)
      have hmem : cur0.getD i default ∈ cur0 := by
        rw [List.getD_eq_getElem?_getD, List.getElem?_eq_getElem hi]; simp
      obtain ⟨o, ho, hen, hot, _⟩ := h.same _ hmem
      have : (a.cur.getD i default).target ∈ a.pairs.map (·.target) := by
        rw [h1, htg, ← hot]
        exact List.mem_map_of_mem (List.mem_filter.2 ⟨ho, hen⟩)
      obtain ⟨p, hf⟩ := find_of_mem this
      rw [assocStep_some a i p hf]
      exact ⟨by rw [setCur_map_target]; exact h1, by rw [map_clr_setName]; exact h2, h3,
        fun j hj => h4 j (by simp [hj])⟩
    · exact ⟨by simp [mkPair, Function.comp_def], rfl, rfl, fun i hi => List.mem_range.1 hi⟩
  exact key.2.2.1

theorem pair_target {pairs : List Pair} {cur : List EP} {added : List Nat} {n : Nat}
    (h : PInv old cur0 pairs cur added n) {p : Pair} (hp : p ∈ pairs) : p.target = p.old.target := by
  have := h.tg
  rw [← h.od, List.map_map] at this
  exact (List.map_inj_left.1 this) p hp

/-- the extra invariant of the walk for a no-op -/
structure NInv (cur0 : List EP) (same : Bool) (w : Walk) : Prop where
  add : w.added = []
  all : ∀ p ∈ w.pairs, p.cur ≠ none
  tl : TLink cur0 w.pairs
  cmds : w.s.cmds = []
  upd : w.s.updated = same

theorem walk0_noop (h : Noop old cur0) (same : Bool) (sc : List Resp) : NInv cur0 same (walk0 old cur0 same sc) := by
  have hW := walk0_inv (cur0 := cur0) same sc h.hO
  have hsp := splitOld_eq old h.hO
  obtain ⟨hp, hl, _⟩ := assocCur_inv (cur0 := cur0) h.hO
  have hadd := assoc_added_nil h
  have e1 : (walk0 old cur0 same sc).pairs = (assocCur ((enOf old).map mkPair) cur0).pairs := by
    unfold walk0; simp only [hsp]
  have e2 : (walk0 old cur0 same sc).added = (assocCur ((enOf old).map mkPair) cur0).added := by
    unfold walk0; simp only [hsp]
  refine ⟨e2.trans hadd, ?_, e1 ▸ hl, rfl, rfl⟩
  -- counting: every index is named, and there are at least as many indices as pairs
  have hcov := hW.cov h.hC
  have hr := (perm_range hW.p.nd hW.p.lt (fun j hj => List.mem_append.2 (hcov j hj))).length_eq
  rw [e2, hadd] at hr
  simp only [List.append_nil, List.length_range] at hr
  have h2 := asg_length (walk0 old cur0 same sc).pairs
  have h3 : (walk0 old cur0 same sc).pairs.length = (enOf old).length := by
    simpa using congrArg List.length hW.p.od
  have h4 : (enOf old).length ≤ cur0.length := by
    have hT := (hasDupTarget_false_iff old).1 h.hO
    have := List.Nodup.length_le_of_subset hT (l₂ := cur0.map (·.target)) (by
      intro t ht
      obtain ⟨o, ho, rfl⟩ := List.mem_map.1 ht
      obtain ⟨c, hc, hct⟩ := h.all o ho
      rw [← hct]; exact List.mem_map_of_mem hc)
    simpa using this
  have h5 : (walk0 old cur0 same sc).pairs.filter (gone []) = [] := by
    apply List.eq_nil_of_length_eq_zero; omega
  intro p hpm hc
  have : p ∈ (walk0 old cur0 same sc).pairs.filter (gone []) := List.mem_filter.2 ⟨hpm, by simp [gone, hc]⟩
  rw [h5] at this; cases this

theorem walkStep_noop (h : Noop old cur0) (pr same : Bool) (w : Walk) (t : String) (ts : List String)
    (hW : WInv old cur0 ((cur0.map (·.target)).Nodup) w (t :: ts)) (hN : NInv cur0 same w) :
    NInv cur0 same (walkStep pr w t) := by
  cases hf : w.pairs.find? (fun q => decide (q.target = t)) with
  | none => rw [walkStep_none pr w t hf]; exact hN
  | some p =>
    have hpm : p ∈ w.pairs := List.mem_of_find?_eq_some hf
    cases hc : p.cur with
    | none => exact absurd hc (hN.all p hpm)
    | some ci =>
      rw [walkStep_cur pr w t p ci hf hc]
      have hci : ci < cur0.length := hW.p.lt ci (List.mem_append_left _ (mem_asg.2 ⟨p, hpm, hc⟩))
      have hmem : cur0.getD ci default ∈ cur0 := by
        rw [List.getD_eq_getElem?_getD, List.getElem?_eq_getElem hci]; simp
      obtain ⟨o, ho, hen, hot, hoe⟩ := h.same _ hmem
      have hT := (hasDupTarget_false_iff old).1 h.hO
      have hpo : p.old ∈ enOf old := by rw [← hW.p.od]; exact List.mem_map_of_mem hpm
      have ho' : o ∈ enOf old := List.mem_filter.2 ⟨ho, hen⟩
      have hop : o = p.old := by
        apply eq_of_nodup_map (·.target) _ hT o ho' p.old hpo
        show o.target = p.old.target
        rw [hot, hN.tl p hpm ci hc, pair_target hW.p hpm]
      have hname : (w.s.cur.getD ci default).name = p.old.name := hW.p.nm p hpm ci hc
      have hclr := clr_getD hW.p.clr ci
      have heq : p.old = w.s.cur.getD ci default := by
        rw [← hop, ← hoe]
        have hn2 : (w.s.cur.getD ci default).name = o.name := by rw [hname, hop]
        revert hclr hn2
        generalize w.s.cur.getD ci default = c
        generalize cur0.getD ci default = c0
        intro hclr hn2
        cases c; cases c0
        simp only [clr, EP.mk.injEq] at hclr
        simp only at hn2
        simp [hclr, hn2]
      have hchk : finish (checkEndpointPair w.s pr p.old (w.s.cur.getD ci default)) = w.s := by
        unfold checkEndpointPair finish
        rw [if_pos heq]; rfl
      rw [hchk]
      exact hN

/-- **no-op**: nothing is sent and `updated` keeps its initial value, whatever the script -/
theorem pairLoop_noop (h : Noop old cur0) (hlen : cur0.length ≤ old.length) (pr : Bool) (iw : Int) (same : Bool)
    (sc : List Resp) :
    ∃ s, pairLoop old cur0 pr iw same sc = some s ∧ s.updated = same ∧ s.cmds = [] := by
  obtain ⟨W, s, _, hW, hX, h4, hY, hle, he⟩ := pairLoop_shape (old := old) (cur0 := cur0) pr iw same sc h.hO hlen
    (fun w _ => NInv cur0 same w) (walk0_noop h same sc)
    (fun w t ts hW hN => walkStep_noop h pr same w t ts hW hN)
    (fun s _ _ => s.cmds = [] ∧ s.updated = same) (fun W _ _ hX => ⟨hX.cmds, hX.upd⟩)
    (by
      intro W _ _ hX s done a r slot h4 _ _
      have := h4.split
      rw [hX.add] at this
      simp at this)
  exact ⟨_, he, hY.2, hY.1⟩

end
end HapVerif.C02
