import HapVerif.Lemmas.C16Float
/-!
# C16 — `Exact24`: when every int → float32 conversion of `RebalanceWeight` is exact

`RebalanceWeight` converts six kinds of integers to `float32`:
`cl.Weight*lcmCount`, `cl.Length*gcdClusterWeight`, `initialWeight*gcdClusterWeight`,
`256*gcdClusterWeight`, `minWeight`, `maxWeight`.  `Exact24` says that each of them is
`< 2^24` (for `cl.Length*g` only when `cl.Weight ≠ 0`: with weight 0 the numerator is 0 and
the quotient is 0 whatever the denominator).  Under `Exact24` every conversion is exact
(`conversions_exact`).

The E3 theorems do NOT need `Exact24`: they treat a conversion as one more rounding of
relative error `2^-24`.  `SmallLcm` (`256·lcm < 2^24`) implies the `weight*lcm`, `mn`, `mx`
and `length*g` parts (`exact24_parts_of_smallLcm`) but not `initial*g`, `256*g`
(e.g. `[(256,1),(0,65535)]`: `g = 256·65535`).
-/
namespace HapVerif.C16

def Exact24 (cls : List Cluster) (initial : Int) : Prop :=
  (∀ c ∈ cls, c.weight * lcmCount cls < 2 ^ 24) ∧
  (∀ c ∈ cls, c.weight ≠ 0 → c.length * (accAll (lcmCount cls) cls).g < 2 ^ 24) ∧
  initial * (accAll (lcmCount cls) cls).g < 2 ^ 24 ∧
  256 * (accAll (lcmCount cls) cls).g < 2 ^ 24 ∧
  (accAll (lcmCount cls) cls).mn < 2 ^ 24 ∧
  (accAll (lcmCount cls) cls).mx < 2 ^ 24

instance (cls : List Cluster) (initial : Int) : Decidable (Exact24 cls initial) := by
  unfold Exact24; infer_instance

instance (cls : List Cluster) : Decidable (SmallLcm cls) := by
  unfold SmallLcm; infer_instance

theorem rnd_int {rnd : Rat → Rat} (R : Rounding rnd) {z : Int} (h0 : 0 ≤ z) (h1 : z < 2 ^ 24) :
    rnd (z : Rat) = (z : Rat) := by
  have := R.exact z 0 (by rw [abs_of_nonneg h0]; omega)
  have e : pow2 0 = 1 := by rw [pow2_eq]; simp
  rwa [e, mul_one] at this

/-- under `Exact24` (and `WFIn`, non-degenerate case) every integer that is converted to
float is converted exactly -/
theorem conversions_exact {rnd : Rat → Rat} (R : Rounding rnd) {cls : List Cluster} {initial : Int}
    (h : WFIn cls initial) (he : Exact24 cls initial)
    (hg : (accAll (lcmCount cls) cls).g ≠ 0) :
    rnd ((initial : Rat) * (accAll (lcmCount cls) cls).g) = (initial : Rat) * (accAll (lcmCount cls) cls).g ∧
    rnd ((accAll (lcmCount cls) cls).mn : Rat) = (accAll (lcmCount cls) cls).mn ∧
    rnd ((accAll (lcmCount cls) cls).mx : Rat) = (accAll (lcmCount cls) cls).mx ∧
    rnd (256 * ((accAll (lcmCount cls) cls).g : Rat)) = 256 * ((accAll (lcmCount cls) cls).g : Rat) ∧
    (∀ c ∈ cls, rnd ((c.weight : Rat) * (lcmCount cls : Rat)) = (c.weight : Rat) * (lcmCount cls : Rat)) ∧
    (∀ c ∈ cls, c.weight ≠ 0 →
      rnd ((c.length : Rat) * ((accAll (lcmCount cls) cls).g : Rat)) =
        (c.length : Rat) * ((accAll (lcmCount cls) cls).g : Rat)) := by
  obtain ⟨g0, mn0, mnmx, _, _, _⟩ := accAll_spec h hg
  obtain ⟨e1, e2, e3, e4, e5, e6⟩ := he
  have hi0 : 0 < initial := by have := h.ilo; omega
  have hL := lcmCount_nonneg h.len
  refine ⟨?_, rnd_int R (by omega) e5, rnd_int R (by omega) e6, ?_, ?_, ?_⟩
  · have := rnd_int R (z := initial * (accAll (lcmCount cls) cls).g)
      (Int.mul_nonneg (by omega) (by omega)) e3
    push_cast at this; exact this
  · have := rnd_int R (z := 256 * (accAll (lcmCount cls) cls).g) (by omega) e4
    push_cast at this; exact this
  · intro c hc
    have := rnd_int R (z := c.weight * lcmCount cls) (Int.mul_nonneg (h.wlo c hc) hL) (e1 c hc)
    push_cast at this; exact this
  · intro c hc hw
    have := rnd_int R (z := c.length * (accAll (lcmCount cls) cls).g)
      (Int.mul_nonneg (h.len c hc) (by omega)) (e2 c hc hw)
    push_cast at this; exact this

/-- the parts of `Exact24` that follow from `256·lcm < 2^24` -/
theorem exact24_parts_of_smallLcm {cls : List Cluster} {initial : Int} (h : WFIn cls initial)
    (hs : SmallLcm cls) (hg : (accAll (lcmCount cls) cls).g ≠ 0) :
    (∀ c ∈ cls, c.weight * lcmCount cls < 2 ^ 24) ∧
    (∀ c ∈ cls, c.weight ≠ 0 → c.length ≠ 0 → c.length * (accAll (lcmCount cls) cls).g < 2 ^ 24) ∧
    (accAll (lcmCount cls) cls).mn < 2 ^ 24 ∧ (accAll (lcmCount cls) cls).mx < 2 ^ 24 := by
  obtain ⟨g0, mn0, mnmx, hall, _, ⟨q, hq, hqa, hqe⟩⟩ := accAll_spec h hg
  have hL := lcmCount_nonneg h.len
  unfold SmallLcm at hs
  have wL : ∀ c ∈ cls, c.weight * lcmCount cls < 2 ^ 24 := by
    intro c hc
    have := Int.mul_le_mul_of_nonneg_right (h.whi c hc) hL
    omega
  -- clusterWeight ≤ weight * lcm for an active cluster
  have cwle : ∀ c ∈ cls, active c → clusterWeight (lcmCount cls) c * c.length = c.weight * lcmCount cls := by
    intro c hc ha
    have hp := active_pos h hc ha
    have hd := len_dvd_lcmCount h.len hc (by omega)
    rw [clusterWeight_eq hd.1, Int.mul_assoc, Int.ediv_mul_cancel hd.1]
  have hmx : (accAll (lcmCount cls) cls).mx < 2 ^ 24 := by
    have hp := active_pos h hq hqa
    have e := cwle q hq hqa
    have hcw := active_cw_pos h q hq hqa
    have : clusterWeight (lcmCount cls) q ≤ clusterWeight (lcmCount cls) q * q.length := by nlinarith
    have := wL q hq
    omega
  refine ⟨wL, ?_, by omega, hmx⟩
  intro c hc hw hl
  have ha : active c := by unfold active; omega
  have hp := active_pos h hc ha
  obtain ⟨⟨k, hk⟩, _, _⟩ := hall c hc ha
  have e := cwle c hc ha
  have hcw := active_cw_pos h c hc ha
  have hk1 : 1 ≤ k := by
    by_contra hn
    have : (accAll (lcmCount cls) cls).g * k ≤ 0 :=
      Int.mul_nonpos_of_nonneg_of_nonpos (le_of_lt g0) (by omega)
    omega
  have : c.length * (accAll (lcmCount cls) cls).g ≤ c.length * ((accAll (lcmCount cls) cls).g * k) := by
    have : (accAll (lcmCount cls) cls).g ≤ (accAll (lcmCount cls) cls).g * k := by nlinarith
    exact Int.mul_le_mul_of_nonneg_left this (le_of_lt hp.1)
  rw [← hk, Int.mul_comm c.length (clusterWeight _ _), e] at this
  have := wL c hc
  omega

end HapVerif.C16
