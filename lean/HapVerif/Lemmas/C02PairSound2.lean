import HapVerif.Lemmas.C02PairSound1
/-!
# M-Dyn soundness, part 2: the table invariant through the walk and through stage 4
-/
namespace HapVerif.C02

/-- table invariant of the walk, as long as `updated` is still true -/
def SInv (old : List EP) (w : Walk) (ts : List String) : Prop :=
  w.s.updated = true → SCore (tbl old w.s.cmds) w.pairs w.s.cur w.empty ts

section
variable {old cur0 : List EP}

theorem enabled_of_clr {cur : List EP} (hc : cur.map clr = cur0.map clr) (hE : ∀ e ∈ cur0, e.enabled = true)
    {i : Nat} (hi : i < cur0.length) : (cur.getD i default).enabled = true := by
  rw [(clr_fields (clr_getD hc i)).2.2.1]
  apply hE
  rw [List.getD_eq_getElem?_getD, List.getElem?_eq_getElem hi]; simp

theorem walk0_sound (same : Bool) (sc : List Resp) (hO : hasDupTarget old = false) (hN : (old.map (·.name)).Nodup) :
    SInv old (walk0 old cur0 same sc) (sortStrs (splitOld old).targets) := by
  intro _
  have hW := walk0_inv (cur0 := cur0) same sc hO
  have hsp := splitOld_eq old hO
  have hcm : (walk0 old cur0 same sc).s.cmds = [] := rfl
  have hem : (walk0 old cur0 same sc).empty = disOf old := by unfold walk0; simp only [hsp]
  rw [hcm]
  have hload : ∀ e ∈ old, TL (tbl old []) e.name (fun srv => srv = loadSrv e) := by
    intro e he srv hs hn
    obtain ⟨e', he', rfl⟩ := List.mem_map.1 hs
    have : e' = e := eq_of_nodup_map (·.name) old hN e' he' e he hn
    rw [this]
  refine ⟨?_, ?_, ?_⟩
  · intro p hp j _ hnt
    refine absurd ?_ hnt
    apply (sortStrs_perm _).symm.subset
    rw [hsp]
    show p.target ∈ (enOf old).map (·.target)
    rw [← hW.p.tg]; exact List.mem_map_of_mem hp
  · intro p hp _
    have : p.old ∈ enOf old := by rw [← hW.p.od]; exact List.mem_map_of_mem hp
    exact hload _ (List.mem_filter.1 this).1
  · intro e he
    rw [hem] at he
    obtain ⟨he1, he2⟩ := List.mem_filter.1 he
    refine TL_mono (hload e he1) ?_
    intro srv _ hs
    rw [hs]
    simp only [Bool.not_eq_eq_eq_not, Bool.not_true] at he2
    simp [loadSrv, he2]

theorem walkStep_sound (hO : hasDupTarget old = false) (hN : (old.map (·.name)).Nodup)
    (hE : ∀ e ∈ cur0, e.enabled = true) (pr : Bool) (w : Walk) (t : String) (ts : List String)
    (hW : WInv old cur0 ((cur0.map (·.target)).Nodup) w (t :: ts)) (hS : SInv old w (t :: ts)) :
    SInv old (walkStep pr w t) ts := by
  have hT := (hasDupTarget_false_iff old).1 hO
  have hW' := walkStep_inv hT pr w t ts hW
  have hL := led_of_winv hW' hT hN
  have hn : (w.pairs.map (·.target)).Nodup := by rw [hW.p.tg]; exact hT
  have htn : t ∉ ts := (List.nodup_cons.1 hW.tsnd).1
  obtain ⟨p, hf⟩ := find_of_mem (hW.tsin t (by simp))
  obtain ⟨hp, l1, l2, hps, h1, h2⟩ := find_split hn hf
  have hpm : p ∈ w.pairs := List.mem_of_find?_eq_some hf
  cases hc : p.cur with
  | some ci =>
    rw [walkStep_cur pr w t p ci hf hc] at hL ⊢
    intro hu
    obtain ⟨hu0, hcm⟩ := chk_sound _ _ _ _ hu
    have hci : ci < cur0.length := hW.p.lt ci (List.mem_append_left _ (mem_asg.2 ⟨p, hpm, hc⟩))
    show SCore _ w.pairs (finish _).cur w.empty ts
    rw [finish_cur, chk_cur]
    refine score_check (hS hu0) hL hpm hp hc htn (hW.p.nm p hpm ci hc) (enabled_of_clr hW.p.clr hE hci) ?_
    rcases hcm with ⟨heq, hcm⟩ | hcm
    · exact Or.inl ⟨heq, by rw [hcm]⟩
    · exact Or.inr (by rw [hcm, tbl_snoc])
  | none =>
    cases ha : w.added with
    | nil =>
      rw [walkStep_disable pr w t p hf hc ha] at hL ⊢
      intro hu
      obtain ⟨hu0, hcm⟩ := disable_sound _ _ hu
      show SCore (tbl old (disableSt w.s p.old).cmds) w.pairs (disableSt w.s p.old).cur (w.empty ++ [p.old]) ts
      rw [disableSt_cur, hcm, tbl_snoc]
      exact score_disable (hS hu0) hL hpm hp hc htn
    | cons a rest =>
      rw [walkStep_take pr w t p a rest hf hc ha] at hL ⊢
      intro hu
      obtain ⟨hu0, hcm⟩ := chk_sound _ _ _ _ hu
      have hP := hW.p
      rw [ha] at hP
      have ha_lt : a < cur0.length := hP.lt a (by simp)
      have hlen : w.s.cur.length = cur0.length := length_of_clr hP.clr
      have hnot : ∀ q ∈ l1 ++ p :: l2, q.cur ≠ some a := by
        intro q hq hqa
        rw [← hps] at hq
        exact (List.nodup_append.1 hP.nd).2.2 a (mem_asg.2 ⟨q, hq, hqa⟩) a (by simp) rfl
      have hS0 := hS hu0
      rw [hps] at hS0
      have hS1 := score_take a p.old.name hS0 hp hnot
      show SCore _ (setCur w.pairs t a) (finish _).cur w.empty ts
      rw [finish_cur, chk_cur]
      dsimp only at hL ⊢
      rw [hps, setCur_split l1 l2 p t a hp h1 h2] at hL ⊢
      have hcl : (setName w.s.cur a p.old.name).map clr = cur0.map clr := (map_clr_setName _ _ _).trans hP.clr
      refine score_check (p := { p with cur := some a }) hS1 hL (by simp) hp rfl htn ?_
        (enabled_of_clr hcl hE ha_lt) ?_
      · exact nameAt_setName_eq _ _ _ (by omega)
      · rcases hcm with ⟨heq, hcm⟩ | hcm
        · exact Or.inl ⟨heq, by rw [hcm]⟩
        · exact Or.inr (by rw [hcm, tbl_snoc])

/-! ### stage 4 -/

/-- table invariant of stage 4 -/
structure TCore (T : List Srv) (W : Walk) (cur : List EP) (done : List Nat) : Prop where
  t1 : ∀ p ∈ W.pairs, ∀ j, p.cur = some j → TL T p.old.name (Match (cur.getD j default))
  t2 : ∀ (m x : Nat) (slot : EP), done[m]? = some x → W.empty[m]? = some slot → TL T slot.name (Match (cur.getD x default))
  t3 : ∀ (m : Nat) (slot : EP), done.length ≤ m → W.empty[m]? = some slot → TL T slot.name (fun srv => srv.state = .maint)

def TInv (old : List EP) (W : Walk) (s : PairSt) (done : List Nat) : Prop :=
  s.updated = true → TCore (tbl old s.cmds) W s.cur done

theorem stage4_init {W : Walk} (hS : SInv old W []) : TInv old W W.s [] := by
  intro hu
  have h := hS hu
  refine ⟨fun p hp j hj => h.s1 p hp j hj (by simp), ?_, ?_⟩
  · intro m x slot hm; simp at hm
  · intro m slot _ hs
    exact h.s3 slot (List.mem_of_getElem? hs)

theorem stage4_sound (hO : hasDupTarget old = false) (hN : (old.map (·.name)).Nodup)
    (hE : ∀ e ∈ cur0, e.enabled = true) {W : Walk} (hW : WInv old cur0 ((cur0.map (·.target)).Nodup) W [])
    (pr : Bool) (s : PairSt) (done : List Nat) (a : Nat) (r : List Nat) (slot : EP)
    (h4 : A4 cur0 W s done (a :: r)) (hslot : W.empty[done.length]? = some slot) (hT4 : TInv old W s done) :
    TInv old W (slotSt pr s a slot) (done ++ [a]) := by
  have hT := (hasDupTarget_false_iff old).1 hO
  have hL := led_of_winv hW hT hN
  intro hu
  obtain ⟨hu0, hcm⟩ := slot_sound pr s a slot hu
  have h := hT4 hu0
  have hnd : (asg W.pairs ++ (done ++ a :: r)).Nodup := by rw [← h4.split]; exact hW.p.nd
  have ha_lt : a < cur0.length := hW.p.lt a (by rw [h4.split]; simp)
  have hcl : s.cur.length = cur0.length := length_of_clr h4.clr
  have hcl' : (setName s.cur a slot.name).map clr = cur0.map clr := (map_clr_setName _ _ _).trans h4.clr
  have hename : ((setName s.cur a slot.name).getD a default).name = slot.name :=
    nameAt_setName_eq _ _ _ (by omega)
  have hk : done.length < W.empty.length := by
    rcases Nat.lt_or_ge done.length W.empty.length with h | h
    · exact h
    · rw [List.getElem?_eq_none h] at hslot; cases hslot
  -- names of the other slots differ from this slot's name
  have hslot_ne : ∀ m slot', m ≠ done.length → W.empty[m]? = some slot' → slot.name ≠ slot'.name := by
    intro m slot' hm hs' heq
    have hm' : m < W.empty.length := by
      rcases Nat.lt_or_ge m W.empty.length with h | h
      · exact h
      · rw [List.getElem?_eq_none h] at hs'; cases hs'
    have e1 : (W.empty.map (·.name))[m]? = some slot'.name := by rw [List.getElem?_map, hs']; rfl
    have e2 : (W.empty.map (·.name))[done.length]? = some slot.name := by rw [List.getElem?_map, hslot]; rfl
    have := (List.getElem?_inj (i := m) (j := done.length) (by simpa using hm') hL.d3).1 (by rw [e1, e2, heq])
    exact hm this
  rw [slotSt_cur, hcm, tbl_snoc]
  have hcn : cmdName (.enable ((setName s.cur a slot.name).getD a default).name
      ((setName s.cur a slot.name).getD a default).ip ((setName s.cur a slot.name).getD a default).port
      ((setName s.cur a slot.name).getD a default).weight) = slot.name := hename
  refine ⟨?_, ?_, ?_⟩
  · intro p hp j hj
    have hja : a ≠ j := by
      have := (List.nodup_append.1 hnd).2.2 j (mem_asg.2 ⟨p, hp, hj⟩) a (by simp)
      exact fun e => this e.symm
    rw [getD_setName_ne _ _ _ _ hja]
    refine TL_other _ ?_ (h.t1 p hp j hj)
    rw [hcn]
    exact hL.d2 p hp (by simp [gone, hj]) slot (List.mem_of_getElem? hslot)
  · intro m x slot' hm hs'
    rw [List.getElem?_append] at hm
    split at hm
    · next hlt =>
      have hxd : x ∈ done := List.mem_of_getElem? hm
      have hxa : a ≠ x := by
        have h1 := (List.nodup_append.1 hnd).2.1
        have := (List.nodup_append.1 h1).2.2 x hxd a (by simp)
        exact fun e => this e.symm
      rw [getD_setName_ne _ _ _ _ hxa]
      refine TL_other _ ?_ (h.t2 m x slot' hm hs')
      rw [hcn]
      exact hslot_ne m slot' (by omega) hs'
    · next hge =>
      have hm0 : m = done.length := by
        rcases Nat.lt_or_ge (m - done.length) 1 with h | h
        · omega
        · rw [List.getElem?_eq_none (by simpa using h)] at hm; cases hm
      subst hm0
      simp only [Nat.sub_self, List.getElem?_cons_zero, Option.some.injEq] at hm
      subst hm
      rw [hslot] at hs'
      injection hs' with hs'
      subst hs'
      intro srv hs hn
      have hn' := hn.trans hename.symm
      exact norm_enabled (enabled_of_clr hcl' hE ha_lt) hn' (TL_enable _ _ _ _ _ srv hs hn')
  · intro m slot' hm hs'
    simp only [List.length_append, List.length_singleton] at hm
    refine TL_other _ ?_ (h.t3 m slot' (by omega) hs')
    rw [hcn]
    exact hslot_ne m slot' (by omega) hs'

end
end HapVerif.C02
