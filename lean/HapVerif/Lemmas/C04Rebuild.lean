import HapVerif.Lemmas.C04Build
/-!
# C04 — T3: the layout of `rebuild` is well ordered and holds every entry exactly once.
Core only.
-/
namespace HapVerif.C04
open List

/-! ### the `order` clause over an appended layout -/

def Ord (l : Layout) : Prop :=
  ∀ (i j : Nat) (f g : PFile) (e1 e2 : Entry), l[i]? = some f → l[j]? = some g → e1 ∈ f.entries →
    e2 ∈ g.entries → e1.host = e2.host → e1.mt ≠ .exact → e2.mt ≠ .exact → ext e1 e2 = true → i ≤ j

/-- no entry of `B` properly extends a same-host entry of `A` (both non-exact) -/
def NoBack (A B : Layout) : Prop :=
  ∀ f ∈ A, ∀ g ∈ B, ∀ e2 ∈ f.entries, ∀ e1 ∈ g.entries, e1.host = e2.host → e1.mt ≠ .exact →
    e2.mt ≠ .exact → ext e1 e2 = true → False

theorem ord_append {A B : Layout} (ha : Ord A) (hb : Ord B) (hn : NoBack A B) : Ord (A ++ B) := by
  intro i j f g e1 e2 hf hg h1 h2 hh x1 x2 he
  by_cases hi : i < A.length
  · by_cases hj : j < A.length
    · rw [getElem?_append_left hi] at hf
      rw [getElem?_append_left hj] at hg
      exact ha i j f g e1 e2 hf hg h1 h2 hh x1 x2 he
    · omega
  · by_cases hj : j < A.length
    · rw [getElem?_append_right (by omega)] at hf
      rw [getElem?_append_left hj] at hg
      exact (hn g (mem_of_getElem? hg) f (mem_of_getElem? hf) e2 h2 e1 h1 hh x1 x2 he).elim
    · rw [getElem?_append_right (by omega)] at hf
      rw [getElem?_append_right (by omega)] at hg
      have := hb _ _ f g e1 e2 hf hg h1 h2 hh x1 x2 he
      omega

theorem ord_short {A : Layout} (h : A.length ≤ 1) : Ord A := by
  intro i j f g e1 e2 hf hg _ _ _ _ _ _
  have := (List.getElem?_eq_some_iff.1 hf).1
  omega

theorem noBack_append_left {A B C : Layout} (h1 : NoBack A C) (h2 : NoBack B C) :
    NoBack (A ++ B) C := by
  intro f hf
  rcases mem_append.1 hf with h | h
  · exact h1 f h
  · exact h2 f h

/-! ### default files -/

theorem dfltFile_length (rest : List Entry) (t : MT) : (dfltFile rest t).length ≤ 1 := by
  unfold dfltFile; split <;> simp

theorem mem_dfltFile {rest : List Entry} {t : MT} {f : PFile} (h : f ∈ dfltFile rest t) :
    f.mt = t ∧ ∀ e ∈ f.entries, e ∈ rest ∧ e.mt = t := by
  unfold dfltFile at h
  split at h
  · simp at h
  · simp only [mem_singleton] at h
    subst h
    exact ⟨rfl, fun e he => by simpa [mem_filter] using he⟩

theorem dfltFile_entries (rest : List Entry) (t : MT) :
    (dfltFile rest t).flatMap (·.entries) = rest.filter (·.mt = t) := by
  unfold dfltFile
  split
  · rename_i h; simp only [flatMap_nil]; exact (isEmpty_iff.1 h).symm
  · simp

theorem filter_mt_perm (rest : List Entry) :
    rest.Perm (rest.filter (·.mt = .exact) ++ (rest.filter (·.mt = .pfx) ++ rest.filter (·.mt = .beg))) := by
  have h1 := (filter_append_perm (fun e : Entry => decide (e.mt = .exact)) rest).symm
  have h2 := (filter_append_perm (fun e : Entry => decide (e.mt = .pfx))
    (rest.filter (fun e => !decide (e.mt = .exact)))).symm
  rw [filter_filter, filter_filter] at h2
  have e1 : rest.filter (fun a => decide (a.mt = .pfx) && !decide (a.mt = .exact)) =
      rest.filter (·.mt = .pfx) := by
    apply filter_congr; intro x _; cases x.mt <;> rfl
  have e2 : rest.filter (fun a => (!decide (a.mt = .pfx)) && !decide (a.mt = .exact)) =
      rest.filter (·.mt = .beg) := by
    apply filter_congr; intro x _; cases x.mt <;> rfl
  rw [e1, e2] at h2
  exact h1.trans (Perm.append_left _ h2)

theorem matchOrder_cases {mo : List MT} (h : mo.Perm [.exact, .pfx, .beg]) :
    mo.contains .exact = true ∧
      (mo.filter (· ≠ .exact) = [.pfx, .beg] ∨ mo.filter (· ≠ .exact) = [.beg, .pfx]) := by
  constructor
  · rw [h.contains_eq]; rfl
  · have hp : (mo.filter (· ≠ .exact)).Perm [.pfx, .beg] := h.filter _
    generalize mo.filter (· ≠ .exact) = l at hp
    have hl := hp.length_eq
    match l, hl with
    | [a, b], _ =>
      have ha : a ∈ [MT.pfx, MT.beg] := hp.mem_iff.1 (by simp)
      have hb : b ∈ [MT.pfx, MT.beg] := hp.mem_iff.1 (by simp)
      have hnd : [a, b].Nodup := hp.nodup_iff.2 (by decide)
      simp only [mem_cons, not_mem_nil, or_false] at ha hb
      rcases ha with rfl | rfl <;> rcases hb with rfl | rfl
      · simp at hnd
      · exact Or.inl rfl
      · exact Or.inr rfl
      · simp at hnd

/-! ### T3 -/

theorem mem_restOf {es : List Entry} (eok : EsOK es) {p : Layout}
    (hmem : ∀ i e, At p i e → e ∈ es) {e : Entry} :
    e ∈ restOf p es ↔ e ∈ es ∧ ¬ ∃ i, At p i e := by
  unfold restOf
  rw [mem_filter]
  constructor
  · rintro ⟨he, hc⟩
    refine ⟨he, ?_⟩
    rintro ⟨i, hi⟩
    have : e.order ∈ (p.flatMap (·.entries)).map (·.order) :=
      mem_map.2 ⟨e, mem_flatMap_iff_at.2 ⟨i, hi⟩, rfl⟩
    simp [this] at hc
  · rintro ⟨he, hn⟩
    refine ⟨he, ?_⟩
    simp only [contains_eq_mem, Bool.not_eq_true', decide_eq_false_iff_not]
    intro hc
    obtain ⟨x, hx, hxo⟩ := mem_map.1 hc
    obtain ⟨i, hi⟩ := mem_flatMap_iff_at.1 hx
    have := eok.ordInj x (hmem i x hi) e he hxo
    subst this
    exact hn ⟨i, hi⟩

theorem restOf_eq {es : List Entry} (eok : EsOK es) {p : Layout}
    (hmem : ∀ i e, At p i e → e ∈ es) :
    restOf p es = es.filter (fun e => !decide (e ∈ p.flatMap (·.entries))) := by
  unfold restOf
  apply filter_congr
  intro e he
  congr 1
  rw [contains_eq_mem]
  apply decide_eq_decide.2
  constructor
  · intro hc
    obtain ⟨x, hx, hxo⟩ := mem_map.1 hc
    obtain ⟨i, hi⟩ := mem_flatMap_iff_at.1 hx
    have := eok.ordInj x (hmem i x hi) e he hxo
    subst this
    exact hx
  · intro hc
    exact mem_map.2 ⟨e, hc, rfl⟩

theorem placed_rest_perm {es : List Entry} (eok : EsOK es) {p : Layout}
    (hmem : ∀ i e, At p i e → e ∈ es) (hnd : (p.flatMap (·.entries)).Nodup) :
    (p.flatMap (·.entries) ++ restOf p es).Perm es := by
  rw [restOf_eq eok hmem]
  refine Perm.trans (Perm.append_right _ ?_) (filter_append_perm (fun e => decide (e ∈ p.flatMap (·.entries))) es)
  apply (perm_ext_iff_of_nodup hnd (eok.nodup.sublist filter_sublist)).2
  intro a
  simp only [mem_filter, decide_eq_true_eq]
  constructor
  · intro ha
    obtain ⟨i, hi⟩ := mem_flatMap_iff_at.1 ha
    exact ⟨hmem i a hi, ha⟩
  · exact fun h => h.2

/-- **T3**: the layout built by the current code is well ordered and is a permutation of the
entries, for every host iteration order and every permitted path-type order -/
theorem layout_wellordered {es : List Entry} (eok : EsOK es) {ho : List Str} (hn : ho.Nodup)
    (hcov : ∀ e ∈ es, e.host ∈ ho) {mo : List MT} (hmo : mo.Perm [.exact, .pfx, .beg]) :
    WellOrdered (layoutV current mo es ho) ∧
      ((layoutV current mo es ho).flatMap (·.entries)).Perm es := by
  have inv := buildPrio_inv eok hn
  obtain ⟨hx, hrest⟩ := matchOrder_cases hmo
  unfold layoutV
  simp only [hx, if_true]
  generalize buildPrio current es ho = prio at inv
  have hmem : ∀ i e, At prio i e → e ∈ es := fun i e h => (inv.mem i e h).1
  have hr := @mem_restOf es eok prio hmem
  generalize hR : restOf prio es = rest at hr
  -- facts on the three kinds of files
  have hprio : ∀ f ∈ prio, f.mt ≠ .exact ∧ ∀ e ∈ f.entries, e.mt = f.mt ∧ ∃ i, At prio i e := by
    intro f hf
    obtain ⟨i, hi⟩ := mem_iff_getElem?.1 hf
    refine ⟨fun h => inv.noExact i ⟨f, hi, h⟩, fun e he => ?_⟩
    have hat : At prio i e := ⟨f, hi, he⟩
    obtain ⟨g, hg, hgt⟩ := inv.typed i e hat
    rw [hi] at hg; cases hg
    exact ⟨hgt.symm, i, hat⟩
  have hdf : ∀ t, ∀ f ∈ dfltFile rest t, f.mt = t ∧ ∀ e ∈ f.entries, e.mt = t ∧ e ∈ es ∧ ¬ ∃ i, At prio i e := by
    intro t f hf
    obtain ⟨h1, h2⟩ := mem_dfltFile hf
    exact ⟨h1, fun e he => ⟨(h2 e he).2, hr.1 (h2 e he).1⟩⟩
  -- a default entry never properly extends a same-host entry that sits elsewhere
  have hback : ∀ e1 e2, e1 ∈ es → (¬ ∃ i, At prio i e1) → e2 ∈ es → e1.host = e2.host →
      e1.mt ≠ .exact → e2.mt ≠ .exact → ext e1 e2 = true → (e1.mt ≠ e2.mt ∨ ∃ j, At prio j e2) → False :=
    fun e1 e2 m1 n1 m2 hh x1 x2 he hor =>
      n1 (inv.placed e1 m1 e2 m2 hh (hcov e1 m1) x1 x2 he hor)
  have hnb_dd : ∀ t t', t ≠ t' → NoBack (dfltFile rest t) (dfltFile rest t') := by
    intro t t' htt f hf g hg e2 h2 e1 h1 hh x1 x2 he
    obtain ⟨_, a2⟩ := hdf t f hf
    obtain ⟨_, a1⟩ := hdf t' g hg
    refine hback e1 e2 (a1 e1 h1).2.1 (a1 e1 h1).2.2 (a2 e2 h2).2.1 hh x1 x2 he (Or.inl ?_)
    rw [(a1 e1 h1).1, (a2 e2 h2).1]; exact Ne.symm htt
  have hnb_xd : ∀ D : Layout, NoBack (dfltFile rest .exact) D := by
    intro D f hf g _ e2 h2 e1 _ _ _ x2 _
    exact x2 ((hdf .exact f hf).2 e2 h2).1
  have hnb_pd : ∀ t, NoBack prio (dfltFile rest t) := by
    intro t f hf g hg e2 h2 e1 h1 hh x1 x2 he
    obtain ⟨_, a1⟩ := hdf t g hg
    obtain ⟨_, a2⟩ := hprio f hf
    obtain ⟨j, hj⟩ := (a2 e2 h2).2
    exact hback e1 e2 (a1 e1 h1).2.1 (a1 e1 h1).2.2 (hmem j e2 hj) hh x1 x2 he (Or.inr ⟨j, hj⟩)
  have hord_prio : Ord prio := by
    intro i j f g e1 e2 hf hg h1 h2
    exact inv.order i j e1 e2 ⟨f, hf, h1⟩ ⟨g, hg, h2⟩
  have hnb_append_right : ∀ {A B C : Layout}, NoBack A B → NoBack A C → NoBack A (B ++ C) := by
    intro A B C h1 h2 f hf g hg
    rcases mem_append.1 hg with h | h
    · exact h1 f hf g h
    · exact h2 f hf g h
  -- the non-exact default files, in either order
  have hD : ∀ a b : MT, a ≠ b → a ≠ .exact → b ≠ .exact →
      let D := dfltFile rest a ++ dfltFile rest b
      Ord D ∧ NoBack (dfltFile rest .exact ++ prio) D ∧ (∀ f ∈ D, f.mt ≠ .exact ∧ ∀ e ∈ f.entries, e.mt = f.mt) := by
    intro a b hab _ _
    refine ⟨ord_append (ord_short (dfltFile_length _ _)) (ord_short (dfltFile_length _ _)) (hnb_dd a b hab),
      noBack_append_left (hnb_xd _) (hnb_append_right (hnb_pd a) (hnb_pd b)), ?_⟩
    intro f hf
    rcases mem_append.1 hf with h | h
    · obtain ⟨h1, h2⟩ := hdf _ f h
      exact ⟨by rw [h1]; assumption, fun e he => by rw [h1]; exact (h2 e he).1⟩
    · obtain ⟨h1, h2⟩ := hdf _ f h
      exact ⟨by rw [h1]; assumption, fun e he => by rw [h1]; exact (h2 e he).1⟩
  have hperm0 := placed_rest_perm eok hmem inv.nodup
  rw [hR] at hperm0
  have hfinal : ∀ D : Layout, Ord D → NoBack (dfltFile rest .exact ++ prio) D →
      (∀ f ∈ D, f.mt ≠ .exact ∧ ∀ e ∈ f.entries, e.mt = f.mt) →
      (D.flatMap (·.entries)).Perm (rest.filter (·.mt = .pfx) ++ rest.filter (·.mt = .beg)) →
      WellOrdered (dfltFile rest .exact ++ prio ++ D) ∧
        ((dfltFile rest .exact ++ prio ++ D).flatMap (·.entries)).Perm es := by
    intro D hDo hDn hDt hDp
    constructor
    · refine ⟨?_, ?_, ?_⟩
      · intro f hf e he
        rcases mem_append.1 hf with h | h
        · rcases mem_append.1 h with h | h
          · obtain ⟨h1, h2⟩ := hdf _ f h
            rw [h1]; exact (h2 e he).1
          · exact ((hprio f h).2 e he).1
        · exact (hDt f h).2 e he
      · intro i f hf hfx
        by_cases hi : i < (dfltFile rest .exact).length
        · have := dfltFile_length rest .exact; omega
        · exfalso
          rw [append_assoc, getElem?_append_right (by omega)] at hf
          rcases mem_append.1 (mem_of_getElem? hf) with h | h
          · exact (hprio f h).1 hfx
          · exact (hDt f h).1 hfx
      · exact ord_append (ord_append (ord_short (dfltFile_length _ _)) hord_prio (hnb_xd _)) hDo hDn
    · simp only [flatMap_append, dfltFile_entries]
      refine Perm.trans ?_ hperm0
      refine Perm.trans ?_ (Perm.append_left _ (filter_mt_perm rest).symm)
      refine (Perm.append_left _ hDp).trans ?_
      generalize rest.filter (·.mt = .exact) = X
      generalize rest.filter (·.mt = .pfx) ++ rest.filter (·.mt = .beg) = Y
      generalize flatMap (·.entries) prio = P
      refine (Perm.append_right Y perm_append_comm).trans ?_
      simp
  rcases hrest with h | h
  · rw [h]
    obtain ⟨d1, d2, d3⟩ := hD .pfx .beg (by decide) (by decide) (by decide)
    simp only [flatMap_cons, flatMap_nil, append_nil]
    exact hfinal _ d1 d2 d3 (by simp [dfltFile_entries])
  · rw [h]
    obtain ⟨d1, d2, d3⟩ := hD .beg .pfx (by decide) (by decide) (by decide)
    simp only [flatMap_cons, flatMap_nil, append_nil]
    exact hfinal _ d1 d2 d3 (by simp only [flatMap_append, dfltFile_entries]; exact perm_append_comm)

end HapVerif.C04
