import HapVerif.Lemmas.C02PairSlots
/-!
# M-Dyn: fault invariant — `updated` survives only if every consumed response was OK
(no hypothesis on the endpoint lists)
-/
namespace HapVerif.C02

/-- `sc` = the whole script, `same` = the initial value of `updated` -/
structure FInv (same : Bool) (sc : List Resp) (s : PairSt) : Prop where
  scr : s.script = sc.drop s.cmds.length
  upd : s.updated = true → same = true ∧ (sc.take s.cmds.length).all Resp.ok = true

section
variable {same : Bool} {sc : List Resp}

theorem FInv.setFalse {s : PairSt} (h : s.script = sc.drop s.cmds.length) :
    FInv same sc { s with updated := false } :=
  ⟨h, fun h => by simp at h⟩

theorem exec_scr {s : PairSt} (c : Cmd) (h : s.script = sc.drop s.cmds.length) :
    (s.exec c).1.script = sc.drop (s.exec c).1.cmds.length := by
  unfold PairSt.exec
  split
  · next hs =>
    simp only [List.length_append, List.length_singleton]
    rw [hs] at h
    have := List.drop_eq_nil_iff.1 h.symm
    show s.script = _
    rw [hs]
    exact (List.drop_eq_nil_iff.2 (by omega)).symm
  · next r rest hs =>
    simp only [List.length_append, List.length_singleton]
    rw [hs] at h
    have hk : s.cmds.length < sc.length := by
      apply Nat.lt_of_not_le
      intro hle
      rw [List.drop_eq_nil_iff.2 hle] at h
      cases h
    rw [List.drop_eq_getElem_cons hk] at h
    injection h with _ h2

theorem exec_ok {s : PairSt} (c : Cmd) (h : FInv same sc s) (hok : (s.exec c).2 = true) :
    FInv same sc (s.exec c).1 := by
  refine ⟨exec_scr c h.scr, ?_⟩
  have hscr := h.scr
  revert hok
  unfold PairSt.exec
  split
  · next hs =>
    intro _ hu
    obtain ⟨h1, h2⟩ := h.upd hu
    refine ⟨h1, ?_⟩
    simp only [List.length_append, List.length_singleton]
    rw [hs] at hscr
    have := List.drop_eq_nil_iff.1 hscr.symm
    rw [List.take_of_length_le (by omega)]
    rw [List.take_of_length_le this] at h2
    exact h2
  · next r rest hs =>
    intro hok hu
    obtain ⟨h1, h2⟩ := h.upd hu
    refine ⟨h1, ?_⟩
    simp only [List.length_append, List.length_singleton]
    rw [hs] at hscr
    have hk : s.cmds.length < sc.length := by
      apply Nat.lt_of_not_le
      intro hle
      rw [List.drop_eq_nil_iff.2 hle] at hscr
      cases hscr
    rw [List.drop_eq_getElem_cons hk] at hscr
    injection hscr with h3 _
    rw [List.take_add_one, List.getElem?_eq_getElem hk, List.all_append, h2, ← h3]
    simpa using hok

theorem chk_F {s : PairSt} (pr : Bool) (o c : EP) (h : FInv same sc s) :
    FInv same sc (finish (checkEndpointPair s pr o c)) := by
  unfold checkEndpointPair finish
  split
  · simpa using h
  · split
    · simpa using FInv.setFalse h.scr
    · simp only
      split
      · exact FInv.setFalse (exec_scr _ h.scr)
      · next hb =>
        apply exec_ok _ h
        simp only [Bool.not_eq_true', Bool.not_eq_false, Bool.and_eq_true] at hb
        exact hb.1.1

theorem disableSt_F {s : PairSt} (o : EP) (h : FInv same sc s) : FInv same sc (disableSt s o) := by
  unfold disableSt
  simp only
  split
  · exact FInv.setFalse (exec_scr _ h.scr)
  · next hb =>
    apply exec_ok _ h
    simp only [Bool.or_eq_true, Bool.not_eq_true', not_or, Bool.not_eq_false] at hb
    exact hb.1

theorem slotSt_F {s : PairSt} (pr : Bool) (a : Nat) (slot : EP) (h : FInv same sc s) :
    FInv same sc (slotSt pr s a slot) := by
  have h1 : FInv same sc { s with cur := setName s.cur a slot.name } := ⟨h.scr, h.upd⟩
  unfold slotSt
  simp only
  split
  · exact FInv.setFalse h1.scr
  · split
    · exact FInv.setFalse (exec_scr _ h1.scr)
    · next hb =>
      apply exec_ok _ h1
      simp only [Bool.or_eq_true, Bool.not_eq_true', not_or, Bool.not_eq_false] at hb
      exact hb.1

theorem walkStep_F (pr : Bool) (w : Walk) (t : String) (h : FInv same sc w.s) :
    FInv same sc (walkStep pr w t).s := by
  cases hf : w.pairs.find? (fun q => decide (q.target = t)) with
  | none => rw [walkStep_none pr w t hf]; exact h
  | some p =>
    cases hc : p.cur with
    | some ci => rw [walkStep_cur pr w t p ci hf hc]; exact chk_F pr _ _ h
    | none =>
      cases ha : w.added with
      | nil => rw [walkStep_disable pr w t p hf hc ha]; exact disableSt_F _ h
      | cons a rest =>
        rw [walkStep_take pr w t p a rest hf hc ha]
        exact chk_F pr _ _ ⟨h.scr, h.upd⟩

theorem addedStep_F (pr : Bool) (empty : List EP) (acc : Option PairSt × Nat) (a : Nat)
    (h : ∀ s, acc.1 = some s → FInv same sc s) :
    ∀ s, (addedStep pr empty acc a).1 = some s → FInv same sc s := by
  obtain ⟨o, k⟩ := acc
  cases o with
  | none => intro s hs; simp [addedStep] at hs
  | some s0 =>
    cases he : empty[k]? with
    | none => intro s hs; simp [addedStep, he] at hs
    | some slot =>
      rw [addedStep_some pr empty s0 k a slot he]
      intro s hs
      simp only [Option.some.injEq] at hs
      subst hs
      exact slotSt_F pr a slot (h s0 rfl)

end

/-- the fault invariant holds for whatever `pairLoop` returns -/
theorem pairLoop_F (old cur : List EP) (pr : Bool) (iw : Int) (same : Bool) (sc : List Resp) (s : PairSt)
    (h : pairLoop old cur pr iw same sc = some s) : FInv same sc s := by
  have hw : FInv same sc (walkEnd old cur pr same sc).s := by
    apply foldl_inv (walkStep pr) (fun w _ => FInv same sc w.s) (fun w t _ h => walkStep_F pr w t h)
    exact ⟨rfl, fun hu => ⟨hu, by simp [walk0]⟩⟩
  have h4 : ∀ s, (stage4 pr (walkEnd old cur pr same sc)).1 = some s → FInv same sc s := by
    apply foldl_inv (addedStep pr _) (fun acc _ => ∀ s, acc.1 = some s → FInv same sc s)
      (fun acc a _ h => addedStep_F pr _ acc a h)
    intro s hs
    simp only [Option.some.injEq] at hs
    subst hs; exact hw
  rw [pairLoop_eq] at h
  simp only at h
  split at h
  · cases h
  · next s' hs' =>
    simp only [Option.some.injEq] at h
    subst h
    have := h4 s' hs'
    exact ⟨this.scr, this.upd⟩

end HapVerif.C02
