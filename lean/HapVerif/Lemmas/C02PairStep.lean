import HapVerif.Lemmas.C02PairAssoc
/-!
# M-Dyn: step equations of `walkStep` / `addedStep` / `checkEndpointPair` / `copyEmpty`
-/
namespace HapVerif.C02

/-- `if !ok { updated = false }` -/
def finish (r : PairSt × Bool) : PairSt := if !r.2 then { r.1 with updated := false } else r.1

/-- the `disable` branch of the walk -/
def disableSt (s : PairSt) (o : EP) : PairSt :=
  let r := s.exec (.disable o.name)
  if !r.2 || o.label ≠ "" then { r.1 with updated := false } else r.1

theorem walkStep_none (pr : Bool) (w : Walk) (t : String)
    (hf : w.pairs.find? (fun q => decide (q.target = t)) = none) : walkStep pr w t = w := by
  unfold walkStep; simp only [hf]

theorem walkStep_cur (pr : Bool) (w : Walk) (t : String) (p : Pair) (ci : Nat)
    (hf : w.pairs.find? (fun q => decide (q.target = t)) = some p) (hc : p.cur = some ci) :
    walkStep pr w t = { w with s := finish (checkEndpointPair w.s pr p.old (w.s.cur.getD ci default)) } := by
  unfold walkStep; simp only [hf, hc]; rfl

theorem walkStep_take (pr : Bool) (w : Walk) (t : String) (p : Pair) (a : Nat) (rest : List Nat)
    (hf : w.pairs.find? (fun q => decide (q.target = t)) = some p) (hc : p.cur = none) (ha : w.added = a :: rest) :
    walkStep pr w t =
      { pairs := setCur w.pairs t a, added := rest, empty := w.empty,
        s := finish (checkEndpointPair { w.s with cur := setName w.s.cur a p.old.name } pr p.old
              ((setName w.s.cur a p.old.name).getD a default)) } := by
  unfold walkStep; simp only [hf, hc, ha]; rfl

theorem walkStep_disable (pr : Bool) (w : Walk) (t : String) (p : Pair)
    (hf : w.pairs.find? (fun q => decide (q.target = t)) = some p) (hc : p.cur = none) (ha : w.added = []) :
    walkStep pr w t = { w with s := disableSt w.s p.old, empty := w.empty ++ [p.old] } := by
  unfold walkStep; simp only [hf, hc, ha]; rfl

/-! ### what one `exec` / `checkEndpointPair` does to the state -/

theorem exec_cur (s : PairSt) (c : Cmd) : (s.exec c).1.cur = s.cur := by
  unfold PairSt.exec; split <;> rfl

theorem exec_updated (s : PairSt) (c : Cmd) : (s.exec c).1.updated = s.updated := by
  unfold PairSt.exec; split <;> rfl

theorem exec_cmds (s : PairSt) (c : Cmd) : (s.exec c).1.cmds = s.cmds ++ [c] := by
  unfold PairSt.exec; split <;> rfl

theorem chk_cur (s : PairSt) (pr : Bool) (o c : EP) : (checkEndpointPair s pr o c).1.cur = s.cur := by
  unfold checkEndpointPair
  split
  · rfl
  · split
    · rfl
    · exact exec_cur _ _

theorem finish_cur (r : PairSt × Bool) : (finish r).cur = r.1.cur := by
  unfold finish; split <;> rfl

theorem disableSt_cur (s : PairSt) (o : EP) : (disableSt s o).cur = s.cur := by
  unfold disableSt; simp only; split <;> simp [exec_cur]

end HapVerif.C02
