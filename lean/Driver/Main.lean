import HapVerif.Drv.Common
import HapVerif.Drv.C01
import HapVerif.Drv.C01Hosts
import HapVerif.Drv.C02
import HapVerif.Drv.C03
import HapVerif.Drv.C04
import HapVerif.Drv.C05
import HapVerif.Drv.C06
import HapVerif.Drv.C07
import HapVerif.Drv.C08
import HapVerif.Drv.C09
import HapVerif.Drv.C10
import HapVerif.Drv.C11
import HapVerif.Drv.C12
import HapVerif.Drv.C13
import HapVerif.Drv.C14
import HapVerif.Drv.C15
import HapVerif.Drv.C16
import HapVerif.Drv.C17
import HapVerif.Drv.C18
import HapVerif.Drv.C19
open HapVerif HapVerif.Drv

/-- one case per line: `<PROP> <args...> => <implementation output>` -/
def dispatch (line : String) : String :=
  let (lhs, impl) := splitOn1 line " => "
  match words lhs with
  | "C01" :: "hosts" :: args => (C01Hosts.handle args impl).render
  | "C01" :: args => (C01.handle args impl).render
  | "C02" :: args => (C02.handle args impl).render
  | "C03" :: args => (C03.handle args impl).render
  | "C04" :: args => (C04.handle args impl).render
  | "C05" :: args => (C05.handle args impl).render
  | "C06" :: args => (C06.handle args impl).render
  | "C07" :: args => (C07.handle args impl).render
  | "C08" :: args => (C08.handle args impl).render
  | "C09" :: args => (C09.handle args impl).render
  | "C10" :: args => (C10.handle args impl).render
  | "C11" :: args => (C11.handle args impl).render
  | "C12" :: args => (C12.handle args impl).render
  | "C13" :: args => (C13.handle args impl).render
  | "C14" :: args => (C14.handle args impl).render
  | "C15" :: args => (C15.handle args impl).render
  | "C16" :: args => (C16.handle args impl).render
  | "C17" :: args => (C17.handle args impl).render
  | "C18" :: args => (C18.handle args impl).render
  | "C19" :: args => (C19.handle args impl).render
  | _ => (bad "unknown-property").render

partial def loop (h : IO.FS.Stream) (out : IO.FS.Stream) : IO Unit := do
  let line ← h.getLine
  if line.isEmpty then return ()
  let l := (line.trimAsciiEnd).toString
  if l.isEmpty then loop h out else
  out.putStrLn (dispatch l)
  loop h out

def main : IO Unit := do
  let out ← IO.getStdout
  loop (← IO.getStdin) out
  out.flush
