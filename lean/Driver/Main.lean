import HapVerif.Drv.Common
import HapVerif.Drv.C16
import HapVerif.Drv.C13
open HapVerif HapVerif.Drv

/-- one case per line: `<PROP> <args...> => <implementation output>` -/
def dispatch (line : String) : String :=
  let (lhs, impl) := splitOn1 line " => "
  match words lhs with
  | "C16" :: args => (C16.handle args impl).render
  | "C13" :: args => (C13.handle args impl).render
  | _ => (bad "unknown-property").render

partial def loop (h : IO.FS.Stream) (out : IO.FS.Stream) : IO Unit := do
  let line ← h.getLine
  if line.isEmpty then return ()
  let l := (line.trimAsciiEnd).toString
  if l.isEmpty then loop h out else
  out.putStrLn (dispatch l)
  loop h out

def main : IO Unit := do
  let out ← IO.getStdout
  loop (← IO.getStdin) out
  out.flush
