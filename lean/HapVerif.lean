import HapVerif.Model.C16
import HapVerif.Drv.C16
