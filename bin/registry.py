# per-property configuration of bin/check: one JSON file per claimed property in registry.d/
import glob, json, os
_D = os.path.join(os.path.dirname(os.path.abspath(__file__)), "registry.d")
COMMON_TRUST = [
    "Lean 4.33 kernel (thorough tier: re-checked by leanchecker); axioms allowed: propext, Classical.choice, Quot.sound",
    "statements in lean/HapVerif/Props/*.lean and Spec/oracle definitions in lean/HapVerif/Model/*.lean",
    "correspondence harness /verif/harness (generators, canonicalisation) and line-protocol driver lean/Driver/Main.lean + lean/HapVerif/Drv/*.lean",
    "go/ast fact extractor /verif/harness/cmd/extract -> lean/HapVerif/Generated/Facts.lean",
]
REGISTRY = {}
for _f in sorted(glob.glob(os.path.join(_D, "C*.json"))):
    REGISTRY[os.path.basename(_f)[:-5]] = json.load(open(_f))
NOT_APPLICABLE = {}
_na = os.path.join(_D, "not_applicable.json")
if os.path.exists(_na):
    NOT_APPLICABLE = json.load(open(_na))
