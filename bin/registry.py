# per-property configuration of bin/check
COMMON_TRUST = [
    "Lean 4.33 kernel (thorough tier: re-checked by leanchecker); axioms allowed: propext, Classical.choice, Quot.sound",
    "statements in lean/HapVerif/Props/*.lean and Spec/oracle definitions in lean/HapVerif/Model/*.lean",
    "correspondence harness /verif/harness (generators, canonicalisation) and line-protocol driver lean/Driver/Main.lean + lean/HapVerif/Drv/*.lean",
    "go/ast fact extractor /verif/harness/cmd/extract -> lean/HapVerif/Generated/Facts.lean",
]

REGISTRY = {
    "C16": {
        "level_text": "Theorems (Lean 4, kernel-checked) about an exact binary32 model of RebalanceWeight and the blue/green clamp: zero-iff for every weight vector/replica vector/initial weight, clamp range, regenerated constants; the model is tied to the Go function bit-exactly by a differential run (quick: ~41k inputs; thorough: exhaustive 2 groups x 0..256 x lengths 0..6 plus 200k random). The Spec (range, zero-iff, order, share) is also evaluated on every implementation output.",
        "level_note": "Trusted: Lean kernel, f32 definition (round-to-nearest-even on rationals), harness, extractor. Int overflow excluded by assumption. Upper bound/order/share of the float model are searched, not yet proved (proved for exact arithmetic).",
        "rule": "corpus of minimised past failures; exhaustive 2 groups x weights (quick: 20 representative values, thorough: 0..256) x lengths 0..3 (thorough 0..6) x 6 initial weights; then random 1..5 groups with coprime/large lengths from VERIF_SEED. non-trivial = RebalanceWeight did not return early (model output differs from the input weights); distinct = distinct input line",
        "exhaustive": {"quick": False, "thorough": False},
        "trusted": ["binary32 semantics as defined by HapVerif.C16.f32 (round to nearest even on rationals, normal range)"],
        "modelled": ["Go int modelled as unbounded Int (assumes 256*lcm(lengths) < 2^63)", "float32 modelled exactly by f32; NaN/Inf of zero-length clusters modelled as 'unspecified' (never read by the callers)",
                     "upper bound 256, order and share clauses are proved for the exact-arithmetic idealisation and only searched (oracle) for the binary32 model"],
        "assumptions": ["no integer overflow in cl.Weight*lcmCount", "callers read the result only for clusters with Length>0 (gateway.go createBackend, backend.go buildBackendBlueGreenBalance)"],
    },
}

NOT_APPLICABLE = {}
