# per-property configuration of bin/check
COMMON_TRUST = [
    "Lean 4.33 kernel (thorough tier: re-checked by leanchecker); axioms allowed: propext, Classical.choice, Quot.sound",
    "statements in lean/HapVerif/Props/*.lean and Spec/oracle definitions in lean/HapVerif/Model/*.lean",
    "correspondence harness /verif/harness (generators, canonicalisation) and line-protocol driver lean/Driver/Main.lean + lean/HapVerif/Drv/*.lean",
    "go/ast fact extractor /verif/harness/cmd/extract -> lean/HapVerif/Generated/Facts.lean",
]

REGISTRY = {
    "C16": {
        "level_text": "Theorems (Lean 4, kernel-checked) about an exact binary32 model of RebalanceWeight and the blue/green clamp: zero-iff for every weight vector/replica vector/initial weight, clamp range, regenerated constants; the model is tied to the Go function bit-exactly by a differential run (quick: ~41k inputs; thorough: exhaustive 2 groups x 0..256 x lengths 0..6 plus 200k random). The Spec (range, zero-iff, order, share) is also evaluated on every implementation output.",
        "level_note": "Trusted: Lean kernel, f32 definition (round-to-nearest-even on rationals), harness, extractor. Int overflow excluded by assumption. Upper bound/order/share of the float model are searched, not yet proved (proved for exact arithmetic).",
        "rule": "corpus of minimised past failures; exhaustive 2 groups x weights (quick: 20 representative values, thorough: 0..256) x lengths 0..3 (thorough 0..6) x 6 initial weights; then random 1..5 groups with coprime/large lengths from VERIF_SEED. non-trivial = RebalanceWeight did not return early (model output differs from the input weights); distinct = distinct input line",
        "exhaustive": {"quick": False, "thorough": False},
        "trusted": ["binary32 semantics as defined by HapVerif.C16.f32 (round to nearest even on rationals, normal range)"],
        "modelled": ["Go int modelled as unbounded Int (assumes 256*lcm(lengths) < 2^63)", "float32 modelled exactly by f32; NaN/Inf of zero-length clusters modelled as 'unspecified' (never read by the callers)",
                     "upper bound 256, order and share clauses are proved for the exact-arithmetic idealisation and only searched (oracle) for the binary32 model"],
        "assumptions": ["no integer overflow in cl.Weight*lcmCount", "callers read the result only for clusters with Length>0 (gateway.go createBackend, backend.go buildBackendBlueGreenBalance)"],
    },
}

REGISTRY["C13"] = {
    "harness": {"kind": "gotest", "go": "go1.26.8", "pkg": "./c13sync", "bin": "c13.test", "run": "TestC13"},
    "level_text": "Theorems (Lean 4, kernel-checked) over ALL arrival patterns of any length: per-kind spacing >= interval (reload and reconcile limiters), coalescing (never more runs than notifications; an arrival while pending is a no-op), liveness (every notification is followed by a run within wait-before-update or exactly one interval after an actual earlier run). The model (limiter functions + 'earliest deadline per item' delaying queue) is tied to the real limiters and the real work queue by a differential run under testing/synctest (virtual clock, exact timestamps): exhaustive subsets of a 12-point grid around the interval boundary plus random bursts/gaps; the Spec is also evaluated on the observed timestamps.",
    "level_note": "Trusted: Lean kernel, harness, client-go delaying queue modelled as 'earliest deadline per item, de-duplicated' (validated by the differential run, not proved). Not modelled: scheduling latency, run duration, the error-retry path (AddAfter bypasses the limiter by design). Arrivals that coincide exactly with a pending deadline are skipped (order undefined).",
    "rule": "corpus; exhaustive subsets (<=4 quick / <=6 thorough) of a 12-point grid around multiples of the interval for the reload limiter; subsets of an 8-point grid x all item assignments for the reconcile limiter; random bursts/gaps/boundary arrivals for random intervals and waits from VERIF_SEED. non-trivial = at least two arrivals and no arrival/deadline tie; distinct = distinct input line",
    "exhaustive": {"quick": False, "thorough": False},
    "trusted": ["client-go workqueue semantics as modelled in HapVerif.C13 (arrive/fire)", "testing/synctest virtual clock (go1.26.8)"],
    "modelled": ["client-go delaying queue = earliest deadline per item; run is instantaneous", "time.Time zero value = 'none'"],
    "assumptions": ["reloads/reconciles succeed (the retry path uses AddAfter and deliberately bypasses the limiter)", "timers fire at their deadline (latency not modelled)"],
}

NOT_APPLICABLE = {}
