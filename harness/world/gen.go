package world

import (
	"fmt"
	"sort"
	"strings"

	metav1 "k8s.io/apimachinery/pkg/apis/meta/v1"

	"hapverif/gen"
)

// GenConfig tunes the random history generator.
type GenConfig struct {
	Namespaces []string
	Hosts      []string
	Paths      []string
	Services   []string
	Secrets    []string
	MaxBatches int
	MaxOps     int  // per batch
	Classes    bool // generate class annotations / IngressClass objects and flips
	Annots     bool // tracer annotations (host level + backend level)
	Pods       bool
	ConfigMap  bool
	Rich       bool // auth (basic/external/oauth), ssl-passthrough, tcp services, cors, whitelist...
	// TCPConfigMap: entries of the --tcp-services-configmap ConfigMap (op `tcp~`) next to the ingresses: set in the
	// first batch or later, entries added / changed / removed, and the crt / CA secrets an entry names appearing,
	// disappearing, renewed or replaced by an unusable one in later batches (no extra draw when false)
	TCPConfigMap bool
}

func DefaultGen() GenConfig {
	return GenConfig{
		Namespaces: []string{"d", "e"},
		Hosts:      []string{"a.local", "b.local", "c.local", ""},
		Paths:      []string{"/", "/a", "/a/b", "/b", "/App"},
		Services:   []string{"app", "api", "web"},
		Secrets:    []string{"tls1", "tls2"},
		MaxBatches: 6, MaxOps: 4, Classes: true, Annots: true,
	}
}

// Gen produces histories. It keeps its own picture of what exists so that most operations are valid.
type Gen struct {
	R   *gen.Rng
	C   GenConfig
	ing map[string]IngressSpec
	svc map[string]bool
	sec map[string]int
	secChain map[string]int // chain variant of the last version of a secret (see ChainStep)
	secKind  map[string]string
	shared int
	cls map[string]string
	ts  int
	tcp []TCPEntry // current entries of the tcp-services ConfigMap
	tcpSet bool    // the ConfigMap object exists
}

func NewGen(r *gen.Rng, c GenConfig) *Gen {
	return &Gen{R: r, C: c, ing: map[string]IngressSpec{}, svc: map[string]bool{}, sec: map[string]int{}, secChain: map[string]int{}, secKind: map[string]string{}, cls: map[string]string{}}
}

const OurController = "haproxy-ingress.github.io/controller"

var svcPorts = []PortSpec{{Name: "http", Port: 80, TargetPort: "8080"}, {Name: "adm", Port: 81, TargetPort: "adm"}}

func (g *Gen) svcOp(ns, name string) string {
	ann := map[string]string{}
	if g.C.Annots && g.R.Chance(1, 4) {
		ann["balance-algorithm"] = gen.Pick(g.R, []string{"leastconn", "roundrobin", "first"})
	}
	act := "+"
	if g.svc[ns+"/"+name] {
		act = "~"
	}
	g.svc[ns+"/"+name] = true
	return fmt.Sprintf("svc%s%s/%s!%s!%s", act, ns, name, portsText(svcPorts), kvText(ann))
}

func (g *Gen) epOp(ns, name string) string {
	n := g.R.Range(0, 3)
	base := map[string]int{"app": 1, "api": 2, "web": 3}[name]
	nsb := map[string]int{"d": 0, "e": 1}[ns]
	var as []AddrSpec
	used := map[int]bool{}
	for i := 0; i < n; i++ {
		k := g.R.Range(1, 4)
		if used[k] {
			continue
		}
		used[k] = true
		as = append(as, AddrSpec{IP: fmt.Sprintf("10.%d.%d.%d", nsb, base, k), Ready: !g.R.Chance(1, 5), Pod: fmt.Sprintf("%s-%d", name, k)})
	}
	return fmt.Sprintf("ep~%s/%s!%s", ns, name, addrsText(as))
}

func (g *Gen) secOp(ns, name string) string {
	key := ns + "/" + name
	act := "+"
	if g.sec[key] > 0 {
		act = "~"
	}
	if act == "~" && g.secKind[key] == "tls" && g.secChain[key] < 9 && g.R.Chance(1, 4) {
		// the same leaf and key with another intermediate chain (see ChainStep)
		g.secChain[key]++
		return fmt.Sprintf("sec~%s!tls!%d!%s", key, g.sec[key]+ChainStep*g.secChain[key], "a.local+b.local")
	}
	g.sec[key]++
	kind := "tls"
	if g.R.Chance(1, 12) {
		kind = "bad"
	}
	g.secKind[key] = kind
	return fmt.Sprintf("sec%s%s!%s!%d!%s", act, key, kind, g.sec[key]+ChainStep*g.secChain[key], "a.local+b.local")
}

func (g *Gen) randomIngress(ns, name string, keep *IngressSpec) IngressSpec {
	r := g.R
	s := IngressSpec{Namespace: ns, Name: name, Annotations: map[string]string{}}
	if keep != nil {
		s.Created = keep.Created
	} else {
		if !r.Chance(1, 5) {
			g.ts++
		}
		s.Created = NewWorld().tickAt(g.ts)
	}
	// class
	if g.C.Classes {
		switch r.Intn(8) {
		case 0:
			v := "other"
			s.ClassAnn = &v
		case 1:
			v := "hap"
			s.ClassName = &v
		case 2:
			v := "foreign"
			s.ClassName = &v
		case 3:
			// unclassified
		default:
			v := "haproxy"
			s.ClassAnn = &v
		}
	} else {
		v := "haproxy"
		s.ClassAnn = &v
	}
	nr := r.Range(0, 2)
	if r.Chance(1, 2) {
		nr = 1
	}
	for i := 0; i < nr; i++ {
		rule := RuleSpec{Host: gen.Pick(r, g.C.Hosts)}
		np := r.Range(1, 2)
		for j := 0; j < np; j++ {
			p := PathSpec{Path: gen.Pick(r, g.C.Paths), Type: gen.Pick(r, []string{"Prefix", "Exact", "ImplementationSpecific", ""}),
				Svc: gen.Pick(r, g.C.Services), Port: gen.Pick(r, []string{"80", "http", "81", "adm", "8080", "9999"})}
			if r.Chance(3, 4) {
				p.Port = gen.Pick(r, []string{"80", "http"})
			}
			rule.Paths = append(rule.Paths, p)
		}
		s.Rules = append(s.Rules, rule)
	}
	if r.Chance(1, 3) {
		t := TLSSpec{Secret: gen.Pick(r, append(g.C.Secrets, "", "missing"))}
		nh := r.Range(1, 2)
		for i := 0; i < nh; i++ {
			h := gen.Pick(r, g.C.Hosts)
			if h != "" {
				t.Hosts = append(t.Hosts, h)
			}
		}
		if len(t.Hosts) > 0 {
			s.TLS = append(s.TLS, t)
		}
	}
	if r.Chance(1, 8) {
		s.DefaultBackend = &PathSpec{Svc: gen.Pick(r, g.C.Services), Port: "80"}
	}
	if g.C.Annots {
		if r.Chance(1, 4) {
			s.Annotations["app-root"] = gen.Pick(r, []string{"/app", "/home"})
		}
		if r.Chance(1, 4) {
			s.Annotations["balance-algorithm"] = gen.Pick(r, []string{"leastconn", "first"})
		}
		if r.Chance(1, 6) {
			s.Annotations["ssl-redirect"] = gen.Pick(r, []string{"true", "false"})
		}
		if r.Chance(1, 8) {
			s.Annotations["maxconn-server"] = gen.Pick(r, []string{"10", "20"})
		}
	}
	if g.C.Rich {
		switch r.Intn(14) {
		case 0:
			s.Annotations["auth-type"] = "basic"
			s.Annotations["auth-secret"] = gen.Pick(r, []string{"pw1", "pw1", "missing", "e/pw1"})
		case 1:
			s.Annotations["auth-url"] = gen.Pick(r, []string{"http://10.9.9.9:8000/auth", "svc://" + gen.Pick(r, g.C.Services) + ":80/auth", "svc://nosuch:80", "bad://x", "::"})
			if r.Bool() {
				s.Annotations["auth-external-placement"] = gen.Pick(r, []string{"backend", "frontend"})
			}
		case 2:
			s.Annotations["oauth"] = "oauth2_proxy"
		case 3:
			s.Annotations["ssl-passthrough"] = "true"
			if r.Bool() {
				s.Annotations["ssl-passthrough-http-port"] = gen.Pick(r, []string{"80", "81", "9999"})
			}
		case 4:
			s.Annotations["tcp-service-port"] = gen.Pick(r, []string{"7000", "7001"})
		case 5:
			s.Annotations["cors-enable"] = "true"
		case 6:
			s.Annotations["allowlist-source-range"] = "10.0.0.0/8"
		case 7:
			s.Annotations["auth-tls-secret"] = gen.Pick(r, []string{"ca1", "missing", "tls1"})
		case 8:
			s.Annotations["secure-backends"] = "true"
			if r.Bool() {
				s.Annotations["secure-verify-ca-secret"] = gen.Pick(r, []string{"ca1", "missing"})
			}
		case 9:
			s.Annotations["redirect-to"] = "https://other.local/x"
		case 10:
			s.Annotations["server-alias"] = gen.Pick(r, []string{"alias.local", "b.local"})
		case 11:
			s.Annotations["blue-green-deploy"] = "group=blue=1,group=green=1"
		case 12:
			s.Annotations["affinity"] = "cookie"
			s.Annotations["session-cookie-name"] = "srv"
			if r.Bool() {
				s.Annotations["session-cookie-preserve"] = "true"
				s.Annotations["session-cookie-value-strategy"] = gen.Pick(r, []string{"pod-uid", "server-name"})
				if s.Annotations["session-cookie-value-strategy"] == "pod-uid" && r.Bool() {
					// static cookies are rendered on the server lines (the default, dynamic cookies, renders none);
					// with pod-uid the value does not depend on the slot a server got
					s.Annotations["session-cookie-dynamic"] = "false"
				}
			}
		case 13:
			createTimeAnnotations(r, &s)
		}
	}
	return s
}

func (w *World) tickAt(ts int) metav1.Time { return metav1.NewTime(epoch.Add(secs(ts))) }

// History generates a whole history as op texts, batches separated by "sync".
func (g *Gen) History() []string {
	r := g.R
	var ops []string
	// base objects, first batch
	for _, ns := range g.C.Namespaces {
		for _, s := range g.C.Services {
			if r.Chance(5, 6) {
				ops = append(ops, g.svcOp(ns, s), g.epOp(ns, s))
			}
		}
		for _, s := range g.C.Secrets {
			if r.Chance(3, 4) {
				ops = append(ops, g.secOp(ns, s))
			}
		}
	}
	if g.C.Rich {
		for _, ns := range g.C.Namespaces {
			if r.Chance(3, 4) {
				ops = append(ops, fmt.Sprintf("sec+%s/pw1!passwd!1!-", ns), fmt.Sprintf("sec+%s/ca1!ca!1!-", ns))
			}
		}
		if g.C.ConfigMap || r.Chance(1, 2) {
			ops = append(ops, "cm~"+gen.Pick(r, []string{"-", "strict-host=true", "auth-proxy=_front_auth:14415-14416", "external-has-lua=true", "strict-host=true;external-has-lua=true", "drain-support=true"}))
		}
	}
	if g.C.Classes {
		ops = append(ops, "cls+hap:"+OurController, "cls+foreign:example.com/other")
		g.cls["hap"], g.cls["foreign"] = OurController, "example.com/other"
	}
	n0 := r.Range(0, 4)
	for i := 0; i < n0; i++ {
		ops = append(ops, g.ingOp())
	}
	if g.C.TCPConfigMap {
		for _, ns := range g.C.Namespaces {
			if g.sec[ns+"/ca1"] == 0 && r.Chance(1, 2) {
				g.sec[ns+"/ca1"], g.secKind[ns+"/ca1"] = 1, "ca"
				ops = append(ops, fmt.Sprintf("sec+%s/ca1!ca!1!-", ns))
			}
		}
		if r.Chance(2, 3) {
			ops = append(ops, g.TCPOp())
			if r.Chance(1, 2) {
				ops = append(ops, g.TCPOp())
			}
		}
	}
	ops = append(ops, "sync")
	nb := r.Range(1, g.C.MaxBatches)
	for b := 0; b < nb; b++ {
		no := r.Range(1, g.C.MaxOps)
		for i := 0; i < no; i++ {
			ops = append(ops, g.randomOp())
		}
		ops = append(ops, "sync")
	}
	return ops
}

func (g *Gen) ingNames() []string {
	ks := make([]string, 0, len(g.ing))
	for k := range g.ing {
		ks = append(ks, k)
	}
	sort.Strings(ks)
	return ks
}

func (g *Gen) ingOp() string {
	r := g.R
	names := g.ingNames()
	if len(names) > 0 && r.Chance(1, 2) {
		key := gen.Pick(r, names)
		old := g.ing[key]
		if r.Chance(1, 4) {
			delete(g.ing, key)
			return "ing-" + key
		}
		s := g.randomIngress(old.Namespace, old.Name, &old)
		g.ing[key] = s
		return "ing~" + IngressText(s)
	}
	ns := gen.Pick(r, g.C.Namespaces)
	name := fmt.Sprintf("i%d", r.Range(1, 5))
	key := ns + "/" + name
	if old, ok := g.ing[key]; ok {
		s := g.randomIngress(ns, name, &old)
		g.ing[key] = s
		return "ing~" + IngressText(s)
	}
	s := g.randomIngress(ns, name, nil)
	g.ing[key] = s
	return "ing+" + IngressText(s)
}

func (g *Gen) randomOp() string {
	r := g.R
	ns := gen.Pick(r, g.C.Namespaces)
	if g.C.TCPConfigMap && r.Chance(1, 3) {
		if len(g.tcp) > 0 && r.Chance(3, 5) {
			return g.TCPSecretOp()
		}
		return g.TCPOp()
	}
	switch r.Intn(12) {
	case 0, 1:
		return g.epOp(ns, gen.Pick(r, g.C.Services))
	case 2:
		s := gen.Pick(r, g.C.Services)
		if g.svc[ns+"/"+s] && r.Chance(1, 3) {
			delete(g.svc, ns+"/"+s)
			return "svc-" + ns + "/" + s
		}
		return g.svcOp(ns, s)
	case 3:
		s := gen.Pick(r, g.C.Secrets)
		if g.sec[ns+"/"+s] > 0 && r.Chance(1, 3) {
			delete(g.sec, ns+"/"+s)
			return "sec-" + ns + "/" + s
		}
		return g.secOp(ns, s)
	case 4:
		if g.C.Classes {
			if _, ok := g.cls["hap"]; ok && r.Chance(1, 2) {
				delete(g.cls, "hap")
				return "cls-hap"
			}
			g.cls["hap"] = gen.Pick(r, []string{OurController, OurController, "example.com/other"})
			return "cls+hap:" + g.cls["hap"]
		}
		return g.ingOp()
	default:
		return g.ingOp()
	}
}

// RequestsFor derives the request set and SNI names from everything ever named in a history.
func RequestsFor(ops []string) (reqs []Request, snis []string) {
	hosts := map[string]bool{"unknown.local": true}
	paths := map[string]bool{"/": true}
	for _, o := range ops {
		if !(strings.HasPrefix(o, "ing+") || strings.HasPrefix(o, "ing~")) {
			continue
		}
		s, err := ParseIngress(o[4:])
		if err != nil {
			continue
		}
		for _, r := range s.Rules {
			if r.Host != "" {
				hosts[r.Host] = true
			}
			for _, p := range r.Paths {
				pp := p.Path
				if pp == "" {
					pp = "/"
				}
				for _, v := range []string{pp, pp + "x", strings.TrimSuffix(pp, "/") + "/", strings.TrimSuffix(pp, "/") + "/x", strings.ToLower(pp), strings.ToUpper(pp)} {
					paths[v] = true
				}
			}
		}
		for _, t := range s.TLS {
			for _, h := range t.Hosts {
				hosts[h] = true
			}
		}
		// an alias answers requests of its own domain (seed C06e)
		if a := s.Annotations["server-alias"]; a != "" {
			hosts[a] = true
		}
		// a redirect-from domain is answered with a redirect to the host that declares it
		if a := s.Annotations["redirect-from"]; a != "" {
			hosts[a] = true
		}
	}
	for _, h := range SortedKeys(hosts) {
		snis = append(snis, h)
		for _, p := range SortedKeys(paths) {
			reqs = append(reqs, Request{TLS: false, Host: h, Path: p}, Request{TLS: true, Host: h, Path: p})
		}
	}
	return reqs, snis
}

// SharedSecOps rotates one secret name in EVERY namespace to the same new content in one go (a wildcard
// certificate replicated into several namespaces and renewed everywhere at once).
func (g *Gen) SharedSecOps() []string {
	name := gen.Pick(g.R, g.C.Secrets)
	g.shared++
	var ops []string
	for _, ns := range g.C.Namespaces {
		key := ns + "/" + name
		act := "+"
		if g.sec[key] > 0 {
			act = "~"
		}
		g.sec[key]++
		ops = append(ops, fmt.Sprintf("sec%s%s!tls!%d!%s", act, key, SharedVersion+g.shared, "a.local+b.local"))
	}
	return ops
}

// ChurnOp is an endpoint / secret change of an existing object (what dynamic updates are made of).
func (g *Gen) ChurnOp() string {
	r := g.R
	ns := gen.Pick(r, g.C.Namespaces)
	if r.Chance(1, 4) {
		return g.secOp(ns, gen.Pick(r, g.C.Secrets))
	}
	return g.epOp(ns, gen.Pick(r, g.C.Services))
}

// createTimeAnnotations: the three backend settings that addBackendWithClass reads only when the backend object is
// CREATED, from whoever creates it first (service-upstream, initial-weight, backend-server-naming): the result
// depends on the order in which the declarations of a backend are processed (seed C06d).
func createTimeAnnotations(r *gen.Rng, s *IngressSpec) {
	switch r.Intn(3) {
	case 0:
		s.Annotations["service-upstream"] = "true"
	case 1:
		s.Annotations["initial-weight"] = gen.Pick(r, []string{"50", "100"})
	case 2:
		s.Annotations["backend-server-naming"] = gen.Pick(r, []string{"ip", "pod"})
	}
}

// CreateTimeAnnotations is createTimeAnnotations for generators outside this package.
func CreateTimeAnnotations(r *gen.Rng, s *IngressSpec) { createTimeAnnotations(r, s) }

var tcpPublicPorts = []string{"5432", "5433", "5434"}

func (g *Gen) randomTCPEntry(port string) TCPEntry {
	r := g.R
	ns := gen.Pick(r, g.C.Namespaces)
	e := TCPEntry{Port: port, Svc: ns + "/" + gen.Pick(r, g.C.Services), SvcPort: gen.Pick(r, []string{"80", "http", "80", "81", "adm", "8080", "9999"})}
	if r.Chance(1, 4) {
		e.InProxy = gen.Pick(r, []string{"PROXY", "proxy", "x"})
	}
	if r.Chance(1, 4) {
		e.OutProxy = gen.Pick(r, []string{"PROXY", "PROXY-V1", "PROXY-V2", "proxy-v1"})
	}
	sns := gen.Pick(r, g.C.Namespaces)
	if r.Chance(2, 3) {
		e.Crt = sns + "/" + gen.Pick(r, append(append([]string(nil), g.C.Secrets...), "missing"))
	}
	if r.Chance(1, 8) {
		e.Check = gen.Pick(r, []string{"-", "5s", "bad"})
	}
	if r.Chance(1, 3) {
		e.CA = sns + "/" + gen.Pick(r, []string{"ca1", "ca1", "missing", g.C.Secrets[0]})
	}
	return e
}

// TCPOp sets the tcp-services ConfigMap: one entry added, replaced or removed (the op carries the whole data)
func (g *Gen) TCPOp() string {
	r := g.R
	port := gen.Pick(r, tcpPublicPorts)
	idx := -1
	for i, e := range g.tcp {
		if e.Port == port {
			idx = i
		}
	}
	switch {
	case idx >= 0 && r.Chance(1, 3):
		g.tcp = append(g.tcp[:idx:idx], g.tcp[idx+1:]...)
	case idx >= 0:
		g.tcp[idx] = g.randomTCPEntry(port)
	default:
		g.tcp = append(g.tcp, g.randomTCPEntry(port))
		sort.Slice(g.tcp, func(i, j int) bool { return g.tcp[i].Port < g.tcp[j].Port })
	}
	g.tcpSet = true
	return TCPOpText(g.tcp)
}

// TCPSecretOp changes a secret that an entry of the tcp-services ConfigMap names (crt or CA): it appears (usable or
// not), disappears, is renewed, or is replaced by a secret without the keys the entry needs
func (g *Gen) TCPSecretOp() string {
	r := g.R
	type ref struct{ key, kind string }
	var refs []ref
	for _, e := range g.tcp {
		if e.Crt != "" {
			refs = append(refs, ref{e.Crt, "tls"})
		}
		if e.CA != "" {
			refs = append(refs, ref{e.CA, "ca"})
		}
	}
	if len(refs) == 0 {
		return g.TCPOp()
	}
	x := gen.Pick(r, refs)
	if g.sec[x.key] > 0 && r.Chance(2, 5) {
		delete(g.sec, x.key)
		delete(g.secKind, x.key)
		return "sec-" + x.key
	}
	act := "+"
	if g.sec[x.key] > 0 {
		act = "~"
	}
	g.sec[x.key]++
	kind := x.kind
	if r.Chance(1, 4) {
		kind = gen.Pick(r, []string{"bad", "tls", "ca"})
	}
	g.secKind[x.key] = kind
	dns := "-"
	if kind == "tls" {
		dns = "a.local+b.local"
	}
	return fmt.Sprintf("sec%s%s!%s!%d!%s", act, x.key, kind, g.sec[x.key]+ChainStep*g.secChain[x.key], dns)
}
