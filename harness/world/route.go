package world

import (
	"strings"
)

// Request to evaluate against a loaded configuration.
type Request struct {
	TLS  bool
	Host string // Host header (also used as SNI)
	Path string
}

// Decision is what the frontends do with a request.
type Decision struct {
	Frontend    string
	Backend     string   // proxy chosen by use_backend / default_backend ("" = none)
	Terminal    string   // a frontend http-request action ended the request (redirect/deny/...) before routing
	Unsupported []string // directives/expressions the evaluator does not interpret (case is skipped by the checks)
	Vars        map[string]string
}

type evalCtx struct {
	cfg  *Config
	req  Request
	vars map[string]string
	acls map[string][][]string // named acls of the section (name -> list of definitions)
	dec  *Decision
	maps map[string]*MapFile
}

func (e *evalCtx) unsupported(what string) {
	for _, u := range e.dec.Unsupported {
		if u == what {
			return
		}
	}
	e.dec.Unsupported = append(e.dec.Unsupported, what)
}

func (e *evalCtx) loadMap(file string) *MapFile {
	if m, ok := e.maps[file]; ok {
		return m
	}
	m := ReadMap(file)
	e.maps[file] = m
	return m
}

// HAProxy pattern matching of maps (trusted semantics, same as the Lean Spec)
func matchWord(pat, sample string) bool {
	p := strings.Trim(pat, "/")
	if p == "" {
		return false
	}
	may := true
	for i := 0; i < len(sample); i++ {
		if sample[i] == '/' {
			may = true
			continue
		}
		if !may {
			continue
		}
		if strings.HasPrefix(sample[i:], p) && (i+len(p) == len(sample) || sample[i+len(p)] == '/') {
			return true
		}
		may = false
	}
	return false
}

func (m *MapFile) lookup(method, sample string) (string, bool) {
	switch method {
	case "str":
		for _, kv := range m.Entries {
			if kv[0] == sample {
				return kv[1], true
			}
		}
	case "beg":
		best := -1
		val := ""
		for _, kv := range m.Entries {
			if strings.HasPrefix(sample, kv[0]) && len(kv[0]) > best {
				best, val = len(kv[0]), kv[1]
			}
		}
		return val, best >= 0
	case "dir":
		for _, kv := range m.Entries {
			if matchWord(kv[0], sample) {
				return kv[1], true
			}
		}
	case "reg":
		return "", false // regex maps are not interpreted; callers flag them
	}
	return "", false
}

// evalExpr evaluates a sample expression `fetch,conv,conv...`; ok=false means "no value"
func (e *evalCtx) evalExpr(expr string) (string, bool) {
	parts := splitTop(expr, ',')
	if len(parts) == 0 {
		return "", false
	}
	var val string
	ok := true
	f := parts[0]
	switch {
	case f == "path":
		val = e.req.Path
	case f == "hdr(host)":
		val = e.req.Host
	case f == "ssl_fc_sni":
		val = e.req.Host
		ok = e.req.TLS
	case strings.HasPrefix(f, "var(") && strings.HasSuffix(f, ")"):
		val, ok = e.vars[f[4:len(f)-1]]
	case strings.HasPrefix(f, "str(") && strings.HasSuffix(f, ")"):
		val = f[4 : len(f)-1]
	default:
		e.unsupported("fetch " + f)
		return "", false
	}
	for _, c := range parts[1:] {
		if !ok {
			return "", false
		}
		switch {
		case c == "lower":
			val = strings.ToLower(val)
		case c == "field(1,:)":
			if i := strings.Index(val, ":"); i >= 0 {
				val = val[:i]
			}
		case strings.HasPrefix(c, "concat(") && strings.HasSuffix(c, ")"):
			args := splitTop(c[7:len(c)-1], ',')
			if len(args) > 0 {
				val += args[0]
			}
			if len(args) > 1 && args[1] != "" {
				if v, found := e.vars[args[1]]; found {
					val += v
				}
			}
			if len(args) > 2 {
				val += args[2]
			}
		case strings.HasPrefix(c, "map_") && strings.HasSuffix(c, ")"):
			i := strings.Index(c, "(")
			method := c[4:i]
			args := splitTop(c[i+1:len(c)-1], ',')
			m := e.loadMap(args[0])
			if m.Missing {
				e.unsupported("missing map " + args[0])
			}
			if method == "reg" {
				if len(m.Entries) > 0 {
					e.unsupported("map_reg")
				}
				ok = false
				continue
			}
			val, ok = m.lookup(method, val)
			if !ok && len(args) > 1 {
				val, ok = args[1], true
			}
		default:
			e.unsupported("converter " + c)
			return "", false
		}
	}
	return val, ok
}

// splitTop splits on sep outside parentheses
func splitTop(s string, sep byte) []string {
	var res []string
	depth, start := 0, 0
	for i := 0; i < len(s); i++ {
		switch s[i] {
		case '(':
			depth++
		case ')':
			depth--
		default:
			if s[i] == sep && depth == 0 {
				res = append(res, s[start:i])
				start = i + 1
			}
		}
	}
	return append(res, s[start:])
}

// evalCond evaluates `if`/`unless` conditions made of anonymous acls `{ ... }`, `!`, named acls; AND only (|| unsupported)
func (e *evalCtx) evalCond(toks []string) (result bool, known bool) {
	if len(toks) == 0 {
		return true, true
	}
	neg := false
	if toks[0] == "unless" {
		neg = true
	} else if toks[0] != "if" {
		e.unsupported("condition " + strings.Join(toks, " "))
		return false, false
	}
	res := true
	i := 1
	for i < len(toks) {
		not := false
		t := toks[i]
		if t == "||" || t == "or" {
			e.unsupported("or-condition")
			return false, false
		}
		if strings.HasPrefix(t, "!") {
			not = true
			t = t[1:]
			if t == "" {
				i++
				if i >= len(toks) {
					return false, false
				}
				t = toks[i]
			}
		}
		var v, k bool
		if t == "{" {
			j := i + 1
			for j < len(toks) && toks[j] != "}" {
				j++
			}
			v, k = e.evalACL(toks[i+1 : j])
			i = j + 1
		} else if strings.HasPrefix(t, "{") {
			e.unsupported("acl syntax " + t)
			return false, false
		} else {
			v, k = e.evalNamedACL(t)
			i++
		}
		if !k {
			return false, false
		}
		if not {
			v = !v
		}
		res = res && v
	}
	if neg {
		res = !res
	}
	return res, true
}

func (e *evalCtx) evalNamedACL(name string) (bool, bool) {
	switch name {
	case "TRUE":
		return true, true
	case "FALSE":
		return false, true
	}
	defs, ok := e.acls[name]
	if !ok {
		e.unsupported("acl " + name)
		return false, false
	}
	for _, d := range defs { // several definitions of one name are OR-ed
		v, k := e.evalACL(d)
		if !k {
			return false, false
		}
		if v {
			return true, true
		}
	}
	return false, true
}

// evalACL: `<expr> [-i] [-m <method>] [-f file | patterns...]`
func (e *evalCtx) evalACL(toks []string) (bool, bool) {
	if len(toks) == 0 {
		return false, false
	}
	switch toks[0] {
	case "ssl_fc":
		return e.req.TLS, true
	case "ssl_fc_has_sni":
		return e.req.TLS && e.req.Host != "", true
	case "always_true":
		return true, true
	case "always_false":
		return false, true
	}
	val, has := e.evalExpr(toks[0])
	method := "str"
	icase := false
	var pats []string
	file := ""
	for i := 1; i < len(toks); i++ {
		switch toks[i] {
		case "-i":
			icase = true
		case "-m":
			i++
			if i < len(toks) {
				method = toks[i]
			}
		case "-f":
			i++
			if i < len(toks) {
				file = toks[i]
			}
		case "--":
		default:
			pats = append(pats, toks[i])
		}
	}
	if toks[0] == "path" && len(toks) > 1 && method == "str" && file == "" {
		// `path /` form
	}
	if method == "found" {
		return has, true
	}
	if !has {
		return false, true
	}
	if file != "" {
		m := e.loadMap(file)
		if m.Missing {
			e.unsupported("missing list " + file)
		}
		for _, kv := range m.Entries {
			pats = append(pats, kv[0])
		}
	}
	if icase {
		val = strings.ToLower(val)
	}
	for _, p := range pats {
		if icase {
			p = strings.ToLower(p)
		}
		switch method {
		case "str":
			if val == p {
				return true, true
			}
		case "beg":
			if strings.HasPrefix(val, p) {
				return true, true
			}
		case "dir":
			if matchWord(p, val) {
				return true, true
			}
		case "end":
			if strings.HasSuffix(val, p) {
				return true, true
			}
		case "reg":
			e.unsupported("acl -m reg")
			return false, false
		default:
			e.unsupported("acl -m " + method)
			return false, false
		}
	}
	return false, true
}

func splitCond(l []string) (body, cond []string) {
	for i, t := range l {
		if t == "if" || t == "unless" {
			return l[:i], l[i:]
		}
	}
	return l, nil
}

// Route evaluates the HTTP or HTTPS frontend for a request.
func (c *Config) Route(req Request) *Decision {
	name := "_front_http"
	if req.TLS {
		name = "_front_https"
	}
	d := &Decision{Frontend: name, Vars: map[string]string{}}
	fe, ok := c.Frontends[name]
	if !ok {
		if li, ok2 := c.Listens[name]; ok2 {
			fe = li
		} else {
			d.Unsupported = append(d.Unsupported, "no frontend "+name)
			return d
		}
	}
	if _, pass := c.Frontends["_front__tls"]; pass && req.TLS {
		d.Unsupported = append(d.Unsupported, "ssl-passthrough frontend")
	}
	if _, pass := c.Listens["_front__tls"]; pass && req.TLS {
		d.Unsupported = append(d.Unsupported, "ssl-passthrough frontend")
	}
	e := &evalCtx{cfg: c, req: req, vars: d.Vars, acls: map[string][][]string{}, dec: d, maps: map[string]*MapFile{}}
	for _, l := range fe.Lines {
		if l[0] == "acl" && len(l) >= 3 {
			e.acls[l[1]] = append(e.acls[l[1]], l[2:])
		}
	}
	// http-request rules in order
	for _, l := range fe.Lines {
		if l[0] != "http-request" || len(l) < 2 {
			continue
		}
		body, cond := splitCond(l[1:])
		act := body[0]
		switch {
		case strings.HasPrefix(act, "set-var(") && len(body) >= 2:
			v, k := e.evalCond(cond)
			if !k {
				continue
			}
			if v {
				varname := act[8 : len(act)-1]
				if val, ok := e.evalExpr(body[1]); ok {
					e.vars[varname] = val
				} else {
					delete(e.vars, varname)
				}
			}
		case act == "set-header" || act == "del-header" || act == "add-header" || act == "capture" || act == "set-src" || strings.HasPrefix(act, "set-var-fmt(") || act == "track-sc0" || act == "track-sc1":
			// no influence on routing
		case act == "redirect" || act == "deny" || act == "return" || act == "use-service" || act == "tarpit" || act == "reject" || act == "auth" || strings.HasPrefix(act, "lua."):
			v, k := e.evalCond(cond)
			if !k {
				continue
			}
			if v {
				d.Terminal = strings.Join(body, " ")
				return d
			}
		default:
			e.unsupported("http-request " + act)
		}
	}
	for _, l := range fe.Lines {
		switch l[0] {
		case "use_backend":
			body, cond := splitCond(l[1:])
			v, k := e.evalCond(cond)
			if !k || !v || len(body) == 0 {
				continue
			}
			target := body[0]
			if strings.HasPrefix(target, "%[var(") && strings.HasSuffix(target, ")]") {
				val, ok := e.vars[target[6:len(target)-2]]
				if !ok || val == "" {
					continue // unresolved dynamic backend: rule is skipped
				}
				if !c.HasBackend(val) {
					continue // HAProxy ignores a use_backend rule resolving to an unknown proxy
				}
				d.Backend = val
				return d
			}
			d.Backend = target
			return d
		}
	}
	for _, l := range fe.Lines {
		if l[0] == "default_backend" && len(l) > 1 {
			d.Backend = l[1]
			return d
		}
	}
	return d
}

// SNI lookup in a crt-list with HAProxy's rules: exact filter, then wildcard filter, then the
// default certificate (first line). Negative filters only exclude.
func CrtFor(list []CrtEntry, sni string) string {
	sni = strings.ToLower(sni)
	for _, e := range list {
		for _, f := range e.Filters {
			if !strings.HasPrefix(f, "!") && !strings.HasPrefix(f, "*") && strings.ToLower(f) == sni {
				return e.File
			}
		}
	}
	if i := strings.Index(sni, "."); i > 0 {
		wild := "*" + sni[i:]
		for _, e := range list {
			for _, f := range e.Filters {
				if strings.ToLower(f) == wild {
					return e.File
				}
			}
		}
	}
	if len(list) > 0 {
		return list[0].File
	}
	return ""
}
