package world

import (
	"crypto/sha1"
	"fmt"
	"os"
	"path/filepath"
	"regexp"
	"sort"
	"strings"
)

// Snapshot is the semantic normal form of the files a pipeline wrote: what HAProxy would do after
// loading them, with internal labels (directory names, server slot names, empty slots, path ids,
// priority-file suffixes) factored out.
type Snapshot struct {
	Routes   map[string]string   // request -> decision (backend or terminal action; + path policy id)
	Servers  map[string][]string // backend -> sorted enabled servers "addr:port=w<N>|drain"
	Backends map[string][]string // backend -> canonical non-server lines
	Crt      map[string]string   // sni -> certificate identity (file base name + content hash)
	Static   []string            // global/defaults/frontends/userlists static text
	Problems []string            // load problems (C07): dangling references, duplicates
	Skipped  []string            // constructs the evaluator does not interpret
}

var pathIDRe = regexp.MustCompile(`\bpath[0-9][0-9]+\b`)

func (p *Pipeline) norm(s string) string {
	return strings.ReplaceAll(s, p.Dir, "$DIR")
}

func reqKey(r Request) string {
	proto := "http"
	if r.TLS {
		proto = "https"
	}
	return proto + "://" + r.Host + r.Path
}

// pathIDs of a backend: id -> canonical name (sorted keys of the id maps with their match method)
func backendPathIDs(cfg *Config, sec *Section) map[string]string {
	ids := map[string][]string{}
	for _, l := range sec.Lines {
		for _, t := range l {
			for _, conv := range splitTop(t, ',') {
				if strings.HasPrefix(conv, "map_") && strings.HasSuffix(conv, ")") {
					i := strings.Index(conv, "(")
					method := conv[4:i]
					file := splitTop(conv[i+1:len(conv)-1], ',')[0]
					for _, kv := range ReadMap(file).Entries {
						if pathIDRe.MatchString(kv[1]) {
							ids[kv[1]] = append(ids[kv[1]], method+":"+kv[0])
						}
					}
				}
			}
		}
	}
	res := map[string]string{}
	for id, keys := range ids {
		sort.Strings(keys)
		res[id] = "<" + strings.Join(keys, "|") + ">"
	}
	return res
}

func containsMapRef(l []string) bool {
	for _, t := range l {
		if strings.Contains(t, "map_") && strings.Contains(t, "(") {
			return true
		}
	}
	return false
}

// Snapshot evaluates the files on disk for the given requests and SNI names.
func (p *Pipeline) Snapshot(reqs []Request, snis []string) *Snapshot {
	s := &Snapshot{Routes: map[string]string{}, Servers: map[string][]string{}, Backends: map[string][]string{}, Crt: map[string]string{}}
	cfg, err := LoadConfig(p.CfgDir)
	if err != nil {
		s.Problems = append(s.Problems, "load: "+err.Error())
		return s
	}
	skipped := map[string]bool{}
	s.Problems = append(s.Problems, Lint(cfg)...)
	// backends
	for _, name := range SortedKeys(cfg.Backends) {
		sec := cfg.Backends[name]
		ids := backendPathIDs(cfg, sec)
		var srvs []string
		for _, x := range serversOf(sec) {
			if x.State == "maint" {
				continue
			}
			w := "w" + fmt.Sprint(x.Weight)
			if x.Weight == 0 {
				w = "drain"
			}
			srvs = append(srvs, fmt.Sprintf("%s:%d=%s", x.Addr, x.Port, w))
		}
		sort.Strings(srvs)
		s.Servers[name] = srvs
		var lines []string
		for _, l := range sec.Lines {
			if l[0] == "server" || containsMapRef(l) {
				continue
			}
			txt := p.norm(strings.Join(l, " "))
			txt = pathIDRe.ReplaceAllStringFunc(txt, func(id string) string {
				if c, ok := ids[id]; ok {
					return c
				}
				return id
			})
			lines = append(lines, txt)
		}
		s.Backends[name] = lines
	}
	// routes (+ the path id the chosen backend resolves for the request)
	for _, r := range reqs {
		d := cfg.Route(r)
		for _, u := range d.Unsupported {
			skipped[u] = true
		}
		res := d.Backend
		if d.Terminal != "" {
			res = "terminal:" + p.norm(d.Terminal)
		} else if sec, ok := cfg.Backends[d.Backend]; ok {
			if id := backendPathID(cfg, sec, r, d, skipped); id != "" {
				res += " " + id
			}
		}
		// other frontend variables computed from maps (namespace, redirects, ...)
		var extra []string
		for _, k := range SortedKeys(d.Vars) {
			switch k {
			case "req.path", "req.host", "req.base", "req.backend", "req.hostbackend", "req.defaultbackend":
			default:
				extra = append(extra, k+"="+d.Vars[k])
			}
		}
		if len(extra) > 0 {
			res += " {" + strings.Join(extra, ",") + "}"
		}
		s.Routes[reqKey(r)] = res
	}
	// certificates per SNI
	for _, fe := range cfg.allProxies() {
		for _, l := range fe.Lines {
			if l[0] != "bind" {
				continue
			}
			for i := 1; i+1 < len(l); i++ {
				if l[i] == "crt-list" && strings.Contains(l[i+1], "_front_bind_crt") {
					list := ReadCrtList(l[i+1])
					for _, sni := range snis {
						s.Crt[sni] = p.crtIdentity(CrtFor(list, sni))
					}
				}
			}
		}
	}
	// static text
	add := func(sec *Section) {
		s.Static = append(s.Static, sec.Kind+" "+sec.Name)
		for _, l := range sec.Lines {
			if containsMapRef(l) || containsFileList(l) {
				continue
			}
			s.Static = append(s.Static, "  "+p.norm(strings.Join(l, " ")))
		}
	}
	for _, sec := range cfg.Global {
		add(sec)
	}
	for _, sec := range cfg.Defaults {
		add(sec)
	}
	for _, k := range SortedKeys(cfg.Frontends) {
		add(cfg.Frontends[k])
	}
	for _, k := range SortedKeys(cfg.Listens) {
		add(cfg.Listens[k])
	}
	for _, k := range SortedKeys(cfg.Userlists) {
		add(cfg.Userlists[k])
	}
	for k := range skipped {
		s.Skipped = append(s.Skipped, k)
	}
	sort.Strings(s.Skipped)
	return s
}

func containsFileList(l []string) bool {
	for i, t := range l {
		if t == "-f" && i+1 < len(l) {
			return true
		}
	}
	return false
}

func (p *Pipeline) crtIdentity(file string) string {
	if file == "" {
		return "-"
	}
	b, err := os.ReadFile(file)
	if err != nil {
		return filepath.Base(file) + "#missing"
	}
	return fmt.Sprintf("%s#%x", filepath.Base(file), sha1.Sum(b))[:len(filepath.Base(file))+9]
}

// backendPathID evaluates the backend's `set-var(txn.pathID)` rules for the request
func backendPathID(cfg *Config, sec *Section, r Request, d *Decision, skipped map[string]bool) string {
	e := &evalCtx{cfg: cfg, req: r, vars: map[string]string{}, acls: map[string][][]string{}, dec: &Decision{}, maps: map[string]*MapFile{}}
	for k, v := range d.Vars {
		e.vars[k] = v
	}
	found := false
	for _, l := range sec.Lines {
		if l[0] == "http-request" && len(l) >= 3 && l[1] == "set-var(txn.pathID)" {
			found = true
			body, cond := splitCond(l[1:])
			v, k := e.evalCond(cond)
			if !k || !v {
				continue
			}
			if val, ok := e.evalExpr(body[1]); ok {
				e.vars["txn.pathID"] = val
			}
		}
	}
	for _, u := range e.dec.Unsupported {
		skipped[u] = true
	}
	if !found {
		return ""
	}
	id, ok := e.vars["txn.pathID"]
	if !ok {
		return "pathid:none"
	}
	if c, ok := backendPathIDs(cfg, sec)[id]; ok {
		return "pathid:" + c
	}
	return "pathid:" + id
}

// Text renders the snapshot; two pipelines behave the same iff their texts are equal.
func (s *Snapshot) Text() string {
	var b strings.Builder
	for _, k := range SortedKeys(s.Routes) {
		fmt.Fprintf(&b, "route %s -> %s\n", k, s.Routes[k])
	}
	for _, k := range SortedKeys(s.Servers) {
		fmt.Fprintf(&b, "servers %s %s\n", k, strings.Join(s.Servers[k], ","))
	}
	for _, k := range SortedKeys(s.Backends) {
		fmt.Fprintf(&b, "backend %s\n", k)
		for _, l := range s.Backends[k] {
			fmt.Fprintf(&b, "  %s\n", l)
		}
	}
	for _, k := range SortedKeys(s.Crt) {
		fmt.Fprintf(&b, "crt %s -> %s\n", k, s.Crt[k])
	}
	for _, l := range s.Static {
		b.WriteString(l + "\n")
	}
	return b.String()
}
