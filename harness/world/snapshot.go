package world

import (
	"crypto/sha1"
	"fmt"
	"os"
	"path/filepath"
	"regexp"
	"sort"
	"strings"
)

// Snapshot is the semantic normal form of the files a pipeline wrote: what HAProxy would do after
// loading them, with internal labels (directory names, server slot names, empty slots, path ids,
// priority-file suffixes) factored out.
type Snapshot struct {
	Routes   map[string]string   // request -> decision (backend or terminal action; + path policy id)
	Servers  map[string][]string // backend -> sorted enabled servers "addr:port=w<N>|drain"
	Backends map[string][]string // backend -> canonical non-server lines
	Crt      map[string]string   // sni -> certificate identity (file base name + content hash)
	TCP      map[string]string   // public port of a ConfigMap tcp service (`listen _tcp_*`) -> proxy, servers, proxy protocol, crt/ca/crl identity
	Static   []string            // global/defaults/frontends/userlists static text
	Problems []string            // load problems (C07): dangling references, duplicates
	Skipped  []string            // constructs the evaluator does not interpret
}

var pathIDRe = regexp.MustCompile(`\bpath[0-9][0-9]+\b`)

func (p *Pipeline) norm(s string) string {
	return strings.ReplaceAll(s, p.Dir, "$DIR")
}

func reqKey(r Request) string {
	proto := "http"
	if r.TLS {
		proto = "https"
	}
	return proto + "://" + r.Host + r.Path
}

// pathIDs of a backend: id -> canonical name (sorted keys of the id maps with their match method)
func backendPathIDs(cfg *Config, sec *Section) map[string]string {
	ids := map[string][]string{}
	for _, l := range sec.Lines {
		for _, t := range l {
			for _, conv := range splitTop(t, ',') {
				if strings.HasPrefix(conv, "map_") && strings.HasSuffix(conv, ")") {
					i := strings.Index(conv, "(")
					method := conv[4:i]
					file := splitTop(conv[i+1:len(conv)-1], ',')[0]
					for _, kv := range ReadMap(file).Entries {
						if pathIDRe.MatchString(kv[1]) {
							ids[kv[1]] = append(ids[kv[1]], method+":"+kv[0])
						}
					}
				}
			}
		}
	}
	res := map[string]string{}
	for id, keys := range ids {
		sort.Strings(keys)
		res[id] = "<" + strings.Join(keys, "|") + ">"
	}
	return res
}

func containsMapRef(l []string) bool {
	for _, t := range l {
		if strings.Contains(t, "map_") && strings.Contains(t, "(") {
			return true
		}
	}
	return false
}

// Snapshot evaluates the files on disk for the given requests and SNI names.
func (p *Pipeline) Snapshot(reqs []Request, snis []string) *Snapshot {
	s := &Snapshot{Routes: map[string]string{}, Servers: map[string][]string{}, Backends: map[string][]string{}, Crt: map[string]string{}}
	cfg, err := LoadConfig(p.CfgDir)
	if err != nil {
		s.Problems = append(s.Problems, "load: "+err.Error())
		return s
	}
	skipped := map[string]bool{}
	s.Problems = append(s.Problems, Lint(cfg)...)
	// backends
	for _, name := range SortedKeys(cfg.Backends) {
		sec := cfg.Backends[name]
		ids := backendPathIDs(cfg, sec)
		var srvs []string
		for _, x := range serversOf(sec) {
			if x.State == "maint" {
				continue
			}
			w := "w" + fmt.Sprint(x.Weight)
			if x.Weight == 0 {
				w = "drain"
			}
			o := ""
			if x.Opts != "" {
				o = "{" + x.Opts + "}"
			}
			srvs = append(srvs, fmt.Sprintf("%s:%d=%s%s", x.Addr, x.Port, w, o))
		}
		sort.Strings(srvs)
		s.Servers[name] = srvs
		var lines []string
		for _, l := range sec.Lines {
			if l[0] == "server" || containsMapRef(l) {
				continue
			}
			txt := p.norm(strings.Join(l, " "))
			txt = pathIDRe.ReplaceAllStringFunc(txt, func(id string) string {
				if c, ok := ids[id]; ok {
					return c
				}
				return id
			})
			lines = append(lines, txt)
		}
		s.Backends[name] = lines
	}
	// routes (+ the path id the chosen backend resolves for the request)
	for _, r := range reqs {
		d := cfg.Route(r)
		for _, u := range d.Unsupported {
			skipped[u] = true
		}
		res := d.Backend
		if d.Terminal != "" {
			res = "terminal:" + p.norm(d.Terminal)
		} else if sec, ok := cfg.Backends[d.Backend]; ok {
			if id := backendPathID(cfg, sec, r, d, skipped); id != "" {
				res += " " + id
			}
		}
		// other frontend variables computed from maps (namespace, redirects, ...)
		var extra []string
		for _, k := range SortedKeys(d.Vars) {
			switch k {
			case "req.path", "req.host", "req.base", "req.backend", "req.hostbackend", "req.defaultbackend":
			default:
				extra = append(extra, k+"="+d.Vars[k])
			}
		}
		if len(extra) > 0 {
			res += " {" + strings.Join(extra, ",") + "}"
		}
		s.Routes[reqKey(r)] = res
	}
	// certificates per SNI
	for _, fe := range cfg.allProxies() {
		for _, l := range fe.Lines {
			if l[0] != "bind" {
				continue
			}
			for i := 1; i+1 < len(l); i++ {
				if l[i] == "crt-list" && strings.Contains(l[i+1], "_front_bind_crt") {
					list := ReadCrtList(l[i+1])
					for _, sni := range snis {
						s.Crt[sni] = p.crtIdentity(CrtFor(list, sni))
					}
				}
			}
		}
	}
	// tcp services of the --tcp-services-configmap ConfigMap
	for _, k := range SortedKeys(cfg.Listens) {
		if port, txt, ok := p.tcpService(cfg.Listens[k]); ok {
			if s.TCP == nil {
				s.TCP = map[string]string{}
			}
			if prev, dup := s.TCP[port]; dup {
				txt = prev + " || " + txt
			}
			s.TCP[port] = txt
		}
	}
	// static text
	add := func(sec *Section) {
		s.Static = append(s.Static, sec.Kind+" "+sec.Name)
		for _, l := range sec.Lines {
			if containsMapRef(l) || containsFileList(l) {
				continue
			}
			s.Static = append(s.Static, "  "+p.norm(strings.Join(l, " ")))
		}
	}
	for _, sec := range cfg.Global {
		add(sec)
	}
	for _, sec := range cfg.Defaults {
		add(sec)
	}
	for _, k := range SortedKeys(cfg.Frontends) {
		add(cfg.Frontends[k])
	}
	for _, k := range SortedKeys(cfg.Listens) {
		add(cfg.Listens[k])
	}
	for _, k := range SortedKeys(cfg.Userlists) {
		add(cfg.Userlists[k])
	}
	for k := range skipped {
		s.Skipped = append(s.Skipped, k)
	}
	sort.Strings(s.Skipped)
	s.canonAuth(cfg)
	return s
}

var (
	authBackRe  = regexp.MustCompile(`\b_auth_backend\d+_\d+\b`)
	authProxyRe = regexp.MustCompile(`\b_auth_\d+\b`)
	soIDRe      = regexp.MustCompile(`\bso_id (\d+)\b`)
	bindIDRe    = regexp.MustCompile(`^(\s*)bind 127\.0\.0\.1:(\d+) id (\d+)\b`)
	bindLocalRe = regexp.MustCompile(`^\s*bind 127\.0\.0\.1:(\d+)\s*$`)
	localAddrRe = regexp.MustCompile(`\b127\.0\.0\.1:(\d+)\b`)
)

// canonAuth renames the internal labels of external authentication: the auth backends `_auth_backendNNN_<port>`
// (numbered in the order the targets were first met) are named after their servers, the local auth proxies
// `_auth_<port>` (ports handed out from the auth-proxy range in processing order), their bind lines and socket ids
// after the auth backend they forward to.  Which target a path is authenticated by is behaviour and stays visible;
// the numbering is a label (C01: "auth-proxy port numbering may differ").
func (s *Snapshot) canonAuth(cfg *Config) {
	ren := map[string]string{}
	for name := range s.Servers {
		if authBackRe.FindString(name) == name {
			ren[name] = "_auth_backend<" + strings.Join(s.Servers[name], ",") + ">"
		}
	}
	port2back := map[string]string{}
	id2port := map[string]string{}
	authFront := map[string]bool{}
	for fname, fe := range cfg.Frontends {
		var ports, uses []string // binds on 127.0.0.1 whose port names a backend `_auth_<port>`; unconditional use_backend lines
		for _, l := range fe.Lines {
			txt := strings.Join(l, " ")
			if m := bindIDRe.FindStringSubmatch(txt); m != nil {
				id2port[m[3]] = m[2]
				ports = append(ports, m[2])
			} else if m := bindLocalRe.FindStringSubmatch(txt); m != nil {
				if _, ok := cfg.Backends["_auth_"+m[1]]; ok {
					ports = append(ports, m[1])
				}
			}
		}
		if len(ports) == 0 {
			continue
		}
		for _, l := range fe.Lines {
			if len(l) >= 2 && l[0] == "use_backend" {
				if m := soIDRe.FindStringSubmatch(strings.Join(l, " ")); m != nil {
					if p, ok := id2port[m[1]]; ok {
						port2back[p] = l[1]
						authFront[fname] = true
					}
				} else if len(l) == 2 {
					uses = append(uses, l[1])
				}
			}
		}
		if len(ports) == 1 && len(uses) == 1 {
			// a single proxy: no socket ids, one unconditional use_backend
			port2back[ports[0]] = uses[0]
			authFront[fname] = true
		}
	}
	// an auth proxy no rule refers to, and an auth backend only such proxies forward to, are leftovers the controller
	// removes lazily (frontend.go RemoveAuthBackendExcept runs when the port range is exhausted): not behaviour —
	// nothing can reach them (the proxies listen on 127.0.0.1) — so they are dropped from the normal form
	refText := func() string {
		var b strings.Builder
		for _, v := range s.Routes {
			b.WriteString(v + "\n")
		}
		for _, ls := range s.Backends {
			for _, l := range ls {
				b.WriteString(l + "\n")
			}
		}
		cur := ""
		for _, l := range s.Static {
			if !strings.HasPrefix(l, "  ") {
				cur = l
				continue
			}
			f := strings.Fields(cur)
			if len(f) == 2 && f[0] == "frontend" && authFront[f[1]] {
				continue
			}
			b.WriteString(l + "\n")
		}
		return b.String()
	}()
	deadPort := map[string]bool{}
	liveBack := map[string]bool{}
	for port, back := range port2back {
		if regexp.MustCompile(`\b_auth_` + port + `\b`).MatchString(refText) {
			liveBack[back] = true
		} else {
			deadPort[port] = true
		}
	}
	deadName := map[string]bool{}
	for port := range deadPort {
		deadName["_auth_"+port] = true
	}
	for name := range ren {
		if !liveBack[name] && !regexp.MustCompile(`\b`+regexp.QuoteMeta(name)+`\b`).MatchString(refText) {
			deadName[name] = true
		}
	}
	for name := range deadName {
		delete(s.Servers, name)
		delete(s.Backends, name)
	}
	canonPort := func(port string) string {
		b, ok := port2back[port]
		if !ok {
			return ""
		}
		if c, ok := ren[b]; ok {
			b = c
		}
		return "_auth_proxy<" + b + ">"
	}
	for port := range port2back {
		ren["_auth_"+port] = canonPort(port)
	}
	fix := func(t string) string {
		t = authBackRe.ReplaceAllStringFunc(t, func(n string) string {
			if c, ok := ren[n]; ok {
				return c
			}
			return n
		})
		t = authProxyRe.ReplaceAllStringFunc(t, func(n string) string {
			if c, ok := ren[n]; ok {
				return c
			}
			return n
		})
		t = localAddrRe.ReplaceAllStringFunc(t, func(a string) string {
			if c := canonPort(a[len("127.0.0.1:"):]); c != "" {
				return "127.0.0.1:" + c
			}
			return a
		})
		t = soIDRe.ReplaceAllStringFunc(t, func(a string) string {
			if p, ok := id2port[a[len("so_id "):]]; ok {
				return "so_id <" + canonPort(p) + ">"
			}
			return a
		})
		return t
	}
	for k, v := range s.Routes {
		s.Routes[k] = fix(v)
	}
	srv := map[string][]string{}
	for k, v := range s.Servers {
		for i := range v {
			v[i] = fix(v[i])
		}
		srv[fix(k)] = v
	}
	s.Servers = srv
	bk := map[string][]string{}
	for k, v := range s.Backends {
		for i := range v {
			v[i] = fix(v[i])
		}
		bk[fix(k)] = v
	}
	s.Backends = bk
	// static text: the lines of the auth frontend are canonicalised and sorted (their order follows the numbering)
	var out []string
	for i := 0; i < len(s.Static); {
		out = append(out, s.Static[i])
		j := i + 1
		for j < len(s.Static) && strings.HasPrefix(s.Static[j], "  ") {
			j++
		}
		body := append([]string(nil), s.Static[i+1:j]...)
		f := strings.Fields(s.Static[i])
		if len(f) == 2 && f[0] == "frontend" && authFront[f[1]] {
			var live []string
			binds := 0
			for k := range body {
				if m := bindIDRe.FindStringSubmatch(body[k]); m != nil {
					if deadPort[m[2]] {
						continue
					}
					binds++
					live = append(live, m[1]+"bind 127.0.0.1:"+canonPort(m[2])+body[k][len(m[0]):])
				} else if m := bindLocalRe.FindStringSubmatch(body[k]); m != nil {
					if deadPort[m[1]] {
						continue
					}
					binds++
					live = append(live, "  bind 127.0.0.1:"+canonPort(m[1]))
				} else if f2 := strings.Fields(body[k]); len(f2) >= 2 && f2[0] == "use_backend" {
					// `use_backend X [if { so_id N }]`: the proxy it belongs to is named, the socket id is a label
					port := ""
					if m := soIDRe.FindStringSubmatch(body[k]); m != nil {
						port = id2port[m[1]]
					} else if len(f2) == 2 {
						for p2, b2 := range port2back {
							if b2 == f2[1] {
								port = p2
							}
						}
					}
					if port == "" {
						live = append(live, fix(body[k]))
					} else if !deadPort[port] {
						live = append(live, "  use_backend "+fix(f2[1])+" <- "+canonPort(port))
					}
				} else {
					live = append(live, fix(body[k]))
				}
			}
			if binds == 0 {
				// no live proxy: a fresh controller writes no auth frontend at all
				out = out[:len(out)-1]
				i = j
				continue
			}
			body = live
			sort.Strings(body)
		} else {
			for k := range body {
				body[k] = fix(body[k])
			}
		}
		out = append(out, body...)
		i = j
	}
	s.Static = out
}

// tcpService: the behaviour of one `listen _tcp_<ns>_<svc>_<port>` section: who listens on the public port (bind
// address, accept-proxy, TLS offload certificate, client verification CA/CRL: file base name + content hash),
// where the connections go (enabled servers, sorted; send-proxy version, health check) — server slot names are labels.
func (p *Pipeline) tcpService(sec *Section) (port, txt string, ok bool) {
	if !strings.HasPrefix(sec.Name, "_tcp_") {
		return "", "", false
	}
	bind, accept, crt, ca, crl, verify := "", "no", "-", "-", "-", "-"
	var srvs, other []string
	for _, l := range sec.Lines {
		switch l[0] {
		case "bind":
			if len(l) > 1 {
				bind = l[1]
				if i := strings.LastIndex(bind, ":"); i >= 0 {
					port = bind[i+1:]
				}
			}
			for i := 2; i < len(l); i++ {
				switch l[i] {
				case "accept-proxy":
					accept = "yes"
				case "crt", "ca-file", "crl-file", "verify":
					if i+1 < len(l) {
						switch l[i] {
						case "crt":
							crt = p.crtIdentity(l[i+1])
						case "ca-file":
							ca = p.crtIdentity(l[i+1])
						case "crl-file":
							crl = p.crtIdentity(l[i+1])
						case "verify":
							verify = l[i+1]
						}
						i++
					}
				case "ssl":
				default:
					other = append(other, "bind:"+l[i])
				}
			}
		case "server":
			if len(l) > 2 {
				srvs = append(srvs, p.norm(strings.Join(l[2:], " ")))
			}
		case "mode":
		default:
			other = append(other, p.norm(strings.Join(l, " ")))
		}
	}
	sort.Strings(srvs)
	txt = fmt.Sprintf("%s bind=%s accept-proxy=%s crt=%s ca=%s crl=%s verify=%s servers=[%s]", sec.Name, bind, accept, crt, ca, crl, verify, strings.Join(srvs, ","))
	if len(other) > 0 {
		txt += " other=[" + strings.Join(other, ";") + "]"
	}
	return port, txt, port != ""
}

func containsFileList(l []string) bool {
	for i, t := range l {
		if t == "-f" && i+1 < len(l) {
			return true
		}
	}
	return false
}

func (p *Pipeline) crtIdentity(file string) string {
	if file == "" {
		return "-"
	}
	b, err := os.ReadFile(file)
	if err != nil {
		return filepath.Base(file) + "#missing"
	}
	return fmt.Sprintf("%s#%x", filepath.Base(file), sha1.Sum(b))[:len(filepath.Base(file))+9]
}

// backendPathID evaluates the backend's `set-var(txn.pathID)` rules for the request
func backendPathID(cfg *Config, sec *Section, r Request, d *Decision, skipped map[string]bool) string {
	e := &evalCtx{cfg: cfg, req: r, vars: map[string]string{}, acls: map[string][][]string{}, dec: &Decision{}, maps: map[string]*MapFile{}}
	for k, v := range d.Vars {
		e.vars[k] = v
	}
	found := false
	for _, l := range sec.Lines {
		if l[0] == "http-request" && len(l) >= 3 && l[1] == "set-var(txn.pathID)" {
			found = true
			body, cond := splitCond(l[1:])
			v, k := e.evalCond(cond)
			if !k || !v {
				continue
			}
			if val, ok := e.evalExpr(body[1]); ok {
				e.vars["txn.pathID"] = val
			}
		}
	}
	for _, u := range e.dec.Unsupported {
		skipped[u] = true
	}
	if !found {
		return ""
	}
	id, ok := e.vars["txn.pathID"]
	if !ok {
		return "pathid:none"
	}
	if c, ok := backendPathIDs(cfg, sec)[id]; ok {
		return "pathid:" + c
	}
	return "pathid:" + id
}

// Text renders the snapshot; two pipelines behave the same iff their texts are equal.
func (s *Snapshot) Text() string {
	var b strings.Builder
	for _, k := range SortedKeys(s.Routes) {
		fmt.Fprintf(&b, "route %s -> %s\n", k, s.Routes[k])
	}
	for _, k := range SortedKeys(s.Servers) {
		fmt.Fprintf(&b, "servers %s %s\n", k, strings.Join(s.Servers[k], ","))
	}
	for _, k := range SortedKeys(s.Backends) {
		fmt.Fprintf(&b, "backend %s\n", k)
		for _, l := range s.Backends[k] {
			fmt.Fprintf(&b, "  %s\n", l)
		}
	}
	for _, k := range SortedKeys(s.Crt) {
		fmt.Fprintf(&b, "crt %s -> %s\n", k, s.Crt[k])
	}
	for _, k := range SortedKeys(s.TCP) {
		fmt.Fprintf(&b, "tcp %s -> %s\n", k, s.TCP[k])
	}
	for _, l := range s.Static {
		b.WriteString(l + "\n")
	}
	return b.String()
}
