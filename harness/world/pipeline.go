package world

import (
	"context"
	"fmt"
	"os"
	"path/filepath"
	"strings"

	api "k8s.io/api/core/v1"
	networking "k8s.io/api/networking/v1"
	"sigs.k8s.io/controller-runtime/pkg/client"
	"sigs.k8s.io/controller-runtime/pkg/event"
	"sigs.k8s.io/controller-runtime/pkg/predicate"

	ctrlconfig "github.com/jcmoraisjr/haproxy-ingress/pkg/controller/config"
	"github.com/jcmoraisjr/haproxy-ingress/pkg/controller/reconciler"
	"github.com/jcmoraisjr/haproxy-ingress/pkg/controller/services"
	"github.com/jcmoraisjr/haproxy-ingress/pkg/converters"
	"github.com/jcmoraisjr/haproxy-ingress/pkg/converters/tracker"
	convtypes "github.com/jcmoraisjr/haproxy-ingress/pkg/converters/types"
	"github.com/jcmoraisjr/haproxy-ingress/pkg/haproxy"
	types_helper "github.com/jcmoraisjr/haproxy-ingress/pkg/types/helper_test"
	"github.com/jcmoraisjr/haproxy-ingress/pkg/utils"

	"hapverif/hvutil"
)

// Options of one controller instance.
type Options struct {
	Class            ClassConfig
	Shards           int
	DefaultBackend   string // --default-backend-service ns/name[:port]
	DefaultCrtSecret string
	DisableKeywords  []string
	Dyn              convtypes.DynamicConfig
	SortEndpointsBy  string
	ConfigMapName    string // "ns/name" of the global ConfigMap ("" = none)
	TCPConfigMapName string // "ns/name" of the --tcp-services-configmap ConfigMap ("" = option not set)
	KeepLog          bool
	Leader           bool
	// MirrorCache reads the cluster through the harness's own mirror of the cache facade (world/cache.go)
	// instead of the REAL facade of pkg/controller/services over a fake client (the default).
	MirrorCache bool
}

// Pipeline = real watchers -> real converters + tracker -> real haproxy.Instance -> files + simulated HAProxy.
type Pipeline struct {
	W        *World
	Opt      Options
	Dir      string
	CfgDir   string
	MapsDir  string
	Cache    *Cache
	Tracker  convtypes.Tracker
	Instance haproxy.Instance
	Watchers *reconciler.VerifWatchers
	queue    *reconciler.VerifQueue
	Sim      *Sim
	Log      *hvutil.Logger
	convOpt  *convtypes.ConverterOptions
	handlers map[string]reconciler.VerifHandler
	Updates  int
	LastErr  error
	real     *realCache
}

var tmpRoot = filepath.Join(os.TempDir(), "hv-world")

// NewPipeline creates a controller that has seen nothing yet.
func NewPipeline(w *World, opt Options) (*Pipeline, error) {
	_ = os.MkdirAll(tmpRoot, 0o755)
	dir, err := os.MkdirTemp(tmpRoot, "p")
	if err != nil {
		return nil, err
	}
	p := &Pipeline{W: w, Opt: opt, Dir: dir, CfgDir: filepath.Join(dir, "etc/haproxy"), MapsDir: filepath.Join(dir, "etc/haproxy/maps")}
	for _, d := range []string{p.CfgDir, p.MapsDir, filepath.Join(dir, "tls"), filepath.Join(p.CfgDir, "lua"), filepath.Join(p.CfgDir, "errorfiles"), filepath.Join(dir, "var/lib/haproxy"), filepath.Join(dir, "var/run/haproxy")} {
		if err := os.MkdirAll(d, 0o755); err != nil {
			return nil, err
		}
	}
	p.Log = &hvutil.Logger{Keep: opt.KeepLog}
	p.Tracker = tracker.NewTracker()
	dyn := opt.Dyn
	p.Cache = &Cache{W: w, Tracker: p.Tracker, Class: opt.Class, Dyn: &dyn, TLSDir: filepath.Join(dir, "tls")}
	p.Sim = NewSim(p.CfgDir)
	iopt := haproxy.InstanceOptions{
		RootFSPrefix:      "/repo/rootfs",
		LocalFSPrefix:     dir,
		BackendShards:     opt.Shards,
		HAProxyCfgDir:     p.CfgDir,
		HAProxyMapsDir:    p.MapsDir,
		IsExternal:        true,
		MasterSocket:      filepath.Join(dir, "master.sock"),
		AdminSocket:       filepath.Join(dir, "admin.sock"),
		AcmeSocket:        filepath.Join(dir, "acme.sock"),
		MaxOldConfigFiles: 0,
		Metrics:           types_helper.NewMetricsMock(),
		SortEndpointsBy:   opt.SortEndpointsBy,
		StopCh:            make(chan struct{}),
		LeaderElector:     leader(opt.Leader),
	}
	p.Instance = haproxy.CreateInstance(p.Log, iopt)
	if err := p.Instance.ParseTemplates(); err != nil {
		return nil, err
	}
	haproxy.VerifSetSockets(p.Instance, p.Sim.Master(), p.Sim.Admin())
	fake := convtypes.CrtFile{Filename: filepath.Join(dir, "tls", "_fake.pem"), SHA1Hash: "fake", Certificate: (&Secret{DNSNames: []string{"localhost"}}).certificate()}
	_ = os.WriteFile(fake.Filename, []byte("FAKE\n"), 0o644)
	var cacheImpl convtypes.Cache = p.Cache
	var validator services.IsValidResource = p.Cache
	if !opt.MirrorCache {
		rc, rfake, err := newRealCache(dir, opt, p.Tracker, &dyn)
		if err != nil {
			return nil, err
		}
		p.real = rc
		fake = rfake
		cacheImpl, validator = rc.facade, rc.facade
		// the informer cache of a starting controller already lists everything
		p.loadWorld()
	}
	p.convOpt = &convtypes.ConverterOptions{
		Logger:           p.Log,
		Cache:            cacheImpl,
		Tracker:          p.Tracker,
		DynamicConfig:    &dyn,
		LocalFSPrefix:    dir,
		IsExternal:       true,
		MasterSocket:     iopt.MasterSocket,
		AdminSocket:      iopt.AdminSocket,
		AcmeSocket:       iopt.AcmeSocket,
		AnnotationPrefix: []string{strings.TrimSuffix(AnnPrefix, "/")},
		DefaultBackend:   opt.DefaultBackend,
		DefaultCrtSecret: opt.DefaultCrtSecret,
		FakeCrtFile:      fake,
		FakeCAFile:       fake,
		DisableKeywords:  opt.DisableKeywords,
	}
	ccfg := &ctrlconfig.Config{ConfigMapName: opt.ConfigMapName, TCPConfigMapName: opt.TCPConfigMapName, ControllerName: opt.Class.ControllerName, IngressClass: opt.Class.IngressClass,
		WatchIngressWithoutClass: opt.Class.WatchIngressWithoutClass, IngressClassPrecedence: opt.Class.IngressClassPrecedence}
	p.Watchers = reconciler.VerifCreateWatchers(context.Background(), ccfg, validator)
	p.queue = &reconciler.VerifQueue{}
	p.handlers = map[string]reconciler.VerifHandler{}
	for _, h := range p.Watchers.Handlers() {
		p.handlers[fmt.Sprintf("%T", h.Type())] = h
	}
	return p, nil
}

type leader bool

func (l leader) IsLeader() bool     { return bool(l) }
func (l leader) LeaderName() string { return "sim" }
func (l leader) Run(stopCh <-chan struct{})  {}

// Close removes the scratch directory.
func (p *Pipeline) Close() { _ = os.RemoveAll(p.Dir) }

func predicatesAllow(prs []predicate.Predicate, op string, old, obj client.Object) bool {
	for _, pr := range prs {
		switch op {
		case "create":
			if !pr.Create(event.CreateEvent{Object: obj}) {
				return false
			}
		case "update":
			if !pr.Update(event.UpdateEvent{ObjectOld: old, ObjectNew: obj}) {
				return false
			}
		case "delete":
			if !pr.Delete(event.DeleteEvent{Object: obj}) {
				return false
			}
		}
	}
	return true
}

// loadWorld copies the whole cluster state into the fake client of the real cache facade
func (p *Pipeline) loadWorld() {
	w := p.W
	for _, k := range SortedKeys(w.IngressClasses) {
		p.real.apply("create", w.IngressClasses[k])
	}
	for _, k := range SortedKeys(w.Secrets) {
		p.real.apply("create", w.Secrets[k].RealObject())
	}
	for _, k := range SortedKeys(w.Services) {
		p.real.apply("create", w.Services[k])
	}
	for _, k := range SortedKeys(w.Endpoints) {
		p.real.apply("create", w.Endpoints[k])
	}
	for _, k := range SortedKeys(w.Pods) {
		p.real.apply("create", w.Pods[k])
	}
	for _, k := range SortedKeys(w.Namespaces) {
		p.real.apply("create", w.Namespaces[k])
	}
	for _, k := range SortedKeys(w.Ingresses) {
		p.real.apply("create", w.Ingresses[k])
	}
}

// syncClient mirrors one event into the informer cache (fake client) before the handler sees it
func (p *Pipeline) syncClient(op string, old, obj client.Object) {
	if p.real == nil {
		return
	}
	target := obj
	if target == nil {
		target = old
	}
	if s, ok := target.(*api.Secret); ok {
		key := s.Namespace + "/" + s.Name
		if op == "delete" {
			p.real.apply("delete", &api.Secret{ObjectMeta: s.ObjectMeta})
			return
		}
		if ws, found := p.W.Secrets[key]; found {
			p.real.apply(op, ws.RealObject())
		}
		return
	}
	if _, ok := target.(*api.ConfigMap); ok {
		return
	}
	p.real.apply(op, target)
}

// Event delivers one informer event (op = create|update|delete) through the real predicates and
// the real handler of the object's kind. It returns false when a predicate filtered it out.
func (p *Pipeline) Event(op string, old, obj client.Object) bool {
	p.syncClient(op, old, obj)
	var probe client.Object = obj
	if probe == nil {
		probe = old
	}
	h, ok := p.handlers[fmt.Sprintf("%T", probe)]
	if !ok {
		return false
	}
	if !predicatesAllow(h.Predicates(), op, old, obj) {
		return false
	}
	ctx := context.Background()
	switch op {
	case "create":
		h.Create(ctx, obj, p.queue)
	case "update":
		h.Update(ctx, old, obj, p.queue)
	case "delete":
		h.Delete(ctx, obj, p.queue)
	}
	return true
}

// Startup delivers a create event for every object of the world (informer initial list), in key order.
func (p *Pipeline) Startup() {
	w := p.W
	if w.GlobalConfig != nil && p.Opt.ConfigMapName != "" {
		p.Event("create", nil, p.ConfigMapObject())
	}
	if w.TCPConfig != nil && p.Opt.TCPConfigMapName != "" {
		p.Event("create", nil, p.TCPConfigMapObject())
	}
	for _, k := range SortedKeys(w.IngressClasses) {
		p.Event("create", nil, w.IngressClasses[k].DeepCopy())
	}
	for _, k := range SortedKeys(w.Secrets) {
		p.Event("create", nil, w.Secrets[k].Object())
	}
	for _, k := range SortedKeys(w.Services) {
		p.Event("create", nil, w.Services[k].DeepCopy())
	}
	for _, k := range SortedKeys(w.Endpoints) {
		p.Event("create", nil, w.Endpoints[k].DeepCopy())
	}
	for _, k := range SortedKeys(w.Pods) {
		p.Event("create", nil, w.Pods[k].DeepCopy())
	}
	for _, k := range SortedKeys(w.Ingresses) {
		p.Event("create", nil, w.Ingresses[k].DeepCopy())
	}
}

func (p *Pipeline) ConfigMapObject() *api.ConfigMap {
	cm := &api.ConfigMap{}
	cm.Namespace, cm.Name = splitKey(p.Opt.ConfigMapName)
	if p.W.GlobalConfig != nil {
		cm.Data = map[string]string{}
		for k, v := range p.W.GlobalConfig {
			cm.Data[k] = v
		}
	}
	return cm
}

// TCPConfigMapObject: the tcp-services ConfigMap as this controller's informer delivers it
func (p *Pipeline) TCPConfigMapObject() *api.ConfigMap {
	cm := &api.ConfigMap{}
	cm.Namespace, cm.Name = splitKey(p.Opt.TCPConfigMapName)
	if p.W.TCPConfig != nil {
		cm.Data = map[string]string{}
		for k, v := range p.W.TCPConfig {
			cm.Data[k] = v
		}
	}
	return cm
}

// Reconcile = IngressReconciler.Reconcile + Services.ReconcileIngress: take the batch, run the
// converters, update HAProxy. `full` is the fullsync flag of the queue item being processed
// (true if any pending notification asked for it).
func (p *Pipeline) Reconcile() (changed *convtypes.ChangedObjects, err error) {
	defer func() {
		if r := recover(); r != nil {
			err = fmt.Errorf("PANIC: %v", r)
			p.LastErr = err
		}
	}()
	full := false
	for _, f := range p.queue.Items() {
		if f {
			full = true
		}
	}
	p.queue = &reconciler.VerifQueue{}
	changed = p.Watchers.GetChangedObjects()
	changed.NeedFullSync = full
	timer := utils.NewTimer(nil)
	converters.NewConverter(timer, p.Instance.Config(), changed, p.convOpt).Sync()
	if p.Opt.Leader {
		p.Instance.AcmeUpdate()
	}
	err = p.Instance.HAProxyUpdate(timer)
	p.Updates++
	p.LastErr = err
	return changed, err
}

var _ = networking.Ingress{}
