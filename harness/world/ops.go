package world

import (
	"fmt"
	"sort"
	"strconv"
	"strings"

	api "k8s.io/api/core/v1"
	networking "k8s.io/api/networking/v1"
	metav1 "k8s.io/apimachinery/pkg/apis/meta/v1"
	"k8s.io/apimachinery/pkg/types"
	"sigs.k8s.io/controller-runtime/pkg/client"
)

// Ev is one informer event produced by an operation on the world.
type Ev struct {
	Op       string // create | update | delete
	Old, New client.Object
}

// Op is one change of the cluster state, in a one-token text form (no blanks):
//
//	ing+<I>  ing~<I>  ing-<ns/name>            I = ns/name@ts!ann,cn!k=v;k=v!host>path:type:svc:port+...;host>...!hosts>secret;...!svc:port
//	svc+<S>  svc~<S>  svc-<ns/name>            S = ns/name!portname:port:target+...!k=v;k=v
//	ep~<E>   ep-<ns/name>                      E = ns/name!ip:r|n:pod+...        (r ready, n not ready; ports follow the service)
//	sec+<X>  sec~<X>  sec-<ns/name>            X = ns/name!kind!version!dns+dns
//	cls+<name>:<controller>  cls-<name>
//	cm~k=v;k=v   cm~-  (no ConfigMap data)
//	tcp~<port>=<E>;<port>=<E>   tcp~-          the --tcp-services-configmap ConfigMap (whole data; `-` = no entries)
//	                                           E = ns/svc:port[:[PROXY]:[PROXY[-V1|-V2]]:[ns/crtsecret]:[check|-]:[ns/casecret]]
//	pod+<ns/name>!ip!label=v;..!t|-            (t = terminating)   pod-<ns/name>
//	sync                                       reconcile boundary
//
// `-` stands for "absent"; `_` for the empty string; ts is the creation second.
type Op struct{ Text string }

func q(s string) string {
	if s == "" {
		return "_"
	}
	return s
}
func unq(s string) string {
	if s == "_" {
		return ""
	}
	return s
}

func kvText(m map[string]string) string {
	if len(m) == 0 {
		return "-"
	}
	ks := make([]string, 0, len(m))
	for k := range m {
		ks = append(ks, k)
	}
	sort.Strings(ks)
	parts := make([]string, len(ks))
	for i, k := range ks {
		parts[i] = k + "=" + q(m[k])
	}
	return strings.Join(parts, ";")
}

func parseKV(s string) map[string]string {
	m := map[string]string{}
	if s == "-" || s == "" {
		return m
	}
	for _, kv := range strings.Split(s, ";") {
		p := strings.SplitN(kv, "=", 2)
		if len(p) == 2 {
			m[p[0]] = unq(p[1])
		}
	}
	return m
}

func optText(s *string) string {
	if s == nil {
		return "-"
	}
	return q(*s)
}
func parseOpt(s string) *string {
	if s == "-" {
		return nil
	}
	v := unq(s)
	return &v
}

func pathText(p PathSpec) string {
	return q(p.Path) + ":" + q(p.Type) + ":" + p.Svc + ":" + q(p.Port)
}
func parsePath(s string) PathSpec {
	f := strings.Split(s, ":")
	for len(f) < 4 {
		f = append(f, "_")
	}
	return PathSpec{Path: unq(f[0]), Type: unq(f[1]), Svc: f[2], Port: unq(f[3])}
}

// IngressText / ParseIngress: the I form
func IngressText(s IngressSpec) string {
	var rules []string
	for _, r := range s.Rules {
		var ps []string
		for _, p := range r.Paths {
			ps = append(ps, pathText(p))
		}
		rules = append(rules, q(r.Host)+">"+strings.Join(ps, "+"))
	}
	var tls []string
	for _, t := range s.TLS {
		hs := make([]string, len(t.Hosts))
		for i, h := range t.Hosts {
			hs[i] = q(h)
		}
		tls = append(tls, strings.Join(hs, "+")+">"+q(t.Secret))
	}
	def := "-"
	if s.DefaultBackend != nil {
		def = s.DefaultBackend.Svc + ":" + q(s.DefaultBackend.Port)
	}
	dash := func(l []string) string {
		if len(l) == 0 {
			return "-"
		}
		return strings.Join(l, ";")
	}
	ts := s.Created.Unix() - epoch.Unix()
	return fmt.Sprintf("%s/%s@%d!%s,%s!%s!%s!%s!%s", s.Namespace, s.Name, ts, optText(s.ClassAnn), optText(s.ClassName),
		kvText(s.Annotations), dash(rules), dash(tls), def)
}

func ParseIngress(text string) (IngressSpec, error) {
	f := strings.Split(text, "!")
	if len(f) != 6 {
		return IngressSpec{}, fmt.Errorf("bad ingress text %q", text)
	}
	var s IngressSpec
	nn := strings.SplitN(f[0], "@", 2)
	s.Namespace, s.Name = splitKey(nn[0])
	ts := 0
	if len(nn) > 1 {
		ts, _ = strconv.Atoi(nn[1])
	}
	s.Created = metav1.NewTime(epoch.Add(secs(ts)))
	cl := strings.SplitN(f[1], ",", 2)
	s.ClassAnn = parseOpt(cl[0])
	if len(cl) > 1 {
		s.ClassName = parseOpt(cl[1])
	}
	s.Annotations = parseKV(f[2])
	if f[3] != "-" {
		for _, r := range strings.Split(f[3], ";") {
			hp := strings.SplitN(r, ">", 2)
			rule := RuleSpec{Host: unq(hp[0])}
			if len(hp) > 1 && hp[1] != "" {
				for _, p := range strings.Split(hp[1], "+") {
					rule.Paths = append(rule.Paths, parsePath(p))
				}
			}
			s.Rules = append(s.Rules, rule)
		}
	}
	if f[4] != "-" {
		for _, t := range strings.Split(f[4], ";") {
			hs := strings.SplitN(t, ">", 2)
			tl := TLSSpec{}
			if hs[0] != "" {
				for _, h := range strings.Split(hs[0], "+") {
					tl.Hosts = append(tl.Hosts, unq(h))
				}
			}
			if len(hs) > 1 {
				tl.Secret = unq(hs[1])
			}
			s.TLS = append(s.TLS, tl)
		}
	}
	if f[5] != "-" {
		sp := strings.SplitN(f[5], ":", 2)
		p := PathSpec{Svc: sp[0]}
		if len(sp) > 1 {
			p.Port = unq(sp[1])
		}
		s.DefaultBackend = &p
	}
	return s, nil
}

func portsText(ps []PortSpec) string {
	if len(ps) == 0 {
		return "-"
	}
	l := make([]string, len(ps))
	for i, p := range ps {
		l[i] = fmt.Sprintf("%s:%d:%s", q(p.Name), p.Port, p.TargetPort)
	}
	return strings.Join(l, "+")
}
func parsePorts(s string) []PortSpec {
	var res []PortSpec
	if s == "-" {
		return res
	}
	for _, p := range strings.Split(s, "+") {
		f := strings.Split(p, ":")
		if len(f) != 3 {
			continue
		}
		n, _ := strconv.Atoi(f[1])
		res = append(res, PortSpec{Name: unq(f[0]), Port: n, TargetPort: f[2]})
	}
	return res
}

func addrsText(as []AddrSpec) string {
	if len(as) == 0 {
		return "-"
	}
	l := make([]string, len(as))
	for i, a := range as {
		r := "n"
		if a.Ready {
			r = "r"
		}
		l[i] = a.IP + ":" + r + ":" + q(a.Pod)
	}
	return strings.Join(l, "+")
}
func parseAddrs(s string) []AddrSpec {
	var res []AddrSpec
	if s == "-" {
		return res
	}
	for _, a := range strings.Split(s, "+") {
		f := strings.Split(a, ":")
		if len(f) != 3 {
			continue
		}
		res = append(res, AddrSpec{IP: f[0], Ready: f[1] == "r", Pod: unq(f[2])})
	}
	return res
}

// servicePorts remembers the PortSpec list of each service (needed to build its Endpoints object)
func (w *World) servicePorts(key string) []PortSpec {
	svc := w.Services[key]
	if svc == nil {
		return nil
	}
	var ps []PortSpec
	for _, p := range svc.Spec.Ports {
		ps = append(ps, PortSpec{Name: p.Name, Port: int(p.Port), TargetPort: p.TargetPort.String()})
	}
	return ps
}

// named target ports resolve to this container port
var NamedTargets = map[string]int{"web": 8080, "adm": 9090, "alt": 8081}

// Apply mutates the world and returns the informer events the change produces.
func (w *World) Apply(op Op) ([]Ev, error) {
	t := op.Text
	if t == "opt~subsets=1" {
		// from here on every address of an Endpoints object goes into a subset of its own
		w.SplitSubsets = true
		return nil, nil
	}
	if len(t) < 4 {
		return nil, fmt.Errorf("bad op %q", t)
	}
	kind, act, arg := "", byte(0), ""
	for _, k := range []string{"ing", "svc", "sec", "cls", "pod", "ep", "cm", "tcp"} {
		if strings.HasPrefix(t, k) && len(t) > len(k) {
			kind, act, arg = k, t[len(k)], t[len(k)+1:]
		}
	}
	switch kind {
	case "ing":
		if act == '-' {
			old, ok := w.Ingresses[arg]
			if !ok {
				return nil, nil
			}
			delete(w.Ingresses, arg)
			return []Ev{{"delete", nil, old}}, nil
		}
		spec, err := ParseIngress(arg)
		if err != nil {
			return nil, err
		}
		key := spec.Namespace + "/" + spec.Name
		old, exists := w.Ingresses[key]
		if exists {
			spec.Created = old.CreationTimestamp
			spec.Generation = old.Generation + 1
			obj := BuildIngress(spec)
			w.Ingresses[key] = obj
			return []Ev{{"update", old, obj}}, nil
		}
		spec.Generation = 1
		obj := BuildIngress(spec)
		w.Ingresses[key] = obj
		return []Ev{{"create", nil, obj}}, nil
	case "svc":
		if act == '-' {
			old, ok := w.Services[arg]
			if !ok {
				return nil, nil
			}
			delete(w.Services, arg)
			evs := []Ev{{"delete", nil, old}}
			if ep, ok := w.Endpoints[arg]; ok {
				delete(w.Endpoints, arg)
				evs = append(evs, Ev{"delete", nil, ep})
			}
			return evs, nil
		}
		f := strings.Split(arg, "!")
		if len(f) != 3 {
			return nil, fmt.Errorf("bad svc %q", arg)
		}
		ns, name := splitKey(f[0])
		obj := BuildService(ns, name, parsePorts(f[1]), parseKV(f[2]))
		old, exists := w.Services[f[0]]
		w.Services[f[0]] = obj
		if exists {
			obj.Generation = old.Generation + 1
			return []Ev{{"update", old, obj}}, nil
		}
		obj.Generation = 1
		return []Ev{{"create", nil, obj}}, nil
	case "ep":
		if act == '-' {
			old, ok := w.Endpoints[arg]
			if !ok {
				return nil, nil
			}
			delete(w.Endpoints, arg)
			return []Ev{{"delete", nil, old}}, nil
		}
		f := strings.Split(arg, "!")
		if len(f) != 2 {
			return nil, fmt.Errorf("bad ep %q", arg)
		}
		ns, name := splitKey(f[0])
		obj := BuildEndpoints(ns, name, parseAddrs(f[1]), w.servicePorts(f[0]), NamedTargets)
		if w.SplitSubsets {
			SplitSubsets(obj)
		}
		old, exists := w.Endpoints[f[0]]
		w.Endpoints[f[0]] = obj
		if exists {
			return []Ev{{"update", old, obj}}, nil
		}
		return []Ev{{"create", nil, obj}}, nil
	case "sec":
		if act == '-' {
			old, ok := w.Secrets[arg]
			if !ok {
				return nil, nil
			}
			delete(w.Secrets, arg)
			return []Ev{{"delete", nil, old.Object()}}, nil
		}
		f := strings.Split(arg, "!")
		if len(f) != 4 {
			return nil, fmt.Errorf("bad sec %q", arg)
		}
		ns, name := splitKey(f[0])
		v, _ := strconv.Atoi(f[2])
		s := &Secret{Namespace: ns, Name: name, Kind: f[1], Version: v, Passwd: "usr1::pwd" + f[2]}
		if f[3] != "-" {
			s.DNSNames = strings.Split(f[3], "+")
		}
		old, exists := w.Secrets[f[0]]
		w.Secrets[f[0]] = s
		if exists {
			return []Ev{{"update", old.Object(), s.Object()}}, nil
		}
		return []Ev{{"create", nil, s.Object()}}, nil
	case "cls":
		if act == '-' {
			old, ok := w.IngressClasses[arg]
			if !ok {
				return nil, nil
			}
			delete(w.IngressClasses, arg)
			return []Ev{{"delete", nil, old}}, nil
		}
		f := strings.SplitN(arg, ":", 2)
		if len(f) != 2 {
			return nil, fmt.Errorf("bad cls %q", arg)
		}
		obj := BuildIngressClass(f[0], f[1])
		old, exists := w.IngressClasses[f[0]]
		w.IngressClasses[f[0]] = obj
		if exists {
			obj.Generation = old.Generation + 1
			return []Ev{{"update", old, obj}}, nil
		}
		obj.Generation = 1
		return []Ev{{"create", nil, obj}}, nil
	case "cm":
		old := w.GlobalConfig
		if arg == "-" {
			w.GlobalConfig = map[string]string{}
		} else {
			w.GlobalConfig = parseKV(arg)
		}
		if old == nil {
			return []Ev{{"create", nil, &api.ConfigMap{}}}, nil // object is filled by the pipeline (name is an option)
		}
		return []Ev{{"update", &api.ConfigMap{}, &api.ConfigMap{}}}, nil
	case "tcp":
		if act != '~' {
			return nil, fmt.Errorf("bad tcp op %q", t)
		}
		old := w.TCPConfig
		if arg == "-" {
			w.TCPConfig = map[string]string{}
		} else {
			w.TCPConfig = parseKV(arg)
		}
		// the object is filled by the pipeline (its name is an option); the marker name tells Deliver which ConfigMap it is
		if old == nil {
			return []Ev{{"create", nil, tcpCMMarker()}}, nil
		}
		return []Ev{{"update", tcpCMMarker(), tcpCMMarker()}}, nil
	case "pod":
		if act == '-' {
			old, ok := w.Pods[arg]
			if !ok {
				return nil, nil
			}
			delete(w.Pods, arg)
			return []Ev{{"delete", nil, old}}, nil
		}
		f := strings.Split(arg, "!")
		if len(f) != 4 {
			return nil, fmt.Errorf("bad pod %q", arg)
		}
		ns, name := splitKey(f[0])
		pod := &api.Pod{}
		pod.Namespace, pod.Name = ns, name
		pod.UID = types.UID("uid-" + ns + "-" + name)
		pod.Status.PodIP = f[1]
		pod.Labels = parseKV(f[2])
		pod.Spec.Containers = []api.Container{{Name: "c", Ports: []api.ContainerPort{{Name: "web", ContainerPort: 8080}, {Name: "adm", ContainerPort: 9090}, {Name: "alt", ContainerPort: 8081}}}}
		if f[3] == "t" {
			now := metav1.NewTime(epoch)
			pod.DeletionTimestamp = &now
		}
		old, exists := w.Pods[f[0]]
		w.Pods[f[0]] = pod
		if exists {
			return []Ev{{"update", old, pod}}, nil
		}
		return []Ev{{"create", nil, pod}}, nil
	}
	return nil, fmt.Errorf("unknown op %q", t)
}

// Deliver sends the events of an operation to a pipeline (ConfigMap objects are built per pipeline).
func (p *Pipeline) Deliver(evs []Ev) {
	for _, e := range evs {
		old, obj := e.Old, e.New
		if _, ok := obj.(*api.ConfigMap); ok || isCM(old) {
			if isTCPCM(obj) || isTCPCM(old) {
				if p.Opt.TCPConfigMapName == "" {
					continue
				}
				cm := p.TCPConfigMapObject()
				if e.Op == "update" {
					old = &api.ConfigMap{ObjectMeta: cm.ObjectMeta}
				}
				p.Event(e.Op, old, cm)
				continue
			}
			if p.Opt.ConfigMapName == "" {
				continue
			}
			cm := p.ConfigMapObject()
			if e.Op == "update" {
				old = &api.ConfigMap{ObjectMeta: cm.ObjectMeta}
			}
			obj = cm
		}
		p.Event(e.Op, old, obj)
	}
}

// tcpCMMarker: placeholder of the tcp-services ConfigMap in an Ev (the global ConfigMap's placeholder has no name)
const tcpCMName = "$tcp"

func tcpCMMarker() *api.ConfigMap {
	cm := &api.ConfigMap{}
	cm.Name = tcpCMName
	return cm
}

func isTCPCM(o client.Object) bool {
	cm, ok := o.(*api.ConfigMap)
	return ok && cm != nil && cm.Name == tcpCMName
}

// TCPEntry is one parsed entry of the tcp-services ConfigMap (same split as configmap.parseService)
type TCPEntry struct {
	Port                                                string // the key: public port
	Svc, SvcPort, InProxy, OutProxy, Crt, Check, CA string
}

// TCPEntries parses the argument of a `tcp~` op (sorted by public port text)
func TCPEntries(arg string) []TCPEntry {
	var res []TCPEntry
	if arg == "-" || arg == "" {
		return res
	}
	m := parseKV(arg)
	for _, k := range SortedKeys(m) {
		f := make([]string, 7)
		for i, v := range strings.Split(m[k], ":") {
			if i < 7 {
				f[i] = v
			}
		}
		res = append(res, TCPEntry{Port: k, Svc: f[0], SvcPort: f[1], InProxy: f[2], OutProxy: f[3], Crt: f[4], Check: f[5], CA: f[6]})
	}
	return res
}

// TCPEntryText renders one entry as `<port>=<value>` (trailing empty fields dropped)
func TCPEntryText(e TCPEntry) string {
	f := []string{e.Svc, e.SvcPort, e.InProxy, e.OutProxy, e.Crt, e.Check, e.CA}
	for len(f) > 2 && f[len(f)-1] == "" {
		f = f[:len(f)-1]
	}
	return e.Port + "=" + strings.Join(f, ":")
}

// TCPOpText renders a whole `tcp~` op
func TCPOpText(es []TCPEntry) string {
	if len(es) == 0 {
		return "tcp~-"
	}
	l := make([]string, len(es))
	for i, e := range es {
		l[i] = TCPEntryText(e)
	}
	return "tcp~" + strings.Join(l, ";")
}

func isCM(o client.Object) bool {
	_, ok := o.(*api.ConfigMap)
	return ok
}

var _ = networking.Ingress{}
