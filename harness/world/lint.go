package world

import (
	"fmt"
	"os"
	"strings"
)

// Lint is the static "would HAProxy load this" pass of C07: every referenced proxy, userlist, map,
// list and certificate file exists; section names, server names and ids are unique.
func Lint(cfg *Config) []string {
	var probs []string
	for _, d := range cfg.Dup {
		probs = append(probs, "duplicate-section:"+d)
	}
	exists := func(f string) bool {
		_, err := os.Stat(f)
		return err == nil
	}
	checkTarget := func(where, name string) {
		if strings.HasPrefix(name, "%[") {
			return
		}
		if !cfg.HasBackend(name) {
			probs = append(probs, fmt.Sprintf("dangling-backend:%s:%s", where, name))
		}
	}
	// a public port of a ConfigMap tcp service (`listen _tcp_*`) that another proxy binds too: HAProxy cannot
	// start both listeners on one address
	binds := map[string][]string{}
	tcpBind := map[string]bool{}
	for _, sec := range cfg.allProxies() {
		for _, l := range sec.Lines {
			if l[0] == "bind" && len(l) > 1 && !strings.HasPrefix(l[1], "unix@") {
				binds[l[1]] = append(binds[l[1]], sec.Name)
				if sec.Kind == "listen" && strings.HasPrefix(sec.Name, "_tcp_") {
					tcpBind[l[1]] = true
				}
			}
		}
	}
	for _, addr := range SortedKeys(binds) {
		if tcpBind[addr] && len(binds[addr]) > 1 {
			probs = append(probs, fmt.Sprintf("duplicate-bind:%s:%s", addr, strings.Join(binds[addr], "+")))
		}
	}
	for _, sec := range cfg.allProxies() {
		names := map[string]bool{}
		ids := map[string]bool{}
		for _, l := range sec.Lines {
			switch l[0] {
			case "use_backend", "default_backend":
				if len(l) > 1 {
					checkTarget(sec.Name, l[1])
				}
			case "server":
				if len(l) > 1 {
					if names[l[1]] {
						probs = append(probs, fmt.Sprintf("duplicate-server:%s:%s", sec.Name, l[1]))
					}
					names[l[1]] = true
					for i := 2; i+1 < len(l); i++ {
						if l[i] == "id" {
							if ids[l[i+1]] {
								probs = append(probs, fmt.Sprintf("duplicate-server-id:%s:%s", sec.Name, l[i+1]))
							}
							ids[l[i+1]] = true
						}
						if l[i] == "crt" || l[i] == "ca-file" || l[i] == "crl-file" {
							if !exists(l[i+1]) {
								probs = append(probs, fmt.Sprintf("missing-file:%s:%s", sec.Name, l[i+1]))
							}
						}
					}
				}
			case "bind":
				for i := 1; i+1 < len(l); i++ {
					switch l[i] {
					case "crt", "ca-file", "crl-file", "ca-verify-file":
						if !exists(l[i+1]) {
							probs = append(probs, fmt.Sprintf("missing-file:%s:%s", sec.Name, l[i+1]))
						}
					case "crt-list":
						if !exists(l[i+1]) {
							probs = append(probs, fmt.Sprintf("missing-crt-list:%s:%s", sec.Name, l[i+1]))
						} else {
							for _, e := range ReadCrtList(l[i+1]) {
								if !exists(e.File) {
									probs = append(probs, fmt.Sprintf("missing-crt:%s:%s", sec.Name, e.File))
								}
								// files named by the bind options of the line (HAProxy refuses the whole
								// configuration when one of them cannot be loaded)
								for k := 0; k+1 < len(e.Opts); k++ {
									if (e.Opts[k] == "ca-file" || e.Opts[k] == "crl-file") && !exists(e.Opts[k+1]) {
										probs = append(probs, fmt.Sprintf("missing-file:%s:%s %s", sec.Name, e.Opts[k], e.Opts[k+1]))
									}
								}
							}
						}
					}
				}
			}
			// map / list files and their values
			for i, t := range l {
				if t == "-f" && i+1 < len(l) && !exists(l[i+1]) {
					probs = append(probs, fmt.Sprintf("missing-list:%s:%s", sec.Name, l[i+1]))
				}
				for _, conv := range splitTop(t, ',') {
					if strings.HasPrefix(conv, "map_") && strings.HasSuffix(conv, ")") {
						j := strings.Index(conv, "(")
						file := splitTop(conv[j+1:len(conv)-1], ',')[0]
						if !exists(file) {
							probs = append(probs, fmt.Sprintf("missing-map:%s:%s", sec.Name, file))
							continue
						}
						// values of backend maps must be proxies
						if strings.Contains(l[1], "req.backend") || strings.Contains(l[1], "req.hostbackend") || strings.Contains(l[1], "req.defaultbackend") {
							for _, kv := range ReadMap(file).Entries {
								// a key without value (redirect-only path of the default host) is legal: the lookup
								// yields an empty name and the dynamic use_backend rule is skipped
								if kv[1] != "" && !cfg.HasBackend(kv[1]) {
									probs = append(probs, fmt.Sprintf("dangling-map-value:%s:%s", sec.Name, kv[1]))
								}
							}
						}
					}
				}
				// userlist references: http_auth(<userlist>)
				if k := strings.Index(t, "http_auth("); k >= 0 {
					rest := t[k+10:]
					if e := strings.Index(rest, ")"); e >= 0 {
						if _, ok := cfg.Userlists[rest[:e]]; !ok {
							probs = append(probs, fmt.Sprintf("dangling-userlist:%s:%s", sec.Name, rest[:e]))
						}
					}
				}
			}
		}
		// path ids used in ACLs must exist in the backend's id maps
		if sec.Kind == "backend" {
			known := backendPathIDs(cfg, sec)
			for _, l := range sec.Lines {
				if containsMapRef(l) {
					continue
				}
				for i, t := range l {
					if pathIDRe.MatchString(t) && t == pathIDRe.FindString(t) && i > 0 {
						if _, ok := known[t]; !ok {
							probs = append(probs, fmt.Sprintf("unknown-path-id:%s:%s", sec.Name, t))
						}
					}
				}
			}
		}
	}
	return probs
}
