package world

import (
	"fmt"
	"net"
	"os"
	"path/filepath"
	"regexp"
	"sort"
	"strings"
	"sync"

	api "k8s.io/api/core/v1"
	discoveryv1 "k8s.io/api/discovery/v1"
	networking "k8s.io/api/networking/v1"
	"sigs.k8s.io/controller-runtime/pkg/client"
	gatewayv1 "sigs.k8s.io/gateway-api/apis/v1"
	gatewayv1alpha2 "sigs.k8s.io/gateway-api/apis/v1alpha2"
	gatewayv1beta1 "sigs.k8s.io/gateway-api/apis/v1beta1"

	convtypes "github.com/jcmoraisjr/haproxy-ingress/pkg/converters/types"
)

// ClassConfig mirrors the command-line options read by IsValidIngress.
type ClassConfig struct {
	IngressClass             string // --ingress-class (annotation value)
	ControllerName           string // spec.controller of our IngressClass
	WatchIngressWithoutClass bool
	IngressClassPrecedence   bool
}

// Cache implements convtypes.Cache and services.IsValidResource over a World. It mirrors
// pkg/controller/services/cache.go (the `c` facade): same resolution, same permission checks,
// same tracking calls. ListOrder, when set, permutes list results (API order is arbitrary).
type Cache struct {
	W         *World
	Tracker   convtypes.Tracker
	Class     ClassConfig
	Dyn       *convtypes.DynamicConfig
	TLSDir    string // where certificate files are materialised
	ListOrder func(keys []string) []string
	mu        sync.Mutex
	Reads     []string // log of object reads "kind:ns/name" (C09)
	LogReads  bool
}

func (c *Cache) logRead(kind, key string) {
	if c.LogReads {
		c.mu.Lock()
		c.Reads = append(c.Reads, kind+":"+key)
		c.mu.Unlock()
	}
}

func buildResourceName(defaultNamespace, kind, resourceName string, allowCrossNamespace bool) (string, string, error) {
	parts := strings.Split(resourceName, "/")
	var ns, name string
	switch len(parts) {
	case 1:
		name = parts[0]
	case 2:
		ns, name = parts[0], parts[1]
	default:
		return "", "", fmt.Errorf("unexpected key format: %q", resourceName)
	}
	if defaultNamespace == "" {
		return ns, name, nil
	}
	if ns == "" {
		return defaultNamespace, name, nil
	}
	if allowCrossNamespace || ns == defaultNamespace {
		return ns, name, nil
	}
	return "", "", fmt.Errorf("trying to read %s '%s' cross namespaces '%s' and '%s', but cross-namespace reading is disabled", kind, resourceName, ns, defaultNamespace)
}

// ---- services.IsValidResource

func (c *Cache) IsValidIngress(ing *networking.Ingress) bool {
	var hasAnn, fromAnn bool
	var ann string
	ann, hasAnn = ing.Annotations["kubernetes.io/ingress.class"]
	if c.Class.WatchIngressWithoutClass {
		fromAnn = !hasAnn || ann == c.Class.IngressClass
	} else {
		fromAnn = hasAnn && ann == c.Class.IngressClass
	}
	var hasClass, fromClass bool
	if className := ing.Spec.IngressClassName; className != nil {
		hasClass = true
		if ingClass, _ := c.GetIngressClass(*className); ingClass != nil {
			fromClass = c.IsValidIngressClass(ingClass)
		}
	}
	if hasAnn {
		if hasClass && fromAnn != fromClass {
			if c.Class.IngressClassPrecedence {
				return fromClass
			}
		}
		return fromAnn
	}
	if hasClass {
		return fromClass
	}
	return fromAnn
}
func (c *Cache) IsValidIngressClass(cls *networking.IngressClass) bool {
	return cls.Spec.Controller == c.Class.ControllerName
}
func (c *Cache) IsValidGatewayA2(*gatewayv1alpha2.Gateway) bool           { return false }
func (c *Cache) IsValidGatewayClassA2(*gatewayv1alpha2.GatewayClass) bool { return false }
func (c *Cache) IsValidGatewayB1(*gatewayv1beta1.Gateway) bool            { return false }
func (c *Cache) IsValidGatewayClassB1(*gatewayv1beta1.GatewayClass) bool  { return false }
func (c *Cache) IsValidGateway(*gatewayv1.Gateway) bool                   { return false }
func (c *Cache) IsValidGatewayClass(*gatewayv1.GatewayClass) bool         { return false }

// ---- convtypes.Cache

func (c *Cache) ExternalNameLookup(externalName string) ([]net.IP, error) {
	return nil, fmt.Errorf("hostname not found")
}

func (c *Cache) GetIngress(ingressName string) (*networking.Ingress, error) {
	c.logRead("ingress", ingressName)
	ing, found := c.W.Ingresses[ingressName]
	if !found {
		return nil, fmt.Errorf("ingress not found: %s", ingressName)
	}
	if !c.IsValidIngress(ing) {
		return nil, fmt.Errorf("ingress class does not match")
	}
	return ing.DeepCopy(), nil
}

func (c *Cache) order(keys []string) []string {
	sort.Strings(keys)
	if c.ListOrder != nil {
		return c.ListOrder(keys)
	}
	return keys
}

func (c *Cache) GetIngressList() ([]*networking.Ingress, error) {
	var res []*networking.Ingress
	for _, k := range c.order(SortedKeys(c.W.Ingresses)) {
		if ing := c.W.Ingresses[k]; c.IsValidIngress(ing) {
			res = append(res, ing.DeepCopy())
		}
	}
	return res, nil
}

func (c *Cache) GetIngressClass(className string) (*networking.IngressClass, error) {
	c.logRead("ingressclass", className)
	if cls, found := c.W.IngressClasses[className]; found {
		return cls.DeepCopy(), nil
	}
	// the real facade returns a non-nil empty object together with the error
	return &networking.IngressClass{}, fmt.Errorf("ingressclass not found: %s", className)
}

func (c *Cache) GetGatewayA2(namespace, name string) (*gatewayv1alpha2.Gateway, error) {
	return nil, fmt.Errorf("gateway api disabled")
}
func (c *Cache) GetGatewayB1(namespace, name string) (*gatewayv1beta1.Gateway, error) {
	return nil, fmt.Errorf("gateway api disabled")
}
func (c *Cache) GetGateway(namespace, name string) (*gatewayv1.Gateway, error) {
	return nil, fmt.Errorf("gateway api disabled")
}
func (c *Cache) GetHTTPRouteA2List() ([]*gatewayv1alpha2.HTTPRoute, error) { return nil, nil }
func (c *Cache) GetHTTPRouteB1List() ([]*gatewayv1beta1.HTTPRoute, error)  { return nil, nil }
func (c *Cache) GetHTTPRouteList() ([]*gatewayv1.HTTPRoute, error)         { return nil, nil }
func (c *Cache) GetTCPRouteList() ([]*gatewayv1alpha2.TCPRoute, error)     { return nil, nil }

func (c *Cache) GetService(defaultNamespace, serviceName string) (*api.Service, error) {
	namespace, name, err := buildResourceName(defaultNamespace, "service", serviceName, c.Dyn.CrossNamespaceServices)
	if err != nil {
		return nil, err
	}
	c.logRead("service", namespace+"/"+name)
	if svc, found := c.W.Services[namespace+"/"+name]; found {
		return svc.DeepCopy(), nil
	}
	return &api.Service{}, fmt.Errorf("service not found: %s/%s", namespace, name)
}

func (c *Cache) GetEndpoints(service *api.Service) (*api.Endpoints, error) {
	key := service.Namespace + "/" + service.Name
	c.logRead("endpoints", key)
	if ep, found := c.W.Endpoints[key]; found {
		return ep.DeepCopy(), nil
	}
	return &api.Endpoints{}, fmt.Errorf("endpoints not found: %s", key)
}

func (c *Cache) GetEndpointSlices(service *api.Service) ([]*discoveryv1.EndpointSlice, error) {
	return nil, nil
}

func (c *Cache) GetConfigMap(configMapName string) (*api.ConfigMap, error) {
	return &api.ConfigMap{}, fmt.Errorf("configmap not found: %s", configMapName)
}

func (c *Cache) GetNamespace(name string) (*api.Namespace, error) {
	if ns, found := c.W.Namespaces[name]; found {
		return ns.DeepCopy(), nil
	}
	return &api.Namespace{}, fmt.Errorf("namespace not found: %s", name)
}

func isTerminatingPod(svc *api.Service, pod *api.Pod) bool {
	if svc.GetNamespace() != pod.GetNamespace() {
		return false
	}
	for k, v := range svc.Spec.Selector {
		if lv, present := pod.Labels[k]; !present || v != lv {
			return false
		}
	}
	return pod.DeletionTimestamp != nil && pod.Status.Reason != "NodeLost" && pod.Status.PodIP != ""
}

func (c *Cache) GetTerminatingPods(service *api.Service, track []convtypes.TrackingRef) ([]*api.Pod, error) {
	var res []*api.Pod
	for _, k := range c.order(SortedKeys(c.W.Pods)) {
		pod := c.W.Pods[k]
		match := true
		for sk, sv := range service.Spec.Selector {
			if pod.Labels[sk] != sv {
				match = false
			}
		}
		if !match {
			continue
		}
		// all pods need to be tracked despite of the terminating status
		c.Tracker.TrackRefName(track, convtypes.ResourcePod, pod.Namespace+"/"+pod.Name)
		if isTerminatingPod(service, pod) {
			res = append(res, pod.DeepCopy())
		}
	}
	return res, nil
}

func (c *Cache) GetPod(podName string) (*api.Pod, error) {
	c.logRead("pod", podName)
	if pod, found := c.W.Pods[podName]; found {
		return pod.DeepCopy(), nil
	}
	return &api.Pod{}, fmt.Errorf("pod not found: %s", podName)
}

func (c *Cache) GetPodNamespace() string { return "ingress-controller" }

var contentProtocolRegex = regexp.MustCompile(`^([a-z]+)://(.*)$`)

func getContentProtocol(input string) (proto, content string) {
	data := contentProtocolRegex.FindStringSubmatch(input)
	if len(data) < 3 {
		return "secret", input
	}
	return data[1], data[2]
}

func (c *Cache) materialise(s *Secret) string {
	fn := filepath.Join(c.TLSDir, s.pemName())
	want := []byte(fmt.Sprintf("CERT %s/%s v%d\n", s.Namespace, s.Name, s.Version))
	if cur, err := os.ReadFile(fn); err != nil || string(cur) != string(want) {
		_ = os.MkdirAll(c.TLSDir, 0o755)
		_ = os.WriteFile(fn, want, 0o644)
	}
	return fn
}

func (c *Cache) GetTLSSecretPath(defaultNamespace, secretName string, track []convtypes.TrackingRef) (file convtypes.CrtFile, err error) {
	proto, content := getContentProtocol(secretName)
	if proto == "file" {
		if _, err := os.Stat(content); err != nil {
			return file, err
		}
		return convtypes.CrtFile{Filename: content, SHA1Hash: "-"}, nil
	} else if proto != "secret" {
		return file, fmt.Errorf("unsupported protocol: %s", proto)
	}
	namespace, name, err := buildResourceName(defaultNamespace, "secret", content, c.Dyn.CrossNamespaceSecretCertificate)
	if err != nil {
		return file, err
	}
	c.Tracker.TrackRefName(track, convtypes.ResourceSecret, namespace+"/"+name)
	c.logRead("secret", namespace+"/"+name)
	s, found := c.W.Secrets[namespace+"/"+name]
	if !found {
		return file, fmt.Errorf("secret not found: %s/%s", namespace, name)
	}
	if s.Kind != "tls" {
		return file, fmt.Errorf("secret '%s/%s' does not have keys 'tls.crt' and 'tls.key'", namespace, name)
	}
	return convtypes.CrtFile{Filename: c.materialise(s), SHA1Hash: s.hash(), Certificate: s.certificate()}, nil
}

func (c *Cache) GetCASecretPath(defaultNamespace, secretName string, track []convtypes.TrackingRef) (ca, crl convtypes.File, err error) {
	proto, content := getContentProtocol(secretName)
	if proto == "file" {
		if content == "" {
			return ca, crl, fmt.Errorf("empty file name")
		}
		if _, err := os.Stat(content); err != nil {
			return ca, crl, err
		}
		return convtypes.File{Filename: content, SHA1Hash: "-"}, crl, nil
	} else if proto != "secret" {
		return ca, crl, fmt.Errorf("unsupported protocol: %s", proto)
	}
	namespace, name, err := buildResourceName(defaultNamespace, "secret", content, c.Dyn.CrossNamespaceSecretCA)
	if err != nil {
		return ca, crl, err
	}
	c.Tracker.TrackRefName(track, convtypes.ResourceSecret, namespace+"/"+name)
	c.logRead("secret", namespace+"/"+name)
	s, found := c.W.Secrets[namespace+"/"+name]
	if !found {
		return ca, crl, fmt.Errorf("secret not found: %s/%s", namespace, name)
	}
	if s.Kind != "ca" {
		return ca, crl, fmt.Errorf("secret '%s/%s' does not have key 'ca.crt'", namespace, name)
	}
	return convtypes.File{Filename: c.materialise(s), SHA1Hash: s.hash()}, crl, nil
}

func (c *Cache) GetDHSecretPath(defaultNamespace, secretName string) (convtypes.File, error) {
	return convtypes.File{}, fmt.Errorf("secret not found: %s", secretName)
}

func (c *Cache) GetPasswdSecretContent(defaultNamespace, secretName string, track []convtypes.TrackingRef) ([]byte, error) {
	proto, content := getContentProtocol(secretName)
	if proto == "file" {
		return os.ReadFile(content)
	} else if proto != "secret" {
		return nil, fmt.Errorf("unsupported protocol: %s", proto)
	}
	namespace, name, err := buildResourceName(defaultNamespace, "secret", content, c.Dyn.CrossNamespaceSecretPasswd)
	if err != nil {
		return nil, err
	}
	c.Tracker.TrackRefName(track, convtypes.ResourceSecret, namespace+"/"+name)
	c.logRead("secret", namespace+"/"+name)
	s, found := c.W.Secrets[namespace+"/"+name]
	if !found {
		return nil, fmt.Errorf("secret not found: %s/%s", namespace, name)
	}
	if s.Kind != "passwd" {
		return nil, fmt.Errorf("secret '%s/%s' does not have file/key 'auth'", namespace, name)
	}
	return []byte(s.Passwd), nil
}

func (c *Cache) SwapChangedObjects() *convtypes.ChangedObjects { return &convtypes.ChangedObjects{} }
func (c *Cache) UpdateStatus(client.Object)                    {}
