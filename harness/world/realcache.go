package world

import (
	"context"
	"crypto/ed25519"
	"crypto/sha256"
	"crypto/x509"
	"crypto/x509/pkix"
	"encoding/pem"
	"fmt"
	"math/big"
	"os"
	"path/filepath"
	"strings"
	"sync"
	"time"

	api "k8s.io/api/core/v1"
	"sigs.k8s.io/controller-runtime/pkg/client"

	ctrlconfig "github.com/jcmoraisjr/haproxy-ingress/pkg/controller/config"
	"github.com/jcmoraisjr/haproxy-ingress/pkg/controller/services"
	convtypes "github.com/jcmoraisjr/haproxy-ingress/pkg/converters/types"

	"hapverif/xnsworld"
)

// Real-cache mode: the pipeline reads the cluster through the REAL cache facade of
// pkg/controller/services (hook VerifCreateCacheFacade) over a controller-runtime fake client that is
// kept in step with the World by the informer events, instead of the mirror in cache.go.
// Secrets carry real, deterministic (ed25519) certificates so that two pipelines and two processes
// produce byte-identical files.

type pemPair struct{ crt, key []byte }

var (
	pemMu    sync.Mutex
	pemCache = map[string]pemPair{}
	pemNames = map[string]string{} // sha256 of certificate PEM -> "ns/name@version"
)

var certEpoch = time.Date(2024, 1, 1, 0, 0, 0, 0, time.UTC)

func detCert(id string, dns []string, isCA bool) pemPair {
	pemMu.Lock()
	defer pemMu.Unlock()
	// the certificate is a function of everything that goes into it (same bytes in every process)
	ckey := fmt.Sprintf("%s|%s|%v", id, strings.Join(dns, "+"), isCA)
	if p, ok := pemCache[ckey]; ok {
		return p
	}
	seed := sha256.Sum256([]byte("hapverif:" + ckey))
	priv := ed25519.NewKeyFromSeed(seed[:])
	cn := id
	if len(dns) > 0 {
		cn = dns[0]
	}
	tmpl := x509.Certificate{
		SerialNumber:          big.NewInt(0).SetBytes(seed[:8]),
		Subject:               pkix.Name{CommonName: cn},
		NotBefore:             certEpoch,
		NotAfter:              certEpoch.Add(20 * 365 * 24 * time.Hour),
		KeyUsage:              x509.KeyUsageDigitalSignature | x509.KeyUsageCertSign,
		ExtKeyUsage:           []x509.ExtKeyUsage{x509.ExtKeyUsageServerAuth, x509.ExtKeyUsageClientAuth},
		BasicConstraintsValid: true,
		IsCA:                  isCA,
		DNSNames:              dns,
	}
	der, err := x509.CreateCertificate(nil, &tmpl, &tmpl, priv.Public(), priv)
	if err != nil {
		panic(err)
	}
	kder, err := x509.MarshalPKCS8PrivateKey(priv)
	if err != nil {
		panic(err)
	}
	p := pemPair{
		crt: pem.EncodeToMemory(&pem.Block{Type: "CERTIFICATE", Bytes: der}),
		key: pem.EncodeToMemory(&pem.Block{Type: "PRIVATE KEY", Bytes: kder}),
	}
	pemCache[ckey] = p
	pemNames[fmt.Sprintf("%x", sha256.Sum256(p.crt))] = id
	return p
}

// ContentName maps the content of a certificate file written by the pipeline (mirror mode: "CERT ns/name vN",
// real mode: PEM) to "ns/name@version" ("default" for the fake certificate); ok=false if unknown.
func ContentName(content string) (string, bool) {
	t := strings.TrimSpace(content)
	if t == "FAKE" {
		return "default", true
	}
	f := strings.Fields(t)
	if len(f) == 3 && f[0] == "CERT" && strings.HasPrefix(f[2], "v") {
		return f[1] + "@" + f[2][1:], true
	}
	// PEM: first CERTIFICATE block
	rest := []byte(content)
	for len(rest) > 0 {
		var b *pem.Block
		b, rest = pem.Decode(rest)
		if b == nil {
			break
		}
		if b.Type == "CERTIFICATE" {
			h := fmt.Sprintf("%x", sha256.Sum256(pem.EncodeToMemory(b)))
			pemMu.Lock()
			id, ok := pemNames[h]
			pemMu.Unlock()
			if ok {
				if id == "_fake" {
					return "default", true
				}
				// the chain behind the leaf is part of the identity (version = leaf + ChainStep * chain variant)
				chain := 0
				for len(rest) > 0 {
					var cb *pem.Block
					cb, rest = pem.Decode(rest)
					if cb == nil {
						break
					}
					if cb.Type != "CERTIFICATE" {
						continue
					}
					pemMu.Lock()
					cid, cok := pemNames[fmt.Sprintf("%x", sha256.Sum256(pem.EncodeToMemory(cb)))]
					pemMu.Unlock()
					var k int
					if !cok {
						return "", false
					}
					if _, err := fmt.Sscanf(cid, "_chain%d", &k); err != nil {
						return "", false
					}
					chain = k
				}
				if chain > 0 {
					if i := strings.LastIndex(id, "@"); i > 0 {
						var v int
						if _, err := fmt.Sscanf(id[i+1:], "%d", &v); err == nil {
							return fmt.Sprintf("%s@%d", id[:i], v+ChainStep*chain), true
						}
					}
					return "", false
				}
				return id, true
			}
			return "", false
		}
	}
	return "", false
}

// typed Secret with real content for the facade
func (s *Secret) RealObject() *api.Secret {
	o := &api.Secret{}
	o.Namespace, o.Name = s.Namespace, s.Name
	o.ResourceVersion = ""
	id := s.contentID()
	o.Data = map[string][]byte{}
	switch s.Kind {
	case "tls":
		p := detCert(s.leafID(), s.DNSNames, false)
		o.Type = api.SecretTypeTLS
		o.Data[api.TLSCertKey] = p.crt
		if k := s.chainVariant(); k > 0 {
			// same leaf and key, another intermediate chain
			o.Data[api.TLSCertKey] = append(append([]byte(nil), p.crt...), detCert(fmt.Sprintf("_chain%d", k), nil, true).crt...)
		}
		o.Data[api.TLSPrivateKeyKey] = p.key
	case "ca":
		p := detCert(id, nil, true)
		o.Data["ca.crt"] = p.crt
	case "passwd":
		o.Data["auth"] = []byte(s.Passwd)
	default:
		o.Data["junk"] = []byte(fmt.Sprint(s.Version))
	}
	return o
}

type realCache struct {
	cli    *xnsworld.LogClient
	facade services.VerifCache
	cfg    *ctrlconfig.Config
}

func newRealCache(dir string, opt Options, tracker convtypes.Tracker, dyn *convtypes.DynamicConfig) (*realCache, convtypes.CrtFile, error) {
	ssl := filepath.Join(dir, "ssl")
	for _, d := range []string{"crt", "cacrt", "crl", "dh"} {
		if err := os.MkdirAll(filepath.Join(ssl, d), 0o755); err != nil {
			return nil, convtypes.CrtFile{}, err
		}
	}
	cfg := &ctrlconfig.Config{
		AnnPrefix:                []string{strings.TrimSuffix(AnnPrefix, "/")},
		ControllerName:           opt.Class.ControllerName,
		DefaultDirCerts:          filepath.Join(ssl, "crt"),
		DefaultDirCACerts:        filepath.Join(ssl, "cacrt"),
		DefaultDirCrl:            filepath.Join(ssl, "crl"),
		DefaultDirDHParam:        filepath.Join(ssl, "dh"),
		IngressClass:             opt.Class.IngressClass,
		IngressClassPrecedence:   opt.Class.IngressClassPrecedence,
		WatchIngressWithoutClass: opt.Class.WatchIngressWithoutClass,
		ElectionNamespace:        "ingress-controller",
		ConfigMapName:            opt.ConfigMapName,
	}
	rc := &realCache{cli: xnsworld.NewClient(), cfg: cfg}
	rc.facade = services.VerifCreateCacheFacade(context.Background(), rc.cli, cfg, tracker, services.CreateSSLCerts(cfg), dyn, func(client.Object) {})
	fp := detCert("_fake", []string{"localhost"}, false)
	fakeFile := filepath.Join(ssl, "crt", "_fake-default.pem")
	if err := os.WriteFile(fakeFile, append(append([]byte{}, fp.crt...), fp.key...), 0o600); err != nil {
		return nil, convtypes.CrtFile{}, err
	}
	blk, _ := pem.Decode(fp.crt)
	parsed, err := x509.ParseCertificate(blk.Bytes)
	if err != nil {
		return nil, convtypes.CrtFile{}, err
	}
	return rc, convtypes.CrtFile{Filename: fakeFile, SHA1Hash: "fake", Certificate: parsed}, nil
}

// apply mirrors one informer event into the fake client (the informer cache)
func (rc *realCache) apply(op string, obj client.Object) {
	ctx := context.Background()
	if s, ok := obj.(*api.Secret); ok && s.Data["v"] != nil {
		return // placeholder secret objects of the mirror are replaced by the caller
	}
	o := obj.DeepCopyObject().(client.Object)
	o.SetResourceVersion("")
	terminating := o.GetDeletionTimestamp() != nil
	if terminating {
		// the fake client only marks an object as terminating through Delete on an object with a finalizer
		o.SetDeletionTimestamp(nil)
		o.SetFinalizers([]string{"hapverif/terminating"})
	}
	cur := o.DeepCopyObject().(client.Object)
	exists := rc.cli.Get(ctx, client.ObjectKeyFromObject(o), cur) == nil
	switch op {
	case "delete":
		if exists && len(cur.GetFinalizers()) > 0 {
			cur.SetFinalizers(nil)
			_ = rc.cli.Update(ctx, cur)
			if rc.cli.Get(ctx, client.ObjectKeyFromObject(o), cur) != nil {
				return
			}
		}
		_ = rc.cli.Delete(ctx, o)
	default:
		if exists && cur.GetDeletionTimestamp() != nil {
			// re-create instead of updating a terminating object
			cur.SetFinalizers(nil)
			_ = rc.cli.Update(ctx, cur)
			_ = rc.cli.Delete(ctx, cur)
			exists = false
		}
		if !exists {
			_ = rc.cli.Create(ctx, o)
		} else {
			o.SetResourceVersion(cur.GetResourceVersion())
			_ = rc.cli.Update(ctx, o)
		}
		if terminating {
			_ = rc.cli.Delete(ctx, o)
		}
	}
}
