package world

// Shrink removes operations from a failing history while it keeps failing (greedy delta debugging),
// then tries to simplify the ingress operations that are left.
func Shrink(ops []string, fails func([]string) bool, budget int) []string {
	cur := append([]string(nil), ops...)
	tries := 0
	for chunk := len(cur) / 2; chunk >= 1; {
		removed := false
		for i := 0; i+chunk <= len(cur) && tries < budget; {
			cand := append(append([]string(nil), cur[:i]...), cur[i+chunk:]...)
			tries++
			if len(cand) > 0 && fails(cand) {
				cur = cand
				removed = true
			} else {
				i += chunk
			}
		}
		if !removed || chunk > len(cur) {
			chunk /= 2
		}
		if tries >= budget {
			break
		}
	}
	// simplify ingress specs
	for i := range cur {
		if len(cur[i]) < 5 || (cur[i][:4] != "ing+" && cur[i][:4] != "ing~") {
			continue
		}
		spec, err := ParseIngress(cur[i][4:])
		if err != nil {
			continue
		}
		try := func(mod func(s *IngressSpec)) {
			if tries >= budget {
				return
			}
			s2 := spec
			s2.Annotations = map[string]string{}
			for k, v := range spec.Annotations {
				s2.Annotations[k] = v
			}
			s2.Rules = append([]RuleSpec(nil), spec.Rules...)
			s2.TLS = append([]TLSSpec(nil), spec.TLS...)
			mod(&s2)
			cand := append([]string(nil), cur...)
			cand[i] = cur[i][:4] + IngressText(s2)
			tries++
			if cand[i] != cur[i] && fails(cand) {
				cur = cand
				spec = s2
			}
		}
		for k := range spec.Annotations {
			k := k
			try(func(s *IngressSpec) { delete(s.Annotations, k) })
		}
		try(func(s *IngressSpec) { s.TLS = nil })
		try(func(s *IngressSpec) { s.DefaultBackend = nil })
		for j := len(spec.Rules) - 1; j >= 0; j-- {
			j := j
			try(func(s *IngressSpec) {
				if j < len(s.Rules) {
					s.Rules = append(s.Rules[:j:j], s.Rules[j+1:]...)
				}
			})
		}
		for j := range spec.Rules {
			j := j
			try(func(s *IngressSpec) {
				if j < len(s.Rules) && len(s.Rules[j].Paths) > 1 {
					r := s.Rules[j]
					r.Paths = r.Paths[:1]
					s.Rules[j] = r
				}
			})
		}
	}
	return cur
}
