// Package world: a small Kubernetes cluster state, a cache facade over it that mirrors
// pkg/controller/services/cache.go, and a pipeline made of the REAL watchers, converters,
// tracker and haproxy.Instance writing real files and talking to a simulated HAProxy.
package world

import (
	"crypto/sha1"
	"crypto/x509"
	"crypto/x509/pkix"
	"fmt"
	"sort"
	"strings"
	"time"

	api "k8s.io/api/core/v1"
	networking "k8s.io/api/networking/v1"
	metav1 "k8s.io/apimachinery/pkg/apis/meta/v1"
	"k8s.io/apimachinery/pkg/types"
	"k8s.io/apimachinery/pkg/util/intstr"
)

// Secret is the content of a v1.Secret as far as the controller reads it.
type Secret struct {
	Namespace, Name string
	Kind            string // "tls", "ca", "passwd", "bad" (no usable key)
	Version         int    // content version: a new version is a new certificate / bundle
	DNSNames        []string
	Passwd          string
}

// World is the cluster state. Objects are stored by "ns/name" ("name" for cluster scoped).
type World struct {
	Ingresses      map[string]*networking.Ingress
	IngressClasses map[string]*networking.IngressClass
	Services       map[string]*api.Service
	Endpoints      map[string]*api.Endpoints
	Secrets        map[string]*Secret
	Pods           map[string]*api.Pod
	Namespaces     map[string]*api.Namespace
	GlobalConfig   map[string]string // data of the global ConfigMap; nil = no ConfigMap object
	TCPConfig      map[string]string // data of the --tcp-services-configmap ConfigMap (public port -> entry); nil = no ConfigMap object
	clock          int64
	SplitSubsets   bool // op `opt~subsets=1`
}

func NewWorld() *World {
	return &World{
		Ingresses:      map[string]*networking.Ingress{},
		IngressClasses: map[string]*networking.IngressClass{},
		Services:       map[string]*api.Service{},
		Endpoints:      map[string]*api.Endpoints{},
		Secrets:        map[string]*Secret{},
		Pods:           map[string]*api.Pod{},
		Namespaces:     map[string]*api.Namespace{},
	}
}

var epoch = time.Date(2024, 1, 1, 0, 0, 0, 0, time.UTC)

// Tick returns a fresh creation timestamp (seconds granularity like the API server); with
// `same` the previous one is reused, so creation-time ties are exercised.
func (w *World) Tick(same bool) metav1.Time {
	if !same {
		w.clock++
	}
	return metav1.NewTime(epoch.Add(time.Duration(w.clock) * time.Second))
}

type PathSpec struct {
	Path, Type string // Type: "Exact", "Prefix", "ImplementationSpecific", "" (nil)
	Svc        string
	Port       string // number or name
}
type RuleSpec struct {
	Host  string
	Paths []PathSpec
}
type TLSSpec struct {
	Hosts  []string
	Secret string
}
type IngressSpec struct {
	Namespace, Name string
	Created         metav1.Time
	ClassAnn        *string // kubernetes.io/ingress.class
	ClassName       *string
	Annotations     map[string]string // without prefix; the default prefix haproxy-ingress.github.io/ is added
	Rules           []RuleSpec
	TLS             []TLSSpec
	DefaultBackend  *PathSpec
	Generation      int64
}

const AnnPrefix = "haproxy-ingress.github.io/"

func backendOf(p PathSpec) networking.IngressBackend {
	b := networking.IngressBackend{Service: &networking.IngressServiceBackend{Name: p.Svc}}
	if n := atoi(p.Port); n > 0 {
		b.Service.Port.Number = int32(n)
	} else {
		b.Service.Port.Name = p.Port
	}
	return b
}

func atoi(s string) int {
	n := 0
	if s == "" {
		return 0
	}
	for _, c := range s {
		if c < '0' || c > '9' {
			return 0
		}
		n = n*10 + int(c-'0')
	}
	return n
}

// BuildIngress creates the typed object.
func BuildIngress(s IngressSpec) *networking.Ingress {
	ing := &networking.Ingress{}
	ing.Namespace, ing.Name = s.Namespace, s.Name
	ing.CreationTimestamp = s.Created
	ing.Generation = s.Generation
	ing.UID = types.UID("uid-ing-" + s.Namespace + "-" + s.Name)
	ing.Annotations = map[string]string{}
	for k, v := range s.Annotations {
		ing.Annotations[AnnPrefix+k] = v
	}
	if s.ClassAnn != nil {
		ing.Annotations["kubernetes.io/ingress.class"] = *s.ClassAnn
	}
	ing.Spec.IngressClassName = s.ClassName
	for _, r := range s.Rules {
		rule := networking.IngressRule{Host: r.Host}
		rule.HTTP = &networking.HTTPIngressRuleValue{}
		for _, p := range r.Paths {
			hp := networking.HTTPIngressPath{Path: p.Path, Backend: backendOf(p)}
			if p.Type != "" {
				pt := networking.PathType(p.Type)
				hp.PathType = &pt
			}
			rule.HTTP.Paths = append(rule.HTTP.Paths, hp)
		}
		ing.Spec.Rules = append(ing.Spec.Rules, rule)
	}
	for _, t := range s.TLS {
		ing.Spec.TLS = append(ing.Spec.TLS, networking.IngressTLS{Hosts: t.Hosts, SecretName: t.Secret})
	}
	if s.DefaultBackend != nil {
		b := backendOf(*s.DefaultBackend)
		ing.Spec.DefaultBackend = &b
	}
	return ing
}

type PortSpec struct {
	Name       string
	Port       int
	TargetPort string // number or name
}

func BuildService(ns, name string, ports []PortSpec, ann map[string]string) *api.Service {
	svc := &api.Service{}
	svc.Namespace, svc.Name = ns, name
	svc.Spec.ClusterIP = "10.96.0.1"
	svc.Spec.Selector = map[string]string{"app": name}
	svc.Annotations = map[string]string{}
	for k, v := range ann {
		svc.Annotations[AnnPrefix+k] = v
	}
	for _, p := range ports {
		sp := api.ServicePort{Name: p.Name, Port: int32(p.Port), Protocol: api.ProtocolTCP}
		if n := atoi(p.TargetPort); n > 0 {
			sp.TargetPort = intstr.FromInt(n)
		} else {
			sp.TargetPort = intstr.FromString(p.TargetPort)
		}
		svc.Spec.Ports = append(svc.Spec.Ports, sp)
	}
	return svc
}

type AddrSpec struct {
	IP    string
	Ready bool
	Pod   string // pod name (TargetRef), may be empty
}

// BuildEndpoints: one subset per port set; every port of the service is listed with its numeric target.
func BuildEndpoints(ns, name string, addrs []AddrSpec, ports []PortSpec, numeric map[string]int) *api.Endpoints {
	ep := &api.Endpoints{}
	ep.Namespace, ep.Name = ns, name
	ss := api.EndpointSubset{}
	for _, a := range addrs {
		ea := api.EndpointAddress{IP: a.IP}
		if a.Pod != "" {
			ea.TargetRef = &api.ObjectReference{Kind: "Pod", Namespace: ns, Name: a.Pod}
		}
		if a.Ready {
			ss.Addresses = append(ss.Addresses, ea)
		} else {
			ss.NotReadyAddresses = append(ss.NotReadyAddresses, ea)
		}
	}
	for _, p := range ports {
		n := atoi(p.TargetPort)
		if n == 0 {
			n = numeric[p.TargetPort]
		}
		ss.Ports = append(ss.Ports, api.EndpointPort{Name: p.Name, Port: int32(n), Protocol: api.ProtocolTCP})
	}
	if len(addrs) > 0 {
		ep.Subsets = []api.EndpointSubset{ss}
	}
	return ep
}

// SplitSubsets rewrites an Endpoints object so that every address sits in a subset of its own, all with
// the same ports (legal, what manually managed Endpoints or pods exposing different port sets produce).
func SplitSubsets(ep *api.Endpoints) {
	var out []api.EndpointSubset
	for _, ss := range ep.Subsets {
		for _, a := range ss.Addresses {
			out = append(out, api.EndpointSubset{Addresses: []api.EndpointAddress{a}, Ports: ss.Ports})
		}
		for _, a := range ss.NotReadyAddresses {
			out = append(out, api.EndpointSubset{NotReadyAddresses: []api.EndpointAddress{a}, Ports: ss.Ports})
		}
	}
	ep.Subsets = out
}

func BuildIngressClass(name, controller string) *networking.IngressClass {
	c := &networking.IngressClass{}
	c.Name = name
	c.Spec.Controller = controller
	return c
}

// certificate of a secret: file name and hash are functions of (ns, name, version)
func (s *Secret) pemName() string { return fmt.Sprintf("%s_%s.pem", s.Namespace, s.Name) }
func (s *Secret) hash() string {
	return fmt.Sprintf("%x", sha1.Sum([]byte(s.contentID())))
}

// SharedVersion: versions from here on mean "the same content replicated into several secrets" (one
// wildcard certificate copied to every namespace): the content is a function of the version alone.
const SharedVersion = 1000

// ChainStep: for non-shared versions the certificate (leaf + key) is a function of Version % ChainStep and the
// intermediate chain appended to tls.crt of Version / ChainStep (0 = none): versions 1 and 101 hold the SAME leaf
// and key with a different chain (what appending a forgotten intermediate, or a switch to a cross-signed
// intermediate, looks like). The version as a whole stays the identity of the content.
const ChainStep = 100

func (s *Secret) leafID() string {
	if s.Version >= SharedVersion {
		return s.contentID()
	}
	return fmt.Sprintf("%s/%s@%d", s.Namespace, s.Name, s.Version%ChainStep)
}
func (s *Secret) chainVariant() int {
	if s.Version >= SharedVersion {
		return 0
	}
	return s.Version / ChainStep
}

func (s *Secret) contentID() string {
	if s.Version >= SharedVersion {
		return fmt.Sprintf("shared@%d", s.Version)
	}
	return fmt.Sprintf("%s/%s@%d", s.Namespace, s.Name, s.Version)
}
func (s *Secret) certificate() *x509.Certificate {
	cn := ""
	if len(s.DNSNames) > 0 {
		cn = s.DNSNames[0]
	}
	return &x509.Certificate{
		Subject:  pkix.Name{CommonName: cn},
		DNSNames: append([]string(nil), s.DNSNames...),
		NotAfter: epoch.Add(time.Duration(365+s.Version) * 24 * time.Hour),
	}
}

// typed object for watcher events
func (s *Secret) Object() *api.Secret {
	o := &api.Secret{}
	o.Namespace, o.Name = s.Namespace, s.Name
	o.ResourceVersion = fmt.Sprint(s.Version)
	o.Data = map[string][]byte{"v": []byte(fmt.Sprint(s.Version))}
	return o
}

func SortedKeys[V any](m map[string]V) []string {
	ks := make([]string, 0, len(m))
	for k := range m {
		ks = append(ks, k)
	}
	sort.Strings(ks)
	return ks
}

func splitKey(key string) (ns, name string) {
	if i := strings.Index(key, "/"); i >= 0 {
		return key[:i], key[i+1:]
	}
	return "", key
}

func secs(n int) time.Duration { return time.Duration(n) * time.Second }
