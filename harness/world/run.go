package world

import (
	"fmt"
	"strings"
)

// DefaultOptions of the controller under test.
func DefaultOptions() Options {
	return Options{Class: ClassConfig{IngressClass: "haproxy", ControllerName: OurController}, ConfigMapName: "ingress-controller/haproxy-ingress",
		// the option is set, the ConfigMap object exists only after a `tcp~` op (no op = no event = converter never runs)
		TCPConfigMapName: TCPConfigMapDefault}
}

// TCPConfigMapDefault is the --tcp-services-configmap of DefaultOptions
const TCPConfigMapDefault = "ingress-controller/tcp-services"

// RunResult of a history.
type RunResult struct {
	Long      *Snapshot
	Fresh     *Snapshot
	LongText  string
	FreshText string
	Diff      string // first differing line ("" = equal)
	Err       string
	Reloads   int
	Syncs     int
}

// firstDiff returns a compact description of the first difference of two texts
func firstDiff(a, b string) string {
	la, lb := strings.Split(a, "\n"), strings.Split(b, "\n")
	for i := 0; i < len(la) || i < len(lb); i++ {
		x, y := "<end>", "<end>"
		if i < len(la) {
			x = la[i]
		}
		if i < len(lb) {
			y = lb[i]
		}
		if x != y {
			return fmt.Sprintf("long[%s] fresh[%s]", x, y)
		}
	}
	return ""
}

// RunHistory applies a history to a long-lived pipeline; at the end (and at every sync when
// `everySync`) a fresh pipeline is started on the current cluster state and both normal forms are
// compared. It stops at the first difference.
func RunHistory(ops []string, opt Options, everySync bool) (res RunResult) {
	defer func() {
		if r := recover(); r != nil {
			res.Err = fmt.Sprintf("PANIC: %v", r)
		}
	}()
	w := NewWorld()
	p, err := NewPipeline(w, opt)
	if err != nil {
		res.Err = err.Error()
		return
	}
	defer p.Close()
	reqs, snis := RequestsFor(ops)
	compare := func() bool {
		f, err := NewPipeline(w, opt)
		if err != nil {
			res.Err = err.Error()
			return false
		}
		defer f.Close()
		f.Startup()
		if _, err := f.Reconcile(); err != nil {
			res.Err = "fresh: " + err.Error()
			return false
		}
		res.Long, res.Fresh = p.Snapshot(reqs, snis), f.Snapshot(reqs, snis)
		res.LongText, res.FreshText = res.Long.Text(), res.Fresh.Text()
		res.Diff = firstDiff(res.LongText, res.FreshText)
		return res.Diff == ""
	}
	for i, o := range ops {
		if o == "sync" {
			if _, err := p.Reconcile(); err != nil {
				res.Err = "long: " + err.Error()
				return
			}
			res.Syncs++
			if everySync || i == len(ops)-1 {
				if !compare() {
					res.Reloads = p.Sim.Reloads
					return
				}
			}
			continue
		}
		evs, err := w.Apply(Op{o})
		if err != nil {
			res.Err = err.Error()
			return
		}
		p.Deliver(evs)
	}
	if len(ops) == 0 || ops[len(ops)-1] != "sync" {
		if _, err := p.Reconcile(); err == nil {
			compare()
		}
	}
	res.Reloads = p.Sim.Reloads
	return
}
