package world

import (
	"fmt"
	"os"
	"path/filepath"
	"sort"
	"strconv"
	"strings"
	"sync"
	"time"
)

// Srv is one server of the simulated running HAProxy.
type Srv struct {
	Opts   string // the remaining keywords of the server line (ssl, sni, verify, crt, check …), in the order written
	Name   string
	Addr   string
	Port   int
	State  string // ready | drain | maint
	Weight int
	Cookie string
}

// Fault script for the simulated sockets: the n-th (0 based) occurrence of an action fails.
type Faults struct {
	ReloadSendErr map[int]bool   // `reload` command returns a socket error
	ReloadFailed  map[int]bool   // reload accepted but the new worker fails (show proc reports failed)
	AdminErr      map[int]bool   // n-th admin Send returns a socket error
	AdminBad      map[int]string // n-th admin Send answers this text to every command
}

// Sim plays an external HAProxy: `reload` loads the files on disk, runtime commands change the table.
type Sim struct {
	mu       sync.Mutex
	CfgDir   string
	Reloads  int            // successful reloads
	ReloadTr int            // reload attempts
	AdminTr  int            // admin Send calls
	Failed   int            // failed reload counter reported by `show proc`
	Table    map[string][]*Srv // backend -> servers, as loaded and then changed at run time
	Certs    map[string]string // certificate file -> content held in memory
	Loaded   *Config           // configuration as of the last successful reload
	Cmds     []string          // every admin command received
	Faults   Faults
	pendCert map[string]string
	lastReloadErr bool
	LoadErr  string
	// PreLoad (optional, nil = nothing): extra checks `haproxy -f <dir>` would make before it accepts the
	// files of a reload; an error makes the reload fail (the new worker does not start). Set by C12
	// (response files named by haproxy.cfg must exist).
	PreLoad func(cfgDir string) error
}

func NewSim(cfgDir string) *Sim {
	return &Sim{CfgDir: cfgDir, Table: map[string][]*Srv{}, Certs: map[string]string{}, pendCert: map[string]string{}}
}

type simSock struct {
	s      *Sim
	master bool
}

func (s *Sim) Master() *simSock { return &simSock{s, true} }
func (s *Sim) Admin() *simSock  { return &simSock{s, false} }

func (k *simSock) Address() string    { return "/dev/null" }
func (k *simSock) HasConn() bool      { return true }
func (k *simSock) Unlistening() error { return nil }
func (k *simSock) Close() error       { return nil }

func (k *simSock) Send(observer func(time.Duration), command ...string) ([]string, error) {
	s := k.s
	s.mu.Lock()
	defer s.mu.Unlock()
	out := make([]string, 0, len(command))
	if !k.master {
		n := s.AdminTr
		s.AdminTr++
		if s.Faults.AdminErr[n] {
			return nil, fmt.Errorf("simulated admin socket error")
		}
		if bad, ok := s.Faults.AdminBad[n]; ok {
			for _, cmd := range command {
				if bad == "REFUSE" {
					// what HAProxy itself answers when it refuses this command (the refusals of the `ssl cert`
					// commands echo the certificate file name)
					out = append(out, refusalOf(cmd))
				} else {
					out = append(out, bad)
				}
			}
			s.Cmds = append(s.Cmds, command...)
			return out, nil
		}
	}
	for _, cmd := range command {
		if k.master {
			out = append(out, s.masterCmd(cmd))
			if cmd == "reload" && s.lastReloadErr {
				s.lastReloadErr = false
				return nil, fmt.Errorf("simulated master socket error")
			}
		} else {
			s.Cmds = append(s.Cmds, cmd)
			out = append(out, s.adminCmd(cmd))
		}
	}
	return out, nil
}

func (s *Sim) masterCmd(cmd string) string {
	switch strings.TrimSpace(cmd) {
	case "reload":
		n := s.ReloadTr
		s.ReloadTr++
		if s.Faults.ReloadSendErr[n] {
			s.lastReloadErr = true
			return ""
		}
		if s.Faults.ReloadFailed[n] {
			s.Failed++
			return ""
		}
		if err := s.load(); err != nil {
			s.Failed++
			s.LoadErr = err.Error()
			return ""
		}
		s.Failed = 0
		s.Reloads++
		return ""
	case "show proc":
		return fmt.Sprintf("#<PID>          <type>          <reloads>       <uptime>        <version>\n"+
			"1               master          %d [failed: %d] 0d00h01m28s     2.6.0-sim\n"+
			"# workers\n"+
			"3               worker          0               0d00h00m00s     2.6.0-sim\n"+
			"# old workers\n# programs\n", s.ReloadTr, s.Failed)
	}
	return ""
}

// refusalOf: HAProxy's own wording of a refused runtime command
func refusalOf(cmd string) string {
	f := strings.Fields(cmd)
	switch {
	case len(f) >= 4 && f[0] == "set" && f[1] == "ssl" && f[2] == "cert":
		return "Can't replace a certificate which is not referenced by the configuration!\nCan't update " + f[3] + "!\n"
	case len(f) >= 4 && f[0] == "commit" && f[1] == "ssl" && f[2] == "cert":
		return "No ongoing transaction! !\nCan't commit " + f[3] + "!\n"
	case len(f) >= 3 && f[0] == "set" && f[1] == "server":
		return "No such server."
	}
	return "Unknown command."
}

// load parses the files on disk the way `haproxy -f <dir>` reads them
func (s *Sim) load() error {
	if s.PreLoad != nil {
		if err := s.PreLoad(s.CfgDir); err != nil {
			return err
		}
	}
	cfg, err := LoadConfig(s.CfgDir)
	if err != nil {
		return err
	}
	s.Loaded = cfg
	s.Table = map[string][]*Srv{}
	for name, sec := range cfg.Backends {
		s.Table[name] = serversOf(sec)
	}
	s.Certs = map[string]string{}
	for _, f := range cfg.CrtFiles() {
		if b, err := os.ReadFile(f); err == nil {
			s.Certs[f] = string(b)
		}
	}
	return nil
}

func serversOf(sec *Section) []*Srv {
	var res []*Srv
	for _, l := range sec.Lines {
		if len(l) >= 3 && l[0] == "server" {
			srv := &Srv{Name: l[1], State: "ready", Weight: 1}
			if i := strings.LastIndex(l[2], ":"); i > 0 {
				srv.Addr = l[2][:i]
				srv.Port, _ = strconv.Atoi(l[2][i+1:])
			} else {
				srv.Addr = l[2]
			}
			var opts []string
			for j := 3; j < len(l); j++ {
				switch l[j] {
				case "disabled":
					srv.State = "maint"
				case "weight":
					if j+1 < len(l) {
						srv.Weight, _ = strconv.Atoi(l[j+1])
						j++
					}
				case "cookie":
					if j+1 < len(l) {
						srv.Cookie = l[j+1]
						j++
					}
				case "id":
					// a label (C07 judges uniqueness)
					j++
				default:
					// every other keyword of the line is behaviour: ssl / sni / verify / crt / ca-file / check … / send-proxy / proto / alpn
					opts = append(opts, l[j])
				}
			}
			srv.Opts = strings.Join(opts, " ")
			if srv.State == "ready" && srv.Weight == 0 {
				srv.State = "drain"
			}
			res = append(res, srv)
		}
	}
	return res
}

func (s *Sim) adminCmd(cmd string) string {
	f := strings.Fields(cmd)
	switch {
	case len(f) >= 5 && f[0] == "set" && f[1] == "server":
		bs := strings.SplitN(f[2], "/", 2)
		if len(bs) != 2 {
			return "Require 'backend/server'."
		}
		var srv *Srv
		for _, x := range s.Table[bs[0]] {
			if x.Name == bs[1] {
				srv = x
			}
		}
		if srv == nil {
			return "No such server."
		}
		switch f[3] {
		case "addr":
			old := srv.Addr
			srv.Addr = f[4]
			msg := "no need to change the addr"
			if old != f[4] {
				msg = fmt.Sprintf("IP changed from '%s' to '%s'", old, f[4])
			}
			if len(f) >= 7 && f[5] == "port" {
				p, _ := strconv.Atoi(f[6])
				if p != srv.Port {
					msg += fmt.Sprintf(", port changed from '%d' to '%d'", srv.Port, p)
				} else {
					msg += ", no need to change the port"
				}
				srv.Port = p
			}
			return msg + " by 'stats socket command'"
		case "state":
			srv.State = f[4]
			return ""
		case "weight":
			srv.Weight, _ = strconv.Atoi(f[4])
			return ""
		}
		return "unknown set server keyword"
	case len(f) >= 4 && f[0] == "set" && f[1] == "ssl" && f[2] == "cert":
		file := f[3]
		if _, known := s.Certs[file]; !known {
			return "Can't replace a certificate which is not referenced by the configuration!\nCan't update " + file + "!\n"
		}
		i := strings.Index(cmd, "<<\n")
		payload := ""
		if i >= 0 {
			payload = strings.TrimSuffix(cmd[i+3:], "\n")
		}
		s.pendCert[file] = payload
		return "Transaction created for certificate " + file + "!\n"
	case len(f) >= 4 && f[0] == "commit" && f[1] == "ssl" && f[2] == "cert":
		file := f[3]
		p, ok := s.pendCert[file]
		if !ok {
			return "No ongoing transaction! !\nCan't commit " + file + "!\n"
		}
		delete(s.pendCert, file)
		s.Certs[file] = p
		return "Committing " + file + ".\nSuccess!\n"
	}
	return ""
}

// RunningTable is the canonical text of the running server table (maint servers: name only).
func (s *Sim) RunningTable() []string {
	s.mu.Lock()
	defer s.mu.Unlock()
	return tableText(s.Table)
}

func tableText(t map[string][]*Srv) []string {
	var res []string
	for _, b := range SortedKeys(t) {
		var srvs []string
		for _, x := range t[b] {
			if x.State == "maint" {
				srvs = append(srvs, x.Name+"=maint")
			} else {
				st := "w" + strconv.Itoa(x.Weight)
				if x.Weight == 0 || x.State == "drain" {
					st = "drain"
				}
				srvs = append(srvs, fmt.Sprintf("%s=%s:%d:%s", x.Name, x.Addr, x.Port, st))
			}
		}
		sort.Strings(srvs)
		res = append(res, b+" "+strings.Join(srvs, ","))
	}
	return res
}

// DiskTable is what HAProxy would hold if it loaded the files on disk now.
func DiskTable(cfgDir string) ([]string, error) {
	cfg, err := LoadConfig(cfgDir)
	if err != nil {
		return nil, err
	}
	t := map[string][]*Srv{}
	for name, sec := range cfg.Backends {
		t[name] = serversOf(sec)
	}
	return tableText(t), nil
}

var _ = filepath.Join
