package world

import (
	"fmt"
	"os"
	"path/filepath"
	"sort"
	"strings"
)

// Section of a HAProxy configuration file: tokenised lines (quotes removed, comments dropped).
type Section struct {
	Kind  string
	Name  string
	File  string
	Lines [][]string
}

// Config is everything `haproxy -f <dir>` would read: all *.cfg files of the directory in name order.
type Config struct {
	Dir       string
	Global    []*Section
	Defaults  []*Section
	Frontends map[string]*Section
	Backends  map[string]*Section
	Listens   map[string]*Section
	Userlists map[string]*Section
	Others    []*Section
	Dup       []string // sections declared twice (HAProxy refuses them)
	Files     []string
}

var sectionKinds = map[string]bool{
	"global": true, "defaults": true, "frontend": true, "backend": true, "listen": true, "userlist": true,
	"resolvers": true, "peers": true, "cache": true, "mailers": true, "program": true, "ring": true, "http-errors": true,
}

// tokenize splits a configuration line like HAProxy does for the subset the template emits:
// blanks separate words, '...' and "..." quote, backslash escapes one character, # starts a comment.
func tokenize(line string) []string {
	var toks []string
	var cur strings.Builder
	in := false
	var quote byte
	has := false
	for i := 0; i < len(line); i++ {
		ch := line[i]
		switch {
		case quote != 0:
			if ch == quote {
				quote = 0
			} else if ch == '\\' && quote == '"' && i+1 < len(line) {
				i++
				cur.WriteByte(line[i])
			} else {
				cur.WriteByte(ch)
			}
		case ch == '\\' && i+1 < len(line):
			i++
			cur.WriteByte(line[i])
			has = true
		case ch == '\'' || ch == '"':
			quote = ch
			has = true
		case ch == '#':
			i = len(line)
		case ch == ' ' || ch == '\t':
			if has || cur.Len() > 0 {
				toks = append(toks, cur.String())
				cur.Reset()
				has = false
			}
		default:
			cur.WriteByte(ch)
			has = true
		}
	}
	_ = in
	if has || cur.Len() > 0 {
		toks = append(toks, cur.String())
	}
	return toks
}

func LoadConfig(dir string) (*Config, error) {
	files, err := filepath.Glob(filepath.Join(dir, "*.cfg"))
	if err != nil {
		return nil, err
	}
	sort.Strings(files)
	cfg := &Config{Dir: dir, Frontends: map[string]*Section{}, Backends: map[string]*Section{}, Listens: map[string]*Section{}, Userlists: map[string]*Section{}, Files: files}
	for _, f := range files {
		data, err := os.ReadFile(f)
		if err != nil {
			return nil, err
		}
		var cur *Section
		for _, raw := range strings.Split(string(data), "\n") {
			toks := tokenize(raw)
			if len(toks) == 0 {
				continue
			}
			indented := strings.HasPrefix(raw, " ") || strings.HasPrefix(raw, "\t")
			if !indented && sectionKinds[toks[0]] {
				cur = &Section{Kind: toks[0], File: filepath.Base(f)}
				if len(toks) > 1 {
					cur.Name = toks[1]
				}
				cfg.add(cur)
				continue
			}
			if cur == nil {
				return nil, fmt.Errorf("%s: line outside a section: %s", f, raw)
			}
			cur.Lines = append(cur.Lines, toks)
		}
	}
	return cfg, nil
}

func (c *Config) add(s *Section) {
	put := func(m map[string]*Section) {
		if _, dup := m[s.Name]; dup {
			c.Dup = append(c.Dup, s.Kind+" "+s.Name)
		}
		m[s.Name] = s
	}
	switch s.Kind {
	case "global":
		c.Global = append(c.Global, s)
	case "defaults":
		c.Defaults = append(c.Defaults, s)
	case "frontend":
		put(c.Frontends)
	case "backend":
		put(c.Backends)
	case "listen":
		put(c.Listens)
	case "userlist":
		put(c.Userlists)
	default:
		c.Others = append(c.Others, s)
	}
}

// proxies that can be the target of use_backend / default_backend
func (c *Config) HasBackend(name string) bool {
	_, b := c.Backends[name]
	_, l := c.Listens[name]
	return b || l
}

// CrtFiles: certificate files referenced by crt-list files and `crt` keywords of bind lines
func (c *Config) CrtFiles() []string {
	seen := map[string]bool{}
	var res []string
	add := func(f string) {
		if f != "" && !seen[f] {
			seen[f] = true
			res = append(res, f)
		}
	}
	for _, sec := range c.allProxies() {
		for _, l := range sec.Lines {
			if l[0] != "bind" {
				continue
			}
			for i := 1; i+1 < len(l); i++ {
				switch l[i] {
				case "crt":
					add(l[i+1])
				case "crt-list":
					for _, e := range ReadCrtList(l[i+1]) {
						add(e.File)
					}
				}
			}
		}
	}
	sort.Strings(res)
	return res
}

func (c *Config) allProxies() []*Section {
	var res []*Section
	for _, k := range SortedKeys(c.Frontends) {
		res = append(res, c.Frontends[k])
	}
	for _, k := range SortedKeys(c.Listens) {
		res = append(res, c.Listens[k])
	}
	for _, k := range SortedKeys(c.Backends) {
		res = append(res, c.Backends[k])
	}
	return res
}

// CrtEntry is one line of a crt-list: certificate file and SNI filters ("!*" style negative filters kept)
type CrtEntry struct {
	File    string
	Filters []string
	Opts    []string // the bind options between `[` and `]` (alpn …, ca-file <f>, crl-file <f>, verify …)
}

func ReadCrtList(file string) []CrtEntry {
	data, err := os.ReadFile(file)
	if err != nil {
		return nil
	}
	var res []CrtEntry
	for _, raw := range strings.Split(string(data), "\n") {
		toks := tokenize(raw)
		if len(toks) == 0 {
			continue
		}
		e := CrtEntry{File: toks[0]}
		in := false
		for _, t := range toks[1:] {
			if strings.HasPrefix(t, "[") {
				in = true
				t = t[1:]
			}
			if in {
				closing := strings.HasSuffix(t, "]")
				if t = strings.TrimSuffix(t, "]"); t != "" {
					e.Opts = append(e.Opts, t)
				}
				if closing {
					in = false
				}
				continue
			}
			e.Filters = append(e.Filters, t)
		}
		res = append(res, e)
	}
	return res
}

// MapFile is a HAProxy map: ordered key/value pairs.
type MapFile struct {
	File    string
	Entries [][2]string
	Missing bool
}

func ReadMap(file string) *MapFile {
	m := &MapFile{File: file}
	data, err := os.ReadFile(file)
	if err != nil {
		m.Missing = true
		return m
	}
	for _, raw := range strings.Split(string(data), "\n") {
		raw = strings.TrimSpace(raw)
		if raw == "" || strings.HasPrefix(raw, "#") {
			continue
		}
		f := strings.Fields(raw)
		kv := [2]string{f[0], ""}
		if len(f) > 1 {
			kv[1] = f[1]
		}
		m.Entries = append(m.Entries, kv)
	}
	return m
}
