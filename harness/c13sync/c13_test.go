//go:build verif

// Package c13sync drives the real rate limiters and the real work queue inside a
// testing/synctest bubble (virtual clock, exact timestamps). Needs go1.26.8.
// It prints one case line per arrival pattern: the observed run START timestamps.
// `reloadd` / `ingressd` lines carry per-run durations: the sync callback sleeps that long inside the
// bubble (virtual time, exact), so that notifications arrive WHILE a run occupies the single worker and
// WorkQueue.process calls the limiter's Forget (and Done) at the end of the run.
package c13sync

import (
	"bufio"
	"context"
	"fmt"
	"os"
	"sort"
	"strconv"
	"strings"
	"sync"
	"testing"
	"testing/synctest"
	"time"

	"github.com/jcmoraisjr/haproxy-ingress/pkg/utils/workqueue"

	"hapverif/gen"
)

type ev struct {
	t    time.Duration
	full bool
}

func fmtEvs(evs []ev, tagged bool) string {
	if len(evs) == 0 {
		return "-"
	}
	s := make([]string, len(evs))
	for i, e := range evs {
		s[i] = strconv.FormatInt(int64(e.t), 10)
		if tagged {
			if e.full {
				s[i] += ":f"
			} else {
				s[i] += ":p"
			}
		}
	}
	return strings.Join(s, ",")
}

// runReload: real ReloadHAProxyRateLimiter + real WorkQueue[any]
// The k-th invocation of the sync callback (a "run") records its START and then takes durs[k] of
// virtual time (0 beyond the list): the single worker is occupied until then, after which
// WorkQueue.process calls Forget and Done.
func runReload(t *testing.T, interval time.Duration, arrivals []ev, durs []time.Duration) (runs []ev) {
	synctest.Test(t, func(t *testing.T) {
		var mu sync.Mutex
		start := time.Now()
		q := workqueue.New(func(ctx context.Context, _ any) error {
			mu.Lock()
			k := len(runs)
			runs = append(runs, ev{t: time.Since(start)})
			mu.Unlock()
			if k < len(durs) && durs[k] > 0 {
				time.Sleep(durs[k])
			}
			return nil
		}, workqueue.ReloadHAProxyRateLimiter(interval))
		ctx, cancel := context.WithCancel(context.Background())
		done := make(chan struct{})
		go func() { _ = q.Start(ctx); close(done) }()
		for _, a := range arrivals {
			if d := a.t - time.Since(start); d > 0 {
				time.Sleep(d)
			}
			q.Add(nil)
			synctest.Wait()
		}
		time.Sleep(100*interval + total(durs))
		synctest.Wait()
		cancel()
		<-done
	})
	return runs
}

// runIngress: real IngressReconcilerRateLimiter + real WorkQueue[bool] (item = fullsync flag)
func runIngress(t *testing.T, rate float64, wait time.Duration, arrivals []ev, durs []time.Duration) (runs []ev) {
	synctest.Test(t, func(t *testing.T) {
		var mu sync.Mutex
		start := time.Now()
		q := workqueue.New(func(ctx context.Context, full bool) error {
			mu.Lock()
			k := len(runs)
			runs = append(runs, ev{t: time.Since(start), full: full})
			mu.Unlock()
			if k < len(durs) && durs[k] > 0 {
				time.Sleep(durs[k])
			}
			return nil
		}, workqueue.IngressReconcilerRateLimiter[bool](rate, wait))
		ctx, cancel := context.WithCancel(context.Background())
		done := make(chan struct{})
		go func() { _ = q.Start(ctx); close(done) }()
		for _, a := range arrivals {
			if d := a.t - time.Since(start); d > 0 {
				time.Sleep(d)
			}
			q.Add(a.full)
			synctest.Wait()
		}
		time.Sleep(time.Duration(100*float64(time.Second)/rate) + 100*wait + total(durs))
		synctest.Wait()
		cancel()
		<-done
	})
	return runs
}

var out *bufio.Writer
var stats = map[string]int{}

func total(durs []time.Duration) (sum time.Duration) {
	for _, d := range durs {
		if d > 0 {
			sum += d
		}
	}
	return sum
}

func fmtDurs(durs []time.Duration) string {
	if len(durs) == 0 {
		return "-"
	}
	s := make([]string, len(durs))
	for i, d := range durs {
		s[i] = strconv.FormatInt(int64(d), 10)
	}
	return strings.Join(s, ",")
}

func parseDurs(s string) []time.Duration {
	var res []time.Duration
	if s == "-" || s == "" {
		return nil
	}
	for _, p := range strings.Split(s, ",") {
		n, _ := strconv.ParseInt(p, 10, 64)
		res = append(res, time.Duration(n))
	}
	return res
}

// class of a duration relative to the interval (statistics)
func durClass(durs []time.Duration, interval time.Duration) string {
	c := "zero"
	for _, d := range durs {
		switch {
		case d >= interval:
			return "ge_interval"
		case d > 0:
			c = "lt_interval"
		}
	}
	return c
}

// old line format (instantaneous runs): `C13 reload <interval> <arrivals>`
func emitReload(t *testing.T, interval time.Duration, arr []ev) {
	runs := runReload(t, interval, arr, nil)
	fmt.Fprintf(out, "C13 reload %d %s => %s\n", int64(interval), fmtEvs(arr, false), fmtEvs(runs, false))
	stats[fmt.Sprintf("reload_arrivals_%d", len(arr))]++
}

// `C13 reloadd <interval> <durations> <arrivals>`: the k-th run takes durations[k]
func emitReloadD(t *testing.T, interval time.Duration, durs []time.Duration, arr []ev) {
	runs := runReload(t, interval, arr, durs)
	fmt.Fprintf(out, "C13 reloadd %d %s %s => %s\n", int64(interval), fmtDurs(durs), fmtEvs(arr, false), fmtEvs(runs, false))
	stats[fmt.Sprintf("reloadd_arrivals_%d", len(arr))]++
	stats["reloadd_durations_"+durClass(durs, interval)]++
}

func emitIngress(t *testing.T, rate float64, wait time.Duration, arr []ev) {
	runs := runIngress(t, rate, wait, arr, nil)
	delta := time.Duration(float64(time.Second) / rate)
	fmt.Fprintf(out, "C13 ingress %d %d %s => %s\n", int64(delta), int64(wait), fmtEvs(arr, true), fmtEvs(runs, true))
	stats[fmt.Sprintf("ingress_arrivals_%d", len(arr))]++
}

// `C13 ingressd <delta> <wait> <durations> <arrivals>`
func emitIngressD(t *testing.T, rate float64, wait time.Duration, durs []time.Duration, arr []ev) {
	runs := runIngress(t, rate, wait, arr, durs)
	delta := time.Duration(float64(time.Second) / rate)
	fmt.Fprintf(out, "C13 ingressd %d %d %s %s => %s\n", int64(delta), int64(wait), fmtDurs(durs), fmtEvs(arr, true), fmtEvs(runs, true))
	stats[fmt.Sprintf("ingressd_arrivals_%d", len(arr))]++
	stats["ingressd_durations_"+durClass(durs, delta)]++
}

// all tuples of length n over the set
func tuples(set []time.Duration, n int, f func([]time.Duration)) {
	cur := make([]time.Duration, n)
	var rec func(i int)
	rec = func(i int) {
		if i == n {
			f(append([]time.Duration(nil), cur...))
			return
		}
		for _, d := range set {
			cur[i] = d
			rec(i + 1)
		}
	}
	rec(0)
}

// subsets of the grid with at most k elements, in increasing order
func subsets(grid []time.Duration, k int, f func([]time.Duration)) {
	var rec func(start int, cur []time.Duration)
	rec = func(start int, cur []time.Duration) {
		if len(cur) > 0 {
			f(cur)
		}
		if len(cur) == k {
			return
		}
		for i := start; i < len(grid); i++ {
			rec(i+1, append(cur, grid[i]))
		}
	}
	rec(0, nil)
}

func parseEvs(s string) []ev {
	var res []ev
	if s == "-" || s == "" {
		return nil
	}
	for _, p := range strings.Split(s, ",") {
		f := strings.Split(p, ":")
		n, _ := strconv.ParseInt(f[0], 10, 64)
		res = append(res, ev{t: time.Duration(n), full: len(f) > 1 && f[1] == "f"})
	}
	return res
}

func TestC13(t *testing.T) {
	out = bufio.NewWriterSize(os.Stdout, 1<<20)
	defer out.Flush()
	tier := os.Getenv("HV_TIER")
	seed, _ := strconv.ParseUint(os.Getenv("HV_SEED"), 10, 64)
	if replay := os.Getenv("HV_REPLAY"); replay != "" {
		data, err := os.ReadFile(replay)
		if err != nil {
			t.Fatal(err)
		}
		for _, line := range strings.Split(string(data), "\n") {
			if i := strings.Index(line, " => "); i >= 0 {
				line = line[:i]
			}
			f := strings.Fields(line)
			if len(f) == 4 && f[0] == "C13" && f[1] == "reload" {
				n, _ := strconv.ParseInt(f[2], 10, 64)
				emitReload(t, time.Duration(n), parseEvs(f[3]))
			}
			if len(f) == 5 && f[0] == "C13" && f[1] == "reloadd" {
				n, _ := strconv.ParseInt(f[2], 10, 64)
				emitReloadD(t, time.Duration(n), parseDurs(f[3]), parseEvs(f[4]))
			}
			if len(f) == 6 && f[0] == "C13" && f[1] == "ingressd" {
				d, _ := strconv.ParseInt(f[2], 10, 64)
				w, _ := strconv.ParseInt(f[3], 10, 64)
				emitIngressD(t, float64(time.Second)/float64(d), time.Duration(w), parseDurs(f[4]), parseEvs(f[5]))
			}
			replaySites(t, f)
			if len(f) == 5 && f[0] == "C13" && f[1] == "ingress" {
				d, _ := strconv.ParseInt(f[2], 10, 64)
				w, _ := strconv.ParseInt(f[3], 10, 64)
				emitIngress(t, float64(time.Second)/float64(d), time.Duration(w), parseEvs(f[4]))
			}
		}
		return
	}
	S := time.Second
	// corpus (minimised past failures): arrivals 0s,5s,11s with interval 10s reloaded at 0,10,11
	emitReload(t, 10*S, []ev{{t: 0}, {t: 5 * S}, {t: 11 * S}})
	emitReload(t, 10*S, []ev{{t: 0}, {t: 5 * S}, {t: 7 * S}, {t: 11 * S}, {t: 12 * S}})
	// corpus, runs with a duration:
	// (seed C13e) a notification DURING a reload on two consecutive reloads: Forget re-basing `last` on the end
	// of the reload loses the scheduled slot, reloads at 0,10,15 (5s apart); the unchanged code reloads at 0,10,20
	emitReloadD(t, 10*S, []time.Duration{5 * S, 5 * S}, []ev{{t: 0}, {t: 1 * S}, {t: 11 * S}})
	emitReloadD(t, 10*S, []time.Duration{7 * time.Millisecond, 7 * time.Millisecond}, []ev{{t: 0}, {t: 3 * time.Millisecond}, {t: 10*S + 2*time.Millisecond}})
	// (observation, unchanged code, outside the judged domain) a reload longer than the interval: the item becomes
	// ready while it is processed, is re-queued at Done and starts at 15 while `last` stays 10: next start at 20
	emitReloadD(t, 10*S, []time.Duration{15 * S}, []ev{{t: 0}, {t: 1 * S}, {t: 16 * S}})
	// (observation, unchanged code, outside the judged domain) both kinds share one worker: the full sync waits 3s for
	// the partial one (starts 13) and its next slot is still 20
	emitIngressD(t, 0.1, 0, []time.Duration{0, 3 * S}, []ev{{t: 0}, {t: 1 * S}, {t: 2 * S, full: true}, {t: 14 * S, full: true}})
	// exhaustive small scope around the interval boundary
	grid := []time.Duration{0, 5 * S, 10*S - 1, 10*S + 1, 11 * S, 15 * S, 20*S - 3, 20*S + 3, 21 * S, 25 * S, 30*S + 7, 45 * S}
	k := 4
	if tier == "thorough" {
		k = 6
	}
	subsets(grid, k, func(ts []time.Duration) {
		arr := make([]ev, len(ts))
		for i, x := range ts {
			arr[i] = ev{t: x}
		}
		emitReload(t, 10*S, arr)
	})
	// runs with a duration: arrivals during / just after a run and around the scheduled slot x durations of the
	// first three runs in {0, small, interval/2, interval-1}
	ms := time.Millisecond
	gridD := []time.Duration{0, 3 * ms, 1 * S, 5*S + 1*ms, 10*S - 1, 10*S + 1, 10*S + 2*ms, 11 * S, 15*S + 3, 20*S - 3, 20*S + 3*ms, 25 * S}
	dset := []time.Duration{0, 7 * ms, 5 * S, 10*S - 1}
	kd := 3
	if tier == "thorough" {
		kd = 4
	}
	subsets(gridD, kd, func(ts []time.Duration) {
		arr := make([]ev, len(ts))
		for i, x := range ts {
			arr[i] = ev{t: x}
		}
		tuples(dset, min(len(ts), 3), func(durs []time.Duration) {
			if total(durs) == 0 {
				emitReload(t, 10*S, arr)
			} else {
				emitReloadD(t, 10*S, durs, arr)
			}
		})
	})
	// runs at least as long as the interval (outside the judged domain, inside the correspondence)
	gridL := []time.Duration{0, 1 * S, 9 * S, 12 * S, 16 * S, 21 * S, 27 * S, 33 * S}
	subsets(gridL, 3, func(ts []time.Duration) {
		arr := make([]ev, len(ts))
		for i, x := range ts {
			arr[i] = ev{t: x}
		}
		tuples([]time.Duration{0, 10 * S, 15*S + 7*ms, 25*S + 7*ms}, min(len(ts), 2), func(durs []time.Duration) {
			if total(durs) > 0 {
				emitReloadD(t, 10*S, durs, arr)
			}
		})
	})
	// ingress limiter: rate 0.1/s => delta 10s, wait 200ms; both items over a smaller grid
	g2 := []time.Duration{0, 100 * time.Millisecond, 5 * S, 10*S + 1, 10*S + 300*time.Millisecond, 12 * S, 21 * S, 40 * S}
	k2 := 3
	if tier == "thorough" {
		k2 = 5
	}
	subsets(g2, k2, func(ts []time.Duration) {
		n := len(ts)
		for mask := 0; mask < 1<<n; mask++ {
			arr := make([]ev, n)
			for i, x := range ts {
				arr[i] = ev{t: x, full: mask&(1<<i) != 0}
			}
			emitIngress(t, 0.1, 200*time.Millisecond, arr)
			// one worker for both kinds: durations of the first two (thorough: three) runs
			nd := 2
			if tier == "thorough" {
				nd = 3
			}
			tuples(dset, min(n, nd), func(durs []time.Duration) {
				if total(durs) > 0 {
					emitIngressD(t, 0.1, 200*time.Millisecond, durs, arr)
				}
			})
		}
	})
	// random bursts and gaps, several interval settings
	r := gen.New(seed)
	n := 1500
	if tier == "thorough" {
		n = 40000
	}
	for i := 0; i < n; i++ {
		cnt := r.Range(1, 12)
		unit := gen.Pick(r, []time.Duration{time.Millisecond, 100 * time.Millisecond, S})
		interval := time.Duration(r.Range(1, 30)) * unit
		var ts []time.Duration
		cur := time.Duration(0)
		for j := 0; j < cnt; j++ {
			switch r.Intn(6) {
			case 0: // burst
				cur += time.Duration(r.Range(1, 1000))
			case 1: // just around a multiple of the interval
				m := (cur/interval + 1) * interval
				cur = m + time.Duration(r.Range(-3, 3))*2 + 1
			case 2: // idle gap
				cur += interval*time.Duration(r.Range(1, 4)) + time.Duration(r.Range(1, 999))
			default:
				cur += time.Duration(r.Range(1, int(2*interval/unit))) * unit / 2
			}
			ts = append(ts, cur)
		}
		sort.Slice(ts, func(a, b int) bool { return ts[a] < ts[b] })
		arr := make([]ev, 0, len(ts))
		for j, x := range ts {
			if j > 0 && x <= ts[j-1] {
				continue
			}
			arr = append(arr, ev{t: x})
		}
		if r.Bool() {
			emitReload(t, interval, arr)
		} else {
			for j := range arr {
				arr[j].full = r.Chance(1, 3)
			}
			rate := float64(time.Second) / float64(interval)
			wait := gen.Pick(r, []time.Duration{0, time.Millisecond, 200 * time.Millisecond, interval / 2, interval, 2 * interval})
			emitIngress(t, rate, wait, arr)
		}
	}
	// random arrival patterns with run durations (own stream: the instantaneous cases above are unchanged)
	rd := gen.New(seed ^ 0x5bd1e995c13d)
	nd := 3000
	if tier == "thorough" {
		nd = 60000
	}
	for i := 0; i < nd; i++ {
		cnt := rd.Range(2, 9)
		unit := gen.Pick(rd, []time.Duration{time.Millisecond, 100 * time.Millisecond, S})
		interval := time.Duration(rd.Range(2, 30)) * unit
		long := rd.Chance(1, 6) // some run may be longer than the interval
		pick := func() time.Duration {
			switch rd.Intn(8) {
			case 0:
				return 0
			case 1:
				return time.Duration(rd.Range(1, 2000))
			case 2:
				return interval / 2
			case 3:
				return interval - 1
			case 4:
				if long {
					return interval + time.Duration(rd.Range(0, int(2*interval/unit)))*unit/2 + time.Duration(rd.Range(0, 5))
				}
			}
			return time.Duration(rd.Range(1, int(interval/unit)))*unit/2 + time.Duration(rd.Range(0, 5))
		}
		var durs []time.Duration
		for j := 0; j < cnt; j++ {
			durs = append(durs, pick())
		}
		// arrivals: relative to the previous arrival, inside the expected run, around the next slot, idle gaps
		var arr []ev
		cur := time.Duration(0)
		for j := 0; j < cnt; j++ {
			switch rd.Intn(6) {
			case 0: // burst
				cur += time.Duration(rd.Range(1, 1000))
			case 1: // around a multiple of the interval
				m := (cur/interval + 1) * interval
				cur = m + time.Duration(rd.Range(-3, 3))*2 + 1
			case 2: // idle gap
				cur += interval*time.Duration(rd.Range(1, 3)) + time.Duration(rd.Range(1, 999))
			case 3: // shortly after a multiple of the interval: during a run that started there
				m := (cur/interval + 1) * interval
				cur = m + 1 + time.Duration(rd.Range(0, int(durs[j]/2)))
			default:
				cur += time.Duration(rd.Range(1, int(2*interval/unit)))*unit/2 + time.Duration(rd.Range(0, 3))
			}
			if len(arr) > 0 && cur <= arr[len(arr)-1].t {
				cur = arr[len(arr)-1].t + 1
			}
			arr = append(arr, ev{t: cur})
		}
		if rd.Chance(3, 5) {
			emitReloadD(t, interval, durs, arr)
		} else {
			kind := rd.Intn(4) // 0: partial only, 1: full only, else mixed
			for j := range arr {
				arr[j].full = kind == 1 || (kind >= 2 && rd.Chance(1, 3))
			}
			rate := float64(time.Second) / float64(interval)
			wait := gen.Pick(rd, []time.Duration{0, time.Millisecond, 200 * time.Millisecond, interval / 2, interval, 2 * interval})
			emitIngressD(t, rate, wait, durs, arr)
		}
	}
	// the enqueue sites of the reconcile queue (own stream: the cases above are unchanged)
	genSites(t, tier, seed)
	keys := make([]string, 0, len(stats))
	for k := range stats {
		keys = append(keys, k)
	}
	sort.Strings(keys)
	for _, k := range keys {
		fmt.Fprintf(out, "#stat %s %d\n", k, stats[k])
	}
}
