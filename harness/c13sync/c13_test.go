//go:build verif

// Package c13sync drives the real rate limiters and the real work queue inside a
// testing/synctest bubble (virtual clock, exact timestamps). Needs go1.26.8.
// It prints one case line per arrival pattern: the observed run timestamps.
package c13sync

import (
	"bufio"
	"context"
	"fmt"
	"os"
	"sort"
	"strconv"
	"strings"
	"sync"
	"testing"
	"testing/synctest"
	"time"

	"github.com/jcmoraisjr/haproxy-ingress/pkg/utils/workqueue"

	"hapverif/gen"
)

type ev struct {
	t    time.Duration
	full bool
}

func fmtEvs(evs []ev, tagged bool) string {
	if len(evs) == 0 {
		return "-"
	}
	s := make([]string, len(evs))
	for i, e := range evs {
		s[i] = strconv.FormatInt(int64(e.t), 10)
		if tagged {
			if e.full {
				s[i] += ":f"
			} else {
				s[i] += ":p"
			}
		}
	}
	return strings.Join(s, ",")
}

// runReload: real ReloadHAProxyRateLimiter + real WorkQueue[any]
func runReload(t *testing.T, interval time.Duration, arrivals []ev) (runs []ev) {
	synctest.Test(t, func(t *testing.T) {
		var mu sync.Mutex
		start := time.Now()
		q := workqueue.New(func(ctx context.Context, _ any) error {
			mu.Lock()
			runs = append(runs, ev{t: time.Since(start)})
			mu.Unlock()
			return nil
		}, workqueue.ReloadHAProxyRateLimiter(interval))
		ctx, cancel := context.WithCancel(context.Background())
		done := make(chan struct{})
		go func() { _ = q.Start(ctx); close(done) }()
		for _, a := range arrivals {
			if d := a.t - time.Since(start); d > 0 {
				time.Sleep(d)
			}
			q.Add(nil)
			synctest.Wait()
		}
		time.Sleep(100 * interval)
		synctest.Wait()
		cancel()
		<-done
	})
	return runs
}

// runIngress: real IngressReconcilerRateLimiter + real WorkQueue[bool] (item = fullsync flag)
func runIngress(t *testing.T, rate float64, wait time.Duration, arrivals []ev) (runs []ev) {
	synctest.Test(t, func(t *testing.T) {
		var mu sync.Mutex
		start := time.Now()
		q := workqueue.New(func(ctx context.Context, full bool) error {
			mu.Lock()
			runs = append(runs, ev{t: time.Since(start), full: full})
			mu.Unlock()
			return nil
		}, workqueue.IngressReconcilerRateLimiter[bool](rate, wait))
		ctx, cancel := context.WithCancel(context.Background())
		done := make(chan struct{})
		go func() { _ = q.Start(ctx); close(done) }()
		for _, a := range arrivals {
			if d := a.t - time.Since(start); d > 0 {
				time.Sleep(d)
			}
			q.Add(a.full)
			synctest.Wait()
		}
		time.Sleep(time.Duration(100*float64(time.Second)/rate) + 100*wait)
		synctest.Wait()
		cancel()
		<-done
	})
	return runs
}

var out *bufio.Writer
var stats = map[string]int{}

func emitReload(t *testing.T, interval time.Duration, arr []ev) {
	runs := runReload(t, interval, arr)
	fmt.Fprintf(out, "C13 reload %d %s => %s\n", int64(interval), fmtEvs(arr, false), fmtEvs(runs, false))
	stats[fmt.Sprintf("reload_arrivals_%d", len(arr))]++
}

func emitIngress(t *testing.T, rate float64, wait time.Duration, arr []ev) {
	runs := runIngress(t, rate, wait, arr)
	delta := time.Duration(float64(time.Second) / rate)
	fmt.Fprintf(out, "C13 ingress %d %d %s => %s\n", int64(delta), int64(wait), fmtEvs(arr, true), fmtEvs(runs, true))
	stats[fmt.Sprintf("ingress_arrivals_%d", len(arr))]++
}

// subsets of the grid with at most k elements, in increasing order
func subsets(grid []time.Duration, k int, f func([]time.Duration)) {
	var rec func(start int, cur []time.Duration)
	rec = func(start int, cur []time.Duration) {
		if len(cur) > 0 {
			f(cur)
		}
		if len(cur) == k {
			return
		}
		for i := start; i < len(grid); i++ {
			rec(i+1, append(cur, grid[i]))
		}
	}
	rec(0, nil)
}

func parseEvs(s string) []ev {
	var res []ev
	if s == "-" || s == "" {
		return nil
	}
	for _, p := range strings.Split(s, ",") {
		f := strings.Split(p, ":")
		n, _ := strconv.ParseInt(f[0], 10, 64)
		res = append(res, ev{t: time.Duration(n), full: len(f) > 1 && f[1] == "f"})
	}
	return res
}

func TestC13(t *testing.T) {
	out = bufio.NewWriterSize(os.Stdout, 1<<20)
	defer out.Flush()
	tier := os.Getenv("HV_TIER")
	seed, _ := strconv.ParseUint(os.Getenv("HV_SEED"), 10, 64)
	if replay := os.Getenv("HV_REPLAY"); replay != "" {
		data, err := os.ReadFile(replay)
		if err != nil {
			t.Fatal(err)
		}
		for _, line := range strings.Split(string(data), "\n") {
			if i := strings.Index(line, " => "); i >= 0 {
				line = line[:i]
			}
			f := strings.Fields(line)
			if len(f) == 4 && f[0] == "C13" && f[1] == "reload" {
				n, _ := strconv.ParseInt(f[2], 10, 64)
				emitReload(t, time.Duration(n), parseEvs(f[3]))
			}
			if len(f) == 5 && f[0] == "C13" && f[1] == "ingress" {
				d, _ := strconv.ParseInt(f[2], 10, 64)
				w, _ := strconv.ParseInt(f[3], 10, 64)
				emitIngress(t, float64(time.Second)/float64(d), time.Duration(w), parseEvs(f[4]))
			}
		}
		return
	}
	S := time.Second
	// corpus (minimised past failures): arrivals 0s,5s,11s with interval 10s reloaded at 0,10,11
	emitReload(t, 10*S, []ev{{t: 0}, {t: 5 * S}, {t: 11 * S}})
	emitReload(t, 10*S, []ev{{t: 0}, {t: 5 * S}, {t: 7 * S}, {t: 11 * S}, {t: 12 * S}})
	// exhaustive small scope around the interval boundary
	grid := []time.Duration{0, 5 * S, 10*S - 1, 10*S + 1, 11 * S, 15 * S, 20*S - 3, 20*S + 3, 21 * S, 25 * S, 30*S + 7, 45 * S}
	k := 4
	if tier == "thorough" {
		k = 6
	}
	subsets(grid, k, func(ts []time.Duration) {
		arr := make([]ev, len(ts))
		for i, x := range ts {
			arr[i] = ev{t: x}
		}
		emitReload(t, 10*S, arr)
	})
	// ingress limiter: rate 0.1/s => delta 10s, wait 200ms; both items over a smaller grid
	g2 := []time.Duration{0, 100 * time.Millisecond, 5 * S, 10*S + 1, 10*S + 300*time.Millisecond, 12 * S, 21 * S, 40 * S}
	k2 := 3
	if tier == "thorough" {
		k2 = 5
	}
	subsets(g2, k2, func(ts []time.Duration) {
		n := len(ts)
		for mask := 0; mask < 1<<n; mask++ {
			arr := make([]ev, n)
			for i, x := range ts {
				arr[i] = ev{t: x, full: mask&(1<<i) != 0}
			}
			emitIngress(t, 0.1, 200*time.Millisecond, arr)
		}
	})
	// random bursts and gaps, several interval settings
	r := gen.New(seed)
	n := 1500
	if tier == "thorough" {
		n = 40000
	}
	for i := 0; i < n; i++ {
		cnt := r.Range(1, 12)
		unit := gen.Pick(r, []time.Duration{time.Millisecond, 100 * time.Millisecond, S})
		interval := time.Duration(r.Range(1, 30)) * unit
		var ts []time.Duration
		cur := time.Duration(0)
		for j := 0; j < cnt; j++ {
			switch r.Intn(6) {
			case 0: // burst
				cur += time.Duration(r.Range(1, 1000))
			case 1: // just around a multiple of the interval
				m := (cur/interval + 1) * interval
				cur = m + time.Duration(r.Range(-3, 3))*2 + 1
			case 2: // idle gap
				cur += interval*time.Duration(r.Range(1, 4)) + time.Duration(r.Range(1, 999))
			default:
				cur += time.Duration(r.Range(1, int(2*interval/unit))) * unit / 2
			}
			ts = append(ts, cur)
		}
		sort.Slice(ts, func(a, b int) bool { return ts[a] < ts[b] })
		arr := make([]ev, 0, len(ts))
		for j, x := range ts {
			if j > 0 && x <= ts[j-1] {
				continue
			}
			arr = append(arr, ev{t: x})
		}
		if r.Bool() {
			emitReload(t, interval, arr)
		} else {
			for j := range arr {
				arr[j].full = r.Chance(1, 3)
			}
			rate := float64(time.Second) / float64(interval)
			wait := gen.Pick(r, []time.Duration{0, time.Millisecond, 200 * time.Millisecond, interval / 2, interval, 2 * interval})
			emitIngress(t, rate, wait, arr)
		}
	}
	keys := make([]string, 0, len(stats))
	for k := range stats {
		keys = append(keys, k)
	}
	sort.Strings(keys)
	for _, k := range keys {
		fmt.Fprintf(out, "#stat %s %d\n", k, stats[k])
	}
}
