//go:build verif

// C13, the ENQUEUE SITES of the reconcile queue: the real watchers (hdlr.Create -> hdlr.notify) and the real
// IngressReconciler.leaderChanged enqueue on the real client-go rate limiting queue built with the real
// IngressReconcilerRateLimiter the way SetupWithManager builds it (hook reconciler.VerifNewReconciler). One worker
// drains it like controller-runtime does for a successful Reconcile(): Get - getChangedObjects (sets
// watchers.running) - the run takes its duration - Forget - Done.
// Case line: `C13 sites <delta> <wait> <durations> <history>`; history tokens `t:p` / `t:f` = a watcher event of a
// partial / full-sync kind, `t:L` / `t:l` = leaderChanged(true) / leaderChanged(false); impl output = run STARTS.
package c13sync

import (
	"context"
	"fmt"
	"reflect"
	"strconv"
	"strings"
	"sync"
	"testing"
	"testing/synctest"
	"time"

	networking "k8s.io/api/networking/v1"
	"sigs.k8s.io/controller-runtime/pkg/client"
	gatewayv1 "sigs.k8s.io/gateway-api/apis/v1"
	gatewayv1alpha2 "sigs.k8s.io/gateway-api/apis/v1alpha2"
	gatewayv1beta1 "sigs.k8s.io/gateway-api/apis/v1beta1"

	"github.com/jcmoraisjr/haproxy-ingress/pkg/controller/config"
	"github.com/jcmoraisjr/haproxy-ingress/pkg/controller/reconciler"

	"hapverif/gen"
)

// one step of a history of the controller
type sev struct {
	t    time.Duration
	kind byte // 'p' 'f' notification, 'L' 'l' leaderChanged(true/false)
}

func fmtHist(h []sev) string {
	if len(h) == 0 {
		return "-"
	}
	s := make([]string, len(h))
	for i, e := range h {
		s[i] = strconv.FormatInt(int64(e.t), 10) + ":" + string(e.kind)
	}
	return strings.Join(s, ",")
}

func parseHist(s string) []sev {
	var res []sev
	if s == "-" || s == "" {
		return nil
	}
	for _, p := range strings.Split(s, ",") {
		f := strings.Split(p, ":")
		if len(f) != 2 || len(f[1]) != 1 {
			continue
		}
		n, _ := strconv.ParseInt(f[0], 10, 64)
		res = append(res, sev{t: time.Duration(n), kind: f[1][0]})
	}
	return res
}

type allValid struct{}

func (allValid) IsValidGatewayA2(*gatewayv1alpha2.Gateway) bool           { return true }
func (allValid) IsValidGatewayClassA2(*gatewayv1alpha2.GatewayClass) bool { return true }
func (allValid) IsValidGatewayB1(*gatewayv1beta1.Gateway) bool            { return true }
func (allValid) IsValidGatewayClassB1(*gatewayv1beta1.GatewayClass) bool  { return true }
func (allValid) IsValidGateway(*gatewayv1.Gateway) bool                   { return true }
func (allValid) IsValidGatewayClass(*gatewayv1.GatewayClass) bool         { return true }
func (allValid) IsValidIngress(*networking.Ingress) bool                  { return true }
func (allValid) IsValidIngressClass(*networking.IngressClass) bool        { return true }

// runSites drives the real enqueue sites. The i-th notification of a class (partial / full) goes to the i-th
// handler of that class (round robin over every registered handler: all of them share hdlr.notify).
func runSites(t *testing.T, rate float64, wait time.Duration, hist []sev, durs []time.Duration) (runs []ev, panicked string) {
	synctest.Test(t, func(t *testing.T) {
		cfg := &config.Config{
			ConfigMapName: "n0/o0", TCPConfigMapName: "n0/o1",
			HasGatewayA2: true, HasGatewayB1: true, HasGatewayV1: true, HasTCPRouteA2: true,
			RateLimitUpdate: rate, WaitBeforeUpdate: wait,
		}
		ctx := context.Background()
		w := reconciler.VerifCreateWatchers(ctx, cfg, allValid{})
		rec := reconciler.VerifNewReconciler(cfg, w)
		var hs [2][]reconciler.VerifHandler
		for _, h := range w.Handlers() {
			if h.Full() {
				hs[1] = append(hs[1], h)
			} else {
				hs[0] = append(hs[0], h)
			}
		}
		var mu sync.Mutex
		start := time.Now()
		done := make(chan struct{})
		go func() {
			defer close(done)
			for {
				full, shutdown := rec.Get()
				if shutdown {
					return
				}
				mu.Lock()
				k := len(runs)
				runs = append(runs, ev{t: time.Since(start), full: full})
				mu.Unlock()
				w.GetChangedObjects() // IngressReconciler.Reconcile: watchers.running() from now on
				if k < len(durs) && durs[k] > 0 {
					time.Sleep(durs[k])
				}
				rec.Forget(full) // controller-runtime reconcileHandler on success
				rec.Done(full)
			}
		}()
		var cnt [2]int
		for _, e := range hist {
			if d := e.t - time.Since(start); d > 0 {
				time.Sleep(d)
			}
			func() {
				defer func() {
					if r := recover(); r != nil {
						panicked = fmt.Sprint(r)
					}
				}()
				switch e.kind {
				case 'p', 'f':
					c := 0
					if e.kind == 'f' {
						c = 1
					}
					h := hs[c][cnt[c]%len(hs[c])]
					cnt[c]++
					obj := reflect.New(reflect.TypeOf(h.Type()).Elem()).Interface().(client.Object)
					obj.SetNamespace("n1")
					obj.SetName("o" + strconv.Itoa(cnt[c]))
					h.CreateOn(ctx, obj, rec)
				case 'L':
					rec.LeaderChanged(ctx, true)
				case 'l':
					rec.LeaderChanged(ctx, false)
				}
			}()
			synctest.Wait()
		}
		// everything pending is due within one time frame (+ wait) of the last event; the named queue ticks its
		// metrics every 500ms of virtual time, keep the tail short
		time.Sleep(4*(time.Duration(float64(time.Second)/rate)+wait) + total(durs))
		synctest.Wait()
		rec.ShutDown()
		<-done
		time.Sleep(time.Second) // the queue's metrics loop (named queue) leaves at its next 500ms tick
	})
	return runs, panicked
}

func emitSites(t *testing.T, rate float64, wait time.Duration, durs []time.Duration, hist []sev) {
	runs, panicked := runSites(t, rate, wait, hist, durs)
	delta := time.Duration(float64(time.Second) / rate)
	impl := fmtEvs(runs, true)
	if panicked != "" {
		impl = "PANIC"
	}
	fmt.Fprintf(out, "C13 sites %d %d %s %s => %s\n", int64(delta), int64(wait), fmtDurs(durs), fmtHist(hist), impl)
	stats[fmt.Sprintf("sites_events_%d", len(hist))]++
	stats["sites_durations_"+durClass(durs, delta)]++
	nl := 0
	for _, e := range hist {
		if e.kind == 'L' {
			nl++
		}
	}
	stats[fmt.Sprintf("sites_leader_acquired_%d", min(nl, 3))]++
}

func replaySites(t *testing.T, f []string) {
	if len(f) == 6 && f[0] == "C13" && f[1] == "sites" {
		d, _ := strconv.ParseInt(f[2], 10, 64)
		w, _ := strconv.ParseInt(f[3], 10, 64)
		emitSites(t, float64(time.Second)/float64(d), time.Duration(w), parseDurs(f[4]), parseHist(f[5]))
	}
}

// histories over a grid x all assignments of the four event kinds
func kindsOver(ts []time.Duration, kinds string, f func([]sev)) {
	n := len(ts)
	cur := make([]sev, n)
	var rec func(i int)
	rec = func(i int) {
		if i == n {
			f(append([]sev(nil), cur...))
			return
		}
		for k := 0; k < len(kinds); k++ {
			cur[i] = sev{t: ts[i], kind: kinds[k]}
			rec(i + 1)
		}
	}
	rec(0)
}

func genSites(t *testing.T, tier string, seed uint64) {
	S, ms := time.Second, time.Millisecond
	// corpus: a leader acquisition inside a busy time frame; a leader acquisition while a deferred full sync is
	// pending; a leader acquisition before the first reconciliation (not running: nothing is enqueued); lease lost
	emitSites(t, 0.1, 200*ms, nil, []sev{{0, 'f'}, {3 * S, 'L'}})
	emitSites(t, 0.1, 200*ms, nil, []sev{{0, 'f'}, {2 * S, 'f'}, {3 * S, 'L'}})
	emitSites(t, 0.1, 200*ms, nil, []sev{{0, 'L'}, {1 * S, 'p'}, {2 * S, 'L'}})
	emitSites(t, 0.1, 200*ms, nil, []sev{{0, 'p'}, {1 * S, 'l'}, {2 * S, 'L'}, {15 * S, 'L'}})
	emitSites(t, 2, 50*ms, []time.Duration{10 * ms, 10 * ms}, []sev{{0, 'f'}, {100 * ms, 'L'}, {120 * ms, 'f'}})
	// exhaustive small scope: delta 10s, wait 200ms; grid around wait-before-update and the time frame
	grid := []time.Duration{0, 100 * ms, 200*ms + 1, 450 * ms, 3 * S, 10*S + 100*ms, 10*S + 200*ms + 1, 10*S + 500*ms, 13 * S, 20*S + 300*ms, 31 * S}
	k := 3
	if tier == "thorough" {
		k = 4
	}
	subsets(grid, k, func(ts []time.Duration) {
		ts = append([]time.Duration(nil), ts...)
		kindsOver(ts, "pfLl", func(h []sev) {
			if h[0].kind == 'l' || (len(h) > 1 && h[len(h)-1].kind == 'l') {
				return // leaderChanged(false) first / last adds nothing
			}
			emitSites(t, 0.1, 200*ms, nil, h)
		})
	})
	// with run durations (full-sync kinds and the leader only: one kind of item, the judged domain)
	gridD := []time.Duration{0, 150 * ms, 200*ms + 3*ms, 1 * S, 6 * S, 10*S + 200*ms + 1, 10*S + 250*ms, 12 * S, 20*S + 400*ms}
	dset := []time.Duration{0, 7 * ms, 5 * S, 10*S - 1}
	subsets(gridD, 3, func(ts []time.Duration) {
		ts = append([]time.Duration(nil), ts...)
		kindsOver(ts, "fL", func(h []sev) {
			tuples(dset, min(len(ts), 2), func(durs []time.Duration) {
				if total(durs) > 0 {
					emitSites(t, 0.1, 200*ms, durs, h)
				}
			})
		})
	})
	// random histories: random rate / wait, notifications of both kinds, leader changes, durations
	r := gen.New(seed ^ 0x51735c13e)
	n := 1500
	if tier == "thorough" {
		n = 30000
	}
	for i := 0; i < n; i++ {
		cnt := r.Range(2, 9)
		unit := gen.Pick(r, []time.Duration{ms, 100 * ms, S})
		delta := time.Duration(r.Range(2, 30)) * unit
		wait := gen.Pick(r, []time.Duration{0, ms, delta / 10, delta / 2, delta, 2 * delta})
		kindMode := r.Intn(4) // 0: full + leader, 1: partial + leader, else mixed
		var hist []sev
		cur := time.Duration(0)
		for j := 0; j < cnt; j++ {
			switch r.Intn(6) {
			case 0: // burst
				cur += time.Duration(r.Range(1, 1000))
			case 1: // just after wait-before-update
				cur += wait + time.Duration(r.Range(1, 50))
			case 2: // idle gap
				cur += delta*time.Duration(r.Range(1, 3)) + time.Duration(r.Range(1, 999))
			case 3: // around the next multiple of the interval
				m := (cur/delta + 1) * delta
				cur = m + time.Duration(r.Range(-3, 3))*2 + 1
			default:
				cur += time.Duration(r.Range(1, int(2*delta/unit)))*unit/2 + time.Duration(r.Range(0, 3))
			}
			if len(hist) > 0 && cur <= hist[len(hist)-1].t {
				cur = hist[len(hist)-1].t + 1
			}
			var kd byte
			switch {
			case r.Chance(1, 4):
				kd = 'L'
			case r.Chance(1, 10):
				kd = 'l'
			case kindMode == 0:
				kd = 'f'
			case kindMode == 1:
				kd = 'p'
			default:
				kd = gen.Pick(r, []byte{'p', 'p', 'f'})
			}
			hist = append(hist, sev{t: cur, kind: kd})
		}
		var durs []time.Duration
		if r.Chance(1, 2) {
			for j := 0; j < cnt; j++ {
				switch r.Intn(4) {
				case 0:
					durs = append(durs, 0)
				case 1:
					durs = append(durs, time.Duration(r.Range(1, 2000)))
				case 2:
					durs = append(durs, delta-1)
				default:
					durs = append(durs, time.Duration(r.Range(1, int(delta/unit)))*unit/2+time.Duration(r.Range(0, 5)))
				}
			}
		}
		emitSites(t, float64(time.Second)/float64(delta), wait, durs, hist)
	}
}
