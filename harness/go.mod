module hapverif

go 1.23.0

require (
	github.com/jcmoraisjr/haproxy-ingress v0.0.0
	k8s.io/api v0.32.3
	k8s.io/apimachinery v0.32.3
	k8s.io/client-go v0.32.3
	sigs.k8s.io/controller-runtime v0.20.3
	sigs.k8s.io/gateway-api v1.0.0
)

require (
	dario.cat/mergo v1.0.1 // indirect
	github.com/Masterminds/goutils v1.1.1 // indirect
	github.com/Masterminds/semver/v3 v3.3.1 // indirect
	github.com/Masterminds/sprig/v3 v3.3.0 // indirect
	github.com/beorn7/perks v1.0.1 // indirect
	github.com/blang/semver/v4 v4.0.0 // indirect
	github.com/cespare/xxhash/v2 v2.3.0 // indirect
	github.com/davecgh/go-spew v1.1.2-0.20180830191138-d8f796af33cc // indirect
	github.com/emicklei/go-restful/v3 v3.12.2 // indirect
	github.com/evanphx/json-patch/v5 v5.9.11 // indirect
	github.com/fsnotify/fsnotify v1.8.0 // indirect
	github.com/fxamacker/cbor/v2 v2.7.0 // indirect
	github.com/go-logr/logr v1.4.2 // indirect
	github.com/go-logr/zapr v1.3.0 // indirect
	github.com/go-openapi/jsonpointer v0.21.0 // indirect
	github.com/go-openapi/jsonreference v0.21.0 // indirect
	github.com/go-openapi/swag v0.23.0 // indirect
	github.com/gogo/protobuf v1.3.2 // indirect
	github.com/golang/protobuf v1.5.4 // indirect
	github.com/google/btree v1.1.3 // indirect
	github.com/google/gnostic-models v0.6.9 // indirect
	github.com/google/go-cmp v0.7.0 // indirect
	github.com/google/gofuzz v1.2.0 // indirect
	github.com/google/uuid v1.6.0 // indirect
	github.com/huandu/xstrings v1.5.0 // indirect
	github.com/jinzhu/copier v0.4.0 // indirect
	github.com/josharian/intern v1.0.0 // indirect
	github.com/json-iterator/go v1.1.12 // indirect
	github.com/klauspost/compress v1.18.0 // indirect
	github.com/kylelemons/godebug v1.1.0 // indirect
	github.com/mailru/easyjson v0.9.0 // indirect
	github.com/mitchellh/copystructure v1.2.0 // indirect
	github.com/mitchellh/mapstructure v1.5.0 // indirect
	github.com/mitchellh/reflectwalk v1.0.2 // indirect
	github.com/modern-go/concurrent v0.0.0-20180306012644-bacd9c7ef1dd // indirect
	github.com/modern-go/reflect2 v1.0.2 // indirect
	github.com/munnerz/goautoneg v0.0.0-20191010083416-a7dc8b61c822 // indirect
	github.com/pkg/errors v0.9.1 // indirect
	github.com/prometheus/client_golang v1.21.1 // indirect
	github.com/prometheus/client_model v0.6.1 // indirect
	github.com/prometheus/common v0.62.0 // indirect
	github.com/prometheus/procfs v0.15.1 // indirect
	github.com/shopspring/decimal v1.4.0 // indirect
	github.com/spf13/cast v1.7.1 // indirect
	github.com/spf13/cobra v1.9.1 // indirect
	github.com/spf13/pflag v1.0.6 // indirect
	github.com/x448/float16 v0.8.4 // indirect
	go.opentelemetry.io/otel v1.34.0 // indirect
	go.opentelemetry.io/otel/trace v1.34.0 // indirect
	go.uber.org/multierr v1.11.0 // indirect
	go.uber.org/zap v1.27.0 // indirect
	golang.org/x/crypto v0.36.0 // indirect
	golang.org/x/net v0.36.0 // indirect
	golang.org/x/oauth2 v0.27.0 // indirect
	golang.org/x/sync v0.12.0 // indirect
	golang.org/x/sys v0.31.0 // indirect
	golang.org/x/term v0.30.0 // indirect
	golang.org/x/text v0.23.0 // indirect
	golang.org/x/time v0.10.0 // indirect
	gomodules.xyz/jsonpatch/v2 v2.4.0 // indirect
	google.golang.org/protobuf v1.36.5 // indirect
	gopkg.in/evanphx/json-patch.v4 v4.12.0 // indirect
	gopkg.in/inf.v0 v0.9.1 // indirect
	gopkg.in/yaml.v2 v2.4.0 // indirect
	gopkg.in/yaml.v3 v3.0.1 // indirect
	k8s.io/apiextensions-apiserver v0.32.3 // indirect
	k8s.io/apiserver v0.32.3 // indirect
	k8s.io/component-base v0.32.3 // indirect
	k8s.io/klog/v2 v2.130.1 // indirect
	k8s.io/kube-openapi v0.0.0-20241212222426-2c72e554b1e7 // indirect
	k8s.io/utils v0.0.0-20241210054802-24370beab758 // indirect
	sigs.k8s.io/json v0.0.0-20241014173422-cfa47c3a1cc8 // indirect
	sigs.k8s.io/structured-merge-diff/v4 v4.5.0 // indirect
	sigs.k8s.io/yaml v1.4.0 // indirect
)

replace github.com/jcmoraisjr/haproxy-ingress => /repo
