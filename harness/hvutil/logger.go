// Package hvutil: small shared helpers of the harness (silent/recording logger).
package hvutil

import (
	"fmt"
	"sync"
)

// Logger implements types.Logger; it records the lines (bounded) and never fails.
type Logger struct {
	mu    sync.Mutex
	Lines []string
	Keep  bool
}

func (l *Logger) log(level, msg string, args ...interface{}) {
	if !l.Keep {
		return
	}
	l.mu.Lock()
	if len(l.Lines) < 10000 {
		l.Lines = append(l.Lines, level+" "+fmt.Sprintf(msg, args...))
	}
	l.mu.Unlock()
}
func (l *Logger) InfoV(v int, msg string, args ...interface{}) { l.log(fmt.Sprintf("INFO-V(%d)", v), msg, args...) }
func (l *Logger) Info(msg string, args ...interface{})         { l.log("INFO", msg, args...) }
func (l *Logger) Warn(msg string, args ...interface{})         { l.log("WARN", msg, args...) }
func (l *Logger) Error(msg string, args ...interface{})        { l.log("ERROR", msg, args...) }
func (l *Logger) Fatal(msg string, args ...interface{})        { l.log("FATAL", msg, args...) }
