package main

// C15 — each TLS host is served with the certificate its Ingress declares, else default.
//
//   C15 world <ops...>         => <sni>=<disk>,...            fresh controller on a cluster state
//   C15 hist  <ops with sync>  => <sni>=<disk>|<running>,...  long-lived controller, secret
//                                                              add/update/delete in a later batch
//
// <disk> = identity of the certificate HAProxy's crt-list rules select among the files on disk
// (`default` or `ns/name@version`); <running> = what the simulated running HAProxy holds in memory
// for that file after reloads / `set ssl cert` (`-` = the file is not loaded).

import (
	"crypto/sha1"
	"fmt"
	"os"
	"sort"
	"strings"

	"hapverif/gen"
	"hapverif/world"
)

func init() {
	props["C15"] = runC15
	replayers["C15"] = func(c *ctx, a []string) {
		if len(a) >= 1 && a[0] == "world" {
			c15world(c, a[1:])
		}
		if len(a) >= 1 && a[0] == "hist" {
			c15hist(c, a[1:])
		}
	}
}

// snisOf: declared hosts (rules and tls), names under every wildcard, neighbours
func snisOf(ops []string) []string {
	set := map[string]bool{"unknown.local": true}
	for _, o := range ops {
		if !(strings.HasPrefix(o, "ing+") || strings.HasPrefix(o, "ing~")) {
			continue
		}
		s, err := world.ParseIngress(o[4:])
		if err != nil {
			continue
		}
		var hs []string
		for _, r := range s.Rules {
			hs = append(hs, r.Host)
		}
		for _, t := range s.TLS {
			hs = append(hs, t.Hosts...)
		}
		for _, h := range hs {
			switch {
			case h == "":
			case strings.HasPrefix(h, "*."):
				set["zz"+h[1:]] = true
				set["a.b"+h[1:]] = true
				set[h[2:]] = true
			default:
				set[h] = true
				set[strings.ToUpper(h[:1])+h[1:]] = true
				if i := strings.Index(h, "."); i > 0 {
					set["zz"+h[i:]] = true
				}
			}
		}
	}
	return world.SortedKeys(set)
}

// crtNames: identity `file#hash` of Snapshot.Crt -> `ns/name@version` for every secret version up to 9
func crtName(content string) string {
	if n, ok := world.ContentName(content); ok {
		return n
	}
	content = strings.TrimSpace(content)
	if content == "FAKE" {
		return "default"
	}
	var ns, name string
	var v int
	f := strings.Fields(content)
	if len(f) == 3 && f[0] == "CERT" {
		if _, err := fmt.Sscanf(f[2], "v%d", &v); err == nil {
			if i := strings.Index(f[1], "/"); i > 0 {
				ns, name = f[1][:i], f[1][i+1:]
				return fmt.Sprintf("%s/%s@%d", ns, name, v)
			}
		}
	}
	return "?" + fmt.Sprintf("%x", sha1.Sum([]byte(content)))[:8]
}

// crtProjection evaluates the crt-list on disk; with `sim` also the running copy of each file
func crtProjection(p *world.Pipeline, snis []string, running bool) (string, bool) {
	cfg, err := world.LoadConfig(p.CfgDir)
	if err != nil {
		return "ERR:" + sanitize(err.Error()), false
	}
	var list []world.CrtEntry
	found := false
	for _, fe := range cfg.Frontends {
		for _, l := range fe.Lines {
			if l[0] != "bind" {
				continue
			}
			for i := 1; i+1 < len(l); i++ {
				if l[i] == "crt-list" && strings.Contains(l[i+1], "_front_bind_crt") {
					list = world.ReadCrtList(l[i+1])
					found = true
				}
			}
		}
	}
	if !found {
		return "ERR:no-crt-list", false
	}
	var out []string
	for _, sni := range snis {
		file := world.CrtFor(list, sni)
		disk := "-"
		if b, err := os.ReadFile(file); err == nil {
			disk = crtName(string(b))
		}
		item := sni + "=" + disk
		if running {
			run := "-"
			if c, ok := p.Sim.Certs[file]; ok {
				run = crtName(c)
			}
			item += "|" + run
		}
		out = append(out, item)
	}
	sort.Strings(out)
	if len(out) == 0 {
		return "-", true
	}
	return strings.Join(out, ","), true
}

func c15world(c *ctx, toks []string) {
	args := "world " + strings.Join(toks, " ")
	defer func() {
		if r := recover(); r != nil {
			c.emit("C15", args, "PANIC")
		}
	}()
	p, errText := freshRun(toks, nil, nil)
	if p == nil {
		c.emit("C15", args, errText)
		c.stat("run_error", 1)
		return
	}
	defer p.Close()
	_, ops := syncOptions(toks)
	out, _ := crtProjection(p, snisOf(ops), false)
	c.emit("C15", args, out)
	c.stat("worlds", 1)
}

// c15hist: long-lived pipeline; every `sync` reconciles; projection after the last one
func c15hist(c *ctx, toks []string) {
	args := "hist " + strings.Join(toks, " ")
	defer func() {
		if r := recover(); r != nil {
			c.emit("C15", args, "PANIC")
		}
	}()
	opt, ops := syncOptions(toks)
	w := world.NewWorld()
	p, err := world.NewPipeline(w, opt)
	if err != nil {
		c.emit("C15", args, "ERR:"+sanitize(err.Error()))
		return
	}
	defer p.Close()
	reconcile := func() bool {
		if _, err := p.Reconcile(); err != nil {
			if strings.HasPrefix(err.Error(), "PANIC") {
				c.emit("C15", args, "PANIC")
			} else {
				c.emit("C15", args, "ERR:"+sanitize(err.Error()))
			}
			return false
		}
		return true
	}
	for _, o := range ops {
		if o == "sync" {
			if !reconcile() {
				return
			}
			continue
		}
		evs, err := w.Apply(world.Op{Text: o})
		if err != nil {
			c.emit("C15", args, "ERR:"+sanitize(err.Error()))
			return
		}
		p.Deliver(evs)
	}
	if len(ops) == 0 || ops[len(ops)-1] != "sync" {
		if !reconcile() {
			return
		}
	}
	out, _ := crtProjection(p, snisOf(ops), true)
	c.emit("C15", args, out)
	c.stat("histories", 1)
	dyn := 0
	for _, cmd := range p.Sim.Cmds {
		if strings.HasPrefix(cmd, "set ssl cert") {
			dyn++
		}
	}
	if dyn > 0 {
		c.stat("histories_with_set_ssl_cert", 1)
	}
	c.stat(fmt.Sprintf("reloads_%d", p.Sim.Reloads), 1)
}

// secretStep: one later batch on the secrets of a world
func secretStep(r *gen.Rng, vers map[string]int) string {
	ns := gen.Pick(r, syncNamespaces)
	name := gen.Pick(r, syncSecrets)
	key := ns + "/" + name
	switch r.Intn(4) {
	case 0:
		if vers[key] > 0 {
			vers[key] = -vers[key]
			return "sec-" + key
		}
	case 1:
		v := vers[key]
		if v < 0 {
			v = -v
		}
		vers[key] = v + 1
		act := "~"
		if v == 0 || vers[key] < 0 {
			act = "+"
		}
		return fmt.Sprintf("sec%s%s!bad!%d!a.local", act, key, vers[key])
	}
	v := vers[key]
	act := "~"
	if v <= 0 {
		act = "+"
		v = -v
	}
	if act == "~" && v+world.ChainStep < world.SharedVersion && r.Chance(1, 3) {
		// same leaf and key, another intermediate chain
		vers[key] = v + world.ChainStep
		return fmt.Sprintf("sec~%s!tls!%d!a.local", key, vers[key])
	}
	vers[key] = v + 1
	return fmt.Sprintf("sec%s%s!tls!%d!a.local", act, key, vers[key])
}

func runC15(c *ctx) {
	for _, l := range c15corpus {
		f := strings.Fields(l)
		if f[0] == "hist" {
			c15hist(c, f[1:])
		} else {
			c15world(c, f[1:])
		}
	}
	r := gen.New(c.seed)
	n, nh := 700, 500
	if c.thorough() {
		n, nh = 10000, 8000
	}
	for i := 0; i < n; i++ {
		g := &syncGen{r: r.Fork(), paths: []string{"/", "/a"}, tlsProb: [2]int{3, 4}, wildcard: i%3 == 0, xns: true}
		ops := g.world(5)
		if g.r.Chance(1, 6) {
			ops = append(ops, "opt~xns=1")
		}
		c15world(c, ops)
	}
	for i := 0; i < nh; i++ {
		g := &syncGen{r: r.Fork(), paths: []string{"/", "/a"}, tlsProb: [2]int{4, 5}, wildcard: i%4 == 0, xns: true}
		ops := g.world(4)
		vers := map[string]int{}
		for _, o := range ops {
			if strings.HasPrefix(o, "sec+") {
				vers[strings.SplitN(o[4:], "!", 2)[0]] = 1
			}
		}
		ops = append(ops, "sync")
		steps := g.r.Range(1, 2)
		for s := 0; s < steps; s++ {
			k := g.r.Range(1, 2)
			for j := 0; j < k; j++ {
				ops = append(ops, secretStep(g.r, vers))
			}
			ops = append(ops, "sync")
		}
		c15hist(c, ops)
	}
}

var c15corpus = []string{
	// conflicting declarations: the first-created ingress wins, also when it is listed later
	"world svc+d/app!http:80:8080!- sec+d/tls1!tls!1!a.local sec+e/tls2!tls!1!a.local ing+e/i1@2!haproxy,-!-!a.local>/:Prefix:app:80!a.local>tls2!- ing+d/i2@1!haproxy,-!-!a.local>/:Prefix:app:80!a.local>tls1!-",
	// missing / malformed / forbidden secret: default certificate
	"world svc+d/app!http:80:8080!- sec+d/tls1!bad!1!a.local sec+e/tls2!tls!1!a.local ing+d/i1@1!haproxy,-!-!a.local>/:Prefix:app:80;b.local>/:Prefix:app:80;c.local>/:Prefix:app:80!a.local>tls1;b.local>missing;c.local>e/tls2!-",
	// SUSPECTED (DESIGN C15): wildcard host with its own certificate, exact host below it without tls entry
	"world svc+d/app!http:80:8080!- svc+e/app!http:80:8080!- sec+d/tls1!tls!1!w.local ing+d/i1@1!haproxy,-!-!*.w.local>/:Prefix:app:80!*.w.local>tls1!- ing+e/i2@2!haproxy,-!-!x.w.local>/:Prefix:app:80!-!-",
	// the same with a tls entry whose secret is missing: default expected, not the wildcard's
	"world svc+d/app!http:80:8080!- svc+e/app!http:80:8080!- sec+d/tls1!tls!1!w.local ing+d/i1@1!haproxy,-!-!*.w.local>/:Prefix:app:80!*.w.local>tls1!- ing+e/i2@2!haproxy,-!-!x.w.local>/:Prefix:app:80!x.w.local>missing!-",
	// rotation: shared secret updated in a later batch -> set ssl cert, no reload
	"hist svc+d/app!http:80:8080!- sec+d/tls1!tls!1!a.local sec+d/tls2!tls!1!c.local ing+d/i1@1!haproxy,-!-!a.local>/:Prefix:app:80;b.local>/:Prefix:app:80;c.local>/:Prefix:app:80!a.local+b.local>tls1;c.local>tls2!- sync sec~d/tls1!tls!2!a.local sync",
	// secret deleted, then added again
	"hist svc+d/app!http:80:8080!- sec+d/tls1!tls!1!a.local ing+d/i1@1!haproxy,-!-!a.local>/:Prefix:app:80!a.local>tls1!- sync sec-d/tls1 sync sec+d/tls1!tls!2!a.local sync",
	// the secret is replaced in place with the SAME leaf and key and another intermediate chain (version 1 -> 101,
	// see world.ChainStep): the served file content must follow (seed C15d: chain outside the change-detection hash)
	"hist svc+d/app!http:80:8080!- sec+d/tls1!tls!1!a.local sec+d/tls2!tls!1!c.local ing+d/i1@1!haproxy,-!-!a.local>/:Prefix:app:80;c.local>/:Prefix:app:80!a.local>tls1;c.local>tls2!- sync sec~d/tls1!tls!101!a.local sync sec~d/tls1!tls!201!a.local sync",
	// secret that did not exist at the first sync
	"hist svc+d/app!http:80:8080!- ing+d/i1@1!haproxy,-!-!a.local>/:Prefix:app:80!a.local>tls1!- sync sec+d/tls1!tls!1!a.local sync",
}
