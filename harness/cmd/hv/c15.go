package main

// C15 — each TLS host is served with the certificate its Ingress declares, else default.
//
//   C15 world <ops...>         => <sni>=<disk>,...            fresh controller on a cluster state
//   C15 hist  <ops with sync>  => <sni>=<disk>|<running>,...  long-lived controller, secret
//                                                              add/update/delete in a later batch
//   C15 trk   <ops with sync>  => <ns/secret>=<ing>+..:<host>+..,...  the REAL tracker of the same long-lived
//                                                              controller queried with each Secret (read-only)
//
// A history is judged after EVERY reconciliation: for each `sync` of the history one `hist` and one `trk` line are
// emitted whose ops are the prefix of the history that ends with that `sync` (the same long-lived pipeline, no
// re-run), so the served certificate of every declared host is compared with the declared one after every sync.
//
// <disk> = identity of the certificate HAProxy's crt-list rules select among the files on disk
// (`default` or `ns/name@version`); <running> = what the simulated running HAProxy holds in memory
// for that file after reloads / `set ssl cert` (`-` = the file is not loaded).

import (
	"crypto/sha1"
	"fmt"
	"os"
	"sort"
	"strings"

	convtypes "github.com/jcmoraisjr/haproxy-ingress/pkg/converters/types"

	"hapverif/gen"
	"hapverif/world"
)

func init() {
	props["C15"] = runC15
	replayers["C15"] = func(c *ctx, a []string) {
		if len(a) >= 1 && a[0] == "world" {
			c15world(c, a[1:])
		}
		if len(a) >= 1 && (a[0] == "hist" || a[0] == "run" || a[0] == "trk") {
			c15hist(c, a[1:])
		}
	}
}

// snisOf: declared hosts (rules and tls), names under every wildcard, neighbours
func snisOf(ops []string) []string {
	set := map[string]bool{"unknown.local": true}
	for _, o := range ops {
		if !(strings.HasPrefix(o, "ing+") || strings.HasPrefix(o, "ing~")) {
			continue
		}
		s, err := world.ParseIngress(o[4:])
		if err != nil {
			continue
		}
		var hs []string
		for _, r := range s.Rules {
			hs = append(hs, r.Host)
		}
		for _, t := range s.TLS {
			hs = append(hs, t.Hosts...)
		}
		for _, h := range hs {
			switch {
			case h == "":
			case strings.HasPrefix(h, "*."):
				set["zz"+h[1:]] = true
				set["a.b"+h[1:]] = true
				set[h[2:]] = true
			default:
				set[h] = true
				set[strings.ToUpper(h[:1])+h[1:]] = true
				if i := strings.Index(h, "."); i > 0 {
					set["zz"+h[i:]] = true
				}
			}
		}
	}
	return world.SortedKeys(set)
}

// crtNames: identity `file#hash` of Snapshot.Crt -> `ns/name@version` for every secret version up to 9
func crtName(content string) string {
	if n, ok := world.ContentName(content); ok {
		return n
	}
	content = strings.TrimSpace(content)
	if content == "FAKE" {
		return "default"
	}
	var ns, name string
	var v int
	f := strings.Fields(content)
	if len(f) == 3 && f[0] == "CERT" {
		if _, err := fmt.Sscanf(f[2], "v%d", &v); err == nil {
			if i := strings.Index(f[1], "/"); i > 0 {
				ns, name = f[1][:i], f[1][i+1:]
				return fmt.Sprintf("%s/%s@%d", ns, name, v)
			}
		}
	}
	return "?" + fmt.Sprintf("%x", sha1.Sum([]byte(content)))[:8]
}

// crtProjection evaluates the crt-list on disk; with `sim` also the running copy of each file
func crtProjection(p *world.Pipeline, snis []string, running bool) (string, bool) {
	list, errText := c15diskList(p)
	if errText != "" {
		return errText, false
	}
	var out []string
	for _, sni := range snis {
		file := world.CrtFor(list, sni)
		disk := "-"
		if b, err := os.ReadFile(file); err == nil {
			disk = crtName(string(b))
		}
		item := sni + "=" + disk
		if running {
			run := "-"
			if c, ok := p.Sim.Certs[file]; ok {
				run = crtName(c)
			}
			item += "|" + run
		}
		out = append(out, item)
	}
	sort.Strings(out)
	if len(out) == 0 {
		return "-", true
	}
	return strings.Join(out, ","), true
}

func c15world(c *ctx, toks []string) {
	args := "world " + strings.Join(toks, " ")
	defer func() {
		if r := recover(); r != nil {
			c.emit("C15", args, "PANIC")
		}
	}()
	p, errText := freshRun(toks, nil, nil)
	if p == nil {
		c.emit("C15", args, errText)
		c.stat("run_error", 1)
		return
	}
	defer p.Close()
	_, ops := syncOptions(toks)
	out, _ := crtProjection(p, snisOf(ops), false)
	c.emit("C15", args, out)
	c.stat("worlds", 1)
}

// secretsOf: every Secret a history names — objects and the resolved names of the tls blocks
func secretsOf(ops []string) []string {
	set := map[string]bool{}
	for _, o := range ops {
		switch {
		case strings.HasPrefix(o, "sec+") || strings.HasPrefix(o, "sec~") || strings.HasPrefix(o, "sec-"):
			set[strings.SplitN(o[4:], "!", 2)[0]] = true
		case strings.HasPrefix(o, "ing+") || strings.HasPrefix(o, "ing~"):
			s, err := world.ParseIngress(o[4:])
			if err != nil {
				continue
			}
			for _, t := range s.TLS {
				switch {
				case t.Secret == "":
				case strings.Contains(t.Secret, "/"):
					if strings.Count(t.Secret, "/") == 1 && !strings.HasPrefix(t.Secret, "/") {
						set[t.Secret] = true
					}
				default:
					set[s.Namespace+"/"+t.Secret] = true
				}
			}
		}
	}
	return world.SortedKeys(set)
}

// trackProjection: the real tracker queried (read-only) with each Secret: ingresses and hosts of the closure
func trackProjection(p *world.Pipeline, ops []string) string {
	var out []string
	names := func(l []string) string {
		if len(l) == 0 {
			return "-"
		}
		l = append([]string(nil), l...)
		sort.Strings(l)
		return strings.Join(l, "+")
	}
	for _, key := range secretsOf(ops) {
		links := p.Tracker.QueryLinks(convtypes.TrackingLinks{convtypes.ResourceSecret: []string{key}}, false)
		out = append(out, key+"="+names(links[convtypes.ResourceIngress])+":"+names(links[convtypes.ResourceHAHostname]))
	}
	if len(out) == 0 {
		return "-"
	}
	return strings.Join(out, ",")
}

// c15hist: long-lived pipeline; every `sync` reconciles; projections after EVERY reconciliation (one `hist` and
// one `trk` line per sync: the prefix of the history up to it)
func c15hist(c *ctx, toks []string) {
	args := "hist " + strings.Join(toks, " ")
	defer func() {
		if r := recover(); r != nil {
			c.emit("C15", args, "PANIC")
		}
	}()
	opt, ops := syncOptions(toks)
	var optToks []string
	for _, t := range toks {
		if strings.HasPrefix(t, "opt~") && t != "opt~subsets=1" {
			optToks = append(optToks, t)
		}
	}
	if len(ops) == 0 || ops[len(ops)-1] != "sync" {
		ops = append(append([]string(nil), ops...), "sync")
	}
	w := world.NewWorld()
	p, err := world.NewPipeline(w, opt)
	if err != nil {
		c.emit("C15", args, "ERR:"+sanitize(err.Error()))
		return
	}
	defer p.Close()
	syncs := 0
	obs := &runObs{}
	for i, o := range ops {
		if o != "sync" {
			evs, err := w.Apply(world.Op{Text: o})
			if err != nil {
				c.emit("C15", args, "ERR:"+sanitize(err.Error()))
				return
			}
			p.Deliver(evs)
			continue
		}
		prefix := strings.Join(append(append([]string(nil), optToks...), ops[:i+1]...), " ")
		if _, err := p.Reconcile(); err != nil {
			out := "ERR:" + sanitize(err.Error())
			if strings.HasPrefix(err.Error(), "PANIC") {
				out = "PANIC"
			}
			c.emit("C15", "hist "+prefix, out)
			return
		}
		syncs++
		out, _ := crtProjection(p, snisOf(ops[:i+1]), true)
		c.emit("C15", "hist "+prefix, out)
		c.emit("C15", "trk "+prefix, trackProjection(p, ops[:i+1]))
		// the running side: what the simulated HAProxy serves now (crt-list of the last reload + certificates in memory)
		secrets := secretsOf(ops[:i+1])
		obs.observe(p, secrets)
		c.emit("C15", "run "+prefix, obs.projection(p, snisOf(ops[:i+1]), secrets))
		c.stat("history_syncs_judged", 1)
	}
	c.stat("histories", 1)
	c.stat(fmt.Sprintf("history_syncs_%d", syncs), 1)
	dyn := 0
	for _, cmd := range p.Sim.Cmds {
		if strings.HasPrefix(cmd, "set ssl cert") {
			dyn++
		}
	}
	if dyn > 0 {
		c.stat("histories_with_set_ssl_cert", 1)
	}
	c.stat(fmt.Sprintf("reloads_%d", p.Sim.Reloads), 1)
}

// secretStep: one later batch on the secrets of a world
func secretStep(r *gen.Rng, vers map[string]int) string {
	ns := gen.Pick(r, syncNamespaces)
	name := gen.Pick(r, syncSecrets)
	key := ns + "/" + name
	switch r.Intn(4) {
	case 0:
		if vers[key] > 0 {
			vers[key] = -vers[key]
			return "sec-" + key
		}
	case 1:
		v := vers[key]
		if v < 0 {
			v = -v
		}
		vers[key] = v + 1
		act := "~"
		if v == 0 || vers[key] < 0 {
			act = "+"
		}
		return fmt.Sprintf("sec%s%s!bad!%d!a.local", act, key, vers[key])
	}
	v := vers[key]
	act := "~"
	if v <= 0 {
		act = "+"
		v = -v
	}
	if act == "~" && v+world.ChainStep < world.SharedVersion && r.Chance(1, 3) {
		// same leaf and key, another intermediate chain
		vers[key] = v + world.ChainStep
		return fmt.Sprintf("sec~%s!tls!%d!a.local", key, vers[key])
	}
	vers[key] = v + 1
	return fmt.Sprintf("sec%s%s!tls!%d!a.local", act, key, vers[key])
}

// ---- directed secret-sharing histories (seed C15e): k ingresses with distinct hosts and distinct services share
// one Secret; one reader leaves (other Secret / deleted / no tls block / missing Secret); then the shared Secret is
// rotated in place. The remaining readers are linked to the leaver through the Secret ONLY, so their tracking links
// survive the leaver's partial sync only if that sync reads them again.

type sharedShape struct {
	k       int  // readers of the shared Secret d/tls1 (2..3)
	mode    int  // 0 same namespace, 1 cross-namespace with the permission key, 2 wildcard host + hosts below it, 3 cross-namespace without permission (control)
	leaver  int  // the reader that leaves
	leave   int  // 0 switches to its own Secret, 1 is deleted, 2 loses its tls block, 3 switches to a missing Secret
	rot     int  // 0 new leaf, 1 same leaf and key with another intermediate chain
	batch   int  // 0 each step its own reconciliation, 1 leave+rotation batched, 2 rotation+leave batched, 3 the ingresses arrive in a partial sync of their own
	tail    bool // a second rotation of the other kind in its own reconciliation
	leaver2 int  // -1 or a second reader that leaves (deleted) together with the first
	churn   bool // an Endpoints-only reconciliation between the leave and the rotation
}

var sharedModes = []string{"same_ns", "xns_allowed", "wildcard", "xns_forbidden"}
var sharedLeaves = []string{"switch_secret", "deleted", "tls_block_removed", "switch_to_missing"}
var sharedBatches = []string{"stepwise", "leave_then_rotate_batched", "rotate_then_leave_batched", "ingresses_in_partial_sync"}

func (sh sharedShape) ops() []string {
	hosts := []string{"a.local", "b.local", "c.local"}
	if sh.mode == 2 {
		hosts = []string{"*.w.local", "x.w.local", "y.w.local"}
	}
	svcs := []string{"app", "api", "web"}
	type reader struct {
		ns, name, host, svc, secret string
		ts                          int
	}
	var base, ings []string
	var rs []reader
	base = append(base, "sec+d/tls1!tls!1!a.local", "sec+d/tls2!tls!1!b.local")
	if sh.mode == 1 || sh.mode == 3 {
		base = append(base, "sec+e/tls2!tls!1!b.local")
	}
	for i := 0; i < sh.k; i++ {
		r := reader{"d", fmt.Sprintf("i%d", i+1), hosts[i], svcs[i], "tls1", i + 1}
		if (sh.mode == 1 || sh.mode == 3) && i > 0 {
			r.ns, r.secret = "e", "d/tls1"
		}
		rs = append(rs, r)
		base = append(base, fmt.Sprintf("svc+%s/%s!http:80:8080!-", r.ns, r.svc), fmt.Sprintf("ep~%s/%s!10.0.%d.1:r:%s-1", r.ns, r.svc, i+1, r.svc))
	}
	text := func(r reader, tls string) string {
		return fmt.Sprintf("%s/%s@%d!haproxy,-!-!%s>/:Prefix:%s:80!%s!-", r.ns, r.name, r.ts, r.host, r.svc, tls)
	}
	for _, r := range rs {
		ings = append(ings, "ing+"+text(r, r.host+">"+r.secret))
	}
	var leave []string
	l := rs[sh.leaver]
	switch sh.leave {
	case 0:
		leave = append(leave, "ing~"+text(l, l.host+">tls2"))
	case 1:
		leave = append(leave, "ing-"+l.ns+"/"+l.name)
	case 2:
		leave = append(leave, "ing~"+text(l, "-"))
	default:
		leave = append(leave, "ing~"+text(l, l.host+">missing"))
	}
	if sh.leaver2 >= 0 && sh.leaver2 != sh.leaver && sh.leaver2 < sh.k && sh.k > 2 {
		l2 := rs[sh.leaver2]
		leave = append(leave, "ing-"+l2.ns+"/"+l2.name)
	}
	v1, v2 := 2, 2+world.ChainStep
	if sh.rot == 1 {
		v1, v2 = 1+world.ChainStep, 2
	}
	rot := fmt.Sprintf("sec~d/tls1!tls!%d!a.local", v1)
	var ops []string
	if sh.mode == 1 {
		ops = append(ops, "opt~xns=1")
	}
	ops = append(ops, base...)
	if sh.batch == 3 {
		ops = append(ops, "sync")
	}
	ops = append(ops, ings...)
	ops = append(ops, "sync")
	churn := func() {
		if sh.churn {
			ops = append(ops, fmt.Sprintf("ep~%s/%s!10.0.9.1:r:%s-9", rs[0].ns, rs[0].svc, rs[0].svc), "sync")
		}
	}
	switch sh.batch {
	case 1:
		ops = append(ops, leave...)
		ops = append(ops, rot, "sync")
	case 2:
		ops = append(ops, rot)
		ops = append(ops, leave...)
		ops = append(ops, "sync")
	default:
		ops = append(ops, leave...)
		ops = append(ops, "sync")
		churn()
		ops = append(ops, rot, "sync")
	}
	if sh.tail {
		ops = append(ops, fmt.Sprintf("sec~d/tls1!tls!%d!a.local", v2), "sync")
	}
	return ops
}

func c15shared(c *ctx, sh sharedShape) {
	c15hist(c, sh.ops())
	c.stat("shared_histories", 1)
	c.stat(fmt.Sprintf("shared_readers_%d", sh.k), 1)
	c.stat("shared_mode_"+sharedModes[sh.mode], 1)
	c.stat("shared_leave_"+sharedLeaves[sh.leave], 1)
	c.stat("shared_batch_"+sharedBatches[sh.batch], 1)
	if sh.rot == 1 {
		c.stat("shared_rotation_same_leaf_other_chain", 1)
	} else {
		c.stat("shared_rotation_new_leaf", 1)
	}
	if sh.leaver == 0 {
		c.stat("shared_first_created_reader_leaves", 1)
	} else {
		c.stat("shared_later_reader_leaves", 1)
	}
	if sh.tail {
		c.stat("shared_second_rotation", 1)
	}
}

func runC15(c *ctx) {
	for _, l := range c15corpus {
		f := strings.Fields(l)
		if f[0] == "hist" {
			c15hist(c, f[1:])
		} else {
			c15world(c, f[1:])
		}
	}
	// exhaustive small scope of the directed secret-sharing histories
	for k := 2; k <= 3; k++ {
		for mode := 0; mode < 4; mode++ {
			for leaver := 0; leaver < k; leaver++ {
				for leave := 0; leave < 4; leave++ {
					for rot := 0; rot < 2; rot++ {
						for bi, batch := range []int{0, 1, 3} {
							// quick: three readers and the control mode with ONE (rotation kind, batching) each, rotating
							if !c.thorough() && (k == 3 || mode == 3) && (leaver+leave+mode)%6 != rot*3+bi {
								continue
							}
							c15shared(c, sharedShape{k: k, mode: mode, leaver: leaver, leave: leave, rot: rot, batch: batch, leaver2: -1})
						}
					}
				}
			}
		}
	}
	// the running side: one certificate replicated into several Secrets (c15run.go), exhaustive small scope + random
	c15replAll(c)
	rr := gen.New(c.seed + 0x15f) // own stream
	nr := 80
	if c.thorough() {
		nr = 1500
	}
	for i := 0; i < nr; i++ {
		c15replRandom(c, rr.Fork())
	}
	r := gen.New(c.seed)
	n, nh, ns := 700, 500, 120
	if c.thorough() {
		n, nh, ns = 10000, 8000, 1500
	}
	rs := gen.New(c.seed + 0x15e) // own stream: the random worlds / histories below stay what they were for a seed
	for i := 0; i < ns; i++ {
		g := rs.Fork()
		sh := sharedShape{k: g.Range(2, 3), mode: g.Intn(4), leave: g.Intn(4), rot: g.Intn(2), batch: g.Intn(4), tail: g.Chance(1, 2), leaver2: -1, churn: g.Chance(1, 3)}
		if sh.mode == 3 && g.Chance(2, 3) {
			sh.mode = g.Intn(3)
		}
		sh.leaver = g.Intn(sh.k)
		if sh.k == 3 && g.Chance(1, 3) {
			sh.leaver2 = g.Intn(3)
		}
		c15shared(c, sh)
	}
	for i := 0; i < n; i++ {
		g := &syncGen{r: r.Fork(), paths: []string{"/", "/a"}, tlsProb: [2]int{3, 4}, wildcard: i%3 == 0, xns: true}
		ops := g.world(5)
		if g.r.Chance(1, 6) {
			ops = append(ops, "opt~xns=1")
		}
		c15world(c, ops)
	}
	for i := 0; i < nh; i++ {
		g := &syncGen{r: r.Fork(), paths: []string{"/", "/a"}, tlsProb: [2]int{4, 5}, wildcard: i%4 == 0, xns: true}
		ops := g.world(4)
		vers := map[string]int{}
		for _, o := range ops {
			if strings.HasPrefix(o, "sec+") {
				vers[strings.SplitN(o[4:], "!", 2)[0]] = 1
			}
		}
		ops = append(ops, "sync")
		steps := g.r.Range(1, 2)
		for s := 0; s < steps; s++ {
			k := g.r.Range(1, 2)
			for j := 0; j < k; j++ {
				ops = append(ops, secretStep(g.r, vers))
			}
			ops = append(ops, "sync")
		}
		c15hist(c, ops)
	}
}

var c15corpus = []string{
	// namespace / name pairs whose texts run into each other when joined (after seed C15h: the certificate file of a
	// Secret named with `-` as separator: t/a-tls and t-a/tls -> t-a-tls.pem): every Secret keeps its own file
	"world svc+t/app!http:80:8080!- svc+t-a/app!http:80:8080!- sec+t/a-tls!tls!1!a.local sec+t-a/tls!tls!2!b.local ing+t/i1@1!haproxy,-!-!a.local>/:Prefix:app:80!a.local>a-tls!- ing+t-a/i2@2!haproxy,-!-!b.local>/:Prefix:app:80!b.local>tls!-",
	"world svc+t/app!http:80:8080!- svc+t-a/app!http:80:8080!- sec+t/a-tls!tls!1!a.local sec+t-a/tls!tls!2!b.local ing+t-a/i2@1!haproxy,-!-!b.local>/:Prefix:app:80!b.local>tls!- ing+t/i1@2!haproxy,-!-!a.local>/:Prefix:app:80!a.local>a-tls!-",
	"hist svc+t/app!http:80:8080!- svc+t-a/app!http:80:8080!- sec+t/a-tls!tls!1!a.local sec+t-a/tls!tls!2!b.local ing+t/i1@1!haproxy,-!-!a.local>/:Prefix:app:80!a.local>a-tls!- sync ing+t-a/i2@2!haproxy,-!-!b.local>/:Prefix:app:80!b.local>tls!- sync sec~t/a-tls!tls!3!a.local sync",
	// seed C15f, minimised: one certificate replicated into d/tls1 and e/tls1 (equal content, two files), both replaced
	// with the same new content in ONE batch, nothing else changes: each FILE needs its own `set ssl cert` (a memo keyed
	// by the certificate hash sends one and leaves the hosts of the other Secret with the old certificate in memory)
	"hist svc+d/app!http:80:8080!- svc+e/app!http:80:8080!- sec+d/tls1!tls!1000!w.local sec+e/tls1!tls!1000!w.local ing+d/r1@1!haproxy,-!-!a.local>/:Prefix:app:80!a.local>tls1!- ing+e/r2@2!haproxy,-!-!c.local>/:Prefix:app:80!c.local>tls1!- sync sec~d/tls1!tls!1001!w.local sec~e/tls1!tls!1001!w.local sync",
	// conflicting declarations: the first-created ingress wins, also when it is listed later
	"world svc+d/app!http:80:8080!- sec+d/tls1!tls!1!a.local sec+e/tls2!tls!1!a.local ing+e/i1@2!haproxy,-!-!a.local>/:Prefix:app:80!a.local>tls2!- ing+d/i2@1!haproxy,-!-!a.local>/:Prefix:app:80!a.local>tls1!-",
	// missing / malformed / forbidden secret: default certificate
	"world svc+d/app!http:80:8080!- sec+d/tls1!bad!1!a.local sec+e/tls2!tls!1!a.local ing+d/i1@1!haproxy,-!-!a.local>/:Prefix:app:80;b.local>/:Prefix:app:80;c.local>/:Prefix:app:80!a.local>tls1;b.local>missing;c.local>e/tls2!-",
	// SUSPECTED (DESIGN C15): wildcard host with its own certificate, exact host below it without tls entry
	"world svc+d/app!http:80:8080!- svc+e/app!http:80:8080!- sec+d/tls1!tls!1!w.local ing+d/i1@1!haproxy,-!-!*.w.local>/:Prefix:app:80!*.w.local>tls1!- ing+e/i2@2!haproxy,-!-!x.w.local>/:Prefix:app:80!-!-",
	// the same with a tls entry whose secret is missing: default expected, not the wildcard's
	"world svc+d/app!http:80:8080!- svc+e/app!http:80:8080!- sec+d/tls1!tls!1!w.local ing+d/i1@1!haproxy,-!-!*.w.local>/:Prefix:app:80!*.w.local>tls1!- ing+e/i2@2!haproxy,-!-!x.w.local>/:Prefix:app:80!x.w.local>missing!-",
	// rotation: shared secret updated in a later batch -> set ssl cert, no reload
	"hist svc+d/app!http:80:8080!- sec+d/tls1!tls!1!a.local sec+d/tls2!tls!1!c.local ing+d/i1@1!haproxy,-!-!a.local>/:Prefix:app:80;b.local>/:Prefix:app:80;c.local>/:Prefix:app:80!a.local+b.local>tls1;c.local>tls2!- sync sec~d/tls1!tls!2!a.local sync",
	// secret deleted, then added again
	"hist svc+d/app!http:80:8080!- sec+d/tls1!tls!1!a.local ing+d/i1@1!haproxy,-!-!a.local>/:Prefix:app:80!a.local>tls1!- sync sec-d/tls1 sync sec+d/tls1!tls!2!a.local sync",
	// the secret is replaced in place with the SAME leaf and key and another intermediate chain (version 1 -> 101,
	// see world.ChainStep): the served file content must follow (seed C15d: chain outside the change-detection hash)
	"hist svc+d/app!http:80:8080!- sec+d/tls1!tls!1!a.local sec+d/tls2!tls!1!c.local ing+d/i1@1!haproxy,-!-!a.local>/:Prefix:app:80;c.local>/:Prefix:app:80!a.local>tls1;c.local>tls2!- sync sec~d/tls1!tls!101!a.local sync sec~d/tls1!tls!201!a.local sync",
	// secret that did not exist at the first sync
	"hist svc+d/app!http:80:8080!- ing+d/i1@1!haproxy,-!-!a.local>/:Prefix:app:80!a.local>tls1!- sync sec+d/tls1!tls!1!a.local sync",
	// seed C15e, minimised: two ingresses with distinct hosts and services share d/tls1; the first reader moves to its
	// own Secret (a partial sync that deletes the tracking links of the whole component must read d/i2 again); then
	// d/tls1 is rotated in place: c.local must follow (stale-certificate-version / secret-reader-not-tracked)
	"hist svc+d/app!http:80:8080!- svc+d/api!http:80:8080!- sec+d/tls1!tls!1!a.local sec+d/tls2!tls!1!a.local ing+d/i1@1!haproxy,-!-!a.local>/:Prefix:app:80!a.local>tls1!- ing+d/i2@2!haproxy,-!-!c.local>/:Prefix:api:80!c.local>tls1!- sync ing~d/i1@1!haproxy,-!-!a.local>/:Prefix:app:80!a.local>tls2!- sync sec~d/tls1!tls!2!a.local sync",
	// the same with the first reader deleted, the second reader in another namespace (permission key), same leaf other chain
	"hist opt~xns=1 svc+d/app!http:80:8080!- svc+e/api!http:80:8080!- sec+d/tls1!tls!1!a.local ing+d/i1@1!haproxy,-!-!a.local>/:Prefix:app:80!a.local>tls1!- ing+e/i2@2!haproxy,-!-!c.local>/:Prefix:api:80!c.local>d/tls1!- sync ing-d/i1 sync sec~d/tls1!tls!101!a.local sync",
	// the later reader leaves (tls block removed), the first-created one — a wildcard host — must follow the rotation
	"hist svc+d/app!http:80:8080!- svc+d/api!http:80:8080!- sec+d/tls1!tls!1!w.local ing+d/i1@1!haproxy,-!-!*.w.local>/:Prefix:app:80!*.w.local>tls1!- ing+d/i2@2!haproxy,-!-!x.w.local>/:Prefix:api:80!x.w.local>tls1!- sync ing~d/i2@2!haproxy,-!-!x.w.local>/:Prefix:api:80!-!- sync sec~d/tls1!tls!2!w.local sync",
}
