package main

import (
	"context"
	"fmt"
	"os"
	"path/filepath"
	"sort"
	"strings"
	"sync"

	"sigs.k8s.io/controller-runtime/pkg/client"

	ctrlconfig "github.com/jcmoraisjr/haproxy-ingress/pkg/controller/config"
	"github.com/jcmoraisjr/haproxy-ingress/pkg/controller/services"
	"github.com/jcmoraisjr/haproxy-ingress/pkg/converters/tracker"
	convtypes "github.com/jcmoraisjr/haproxy-ingress/pkg/converters/types"

	"hapverif/gen"
	"hapverif/world"
	"hapverif/xnsworld"
)

// C07, CA bundles read from files: `auth-tls-secret` / `secure-verify-ca-secret` given as
// `file://<ca>[,<crl>]`. The controller does not write these files, so the configuration names whatever
// GetCASecretPath hands back; HAProxy refuses the whole configuration if one of them cannot be loaded.
//
//	cafile  <present> <ref>      the REAL cache facade's GetCASecretPath on one reference text
//	cafiles <present> <ops...>   a world history whose annotations carry such references, real pipeline + lint
//
// Every case owns a temporary directory (created before, removed after the case); `$F` in the case text
// stands for it, `<present>` lists the files created in it (`+` separated, `-` = none).

const c07fDirVar = "$F"

// c07fDir creates the directory of one case with the files of `present`
func c07fDir(present string) (string, error) {
	dir, err := os.MkdirTemp("", "hv-c07f")
	if err != nil {
		return "", err
	}
	if present != "-" {
		for _, f := range strings.Split(present, "+") {
			if !strings.HasPrefix(f, c07fDirVar+"/") {
				continue // only files inside the directory of the case are ever created
			}
			name := filepath.Join(dir, strings.TrimPrefix(f, c07fDirVar+"/"))
			if err := os.MkdirAll(filepath.Dir(name), 0o755); err != nil {
				os.RemoveAll(dir)
				return "", err
			}
			if err := os.WriteFile(name, []byte("-----hapverif "+filepath.Base(name)+"-----\n"), 0o644); err != nil {
				os.RemoveAll(dir)
				return "", err
			}
		}
	}
	return dir, nil
}

var (
	c07fOnce   sync.Once
	c07fFacade services.VerifCache
)

// the real cache facade of pkg/controller/services over a fake client WITHOUT any object: the secret
// protocol can only fail, the file protocol looks at the filesystem alone
func c07fCache() services.VerifCache {
	c07fOnce.Do(func() {
		cfg := &ctrlconfig.Config{AnnPrefix: []string{"haproxy-ingress.github.io"}, ElectionNamespace: "ingress-controller"}
		dyn := &convtypes.DynamicConfig{}
		c07fFacade = services.VerifCreateCacheFacade(context.Background(), xnsworld.NewClient(), cfg, tracker.NewTracker(),
			services.CreateSSLCerts(cfg), dyn, func(client.Object) {})
	})
	return c07fFacade
}

func c07fErrClass(err error) string {
	switch {
	case err == nil:
		return "-"
	case err.Error() == "empty file name":
		return "empty"
	case strings.HasPrefix(err.Error(), "only one or two filenames"):
		return "count"
	case strings.HasPrefix(err.Error(), "unsupported protocol"):
		return "proto"
	}
	if _, ok := err.(*os.PathError); ok {
		return "stat"
	}
	return "secret"
}

func c07cafile(c *ctx, present, ref string) {
	out := func() (res string) {
		dir, err := c07fDir(present)
		if err != nil {
			return "skip:" + sanitize(err.Error())
		}
		defer os.RemoveAll(dir)
		defer func() {
			if r := recover(); r != nil {
				res = "PANIC"
			}
		}()
		text := ref
		if text == "_" {
			text = ""
		}
		ca, crl, err := c07fCache().GetCASecretPath("d", strings.ReplaceAll(text, c07fDirVar, dir), nil)
		d := func(s string) string {
			if s == "" {
				return "-"
			}
			return strings.ReplaceAll(s, dir, c07fDirVar)
		}
		if err == nil && crl.Filename != "" {
			c.stat("cafile_ok_with_crl", 1)
		}
		if err == nil {
			c.stat("cafile_ok", 1)
		}
		return d(ca.Filename) + "|" + d(crl.Filename) + "|" + c07fErrClass(err)
	}()
	c.emit("C07", "cafile "+present+" "+ref, out)
	c.stat("cafile", 1)
}

// counts the words ` ca-file ` / ` crl-file ` in every file the pipeline wrote (non-vacuity statistics)
func c07fCountRefs(dir string) (ca, crl int) {
	_ = filepath.Walk(dir, func(path string, info os.FileInfo, err error) error {
		if err != nil || info.IsDir() {
			return nil
		}
		b, err := os.ReadFile(path)
		if err != nil {
			return nil
		}
		ca += strings.Count(string(b), " ca-file ")
		ca += strings.Count(string(b), "[ca-file ")
		crl += strings.Count(string(b), " crl-file ")
		return nil
	})
	return
}

// world history with file references: every configuration written along the history (long-lived pipeline)
// and by a fresh controller goes through the lint (crt-list bind options, bind lines, server lines)
func c07cafiles(c *ctx, present string, toks []string) {
	out := func() (res string) {
		dir, err := c07fDir(present)
		if err != nil {
			return "skip:" + sanitize(err.Error())
		}
		defer os.RemoveAll(dir)
		defer func() {
			if r := recover(); r != nil {
				res = "panic:" + sanitize(fmt.Sprint(r))
			}
		}()
		opt, ops := syncOptions(toks)
		w := world.NewWorld()
		p, err := world.NewPipeline(w, opt)
		if err != nil {
			return "skip:" + sanitize(err.Error())
		}
		defer p.Close()
		probs := map[string]bool{}
		nca, ncrl := 0, 0
		lint := func(pp *world.Pipeline) {
			cfg, err := world.LoadConfig(pp.CfgDir)
			if err != nil {
				probs["load-error:"+sanitize(err.Error())] = true
				return
			}
			for _, x := range world.Lint(cfg) {
				x = strings.ReplaceAll(strings.ReplaceAll(x, pp.Dir, "$DIR"), dir, c07fDirVar)
				probs[sanitize(strings.ReplaceAll(x, ",", ";"))] = true
			}
			a, b := c07fCountRefs(pp.CfgDir)
			nca, ncrl = nca+a, ncrl+b
		}
		for _, o := range append(append([]string(nil), ops...), "sync") {
			if o == "sync" {
				if _, err := p.Reconcile(); err != nil {
					probs["update-error:"+sanitize(strings.ReplaceAll(err.Error(), dir, c07fDirVar))] = true
				}
				if p.Sim.LoadErr != "" {
					probs["sim-load-error:"+sanitize(strings.ReplaceAll(p.Sim.LoadErr, dir, c07fDirVar))] = true
				}
				lint(p)
				continue
			}
			evs, err := w.Apply(world.Op{Text: strings.ReplaceAll(o, c07fDirVar, dir)})
			if err != nil {
				return "skip:" + sanitize(err.Error())
			}
			p.Deliver(evs)
		}
		f, err := world.NewPipeline(w, opt)
		if err == nil {
			f.Startup()
			if _, err := f.Reconcile(); err != nil {
				probs["update-error:"+sanitize(strings.ReplaceAll(err.Error(), dir, c07fDirVar))] = true
			}
			lint(f)
			f.Close()
		}
		if nca > 0 {
			c.stat("cafiles_case_names_ca_file", 1)
		}
		if ncrl > 0 {
			c.stat("cafiles_case_names_crl_file", 1)
		}
		c.stat("cafiles_ca_file_words", nca)
		c.stat("cafiles_crl_file_words", ncrl)
		if len(probs) == 0 {
			return "ok"
		}
		ks := make([]string, 0, len(probs))
		for k := range probs {
			ks = append(ks, k)
		}
		sort.Strings(ks)
		return strings.Join(ks, ",")
	}()
	c.emit("C07", "cafiles "+present+" "+strings.Join(toks, " "), out)
	c.stat("cafiles", 1)
}

func c07filesReplay(c *ctx, a []string) bool {
	switch {
	case len(a) == 3 && a[0] == "cafile":
		c07cafile(c, a[1], a[2])
	case len(a) >= 3 && a[0] == "cafiles":
		c07cafiles(c, a[1], a[2:])
	default:
		return false
	}
	return true
}

var c07fPool = []string{"$F/ca1.pem", "$F/ca2.pem", "$F/crl1.pem", "$F/crl2.pem"}

func c07fPresent(mask int) string {
	var fs []string
	for i, f := range c07fPool {
		if mask&(1<<i) != 0 {
			fs = append(fs, f)
		}
	}
	if len(fs) == 0 {
		return "-"
	}
	return strings.Join(fs, "+")
}

// a reference text; mostly two names, each independently present or not
func c07fRef(r *gen.Rng) string {
	cas := []string{"$F/ca1.pem", "$F/ca2.pem", "$F/gone-ca.pem"}
	crls := []string{"$F/crl1.pem", "$F/crl2.pem", "$F/gone-crl.pem"}
	switch r.Intn(12) {
	case 0:
		return "file://" + gen.Pick(r, cas)
	case 1:
		return "file://" + gen.Pick(r, cas) + "," + gen.Pick(r, crls) + "," + gen.Pick(r, crls)
	case 2:
		return gen.Pick(r, []string{"file://", "file://,", "file://" + gen.Pick(r, cas) + ",", "nosuch", "d/nosuch", "secret://nosuch", "vault://x"})
	}
	return "file://" + gen.Pick(r, cas) + "," + gen.Pick(r, crls)
}

const c07fBase = "svc+d/app!http:80:8080!- ep~d/app!10.0.1.1:r:app-1 svc+d/api!http:80:8080!- ep~d/api!10.0.2.1:r:api-1+10.0.2.2:r:api-2 " +
	"svc+d/web!http:80:8080!- ep~d/web!10.0.3.1:r:web-1 sec+d/tls1!tls!1!h1.local+h2.local "

// one ingress carrying the reference in one of the places that take a CA bundle
func c07fIngress(k int, how int, ref string, r *gen.Rng) string {
	svc := []string{"app", "api", "web"}[k%3]
	host := fmt.Sprintf("h%d.local", k)
	tls := "-"
	if k <= 2 && (r == nil || r.Bool()) {
		tls = host + ">tls1"
	}
	var ann string
	switch how % 4 {
	case 0:
		ann = "auth-tls-secret=" + ref
	case 1:
		ann = "auth-tls-secret=" + ref + ";auth-tls-strict=true;auth-tls-verify-client=optional"
	case 2:
		ann = "secure-backends=true;secure-verify-ca-secret=" + ref
	case 3:
		ann = fmt.Sprintf("tcp-service-port=%d;auth-tls-secret=%s", 7000+k, ref)
		if tls == "-" {
			tls = host + ">tls1"
		}
	}
	return fmt.Sprintf("ing+d/i%d@%d!haproxy,-!%s!%s>/:Prefix:%s:80!%s!-", k, k, ann, host, svc, tls)
}

func runC07Files(c *ctx) {
	r := gen.New(c.seed ^ 0xC07F)
	// 1. the resolution itself: every reference of up to three names over the pool x every set of present files
	names := append(append([]string{}, c07fPool...), "$F/gone.pem", "")
	var refs []string
	refs = append(refs, "_", "file://", "nosuch", "d/nosuch", "secret://d/nosuch", "vault://x", "File://$F/ca1.pem", "file:$F/ca1.pem",
		"xfile://$F/ca1.pem", "file://$F/ca1.pem,$F/crl1.pem,", "file://x$F/ca1.pem")
	for _, a := range names {
		if a != "" {
			refs = append(refs, "file://"+a)
		}
		for _, b := range names {
			refs = append(refs, "file://"+a+","+b)
			if c.thorough() {
				for _, d := range names {
					refs = append(refs, "file://"+a+","+b+","+d)
				}
			}
		}
	}
	refs = append(refs, "file://$F/ca1.pem,$F/crl1.pem,$F/crl2.pem", "file://$F/gone.pem,$F/gone.pem,$F/gone.pem", "file://,,")
	for mask := 0; mask < 1<<len(c07fPool); mask++ {
		for _, ref := range refs {
			c07cafile(c, c07fPresent(mask), ref)
		}
	}
	// a directory satisfies os.Stat as well: `$F` itself exists in every case (model: listed as present)
	c07cafile(c, "$F", "file://$F")
	c07cafile(c, "$F+$F/crl1.pem", "file://$F,$F/crl1.pem")
	c07cafile(c, "$F+$F/ca1.pem", "file://$F/ca1.pem,$F")
	c07cafile(c, "$F", "file://$F/ca1.pem,$F")
	// files in a sub directory
	c07cafile(c, "$F/sub/ca.pem", "file://$F/sub/ca.pem,$F/sub/crl.pem")
	c07cafile(c, "$F/sub/ca.pem+$F/sub/crl.pem", "file://$F/sub/ca.pem,$F/sub/crl.pem")

	// 2. end to end, small scope: one ingress, each place that takes a CA bundle x CA present/missing x CRL absent/present/missing
	for how := 0; how < 4; how++ {
		for _, ca := range []string{"$F/ca1.pem", "$F/gone-ca.pem"} {
			for _, crl := range []string{"", ",$F/crl1.pem", ",$F/gone-crl.pem"} {
				ops := strings.Fields(c07fBase + c07fIngress(1, how, "file://"+ca+crl, nil) + " sync")
				c07cafiles(c, "$F/ca1.pem+$F/crl1.pem", ops)
			}
		}
	}
	// the same annotation on the Service instead of the Ingress
	for _, crl := range []string{",$F/crl1.pem", ",$F/gone-crl.pem"} {
		c07cafiles(c, "$F/ca1.pem+$F/crl1.pem", strings.Fields(
			"svc+d/app!http:80:8080!secure-backends=true;secure-verify-ca-secret=file://$F/ca1.pem"+crl+" ep~d/app!10.0.1.1:r:app-1 "+
				"ing+d/i1@1!haproxy,-!-!h1.local>/:Prefix:app:80!-!- sync"))
	}
	// 3. random histories: several ingresses, references re-drawn between the syncs, ingresses removed
	n := 30
	if c.thorough() {
		n = 600
	}
	for i := 0; i < n; i++ {
		present := c07fPresent(r.Intn(1 << len(c07fPool)))
		ops := strings.Fields(c07fBase)
		k := r.Range(1, 4)
		hows := make([]int, k+1)
		for j := 1; j <= k; j++ {
			hows[j] = r.Intn(4)
			ops = append(ops, c07fIngress(j, hows[j], c07fRef(r), r))
		}
		ops = append(ops, "sync")
		for m := r.Range(0, 3); m > 0; m-- {
			j := r.Range(1, k)
			switch r.Intn(5) {
			case 0:
				ops = append(ops, fmt.Sprintf("ing-d/i%d", j))
			case 1:
				hows[j] = r.Intn(4)
				fallthrough
			default:
				ops = append(ops, "ing~"+strings.TrimPrefix(c07fIngress(j, hows[j], c07fRef(r), r), "ing+"))
			}
			if r.Chance(2, 3) {
				ops = append(ops, "sync")
			}
		}
		c07cafiles(c, present, ops)
	}
}
