package main

import (
	"fmt"
	"strconv"
	"strings"

	convutils "github.com/jcmoraisjr/haproxy-ingress/pkg/converters/utils"

	"hapverif/gen"
)

func init() {
	props["C16"] = runC16
	replayers["C16"] = func(c *ctx, a []string) {
		if c16callersReplay(c, a) { // gw / bg case lines: c16callers.go
			return
		}
		if len(a) == 3 && a[0] == "rebalance" {
			ini, _ := strconv.Atoi(a[1])
			var ws, ls []int
			for _, p := range strings.Split(a[2], ",") {
				wl := strings.Split(p, ":")
				if len(wl) != 2 {
					continue
				}
				w, _ := strconv.Atoi(wl[0])
				l, _ := strconv.Atoi(wl[1])
				ws, ls = append(ws, w), append(ls, l)
			}
			c16case(c, ini, ws, ls)
		}
	}
}

func c16case(c *ctx, initial int, ws, ls []int) {
	cl := make([]*convutils.WeightCluster, len(ws))
	in := make([]string, len(ws))
	for i := range ws {
		cl[i] = &convutils.WeightCluster{Weight: ws[i], Length: ls[i]}
		in[i] = fmt.Sprintf("%d:%d", ws[i], ls[i])
	}
	convutils.RebalanceWeight(cl, initial)
	out := make([]string, len(ws))
	for i := range cl {
		out[i] = fmt.Sprint(cl[i].Weight)
	}
	c.emit("C16", fmt.Sprintf("rebalance %d %s", initial, strings.Join(in, ",")), strings.Join(out, ","))
	c.stat(fmt.Sprintf("groups_%d", len(ws)), 1)
}

func runC16(c *ctx) {
	inits := []int{1, 2, 7, 100, 128, 256}
	// corpus: minimised past failures first
	c16case(c, 1, []int{41, 59}, []int{1, 1})
	c16case(c, 128, []int{1, 3}, []int{3, 1})
	// binary32 lands just below an integer: 250 where exact arithmetic gives 251 (within the share tolerance)
	c16case(c, 75, []int{229, 241, 17}, []int{157, 162, 162})
	c16case(c, 93, []int{249, 235, 5}, []int{269, 239, 269})
	// exhaustive small scope: 2 groups
	wstep, lmax := 1, 3
	ws := []int{0, 1, 2, 3, 5, 7, 10, 25, 33, 41, 50, 59, 64, 99, 100, 127, 128, 200, 255, 256}
	if c.thorough() {
		ws = nil
		for w := 0; w <= 256; w += wstep {
			ws = append(ws, w)
		}
		lmax = 6
	}
	// thorough: every weight pair with lengths 0..4; lengths 5 and 6 with the representative weights
	// (keeps the whole thorough run under ten minutes)
	rep := ws
	lfull := lmax
	if c.thorough() {
		rep = []int{0, 1, 2, 3, 5, 7, 10, 25, 33, 41, 50, 59, 64, 99, 100, 127, 128, 200, 255, 256}
		lfull = 4
	}
	for _, ini := range inits {
		for _, w1 := range ws {
			for _, w2 := range ws {
				for l1 := 0; l1 <= lfull; l1++ {
					for l2 := 0; l2 <= lfull; l2++ {
						c16case(c, ini, []int{w1, w2}, []int{l1, l2})
					}
				}
			}
		}
		for _, w1 := range rep {
			for _, w2 := range rep {
				for l1 := 0; l1 <= lmax; l1++ {
					for l2 := 0; l2 <= lmax; l2++ {
						if l1 > lfull || l2 > lfull {
							c16case(c, ini, []int{w1, w2}, []int{l1, l2})
						}
					}
				}
			}
		}
	}
	c.stat("exhaustive_2groups", 1)
	// random: 3..5 groups, larger and coprime lengths
	r := gen.New(c.seed)
	n := 3000
	if c.thorough() {
		n = 200000
	}
	primes := []int{1, 2, 3, 5, 7, 11, 13, 17, 19, 23, 29, 31, 37, 41, 97, 101, 997, 1009, 9973}
	for i := 0; i < n; i++ {
		k := r.Range(1, 5)
		w := make([]int, k)
		l := make([]int, k)
		prod := 1
		for j := 0; j < k; j++ {
			switch r.Intn(4) {
			case 0:
				w[j] = gen.Pick(r, []int{0, 1, 255, 256})
			default:
				w[j] = r.Range(0, 256)
			}
			switch r.Intn(5) {
			case 0:
				l[j] = 0
			case 1:
				l[j] = gen.Pick(r, primes)
			case 2:
				l[j] = r.Range(1, 1000)
			default:
				l[j] = r.Range(1, 12)
			}
			// keep 256*lcm < 2^53 (stated assumption: no int overflow)
			if l[j] > 0 {
				if prod > 1<<40/l[j] {
					l[j] = 1
				}
				prod *= l[j]
			}
		}
		ini := gen.Pick(r, inits)
		if r.Chance(1, 4) {
			ini = r.Range(1, 256)
		}
		c16case(c, ini, w, l)
	}
	// the two callers (gateway createBackend, blue/green annotation): c16callers.go
	runC16Callers(c)
}
