package main

// C03 — requests reach exactly the ready endpoints Ingress+Service designate.
//
// A case is a cluster state given as one batch of op texts (world/ops.go) plus pseudo ops for
// controller options; a FRESH pipeline (real watchers, converters, haproxy.Instance, templates)
// is started on it and the written files are evaluated (world.Snapshot).  The case line carries the
// projection `routes servers`; the Lean driver computes the same from Model/Sync (agree) and
// evaluates the Spec of Model/C03 on this projection (oracle).
//
// Helpers of this file are shared with c15.go and c06.go.

import (
	"os"
	"slices"
	"strconv"
	"fmt"
	"sort"
	"strings"
	"time"

	"hapverif/gen"
	"hapverif/world"
)

func init() {
	props["C03"] = runC03
	replayers["C03"] = func(c *ctx, a []string) {
		if len(a) >= 1 && a[0] == "world" {
			c03case(c, a[1:])
		}
		if len(a) >= 1 && a[0] == "ep" {
			k, err := c03epParse(a[1:])
			if err != nil {
				fmt.Fprintln(os.Stderr, "C03 replay:", err)
				return
			}
			c03epCaseRun(c, k)
		}
	}
}

// ---- shared: options / running a one-batch world

// syncOptions reads the pseudo ops `opt~db=ns/name`, `opt~xns=1`; returns the real ops
func syncOptions(toks []string) (world.Options, []string) {
	opt := world.DefaultOptions()
	var ops []string
	for _, t := range toks {
		switch {
		case strings.HasPrefix(t, "opt~db="):
			opt.DefaultBackend = t[len("opt~db="):]
		case t == "opt~xns=1":
			opt.Dyn.StaticCrossNamespaceSecrets = true
		case strings.HasPrefix(t, "opt~shards="):
			opt.Shards, _ = strconv.Atoi(t[len("opt~shards="):])
		case t == "opt~subsets=1":
			ops = append(ops, t) // a world op (Endpoints layout), not a controller option
		case strings.HasPrefix(t, "opt~"):
		default:
			ops = append(ops, t)
		}
	}
	return opt, ops
}

// applyOps applies all ops to a new world ("sync" tokens are ignored)
func applyOps(ops []string) (*world.World, error) {
	w := world.NewWorld()
	for _, o := range ops {
		if o == "sync" {
			continue
		}
		if _, err := w.Apply(world.Op{Text: o}); err != nil {
			return nil, err
		}
	}
	return w, nil
}

// freshRun starts a controller on the final state of the ops and returns the pipeline after one reconcile.
// `prep` may tweak the pipeline before the startup (list order ...); `startup` replaces p.Startup when not nil.
func freshRun(toks []string, prep func(p *world.Pipeline), startup func(p *world.Pipeline)) (p *world.Pipeline, errText string) {
	opt, ops := syncOptions(toks)
	w, err := applyOps(ops)
	if err != nil {
		return nil, "ERR:" + sanitize(err.Error())
	}
	p, err = world.NewPipeline(w, opt)
	if err != nil {
		return nil, "ERR:" + sanitize(err.Error())
	}
	if prep != nil {
		prep(p)
	}
	if startup != nil {
		startup(p)
	} else {
		p.Startup()
	}
	if _, err := p.Reconcile(); err != nil {
		txt := err.Error()
		p.Close()
		if strings.HasPrefix(txt, "PANIC") {
			return nil, "PANIC"
		}
		return nil, "ERR:" + sanitize(txt)
	}
	return p, ""
}

// histRun drives one long-lived pipeline through the history (events delivered through the real watchers, one
// reconciliation per `sync` token and a last one at the end) and returns it.
func histRun(toks []string) (p *world.Pipeline, errText string) {
	opt, ops := syncOptions(toks)
	w := world.NewWorld()
	p, err := world.NewPipeline(w, opt)
	if err != nil {
		return nil, "ERR:" + sanitize(err.Error())
	}
	all := ops
	if len(all) == 0 || all[len(all)-1] != "sync" {
		all = append(append([]string(nil), all...), "sync")
	}
	for _, o := range all {
		if o == "sync" {
			if _, err := p.Reconcile(); err != nil {
				txt := err.Error()
				p.Close()
				if strings.HasPrefix(txt, "PANIC") {
					return nil, "PANIC"
				}
				return nil, "ERR:" + sanitize(txt)
			}
			continue
		}
		evs, err := w.Apply(world.Op{Text: o})
		if err != nil {
			p.Close()
			return nil, "ERR:" + sanitize(err.Error())
		}
		p.Deliver(evs)
	}
	return p, ""
}

// requestsOf: every declared host/path and neighbours, http first then https
func requestsOf(ops []string) (reqs []world.Request, snis []string) {
	all, snis := world.RequestsFor(ops)
	for _, tls := range []bool{false, true} {
		for _, r := range all {
			if r.TLS == tls {
				reqs = append(reqs, r)
			}
		}
	}
	return reqs, snis
}

func reqText(r world.Request) string {
	if r.TLS {
		return "https://" + r.Host + r.Path
	}
	return "http://" + r.Host + r.Path
}

// routesText: `proto://host/path>backend,...` (first token of the decision)
func routesText(s *world.Snapshot, reqs []world.Request) string {
	if len(reqs) == 0 {
		return "-"
	}
	l := make([]string, len(reqs))
	for i, r := range reqs {
		k := reqText(r)
		d := s.Routes[k]
		ans := "!none"
		if f := strings.Fields(d); len(f) > 0 {
			ans = f[0]
		}
		if strings.HasPrefix(ans, "terminal:") {
			ans = "!terminal"
		}
		l[i] = k + ">" + ans
	}
	return strings.Join(l, ",")
}

// serversText: `backend=ip:port:weight+...` for every generated service backend
func serversText(s *world.Snapshot) string {
	var l []string
	for _, name := range world.SortedKeys(s.Servers) {
		if strings.HasPrefix(name, "_") {
			continue
		}
		var srv []string
		for _, x := range s.Servers[name] {
			if j := strings.Index(x, "{"); j >= 0 {
				// the other keywords of the server line (`{check inter 2s}` …) are not part of this listing
				x = x[:j]
			}
			i := strings.LastIndex(x, "=")
			w := x[i+1:]
			if w == "drain" {
				w = "0"
			} else {
				w = strings.TrimPrefix(w, "w")
			}
			srv = append(srv, x[:i]+":"+w)
		}
		sort.Strings(srv)
		l = append(l, name+"="+strings.Join(srv, "+"))
	}
	if len(l) == 0 {
		return "-"
	}
	return strings.Join(l, ",")
}

// ---- C03

func c03case(c *ctx, toks []string) {
	args := "world " + strings.Join(toks, " ")
	defer func() {
		if r := recover(); r != nil {
			c.emit("C03", args, "PANIC")
		}
	}()
	var p *world.Pipeline
	var errText string
	if slices.Contains(toks, "sync") {
		// a history: the configuration judged is the one a LONG-LIVED controller holds after the incremental
		// reconciliations (the Spec is the same: it only looks at the final cluster state) — after seed C03e
		p, errText = histRun(toks)
		c.stat("histories", 1)
	} else {
		p, errText = freshRun(toks, nil, nil)
	}
	if p == nil {
		c.emit("C03", args, errText)
		c.stat("run_error", 1)
		return
	}
	defer p.Close()
	_, ops := syncOptions(toks)
	reqs, snis := requestsOf(ops)
	snap := p.Snapshot(reqs, snis)
	if len(snap.Skipped) > 0 {
		c.emit("C03", args, "SKIP")
		c.stat("skipped_unsupported_construct", 1)
		return
	}
	c.emit("C03", args, routesText(snap, reqs)+" "+serversText(snap))
	c.stat("worlds", 1)
	c.stat(fmt.Sprintf("requests_%03d", len(reqs)/50*50), 1)
}

// syncGen generates one-batch cluster states over the pools of world.DefaultGen
type syncGen struct {
	r        *gen.Rng
	paths    []string
	tlsProb  [2]int // chance of a tls block per ingress
	wildcard bool   // C15: wildcard hosts
	annots   bool   // C06: tracer annotations
	xns      bool   // C15: cross namespace secret names
	auth     bool   // C06: external authentication declared by several ingresses on shared auth targets
}

var syncNamespaces = []string{"d", "e"}
var syncHosts = []string{"a.local", "b.local", "c.local", ""}
var syncServices = []string{"app", "api", "web"}
var syncSecrets = []string{"tls1", "tls2"}
var syncPaths = []string{"/", "/a", "/a/b", "/b", "/App", "/a/"}

const stdPorts = "http:80:8080+adm:81:adm"

func (g *syncGen) baseOps() (ops []string, drain bool) {
	r := g.r
	var cm []string
	if r.Chance(1, 4) {
		drain = true
		cm = append(cm, "drain-support=true")
	}
	if g.auth {
		// external haproxy: auth-url / oauth need Lua
		cm = append(cm, "external-has-lua=true")
		if r.Chance(1, 3) {
			// a range of two ports for the auth proxies: exhausted by the third auth target
			cm = append(cm, "auth-proxy=_front_auth:14415-14416")
		}
	}
	if len(cm) > 0 {
		ops = append(ops, "cm~"+strings.Join(cm, ";"))
	}
	for _, ns := range syncNamespaces {
		nsb := map[string]int{"d": 0, "e": 1}[ns]
		for si, s := range syncServices {
			if !r.Chance(5, 6) {
				continue
			}
			ports := stdPorts
			switch r.Intn(10) {
			case 0:
				ports = "http:80:8080"
			case 1:
				ports = "http:80:8080+adm:81:adm+alt:82:8081"
			case 2:
				ports = "_:80:8080" // single unnamed port
			}
			ops = append(ops, fmt.Sprintf("svc+%s/%s!%s!-", ns, s, ports))
			n := r.Range(0, 3)
			var as []string
			used := map[int]bool{}
			for i := 0; i < n; i++ {
				k := r.Range(1, 4)
				if used[k] {
					continue
				}
				used[k] = true
				rd := "r"
				if r.Chance(1, 4) {
					rd = "n"
				}
				as = append(as, fmt.Sprintf("10.%d.%d.%d:%s:%s-%d", nsb, si+1, k, rd, s, k))
			}
			if r.Chance(5, 6) {
				a := "-"
				if len(as) > 0 {
					a = strings.Join(as, "+")
				}
				ops = append(ops, fmt.Sprintf("ep~%s/%s!%s", ns, s, a))
			}
			if drain && r.Chance(1, 2) {
				// 5, 6: already gone from the Endpoints; 1..4: may still be published there (ready or not)
				k := r.Range(1, 6)
				ops = append(ops, fmt.Sprintf("pod+%s/%s-%d!10.%d.%d.%d!app=%s!t", ns, s, k, nsb, si+1, k, s))
			}
		}
		for _, s := range syncSecrets {
			if r.Chance(3, 4) {
				kind := "tls"
				if r.Chance(1, 8) {
					kind = "bad"
				}
				ops = append(ops, fmt.Sprintf("sec+%s/%s!%s!1!a.local+b.local", ns, s, kind))
			}
		}
	}
	return ops, drain
}

func (g *syncGen) ingress(ns, name string, ts int) world.IngressSpec {
	r := g.r
	s := world.IngressSpec{Namespace: ns, Name: name, Annotations: map[string]string{}}
	s.Created = world.NewWorld().Tick(true)
	s.Created.Time = s.Created.Time.Add(secsDur(ts))
	cls := "haproxy"
	if r.Chance(1, 10) {
		cls = "other"
	}
	s.ClassAnn = &cls
	hosts := syncHosts
	if g.wildcard {
		hosts = []string{"a.local", "x.w.local", "*.w.local", "y.w.local", ""}
	}
	nr := r.Range(0, 2)
	if r.Chance(1, 2) {
		nr = 1
	}
	for i := 0; i < nr; i++ {
		rule := world.RuleSpec{Host: gen.Pick(r, hosts)}
		np := r.Range(1, 3)
		paths := g.paths
		if g.auth {
			paths = append(append([]string{}, g.paths...), "/oauth2", "/oauth2")
		}
		for j := 0; j < np; j++ {
			p := world.PathSpec{Path: gen.Pick(r, paths), Type: gen.Pick(r, []string{"Prefix", "Exact", "ImplementationSpecific", ""}),
				Svc: gen.Pick(r, syncServices), Port: gen.Pick(r, []string{"80", "http", "81", "adm", "8080", "9999", "82", "alt", ""})}
			if r.Chance(3, 4) {
				p.Port = gen.Pick(r, []string{"80", "http"})
			}
			if r.Chance(1, 16) {
				p.Svc = "nosvc"
			}
			if r.Chance(1, 20) {
				p.Path = ""
			}
			rule.Paths = append(rule.Paths, p)
		}
		s.Rules = append(s.Rules, rule)
	}
	if r.Chance(g.tlsProb[0], g.tlsProb[1]) {
		nb := 1
		if r.Chance(1, 4) {
			nb = 2
		}
		for b := 0; b < nb; b++ {
			secs := append([]string{}, syncSecrets...)
			secs = append(secs, "", "missing")
			if g.xns {
				secs = append(secs, "d/tls1", "e/tls2", "e/tls1")
			}
			t := world.TLSSpec{Secret: gen.Pick(r, secs)}
			nh := r.Range(1, 2)
			for i := 0; i < nh; i++ {
				h := gen.Pick(r, hosts)
				if h != "" {
					t.Hosts = append(t.Hosts, h)
				}
			}
			if len(t.Hosts) > 0 {
				s.TLS = append(s.TLS, t)
			}
		}
	}
	if r.Chance(1, 6) {
		s.DefaultBackend = &world.PathSpec{Svc: gen.Pick(r, syncServices), Port: gen.Pick(r, []string{"80", "http", "adm"})}
	}
	if r.Chance(1, 8) {
		s.Annotations["path-type"] = gen.Pick(r, []string{"begin", "prefix", "exact", "Prefix"})
	}
	if g.annots {
		if r.Chance(1, 3) {
			s.Annotations["balance-algorithm"] = gen.Pick(r, []string{"leastconn", "first"})
		}
		if r.Chance(1, 4) {
			s.Annotations["maxconn-server"] = gen.Pick(r, []string{"10", "20"})
		}
		if r.Chance(1, 5) {
			s.Annotations["ssl-redirect"] = gen.Pick(r, []string{"true", "false"})
		}
		if r.Chance(1, 5) {
			s.Annotations["timeout-server"] = gen.Pick(r, []string{"10s", "20s"})
		}
		if r.Chance(1, 6) {
			s.Annotations["auth-tls-strict"] = gen.Pick(r, []string{"true", "false"})
		}
		if r.Chance(1, 4) {
			// host-level setting several hosts can claim: the same alias on distinct hostnames (seed C06e)
			s.Annotations["server-alias"] = gen.Pick(r, []string{"alias.local", "www.local"})
		}
		if r.Chance(1, 5) {
			// another host-level setting several hosts can claim: the domain redirected to this host
			s.Annotations["redirect-from"] = gen.Pick(r, []string{"old.local", "www.old.local"})
		}
		if r.Chance(1, 5) {
			// settings read only by the declaration that CREATES the backend object
			world.CreateTimeAnnotations(r, &s)
		}
	}
	if g.auth {
		switch r.Intn(5) {
		case 0, 1:
			// auth backends are shared by ip:port: one target reached through different schemes / paths by several
			// ingresses; what the shared `_auth_backendNNN` server line looks like must not depend on who comes first
			// (seed C06f)
			s.Annotations["auth-url"] = gen.Pick(r, []string{"http://10.9.9.9:8000/auth", "https://10.9.9.9:8000/auth", "https://10.9.9.9:8000/other",
				"http://10.9.9.8:8000/auth", "https://10.9.9.7:8443/auth"})
			// (no svc:// targets here: they create a backend no path declares, which the balance clause of the C06
			// driver reads as backend-without-declaration — a false alarm of the first sweep; C09 / C18 cover svc://)
			if r.Chance(1, 4) {
				s.Annotations["auth-external-placement"] = "frontend"
			}
		case 2:
			s.Annotations["oauth"] = "oauth2_proxy"
			if r.Chance(1, 3) {
				s.Annotations["oauth-uri-prefix"] = "/a"
			}
		}
	}
	return s
}

// world: base objects + n ingresses with frequent creation-time ties
func (g *syncGen) world(maxIng int) []string {
	r := g.r
	ops, _ := g.baseOps()
	n := r.Range(1, maxIng)
	ts := 0
	used := map[string]bool{}
	perHost := map[string]int{}
	for i := 0; i < n; i++ {
		ns := gen.Pick(r, syncNamespaces)
		name := fmt.Sprintf("i%d", r.Range(1, 6))
		if used[ns+"/"+name] {
			continue
		}
		used[ns+"/"+name] = true
		if !r.Chance(1, 3) {
			ts++
		}
		s := g.ingress(ns, name, ts)
		// sort.Slice of rebuildMatchFiles is a stable insertion sort up to 12 entries per host: stay below
		ok := true
		cnt := map[string]int{}
		for _, rule := range s.Rules {
			cnt[rule.Host] += len(rule.Paths)
		}
		for h, k := range cnt {
			if perHost[h]+k > 10 {
				ok = false
			}
		}
		if !ok {
			continue
		}
		for h, k := range cnt {
			perHost[h] += k
		}
		ops = append(ops, "ing+"+world.IngressText(s))
	}
	if r.Chance(1, 8) {
		ops = append(ops, "opt~db="+gen.Pick(r, syncNamespaces)+"/"+gen.Pick(r, syncServices))
	}
	if r.Chance(1, 4) {
		// Endpoints objects with several subsets carrying the selected port
		ops = append([]string{"opt~subsets=1"}, ops...)
	}
	return ops
}

func runC03(c *ctx) {
	// corpus
	for _, l := range c03corpus {
		c03case(c, strings.Fields(l))
	}
	// hand-maintained Endpoints objects of Services without selector (c03ep.go, after seed C03g)
	runC03ep(c)
	// exhaustive small scope: two ingresses, one rule each, on a shared host
	base := []string{
		"svc+d/app!" + stdPorts + "!-", "ep~d/app!10.0.1.1:r:app-1+10.0.1.2:n:app-2",
		"svc+d/api!" + stdPorts + "!-", "ep~d/api!10.0.2.1:r:api-1",
		"sec+d/tls1!tls!1!a.local",
	}
	hosts := []string{"a.local", ""}
	paths := []string{"/", "/a"}
	types := []string{"Exact", "Prefix", ""}
	if c.thorough() {
		paths = []string{"/", "/a", "/a/b"}
		types = []string{"Exact", "Prefix", "ImplementationSpecific", ""}
	}
	n := 0
	for _, h1 := range hosts {
		for _, p1 := range paths {
			for _, t1 := range types {
				for _, h2 := range hosts {
					for _, p2 := range paths {
						for _, t2 := range types {
							for _, tls := range []string{"-", "a.local>tls1"} {
								tss := [][2]int{{1, 2}}
								if c.thorough() {
									tss = [][2]int{{1, 2}, {2, 1}, {1, 1}}
								}
								for _, ts := range tss {
									i1 := fmt.Sprintf("ing+d/i1@%d!haproxy,-!-!%s>%s:%s:app:80!%s!-", ts[0], qq(h1), p1, qq(t1), tls)
									i2 := fmt.Sprintf("ing+d/i2@%d!haproxy,-!-!%s>%s:%s:api:http!-!-", ts[1], qq(h2), p2, qq(t2))
									c03case(c, append(append([]string{}, base...), i1, i2))
									n++
								}
							}
						}
					}
				}
			}
		}
	}
	c.stat("exhaustive_two_ingresses", n)
	// random worlds
	r := gen.New(c.seed)
	k := 2000
	if c.thorough() {
		k = 20000
	}
	for i := 0; i < k; i++ {
		g := &syncGen{r: r.Fork(), paths: syncPaths, tlsProb: [2]int{1, 3}}
		c03case(c, g.world(5))
	}
	// histories: a generated world, one reconciliation, then rounds of Endpoints churn (new address lists, and
	// updates that only flip readiness within the same address set), each followed by a reconciliation; the
	// long-lived controller's configuration must obey the same Spec as a fresh one (after seed C03e)
	kh := 150
	if c.thorough() {
		kh = 2000
	}
	rh := gen.New(c.seed ^ 0xc03e)
	for i := 0; i < kh; i++ {
		g := &syncGen{r: rh.Fork(), paths: syncPaths, tlsProb: [2]int{1, 3}}
		c03case(c, c03history(g.r, g.world(4)))
	}
}

// c03history appends endpoint churn to a one-batch world
func c03history(r *gen.Rng, ops []string) []string {
	eps := map[string][]string{} // "ns/name" -> addresses "ip:r|n:pod"
	var keys []string
	hasDrain := false
	for _, o := range ops {
		if strings.HasPrefix(o, "cm~") && strings.Contains(o, "drain-support=true") {
			hasDrain = true
		}
		if strings.HasPrefix(o, "ep~") {
			f := strings.SplitN(o[3:], "!", 2)
			if len(f) == 2 {
				if _, ok := eps[f[0]]; !ok {
					keys = append(keys, f[0])
				}
				if f[1] == "-" {
					eps[f[0]] = nil
				} else {
					eps[f[0]] = strings.Split(f[1], "+")
				}
			}
		}
	}
	if len(keys) == 0 {
		return ops
	}
	if !hasDrain && r.Chance(1, 2) {
		ops = append([]string{"cm~drain-support=true"}, ops...)
	}
	ops = append(append([]string(nil), ops...), "sync")
	rounds := r.Range(1, 3)
	for k := 0; k < rounds; k++ {
		n := r.Range(1, 2)
		for j := 0; j < n; j++ {
			key := gen.Pick(r, keys)
			as := append([]string(nil), eps[key]...)
			switch {
			case len(as) > 0 && r.Chance(2, 3): // flip readiness, same address set
				i := r.Intn(len(as))
				all := r.Chance(1, 3)
				for x := range as {
					if x == i || all {
						f := strings.Split(as[x], ":")
						if len(f) >= 2 {
							if f[1] == "r" {
								f[1] = "n"
							} else {
								f[1] = "r"
							}
							as[x] = strings.Join(f, ":")
						}
					}
				}
			case len(as) > 1 && r.Chance(1, 2): // scale in
				as = as[:len(as)-1]
			default: // scale out: derive a new address from the key
				ns, name, _ := strings.Cut(key, "/")
				nsb := map[string]int{"d": 0, "e": 1}[ns]
				sb := map[string]int{"app": 1, "api": 2, "web": 3}[name]
				id := 10 + len(as) + k
				rd := "r"
				if r.Chance(1, 3) {
					rd = "n"
				}
				as = append(as, fmt.Sprintf("10.%d.%d.%d:%s:%s-%d", nsb, sb, id, rd, name, id))
			}
			eps[key] = as
			if len(as) == 0 {
				ops = append(ops, "ep~"+key+"!-")
			} else {
				ops = append(ops, "ep~"+key+"!"+strings.Join(as, "+"))
			}
		}
		ops = append(ops, "sync")
	}
	return ops
}

func secsDur(n int) time.Duration { return time.Duration(n) * time.Second }

func qq(s string) string {
	if s == "" {
		return "_"
	}
	return s
}

// minimised inputs of past findings / interesting corners (kept first)
var c03corpus = []string{
	// histories (long-lived controller): drain-support and an Endpoints update that only flips readiness (seed C03e)
	"cm~drain-support=true svc+d/app!http:80:8080!- ep~d/app!10.0.1.1:r:app-1+10.0.1.2:r:app-2 ing+d/i1@1!haproxy,-!-!a.local>/:Prefix:app:80!-!- sync ep~d/app!10.0.1.1:r:app-1+10.0.1.2:n:app-2 sync",
	"cm~drain-support=true svc+d/app!http:80:8080!- ep~d/app!10.0.1.1:r:app-1+10.0.1.2:n:app-2 ing+d/i1@1!haproxy,-!-!a.local>/:Prefix:app:80!-!- sync ep~d/app!10.0.1.1:n:app-1+10.0.1.2:r:app-2 sync",
	// duplicate path: first-created ingress wins, the later one in another namespace is skipped
	"svc+d/app!http:80:8080!- ep~d/app!10.0.1.1:r:app-1 svc+e/app!http:80:8080!- ep~e/app!10.1.1.1:r:app-1 ing+e/i1@2!haproxy,-!-!a.local>/:Prefix:app:80!-!- ing+d/i2@1!haproxy,-!-!a.local>/:Prefix:app:80!-!-",
	// https only with a tls entry; default host catches the rest
	"svc+d/app!http:80:8080+adm:81:adm!- ep~d/app!10.0.1.1:r:app-1+10.0.1.2:n:app-2 sec+d/tls1!tls!1!a.local ing+d/i1@1!haproxy,-!-!a.local>/a:Prefix:app:80+/a:_:app:adm;_>/:Prefix:app:http;b.local>/:Prefix:app:adm!a.local>tls1!app:80",
	// drain-support: not ready and terminating endpoints as weight 0
	"cm~drain-support=true svc+d/app!http:80:8080!- ep~d/app!10.0.1.1:r:app-1+10.0.1.2:n:app-2 pod+d/app-5!10.0.1.5!app=app!t ing+d/i1@1!haproxy,-!-!a.local>/:Prefix:app:80!-!-",
	// a terminating pod whose address is still published as ready: one server for the address, draining
	"cm~drain-support=true svc+d/app!http:80:8080!- ep~d/app!10.0.1.1:r:app-1+10.0.1.2:r:app-2 pod+d/app-2!10.0.1.2!app=app!t ing+d/i1@1!haproxy,-!-!a.local>/:Prefix:app:80!-!-",
	// several Endpoints subsets carry the port: ready and (drain-support) not ready addresses of all of them
	"opt~subsets=1 cm~drain-support=true svc+d/app!http:80:8080!- ep~d/app!10.0.1.1:r:app-1+10.0.1.2:r:app-2+10.0.1.3:n:app-3+10.0.1.4:n:app-4 ing+d/i1@1!haproxy,-!-!a.local>/:Prefix:app:80!-!-",
	// --default-backend-service
	"svc+d/web!http:80:8080!- ep~d/web!10.0.3.1:r:web-1 svc+d/app!http:80:8080!- ing+d/i1@1!haproxy,-!-!a.local>/a:Exact:app:80!-!- opt~db=d/web",
}
