package main

// C04, mode `conv`: the producers of the header filter and the header-filter part of rebuildMatchFiles.
//
// Drives the REAL converters (converters.NewConverter(...).Sync(): gateway converter, then ingress
// converter, over the repository's cache mock), then the REAL haproxy model: Config().SyncConfig(),
// WriteFrontendMaps() (map template of /repo/rootfs) and reads Frontend().Maps.HTTPHostMap.MatchFiles().
//
// Case line:  C04 conv <gw|ing> <order> <rule>[,<rule>...] => <entry>[,<entry>...]@<file>[;<file>...]
//   <order>  path-type-order, three letters of E P B (regex is appended), set through the global config key
//   <rule>   host|path|type|target|hdrs      as DECLARED, in declaration order; target = index of the rule
//            type: E Exact, P Prefix (PathPrefix), B begin (Ingress only: ImplementationSpecific)
//            hdrs: `-` field absent;  `0` declared but empty (HTTPRoute: `headers: []`, an empty non-nil slice in
//                  the Go object; Ingress: the annotation holds a blank line only);
//                  else `name=value` (exact) / `name~value` (regex) joined by `&`
//            gw : one HTTPRoute per host (in order of first appearance: r00, r01, ...), one rule with one match and
//                 one backendRef per declared rule
//            ing: one Ingress per declared rule (i000, i001, ...) with the header annotations http-header-match /
//                 http-header-match-regex (exact ones first, as the converter appends them)
//   <entry>  host|path|type|target|hdrs      what the converters left in haproxy.Hosts(), in the order config.go
//            feeds the map (BuildSortedItems x host.Paths); hdrs: `-` nil slice, `0` empty non-nil slice
//   <file>   method:L|N:hdrs:key>tN,...      MatchFiles() in emitted order: Method(), Lower(), Headers(), Values()

import (
	"fmt"
	"os"
	"path/filepath"
	"strconv"
	"strings"
	"sync/atomic"

	networking "k8s.io/api/networking/v1"
	metav1 "k8s.io/apimachinery/pkg/apis/meta/v1"
	gatewayv1 "sigs.k8s.io/gateway-api/apis/v1"

	"github.com/jcmoraisjr/haproxy-ingress/pkg/converters"
	conv_helper "github.com/jcmoraisjr/haproxy-ingress/pkg/converters/helper_test"
	"github.com/jcmoraisjr/haproxy-ingress/pkg/converters/tracker"
	convtypes "github.com/jcmoraisjr/haproxy-ingress/pkg/converters/types"
	"github.com/jcmoraisjr/haproxy-ingress/pkg/haproxy"
	hatypes "github.com/jcmoraisjr/haproxy-ingress/pkg/haproxy/types"
	"github.com/jcmoraisjr/haproxy-ingress/pkg/utils"

	"hapverif/gen"
	"hapverif/hvutil"
)

const c04AnnPrefix = "ingress.kubernetes.io"

type c04hdr struct {
	name, value string
	regex       bool
}

// c04frule: a declared rule. hdrs: nil = absent; non-nil empty = declared empty
type c04frule struct {
	host, path, mt string
	target         int
	hdrs           []c04hdr
}

func c04hdrsText(absent bool, hs []c04hdr) string {
	if absent {
		return "-"
	}
	if len(hs) == 0 {
		return "0"
	}
	ss := make([]string, len(hs))
	for i, h := range hs {
		sep := "="
		if h.regex {
			sep = "~"
		}
		ss[i] = h.name + sep + h.value
	}
	return strings.Join(ss, "&")
}

func c04hdrsParse(s string) (hs []c04hdr, ok bool) {
	switch s {
	case "-":
		return nil, true
	case "0":
		return []c04hdr{}, true
	}
	hs = []c04hdr{}
	for _, p := range strings.Split(s, "&") {
		if i := strings.IndexAny(p, "=~"); i > 0 {
			hs = append(hs, c04hdr{p[:i], p[i+1:], p[i] == '~'})
		} else {
			return nil, false
		}
	}
	return hs, true
}

func (r c04frule) String() string {
	return fmt.Sprintf("%s|%s|%s|%d|%s", r.host, r.path, r.mt, r.target, c04hdrsText(r.hdrs == nil, r.hdrs))
}

func c04fruleParse(s string) (r c04frule, ok bool) {
	f := strings.Split(s, "|")
	if len(f) != 5 {
		return r, false
	}
	n, err := strconv.Atoi(f[3])
	if err != nil {
		return r, false
	}
	hs, ok := c04hdrsParse(f[4])
	if !ok {
		return r, false
	}
	return c04frule{f[0], f[1], f[2], n, hs}, true
}

var c04envSeq atomic.Int64

var c04orderNames = map[byte]string{'E': "exact", 'P': "prefix", 'B': "begin"}

func c04pathTypeOrder(order string) string {
	var o []string
	for i := 0; i < len(order); i++ {
		o = append(o, c04orderNames[order[i]])
	}
	return strings.Join(append(o, "regex"), ",")
}

// c04convRun builds the objects, runs the real converters and the real map builder
func c04convRun(mode, order string, rules []c04frule) (out string) {
	defer func() {
		if r := recover(); r != nil {
			out = "PANIC"
		}
	}()
	logger := &hvutil.Logger{}
	trk := tracker.NewTracker()
	cache := conv_helper.NewCacheMock(trk)
	tmp := filepath.Join(os.TempDir(), fmt.Sprintf("c04conv-%d-%d", os.Getpid(), c04envSeq.Add(1)))
	if err := os.MkdirAll(tmp, 0o755); err != nil {
		return "ERR:mkdir"
	}
	defer os.RemoveAll(tmp)
	instance := haproxy.CreateInstance(logger, haproxy.InstanceOptions{
		RootFSPrefix:   "/repo/rootfs",
		HAProxyCfgDir:  tmp,
		HAProxyMapsDir: tmp,
	})
	if err := instance.ParseTemplates(); err != nil {
		return "ERR:templates"
	}
	hcfg := instance.Config()

	backendOf := map[string]int{} // backend ID -> declared rule
	for _, r := range rules {
		name := fmt.Sprintf("default/s%03d", r.target)
		svc, ep, _ := conv_helper.CreateService(name, "8080", fmt.Sprintf("10.0.%d.%d", r.target/200, 1+r.target%200))
		cache.SvcList = append(cache.SvcList, svc)
		cache.EpList[name] = ep
	}
	switch mode {
	case "gw":
		from := gatewayv1.NamespacesFromSame
		gw := &gatewayv1.Gateway{
			TypeMeta:   metav1.TypeMeta{APIVersion: "gateway.networking.k8s.io/v1", Kind: "Gateway"},
			ObjectMeta: metav1.ObjectMeta{Namespace: "default", Name: "web"},
			Spec: gatewayv1.GatewaySpec{
				GatewayClassName: "haproxy",
				Listeners: []gatewayv1.Listener{{
					Name:          "l1",
					AllowedRoutes: &gatewayv1.AllowedRoutes{Namespaces: &gatewayv1.RouteNamespaces{From: &from}},
				}},
			},
		}
		cache.GatewayList = append(cache.GatewayList, gw)
		routes := map[string]*gatewayv1.HTTPRoute{}
		for _, r := range rules {
			rt := routes[r.host]
			if rt == nil {
				rt = &gatewayv1.HTTPRoute{
					TypeMeta:   metav1.TypeMeta{APIVersion: "gateway.networking.k8s.io/v1", Kind: "HTTPRoute"},
					ObjectMeta: metav1.ObjectMeta{Namespace: "default", Name: fmt.Sprintf("r%02d", len(routes))},
				}
				rt.Spec.ParentRefs = []gatewayv1.ParentReference{{Name: "web"}}
				rt.Spec.Hostnames = []gatewayv1.Hostname{gatewayv1.Hostname(r.host)}
				routes[r.host] = rt
				cache.HTTPRouteList = append(cache.HTTPRouteList, rt)
			}
			pt := gatewayv1.PathMatchPathPrefix
			if r.mt == "E" {
				pt = gatewayv1.PathMatchExact
			}
			path := r.path
			m := gatewayv1.HTTPRouteMatch{Path: &gatewayv1.HTTPPathMatch{Type: &pt, Value: &path}}
			if r.hdrs != nil {
				// `headers: []` decodes to an empty non-nil slice
				m.Headers = make([]gatewayv1.HTTPHeaderMatch, 0)
				for _, h := range r.hdrs {
					hm := gatewayv1.HTTPHeaderMatch{Name: gatewayv1.HTTPHeaderName(h.name), Value: h.value}
					if h.regex {
						t := gatewayv1.HeaderMatchRegularExpression
						hm.Type = &t
					}
					m.Headers = append(m.Headers, hm)
				}
			}
			port := gatewayv1.PortNumber(8080)
			rule := gatewayv1.HTTPRouteRule{
				Matches: []gatewayv1.HTTPRouteMatch{m},
				BackendRefs: []gatewayv1.HTTPBackendRef{{BackendRef: gatewayv1.BackendRef{BackendObjectReference: gatewayv1.BackendObjectReference{
					Name: gatewayv1.ObjectName(fmt.Sprintf("s%03d", r.target)), Port: &port}}}},
			}
			backendOf[fmt.Sprintf("default_%s__rule%d", rt.Name, len(rt.Spec.Rules))] = r.target
			rt.Spec.Rules = append(rt.Spec.Rules, rule)
		}
	case "ing":
		for i, r := range rules {
			var pt networking.PathType
			switch r.mt {
			case "E":
				pt = networking.PathTypeExact
			case "P":
				pt = networking.PathTypePrefix
			default:
				pt = networking.PathTypeImplementationSpecific
			}
			ing := &networking.Ingress{
				TypeMeta:   metav1.TypeMeta{APIVersion: "networking.k8s.io/v1", Kind: "Ingress"},
				ObjectMeta: metav1.ObjectMeta{Namespace: "default", Name: fmt.Sprintf("i%03d", i), Annotations: map[string]string{}},
			}
			if r.hdrs != nil {
				var ex, rx []string
				for _, h := range r.hdrs {
					if h.regex {
						rx = append(rx, h.name+": "+h.value)
					} else {
						ex = append(ex, h.name+": "+h.value)
					}
				}
				if len(r.hdrs) == 0 {
					ing.Annotations[c04AnnPrefix+"/http-header-match"] = " \n"
				}
				if len(ex) > 0 {
					ing.Annotations[c04AnnPrefix+"/http-header-match"] = strings.Join(ex, "\n")
				}
				if len(rx) > 0 {
					ing.Annotations[c04AnnPrefix+"/http-header-match-regex"] = strings.Join(rx, "\n")
				}
			}
			ing.Spec.Rules = []networking.IngressRule{{
				Host: r.host,
				IngressRuleValue: networking.IngressRuleValue{HTTP: &networking.HTTPIngressRuleValue{Paths: []networking.HTTPIngressPath{{
					Path: r.path, PathType: &pt,
					Backend: networking.IngressBackend{Service: &networking.IngressServiceBackend{
						Name: fmt.Sprintf("s%03d", r.target), Port: networking.ServiceBackendPort{Number: 8080}}},
				}}}},
			}}
			cache.IngList = append(cache.IngList, ing)
			backendOf[fmt.Sprintf("default_s%03d_8080", r.target)] = r.target
		}
	default:
		return "ERR:mode"
	}
	opts := &convtypes.ConverterOptions{
		Cache: cache, Logger: logger, Tracker: trk, DynamicConfig: &convtypes.DynamicConfig{},
		DefaultConfig:    func() map[string]string { return map[string]string{} },
		AnnotationPrefix: []string{c04AnnPrefix},
		HasGatewayV1:     true,
	}
	changed := &convtypes.ChangedObjects{
		GlobalConfigMapDataNew: map[string]string{"path-type-order": c04pathTypeOrder(order)},
		NeedFullSync:           true,
	}
	converters.NewConverter(utils.NewTimer(nil), hcfg, changed, opts).Sync()
	hcfg.SyncConfig()
	if err := hcfg.WriteFrontendMaps(); err != nil {
		return "ERR:maps"
	}
	tgt := func(id string) string {
		if n, ok := backendOf[id]; ok {
			return strconv.Itoa(n)
		}
		return "?" + id
	}
	hdrs := func(h hatypes.HTTPHeaderMatch) string {
		hs := make([]c04hdr, len(h))
		for i, m := range h {
			hs[i] = c04hdr{m.Name, m.Value, m.Regex}
		}
		return c04hdrsText(h == nil, hs)
	}
	mts := map[hatypes.MatchType]string{hatypes.MatchExact: "E", hatypes.MatchPrefix: "P", hatypes.MatchBegin: "B", hatypes.MatchRegex: "R"}
	// the entries, in the order WriteFrontendMaps feeds HTTPHostMap
	var ents []string
	for _, h := range hcfg.Hosts().BuildSortedItems() {
		for _, p := range h.Paths {
			if p.Backend.ID == "" {
				continue
			}
			ents = append(ents, fmt.Sprintf("%s|%s|%s|%s|%s", h.Hostname, p.Path(), mts[p.Match()], tgt(p.Backend.ID), hdrs(p.Headers())))
		}
	}
	var files []string
	fmaps := hcfg.Frontend().Maps
	if fmaps == nil || fmaps.HTTPHostMap == nil {
		return "ERR:nomaps"
	}
	for _, mf := range fmaps.HTTPHostMap.MatchFiles() {
		var es []string
		for _, v := range mf.Values() {
			es = append(es, v.Key+">t"+tgt(v.Value))
		}
		l := "N"
		if mf.Lower() {
			l = "L"
		}
		files = append(files, mf.Method()+":"+l+":"+hdrs(mf.Headers())+":"+strings.Join(es, ","))
	}
	e, f := "-", "-"
	if len(ents) > 0 {
		e = strings.Join(ents, ",")
	}
	if len(files) > 0 {
		f = strings.Join(files, ";")
	}
	return e + "@" + f
}

func c04convCase(c *ctx, mode, order string, rules []c04frule) {
	out := c04convRun(mode, order, rules)
	rs := make([]string, len(rules))
	nf, ne := 0, 0
	for i, r := range rules {
		rs[i] = r.String()
		if len(r.hdrs) > 0 {
			nf++
		} else if r.hdrs != nil {
			ne++
		}
	}
	c.emit("C04", "conv "+mode+" "+order+" "+strings.Join(rs, ","), out)
	// requests that carry headers satisfying a declared non-empty condition list are outside the quantifier of
	// C04: the driver evaluates them (model column) but does not judge them; one family per distinct list
	fam := map[string]bool{}
	for _, r := range rules {
		if len(r.hdrs) > 0 {
			fam[c04hdrsText(false, r.hdrs)] = true
		}
	}
	c.stat("outside_domain_header_request_families", len(fam))
	c.stat("conv_"+mode, 1)
	switch {
	case nf > 0 && ne > 0:
		c.stat("conv_with_filters_and_empty_lists", 1)
	case nf > 0:
		c.stat("conv_with_filters", 1)
	case ne > 0:
		c.stat("conv_with_empty_lists", 1)
	default:
		c.stat("conv_headers_absent", 1)
	}
}

func c04convReplay(c *ctx, a []string) {
	// a = conv <mode> <order> <rules>
	if len(a) != 4 {
		return
	}
	var rules []c04frule
	for _, s := range strings.Split(a[3], ",") {
		r, ok := c04fruleParse(s)
		if !ok {
			fmt.Fprintln(os.Stderr, "C04 conv replay: bad rule", s)
			return
		}
		rules = append(rules, r)
	}
	c04convCase(c, a[1], a[2], rules)
}

// c04hdrAlpha: header lists used by the generators (index 0 = absent, 1 = declared empty)
var c04hdrAlpha = [][]c04hdr{
	nil,
	{},
	{{"x-a", "v1", false}},
	{{"x-b", "v2", false}},
	{{"x-a", "v1", false}, {"x-b", "v2", false}},
	{{"x-a", "v1", true}},
	{{"x-a", "v2", false}},
}

// c04semKey: two declarations the converters take for one (PathLink.hash ignores nil vs empty)
func c04semKey(r c04frule) string {
	p := r.path
	if r.mt == "B" {
		p = strings.ToLower(p)
	}
	hs := ""
	if len(r.hdrs) > 0 {
		hs = c04hdrsText(false, r.hdrs)
	}
	return strings.ToLower(r.host) + "|" + p + "|" + r.mt + "|" + hs
}

func runC04Conv(c *ctx) {
	H := func(i int) []c04hdr { return c04hdrAlpha[i] }
	// corpus: the rule set of seed C04e (empty header list on the shortest prefix) and relatives
	for _, mode := range []string{"gw", "ing"} {
		c04convCase(c, mode, "EPB", []c04frule{{"app.local", "/login", "E", 0, nil}, {"app.local", "/", "P", 1, H(1)}})
		c04convCase(c, mode, "EPB", []c04frule{{"app.local", "/login", "E", 0, nil}, {"app.local", "/api", "P", 1, nil}, {"app.local", "/", "P", 2, H(1)}})
		c04convCase(c, mode, "EPB", []c04frule{{"app.local", "/api", "P", 0, H(1)}, {"app.local", "/api/v1", "P", 1, nil}})
		c04convCase(c, mode, "EPB", []c04frule{{"app.local", "/login", "E", 0, H(1)}, {"app.local", "/", "P", 1, H(1)}})
		// real header filters next to plain rules
		c04convCase(c, mode, "EPB", []c04frule{{"app.local", "/login", "E", 0, nil}, {"app.local", "/", "P", 1, H(2)}})
		c04convCase(c, mode, "EPB", []c04frule{{"app.local", "/a/b", "P", 0, nil}, {"app.local", "/a", "P", 1, H(2)}, {"app.local", "/", "P", 2, nil}})
	}
	// exhaustive small scope: one host, subsets of (path, type, headers)
	type pth struct {
		p, t string
		h    int
	}
	paths := []string{"/", "/a", "/a/b", "/A"}
	run := func(mode string, types []string, hsel []int, maxRules int) {
		var all []pth
		for _, p := range paths {
			for _, t := range types {
				for _, h := range hsel {
					all = append(all, pth{p, t, h})
				}
			}
		}
		var rec func(start int, cur []pth)
		rec = func(start int, cur []pth) {
			if len(cur) > 0 {
				rules := make([]c04frule, len(cur))
				seen := map[string]bool{}
				dup := false
				for i, x := range cur {
					rules[i] = c04frule{"h.local", x.p, x.t, i, H(x.h)}
					k := c04semKey(rules[i])
					dup = dup || seen[k]
					seen[k] = true
				}
				if !dup {
					c04convCase(c, mode, "EPB", rules)
					c.stat("conv_exhaustive", 1)
				}
			}
			if len(cur) == maxRules {
				return
			}
			for i := start; i < len(all); i++ {
				rec(i+1, append(cur, all[i]))
			}
		}
		rec(0, nil)
	}
	if c.thorough() {
		run("gw", []string{"E", "P"}, []int{0, 1, 2, 4}, 3)
		run("ing", []string{"E", "P", "B"}, []int{0, 1, 2}, 3)
	} else {
		run("gw", []string{"E", "P"}, []int{0, 1, 2}, 2)
		run("ing", []string{"P", "B"}, []int{0, 1, 2}, 2)
	}
	// random: up to 3 hosts, nested paths with case variants, all header variants
	r := gen.New(c.seed ^ 0xC04F)
	n := 500
	if c.thorough() {
		n = 12000
	}
	segs := []string{"a", "b", "A", "ab", "x", "app", "App"}
	hostsPool := []string{"h.local", "g.local", "sub.h.local"}
	for i := 0; i < n; i++ {
		mode := "gw"
		types := []string{"E", "P"}
		if r.Chance(2, 5) {
			mode, types = "ing", []string{"E", "P", "B"}
		}
		nh := r.Range(1, 3)
		hs := make([]string, nh)
		for j := range hs {
			hs[j] = hostsPool[r.Intn(len(hostsPool))]
		}
		var rules []c04frule
		seen := map[string]bool{}
		perHost := map[string]int{}
		total := r.Range(2, 8)
		for k := 0; k < total; k++ {
			h := gen.Pick(r, hs)
			var p string
			if r.Intn(5) == 0 {
				p = "/"
			} else {
				d := r.Range(1, 3)
				parts := make([]string, d)
				for x := range parts {
					parts[x] = gen.Pick(r, segs)
					if r.Chance(3, 4) {
						parts[x] = []string{"a", "b", "x"}[r.Intn(3)]
					}
				}
				p = "/" + strings.Join(parts, "/")
				if r.Chance(1, 8) {
					p += "/"
				}
			}
			hi := 0
			switch r.Intn(10) {
			case 0, 1, 2:
				hi = 1
			case 3, 4, 5:
				hi = 2 + r.Intn(len(c04hdrAlpha)-2)
			}
			fr := c04frule{h, p, gen.Pick(r, types), len(rules), H(hi)}
			key := c04semKey(fr)
			if seen[key] || perHost[h] >= 11 {
				continue
			}
			seen[key] = true
			perHost[h]++
			rules = append(rules, fr)
		}
		if len(rules) == 0 {
			continue
		}
		c04convCase(c, mode, gen.Pick(r, c04orders), rules)
		c.stat("conv_random", 1)
	}
}
