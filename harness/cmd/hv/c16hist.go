package main

// C16 — HISTORIES: the weights WRITTEN (and those the running HAProxy holds) after a second, third ...
// reconciliation of a long-lived controller (after seed C16g: a re-balance that only moves server weights was
// computed by the converter and dropped by Backends.Shrink before it reached haproxy.cfg).
//
//   C16 bgh <mode> <initial> <ann> <eps>  <mode> <initial> <ann> <eps> ... => W|R;W|R;...#F
//     one group of four tokens (grammar of `bg`, c16callers.go) per STATE of the cluster; the states are
//     applied one after the other to ONE long-lived world pipeline (harness/world: real watchers, real
//     converters + tracker, real haproxy.Instance writing real files, simulated HAProxy), objects that did
//     not change between two states produce no event, one reconciliation per state.
//       W  weights of the servers of the backend in the files ON DISK after the reconciliation
//          (world.DiskTable), one per distinct listed address, in address id order (`-` = no server)
//       R  the same from the server table of the RUNNING simulated HAProxy (p.Sim.RunningTable)
//       F  what a FRESH pipeline started on the same state writes
//     The real Pod watcher forwards only updates that change the DeletionTimestamp: a step that only relabels
//     pods reaches the controller as no event at all (the driver's model of the history knows; the pod tokens
//     n / m are expected not to change to or from a labelled pod inside a history).
//     Objects: ConfigMap drain-support=true, Service d/app (8080), Ingress d/ing (one path, the blue/green
//     annotations), Endpoints d/app with the address 10.0.0.<a> and targetRef Pod d/pod<k> for the k-th
//     listed endpoint, Pods d/pod<k> with the labels of the token.
//     Not expressible in the one-token op grammar of the world (the case is then not run): annotation or
//     label texts containing `;` or `!` or equal to `_`, the ip-override layout (every listed endpoint
//     behind one address).
//
//   C16 gwh <K><E> <refs> <refs> ... => <out>;<out>;...#<out>
//     one `gw` reference list per state; every state is converted (real converters.NewConverter().Sync(),
//     full sync) into the SAME haproxy model of one real haproxy.Instance, followed by what HAProxyUpdate
//     does with the model before it is written: SyncConfig, Shrink, (read the servers), Commit.
//     <out> as in `gw`; after `#` the output of a fresh model on the last state.
//     (The world runner has no Gateway API objects, hence no files here: the output is the model the
//     templates are rendered from.)

import (
	"fmt"
	"sort"
	"strconv"
	"strings"

	"github.com/jcmoraisjr/haproxy-ingress/pkg/converters/tracker"
	"github.com/jcmoraisjr/haproxy-ingress/pkg/haproxy"

	"hapverif/gen"
	"hapverif/hvutil"
	"hapverif/world"
)

type c16BgCfg struct {
	Mode, Initial, Ann string
	Eps                []c16Ep
}

func (s c16BgCfg) text() string {
	return strings.Join([]string{s.Mode, s.Initial, s.Ann, c16EpsText(s.Eps)}, " ")
}

func c16worldText(s string) bool {
	return !strings.ContainsAny(s, ";! \t") && s != "_" && s != "-"
}

func c16q(s string) string {
	if s == "" {
		return "_"
	}
	return s
}

// c16bghObjects: the world objects of one state as key -> op text without the action (ok = false: not expressible)
func c16bghObjects(s c16BgCfg) (objs map[string]string, order []string, ok bool) {
	objs = map[string]string{}
	put := func(k, v string) {
		objs[k] = v
		order = append(order, k)
	}
	var anns []string
	add := func(k, v string) bool {
		v = c16unesc(v)
		if v != "" && !c16worldText(v) {
			return false
		}
		anns = append(anns, k+"="+c16q(v))
		return true
	}
	if s.Mode != "-" && !add("blue-green-mode", s.Mode) {
		return nil, nil, false
	}
	if s.Initial != "-" && !add("initial-weight", s.Initial) {
		return nil, nil, false
	}
	if s.Ann != "-" {
		okAnn := true
		switch s.Ann[0] {
		case 'b':
			okAnn = add("blue-green-balance", s.Ann[2:])
		case 'd':
			okAnn = add("blue-green-deploy", s.Ann[2:])
		case 'e':
			okAnn = add("blue-green-balance", "") && add("blue-green-deploy", s.Ann[2:])
		}
		if !okAnn {
			return nil, nil, false
		}
	}
	if len(s.Eps) >= 2 {
		same := true
		for k := range s.Eps {
			if c16EpAddr(s.Eps, k) != c16EpAddr(s.Eps, 0) {
				same = false
			}
		}
		if same {
			return nil, nil, false // `bg` builds the ip-override layout here; the world has no Endpoints annotations
		}
	}
	var ready, notReady []string
	for k, e := range s.Eps {
		ip := fmt.Sprintf("10.0.0.%d", c16EpAddr(s.Eps, k))
		name := "_"
		if e.Pod != "n" {
			name = fmt.Sprintf("pod%d", k)
			if _, has := c16PodLabels(e.Pod); has {
				labels := "-"
				if e.Pod != "0" {
					var kvs []string
					for _, kv := range strings.Split(e.Pod, "+") {
						p := strings.SplitN(kv, "=", 2)
						if len(p) != 2 || strings.ContainsAny(kv, ";! \t") || p[1] == "_" {
							return nil, nil, false
						}
						kvs = append(kvs, p[0]+"="+c16q(p[1]))
					}
					labels = strings.Join(kvs, ";")
				}
				put("pod:d/"+name, fmt.Sprintf("d/%s!%s!%s!-", name, ip, labels))
			}
		}
		if e.Drain {
			notReady = append(notReady, ip+":n:"+name)
		} else {
			ready = append(ready, ip+":r:"+name)
		}
	}
	// the ready addresses first, as `bg` builds the subset
	all := append(ready, notReady...)
	if len(all) == 0 {
		put("ep", "d/app!-")
	} else {
		put("ep", "d/app!"+strings.Join(all, "+"))
	}
	a := "-"
	if len(anns) > 0 {
		a = strings.Join(anns, ";")
	}
	put("ing", "d/ing@1!haproxy,-!"+a+"!app.local>/:Prefix:app:8080!-!-")
	return objs, order, true
}

// c16bghOps: the world history of the states: only what changed between two states produces an op
func c16bghOps(states []c16BgCfg) (batches [][]string, ok bool) {
	cur := map[string]string{}
	for i, s := range states {
		objs, order, ok := c16bghObjects(s)
		if !ok {
			return nil, false
		}
		var ops []string
		if i == 0 {
			ops = append(ops, "cm~drain-support=true", "svc+d/app!http:8080:8080!-")
		}
		var gone []string
		for k := range cur {
			if _, still := objs[k]; !still && strings.HasPrefix(k, "pod:") {
				gone = append(gone, k)
			}
		}
		sort.Strings(gone)
		for _, k := range order {
			if cur[k] == objs[k] {
				continue
			}
			switch {
			case strings.HasPrefix(k, "pod:"):
				ops = append(ops, "pod+"+objs[k])
			case k == "ep":
				ops = append(ops, "ep~"+objs[k])
			case k == "ing":
				if _, exists := cur[k]; exists {
					ops = append(ops, "ing~"+objs[k])
				} else {
					ops = append(ops, "ing+"+objs[k])
				}
			}
			cur[k] = objs[k]
		}
		for _, k := range gone {
			ops = append(ops, "pod-"+k[len("pod:"):])
			delete(cur, k)
		}
		batches = append(batches, ops)
	}
	return batches, true
}

// c16tableWeights reads the weights of the backend of d/app out of a server table (world.DiskTable /
// Sim.RunningTable lines `<backend> <server>=<addr>:<port>:w<N>|drain,...`), one per listed address
func c16tableWeights(table []string, eps []c16Ep) string {
	var line string
	found := false
	for _, l := range table {
		if strings.HasPrefix(l, "d_app_") {
			line, found = l, true
		}
	}
	if !found {
		return "NOBACKEND"
	}
	var addrs []int
	listed := map[int]bool{}
	for k := range eps {
		if a := c16EpAddr(eps, k); !listed[a] {
			listed[a] = true
			addrs = append(addrs, a)
		}
	}
	sort.Ints(addrs)
	written := map[int]string{}
	f := strings.SplitN(line, " ", 2)
	if len(f) == 2 && f[1] != "" {
		for _, sv := range strings.Split(f[1], ",") {
			nv := strings.SplitN(sv, "=", 2)
			if len(nv) != 2 {
				return "w?"
			}
			if nv[1] == "maint" {
				continue // an empty slot
			}
			p := strings.Split(nv[1], ":")
			var a int
			if len(p) != 3 || p[1] != "8080" {
				return "w?"
			}
			if n, _ := fmt.Sscanf(p[0], "10.0.0.%d", &a); n != 1 || !listed[a] || written[a] != "" {
				return "w?"
			}
			if p[2] == "drain" {
				written[a] = "0"
			} else {
				written[a] = strings.TrimPrefix(p[2], "w")
			}
		}
	}
	if len(addrs) == 0 {
		return "-"
	}
	ws := make([]string, len(addrs))
	for k, a := range addrs {
		ws[k] = written[a]
		if ws[k] == "" {
			ws[k] = "w?"
		}
	}
	return strings.Join(ws, ",")
}

func c16bghRun(states []c16BgCfg) (out string, reloads int, cmds int) {
	defer func() {
		if r := recover(); r != nil {
			out = "PANIC"
		}
	}()
	batches, ok := c16bghOps(states)
	if !ok {
		return "UNSUPPORTED", 0, 0
	}
	w := world.NewWorld()
	p, err := world.NewPipeline(w, world.DefaultOptions())
	if err != nil {
		return "ERR:" + sanitize(err.Error()), 0, 0
	}
	defer p.Close()
	var steps []string
	var all []string
	for i, ops := range batches {
		for _, o := range ops {
			evs, err := w.Apply(world.Op{Text: o})
			if err != nil {
				return "ERR:" + sanitize(err.Error()), 0, 0
			}
			p.Deliver(evs)
			all = append(all, o)
		}
		if _, err := p.Reconcile(); err != nil {
			if strings.HasPrefix(err.Error(), "PANIC") {
				return "PANIC", 0, 0
			}
			return "ERR:" + sanitize(err.Error()), 0, 0
		}
		disk, err := world.DiskTable(p.CfgDir)
		if err != nil {
			return "ERR:" + sanitize(err.Error()), 0, 0
		}
		// a fresh controller on the same state
		fresh := "ERR"
		if fp, errText := freshRun(all, nil, nil); fp != nil {
			if fdisk, err := world.DiskTable(fp.CfgDir); err == nil {
				fresh = c16tableWeights(fdisk, states[i].Eps)
			}
			fp.Close()
		} else {
			fresh = errText
		}
		steps = append(steps, c16tableWeights(disk, states[i].Eps)+"|"+c16tableWeights(p.Sim.RunningTable(), states[i].Eps)+"|"+fresh)
	}
	return strings.Join(steps, ";"), p.Sim.Reloads, len(p.Sim.Cmds)
}

func c16bghCase(c *ctx, states []c16BgCfg) {
	if len(states) == 0 {
		return
	}
	out, _, _ := c16bghRun(states)
	if out == "UNSUPPORTED" {
		c.stat("bgh_not_expressible_in_world_ops", 1)
		return
	}
	txt := make([]string, len(states))
	for i, s := range states {
		txt[i] = s.text()
	}
	c.emit("C16", "bgh "+strings.Join(txt, " "), out)
	c.stat("bgh_cases", 1)
	c.stat(fmt.Sprintf("bgh_states_%d", len(states)), 1)
	if out == "PANIC" {
		c.stat("bgh_panics", 1)
	}
	// what kind of change the history contains
	for i := 1; i < len(states); i++ {
		a, b := states[i-1], states[i]
		sameEps := c16EpsText(a.Eps) == c16EpsText(b.Eps)
		sameAddrs := len(a.Eps) == len(b.Eps)
		if sameAddrs {
			for k := range a.Eps {
				if c16EpAddr(a.Eps, k) != c16EpAddr(b.Eps, k) || a.Eps[k].Drain != b.Eps[k].Drain ||
					(a.Eps[k].Pod == "n") != (b.Eps[k].Pod == "n") {
					sameAddrs = false
				}
			}
		}
		switch {
		case a.text() == b.text():
			c.stat("bgh_step_noop", 1)
		case sameEps:
			// only the annotations change: a pure re-balance when the computed weights differ
			c.stat("bgh_step_annotation_only", 1)
		case sameAddrs:
			c.stat("bgh_step_relabel_same_endpoints", 1)
		default:
			c.stat("bgh_step_endpoints_change", 1)
		}
	}
	if st := strings.Split(out, ";"); len(st) >= 2 {
		{
			last, prev := strings.SplitN(st[len(st)-1], "|", 2)[0], strings.SplitN(st[len(st)-2], "|", 2)[0]
			if last != prev && len(states[len(states)-1].Eps) == len(states[len(states)-2].Eps) {
				c.stat("bgh_last_step_changes_written_weights", 1)
			}
		}
	}
}

// ---------------------------------------------------------------- gateway histories

func c16gwhRun(kind string, states [][]c16Ref) (out string) {
	defer func() {
		if r := recover(); r != nil {
			out = "PANIC"
		}
	}()
	hcfg := haproxy.CreateInstance(&hvutil.Logger{}, haproxy.InstanceOptions{}).Config()
	var steps []string
	for _, refs := range states {
		trk := tracker.NewTracker()
		cache := c16gwCache(kind, refs, trk)
		c16SyncOn(hcfg, cache, trk, map[string]string{}, kind[1] == 's')
		// instance.HAProxyUpdate: SyncConfig, Shrink, <write>, Commit
		hcfg.SyncConfig()
		hcfg.Shrink()
		steps = append(steps, c16gwRead(hcfg, kind, refs))
		hcfg.Commit()
	}
	return strings.Join(steps, ";") + "#" + c16gwRun(kind, states[len(states)-1])
}

func c16gwhCase(c *ctx, kind string, states [][]c16Ref) {
	if len(states) == 0 {
		return
	}
	out := c16gwhRun(kind, states)
	txt := make([]string, len(states))
	for i, refs := range states {
		txt[i] = c16RefsText(refs)
		if len(refs) == 0 {
			txt[i] = "-"
		}
	}
	c.emit("C16", "gwh "+kind+" "+strings.Join(txt, " "), out)
	c.stat("gwh_cases", 1)
	c.stat(fmt.Sprintf("gwh_states_%d", len(states)), 1)
	for i := 1; i < len(states); i++ {
		a, b := states[i-1], states[i]
		same := len(a) == len(b)
		if same {
			for k := range a {
				x, y := a[k], b[k]
				x.Weight, y.Weight = "", ""
				if c16RefsText([]c16Ref{x}) != c16RefsText([]c16Ref{y}) {
					same = false
				}
			}
		}
		if same && txt[i-1] != txt[i] {
			c.stat("gwh_step_weights_only", 1)
		} else if txt[i-1] == txt[i] {
			c.stat("gwh_step_noop", 1)
		} else {
			c.stat("gwh_step_endpoints_change", 1)
		}
	}
}

// ---------------------------------------------------------------- replay

func c16histReplay(c *ctx, a []string) bool {
	switch {
	case len(a) >= 5 && a[0] == "bgh" && (len(a)-1)%4 == 0:
		var states []c16BgCfg
		for i := 1; i+3 < len(a); i += 4 {
			eps, ok := c16ParseEps(a[i+3])
			if !ok || !(a[i+2] == "-" || (len(a[i+2]) >= 2 && a[i+2][1] == ':')) {
				return true
			}
			states = append(states, c16BgCfg{a[i], a[i+1], a[i+2], eps})
		}
		c16bghCase(c, states)
		return true
	case len(a) >= 3 && a[0] == "gwh" && len(a[1]) == 2:
		var states [][]c16Ref
		for _, t := range a[2:] {
			refs, ok := c16ParseRefs(t)
			if !ok {
				return true
			}
			states = append(states, refs)
		}
		c16gwhCase(c, a[1], states)
		return true
	}
	return false
}

// ---------------------------------------------------------------- generators

func c16bgStates(ss ...c16BgCfg) []c16BgCfg { return ss }

func c16mustEps(s string) []c16Ep {
	eps, _ := c16ParseEps(s)
	return eps
}

func c16HistCorpus(c *ctx) {
	bbg := c16mustEps("r:v=blue,r:v=blue,r:v=green")
	// the demonstration of seed C16g: 50/50 -> 90/10 on an unchanged endpoint set
	c16bghCase(c, c16bgStates(c16BgCfg{"-", "-", "b:v=blue=50,v=green=50", bbg}, c16BgCfg{"-", "-", "b:v=blue=90,v=green=10", bbg}))
	// a group switched off and on again
	c16bghCase(c, c16bgStates(c16BgCfg{"-", "-", "b:v=blue=1,v=green=1", bbg}, c16BgCfg{"-", "-", "b:v=blue=1,v=green=0", bbg},
		c16BgCfg{"-", "-", "b:v=blue=1,v=green=1", bbg}))
	// mode pod <-> deploy
	c16bghCase(c, c16bgStates(c16BgCfg{"pod", "-", "b:v=blue=3,v=green=1", bbg}, c16BgCfg{"deploy", "-", "b:v=blue=3,v=green=1", bbg}))
	// a pod relabelled from one group to the other, same endpoints
	c16bghCase(c, c16bgStates(c16BgCfg{"-", "-", "b:v=blue=3,v=green=1", bbg},
		c16BgCfg{"-", "-", "b:v=blue=3,v=green=1", c16mustEps("r:v=blue,r:v=green,r:v=green")}))
	// the annotation removed / added
	c16bghCase(c, c16bgStates(c16BgCfg{"-", "-", "b:v=blue=3,v=green=1", bbg}, c16BgCfg{"-", "-", "-", bbg}))
	c16bghCase(c, c16bgStates(c16BgCfg{"-", "-", "-", bbg}, c16BgCfg{"-", "-", "b:v=blue=3,v=green=1", bbg}))
	// initial-weight only
	c16bghCase(c, c16bgStates(c16BgCfg{"-", "100", "b:v=blue=3,v=green=1", bbg}, c16BgCfg{"-", "-", "b:v=blue=3,v=green=1", bbg}))
	// scaling together with a re-balance, and a no-op step
	c16bghCase(c, c16bgStates(c16BgCfg{"-", "-", "b:v=blue=3,v=green=1", bbg},
		c16BgCfg{"-", "-", "b:v=blue=1,v=green=1", c16mustEps("r:v=blue,r:v=green")}, c16BgCfg{"-", "-", "b:v=blue=1,v=green=1", c16mustEps("r:v=blue,r:v=green")}))
	// Gateway API: backendRef weights edited on unchanged endpoints
	for _, kind := range []string{"He", "Hs", "Te", "Ts"} {
		c16gwhCase(c, kind, [][]c16Ref{{c16ref("1", 2), c16ref("1", 1)}, {c16ref("9", 2), c16ref("1", 1)}})
		c16gwhCase(c, kind, [][]c16Ref{{c16ref("3", 1), c16ref("1", 1)}, {c16ref("3", 1), c16ref("0", 1)}, {c16ref("3", 1), c16ref("-", 1)}})
	}
}

// c16BgHistExhaustive: every ordered pair of configurations over a fixed endpoint set (annotation-only steps)
// and every relabelling of one pod
func c16BgHistExhaustive(c *ctx) {
	anns := []string{"b:g=a=1,g=b=1", "b:g=a=3,g=b=1", "b:g=a=1,g=b=0", "-"}
	modes := []string{"-", "pod"}
	epss := []string{"r:g=a,r:g=a,r:g=b", "r:g=a,r:g=b,d:g=b,r:0"}
	if c.thorough() {
		anns = append(anns, "b:g=a=0,g=b=5", "b:g=a=x")
		epss = append(epss, "r:g=a,r:g=b", "r:g=a,r:n,r:g=b")
	}
	type cfg struct{ mode, ann string }
	var cfgs []cfg
	for _, m := range modes {
		for _, a := range anns {
			cfgs = append(cfgs, cfg{m, a})
		}
	}
	n := 0
	for _, e := range epss {
		eps := c16mustEps(e)
		for _, x := range cfgs {
			for _, y := range cfgs {
				if x == y {
					continue
				}
				c16bghCase(c, c16bgStates(c16BgCfg{x.mode, "-", x.ann, eps}, c16BgCfg{y.mode, "-", y.ann, eps}))
				n++
			}
		}
		// relabel one pod
		for k := range eps {
			if eps[k].Pod != "g=a" && eps[k].Pod != "g=b" {
				continue
			}
			e2 := append([]c16Ep(nil), eps...)
			if e2[k].Pod == "g=a" {
				e2[k].Pod = "g=b"
			} else {
				e2[k].Pod = "g=a"
			}
			for _, x := range cfgs[:3] {
				c16bghCase(c, c16bgStates(c16BgCfg{x.mode, "-", x.ann, eps}, c16BgCfg{x.mode, "-", x.ann, e2}))
				n++
			}
		}
	}
	c.stat("bgh_exhaustive", n)
}

func c16BgHistRandom(c *ctx, r *gen.Rng, n int) {
	weights := []string{"0", "1", "2", "3", "10", "50", "90", "128", "256", "300"}
	for i := 0; i < n; i++ {
		ne := r.Range(1, 5)
		eps := make([]c16Ep, ne)
		for k := range eps {
			eps[k] = c16Ep{Pod: gen.Pick(r, []string{"g=a", "g=a", "g=b", "g=b", "g=c", "0", "v=a"}), Drain: r.Chance(1, 8)}
		}
		cfg := func() c16BgCfg {
			s := c16BgCfg{Mode: gen.Pick(r, []string{"-", "-", "deploy", "pod"}), Initial: gen.Pick(r, []string{"-", "-", "-", "100", "7"})}
			var items []string
			for _, v := range []string{"a", "b", "c"}[:r.Range(1, 3)] {
				items = append(items, "g="+v+"="+gen.Pick(r, weights))
			}
			s.Ann = "b:" + strings.Join(items, ",")
			if r.Chance(1, 10) {
				s.Ann = "-"
			}
			return s
		}
		cur := cfg()
		cur.Eps = eps
		states := []c16BgCfg{cur}
		for st, ns := 0, r.Range(1, 3); st < ns; st++ {
			next := cur
			next.Eps = append([]c16Ep(nil), cur.Eps...)
			switch r.Intn(6) {
			case 0, 1, 2: // annotations only
				k := cfg()
				next.Mode, next.Initial, next.Ann = k.Mode, k.Initial, k.Ann
				if r.Chance(1, 2) {
					next.Mode, next.Initial = cur.Mode, cur.Initial
				}
			case 3: // relabel a pod
				k := r.Intn(len(next.Eps))
				next.Eps[k].Pod = gen.Pick(r, []string{"g=a", "g=b", "g=c", "0"})
			case 4: // scale
				if len(next.Eps) > 1 && r.Chance(1, 2) {
					next.Eps = next.Eps[:len(next.Eps)-1]
				} else {
					next.Eps = append(next.Eps, c16Ep{Pod: gen.Pick(r, []string{"g=a", "g=b"})})
				}
			case 5: // readiness flip
				k := r.Intn(len(next.Eps))
				next.Eps[k].Drain = !next.Eps[k].Drain
			}
			states = append(states, next)
			cur = next
		}
		c16bghCase(c, states)
	}
}

func c16GwHistExhaustive(c *ctx) {
	ws := []string{"-", "0", "1", "3", "128"}
	kinds := []string{"He", "Hs", "Te", "Ts"}
	n := 0
	for _, reps := range [][2]int{{1, 1}, {2, 1}, {1, 3}} {
		for _, a1 := range ws {
			for _, b1 := range ws {
				for _, a2 := range ws {
					for _, b2 := range ws {
						if !c.thorough() && (n%3 != 0) && !(a1 == a2 || b1 == b2) {
							n++
							continue
						}
						c16gwhCase(c, kinds[n%4], [][]c16Ref{{c16ref(a1, reps[0]), c16ref(b1, reps[1])}, {c16ref(a2, reps[0]), c16ref(b2, reps[1])}})
						n++
					}
				}
			}
		}
	}
	c.stat("gwh_exhaustive", n)
}

func c16GwHistRandom(c *ctx, r *gen.Rng, n int) {
	ws := []string{"-", "0", "1", "2", "3", "7", "100", "256", "257", "1000000"}
	for i := 0; i < n; i++ {
		nr := r.Range(1, 4)
		cur := make([]c16Ref, nr)
		for k := range cur {
			cur[k] = c16ref(gen.Pick(r, ws), r.Range(0, 4))
			if r.Chance(1, 12) {
				cur[k].Skip = gen.Pick(r, []string{"p", "s", "q", "e"})
			}
		}
		states := [][]c16Ref{cur}
		for st, ns := 0, r.Range(1, 3); st < ns; st++ {
			next := append([]c16Ref(nil), cur...)
			switch r.Intn(4) {
			case 0, 1: // weights only
				for k := range next {
					if r.Chance(2, 3) {
						next[k].Weight = gen.Pick(r, ws)
					}
				}
			case 2: // scale one ref
				k := r.Intn(len(next))
				next[k].Replicas = r.Range(0, 4)
			case 3: // both
				k := r.Intn(len(next))
				next[k].Replicas = r.Range(0, 4)
				next[k].Weight = gen.Pick(r, ws)
			}
			states = append(states, next)
			cur = next
		}
		c16gwhCase(c, gen.Pick(r, []string{"He", "Hs", "Te", "Ts"}), states)
	}
}

func runC16Hist(c *ctx) {
	c16HistCorpus(c)
	c16BgHistExhaustive(c)
	c16GwHistExhaustive(c)
	r := gen.New(c.seed ^ 0xC16B157)
	nbg, ngw := 60, 600
	if c.thorough() {
		nbg, ngw = 500, 10000
	}
	c16BgHistRandom(c, r.Fork(), nbg)
	c16GwHistRandom(c, r.Fork(), ngw)
}

var _ = strconv.Itoa
