package main

// C12 — a change is never lost to a transient failure: the next reconcile applies it.
//
// inst mode: a real haproxy.Instance (external mode, temp dir, simulated sockets `world.Sim`, optional
//   fake reload queue) driven op by op with abstract hosts / backends / one tcp service; every
//   `u` (HAProxyUpdate) and `q` (reload queue run = Instance.Reload) carries at most one fault:
//     tm  a tcp sni map file          fm  _front_bind_crt.list (first file of WriteFrontendMaps)
//     cl  the tcp crt-list            mc  haproxy.cfg             sh<k>  haproxy5-backend<k>.cfg
//     ef  errorfiles/503.http         lr  lua/responses.lua  (the custom HTTP response files, `G<lua>.<ha>` sets them)
//     bm  the first backend map (no backend of this mode needs ACLs: never fires here, see world mode)
//     ad<i>+<j>..  admin socket error on these Sends of the update   ab<i>+..  bad answer instead
//     rs  reload command fails on the master socket      rr  reload accepted, worker fails
//     mn mo mw  the three steps INSIDE the rotated write of haproxy.cfg (first op `O<k>` = the instance runs with
//         --max-old-config-files k, InstanceOptions.MaxOldConfigFiles): the rotation rename, the removal of the
//         oldest rotated copy, the write itself; see armRot.  With rotation on every observation ends with
//         `|k<number of rotated copies on disk>` (Spec: at most k after a successful update).
//   file faults: an existing target is made immutable for the duration of the call (chattr +i: EPERM on
//   write, still readable), a target that does not exist yet is replaced by a DIRECTORY (EISDIR); the
//   harness runs as root, chmod would not stop the write.
//   case line: C12 inst <queue 0|1> <n> <shard of name 0>.<shard of name 1>... <op>,<op>,...
//   impl output: one observation per u/q op, `;` separated (see c12obs).
//
// world mode: the world runner (real watchers, converters, tracker, Instance) with a fault script; a
//   fault-free TWIN pipeline runs the same history first, so that the harness knows which files the
//   step writes; see c12worldRun below.
//
// The six finding signatures of the oracle (Drv/C12.lean) are `fixed:` entries of known-findings.txt
// (repo commits 5b084c3, 17543b6); their replays stay in c12instCorpus / c12worldCorpus.  Two more
// signatures belong to the custom response files: change-lost-after-failed-response-write (a response
// file named by haproxy.cfg does not hold the rendering of the global config after the fault-free retry)
// and reload-fails-forever-cfg-names-missing-file (haproxy.cfg names an errorfile / responses.lua that
// does not exist and the retries keep failing); the code as it is shows neither.

import (
	"context"
	"fmt"
	"net"
	"os"
	"path/filepath"
	"regexp"
	"sort"
	"strconv"
	"strings"
	"syscall"
	"time"
	"unsafe"

	"github.com/jcmoraisjr/haproxy-ingress/pkg/haproxy"
	hatypes "github.com/jcmoraisjr/haproxy-ingress/pkg/haproxy/types"
	"github.com/jcmoraisjr/haproxy-ingress/pkg/utils"

	"hapverif/gen"
	"hapverif/hvutil"
	"hapverif/world"
)

func init() {
	props["C12"] = runC12
	replayers["C12"] = func(c *ctx, a []string) {
		if len(a) >= 4 && a[0] == "world" {
			sh, _ := strconv.Atoi(strings.TrimPrefix(a[1], "s"))
			j := &c12jobs{c: c}
			c12worldCase(j, sh, a[2], a[3:])
			j.flush()
			return
		}
		if len(a) == 5 && a[0] == "inst" {
			n, err := strconv.Atoi(a[2])
			if err != nil {
				return
			}
			var want []int
			for _, s := range strings.Split(a[3], ".") {
				k, err := strconv.Atoi(s)
				if err != nil {
					return
				}
				want = append(want, k)
			}
			j := &c12jobs{c: c}
			c12instCase(j, a[1] == "1", n, want, strings.Split(a[4], ","))
			j.flush()
		}
	}
}

// ---------------------------------------------------------------------------------------------
// inst mode

const c12tcpPort = 7000

type c12queue struct {
	adds    int
	pending bool
}

func (q *c12queue) Add(item interface{})                              { q.adds++; q.pending = true }
func (q *c12queue) AddAfter(item interface{}, duration time.Duration) { q.adds++; q.pending = true }
func (q *c12queue) Remove(item interface{})                           {}
func (q *c12queue) Start(context.Context) error                       { return nil }

type c12inst struct {
	n       int
	dir     string
	cfgDir  string
	mapsDir string
	inst    haproxy.Instance
	sim     *world.Sim
	q       *c12queue
	log     *hvutil.Logger
	names   []int
	idx     map[string]int
	tcp     int
	// what the simulated HAProxy read at its last successful reload, for the files `world.Sim` does not keep
	runMaps string
	runTcp  string
	runResp string
	reloads int
	owed    bool // the last HAProxyUpdate returned before it was past writeConfig (instance.rewriteOwed)
	rot     int  // InstanceOptions.MaxOldConfigFiles (--max-old-config-files): haproxy.cfg and the shard files are rotated
	fired   []string // statistics: the faults inside the rotated write that were armed at their own step
	prev    map[int][2]int // name index -> (cfg, slots) of its last AcquireBackend + fill
}

func newC12inst(queue bool, n int, names []int) *c12inst { return newC12instRot(queue, n, names, 0) }

func newC12instRot(queue bool, n int, names []int, rot int) *c12inst {
	dir, err := os.MkdirTemp("", "c12inst")
	if err != nil {
		panic(err)
	}
	e := &c12inst{n: n, rot: rot, dir: dir, cfgDir: filepath.Join(dir, "cfg"), mapsDir: filepath.Join(dir, "maps"), names: names, idx: map[string]int{}}
	for i, cand := range names {
		e.idx[c05id(cand)] = i
	}
	for _, d := range []string{e.cfgDir, e.mapsDir, filepath.Join(e.cfgDir, "errorfiles"), filepath.Join(e.cfgDir, "lua"), filepath.Join(dir, "var/run/haproxy")} {
		if err := os.MkdirAll(d, 0755); err != nil {
			panic(err)
		}
	}
	e.log = &hvutil.Logger{Keep: os.Getenv("C12_LOG") != ""}
	e.sim = world.NewSim(e.cfgDir)
	e.sim.PreLoad = c12checkRefs
	opt := haproxy.InstanceOptions{
		RootFSPrefix:   "/repo/rootfs",
		LocalFSPrefix:  dir,
		BackendShards:  n,
		HAProxyCfgDir:  e.cfgDir,
		HAProxyMapsDir: e.mapsDir,
		IsExternal:     true,
		MasterSocket:   filepath.Join(dir, "master.sock"),
		AdminSocket:    filepath.Join(dir, "admin.sock"),
		Metrics:        c05metrics{},

		MaxOldConfigFiles: rot,
	}
	if queue {
		e.q = &c12queue{}
		opt.ReloadQueue = e.q
	}
	e.inst = haproxy.CreateInstance(e.log, opt)
	if err := e.inst.ParseTemplates(); err != nil {
		panic(err)
	}
	haproxy.VerifSetSockets(e.inst, e.sim.Master(), e.sim.Admin())
	e.inst.Config().Global().MatchOrder = hatypes.DefaultMatchOrder
	return e
}

func (e *c12inst) close() { os.RemoveAll(e.dir) }

// backend content: cfg = 4*conf + epv; conf is rendered as `balance cfg<conf>`, epv is the address
// 10.0.0.<1+epv> of the single real endpoint; slots = number of empty endpoints
//
// A backend with an ODD conf has a source address (hatypes.Backend.SourceIPs = [c12sourceIP], what the
// source-address-intf annotation gives): its rendering carries `source <ip>` on every server line, filled into
// Endpoint.SourceIP by Backends.FillSourceIPs / FillAllSourceIPs inside HAProxyUpdate, not by the renderer.
const c12sourceIP = "192.168.0.9"

func c12hasSource(conf int) bool { return conf%2 == 1 }

// c12noSource marks a backend read from a file whose server line does not say about the source address what its
// conf demands: no backend content renders to that (decoded cfg + c12noSource)
const c12noSource = 1000

func c12fill(b *hatypes.Backend, cfg, slots int) {
	b.BalanceAlgorithm = fmt.Sprintf("cfg%d", cfg/4)
	if c12hasSource(cfg / 4) {
		b.SourceIPs = []net.IP{net.ParseIP(c12sourceIP)}
	}
	b.Dynamic.DynUpdate = true
	b.Dynamic.BlockSize = 1
	b.AcquireEndpoint(fmt.Sprintf("10.0.0.%d", 1+cfg%4), 8080, "")
	for i := 0; i < slots; i++ {
		b.AddEmptyEndpoint()
	}
}

// host content c: one redirect path /p<c> (no backend behind it, so hosts and backends are independent)
func c12fillHost(h *hatypes.Host, c int) {
	h.AddRedirect(fmt.Sprintf("/p%d", c), hatypes.MatchBegin, "http://r.local")
}

func (e *c12inst) setTCP(v int) {
	cfg := e.inst.Config()
	svc := fmt.Sprintf("tcp.local:%d", c12tcpPort)
	cfg.TCPServices().RemoveService(svc)
	port, host := cfg.TCPServices().AcquireTCPService(svc)
	host.Backend = hatypes.BackendID{Namespace: "d", Name: fmt.Sprintf("t%d", v), Port: "8080"}
	port.TLS = map[string]*hatypes.TCPServiceTLSConfig{
		"tcp.local": {Hostname: "tcp.local", TLSConfig: hatypes.TLSConfig{TLSFilename: "/tls/tcp.pem", ALPN: fmt.Sprintf("v%d", v)}},
	}
	port.CustomConfig = []string{fmt.Sprintf("log-format v%d", v)}
	e.tcp = v
}

// custom HTTP responses of the global config: l = content of the Lua based response `send-404`
// (http-response-404), h = content of the HAProxy based response 503 (http-response-503); 0 = not configured.
// The content is the value of a header X-V.
func c12response(name string, code int, reason string, v int) hatypes.HTTPResponse {
	return hatypes.HTTPResponse{Name: name, StatusCode: code, StatusReason: reason,
		Headers: []hatypes.HTTPHeader{{Name: "Content-Length", Value: "0"}, {Name: "X-V", Value: strconv.Itoa(v)}}}
}

func (e *c12inst) setGlobal(l, h int) {
	g := e.inst.Config().Global()
	g.CustomHTTPLuaResponses, g.CustomHTTPHAResponses = nil, nil
	if l != 0 {
		g.CustomHTTPLuaResponses = []hatypes.HTTPResponse{c12response("send-404", 404, "Not Found", l)}
	}
	if h != 0 {
		g.CustomHTTPHAResponses = []hatypes.HTTPResponse{c12response("503", 503, "Service Unavailable", h)}
	}
}

var c12reErrorfile = regexp.MustCompile(`(?m)^\s*errorfile\s+(\d+)\s+(\S+)`)
var c12reLuaLoad = regexp.MustCompile(`(?m)^\s*lua-load\s+(\S*/responses\.lua)\s*$`)

// c12refs: the response files haproxy.cfg names, as paths below the configuration directory
func c12refs(cfgDir string) []string {
	data, err := os.ReadFile(filepath.Join(cfgDir, "haproxy.cfg"))
	if err != nil {
		return nil
	}
	var res []string
	for _, m := range c12reErrorfile.FindAllStringSubmatch(string(data), -1) {
		res = append(res, "errorfiles/"+filepath.Base(m[2]))
	}
	if c12reLuaLoad.Match(data) {
		res = append(res, "lua/responses.lua")
	}
	return res
}

// c12checkRefs (world.Sim.PreLoad): HAProxy refuses a configuration that names an errorfile or a Lua
// script that does not exist
func c12checkRefs(cfgDir string) error {
	for _, rel := range c12refs(cfgDir) {
		if st, err := os.Stat(filepath.Join(cfgDir, rel)); err != nil || !st.Mode().IsRegular() {
			return fmt.Errorf("haproxy.cfg names %s, which does not exist", rel)
		}
	}
	return nil
}

// ---- faults

type c12fault struct {
	kind string // "", tm fm cl mc sh ad ab rs rr
	k    int
	idxs []int
}

func c12parseFault(s string) c12fault {
	if s == "" {
		return c12fault{}
	}
	f := c12fault{kind: s[:2]}
	rest := s[2:]
	switch f.kind {
	case "sh":
		f.k, _ = strconv.Atoi(rest)
	case "ad", "ab":
		for _, t := range strings.Split(rest, "+") {
			if t != "" {
				i, _ := strconv.Atoi(t)
				f.idxs = append(f.idxs, i)
			}
		}
	}
	return f
}

// c12block makes the next write of the file fail; the returned func restores what was there.  The process
// runs as root, permissions do not stop it: an existing file is made immutable (it stays readable: a reload
// that happens while it is blocked still reads it), a file that does not exist yet is replaced by a directory.
func c12block(path string) func() {
	if st, err := os.Lstat(path); err == nil && st.Mode().IsRegular() {
		if c12immutable(path, true) == nil {
			return func() { _ = c12immutable(path, false) }
		}
	}
	old, err := os.ReadFile(path)
	existed := err == nil
	_ = os.Remove(path)
	if err := os.Mkdir(path, 0755); err != nil {
		panic(err)
	}
	return func() {
		_ = os.Remove(path)
		if existed {
			_ = os.WriteFile(path, old, 0644)
		}
	}
}

// ---- rotated outputs (rot > 0: template.writeToDisk renames the current file to <output>.<mtime>, removes the
// oldest rotated copies, then writes)

const c12rotStamp = "20060102-150405.000"

// c12rotated: the rotated copies in the configuration directory (<name>.cfg.<stamp>)
func (e *c12inst) rotated() []string {
	files, _ := filepath.Glob(filepath.Join(e.cfgDir, "*.cfg.*"))
	sort.Strings(files)
	return files
}

// c12blockRot is c12block for an output that is rotated: a directory in place of a file that does not exist
// yet would simply be rotated away (Stat sees it, Rename moves it), so such a target becomes a DANGLING SYMLINK
// (Stat: does not exist, the rotation is skipped; WriteFile: ENOENT).  An existing file is made immutable as
// before: the rotation rename fails with EPERM.
func (e *c12inst) blockRot(path string) func() {
	if e.rot == 0 {
		return c12block(path)
	}
	if st, err := os.Lstat(path); err == nil && st.Mode().IsRegular() {
		return c12block(path)
	}
	_ = os.Remove(path)
	if err := os.Symlink(filepath.Join(e.dir, "no-such-dir", "x"), path); err != nil {
		panic(err)
	}
	return func() { _ = os.Remove(path) }
}

// armRot arms one of the three fault points INSIDE the rotated write of haproxy.cfg.  When the step cannot
// fail in the present state (no rotation, no file yet, fewer copies than allowed) the fault falls back to the
// plain `mc` block, so that `mn` / `mo` / `mw` always mean "this update fails while writing haproxy.cfg".
//   mn  the rotation rename fails: its target <output>.<mtime> is a non-empty directory
//   mo  the removal of the oldest rotated copy fails: every rotated copy is immutable.  The rename has
//       happened by then and haproxy.cfg does not exist; the harness puts the rotated content back under the
//       output name when the fault ends (the fault cycle model has no "no such file" state for an update that
//       failed; Model/C12Rot.lean has it and proves the retry for it)
//   mw  the write itself fails: haproxy.cfg is held aside and a dangling symlink takes its place (the rotation
//       is skipped, WriteFile fails); the file is put back when the fault ends
func (e *c12inst) armRot(kind string) func() {
	main := filepath.Join(e.cfgDir, "haproxy.cfg")
	st, err := os.Lstat(main)
	exists := err == nil && st.Mode().IsRegular()
	switch {
	case kind == "mn" && e.rot > 0 && exists:
		e.fired = append(e.fired, "inst_rotfault_fired_mn")
		to := main + "." + st.ModTime().Format(c12rotStamp)
		old, oerr := os.ReadFile(to) // a copy rotated within the same millisecond
		_ = os.Remove(to)
		if err := os.MkdirAll(filepath.Join(to, "x"), 0755); err != nil {
			panic(err)
		}
		return func() {
			_ = os.RemoveAll(to)
			if oerr == nil {
				_ = os.WriteFile(to, old, 0644)
			}
		}
	case kind == "mo" && e.rot > 0 && exists && len(e.rotated()) >= e.rot:
		e.fired = append(e.fired, "inst_rotfault_fired_mo")
		to := main + "." + st.ModTime().Format(c12rotStamp)
		var locked []string
		for _, f := range e.rotated() {
			if c12immutable(f, true) == nil {
				locked = append(locked, f)
			}
		}
		return func() {
			for _, f := range locked {
				_ = c12immutable(f, false)
			}
			if _, err := os.Lstat(main); err != nil {
				if data, err := os.ReadFile(to); err == nil {
					_ = os.WriteFile(main, data, 0644)
				}
			}
		}
	case kind == "mw" && exists:
		e.fired = append(e.fired, "inst_rotfault_fired_mw")
		held := filepath.Join(e.dir, "haproxy.cfg.held")
		if err := os.Rename(main, held); err != nil {
			panic(err)
		}
		if err := os.Symlink(filepath.Join(e.dir, "no-such-dir", "x"), main); err != nil {
			panic(err)
		}
		// an update that does not write haproxy.cfg at all (nothing to write, only a reload owed) must find it
		// readable: the block is lifted when the simulated HAProxy is about to read the files
		lifted := false
		lift := func() {
			if !lifted {
				lifted = true
				_ = os.Remove(main)
				_ = os.Rename(held, main)
			}
		}
		prev := e.sim.PreLoad
		e.sim.PreLoad = func(dir string) error {
			lift()
			if prev != nil {
				return prev(dir)
			}
			return nil
		}
		return func() {
			lift()
			e.sim.PreLoad = prev
		}
	}
	return e.blockRot(main)
}

// c12immutable sets or clears the immutable inode flag (chattr +i / -i)
func c12immutable(path string, on bool) error {
	const (
		fsIocGetFlags = 0x80086601
		fsIocSetFlags = 0x40086602
		fsImmutableFl = 0x10
	)
	f, err := os.Open(path)
	if err != nil {
		return err
	}
	defer f.Close()
	var flags int64
	if _, _, e := syscall.Syscall(syscall.SYS_IOCTL, f.Fd(), fsIocGetFlags, uintptr(unsafe.Pointer(&flags))); e != 0 {
		return e
	}
	if on {
		flags |= fsImmutableFl
	} else {
		flags &^= fsImmutableFl
	}
	if _, _, e := syscall.Syscall(syscall.SYS_IOCTL, f.Fd(), fsIocSetFlags, uintptr(unsafe.Pointer(&flags))); e != 0 {
		return e
	}
	return nil
}

func (e *c12inst) arm(f c12fault) (restore func()) {
	var undo []func()
	e.sim.Faults = world.Faults{ReloadSendErr: map[int]bool{}, ReloadFailed: map[int]bool{}, AdminErr: map[int]bool{}, AdminBad: map[int]string{}}
	switch f.kind {
	case "tm":
		files, _ := filepath.Glob(filepath.Join(e.mapsDir, "_tcp_sni_*"))
		if len(files) == 0 {
			files = []string{filepath.Join(e.mapsDir, fmt.Sprintf("_tcp_sni_%d__exact.map", c12tcpPort))}
		}
		for _, fl := range files {
			undo = append(undo, c12block(fl))
		}
	case "fm":
		undo = append(undo, c12block(filepath.Join(e.mapsDir, "_front_bind_crt.list")))
	case "cl":
		undo = append(undo, c12block(filepath.Join(e.cfgDir, fmt.Sprintf("crtlist_tcp_%d.list", c12tcpPort))))
	case "mc":
		undo = append(undo, e.blockRot(filepath.Join(e.cfgDir, "haproxy.cfg")))
	case "mn", "mo", "mw":
		undo = append(undo, e.armRot(f.kind))
	case "ef":
		undo = append(undo, c12block(filepath.Join(e.cfgDir, "errorfiles/503.http")))
	case "lr":
		undo = append(undo, c12block(filepath.Join(e.cfgDir, "lua/responses.lua")))
	case "sh":
		// a directory named *.cfg that is still there at reload time would make the simulated HAProxy
		// refuse the configuration: block the file only when this update is going to write it
		// (Shrink is idempotent; HAProxyUpdate calls it again)
		e.inst.Config().Shrink()
		fires := e.owed && f.k < e.n // after a failed write the next update renders every shard
		for _, k := range e.inst.Config().Backends().ChangedShards() {
			if k == f.k && e.n > 0 {
				fires = true
			}
		}
		if fires {
			undo = append(undo, e.blockRot(filepath.Join(e.cfgDir, fmt.Sprintf("haproxy5-backend%03d.cfg", f.k))))
		}
	case "ad":
		for _, i := range f.idxs {
			e.sim.Faults.AdminErr[e.sim.AdminTr+i] = true
		}
	case "ab":
		for _, i := range f.idxs {
			e.sim.Faults.AdminBad[e.sim.AdminTr+i] = "simulated bad answer"
		}
	case "rs":
		e.sim.Faults.ReloadSendErr[e.sim.ReloadTr] = true
	case "rr":
		e.sim.Faults.ReloadFailed[e.sim.ReloadTr] = true
	}
	return func() {
		for _, u := range undo {
			u()
		}
		e.sim.Faults = world.Faults{}
	}
}

// ---- observations

var c12reTcpBack = regexp.MustCompile(`d_t(\d+)_8080`)
var c12reAlpn = regexp.MustCompile(`alpn v(\d+)`)
var c12reLogFmt = regexp.MustCompile(`log-format v(\d+)`)

func c12first(re *regexp.Regexp, text string) int {
	if m := re.FindStringSubmatch(text); m != nil {
		v, _ := strconv.Atoi(m[1])
		return v
	}
	return 0
}

// backends of the pool found in every *.cfg: file index -> entries in file order (C05 e2e decoding, with
// the address of the real endpoint folded into cfg)
func (e *c12inst) diskBackends() map[int][]c05ent {
	res := map[int][]c05ent{}
	files, _ := filepath.Glob(filepath.Join(e.cfgDir, "*.cfg"))
	sort.Strings(files)
	for _, f := range files {
		base := filepath.Base(f)
		k := 9000
		if base == "haproxy.cfg" {
			k = 0
			if e.n > 0 {
				k = e.n
			}
		} else if m := c05reShardFile.FindStringSubmatch(base); m != nil {
			k, _ = strconv.Atoi(m[1])
		}
		data, err := os.ReadFile(f)
		if err != nil {
			continue
		}
		for _, ent := range c12parseBackends(e.idx, string(data)) {
			res[k] = append(res[k], ent)
		}
	}
	return res
}

var c12reSrv = regexp.MustCompile(`^server \S+ 10\.0\.0\.(\d+):8080`)

func c12parseBackends(idx map[string]int, data string) []c05ent {
	var res []c05ent
	var cur *c05ent
	conf, epv := 0, 0
	src, real := false, false
	flush := func() {
		if cur != nil {
			cur.cfg = 4*conf + epv
			if real && src != c12hasSource(conf) {
				cur.cfg += c12noSource // the server line lacks (or has) the source address against its conf
			}
			res = append(res, *cur)
			cur = nil
		}
	}
	for _, line := range strings.Split(data, "\n") {
		if m := c05reBackend.FindStringSubmatch(line); m != nil {
			flush()
			conf, epv = 0, 0
			src, real = false, false
			if i, ok := idx[m[1]]; ok {
				cur = &c05ent{name: i}
			}
			continue
		}
		t := strings.TrimSpace(line)
		if t == "" {
			continue
		}
		if !strings.HasPrefix(line, " ") && !strings.HasPrefix(line, "\t") {
			flush()
			continue
		}
		if cur == nil {
			continue
		}
		if strings.HasPrefix(t, "balance cfg") {
			conf, _ = strconv.Atoi(strings.TrimPrefix(t, "balance cfg"))
		} else if m := c12reSrv.FindStringSubmatch(t); m != nil {
			v, _ := strconv.Atoi(m[1])
			epv = v - 1
			real = true
			src = strings.Contains(t+" ", " source "+c12sourceIP+" ")
		} else if strings.HasPrefix(t, "server ") {
			cur.slots++
		}
	}
	flush()
	return res
}

func c12entsText(es []c05ent) string {
	if len(es) == 0 {
		return "-"
	}
	p := make([]string, len(es))
	for i, x := range es {
		p[i] = x.String()
	}
	return strings.Join(p, "+")
}

// frontend maps: host -> content, from _front_redir_to__begin.map if haproxy.cfg references it
func (e *c12inst) diskMaps() string {
	main, _ := os.ReadFile(filepath.Join(e.cfgDir, "haproxy.cfg"))
	f := filepath.Join(e.mapsDir, "_front_redir_to__begin.map")
	if !strings.Contains(string(main), f) {
		return "-"
	}
	data, err := os.ReadFile(f)
	if err != nil {
		return "missing"
	}
	type hc struct{ x, c int }
	var l []hc
	for _, line := range strings.Split(string(data), "\n") {
		fs := strings.Fields(line)
		if len(fs) != 2 || strings.HasPrefix(fs[0], "#") {
			continue
		}
		hp := strings.SplitN(fs[0], "#", 2)
		x, c := 9999, 9999
		if m := c05reHost.FindStringSubmatch(hp[0]); m != nil {
			x, _ = strconv.Atoi(m[1])
		}
		if len(hp) == 2 && strings.HasPrefix(hp[1], "/p") {
			c, _ = strconv.Atoi(strings.TrimPrefix(hp[1], "/p"))
		}
		l = append(l, hc{x, c})
	}
	sort.Slice(l, func(i, j int) bool { return l[i].x < l[j].x || (l[i].x == l[j].x && l[i].c < l[j].c) })
	if len(l) == 0 {
		return "-"
	}
	p := make([]string, len(l))
	for i, h := range l {
		p[i] = fmt.Sprintf("%d:%d", h.x, h.c)
	}
	return strings.Join(p, "+")
}

// tcp: content of the sni map, of the crt-list and of the listen section (0 = absent)
func (e *c12inst) diskTcp() string {
	m := 0
	files, _ := filepath.Glob(filepath.Join(e.mapsDir, "_tcp_sni_*"))
	for _, f := range files {
		if data, err := os.ReadFile(f); err == nil {
			if v := c12first(c12reTcpBack, string(data)); v != 0 {
				m = v
			}
		}
	}
	crt := 0
	if data, err := os.ReadFile(filepath.Join(e.cfgDir, fmt.Sprintf("crtlist_tcp_%d.list", c12tcpPort))); err == nil {
		crt = c12first(c12reAlpn, string(data))
	}
	main := 0
	if data, err := os.ReadFile(filepath.Join(e.cfgDir, "haproxy.cfg")); err == nil {
		main = c12first(c12reLogFmt, string(data))
	}
	return fmt.Sprintf("%d.%d.%d", m, crt, main)
}

var c12reXV = regexp.MustCompile(`X-V(?:: |", ")(\d+)`)

func c12respFile(path string) string {
	data, err := os.ReadFile(path)
	if err != nil {
		return "-"
	}
	return strconv.Itoa(c12first(c12reXV, string(data)))
}

// response files: <errorfiles/503.http>.<lua/responses.lua>.<haproxy.cfg names the errorfile>; `-` = no such file.
// loaded: what HAProxy reads (the errorfile only when haproxy.cfg names it)
func (e *c12inst) diskResp(loaded bool) string {
	main := "-"
	if data, err := os.ReadFile(filepath.Join(e.cfgDir, "haproxy.cfg")); err == nil {
		main = "0"
		for _, m := range c12reErrorfile.FindAllStringSubmatch(string(data), -1) {
			if m[1] == "503" {
				main = "1"
			}
		}
	}
	ha := c12respFile(filepath.Join(e.cfgDir, "errorfiles/503.http"))
	if loaded && main != "1" {
		ha = "-"
	}
	return ha + "." + c12respFile(filepath.Join(e.cfgDir, "lua/responses.lua")) + "." + main
}

// custom responses held by the in-memory model: <lua>.<ha>
func (e *c12inst) globResp() string {
	g := e.inst.Config().Global()
	v := func(l []hatypes.HTTPResponse) int {
		for _, r := range l {
			for _, h := range r.Headers {
				if h.Name == "X-V" {
					n, _ := strconv.Atoi(h.Value)
					return n
				}
			}
		}
		return 0
	}
	return fmt.Sprintf("%d.%d", v(g.CustomHTTPLuaResponses), v(g.CustomHTTPHAResponses))
}

// running backends: configuration as loaded at the last reload + the server table as changed by
// runtime commands since
func (e *c12inst) running() string {
	var res []c05ent
	if e.sim.Loaded != nil {
		for id, sec := range e.sim.Loaded.Backends {
			i, ok := e.idx[id]
			if !ok {
				continue
			}
			ent := c05ent{name: i}
			conf, epv := 0, 0
			for _, l := range sec.Lines {
				if len(l) >= 2 && l[0] == "balance" && strings.HasPrefix(l[1], "cfg") {
					conf, _ = strconv.Atoi(strings.TrimPrefix(l[1], "cfg"))
				}
			}
			for _, s := range e.sim.Table[id] {
				if strings.HasPrefix(s.Addr, "10.0.0.") && s.State != "maint" {
					v, _ := strconv.Atoi(strings.TrimPrefix(s.Addr, "10.0.0."))
					epv = v - 1
				} else {
					ent.slots++
				}
			}
			ent.cfg = 4*conf + epv
			res = append(res, ent)
		}
	}
	sort.Slice(res, func(i, j int) bool { return res[i].name < res[j].name })
	return c12entsText(res)
}

func (e *c12inst) items() string {
	var res []c05ent
	for id, b := range e.inst.Config().Backends().Items() {
		i, ok := e.idx[id]
		if !ok {
			continue
		}
		conf, _ := strconv.Atoi(strings.TrimPrefix(b.BalanceAlgorithm, "cfg"))
		ent := c05ent{name: i}
		epv := 0
		for _, ep := range b.Endpoints {
			if strings.HasPrefix(ep.IP, "10.0.0.") {
				v, _ := strconv.Atoi(strings.TrimPrefix(ep.IP, "10.0.0."))
				epv = v - 1
			} else {
				ent.slots++
			}
		}
		ent.cfg = 4*conf + epv
		res = append(res, ent)
	}
	sort.Slice(res, func(i, j int) bool { return res[i].name < res[j].name })
	return c12entsText(res)
}

func (e *c12inst) hosts() string {
	type hc struct{ x, c int }
	var l []hc
	for name, h := range e.inst.Config().Hosts().Items() {
		x, c := 9999, 9999
		if m := c05reHost.FindStringSubmatch(name); m != nil {
			x, _ = strconv.Atoi(m[1])
		}
		for _, p := range h.Paths {
			if strings.HasPrefix(p.Path(), "/p") {
				c, _ = strconv.Atoi(strings.TrimPrefix(p.Path(), "/p"))
			}
		}
		l = append(l, hc{x, c})
	}
	if len(l) == 0 {
		return "-"
	}
	sort.Slice(l, func(i, j int) bool { return l[i].x < l[j].x })
	p := make([]string, len(l))
	for i, h := range l {
		p[i] = fmt.Sprintf("%d:%d", h.x, h.c)
	}
	return strings.Join(p, "+")
}

// tcp service content held by the in-memory model (0 = none)
func (e *c12inst) tcpWant() int {
	if port := e.inst.Config().TCPServices().FindTCPPort(c12tcpPort); port != nil {
		for _, h := range port.BuildSortedItems() {
			return c12first(c12reTcpBack, h.Backend.String())
		}
	}
	return 0
}

// c12obs: e<err>|<items>|<hosts>|<tcp want>|<file=ents,...>|<maps>|<tcp>|<running backends>|<running maps>|<running tcp>|<pending>|<global responses>|<response files>|<response files as loaded>
func (e *c12inst) obs(err error) string {
	if e.sim.Reloads != e.reloads {
		e.reloads = e.sim.Reloads
		e.runMaps, e.runTcp, e.runResp = e.diskMaps(), e.diskTcp(), e.diskResp(true)
	}
	d := e.diskBackends()
	files := e.n
	if files == 0 {
		files = 1
	}
	keys := map[int]bool{}
	for k := 0; k < files; k++ {
		keys[k] = true
	}
	for k := range d {
		keys[k] = true
	}
	ks := make([]int, 0, len(keys))
	for k := range keys {
		ks = append(ks, k)
	}
	sort.Ints(ks)
	fs := make([]string, len(ks))
	for i, k := range ks {
		fs[i] = fmt.Sprintf("%d=%s", k, c12entsText(d[k]))
	}
	ev := "e0"
	if err != nil {
		ev = "e1"
	}
	pend := "0"
	if e.q != nil && e.q.pending {
		pend = "1"
	}
	rm, rt := e.runMaps, e.runTcp
	if rm == "" {
		rm = "-"
	}
	if rt == "" {
		rt = "0.0.0"
	}
	rr := e.runResp
	if rr == "" {
		rr = "-.-.-"
	}
	res := strings.Join([]string{ev, e.items(), e.hosts(), strconv.Itoa(e.tcpWant()), strings.Join(fs, ","), e.diskMaps(), e.diskTcp(), e.running(), rm, rt, pend,
		e.globResp(), e.diskResp(false), rr}, "|")
	if e.rot > 0 {
		// rotated copies kept in the configuration directory (they are no *.cfg: neither HAProxy nor the
		// comparison above reads them); the Spec bounds their number after every successful update
		res += fmt.Sprintf("|k%d", len(e.rotated()))
	}
	return res
}

func (e *c12inst) update(f c12fault) string {
	restore := e.arm(f)
	err := e.inst.HAProxyUpdate(utils.NewTimer(nil))
	restore()
	e.owed = err != nil && !strings.Contains(err.Error(), "error reloading server")
	if err != nil && e.log.Keep {
		fmt.Fprintln(os.Stderr, "C12 update error:", err)
	}
	return e.obs(err)
}

func (e *c12inst) queueRun(f c12fault) string {
	if e.q == nil || !e.q.pending {
		return e.obs(nil)
	}
	e.q.pending = false
	restore := e.arm(f)
	err := e.inst.Reload(utils.NewTimer(nil))
	restore()
	if err != nil {
		// services.reloadHAProxy: a failed reload puts the item back (`AddAfter(nil, ReloadRetry)`)
		e.q.AddAfter(nil, 0)
	}
	return e.obs(err)
}

// c12res is one finished case; cases are computed by a pool of workers and emitted in generation order
type c12res struct {
	args, out string
	stats     []string
}

type c12jobs struct {
	c    *ctx
	jobs []func() c12res
}

func (j *c12jobs) add(f func() c12res) { j.jobs = append(j.jobs, f) }

func (j *c12jobs) flush() {
	workers := 6
	if v, err := strconv.Atoi(os.Getenv("C12_WORKERS")); err == nil && v > 0 {
		workers = v
	}
	res := make([]c12res, len(j.jobs))
	next := make(chan int)
	done := make(chan bool)
	for w := 0; w < workers; w++ {
		go func() {
			for i := range next {
				res[i] = j.jobs[i]()
			}
			done <- true
		}()
	}
	for i := range j.jobs {
		next <- i
	}
	close(next)
	for w := 0; w < workers; w++ {
		<-done
	}
	for _, r := range res {
		if r.args == "" {
			continue
		}
		j.c.emit("C12", r.args, r.out)
		for _, s := range r.stats {
			j.c.stat(s, 1)
		}
	}
	j.jobs = nil
}

func c12instCase(j *c12jobs, queue bool, n int, want []int, ops []string) {
	names := c05NamesFor(n, want) // sequential: the shard cache is not shared with the workers
	if names == nil {
		fmt.Fprintf(os.Stderr, "C12: no name with the requested shards %v\n", want)
		return
	}
	shardOf := make([]int, len(names))
	for i, cand := range names {
		shardOf[i] = c05shard(n, cand)
	}
	ops = append([]string(nil), ops...)
	j.add(func() c12res { return c12instRun(queue, n, names, shardOf, ops) })
}

func c12instRun(queue bool, n int, names, shardOf []int, ops []string) c12res {
	shards := make([]string, len(names))
	for i := range names {
		shards[i] = strconv.Itoa(shardOf[i])
	}
	qs := "0"
	if queue {
		qs = "1"
	}
	args := fmt.Sprintf("inst %s %d %s %s", qs, n, strings.Join(shards, "."), strings.Join(ops, ","))
	var fired []string
	out := func() (res string) {
		var e *c12inst
		defer func() {
			if e != nil {
				fired = e.fired
			}
			if r := recover(); r != nil {
				res = "PANIC"
				fmt.Fprintf(os.Stderr, "C12 panic on %s: %v\n", args, r)
			}
			if e != nil {
				if os.Getenv("C12_LOG") != "" {
					for _, l := range e.log.Lines {
						fmt.Fprintln(os.Stderr, "LOG", l)
					}
				}
				e.close()
			}
		}()
		rot := 0
		if len(ops) > 0 && ops[0][0] == 'O' {
			rot, _ = strconv.Atoi(ops[0][1:])
		}
		e = newC12instRot(queue, n, names, rot)
		var obs []string
		for i, op := range ops {
			cfg := e.inst.Config()
			switch {
			case op[0] == 'O' && i == 0:
				// O<k>: the instance runs with --max-old-config-files=k (first op only)
			case op == "F":
				cfg.Clear()
				e.inst.Config().Global().MatchOrder = hatypes.DefaultMatchOrder
			case op[0] == 'u':
				obs = append(obs, e.update(c12parseFault(strings.TrimPrefix(op[1:], ":"))))
			case op[0] == 'q':
				obs = append(obs, e.queueRun(c12parseFault(strings.TrimPrefix(op[1:], ":"))))
			case op[0] == 'a':
				f := strings.Split(op[1:], ".")
				x, _ := strconv.Atoi(f[0])
				cf, _ := strconv.Atoi(f[1])
				slots, _ := strconv.Atoi(f[2])
				ns, name, port := c05name(names[x])
				b := cfg.Backends()
				isNew := b.FindBackend(ns, name, port) == nil
				back := b.AcquireBackend(ns, name, port)
				if isNew {
					c12fill(back, cf, slots)
					// A backend with a source address that comes back with the content it had (full resync, or
					// removed and added again in one batch): the converter leaves Endpoint.SourceIP empty, the old
					// object has it filled, and Backends.Shrink (reflect.DeepEqual) would take the backend for
					// changed - one more file written than the model says, never one less.  The harness fills the
					// field so that Shrink recognises the unchanged backend, as it does for one without source address.
					if e.prev == nil {
						e.prev = map[int][2]int{}
					}
					// (backendsMatch ignores the empty endpoints: the number of slots does not count)
					if pv, ok := e.prev[x]; ok && pv[0] == cf && c12hasSource(cf/4) {
						for _, ep := range back.Endpoints {
							ep.SourceIP = c12sourceIP
						}
					}
					e.prev[x] = [2]int{cf, slots}
				}
			case op[0] == 'r':
				var ids []string
				for _, s := range strings.Split(op[1:], ".") {
					if s != "" {
						x, _ := strconv.Atoi(s)
						ids = append(ids, c05id(names[x]))
					}
				}
				cfg.Backends().RemoveAll(ids)
			case op[0] == 'H':
				f := strings.Split(op[1:], ".")
				x, _ := strconv.Atoi(f[0])
				hc, _ := strconv.Atoi(f[1])
				if cfg.Hosts().FindHost(c05host(x)) == nil {
					c12fillHost(cfg.Hosts().AcquireHost(c05host(x)), hc)
				}
			case op[0] == 'R':
				var hs []string
				for _, s := range strings.Split(op[1:], ".") {
					if s != "" {
						x, _ := strconv.Atoi(s)
						hs = append(hs, c05host(x))
					}
				}
				cfg.Hosts().RemoveAll(hs)
			case op[0] == 'T':
				v, _ := strconv.Atoi(op[1:])
				e.setTCP(v)
			case op[0] == 'G':
				f := strings.Split(op[1:], ".")
				l, _ := strconv.Atoi(f[0])
				h, _ := strconv.Atoi(f[1])
				e.setGlobal(l, h)
			default:
				panic("bad op " + op)
			}
		}
		return strings.Join(obs, ";")
	}()
	nf := 0
	for _, op := range ops {
		if (op[0] == 'u' || op[0] == 'q') && len(op) > 1 {
			nf++
		}
	}
	rotStat := "inst_rotate_0"
	if len(ops) > 0 && ops[0][0] == 'O' {
		rotStat = "inst_rotate_" + ops[0][1:]
	}
	stats := []string{"mode_inst", fmt.Sprintf("inst_faults_%d", min(nf, 4)), fmt.Sprintf("inst_shards_%d", n), "inst_queue_" + qs, rotStat}
	for _, op := range ops {
		for _, k := range []string{"mn", "mo", "mw"} {
			if op == "u:"+k {
				stats = append(stats, "inst_rotfault_"+k)
			}
		}
	}
	stats = append(stats, fired...)
	return c12res{args, out, stats}
}

// ---- inst generators

var c12faults = []string{"tm", "fm", "bm", "cl", "ef", "lr", "mc", "sh0", "sh1", "sh2", "rs", "rr", "ad0", "ab0", "ad0+1+2+3+4+5+6+7+8+9", "ad1", "mn", "mo", "mw"}

// c12world0 is the harness' picture of what the controller should hold (the "cluster")
type c12state struct {
	p     int
	back  map[int][2]int // live backends: cfg, slots
	host  map[int]int
	tcp   int
	hosts bool   // a host was declared once: host 0 stays
	glob  [2]int // custom responses of the global config: lua, ha (0 = not configured)
}

// c12globOp: the converter fills the global config inside a full resync (and before the very first update):
// the custom responses stay, change, appear or go away
func c12globOp(r *gen.Rng, st *c12state) string {
	switch r.Intn(6) {
	case 0: // unchanged
	case 1, 2:
		st.glob[0] = r.Range(0, 3)
	case 3, 4:
		st.glob[1] = r.Range(0, 3)
	case 5:
		st.glob = [2]int{r.Range(0, 3), r.Range(0, 3)}
	}
	return fmt.Sprintf("G%d.%d", st.glob[0], st.glob[1])
}

// c12batch appends one resync batch (discipline of converters.Sync: removes first, then the adds) and
// reports how many backends were re-added with a pair left for the dynamic updater
func c12batch(r *gen.Rng, st *c12state, ops []string, full bool) []string {
	if full {
		ops = append(ops, "F")
		// a full resync parses everything again, some of it changed
		for x := 0; x < st.p; x++ {
			if c, ok := st.back[x]; ok {
				if r.Chance(1, 4) {
					c = c12mutate(r, c)
					st.back[x] = c
				}
				ops = append(ops, fmt.Sprintf("a%d.%d.%d", x, c[0], c[1]))
			}
		}
		for x := 0; x < st.p; x++ {
			if c, ok := st.host[x]; ok {
				if r.Chance(1, 4) {
					c = r.Range(1, 4)
					st.host[x] = c
				}
				ops = append(ops, fmt.Sprintf("H%d.%d", x, c))
			}
		}
		if st.tcp != 0 {
			if r.Chance(1, 3) {
				st.tcp = r.Range(1, 4)
			}
			ops = append(ops, fmt.Sprintf("T%d", st.tcp))
		}
		// config.Clear() made a new Global: without the op the custom responses are gone
		if st.glob != [2]int{} && r.Chance(1, 8) {
			st.glob = [2]int{}
		} else {
			ops = append(ops, c12globOp(r, st))
		}
		return ops
	}
	// backends
	var touched []int
	for x := 0; x < st.p; x++ {
		if r.Chance(1, 3) {
			touched = append(touched, x)
		}
	}
	if len(touched) > 0 {
		rem := make([]string, len(touched))
		for i, x := range touched {
			rem[i] = strconv.Itoa(x)
		}
		ops = append(ops, "r"+strings.Join(rem, "."))
		for _, x := range touched {
			c, live := st.back[x]
			switch {
			case !live:
				c = [2]int{r.Range(0, 11), r.Intn(3)}
			case r.Chance(1, 6):
				delete(st.back, x)
				continue
			default:
				c = c12mutate(r, c)
			}
			st.back[x] = c
			ops = append(ops, fmt.Sprintf("a%d.%d.%d", x, c[0], c[1]))
		}
	}
	// hosts: host 0 is never dropped once declared
	if r.Chance(1, 3) {
		var hs []int
		for x := 0; x < st.p; x++ {
			if (x == 0 && !st.hosts) || r.Chance(1, 2) {
				hs = append(hs, x)
			}
		}
		if len(hs) > 0 {
			rem := make([]string, len(hs))
			for i, x := range hs {
				rem[i] = strconv.Itoa(x)
			}
			ops = append(ops, "R"+strings.Join(rem, "."))
			for _, x := range hs {
				if _, live := st.host[x]; live && x != 0 && r.Chance(1, 4) {
					delete(st.host, x)
					continue
				}
				c := r.Range(1, 4)
				if old, live := st.host[x]; live && r.Chance(1, 3) {
					c = old
				}
				st.host[x] = c
				ops = append(ops, fmt.Sprintf("H%d.%d", x, c))
			}
			st.hosts = true
		}
	}
	if r.Chance(1, 4) {
		st.tcp = r.Range(1, 4)
		ops = append(ops, fmt.Sprintf("T%d", st.tcp))
	}
	return ops
}

func c12mutate(r *gen.Rng, c [2]int) [2]int {
	switch r.Intn(6) {
	case 0: // identical
	case 1, 2: // another address
		c[0] = c[0]/4*4 + (c[0]%4+1+r.Intn(3))%4
	case 3: // another configuration
		c[0] = (c[0]/4+1+r.Intn(2))%3*4 + c[0]%4
	case 4:
		if c[1] > 0 {
			c[1]--
		}
	case 5:
		c[1]++
	}
	return c
}

func c12pickFault(r *gen.Rng, n int, multi bool) string {
	f := gen.Pick(r, c12faults)
	if multi && (f == "ad0" || f == "ab0" || f == "ad1") {
		f = "ad0+1+2+3+4+5+6+7+8+9" // several pairs: which one gets Send 0 depends on Go's map order
	}
	if strings.HasPrefix(f, "sh") && n > 0 {
		f = fmt.Sprintf("sh%d", r.Intn(n))
	}
	return f
}

func c12instRandom(j *c12jobs, r *gen.Rng, count int) {
	for i := 0; i < count; i++ {
		n := gen.Pick(r, []int{0, 0, 2, 3, 3, 7})
		p := r.Range(2, 4)
		queue := r.Chance(1, 3)
		st := &c12state{p: p, back: map[int][2]int{}, host: map[int]int{}}
		var ops []string
		// --max-old-config-files: haproxy.cfg and the shard files are rotated before they are written
		if rot := gen.Pick(r, []int{0, 0, 1, 3}); rot > 0 {
			ops = append(ops, fmt.Sprintf("O%d", rot))
		}
		nb := r.Range(2, 6)
		for b := 0; b < nb; b++ {
			before := len(ops)
			if b == 0 && r.Chance(1, 2) {
				ops = append(ops, c12globOp(r, st))
			}
			ops = c12batch(r, st, ops, b > 0 && r.Chance(1, 6))
			readds := 0
			for _, o := range ops[before:] {
				if o[0] == 'a' {
					readds++
				}
			}
			// one faulty or fault-free update, then maybe the retries
			f := ""
			if r.Chance(1, 2) {
				f = c12pickFault(r, n, readds > 1)
				if queue && (f == "rs" || f == "rr") {
					f = ""
				}
			}
			if f == "" {
				ops = append(ops, "u")
			} else {
				ops = append(ops, "u:"+f)
				if r.Chance(1, 3) {
					ops = append(ops, "u:"+f) // the same fault again
				}
			}
			if queue && r.Chance(1, 2) {
				qf := ""
				if r.Chance(1, 3) {
					qf = ":" + gen.Pick(r, []string{"rs", "rr"})
				}
				ops = append(ops, "q"+qf)
			}
			if r.Chance(2, 3) {
				ops = append(ops, "u")
				if queue {
					ops = append(ops, "q")
				}
			}
		}
		ops = append(ops, "u")
		if queue {
			ops = append(ops, "q")
		}
		c12instCase(j, queue, n, c05patterns[n][:p], ops)
	}
}

// c12instExhaustive: every fault point x every kind of change x {single file, 3 shards} x {direct, queue},
// fault injected once or twice, followed by the fault-free retries
func c12instExhaustive(j *c12jobs, all bool) {
	changes := map[string][]string{
		"back-conf":   {"r0", "a0.8.0"},
		"back-addr":   {"r0", "a0.5.0"},
		"back-2addr":  {"r0.1", "a0.5.0", "a1.6.0"},
		"back-slots":  {"r0", "a0.4.1"},
		"back-add":    {"a2.4.0"},
		"back-del":    {"r1"},
		"host":        {"R0", "H0.2"},
		"host-add":    {"H1.1"},
		"tcp":         {"T2"},
		"all":         {"r0", "a0.8.0", "R0", "H0.2", "T2"},
		"none":        {},
		"full-same":   {"F", "a0.4.0", "a1.4.0", "H0.1", "T1", "G1.0"},
		"full-change": {"F", "a0.8.0", "a1.4.0", "H0.2", "T2", "G1.0"},
		// the global ConfigMap changed: another Lua based response, a HAProxy based response appears, both, none left
		"full-lua":    {"F", "a0.4.0", "a1.4.0", "H0.1", "T1", "G2.0"},
		"full-ha-add": {"F", "a0.4.0", "a1.4.0", "H0.1", "T1", "G1.3"},
		"full-resp":   {"F", "a0.4.0", "a1.4.0", "H0.1", "T1", "G2.3"},
		"full-noresp": {"F", "a0.4.0", "a1.4.0", "H0.1", "T1"},
	}
	keys := make([]string, 0, len(changes))
	for k := range changes {
		keys = append(keys, k)
	}
	sort.Strings(keys)
	faults := []string{"", "tm", "fm", "bm", "cl", "ef", "lr", "mc", "sh0", "sh2", "rs", "rr", "ad0", "ab0", "ad1", "ad0+1"}
	for _, queue := range []bool{false, true} {
		for _, n := range []int{0, 3} {
			for _, k := range keys {
				for _, f := range faults {
					for _, twice := range []bool{false, true} {
						if f == "" && twice {
							continue
						}
						if twice && !all {
							continue
						}
						if k == "back-2addr" && (f == "ad0" || f == "ab0" || f == "ad1") {
							continue // two pairs: which one gets Send 0 depends on Go's map order
						}
						for _, first := range []bool{false, true} {
							// first: the fault hits the very first update (no committed data yet)
							var ops []string
							if !first {
								ops = append(ops, "a0.4.0", "a1.4.0", "H0.1", "T1", "G1.0", "u")
								if queue {
									ops = append(ops, "q")
								}
								ops = append(ops, changes[k]...)
							} else {
								if k != "all" && k != "back-add" {
									continue
								}
								ops = append(ops, "a0.4.0", "a1.4.0", "H0.1", "T1", "G1.3")
							}
							uf := "u"
							if f != "" {
								uf = "u:" + f
							}
							if queue && (f == "rs" || f == "rr") {
								ops = append(ops, "u", "q:"+f)
								if twice {
									ops = append(ops, "q:"+f)
								}
							} else {
								ops = append(ops, uf)
								if twice {
									ops = append(ops, uf)
								}
							}
							base := append([]string(nil), ops...)
							ops = append(ops, "u")
							if queue {
								ops = append(ops, "q")
							}
							// and the next unrelated change heals or not
							ops = append(ops, "a3.4.0", "u")
							if queue {
								ops = append(ops, "q")
							}
							c12instCase(j, queue, n, c05patterns[n][:4], ops)
							// the retry is not an empty update but the next event: a change of another backend that
							// runtime commands can express (address of backend 1), then an empty update
							if !first && k != "back-del" && k != "back-2addr" && !strings.HasPrefix(k, "full-") && k != "all" {
								ops = append(base, "r1", "a1.5.0", "u")
								if queue {
									ops = append(ops, "q")
								}
								ops = append(ops, "u")
								if queue {
									ops = append(ops, "q")
								}
								c12instCase(j, queue, n, c05patterns[n][:4], ops)
							}
						}
					}
				}
			}
		}
	}
}

// c12instRotated: the instance rotates haproxy.cfg and the shard files (--max-old-config-files 1 / 3).  Enough
// successful rewrites first that the allowed number of copies exists, then every kind of change x every fault
// point inside the rotated write (the plain block `mc`, the rotation rename `mn`, the removal of the oldest
// copy `mo`, the write itself `mw`, a shard file, and an earlier file), injected once or twice, followed by
// the empty retry / by the next event (a change that only the maps see, a change of another backend) and then
// an empty update
func c12instRotated(j *c12jobs, all bool) {
	changes := [][]string{
		{"r0", "a0.8.0"},                     // backend conf
		{"a2.4.0"},                           // backend added
		{"r1"},                               // backend deleted
		{"R0", "H0.2"},                       // host
		{"T2"},                               // tcp
		{"r0", "a0.8.0", "R0", "H0.2", "T2"}, // all
		{},                                   // none
		{"F", "a0.8.0", "a1.4.0", "H0.2", "T2", "G2.3"}, // full resync with changes
	}
	faults := []string{"mc", "mn", "mo", "mw", "sh0", "fm"}
	for _, queue := range []bool{false, true} {
		for _, n := range []int{0, 3} {
			for _, rot := range []int{1, 3} {
				for ci, ch := range changes {
					if !all && (ci == 1 || ci == 2 || ci == 4 || ci == 5) {
						continue // quick: backend conf, host, none, full resync
					}
					for _, f := range faults {
						if f == "sh0" && n == 0 {
							continue
						}
						for _, twice := range []bool{false, true} {
							if twice && !all && f != "mo" {
								continue
							}
							u := func(ops []string, fault string) []string {
								if fault == "" {
									ops = append(ops, "u")
								} else {
									ops = append(ops, "u:"+fault)
								}
								return ops
							}
							uq := func(ops []string) []string {
								ops = append(ops, "u")
								if queue {
									ops = append(ops, "q")
								}
								return ops
							}
							ops := []string{fmt.Sprintf("O%d", rot), "a0.4.0", "a1.4.0", "H0.1", "T1", "G1.0"}
							ops = uq(ops)
							// rot more rewrites of haproxy.cfg: the copies exist, the next rotation has one to remove
							for i := 0; i < rot; i++ {
								ops = append(ops, "r3", fmt.Sprintf("a3.%d.0", 4*(i+1)))
								ops = uq(ops)
							}
							ops = append(ops, ch...)
							ops = u(ops, f)
							if twice {
								ops = u(ops, f)
							}
							base := append([]string(nil), ops...)
							// the scheduled retry, then an unrelated change
							ops = uq(ops)
							ops = append(ops, "r3", "a3.40.0")
							ops = uq(ops)
							c12instCase(j, queue, n, c05patterns[n][:4], ops)
							if ci >= 1 && !all {
								continue
							}
							// the retry is the next event: a host change (maps only: haproxy.cfg keeps its text), then empty
							ops = append(append([]string(nil), base...), "H1.1")
							ops = uq(ops)
							ops = uq(ops)
							c12instCase(j, queue, n, c05patterns[n][:4], ops)
						}
					}
				}
			}
		}
	}
}

func c12instCorpus(j *c12jobs) {
	for _, l := range []string{
		// --- the histories of the theorems of Props/C12 (same order)
		// non-vacuity of retry_converges_partial: a runtime command fails twice, the update reloads instead
		"0 0 0.0 a0.4.0,H0.1,T1,u,r0,a0.5.0,u:ad0,r0,a0.4.0,u:ad0,r0,a0.5.0,u,u",
		// non-vacuity of retry_converges_queue_partial: the worker fails twice, then reloads
		"1 0 0.0 a0.4.0,u,q:rs,q:rr,u,q",
		// lost_after_failed_tcp_map_write
		"0 0 0.0 T1,u,T2,u:tm,u",
		// lost_after_failed_frontend_map_write: the retry is a no-op, the next host change heals
		"0 0 0.0 H0.1,u,R0,H0.2,u:fm,u,R0,H0.3,u",
		// first_update_failure_leaves_no_cfg
		"0 0 0.0 a0.4.0,H0.1,u:fm,u",
		// lost_after_failed_crtlist_write
		"0 0 0.0 T1,u,T2,u:cl,u",
		// lost_after_failed_cfg_write
		"0 0 0.0 a0.4.0,u,r0,a0.8.0,u:mc,u",
		// lost_after_failed_shard_write: second changed shard; a full resync does not rewrite it either
		"0 3 2.0 a0.4.0,a1.4.0,u,r0,a0.8.0,r1,a1.8.0,u:sh2,u,F,a0.8.0,a1.8.0,u",
		// reload_not_retried_after_failed_reload: request / result
		"0 0 0.0 a0.4.0,u,r0,a0.8.0,u:rs,u",
		"0 0 0.0 a0.4.0,u,r0,a0.8.0,u:rr,u",
		// queue_does_not_help_a_failed_write
		"1 0 0.0 a0.4.0,u,q,r0,a0.8.0,u:mc,u,q",
		// non-vacuity of retry_converges_resp: new Lua response and new errorfile; frontend maps, errorfile, responses.lua fail in turn
		"0 0 0.0 H0.1,G1.0,u,F,H0.1,G2.7,u:fm,u:ef,u:lr,u",
		// non-vacuity of retry_converges_queue_resp
		"1 0 0.0 a0.4.0,G1.0,u,q,F,a0.4.0,G1.3,u:lr,q:rs,u,q",
		// gated_response_files_lose_the_change (change-lost-after-failed-response-write): a changed Lua response, the
		// update fails before writeConfig; the retry and every later update must write responses.lua
		"0 0 0.0 H0.1,G1.0,u,F,H0.1,G2.0,u:fm,u,R0,H0.2,u,u",
		// gated_response_files_break_every_reload (reload-fails-forever-cfg-names-missing-file): an added errorfile
		"0 0 0.0 H0.1,u,F,H0.1,G0.1,u:fm,u,u,u",
		// the very first update fails: responses.lua must exist before the first haproxy.cfg is loaded
		"0 0 0.0 H0.1,u:fm,u",
		// the same two at the other early fault points (tcp maps, crt-list), with shards, with a reload queue
		"0 0 0.0 T1,G1.0,u,F,T2,G2.1,u:tm,u",
		"0 0 0.0 T1,G1.0,u,F,T1,G2.1,u:cl,u",
		"0 3 2.0 a0.4.0,a1.4.0,G1.0,u,F,a0.4.0,a1.4.0,G2.1,u:sh0,u",
		"1 0 0.0 H0.1,G1.0,u,q,F,H0.1,G2.1,u:fm,u,q",
		// an errorfile that is not configured any more stays on disk, unreferenced; configured again later
		"0 0 0.0 H0.1,G1.3,u,F,H0.1,G1.0,u:lr,u,F,H0.1,G1.4,u:ef,u",
		// --- rotated outputs (O<k> = --max-old-config-files k; Props/C12Rot): the rotation rename / the removal of
		// the oldest copy / the write itself fails, the retry is empty or the next event
		"0 0 0.0 O1,a0.4.0,u,r0,a0.8.0,u:mn,u",
		"0 0 0.0 O1,a0.4.0,u,r0,a0.8.0,u,r0,a0.4.0,u:mo,u",
		"0 0 0.0 O3,a0.4.0,u,r0,a0.8.0,u:mw,u",
		"0 0 0.0 O1,a0.4.0,H0.1,u,a1.4.0,u:mn,R0,H0.2,u,u",
		"0 0 0.0 O1,a0.4.0,H0.1,u:mc,u",
		"1 3 2.0 O1,a0.4.0,a1.4.0,u,q,r0,a0.8.0,u:mc,u,q",
		"0 3 2.0 O3,a0.4.0,a1.4.0,u,r0,a0.8.0,r1,a1.8.0,u:sh0,u",
		// --- source address (Backend.SourceIPs, odd conf): a backend WITH one is added, the update fails at the
		// frontend maps, i.e. before FillSourceIPs ran and with the changed set committed: the owed rewrite must fill
		// the source address of every backend (repo commit b7287f0; before it the retry wrote the server lines
		// without `source <ip>`); same with the failure at the tcp maps / crt-list, with shards, with a queue, with
		// the next event as retry, and for a backend whose address changed
		"0 0 0.0 a0.4.0,H0.1,u,a1.5.0,R0,H0.2,u:fm,u",
		"0 0 0.0 a0.8.0,T1,u,a1.4.0,T2,u:tm,u",
		"0 0 0.0 a0.8.0,T1,u,a1.4.0,T2,u:cl,u",
		"0 3 2.0 a0.8.0,H0.1,u,a1.4.0,R0,H0.2,u:fm,u",
		"1 0 0.0 a0.8.0,H0.1,u,q,a1.4.0,R0,H0.2,u:fm,u,q",
		"0 0 0.0 a0.8.0,H0.1,u,a1.4.0,R0,H0.2,u:fm,H1.1,u,u",
		"0 0 0.0 a0.4.0,H0.1,u,r0,a0.5.0,R0,H0.2,u:fm,u",
		"0 0 0.0 O1,a0.8.0,H0.1,u,a1.4.0,R0,H0.2,u:fm,u",
		// --- more
		"0 0 0.0 a0.4.0,H0.1,u:mc,u",
		"0 0 0.0 a0.4.0,H0.1,T1,u,T2,u:tm,u,T3,u:cl,u,T4,u:mc,u",
		"0 3 2.0 a0.4.0,a1.4.0,u,r0,a0.8.0,r1,a1.8.0,u:sh0,u",
		"0 0 0.0 a0.4.0,u:rs,u",
		"0 0 0.0 a0.4.2,u,r0,a0.5.1,u:ab1,u",
		// a backend acquired in a batch whose update failed early has no pathConfig: the next runtime update
		// of it is refused ("diff outside endpoints") and reloads
		"0 0 0.0 a0.4.0,T1,u,r0,a0.5.0,T2,u:tm,u,r0,a0.6.0,u,u",
		// runtime commands to a HAProxy that never loaded the backend are answered "No such server."
		"0 0 0.0 a0.4.0,u:rr,u,r0,a0.5.0,u,u",
	} {
		f := strings.Fields(l)
		n, _ := strconv.Atoi(f[1])
		var want []int
		for _, s := range strings.Split(f[2], ".") {
			k, _ := strconv.Atoi(s)
			want = append(want, k)
		}
		c12instCase(j, f[0] == "1", n, want, strings.Split(f[3], ","))
	}
}

// c12worldCorpus: minimised world histories, one per fault point and outcome (found with c12minimise)
func c12worldCorpus(j *c12jobs) {
	for _, l := range []string{
		// frontend maps: the change of the ingress is lost
		"s0 3:F=maps/_front_bind_crt.list+maps/_front_http_host__begin.map+maps/_front_https_host__begin.map svc+d/web!http:80:8080+adm:81:adm!- sync sync sync ing~d/i2@3!haproxy,-!-!b.local>/a:ImplementationSpecific:web:80!-!- sync sync sync",
		// backend maps
		"s0 2:F=maps/_back_d_api_8080_idpath__prefix.map+maps/_back_d_api_8080_idpathdef__begin.map svc+d/api!http:80:8080+adm:81:adm!- sync ing+d/i3@3!haproxy,-!-!c.local>/:Prefix:api:http!c.local>tls1!- ing+d/i2@4!haproxy,-!-!_>/b:ImplementationSpecific:api:80!-!- sync ep~d/api!10.0.2.4:r:api-4+10.0.2.2:r:api-2 sync sync sync",
		"s0 1:F=maps/_back_e_web_8080_idpath__begin.map+maps/_back_e_web_8080_idpathdef__begin.map+maps/_back_e_web_8080_idpathdef__exact.map svc+e/web!http:80:8080+adm:81:adm!- ing+e/i1@1!haproxy,-!-!b.local>/a:ImplementationSpecific:web:http!b.local+a.local>tls2!web:80 sync sec+e/tls2!tls!1!a.local+b.local sync sync sync",
		// a backend with ACLs added in a batch whose update fails at the frontend maps: PathsMap stays nil, every
		// later update that writes haproxy.cfg fails in the template (reconciles 3 and 5 carry no fault)
		"s0 1:F=maps/_front_bind_crt.list svc+d/api!http:80:8080+adm:81:adm!- ep~d/api!10.0.2.2:r:api-2 svc+d/web!http:80:8080+adm:81:adm!- ep~d/web!10.0.3.2:r:web-2 sync ing+d/i3@3!haproxy,-!-!c.local>/:Prefix:api:http!c.local>tls1!- ing+d/i2@4!haproxy,-!-!_>/b:ImplementationSpecific:api:80!-!- sync sync ing+d/i4@5!haproxy,-!-!b.local>/z:Prefix:web:http!-!- sync sync ep~d/web!10.0.3.3:r:web-3 sync",
		// modsec / lua / haproxy.cfg / shard file
		"s0 2:F=cfg/spoe-modsecurity.conf sync sync ing+e/i5@3!haproxy,-!-!_>/:Prefix:web:http!-!- sync sync sync",
		"s0 1:F=cfg/lua/responses.lua svc+e/web!http:80:8080+adm:81:adm!- sync ing~e/i5@2!haproxy,-!-!b.local>/a:Exact:web:8080!-!- sync sync sync",
		"s0 2:F=cfg/haproxy.cfg sync sync ing+d/i1@4!haproxy,-!app-root=/app!a.local>/a/b:Exact:web:9999!-!- sync sync sync",
		"s3 1:F=cfg/haproxy.cfg sec+e/tls1!tls!1!a.local+b.local ing+e/i5@2!haproxy,-!-!-!a.local>tls1!- sync ing~e/i5@2!haproxy,-!-!-!-!- sync sync sync",
		"s3 1:F=cfg/haproxy5-backend000.cfg svc+e/api!http:80:8080+adm:81:adm!- ing+e/i3@1!haproxy,-!-!_>/b:_:api:80!-!- sync ing-e/i3 sync sync sync",
		// custom responses (global ConfigMap): a changed Lua based response / an added HAProxy based one, the update fails
		// before writeConfig (frontend crt-list), at spoe-modsecurity.conf, at the errorfile, at responses.lua, at haproxy.cfg
		"s0 1:F=maps/_front_bind_crt.list cm~http-response-404=X-V:1 sync cm~http-response-404=X-V:2 sync sync sync",
		"s0 1:F=maps/_front_bind_crt.list sync cm~http-response-503=X-V:1 sync sync sync",
		"s0 1:F=cfg/spoe-modsecurity.conf cm~http-response-404=X-V:1 sync cm~http-response-404=X-V:2;http-response-503=X-V:1 sync sync sync",
		"s0 1:F=cfg/errorfiles/503.http sync cm~http-response-503=X-V:1 sync sync sync",
		"s0 1:F=cfg/lua/responses.lua cm~http-response-404=X-V:1 sync cm~http-response-404=X-V:2;http-response-503=X-V:1 sync sync sync",
		"s3 1:F=cfg/haproxy.cfg,2:F=cfg/haproxy.cfg cm~http-response-503=X-V:1 sync cm~http-response-404=X-V:2;http-response-503=X-V:2 sync sync sync sync",
		// the very first reconcile fails: responses.lua must exist when the first haproxy.cfg is loaded
		"s0 0:F=maps/_front_bind_crt.list sync sync sync",
		// the errorfile goes away (the file stays, unreferenced) and comes back with another content
		"s0 2:F=maps/_front_bind_crt.list cm~http-response-503=X-V:1 sync cm~- sync cm~http-response-503=X-V:2 sync sync sync",
		// direct reload: request / result
		"s3 1:RS sync ing+d/i4@1!haproxy,-!-!_>/a/b:_:api:http!-!- sync sync sync",
		"s0 1:RF sync ing+d/i4@1!haproxy,-!-!_>/a/b:_:api:http!-!- sync sync sync",
		// the fault repeats, then the retry
		"s0 1:F=cfg/haproxy.cfg,2:F=cfg/haproxy.cfg sync ing+d/i1@4!haproxy,-!app-root=/app!a.local>/a/b:Exact:web:9999!-!- sync sync sync sync",
		// admin socket: error / bad answer, falls back to a reload
		"s0 1:AE* svc+d/api!http:80:8080+adm:81:adm!- ep~d/api!10.0.2.2:r:api-2 ing+d/i2@4!haproxy,-!-!a.local>/b:Prefix:api:80!-!- sync ep~d/api!10.0.2.3:r:api-2 sync sync",
		"s0 1:AB0 svc+d/api!http:80:8080+adm:81:adm!- ep~d/api!10.0.2.2:r:api-2 ing+d/i2@4!haproxy,-!-!a.local>/b:Prefix:api:80!-!- sync ep~d/api!10.0.2.3:r:api-2 sync sync",
		// no fault at all
		"s0 - svc+d/app!http:80:8080+adm:81:adm!- ep~d/app!10.0.1.1:r:app-1 ing+d/i1@1!haproxy,-!-!a.local>/a:Prefix:app:http!-!- sync ep~d/app!10.0.1.2:r:app-1 sync sync",
	} {
		f := strings.Fields(l)
		sh, _ := strconv.Atoi(strings.TrimPrefix(f[0], "s"))
		c12worldCase(j, sh, f[1], f[2:])
	}
}

// ---------------------------------------------------------------------------------------------
// world mode
//
//   C12 world s<shards> <script> <op> <op> ... => T:<step>;<step>..|E:<e>,<e>..|d=<files>|u=<files>|ut=<files>|tbl=..|tblt=..|snap=..|tf=..|rf=<files>|mf=<files>
//
// <script>: `-` or `<sync index>:<fault>` joined by `,`; faults: `F=<file>+<file>..` (these files, relative
// to the controller's directory, cannot be written during that reconcile), `RS` (reload command fails),
// `RF` (reload accepted, worker fails), `AE<i>+<j>..` / `AB..` (admin socket error / bad answer on these
// Sends of the reconcile, `*` = all).  The ops are a world history; every `sync` is one reconcile; a
// `sync` that follows another one directly is the scheduled retry (no new event).
//
// A fault-free TWIN controller runs the same history; for every reconcile it reports which files it
// wrote (`os.WriteFile` detected through the modification time, all files are aged before the step)
// with their content hash, whether it asked for a reload and how many admin Sends it made:
// <step> = `<reload 0|1>~<sends>~<pre>^<post>`, pre = files written before the dynamic update (tcp maps,
// frontend crt-list + maps, backend maps, tcp crt-lists), post = after it (modsec, error files, lua,
// haproxy.cfg, shards ascending), each `<file>@<hash without server lines>@<hash of the server lines>`
// joined by `+`.  ut= is u= for the twin (a backend removed without a reload stays loaded).  E: per reconcile of the FAULTY controller `0|1` (error returned).
// d= files whose final content differs between the faulty controller and the twin; u= files of the
// faulty controller whose content differs from what its HAProxy read at the last successful reload
// (server lines left out: they are compared through the running server table, tbl=eq|diff);
// snap= semantic normal form faulty vs twin; tf= twin vs a fresh controller on the final state.
// rf= the custom response files named by the faulty controller's haproxy.cfg (`errorfile <code> <file>`,
// `lua-load .../responses.lua`) whose content differs from the twin's (the normal form does not look into
// them); mf= the ones that do not exist (the simulated HAProxy refuses such a configuration: `c12checkRefs`).
// Histories change the custom responses through the global ConfigMap (`cm~http-response-404=X-V:<n>` Lua
// based, `http-response-503` HAProxy based; see c12addResponses).

type c12wfault struct {
	files []string
	kind  string // "", RS, RF, AE, AB
	idxs  []int
	all   bool
}

func c12parseScript(s string) map[int]c12wfault {
	res := map[int]c12wfault{}
	if s == "-" || s == "" {
		return res
	}
	for _, part := range strings.Split(s, ",") {
		kv := strings.SplitN(part, ":", 2)
		if len(kv) != 2 {
			continue
		}
		i, err := strconv.Atoi(kv[0])
		if err != nil {
			continue
		}
		f := c12wfault{}
		switch {
		case strings.HasPrefix(kv[1], "F="):
			f.files = strings.Split(kv[1][2:], "+")
		case kv[1] == "RS" || kv[1] == "RF":
			f.kind = kv[1]
		case strings.HasPrefix(kv[1], "AE") || strings.HasPrefix(kv[1], "AB"):
			f.kind = kv[1][:2]
			if kv[1][2:] == "*" {
				f.all = true
			} else {
				for _, t := range strings.Split(kv[1][2:], "+") {
					if v, err := strconv.Atoi(t); err == nil {
						f.idxs = append(f.idxs, v)
					}
				}
			}
		}
		res[i] = f
	}
	return res
}

// c12rank: position of a file in the write order of HAProxyUpdate (groups; shards ascending)
func c12rank(rel string) int {
	base := filepath.Base(rel)
	switch {
	case strings.HasPrefix(rel, "maps/_tcp_sni_"):
		return 0
	case rel == "maps/_front_bind_crt.list":
		return 1
	case strings.HasPrefix(rel, "maps/_front_"):
		return 2
	case strings.HasPrefix(rel, "maps/_back_"):
		return 3
	case strings.HasPrefix(rel, "cfg/crtlist_tcp_"):
		return 4
	case rel == "cfg/spoe-modsecurity.conf":
		return 5
	case strings.HasPrefix(rel, "cfg/errorfiles/"):
		return 6
	case strings.HasPrefix(rel, "cfg/lua/"):
		return 7
	case rel == "cfg/haproxy.cfg":
		return 8
	}
	if m := c05reShardFile.FindStringSubmatch(base); m != nil && strings.HasPrefix(rel, "cfg/") {
		k, _ := strconv.Atoi(m[1])
		return 9 + k
	}
	return 5000
}

var c12old = time.Unix(1000000, 0)

// c12dirs: the two directories a controller writes into; files are named `cfg/<path below the
// configuration directory>` and `maps/<path below the maps directory>` whatever the real layout is
type c12dirs struct{ root, cfg, maps string }

func c12dirsOf(p *world.Pipeline) c12dirs { return c12dirs{p.Dir, p.CfgDir, p.MapsDir} }

func (d c12dirs) abs(rel string) string {
	if strings.HasPrefix(rel, "maps/") {
		return filepath.Join(d.maps, rel[5:])
	}
	return filepath.Join(d.cfg, strings.TrimPrefix(rel, "cfg/"))
}

// c12files lists the regular files below the configuration and the maps directory (relative names)
func c12files(d c12dirs) []string {
	var res []string
	for _, sub := range []struct{ name, dir string }{{"cfg", d.cfg}, {"maps", d.maps}} {
		_ = filepath.Walk(sub.dir, func(path string, info os.FileInfo, err error) error {
			if err != nil {
				return nil
			}
			if info.IsDir() && sub.name == "cfg" && path == d.maps {
				return filepath.SkipDir
			}
			if info.Mode().IsRegular() {
				rel, _ := filepath.Rel(sub.dir, path)
				res = append(res, sub.name+"/"+rel)
			}
			return nil
		})
	}
	sort.Strings(res)
	return res
}

func c12age(d c12dirs) {
	for _, f := range c12files(d) {
		_ = os.Chtimes(d.abs(f), c12old, c12old)
	}
}

func c12hashText(s string) string {
	h := uint64(1469598103934665603)
	for i := 0; i < len(s); i++ {
		h ^= uint64(s[i])
		h *= 1099511628211
	}
	return strconv.FormatUint(h%0xfffffff, 36)
}

// content of a file with the scratch directory factored out; `noServers` drops the server lines
func c12content(d c12dirs, rel string, noServers bool) (string, bool) {
	data, err := os.ReadFile(d.abs(rel))
	if err != nil {
		return "", false
	}
	txt := strings.ReplaceAll(string(data), d.root, "$DIR")
	if noServers && strings.HasSuffix(rel, ".cfg") {
		// of a server line only what the server table does not show is kept: its options
		var keep []string
		for _, l := range strings.Split(txt, "\n") {
			f := strings.Fields(l)
			if len(f) >= 3 && f[0] == "server" {
				var opts []string
				for i := 3; i < len(f); i++ {
					switch f[i] {
					case "disabled":
					case "weight":
						i++
					default:
						opts = append(opts, f[i])
					}
				}
				keep = append(keep, "    server * * "+strings.Join(opts, " "))
			} else {
				keep = append(keep, l)
			}
		}
		txt = strings.Join(keep, "\n")
	}
	return txt, true
}

func c12written(d c12dirs) []string {
	var res []string
	for _, f := range c12files(d) {
		if st, err := os.Stat(d.abs(f)); err == nil && !st.ModTime().Equal(c12old) {
			res = append(res, f)
		}
	}
	sort.SliceStable(res, func(i, j int) bool {
		ri, rj := c12rank(res[i]), c12rank(res[j])
		return ri < rj || (ri == rj && res[i] < res[j])
	})
	return res
}

type c12wstep struct {
	written []string
	hashes  []string // <hash without server lines>@<hash of the server lines>
	reload  bool
	sends   int
}

// <reload>~<sends>~<files written before the dynamic update>^<files written after it>
func (s c12wstep) text() string {
	var pre, post []string
	for i := range s.written {
		t := s.written[i] + "@" + s.hashes[i]
		if c12rank(s.written[i]) < 5 {
			pre = append(pre, t)
		} else {
			post = append(post, t)
		}
	}
	r := "0"
	if s.reload {
		r = "1"
	}
	return fmt.Sprintf("%s~%d~%s^%s", r, s.sends, joinOr(pre), joinOr(post))
}

// c12srvHashes: per *.cfg file the hash of its part of the server table (what `world.DiskTable` and
// `Sim.RunningTable` compare: backends that have servers, enabled servers by address, weight and state)
func c12srvHashes(cfgDir string) map[string]string {
	res := map[string]string{}
	cfg, err := world.LoadConfig(cfgDir)
	if err != nil {
		return res
	}
	tbl, err := world.DiskTable(cfgDir)
	if err != nil {
		return res
	}
	per := map[string][]string{}
	for _, l := range tbl {
		f := strings.Fields(l)
		if len(f) < 2 {
			continue
		}
		if sec, ok := cfg.Backends[f[0]]; ok {
			per["cfg/"+sec.File] = append(per["cfg/"+sec.File], l)
		}
	}
	for f, ls := range per {
		res[f] = c12hashText(strings.Join(ls, "\n"))
	}
	return res
}

// c12hashes: content hash without the server lines @ hash of the file's part of the server table
func c12hashes(d c12dirs, rel string, srv map[string]string) string {
	ns, _ := c12content(d, rel, true)
	if h, ok := srv[rel]; ok {
		return c12hashText(ns) + "@" + h
	}
	return c12hashText(ns) + "@0"
}

type c12wrun struct {
	steps   []c12wstep
	errs    []string
	diff    []string
	unload  []string
	tunload []string
	tbl     string
	tblt    string
	snap    string
	tf      string
	rdiff   []string
	rmiss   []string
	fail    string
}

func joinOr(l []string) string {
	if len(l) == 0 {
		return "-"
	}
	return strings.Join(l, "+")
}

func (r c12wrun) text() string {
	if r.fail != "" {
		return r.fail
	}
	st := make([]string, len(r.steps))
	for i, s := range r.steps {
		st[i] = s.text()
	}
	return fmt.Sprintf("T:%s|E:%s|d=%s|u=%s|ut=%s|tbl=%s|tblt=%s|snap=%s|tf=%s|rf=%s|mf=%s", strings.Join(st, ";"), strings.Join(r.errs, ","),
		joinOr(r.diff), joinOr(r.unload), joinOr(r.tunload), r.tbl, r.tblt, r.snap, r.tf, joinOr(r.rdiff), joinOr(r.rmiss))
}

func c12firstDiff(a, b string) string {
	la, lb := strings.Split(a, "\n"), strings.Split(b, "\n")
	for i := 0; i < len(la) || i < len(lb); i++ {
		x, y := "<end>", "<end>"
		if i < len(la) {
			x = la[i]
		}
		if i < len(lb) {
			y = lb[i]
		}
		if x != y {
			return sanitize(fmt.Sprintf("faulty[%s]twin[%s]", x, y))
		}
	}
	return ""
}

// c12worldRun runs the history on the twin and on the faulty controller
func c12worldRun(shards int, script map[int]c12wfault, ops []string, withFresh bool) (res c12wrun) {
	defer func() {
		if r := recover(); r != nil {
			res.fail = "PANIC"
			fmt.Fprintf(os.Stderr, "C12 world panic: %v\n", r)
		}
	}()
	opt := world.DefaultOptions()
	opt.Shards = shards
	opt.KeepLog = os.Getenv("C12_LOG") != ""
	wt, wf := world.NewWorld(), world.NewWorld()
	twin, err := world.NewPipeline(wt, opt)
	if err != nil {
		res.fail = "err:" + sanitize(err.Error())
		return
	}
	defer twin.Close()
	faulty, err := world.NewPipeline(wf, opt)
	if err != nil {
		res.fail = "err:" + sanitize(err.Error())
		return
	}
	defer faulty.Close()
	twin.Sim.PreLoad, faulty.Sim.PreLoad = c12checkRefs, c12checkRefs
	td, fd := c12dirsOf(twin), c12dirsOf(faulty)
	loaded := map[string]string{}  // what the faulty controller's HAProxy read at its last successful reload
	tloaded := map[string]string{} // the same for the twin
	reloads, treloads := 0, 0
	sync := 0
	for _, o := range ops {
		if o != "sync" {
			evt, err := wt.Apply(world.Op{Text: o})
			if err != nil {
				res.fail = "err:" + sanitize(err.Error())
				return
			}
			twin.Deliver(evt)
			evf, _ := wf.Apply(world.Op{Text: o})
			faulty.Deliver(evf)
			continue
		}
		// twin
		c12age(td)
		r0, a0 := twin.Sim.ReloadTr, twin.Sim.AdminTr
		if _, err := twin.Reconcile(); err != nil {
			res.fail = "err:twin:" + sanitize(err.Error())
			return
		}
		st := c12wstep{reload: twin.Sim.ReloadTr > r0, sends: twin.Sim.AdminTr - a0}
		if os.Getenv("C12_LOG") != "" {
			fmt.Fprintln(os.Stderr, "DBG written", c12written(td))
		}
		srv := c12srvHashes(twin.CfgDir)
		for _, f := range c12written(td) {
			st.written = append(st.written, f)
			st.hashes = append(st.hashes, c12hashes(td, f, srv))
		}
		if twin.Sim.Reloads != treloads {
			treloads = twin.Sim.Reloads
			tloaded = map[string]string{}
			for _, f := range c12files(td) {
				tloaded[f], _ = c12content(td, f, true)
			}
		}
		res.steps = append(res.steps, st)
		// faulty
		var undo []func()
		faulty.Sim.Faults = world.Faults{ReloadSendErr: map[int]bool{}, ReloadFailed: map[int]bool{}, AdminErr: map[int]bool{}, AdminBad: map[int]string{}}
		if f, ok := script[sync]; ok {
			for _, rel := range f.files {
				undo = append(undo, c12block(fd.abs(rel)))
			}
			idxs := f.idxs
			if f.all {
				for i := 0; i < 64; i++ {
					idxs = append(idxs, i)
				}
			}
			switch f.kind {
			case "RS":
				faulty.Sim.Faults.ReloadSendErr[faulty.Sim.ReloadTr] = true
			case "RF":
				faulty.Sim.Faults.ReloadFailed[faulty.Sim.ReloadTr] = true
			case "AE":
				for _, i := range idxs {
					faulty.Sim.Faults.AdminErr[faulty.Sim.AdminTr+i] = true
				}
			case "AB":
				for _, i := range idxs {
					faulty.Sim.Faults.AdminBad[faulty.Sim.AdminTr+i] = "simulated bad answer"
				}
			}
		}
		faulty.Log.Info("---- reconcile %d", sync)
		_, ferr := faulty.Reconcile()
		for _, u := range undo {
			u()
		}
		faulty.Sim.Faults = world.Faults{}
		if ferr != nil {
			if strings.HasPrefix(ferr.Error(), "PANIC") {
				res.fail = "PANIC"
				fmt.Fprintf(os.Stderr, "C12 world panic in the faulty controller: %v\n", ferr)
				return
			}
			res.errs = append(res.errs, "1")
			if opt.KeepLog {
				faulty.Log.Info("reconcile error: %v", ferr)
			}
		} else {
			res.errs = append(res.errs, "0")
		}
		if faulty.Sim.Reloads != reloads {
			reloads = faulty.Sim.Reloads
			loaded = map[string]string{}
			for _, f := range c12files(fd) {
				loaded[f], _ = c12content(fd, f, true)
			}
		}
		sync++
	}
	if opt.KeepLog {
		for _, l := range faulty.Log.Lines {
			fmt.Fprintln(os.Stderr, "FAULTY", l)
		}
	}
	// final comparison
	all := map[string]bool{}
	for _, f := range c12files(td) {
		all[f] = true
	}
	for _, f := range c12files(fd) {
		all[f] = true
	}
	names := make([]string, 0, len(all))
	for f := range all {
		names = append(names, f)
	}
	sort.Strings(names)
	for _, f := range names {
		a, oka := c12content(td, f, false)
		b, okb := c12content(fd, f, false)
		if oka != okb || a != b {
			res.diff = append(res.diff, f)
		}
		cur, okc := c12content(fd, f, true)
		old, okl := loaded[f]
		if okc && (!okl || old != cur) {
			res.unload = append(res.unload, f)
		}
		tcur, okc := c12content(td, f, true)
		told, okl := tloaded[f]
		if okc && (!okl || told != tcur) {
			res.tunload = append(res.tunload, f)
		}
	}
	// the response files haproxy.cfg names
	for _, ref := range c12refs(faulty.CfgDir) {
		rel := "cfg/" + ref
		a, oka := c12content(td, rel, false)
		b, okb := c12content(fd, rel, false)
		if !okb {
			res.rmiss = append(res.rmiss, rel)
		}
		if !okb || !oka || a != b {
			res.rdiff = append(res.rdiff, rel)
		}
	}
	// backends without servers are left out: they exist in the table as soon as their file is read
	withServers := func(t []string) string {
		var keep []string
		for _, l := range t {
			if f := strings.Fields(l); len(f) > 1 {
				keep = append(keep, l)
			}
		}
		return strings.Join(keep, "\n")
	}
	res.tbl, res.tblt = "eq", "eq"
	dt, derr := world.DiskTable(faulty.CfgDir)
	if derr != nil || withServers(dt) != withServers(faulty.Sim.RunningTable()) {
		res.tbl = "diff"
	}
	dt, derr = world.DiskTable(twin.CfgDir)
	if derr != nil || withServers(dt) != withServers(twin.Sim.RunningTable()) {
		res.tblt = "diff"
	}
	reqs, snis := world.RequestsFor(ops)
	tt := twin.Snapshot(reqs, snis).Text()
	ft := faulty.Snapshot(reqs, snis).Text()
	res.snap = "eq"
	if d := c12firstDiff(ft, tt); d != "" {
		res.snap = "diff:" + d
	}
	res.tf = "-"
	if withFresh {
		res.tf = "eq"
		fresh, err := world.NewPipeline(wt, opt)
		if err == nil {
			fresh.Sim.PreLoad = c12checkRefs
			fresh.Startup()
			if _, err := fresh.Reconcile(); err != nil {
				res.tf = "err"
			} else if fresh.Snapshot(reqs, snis).Text() != tt {
				res.tf = "diff"
			}
			fresh.Close()
		}
	}
	return
}

func c12scriptText(script map[int]string) string {
	if len(script) == 0 {
		return "-"
	}
	ks := make([]int, 0, len(script))
	for k := range script {
		ks = append(ks, k)
	}
	sort.Ints(ks)
	parts := make([]string, len(ks))
	for i, k := range ks {
		parts[i] = fmt.Sprintf("%d:%s", k, script[k])
	}
	return strings.Join(parts, ",")
}

func c12worldCase(j *c12jobs, shards int, script string, ops []string) {
	ops = append([]string(nil), ops...)
	j.add(func() c12res {
		r := c12worldRun(shards, c12parseScript(script), ops, true)
		stats := []string{"mode_world", fmt.Sprintf("world_shards_%d", shards)}
		for _, part := range strings.Split(script, ",") {
			if kv := strings.SplitN(part, ":", 2); len(kv) == 2 {
				k := kv[1]
				if strings.HasPrefix(k, "F=") {
					k = fmt.Sprintf("F_rank%02d", min(c12rank(strings.Split(k[2:], "+")[0]), 9))
				} else if len(k) > 2 {
					k = k[:2]
				}
				stats = append(stats, "world_fault_"+k)
			}
		}
		if r.tf == "diff" {
			stats = append(stats, "world_twin_differs_from_fresh")
		}
		return c12res{fmt.Sprintf("world s%d %s %s", shards, script, strings.Join(ops, " ")), r.text(), stats}
	})
}

// c12addResponses rewrites a generated history so that the global ConfigMap also carries custom HTTP
// responses: `http-response-404` (Lua based, lua/responses.lua) changes, `http-response-503` (HAProxy based,
// errorfiles/503.http + an `errorfile` line of haproxy.cfg) appears, changes and goes away. Returns the
// indexes of the reconciles that see such a change.
func c12addResponses(r *gen.Rng, hist []string) ([]string, []int) {
	base := "-"        // the other keys of the ConfigMap, as generated
	resp := [2]int{}   // 404, 503; 0 = key absent
	text := func() string {
		var kv []string
		if base != "-" && base != "" {
			kv = append(kv, base)
		}
		if resp[0] != 0 {
			kv = append(kv, fmt.Sprintf("http-response-404=X-V:%d", resp[0]))
		}
		if resp[1] != 0 {
			kv = append(kv, fmt.Sprintf("http-response-503=X-V:%d", resp[1]))
		}
		if len(kv) == 0 {
			return "cm~-"
		}
		return "cm~" + strings.Join(kv, ";")
	}
	change := func() {
		switch r.Intn(4) {
		case 0:
			resp[0] = (resp[0] + r.Range(1, 3)) % 4
		case 1, 2:
			resp[1] = (resp[1] + r.Range(1, 3)) % 4
		case 3:
			resp = [2]int{r.Range(0, 3), r.Range(0, 3)}
		}
	}
	var out []string
	var at []int
	sync, changed := 0, false
	if r.Chance(1, 2) {
		change() // responses configured from the start
		out = append(out, text())
	}
	for _, o := range hist {
		switch {
		case strings.HasPrefix(o, "cm~"):
			base = o[3:]
			if r.Chance(1, 2) {
				change()
				changed = true
			}
			out = append(out, text())
		case o == "sync":
			if !changed && sync > 0 && r.Chance(1, 3) {
				change()
				changed = true
				out = append(out, text())
			}
			if changed {
				at = append(at, sync)
			}
			out = append(out, o)
			sync++
			changed = false
		default:
			out = append(out, o)
		}
	}
	return out, at
}

// c12worldGen: a random history; the twin is run once to learn what every reconcile writes, then a
// fault is put on one reconcile (a file the reconcile writes, the reload, the admin socket), injected
// once or twice, followed by two fault-free retries
func c12worldGen(j *c12jobs, r *gen.Rng, count int) {
	for i := 0; i < count; i++ {
		rr := r.Fork()
		shards := gen.Pick(rr, []int{0, 0, 3})
		cfg := world.DefaultGen()
		cfg.Classes = false
		cfg.MaxBatches = 4
		hist := world.NewGen(rr.Fork(), cfg).History()
		var respAt []int
		if rr.Chance(2, 3) {
			hist, respAt = c12addResponses(rr.Fork(), hist)
		}
		j.add(func() c12res {
			dry := c12worldRun(shards, nil, hist, false)
			if dry.fail != "" || len(dry.steps) == 0 {
				return c12res{}
			}
			// pick the reconcile (often one that sees changed custom responses) and the fault
			k := rr.Intn(len(dry.steps))
			if len(respAt) > 0 && rr.Chance(1, 2) {
				k = gen.Pick(rr, respAt)
			}
			st := dry.steps[k]
			var cands []string
			seen := map[int]bool{}
			for _, f := range st.written {
				rk := c12rank(f)
				if rk == 2 || seen[rk] && rk == 3 {
					continue // inside the frontend maps / backend maps the order is not fixed: the group is blocked as a whole
				}
				seen[rk] = true
				cands = append(cands, f)
			}
			var opts []string
			for _, f := range cands {
				switch c12rank(f) {
				case 1: // the crt-list and with it every frontend map of the step
					var g []string
					for _, x := range st.written {
						if c12rank(x) == 1 || c12rank(x) == 2 {
							g = append(g, x)
						}
					}
					opts = append(opts, "F="+strings.Join(g, "+"))
				case 3:
					var g []string
					for _, x := range st.written {
						if c12rank(x) == 3 {
							g = append(g, x)
						}
					}
					opts = append(opts, "F="+strings.Join(g, "+"))
				default:
					opts = append(opts, "F="+f)
				}
			}
			if st.reload && st.sends == 0 {
				opts = append(opts, "RS", "RF")
			}
			if st.sends > 0 {
				opts = append(opts, "AE*", "AB*", "AE0")
			}
			if len(opts) == 0 {
				return c12res{}
			}
			fault := gen.Pick(rr, opts)
			// split the history at reconcile k: faulty reconcile (once or twice), two retries, the rest
			var ops []string
			script := map[int]string{}
			n := 0
			for _, o := range hist {
				ops = append(ops, o)
				if o == "sync" {
					if n == k {
						script[len(script)+0+k] = fault
						if rr.Chance(1, 3) {
							ops = append(ops, "sync")
							script[k+1] = fault
						}
						ops = append(ops, "sync", "sync")
						if rr.Chance(1, 2) {
							break
						}
					}
					n++
				}
			}
			text := c12scriptText(script)
			res := c12worldRun(shards, c12parseScript(text), ops, true)
			stats := []string{"mode_world", fmt.Sprintf("world_shards_%d", shards)}
			kk := fault
			if strings.HasPrefix(kk, "F=") {
				kk = fmt.Sprintf("F_rank%02d", min(c12rank(strings.Split(kk[2:], "+")[0]), 9))
			} else {
				kk = kk[:2]
			}
			stats = append(stats, "world_fault_"+kk)
			for _, a := range respAt {
				if a == k {
					stats = append(stats, "world_fault_on_response_change")
				}
			}
			if res.tf == "diff" {
				stats = append(stats, "world_twin_differs_from_fresh")
			}
			return c12res{fmt.Sprintf("world s%d %s %s", shards, text, strings.Join(ops, " ")), res.text(), stats}
		})
	}
}

// c12minimise (development aid, C12_ONLY=minimise): shrinks generated world cases per category and prints
// them; the results were pasted into c12worldCorpus
func c12minimise(c *ctx, r *gen.Rng) {
	seen := map[string]int{}
	for i := 0; i < 400; i++ {
		rr := r.Fork()
		shards := gen.Pick(rr, []int{0, 0, 3})
		cfg := world.DefaultGen()
		cfg.Classes = false
		cfg.MaxBatches = 3
		hist := world.NewGen(rr.Fork(), cfg).History()
		dry := c12worldRun(shards, nil, hist, false)
		if dry.fail != "" || len(dry.steps) == 0 {
			continue
		}
		k := rr.Intn(len(dry.steps))
		st := dry.steps[k]
		var opts []string
		var fm, bm []string
		for _, f := range st.written {
			switch c12rank(f) {
			case 1, 2:
				fm = append(fm, f)
			case 3:
				bm = append(bm, f)
			default:
				opts = append(opts, "F="+f)
			}
		}
		if len(fm) > 0 {
			opts = append(opts, "F="+strings.Join(fm, "+"))
		}
		if len(bm) > 0 {
			opts = append(opts, "F="+strings.Join(bm, "+"), "F="+strings.Join(bm, "+"))
		}
		if st.reload && st.sends == 0 {
			opts = append(opts, "RS")
		}
		if st.sends > 0 {
			opts = append(opts, "AE*")
		}
		if len(opts) == 0 {
			continue
		}
		fault := gen.Pick(rr, opts)
		var ops []string
		n := 0
		for _, o := range hist {
			ops = append(ops, o)
			if o == "sync" {
				if n == k {
					ops = append(ops, "sync", "sync")
				}
				n++
			}
		}
		script := fmt.Sprintf("%d:%s", k, fault)
		classify := func(res c12wrun, sc map[int]c12wfault) string {
			if res.fail != "" {
				return "fail"
			}
			for i, e := range res.errs {
				if _, ok := sc[i]; !ok && e == "1" {
					return "spurious"
				}
			}
			if res.snap != "eq" {
				return "stale"
			}
			if len(res.unload) > len(res.tunload) || (res.tbl != "eq" && res.tblt == "eq") {
				return "unloaded"
			}
			return "ok"
		}
		sc := c12parseScript(script)
		res := c12worldRun(shards, sc, ops, false)
		kind := fault
		if strings.HasPrefix(kind, "F=") {
			kind = fmt.Sprintf("F%02d", min(c12rank(strings.Split(kind[2:], "+")[0]), 9))
		}
		cat := kind + "/" + classify(res, sc)
		if seen[cat] >= 1 || strings.HasSuffix(cat, "/fail") {
			continue
		}
		seen[cat]++
		nsync := strings.Count(strings.Join(ops, " "), "sync")
		min := world.Shrink(ops, func(o []string) bool {
			if strings.Count(strings.Join(o, " "), "sync") != nsync {
				return false
			}
			rr := c12worldRun(shards, sc, o, false)
			return rr.fail == "" && kind+"/"+classify(rr, sc) == cat && strings.Join(rr.errs, ",") == strings.Join(res.errs, ",")
		}, 150)
		fmt.Fprintf(os.Stderr, "MIN %s: s%d %s %s\n", cat, shards, script, strings.Join(min, " "))
	}
}

func runC12(c *ctx) {
	r := gen.New(c.seed)
	j := &c12jobs{c: c}
	if os.Getenv("C12_ONLY") == "minimise" {
		c12minimise(c, r.Fork())
		return
	}
	if os.Getenv("C12_ONLY") == "world" {
		nw := 150
		if c.thorough() {
			nw = 2500
		}
		c12worldGen(j, r.Fork(), nw)
		j.flush()
		return
	}
	c12instCorpus(j)
	c12instExhaustive(j, c.thorough())
	c12instRotated(j, c.thorough())
	n := 600
	if c.thorough() {
		n = 20000
	}
	c12instRandom(j, r.Fork(), n)
	j.flush()
	if os.Getenv("C12_ONLY") == "inst" {
		return
	}
	c12worldCorpus(j)
	nw := 150
	if c.thorough() {
		nw = 2500
	}
	c12worldGen(j, r.Fork(), nw)
	j.flush()
}
