package main

// C11, world level: no needless reloads on the REAL pipeline (watchers -> converters + annotation updater + tracker
// -> haproxy.Instance.HAProxyUpdate = SyncConfig, Shrink, dynamic updater, templates -> files -> simulated HAProxy).
//
// One case = `C11 world <op> <op> ...` (op grammar of world/ops.go + the pseudo ops of syncOptions).  The ops bring a
// long-lived pipeline to a committed cluster state (events delivered as they happen, a reconcile at every `sync`).
// From that state the harness delivers, deterministically from the state itself,
//
//   1. NO-OP events, one kind at a time, each followed by a reconcile: an empty reconcile, then for EVERY object of the
//      world (the objects themselves are re-delivered, no text round trip) a re-notification of the unchanged Service
//      (update, only the generation bumped), of the unchanged Endpoints (removed and created again with the same content
//      in one batch: a plain update of equal subsets never passes the predicate of the watcher), of the unchanged Secret
//      (update with identical data), of the Ingress (update with identical content), the removal of a Pod nobody refers
//      to, the ConfigMap with identical data, and the IngressClass (answered by a full sync: judged with the clause of the
//      known finding reload-on-noop:full-sync-rebuilds-every-host);
//   2. IN-CAPACITY endpoint changes, for every Endpoints object: the same addresses in another order, one address
//      replaced by a new one, a readiness flip (there and back), one address added, one address removed.
//
// What is observed per event (one token, fields joined by `!`):
//   * R = successful reloads of the simulated HAProxy during the reconcile, C = runtime commands it received,
//     E = the reconcile returned an error;
//   * through a wrapper of Instance.HAProxyUpdate, the store exactly as the converters left it, BEFORE SyncConfig and
//     Shrink: the re-created hosts (hostname, asks for a client certificate, ssl-passthrough, backends of its paths),
//     the re-created backends with their committed counterpart (TLS.HasTLSAuth as the converter left it; dynamic flags,
//     committed endpoint slots and re-created endpoints), whether something outside hosts/backends is flagged changed;
//   * after the update: the hosts / backends the instance reports as changed (`updating N host(s): [...]`), and the
//     whole committed store (hosts with the same attributes, backends with the derived flag HasTLSAuth).
// The Lean driver replays the update cycle `derive (SyncConfig); shrink` of Model/C11Sync on the observed store and
// re-created items and must predict what the instance reports as changed, the reload and the committed store; the
// oracle (clauses reload-on-noop, command-on-noop, reload-on-in-capacity-change) is evaluated on the observations.

import (
	"fmt"
	"os"
	"runtime"
	"sort"
	"strconv"
	"strings"

	"github.com/jcmoraisjr/haproxy-ingress/pkg/haproxy"
	hatypes "github.com/jcmoraisjr/haproxy-ingress/pkg/haproxy/types"
	"github.com/jcmoraisjr/haproxy-ingress/pkg/utils"

	"hapverif/gen"
	"hapverif/world"
)

// c11spy observes the store between the converters and HAProxyUpdate
type c11spy struct {
	haproxy.Instance
	pre func()
}

func (s *c11spy) HAProxyUpdate(t *utils.Timer) error {
	if s.pre != nil {
		s.pre()
	}
	return s.Instance.HAProxyUpdate(t)
}

func c11join(l []string, sep string) string {
	if len(l) == 0 {
		return "-"
	}
	return strings.Join(l, sep)
}

// the backends SyncConfig looks up for the paths of a host: FindBackend(path.Backend.Namespace, .Name, .Port), whose
// key is namespace_name_port (`__` for a redirect or a path without service)
func c11hostOwn(h *hatypes.Host) string {
	seen := map[string]bool{}
	var bs []string
	for _, p := range h.Paths {
		id := p.Backend.Namespace + "_" + p.Backend.Name + "_" + p.Backend.Port
		if !seen[id] {
			seen[id] = true
			bs = append(bs, id)
		}
	}
	sort.Strings(bs)
	return c11join(bs, "+")
}

// own = the backends of the paths the CONVERTER gave the host (SyncConfig may add a borrowed root path later):
// for a committed host, what was seen when it was last re-created (mem)
func c11hostsTok(m map[string]*hatypes.Host, mem map[string]string) string {
	var l []string
	for _, h := range m {
		own, ok := mem[h.Hostname]
		if !ok {
			own = c11hostOwn(h)
		}
		l = append(l, h.Hostname+"^"+b2s(h.HasTLSAuth())+"^"+b2s(h.SSLPassthrough())+"^"+own)
	}
	sort.Strings(l)
	return c11join(l, ",")
}

func c11backsTok(m map[string]*hatypes.Backend) string {
	var l []string
	for id, b := range m {
		l = append(l, id+"^"+b2s(b.TLS.HasTLSAuth))
	}
	sort.Strings(l)
	return c11join(l, ",")
}

func c11keys[T any](m map[string]T) string {
	l := make([]string, 0, len(m))
	for k := range m {
		l = append(l, k)
	}
	sort.Strings(l)
	return c11join(l, ",")
}

// what the dynamic updater looks at, besides the endpoints
func c11backFlags(b *hatypes.Backend) c02flags {
	return c02flags{dyn: b.Dynamic.DynUpdate, res: b.Resolver != "", pres: b.Cookie.Preserve, same: true,
		minfree: b.Dynamic.MinFreeSlots, block: b.Dynamic.BlockSize, iw: b.Server.InitialWeight, aff: b.Cookie.Name != ""}
}

type c11pre struct {
	ha, hd, ba, bd, pairs string
	fitsAll               bool   // harness-side reading of the premise of `fits` (only used to pick what is minimised)
	other                 string // what is flagged changed outside hosts/backends: t(cp services) b (tcp backends, configmap) f(rontend) u(serlists)
	seen                  bool
}

func c11observe(cfg haproxy.Config, mem map[string]string) c11pre {
	o := c11pre{seen: true}
	for name, h := range cfg.Hosts().ItemsAdd() {
		mem[name] = c11hostOwn(h)
	}
	o.ha = c11hostsTok(cfg.Hosts().ItemsAdd(), nil)
	o.hd = c11keys(cfg.Hosts().ItemsDel())
	// re-created backends: id ^ HasTLSAuth as the converter left it ^ the committed version carries the link to its
	// default-host path map (written by WriteBackendMaps AFTER Shrink; backendsMatch neutralises PathsMap only)
	{
		var l []string
		for id, b := range cfg.Backends().ItemsAdd() {
			del := cfg.Backends().ItemsDel()[id]
			l = append(l, id+"^"+b2s(b.TLS.HasTLSAuth)+"^"+b2s(del != nil && del.PathsDefaultHostMap != nil))
		}
		sort.Strings(l)
		o.ba = c11join(l, ",")
	}
	o.bd = c11keys(cfg.Backends().ItemsDel())
	var ps []string
	o.fitsAll = len(cfg.Backends().ItemsAdd()) == len(cfg.Backends().ItemsDel()) && len(cfg.Hosts().ItemsAdd()) == len(cfg.Hosts().ItemsDel())
	for id, add := range cfg.Backends().ItemsAdd() {
		del := cfg.Backends().ItemsDel()[id]
		if del == nil {
			o.fitsAll = false
			continue
		}
		if !add.Dynamic.DynUpdate || add.Resolver != "" || add.Cookie.Preserve || len(add.Endpoints) > len(del.Endpoints) {
			o.fitsAll = false
		}
		for _, ep := range append(append([]*hatypes.Endpoint(nil), add.Endpoints...), del.Endpoints...) {
			if ep.Label != "" {
				o.fitsAll = false
			}
		}
		ps = append(ps, id+"@"+c11backFlags(add).String()+"@"+c02fmtEPs(c02read(del))+"@"+c02fmtEPs(c02read(add)))
	}
	sort.Strings(ps)
	o.pairs = c11join(ps, "&")
	for _, x := range []struct {
		k  string
		ch bool
	}{{"t", cfg.TCPServices().Changed()}, {"b", cfg.TCPBackends().Changed()}, {"f", cfg.Frontend().Changed()}, {"u", cfg.Userlists().Changed()}} {
		if x.ch {
			o.other += x.k
		}
	}
	if o.other == "" {
		o.other = "-"
	}
	return o
}

// ---- the events, derived from the cluster state

type c11event struct {
	id  string   // kind:key
	ops []string // world ops of the batch
	// no-op events re-deliver the very objects of the world (no text round trip): nil = apply `ops`
	deliver func(w *world.World, p *world.Pipeline)
}

type c11addr struct {
	ip, pod string
	ready   bool
}

func c11parseAddrs(s string) []c11addr {
	var res []c11addr
	if s == "-" || s == "" {
		return res
	}
	for _, a := range strings.Split(s, "+") {
		f := strings.Split(a, ":")
		if len(f) != 3 {
			continue
		}
		res = append(res, c11addr{ip: f[0], ready: f[1] == "r", pod: f[2]})
	}
	return res
}

func c11addrsText(as []c11addr) string {
	if len(as) == 0 {
		return "-"
	}
	l := make([]string, len(as))
	for i, a := range as {
		r := "n"
		if a.ready {
			r = "r"
		}
		l[i] = a.ip + ":" + r + ":" + a.pod
	}
	return strings.Join(l, "+")
}

// what the in-capacity changes start from: the address list last published per Endpoints object, and the ConfigMap
type c11objects struct {
	ep    map[string]string
	cm    string
	hasCM bool
}

func c11scan(ops []string) c11objects {
	o := c11objects{ep: map[string]string{}}
	for _, t := range ops {
		switch {
		case strings.HasPrefix(t, "svc-"):
			delete(o.ep, t[4:])
		case strings.HasPrefix(t, "ep~"):
			o.ep[strings.SplitN(t[3:], "!", 2)[0]] = t[3:]
		case strings.HasPrefix(t, "ep-"):
			delete(o.ep, t[3:])
		case strings.HasPrefix(t, "cm~"):
			o.cm, o.hasCM = t[3:], true
		}
	}
	return o
}

func c11noopEvents(w *world.World, o c11objects) []c11event {
	evs := []c11event{{id: "idle:-"}}
	for _, k := range world.SortedKeys(w.Services) {
		k := k
		evs = append(evs, c11event{id: "svc:" + k, deliver: func(w *world.World, p *world.Pipeline) {
			old := w.Services[k]
			nw := old.DeepCopy()
			nw.Generation++ // an update that changes nothing the controller reads
			w.Services[k] = nw
			p.Deliver([]world.Ev{{Op: "update", Old: old, New: nw}})
		}})
	}
	for _, k := range world.SortedKeys(w.Endpoints) {
		k := k
		evs = append(evs, c11event{id: "ep:" + k, deliver: func(w *world.World, p *world.Pipeline) {
			// removed and created again with the same content, in one batch
			obj := w.Endpoints[k]
			p.Deliver([]world.Ev{{Op: "delete", New: obj}, {Op: "create", New: obj.DeepCopy()}})
		}})
	}
	for _, k := range world.SortedKeys(w.Secrets) {
		k := k
		evs = append(evs, c11event{id: "sec:" + k, deliver: func(w *world.World, p *world.Pipeline) {
			sec := w.Secrets[k]
			p.Deliver([]world.Ev{{Op: "update", Old: sec.Object(), New: sec.Object()}})
		}})
	}
	for _, k := range world.SortedKeys(w.Ingresses) {
		k := k
		evs = append(evs, c11event{id: "ing:" + k, deliver: func(w *world.World, p *world.Pipeline) {
			old := w.Ingresses[k]
			nw := old.DeepCopy()
			nw.Generation++
			w.Ingresses[k] = nw
			p.Deliver([]world.Ev{{Op: "update", Old: old, New: nw}})
		}})
	}
	evs = append(evs, c11event{id: "pod:zz/noise", ops: []string{"pod+zz/noise!10.99.0.1!-!-", "pod-zz/noise"}})
	if o.hasCM {
		evs = append(evs, c11event{id: "cm:-", ops: []string{"cm~" + o.cm}})
	}
	for _, k := range world.SortedKeys(w.IngressClasses) {
		k := k
		evs = append(evs, c11event{id: "cls:" + k, deliver: func(w *world.World, p *world.Pipeline) {
			old := w.IngressClasses[k]
			nw := old.DeepCopy()
			nw.Generation++
			w.IngressClasses[k] = nw
			p.Deliver([]world.Ev{{Op: "update", Old: old, New: nw}})
		}})
	}
	return evs
}

// in-capacity endpoint changes of one Endpoints object; every event is one batch
func c11capEvents(key string, epText string, n int) []c11event {
	f := strings.SplitN(epText, "!", 2)
	if len(f) != 2 {
		return nil
	}
	as := c11parseAddrs(f[1])
	mk := func(kind string, l []c11addr) c11event {
		return c11event{id: kind + ":" + key, ops: []string{"ep~" + key + "!" + c11addrsText(l)}}
	}
	fresh := func(k int) c11addr {
		return c11addr{ip: fmt.Sprintf("10.77.%d.%d", n%250, k), pod: fmt.Sprintf("new-%d-%d", n, k), ready: true}
	}
	var evs []c11event
	cur := append([]c11addr(nil), as...)
	if len(cur) > 1 {
		// the same addresses in another order (passes the predicate of the watcher)
		pm := append([]c11addr(nil), cur...)
		for a, b := 0, len(pm)-1; a < b; a, b = a+1, b-1 {
			pm[a], pm[b] = pm[b], pm[a]
		}
		evs = append(evs, mk("perm", pm))
	}
	if len(cur) > 0 {
		// replace the first address
		cur = append([]c11addr{fresh(1)}, cur[1:]...)
		evs = append(evs, mk("replace", cur))
		// readiness flip of the first address, there and back
		fl := append([]c11addr(nil), cur...)
		fl[0].ready = !fl[0].ready
		evs = append(evs, mk("flip", fl), mk("flop", cur))
	}
	// one address more, then one (the oldest) less
	cur = append(append([]c11addr(nil), cur...), fresh(2))
	evs = append(evs, mk("add", cur))
	cur = append([]c11addr(nil), cur[1:]...)
	evs = append(evs, mk("remove", cur))
	return evs
}

// the committed derived attribute is the one the hosts give (Model/C11Sync `Inv`)
func c11flagsFromHosts(cfg haproxy.Config, mem map[string]string) bool {
	want := map[string]bool{}
	for name, h := range cfg.Hosts().Items() {
		if !h.HasTLSAuth() || h.SSLPassthrough() {
			continue
		}
		own, ok := mem[name]
		if !ok {
			own = c11hostOwn(h)
		}
		for _, id := range strings.Split(own, "+") {
			want[id] = true
		}
	}
	for id, b := range cfg.Backends().Items() {
		if b.TLS.HasTLSAuth != want[id] {
			return false
		}
	}
	return true
}

type c11wres struct {
	out     string
	fail    bool // some no-op event reloaded / sent a command, or an in-capacity change reloaded (harness-side shrink predicate)
	stats   map[string]int
	events  int
	clauses []string // harness-side reading of the oracle, one entry per failing event: <clause>:<event kind>:<detail>
}

func c11worldRun(toks []string) (res c11wres) {
	res.stats = map[string]int{}
	defer func() {
		if r := recover(); r != nil {
			res.out = "PANIC:" + sanitize(fmt.Sprint(r))
			res.clauses = append(res.clauses, "panic:")
		}
	}()
	opt, ops := syncOptions(toks)
	opt.KeepLog = true
	w := world.NewWorld()
	p, err := world.NewPipeline(w, opt)
	if err != nil {
		res.out = "skip:" + sanitize(err.Error())
		return
	}
	defer p.Close()
	var pre c11pre
	spy := &c11spy{Instance: p.Instance}
	mem := map[string]string{}
	spy.pre = func() { pre = c11observe(spy.Instance.Config(), mem) }
	p.Instance = spy
	// setup
	all := ops
	if len(all) == 0 || all[len(all)-1] != "sync" {
		all = append(append([]string(nil), all...), "sync")
	}
	for _, o := range all {
		if o == "sync" {
			if _, err := p.Reconcile(); err != nil {
				res.out = "skip:setup-" + sanitize(err.Error())
				return
			}
			continue
		}
		evs, err := w.Apply(world.Op{Text: o})
		if err != nil {
			res.out = "skip:" + sanitize(err.Error())
			return
		}
		p.Deliver(evs)
	}
	if p.Sim.Reloads == 0 {
		res.out = "skip:no-reload-at-setup"
		return
	}
	cfg := spy.Instance.Config()
	c11authStats(cfg.Frontend(), res.stats)
	store := func() string {
		return "H=" + c11hostsTok(cfg.Hosts().Items(), mem) + "!B=" + c11backsTok(cfg.Backends().Items())
	}
	outs := []string{"init:-!" + store()}
	objs := c11scan(ops)
	run := func(ev c11event, cap bool) bool {
		if ev.deliver != nil {
			ev.deliver(w, p)
		}
		for _, o := range ev.ops {
			evs, err := w.Apply(world.Op{Text: o})
			if err != nil {
				outs = append(outs, ev.id+"!skip")
				return false
			}
			p.Deliver(evs)
		}
		pre = c11pre{}
		p.Log.Lines = nil
		reloads, ncmd := p.Sim.Reloads, len(p.Sim.Cmds)
		_, err := p.Reconcile()
		uh, ub := "-", "-"
		full := true
		for _, l := range p.Log.Lines {
			if reSyncing.MatchString(l) {
				full = false
			}
			if g := reUpdHosts.FindStringSubmatch(l); g != nil {
				f := strings.Fields(g[2])
				sort.Strings(f)
				uh = c11join(f, ",")
			}
			if g := reUpdBacks.FindStringSubmatch(l); g != nil {
				f := strings.Fields(g[2])
				sort.Strings(f)
				ub = c11join(f, ",")
			}
		}
		dr, dc := p.Sim.Reloads-reloads, len(p.Sim.Cmds)-ncmd
		mode := "P"
		if full {
			mode = "F"
		}
		if !pre.seen {
			pre.ha, pre.hd, pre.ba, pre.bd, pre.pairs, pre.other = "-", "-", "-", "-", "-", "-"
		}
		tok := strings.Join([]string{ev.id, "R" + strconv.Itoa(dr), "C" + strconv.Itoa(dc), "E" + b2s(err != nil || p.Sim.LoadErr != ""), mode,
			"o=" + pre.other, "ha=" + pre.ha, "hd=" + pre.hd, "ba=" + pre.ba, "bd=" + pre.bd, "uh=" + uh, "ub=" + ub, store(), "P=" + pre.pairs}, "!")
		outs = append(outs, tok)
		res.events++
		kind := strings.SplitN(ev.id, ":", 2)[0]
		tcp := strings.ContainsAny(pre.other, "tb")
		if !c11flagsFromHosts(cfg, mem) {
			res.clauses = append(res.clauses, "flag:"+kind)
		}
		if cap {
			res.stats["world_cap_"+kind] += 1
			switch {
			case dr > 0 && tcp:
				res.stats["world_cap_reloaded_tcp_service_touched"] += 1
			case dr > 0 && pre.fitsAll && pre.other == "-" && !full:
				res.stats["world_cap_reloaded_although_fits"] += 1
				res.clauses = append(res.clauses, "cap-reload:"+kind)
			case dr > 0:
				res.stats["world_cap_reloaded_premise_fails"] += 1
			case dc > 0:
				res.stats["world_cap_dynamic_update"] += 1
			default:
				res.stats["world_cap_nothing_to_do"] += 1
			}
			if strings.Contains(pre.ha, "^1^0^") {
				res.stats["world_cap_recreating_tls_auth_host"] += 1
			}
		} else {
			res.stats["world_noop_"+kind] += 1
			if pre.ba != "-" {
				res.stats["world_noop_recreating_backends"] += 1
			}
			if strings.Contains(pre.ha, "^1^0^") {
				res.stats["world_noop_recreating_tls_auth_host"] += 1
			}
			switch {
			case full && dr > 0:
				res.stats["world_noop_full_sync_reloaded"] += 1
			case tcp && dr > 0:
				res.stats["world_noop_tcp_service_touched_reloaded"] += 1
			case dr > 0:
				res.clauses = append(res.clauses, "noop-reload:"+kind)
			case dc > 0 && !full:
				res.clauses = append(res.clauses, "noop-command:"+kind)
			}
		}
		return err == nil
	}
	for _, ev := range c11noopEvents(w, objs) {
		run(ev, false)
	}
	n := 0
	for _, k := range world.SortedKeys(objs.ep) {
		if w.Services[k] == nil || w.Endpoints[k] == nil {
			continue
		}
		n++
		for _, ev := range c11capEvents(k, objs.ep[k], n) {
			run(ev, true)
		}
	}
	res.out = strings.Join(outs, ";")
	return
}

func c11worldCase(c *ctx, toks []string) c11wres {
	if w := os.Getenv("C11_SHRINK"); w != "" {
		toks = c11worldShrink(toks, w)
	}
	r := c11worldRun(toks)
	c11worldEmit(c, toks, r)
	return r
}

func c11worldEmit(c *ctx, toks []string, r c11wres) {
	c.emit("C11", "world "+strings.Join(toks, " "), r.out)
	c.stat("world", 1)
	c.stat("world_events", r.events)
	for k, v := range r.stats {
		c.stat(k, v)
	}
	if strings.HasPrefix(r.out, "skip:") {
		c.stat("world_skipped", 1)
	}
}

// ---- generator

// corpus of minimised histories (each one is the replay of a seeded or repaired defect)
var c11worldCorpus = []string{
	// seed C11f (Shrink before SyncConfig): a host asking for a client certificate; every no-op re-notification of
	// its service / endpoints / secrets / ingress re-creates host and backend, the derived TLS.HasTLSAuth must be
	// set BEFORE Shrink compares the re-created backend with the committed one
	"svc+d/app!http:80:8080!- ep~d/app!10.0.1.1:r:app-1+10.0.1.2:r:app-2 sec+d/ca1!ca!1!- sec+d/tls1!tls!1!a.local ing+d/i1@1!haproxy,-!auth-tls-secret=ca1!a.local>/:Prefix:app:80!a.local>tls1!- sync",
	"opt~shards=3 svc+d/app!http:80:8080!- ep~d/app!10.0.1.1:r:app-1 svc+d/api!http:80:8080!- ep~d/api!10.0.2.1:r:api-1 sec+d/ca1!ca!1!- sec+d/tls1!tls!1!a.local+b.local ing+d/i1@1!haproxy,-!auth-tls-secret=ca1!a.local>/:Prefix:app:80+/api:Prefix:api:80!a.local>tls1!- ing+d/i2@2!haproxy,-!-!b.local>/:Prefix:api:80!b.local>tls1!- sync",
	// the same host after a history of partial syncs, few free slots (an added endpoint does not always fit)
	"svc+d/app!http:80:8080!- ep~d/app!10.0.1.1:r:app-1 sec+d/ca1!ca!1!- sec+d/tls1!tls!1!a.local ing+d/i1@1!haproxy,-!slots-min-free=1!a.local>/:Prefix:app:80!a.local>tls1!- sync ing~d/i1@1!haproxy,-!auth-tls-secret=ca1;slots-min-free=1!a.local>/:Prefix:app:80!a.local>tls1!- sync ep~d/app!10.0.1.1:r:app-1+10.0.1.2:r:app-2 sync",
	// strict-host with three hosts borrowing the root path of the default backend: SyncConfig visited
	// hosts.ItemsAdd() in Go-map order, the borrowed paths landed in the backend in another order at every
	// re-creation and a no-op re-notification reloaded at random (found by this mode; repaired by 50e63a3)
	"svc+e/api!http:80:8080+adm:81:adm!- cm~strict-host=true ing~e/i2@2!haproxy,-!-!c.local>/a/b:_:api:8080!a.local+b.local>tls1!api:80",
	"svc+e/api!http:80:8080+adm:81:adm!- ep~e/api!10.1.2.1:r:api-1 cm~strict-host=true ing+e/i2@2!haproxy,-!-!c.local>/a/b:_:api:8080;d.local>/x:Prefix:api:80;e.local>/y:Prefix:api:80!a.local+b.local>tls1!api:80 sync",
	// KNOWN FINDING reload-on-noop:full-sync-rebuilds-every-host: an IngressClass re-notified without any change forces a
	// full sync; config.Clear() drops the committed state and Hosts keeps no ItemsDel(): every host is "added", reload
	"cls+hap:haproxy-ingress.github.io/controller svc+d/app!http:80:8080!- ep~d/app!10.0.1.1:r:app-1 ing+d/i1@1!-,hap!-!a.local>/:Prefix:app:80!-!- sync",
	// a backend with per-path configuration (NeedACL): its committed version carries PathsDefaultHostMap, which
	// backendsMatch does not neutralise - the pair never shrinks, the files are rewritten, HAProxy is not reloaded
	"svc+d/app!http:80:8080!- ep~d/app!10.0.1.1:r:app-1 ing+d/i1@1!haproxy,-!ssl-redirect=false!_>/a:Prefix:app:80!-!- ing+d/i2@2!haproxy,-!ssl-redirect=true!_>/b:Prefix:app:80!-!- sync",
}

// annotations that decide the premise of `fits` (dynamic scaling, free slots) and the derived attribute
func c11enrich(r *gen.Rng, ops []string, i int) []string {
	last := map[string]int{}
	for k, o := range ops {
		if strings.HasPrefix(o, "ing+") || strings.HasPrefix(o, "ing~") {
			if sp, err := world.ParseIngress(o[4:]); err == nil {
				last[sp.Namespace+"/"+sp.Name] = k
			}
		} else if strings.HasPrefix(o, "ing-") {
			delete(last, o[4:])
		}
	}
	needCA := map[string]bool{}
	res := append([]string(nil), ops...)
	for _, key := range world.SortedKeys(last) {
		k := last[key]
		sp, err := world.ParseIngress(res[k][4:])
		if err != nil {
			continue
		}
		if sp.Annotations == nil {
			sp.Annotations = map[string]string{}
		}
		ch := false
		if i%2 == 0 && r.Chance(1, 2) {
			// a host asking for a client certificate (auth-tls-secret with a CA secret that exists)
			sp.Annotations["auth-tls-secret"] = "ca1"
			needCA[sp.Namespace] = true
			if len(sp.TLS) == 0 && len(sp.Rules) > 0 && sp.Rules[0].Host != "" && r.Chance(2, 3) {
				sp.TLS = append(sp.TLS, world.TLSSpec{Hosts: []string{sp.Rules[0].Host}, Secret: gen.Pick(r, []string{"tls1", "tls2", ""})})
			}
			ch = true
		}
		if r.Chance(1, 4) {
			sp.Annotations["slots-min-free"] = gen.Pick(r, []string{"0", "1", "2"})
			ch = true
		}
		if r.Chance(1, 6) {
			sp.Annotations["backend-server-slots-increment"] = gen.Pick(r, []string{"2", "4"})
			ch = true
		}
		if r.Chance(1, 12) {
			sp.Annotations["dynamic-scaling"] = "false"
			ch = true
		}
		if ch {
			res[k] = res[k][:4] + world.IngressText(sp)
		}
	}
	var pre []string
	for _, ns := range world.SortedKeys(needCA) {
		has := false
		for _, o := range ops {
			has = has || strings.HasPrefix(o, "sec+"+ns+"/ca1!") || strings.HasPrefix(o, "sec~"+ns+"/ca1!")
		}
		if !has {
			pre = append(pre, "sec+"+ns+"/ca1!ca!1!-")
		}
	}
	return append(pre, res...)
}

func c11worldHistory(r *gen.Rng, i int) []string {
	gc := world.DefaultGen()
	gc.Rich = true
	gc.Annots = true
	gc.ConfigMap = i%2 == 0
	gc.Classes = i%3 == 0
	gc.MaxBatches = 3
	g := world.NewGen(r.Fork(), gc)
	ops := c11enrich(r, g.History(), i)
	var pre []string
	if i%5 == 1 {
		pre = append(pre, "opt~shards="+gen.Pick(r, []string{"1", "3"}))
	}
	if i%4 != 0 {
		// start-up mode: one reconcile over the final state; otherwise the history with its partial syncs
		var flat []string
		for _, o := range ops {
			if o != "sync" {
				flat = append(flat, o)
			}
		}
		ops = append(flat, "sync")
	}
	return append(pre, ops...)
}

// c11worldPool computes the cases with a pool of workers and emits them in generation order
func c11worldPool(c *ctx, cases [][]string) []c11wres {
	workers := runtime.NumCPU()
	if workers > 8 {
		workers = 8
	}
	if v, err := strconv.Atoi(os.Getenv("C11_WORKERS")); err == nil && v > 0 {
		workers = v
	}
	res := make([]c11wres, len(cases))
	next := make(chan int)
	done := make(chan bool)
	for w := 0; w < workers; w++ {
		go func() {
			for i := range next {
				res[i] = c11worldRun(cases[i])
			}
			done <- true
		}()
	}
	for i := range cases {
		next <- i
	}
	close(next)
	for w := 0; w < workers; w++ {
		<-done
	}
	for i, r := range res {
		c11worldEmit(c, cases[i], r)
	}
	return res
}

func runC11world(c *ctx, r *gen.Rng) {
	var cases [][]string
	for _, h := range c11worldCorpus {
		cases = append(cases, strings.Fields(h))
	}
	n := 400
	if c.thorough() {
		n = 2500
	}
	for i := 0; i < n; i++ {
		cases = append(cases, c11worldHistory(r, i))
	}
	// external authentication with holes in the auth proxy port list (c11authp.go)
	for _, h := range c11authCorpus {
		cases = append(cases, strings.Fields(h))
	}
	na := 40
	if c.thorough() {
		na = 400
	}
	ra := gen.New(c.seed ^ 0xc11a)
	for i := 0; i < na; i++ {
		cases = append(cases, c11authHistory(ra, i))
	}
	res := c11worldPool(c, cases)
	// minimise what the harness-side reading of the Spec rejects: the minimal history is emitted as one more case
	shrunk := map[string]bool{}
	for i, rs := range res {
		if len(rs.clauses) == 0 || len(shrunk) >= 6 {
			continue
		}
		want := strings.SplitN(rs.clauses[0], ":", 2)[0] + ":"
		min := c11worldShrink(cases[i], want)
		key := strings.Join(min, " ")
		if !shrunk[key] {
			shrunk[key] = true
			c11worldCase(c, min)
			c.stat("world_shrunk", 1)
		}
	}
}

// c11worldShrink minimises a history: the predicate is the harness-side reading of the oracle (some event whose
// clause text contains `want`)
func c11worldShrink(toks []string, want string) []string {
	return world.Shrink(toks, func(o []string) bool {
		r := c11worldRun(o)
		for _, k := range r.clauses {
			if strings.Contains(k, want) {
				return true
			}
		}
		return false
	}, 400)
}
