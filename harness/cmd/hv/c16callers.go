package main

// C16 — the two CALLERS of RebalanceWeight, driven through the real converters.
//
// Both modes run the REAL top-level converters.NewConverter(...).Sync() (gateway converter, then ingress
// converter with its annotation updater) over the repository's own cache mock (pkg/converters/helper_test)
// holding real API objects, against a real haproxy model (haproxy.CreateInstance(...).Config()), and read
// the Weight of every server of the resulting backend.
//
//   C16 gw <K><E> <refs> => none | <ref>,<ref>,...          (one item per backendRef, in order)
//     K     H HTTPRoute | T TCPRoute (v1alpha2)         both go through gateway.go createBackend
//     E     e Endpoints | s EndpointSlices               (ConverterOptions.EnableEPSlices)
//     refs  <weight>:<replicas>[:<skip>] ,...    weight `-` = backendRef.weight nil
//           skip: p backendRef.port nil | s Service missing | q port not declared by the Service
//                 | e Endpoints/EndpointSlices object missing
//     item  `-` no server carries an address of this ref | w.w.w the weights of its servers
//     none  the route's backend does not exist
//   Objects: GatewayClass haproxy, Gateway default/gw (one listener, allowedRoutes from Same), one route
//   default/rt with one rule, Service default/s<i> with <replicas> ready addresses 10.<i+1>.0.<k+1> and
//   one not-ready address 10.<i+1>.9.9 (must never become a server).
//
//   C16 bg <mode> <initial> <ann> <eps> => - | w,w,...      (one weight per endpoint, in order)
//     mode     `-` no blue-green-mode annotation | its value
//     initial  `-` no initial-weight annotation (default 1) | its value
//     ann      `-` no annotation | b:<text> blue-green-balance | d:<text> blue-green-deploy (the alias)
//              | e:<text> blue-green-balance "" plus blue-green-deploy <text>       (%20 = blank)
//     eps      `-` | <r|d>:<pod>,...   r ready, d not ready (drain-support: weight 0 before blue/green)
//              pod: n address without targetRef | m targetRef of a pod that does not exist | 0 pod without
//              labels | k=v+k=v labels of the pod
//   Objects: Ingress default/ing (one path) -> Service default/app:8080, Endpoints with addresses
//   10.0.0.<k+1> (targetRef Pod default/pod<k>), Pods; global config drain-support=true.
//   Output `NOBACKEND` / `w?` when the backend or a server is missing (the driver rejects them).
//   PANIC when the real code panicked.

import (
	"fmt"
	"strconv"
	"strings"

	api "k8s.io/api/core/v1"
	discoveryv1 "k8s.io/api/discovery/v1"
	networking "k8s.io/api/networking/v1"
	metav1 "k8s.io/apimachinery/pkg/apis/meta/v1"
	"k8s.io/apimachinery/pkg/util/intstr"
	gatewayv1 "sigs.k8s.io/gateway-api/apis/v1"
	gatewayv1alpha2 "sigs.k8s.io/gateway-api/apis/v1alpha2"

	"github.com/jcmoraisjr/haproxy-ingress/pkg/converters"
	conv_helper "github.com/jcmoraisjr/haproxy-ingress/pkg/converters/helper_test"
	"github.com/jcmoraisjr/haproxy-ingress/pkg/converters/tracker"
	convtypes "github.com/jcmoraisjr/haproxy-ingress/pkg/converters/types"
	"github.com/jcmoraisjr/haproxy-ingress/pkg/haproxy"
	hatypes "github.com/jcmoraisjr/haproxy-ingress/pkg/haproxy/types"
	"github.com/jcmoraisjr/haproxy-ingress/pkg/utils"

	"hapverif/gen"
	"hapverif/hvutil"
)

const c16Prefix = "haproxy-ingress.github.io"

// ---------------------------------------------------------------- common

func c16Sync(cache *conv_helper.CacheMock, trk convtypes.Tracker, global map[string]string, slices bool) haproxy.Config {
	logger := &hvutil.Logger{}
	hcfg := haproxy.CreateInstance(logger, haproxy.InstanceOptions{}).Config()
	opts := &convtypes.ConverterOptions{
		Cache:            cache,
		Logger:           logger,
		Tracker:          trk,
		DynamicConfig:    &convtypes.DynamicConfig{},
		AnnotationPrefix: []string{c16Prefix},
		FakeCrtFile:      convtypes.CrtFile{Filename: "/tls/fake.pem", SHA1Hash: "1"},
		EnableEPSlices:   slices,
		HasGatewayV1:     true,
		HasTCPRouteA2:    true,
	}
	changed := &convtypes.ChangedObjects{GlobalConfigMapDataNew: global, NeedFullSync: true}
	converters.NewConverter(utils.NewTimer(nil), hcfg, changed, opts).Sync()
	return hcfg
}

func c16AddService(cache *conv_helper.CacheMock, ns, name string, withEndpoints, slices bool, ready, notReady []api.EndpointAddress) {
	svc := &api.Service{
		ObjectMeta: metav1.ObjectMeta{Namespace: ns, Name: name},
		Spec: api.ServiceSpec{Ports: []api.ServicePort{{
			Name: "p", Port: 8080, Protocol: api.ProtocolTCP, TargetPort: intstr.FromInt(8080)}}},
	}
	cache.SvcList = append(cache.SvcList, svc)
	if !withEndpoints {
		return
	}
	key := ns + "/" + name
	if slices {
		pname, pport, proto := "p", int32(8080), api.ProtocolTCP
		t, f := true, false
		sl := &discoveryv1.EndpointSlice{
			ObjectMeta:  metav1.ObjectMeta{Namespace: ns, Name: name + "-1", Labels: map[string]string{discoveryv1.LabelServiceName: name}},
			AddressType: discoveryv1.AddressTypeIPv4,
			Ports:       []discoveryv1.EndpointPort{{Name: &pname, Port: &pport, Protocol: &proto}},
		}
		for _, a := range ready {
			sl.Endpoints = append(sl.Endpoints, discoveryv1.Endpoint{Addresses: []string{a.IP}, Conditions: discoveryv1.EndpointConditions{Ready: &t}, TargetRef: a.TargetRef})
		}
		for _, a := range notReady {
			sl.Endpoints = append(sl.Endpoints, discoveryv1.Endpoint{Addresses: []string{a.IP}, Conditions: discoveryv1.EndpointConditions{Ready: &f}, TargetRef: a.TargetRef})
		}
		if cache.EpsList == nil {
			cache.EpsList = map[string][]*discoveryv1.EndpointSlice{}
		}
		cache.EpsList[key] = []*discoveryv1.EndpointSlice{sl}
		return
	}
	cache.EpList[key] = &api.Endpoints{
		ObjectMeta: metav1.ObjectMeta{Namespace: ns, Name: name},
		Subsets: []api.EndpointSubset{{
			Addresses:         ready,
			NotReadyAddresses: notReady,
			Ports:             []api.EndpointPort{{Name: "p", Port: 8080, Protocol: api.ProtocolTCP}},
		}},
	}
}

// ---------------------------------------------------------------- gateway createBackend

type c16Ref struct {
	Weight   string // "-" = nil
	Replicas int
	Skip     string // "", p, s, q, e
}

func c16RefsText(refs []c16Ref) string {
	s := make([]string, len(refs))
	for i, r := range refs {
		s[i] = r.Weight + ":" + strconv.Itoa(r.Replicas)
		if r.Skip != "" {
			s[i] += ":" + r.Skip
		}
	}
	return strings.Join(s, ",")
}

func c16ParseRefs(s string) ([]c16Ref, bool) {
	var refs []c16Ref
	if s == "-" {
		return nil, true
	}
	for _, t := range strings.Split(s, ",") {
		p := strings.Split(t, ":")
		if len(p) < 2 || len(p) > 3 {
			return nil, false
		}
		n, err := strconv.Atoi(p[1])
		if err != nil {
			return nil, false
		}
		r := c16Ref{Weight: p[0], Replicas: n}
		if len(p) == 3 {
			r.Skip = p[2]
		}
		refs = append(refs, r)
	}
	return refs, true
}

func c16gwRun(kind string, refs []c16Ref) (out string) {
	defer func() {
		if r := recover(); r != nil {
			out = "PANIC"
		}
	}()
	tcp, slices := kind[0] == 'T', kind[1] == 's'
	trk := tracker.NewTracker()
	cache := conv_helper.NewCacheMock(trk)
	cache.GatewayClassList = append(cache.GatewayClassList, &gatewayv1.GatewayClass{
		TypeMeta:   metav1.TypeMeta{APIVersion: "gateway.networking.k8s.io/v1", Kind: "GatewayClass"},
		ObjectMeta: metav1.ObjectMeta{Name: "haproxy"},
		Spec:       gatewayv1.GatewayClassSpec{ControllerName: "haproxy-ingress.github.io/controller"},
	})
	from := gatewayv1.NamespacesFromSame
	lst := gatewayv1.Listener{Name: "l1", Port: 80, Protocol: gatewayv1.HTTPProtocolType,
		AllowedRoutes: &gatewayv1.AllowedRoutes{Namespaces: &gatewayv1.RouteNamespaces{From: &from}}}
	if tcp {
		lst.Port, lst.Protocol = 9000, gatewayv1.TCPProtocolType
	}
	cache.GatewayList = append(cache.GatewayList, &gatewayv1.Gateway{
		TypeMeta:   metav1.TypeMeta{APIVersion: "gateway.networking.k8s.io/v1", Kind: "Gateway"},
		ObjectMeta: metav1.ObjectMeta{Namespace: "default", Name: "gw"},
		Spec:       gatewayv1.GatewaySpec{GatewayClassName: "haproxy", Listeners: []gatewayv1.Listener{lst}},
	})
	var brefs []gatewayv1.BackendRef
	for i, r := range refs {
		name := fmt.Sprintf("s%d", i)
		br := gatewayv1.BackendRef{BackendObjectReference: gatewayv1.BackendObjectReference{Name: gatewayv1.ObjectName(name)}}
		port := gatewayv1.PortNumber(8080)
		switch r.Skip {
		case "p":
		case "q":
			port = 9999
			br.Port = &port
		default:
			br.Port = &port
		}
		if r.Weight != "-" {
			w, _ := strconv.Atoi(r.Weight)
			w32 := int32(w)
			br.Weight = &w32
		}
		brefs = append(brefs, br)
		if r.Skip == "s" {
			continue
		}
		var ready []api.EndpointAddress
		for k := 0; k < r.Replicas; k++ {
			ready = append(ready, api.EndpointAddress{IP: fmt.Sprintf("10.%d.0.%d", i+1, k+1)})
		}
		notReady := []api.EndpointAddress{{IP: fmt.Sprintf("10.%d.9.9", i+1)}}
		c16AddService(cache, "default", name, r.Skip != "e", slices, ready, notReady)
	}
	parents := []gatewayv1.ParentReference{{Name: "gw"}}
	if tcp {
		cache.TCPRouteList = append(cache.TCPRouteList, &gatewayv1alpha2.TCPRoute{
			TypeMeta:   metav1.TypeMeta{APIVersion: "gateway.networking.k8s.io/v1alpha2", Kind: "TCPRoute"},
			ObjectMeta: metav1.ObjectMeta{Namespace: "default", Name: "rt"},
			Spec: gatewayv1alpha2.TCPRouteSpec{
				CommonRouteSpec: gatewayv1.CommonRouteSpec{ParentRefs: parents},
				Rules:           []gatewayv1alpha2.TCPRouteRule{{BackendRefs: brefs}},
			},
		})
	} else {
		var hrefs []gatewayv1.HTTPBackendRef
		for _, b := range brefs {
			hrefs = append(hrefs, gatewayv1.HTTPBackendRef{BackendRef: b})
		}
		cache.HTTPRouteList = append(cache.HTTPRouteList, &gatewayv1.HTTPRoute{
			TypeMeta:   metav1.TypeMeta{APIVersion: "gateway.networking.k8s.io/v1", Kind: "HTTPRoute"},
			ObjectMeta: metav1.ObjectMeta{Namespace: "default", Name: "rt"},
			Spec: gatewayv1.HTTPRouteSpec{
				CommonRouteSpec: gatewayv1.CommonRouteSpec{ParentRefs: parents},
				Hostnames:       []gatewayv1.Hostname{"app.local"},
				Rules:           []gatewayv1.HTTPRouteRule{{BackendRefs: hrefs}},
			},
		})
	}
	hcfg := c16Sync(cache, trk, map[string]string{}, slices)
	index := "_rule0"
	if tcp {
		index = "_tcprule0"
	}
	b := hcfg.Backends().FindBackend("default", "rt", index)
	if b == nil {
		return "none"
	}
	per := make([][]string, len(refs))
	for _, ep := range b.Endpoints {
		var i, x, k int
		if n, _ := fmt.Sscanf(ep.IP, "10.%d.%d.%d", &i, &x, &k); n != 3 || i < 1 || i > len(refs) || x != 0 {
			return "w?" // a server that is not a ready address of one of the refs
		}
		per[i-1] = append(per[i-1], strconv.Itoa(ep.Weight))
	}
	items := make([]string, len(refs))
	for i := range per {
		items[i] = "-"
		if len(per[i]) > 0 {
			items[i] = strings.Join(per[i], ".")
		}
	}
	if len(items) == 0 {
		return "-"
	}
	return strings.Join(items, ",")
}

func c16gwCase(c *ctx, kind string, refs []c16Ref) {
	out := c16gwRun(kind, refs)
	txt := c16RefsText(refs)
	if len(refs) == 0 {
		txt = "-"
	}
	c.emit("C16", "gw "+kind+" "+txt, out)
	c.stat("gw_"+kind, 1)
	c.stat(fmt.Sprintf("gw_refs_%d", len(refs)), 1)
	if out == "PANIC" {
		c.stat("gw_panics", 1)
	}
	for _, r := range refs {
		if r.Skip != "" {
			c.stat("gw_skip_"+r.Skip, 1)
		}
		if r.Weight == "-" {
			c.stat("gw_nil_weight_refs", 1)
		}
	}
}

// ---------------------------------------------------------------- blue/green

type c16Ep struct {
	Drain bool
	Pod   string // n | m | 0 | k=v+k=v
}

func c16EpsText(eps []c16Ep) string {
	if len(eps) == 0 {
		return "-"
	}
	s := make([]string, len(eps))
	for i, e := range eps {
		s[i] = "r:" + e.Pod
		if e.Drain {
			s[i] = "d:" + e.Pod
		}
	}
	return strings.Join(s, ",")
}

func c16ParseEps(s string) ([]c16Ep, bool) {
	if s == "-" {
		return nil, true
	}
	var eps []c16Ep
	for _, t := range strings.Split(s, ",") {
		if len(t) < 3 || t[1] != ':' || (t[0] != 'r' && t[0] != 'd') {
			return nil, false
		}
		eps = append(eps, c16Ep{Drain: t[0] == 'd', Pod: t[2:]})
	}
	return eps, true
}

func c16unesc(s string) string { return strings.ReplaceAll(s, "%20", " ") }

func c16bgRun(mode, initial, ann string, eps []c16Ep) (out string) {
	defer func() {
		if r := recover(); r != nil {
			out = "PANIC"
		}
	}()
	trk := tracker.NewTracker()
	cache := conv_helper.NewCacheMock(trk)
	cache.PodList = map[string]*api.Pod{}
	anns := map[string]string{}
	if mode != "-" {
		anns[c16Prefix+"/blue-green-mode"] = c16unesc(mode)
	}
	if initial != "-" {
		anns[c16Prefix+"/initial-weight"] = c16unesc(initial)
	}
	if ann != "-" {
		text := c16unesc(ann[2:])
		switch ann[0] {
		case 'b':
			anns[c16Prefix+"/blue-green-balance"] = text
		case 'd':
			anns[c16Prefix+"/blue-green-deploy"] = text
		case 'e':
			anns[c16Prefix+"/blue-green-balance"] = ""
			anns[c16Prefix+"/blue-green-deploy"] = text
		}
	}
	var ready, notReady []api.EndpointAddress
	for k, e := range eps {
		a := api.EndpointAddress{IP: fmt.Sprintf("10.0.0.%d", k+1)}
		if e.Pod != "n" {
			name := fmt.Sprintf("pod%d", k)
			a.TargetRef = &api.ObjectReference{Kind: "Pod", Namespace: "default", Name: name}
			if e.Pod != "m" {
				pod := &api.Pod{ObjectMeta: metav1.ObjectMeta{Namespace: "default", Name: name, Labels: map[string]string{}},
					Status: api.PodStatus{PodIP: a.IP}}
				if e.Pod != "0" {
					for _, kv := range strings.Split(e.Pod, "+") {
						p := strings.SplitN(kv, "=", 2)
						if len(p) == 2 {
							pod.Labels[p[0]] = p[1]
						}
					}
				}
				cache.PodList["default/"+name] = pod
			}
		}
		if e.Drain {
			notReady = append(notReady, a)
		} else {
			ready = append(ready, a)
		}
	}
	c16AddService(cache, "default", "app", true, false, ready, notReady)
	pt := networking.PathTypePrefix
	cache.IngList = append(cache.IngList, &networking.Ingress{
		ObjectMeta: metav1.ObjectMeta{Namespace: "default", Name: "ing", Annotations: anns},
		Spec: networking.IngressSpec{Rules: []networking.IngressRule{{
			Host: "app.local",
			IngressRuleValue: networking.IngressRuleValue{HTTP: &networking.HTTPIngressRuleValue{
				Paths: []networking.HTTPIngressPath{{Path: "/", PathType: &pt,
					Backend: networking.IngressBackend{Service: &networking.IngressServiceBackend{
						Name: "app", Port: networking.ServiceBackendPort{Number: 8080}}}}},
			}},
		}}},
	})
	hcfg := c16Sync(cache, trk, map[string]string{"drain-support": "true"}, false)
	b := hcfg.Backends().FindBackend("default", "app", "8080")
	if b == nil {
		return "NOBACKEND"
	}
	if len(eps) == 0 {
		if len(b.Endpoints) != 0 {
			return "w?"
		}
		return "-"
	}
	ws := make([]string, len(eps))
	for k := range eps {
		ws[k] = "w?"
	}
	for _, ep := range b.Endpoints {
		var k int
		if n, _ := fmt.Sscanf(ep.IP, "10.0.0.%d", &k); n != 1 || k < 1 || k > len(eps) || ws[k-1] != "w?" {
			return "w?"
		}
		ws[k-1] = strconv.Itoa(ep.Weight)
	}
	return strings.Join(ws, ",")
}

func c16bgCase(c *ctx, mode, initial, ann string, eps []c16Ep) {
	out := c16bgRun(mode, initial, ann, eps)
	c.emit("C16", strings.Join([]string{"bg", mode, initial, ann, c16EpsText(eps)}, " "), out)
	c.stat("bg_mode_"+mode, 1)
	c.stat("bg_ann_"+ann[:1], 1)
	c.stat(fmt.Sprintf("bg_eps_%d", len(eps)), 1)
	if out == "PANIC" {
		c.stat("bg_panics", 1)
	}
	if c16bgOverlap(initial, ann, eps) {
		// a pod matching several entries: outside the property's domain, the oracle judges only the range
		// clause for it (and every clause for the servers / groups the overlap does not touch)
		c.stat("bg_overlap_cases", 1)
	}
}

// c16bgOverlap (statistics only): some non-draining pod matches more than one `label=value=...` item
func c16bgOverlap(initial, ann string, eps []c16Ep) bool {
	if ann == "-" || initial == "0" {
		return false
	}
	var items [][]string
	for _, it := range strings.Split(c16unesc(ann[2:]), ",") {
		if f := strings.Split(it, "="); len(f) == 3 {
			items = append(items, f)
		} else {
			return false
		}
	}
	for _, e := range eps {
		if e.Drain || !strings.Contains(e.Pod, "=") {
			continue
		}
		n := 0
		for _, it := range items {
			for _, kv := range strings.Split(e.Pod, "+") {
				if kv == it[0]+"="+it[1] {
					n++
				}
			}
		}
		if n >= 2 {
			return true
		}
	}
	return false
}

var _ = hatypes.DefaultHost

// ---------------------------------------------------------------- replay

func c16callersReplay(c *ctx, a []string) bool {
	switch {
	case len(a) == 3 && a[0] == "gw" && len(a[1]) == 2:
		if refs, ok := c16ParseRefs(a[2]); ok {
			c16gwCase(c, a[1], refs)
		}
		return true
	case len(a) == 5 && a[0] == "bg":
		if eps, ok := c16ParseEps(a[4]); ok && (a[3] == "-" || (len(a[3]) >= 2 && a[3][1] == ':')) {
			c16bgCase(c, a[1], a[2], a[3], eps)
		}
		return true
	}
	return false
}

// ---------------------------------------------------------------- generators

func c16ref(w string, n int) c16Ref { return c16Ref{Weight: w, Replicas: n} }

// c16pods: n pods labelled g=<group>
func c16pods(group string, n int) []c16Ep {
	var eps []c16Ep
	for i := 0; i < n; i++ {
		eps = append(eps, c16Ep{Pod: "g=" + group})
	}
	return eps
}

func c16CallersCorpus(c *ctx) {
	// the ORDER of the refs matters: a ref without weight after one with an explicit weight must get 1
	c16gwCase(c, "He", []c16Ref{c16ref("3", 1), c16ref("-", 1)})
	c16gwCase(c, "He", []c16Ref{c16ref("-", 1), c16ref("3", 1)})
	c16gwCase(c, "Te", []c16Ref{c16ref("0", 2), c16ref("-", 1), c16ref("5", 3)})
	c16gwCase(c, "Hs", []c16Ref{c16ref("256", 1), c16ref("-", 2), c16ref("-", 1)})
	c16gwCase(c, "He", []c16Ref{{Weight: "7", Replicas: 2, Skip: "s"}, c16ref("-", 1), c16ref("2", 1)})
	c16gwCase(c, "He", []c16Ref{{Weight: "7", Replicas: 2, Skip: "p"}, {Weight: "-", Replicas: 1, Skip: "q"}})
	c16gwCase(c, "He", nil)
	// Gateway API allows weights up to 1000000
	c16gwCase(c, "He", []c16Ref{c16ref("1000000", 3), c16ref("1", 1), c16ref("-", 2)})
	// blue/green: the documented example, both modes
	two := append(c16pods("blue", 1), c16pods("green", 3)...)
	c16bgCase(c, "-", "-", "b:g=blue=1,g=green=4", two)
	c16bgCase(c, "pod", "-", "b:g=blue=1,g=green=4", two)
	c16bgCase(c, "deploy", "100", "d:g=blue=1,g=green=4", two)
	c16bgCase(c, "canary", "128", "e:g=blue=50,g=green=50", two)
	// clamp, malformed
	for _, a := range []string{"b:g=blue=-5,g=green=300", "b:g=blue=x,g=green=1", "b:g=blue,g=green=1", "b:g=blue=1=2", "b:g=blue=1,",
		"b:g=blue=%201", "b:g=blue=+7,g=green=1", "b:g=blue=99999999999999999999", "b:", "d:", "b:g=blue=1_0", "-"} {
		c16bgCase(c, "-", "7", a, two)
		c16bgCase(c, "pod", "7", a, two)
	}
	// draining, no pod, unmatched
	mix := []c16Ep{{Pod: "g=blue"}, {Drain: true, Pod: "g=blue"}, {Pod: "n"}, {Pod: "m"}, {Pod: "0"}, {Pod: "g=red"}, {Pod: "g=green+x=1"}, {Drain: true, Pod: "n"}}
	c16bgCase(c, "-", "50", "b:g=blue=10,g=green=30", mix)
	c16bgCase(c, "pod", "50", "b:g=blue=10,g=green=30", mix)
	// initial-weight 0 / not a number: every server is "draining"
	c16bgCase(c, "-", "0", "b:g=blue=10,g=green=30", two)
	c16bgCase(c, "-", "x", "b:g=blue=10,g=green=30", two)
	// outside the property's quantifier (initial-weight 1..256): correspondence only
	c16bgCase(c, "-", "300", "b:g=blue=10,g=green=30", two)
	c16bgCase(c, "-", "-5", "b:g=blue=10,g=green=30", two)
	// a pod matching TWO entries: outside the property's domain (Props/C16Callers: bg_outside_domain_*), range only
	c16bgCase(c, "-", "-", "b:g=blue=50,c=1=0", []c16Ep{{Pod: "g=blue+c=1"}, {Pod: "g=blue"}})
	c16bgCase(c, "-", "-", "b:c=1=0,g=blue=50", []c16Ep{{Pod: "g=blue+c=1"}, {Pod: "g=blue"}})
	c16bgCase(c, "-", "-", "b:g=blue=50,c=1=10,g=green=50", []c16Ep{{Pod: "g=blue+c=1"}, {Pod: "g=blue"}, {Pod: "g=green"}})
	c16bgCase(c, "pod", "-", "b:g=blue=50,c=1=10", []c16Ep{{Pod: "g=blue+c=1"}, {Pod: "g=blue"}})
	c16bgCase(c, "-", "-", "b:g=blue=50,g=blue=30", c16pods("blue", 2))
}

func c16GwExhaustive(c *ctx) {
	kinds := []string{"He", "Hs", "Te", "Ts"}
	n := 0
	kind := func() string { n++; return kinds[n%4] }
	ws := []string{"-", "0", "1", "3", "128", "256"}
	lmax := 3
	if c.thorough() {
		ws = []string{"-", "0", "1", "2", "3", "7", "100", "128", "255", "256", "1000"}
		lmax = 4
	}
	// two refs, every ordered pair
	for _, w1 := range ws {
		for _, w2 := range ws {
			for l1 := 0; l1 <= lmax; l1++ {
				for l2 := 0; l2 <= lmax; l2++ {
					c16gwCase(c, kind(), []c16Ref{c16ref(w1, l1), c16ref(w2, l2)})
				}
			}
		}
	}
	// three refs
	ws3 := []string{"-", "0", "2", "256"}
	ls3 := []int{0, 1, 3}
	if c.thorough() {
		ws3 = []string{"-", "0", "1", "2", "5", "256"}
		ls3 = []int{0, 1, 2, 3}
	}
	for _, w1 := range ws3 {
		for _, w2 := range ws3 {
			for _, w3 := range ws3 {
				for _, l1 := range ls3 {
					for _, l2 := range ls3 {
						for _, l3 := range ls3 {
							c16gwCase(c, kind(), []c16Ref{c16ref(w1, l1), c16ref(w2, l2), c16ref(w3, l3)})
						}
					}
				}
			}
		}
	}
	// one skipped ref at every position, every skip reason
	for _, sk := range []string{"p", "s", "q", "e"} {
		for pos := 0; pos < 3; pos++ {
			for _, ws := range [][]string{{"5", "-", "2"}, {"-", "5", "-"}, {"0", "-", "3"}, {"-", "-", "-"}, {"128", "0", "-"}} {
				for _, l := range [][]int{{1, 1, 1}, {2, 1, 3}, {0, 2, 1}} {
					refs := []c16Ref{c16ref(ws[0], l[0]), c16ref(ws[1], l[1]), c16ref(ws[2], l[2])}
					refs[pos].Skip = sk
					c16gwCase(c, kind(), refs)
					refs2 := append([]c16Ref(nil), refs...)
					refs2[(pos+1)%3].Skip = sk
					c16gwCase(c, kind(), refs2)
				}
			}
		}
	}
	c.stat("gw_exhaustive", 1)
}

func c16GwRandom(c *ctx, r *gen.Rng, n int) {
	kinds := []string{"He", "Hs", "Te", "Ts"}
	wpool := []string{"-", "-", "-", "0", "1", "2", "3", "5", "7", "50", "100", "127", "128", "255", "256", "257", "1000", "65536", "1000000"}
	for i := 0; i < n; i++ {
		k := r.Range(1, 5)
		refs := make([]c16Ref, k)
		for j := range refs {
			refs[j].Weight = gen.Pick(r, wpool)
			if r.Chance(1, 5) {
				refs[j].Weight = strconv.Itoa(r.Range(0, 256))
			}
			switch r.Intn(4) {
			case 0:
				refs[j].Replicas = r.Range(0, 1)
			case 1:
				refs[j].Replicas = r.Range(1, 12)
			default:
				refs[j].Replicas = r.Range(1, 4)
			}
			if r.Chance(1, 8) {
				refs[j].Skip = gen.Pick(r, []string{"p", "s", "q", "e"})
			}
		}
		c16gwCase(c, gen.Pick(r, kinds), refs)
	}
}

func c16BgExhaustive(c *ctx) {
	ws := []string{"0", "1", "3", "128", "256"}
	lmax := 3
	modes := [][2]string{{"-", "-"}, {"deploy", "100"}, {"pod", "-"}, {"pod", "100"}}
	if c.thorough() {
		ws = []string{"0", "1", "2", "3", "50", "128", "255", "256", "300", "-1"}
		lmax = 4
		modes = append(modes, [2]string{"-", "256"}, [2]string{"deploy", "7"})
	}
	n := 0
	for _, m := range modes {
		for _, w1 := range ws {
			for _, w2 := range ws {
				for l1 := 0; l1 <= lmax; l1++ {
					for l2 := 0; l2 <= lmax; l2++ {
						n++
						// the endpoints of the two groups interleaved or not, with extras every other case
						var eps []c16Ep
						if n%2 == 0 {
							eps = append(c16pods("a", l1), c16pods("b", l2)...)
						} else {
							eps = append(c16pods("b", l2), c16pods("a", l1)...)
						}
						switch n % 4 {
						case 1:
							eps = append(eps, c16Ep{Pod: "g=zz"})
						case 2:
							eps = append([]c16Ep{{Drain: true, Pod: "g=a"}}, eps...)
						case 3:
							eps = append(eps, c16Ep{Pod: "n"}, c16Ep{Drain: true, Pod: "g=b"})
						}
						ann := "b:g=a=" + w1 + ",g=b=" + w2
						if n%7 == 0 {
							ann = "b:g=b=" + w2 + ",g=a=" + w1
						}
						c16bgCase(c, m[0], m[1], ann, eps)
					}
				}
			}
		}
	}
	c.stat("bg_exhaustive", 1)
}

func c16BgRandom(c *ctx, r *gen.Rng, n int) {
	names := []string{"g", "v"}
	values := []string{"a", "b", "c"}
	wpool := []string{"0", "0", "1", "2", "3", "10", "50", "100", "128", "255", "256", "257", "300", "-1", "-5"}
	badItems := []string{"g=a", "g=a=x", "g=a=", "g=a=1=2", "", "g=a=%201", "=", "g=a=1.5", "g=a=0x10"}
	for i := 0; i < n; i++ {
		k := r.Range(1, 4)
		items := make([]string, k)
		for j := range items {
			w := gen.Pick(r, wpool)
			if r.Chance(1, 4) {
				w = strconv.Itoa(r.Range(0, 256))
			}
			items[j] = gen.Pick(r, names) + "=" + gen.Pick(r, values) + "=" + w
		}
		if r.Chance(1, 12) {
			items[r.Intn(k)] = gen.Pick(r, badItems)
		}
		ann := gen.Pick(r, []string{"b:", "b:", "b:", "d:", "e:"}) + strings.Join(items, ",")
		if r.Chance(1, 40) {
			ann = "-"
		}
		ne := r.Range(0, 8)
		eps := make([]c16Ep, ne)
		for j := range eps {
			eps[j].Drain = r.Chance(1, 8)
			switch r.Intn(10) {
			case 0:
				eps[j].Pod = gen.Pick(r, []string{"n", "m", "0"})
			case 1, 2:
				// both labels: may match two entries
				eps[j].Pod = "g=" + gen.Pick(r, values) + "+v=" + gen.Pick(r, values)
			case 3:
				eps[j].Pod = "g=" + gen.Pick(r, []string{"zz", "a"}) + "+x=1"
			default:
				eps[j].Pod = gen.Pick(r, names) + "=" + gen.Pick(r, values)
			}
		}
		mode := gen.Pick(r, []string{"-", "-", "deploy", "pod", "pod", "canary", "Pod"})
		initial := gen.Pick(r, []string{"-", "1", "2", "7", "100", "128", "256"})
		switch r.Intn(20) {
		case 0:
			initial = strconv.Itoa(r.Range(1, 256))
		case 1:
			initial = gen.Pick(r, []string{"0", "x", "300", "-5", ""})
			if initial == "" {
				initial = "%20"
			}
		}
		c16bgCase(c, mode, initial, ann, eps)
	}
}

func runC16Callers(c *ctx) {
	c16CallersCorpus(c)
	c16GwExhaustive(c)
	c16BgExhaustive(c)
	r := gen.New(c.seed ^ 0xC16CA11E)
	ngw, nbg := 1200, 1500
	if c.thorough() {
		ngw, nbg = 30000, 40000
	}
	c16GwRandom(c, r.Fork(), ngw)
	c16BgRandom(c, r.Fork(), nbg)
}
